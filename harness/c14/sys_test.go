package c14

// Second round: histories of ONE turnstone queue in which the tables the pick reads change while
// messages wait, every message enters through a real enqueueing caller of the evm keeper
// (logic call, user contract upload, compass upload, compass handover, valset update), error
// proofs are attested for real (retries), and the relay offer is observed for every validator
// after every step.  Model: Cons/RelaySys.v (case CSys).  Plus the response cap (CCap), the
// ranking overflow witness and the queues that carry no assignee.

import (
	"context"
	"fmt"
	"math/big"
	"math/rand"
	"reflect"
	"sort"
	"strings"
	"testing"
	"time"

	sdkmath "cosmossdk.io/math"
	codectypes "github.com/cosmos/cosmos-sdk/codec/types"
	sdk "github.com/cosmos/cosmos-sdk/types"
	"github.com/palomachain/paloma/v2/verifharness/emit"
	"github.com/palomachain/paloma/v2/x/consensus/keeper/consensus"
	consensustypes "github.com/palomachain/paloma/v2/x/consensus/types"
	evmtypes "github.com/palomachain/paloma/v2/x/evm/types"
	metrixtypes "github.com/palomachain/paloma/v2/x/metrix/types"
	treasurytypes "github.com/palomachain/paloma/v2/x/treasury/types"
	valsettypes "github.com/palomachain/paloma/v2/x/valset/types"
)

var turnNames = map[string]int64{"": 0, "t7": 7, "t8": 8}

type sysEnv struct {
	*env
	t     *testing.T
	p     *pool
	np    int
	chain string
	qn    string
	snap  []sval
	turn  string
	cf    *big.Int
	sf    *big.Int
	sc    *scenario // only .chain is used (coqInputs / eligible)
	first map[uint64]string
	seenF map[uint64]bool // fees already checked
}

func (s *sysEnv) installSnap() {
	snap := &valsettypes.Snapshot{Id: 1, TotalShares: sdkmath.NewInt(int64(len(s.snap)))}
	for _, v := range s.snap {
		val := valsettypes.Validator{Address: s.p.addrs[v.id], ShareCount: sdkmath.NewInt(1), State: valsettypes.ValidatorState_ACTIVE}
		for _, ci := range v.infos {
			x := &valsettypes.ExternalChainInfo{ChainType: "evm", ChainReferenceID: ci.chain, Address: ci.remote}
			for _, tr := range ci.traits {
				x.Traits = append(x.Traits, traitNames[tr])
			}
			val.ExternalChainInfos = append(val.ExternalChainInfos, x)
		}
		snap.Validators = append(snap.Validators, val)
	}
	s.vs.snap = snap
}

func genSval(r *rand.Rand, id int, chain string) sval {
	v := sval{id: id}
	if r.Intn(8) == 0 { // an account on the other chain first
		v.infos = append(v.infos, cinfo{chain: chains[1], remote: remotes[r.Intn(len(remotes))], traits: []int{1}})
	}
	if r.Intn(8) != 0 {
		ci := cinfo{chain: chain, remote: remotes[id%len(remotes)]}
		if r.Intn(2) == 0 {
			ci.traits = append(ci.traits, 1)
		}
		if r.Intn(5) == 0 {
			ci.traits = append([]int{2}, ci.traits...)
		}
		v.infos = append(v.infos, ci)
	}
	return v
}

var niceMult = []int64{5, 10, 11, 20, 30, 15, 10, 10}

func (s *sysEnv) setFee(id int, tenths int64) {
	m := new(big.Int).Mul(bi(tenths), new(big.Int).Div(e18, bi(10)))
	fees := []treasurytypes.RelayerFeeSetting_FeeSetting{{ChainReferenceId: s.chain, Multiplicator: dec(m)}}
	// a case twin of the chain id with another price, in front of or behind the real entry: eligibility and ranking
	// read the entry of exactly this chain, and so must the price attached at the election
	twin := treasurytypes.RelayerFeeSetting_FeeSetting{ChainReferenceId: strings.ToUpper(s.chain), Multiplicator: dec(new(big.Int).Mul(bi(99), new(big.Int).Div(e18, bi(10))))}
	switch (int64(id) + tenths) % 3 {
	case 1:
		fees = append([]treasurytypes.RelayerFeeSetting_FeeSetting{twin}, fees...)
	case 2:
		fees = append(fees, twin)
	}
	if err := s.tre.SetRelayerFee(s.ctx, s.p.addrs[id], &treasurytypes.RelayerFeeSetting{ValAddress: s.p.strs[id], Fees: fees}); err != nil {
		s.t.Fatal(err)
	}
}

func (s *sysEnv) setMetrics(r *rand.Rand, id int) {
	pick := func() *big.Int {
		nice := []int64{0, 5, 9, 10}
		return new(big.Int).Mul(bi(nice[r.Intn(len(nice))]), new(big.Int).Div(e18, bi(10)))
	}
	if err := s.met.VerifSetValidatorMetrics(s.ctx, s.p.addrs[id], &metrixtypes.ValidatorMetrics{
		ValAddress: s.p.strs[id], Uptime: dec(pick()), SuccessRate: dec(pick()), ExecutionTime: sdkmath.NewInt(int64(100 * (1 + r.Intn(4)))), FeatureSet: dec(pick()),
	}); err != nil {
		s.t.Fatal(err)
	}
}

func (s *sysEnv) setFunds() {
	_ = s.tre.SetCommunityFundFee(s.ctx, dec(s.cf).String())
	_ = s.tre.SetSecurityFee(s.ctx, dec(s.sf).String())
}

// tablesCoq reads the tables back through the queries the code itself uses.
func (s *sysEnv) tablesCoq() string {
	sn, ms, fs, w := s.sc.coqInputs(s.t, s.env, s.p)
	return "(" + strings.Join([]string{sn, ms, fs, w, emit.Z(s.cf), emit.Z(s.sf), emit.ZI(turnNames[s.turn])}, ", ") + ")"
}

type srow struct {
	id       uint64
	assignee string
	remote   string
	est      uint64
	req      bool
	pad, er  bool
	fees     *evmtypes.Fees
	kind     string // vu slc usc upl hov
	sender   string
	retries  uint32
	mev      bool
}

func (s *sysEnv) rows() []srow {
	msgs, err := s.cons.GetMessagesFromQueue(s.ctx, s.qn, 0)
	if err != nil {
		s.t.Fatal(err)
	}
	var out []srow
	for _, m := range msgs {
		cm, err := m.ConsensusMsg(theCdc())
		if err != nil {
			s.t.Fatal(err)
		}
		x := cm.(*evmtypes.Message)
		rw := srow{id: m.GetId(), assignee: x.Assignee, remote: x.AssigneeRemoteAddress, est: m.GetGasEstimate(), req: m.GetRequireGasEstimation(),
			pad: m.GetPublicAccessData() != nil, er: m.GetErrorData() != nil}
		switch a := x.Action.(type) {
		case *evmtypes.Message_SubmitLogicCall:
			rw.kind, rw.fees, rw.retries, rw.sender = "slc", a.SubmitLogicCall.Fees, a.SubmitLogicCall.Retries, string(a.SubmitLogicCall.SenderAddress)
			rw.mev = a.SubmitLogicCall.ExecutionRequirements.EnforceMEVRelay
		case *evmtypes.Message_UploadUserSmartContract:
			rw.kind, rw.fees, rw.retries = "usc", a.UploadUserSmartContract.Fees, a.UploadUserSmartContract.Retries
		case *evmtypes.Message_UploadSmartContract:
			rw.kind, rw.retries = "upl", a.UploadSmartContract.Retries
		case *evmtypes.Message_CompassHandover:
			rw.kind = "hov"
		case *evmtypes.Message_UpdateValset:
			rw.kind = "vu"
		}
		out = append(out, rw)
	}
	return out
}

func rowsKey(rs []srow) string {
	var b []string
	for _, r := range rs {
		b = append(b, fmt.Sprintf("%d/%s/%s/%d/%v/%v/%v/%d", r.id, r.assignee, r.remote, r.est, r.pad, r.er, r.fees, r.retries))
	}
	return strings.Join(b, ";")
}

func (s *sysEnv) anyEligible(needMEV bool) (int, bool) {
	for id := 0; id < len(s.p.addrs); id++ {
		if el, _ := s.sc.eligible(s.env, s.p, id, "", needMEV); el {
			return id, true
		}
	}
	return 0, false
}

// handover goes through the hook of the second round if the tree has it (reflection: no compile-time dependency)
func (s *sysEnv) handover(turn string) (bool, error) {
	m := reflect.ValueOf(*s.evm).MethodByName("VerifC14ScheduleCompassHandover")
	if !m.IsValid() {
		return false, nil
	}
	out := m.Call([]reflect.Value{reflect.ValueOf(context.Context(s.ctx)), reflect.ValueOf(s.chain), reflect.ValueOf(turn),
		reflect.ValueOf(&evmtypes.CompassHandover{Id: 1, Deadline: 99})})
	if e, ok := out[1].Interface().(error); ok && e != nil {
		return true, e
	}
	return true, nil
}

func doSys(t *testing.T, run *emit.Run, p *pool, r *rand.Rand, script []string) {
	ts0 := int64(1700000000 + r.Intn(1000))
	s := &sysEnv{env: newEnv(t, 5, ts0), t: t, p: p, np: 6, chain: chains[0], turn: "t7", first: map[uint64]string{}, seenF: map[uint64]bool{}}
	s.qn = turnstoneQueue(s.chain)
	s.sc = &scenario{chain: s.chain}
	scripted := script != nil
	// ---- initial tables ----
	if scripted {
		// the witness of Cons/RelaySysProofs.v: validators 0..3, 2 only on the other chain, 3 without metrics
		s.snap = []sval{
			{id: 0, infos: []cinfo{{chain: s.chain, remote: remotes[0]}}},
			{id: 1, infos: []cinfo{{chain: s.chain, remote: remotes[1], traits: []int{2, 1}}}},
			{id: 2, infos: []cinfo{{chain: chains[1], remote: remotes[2], traits: []int{1}}}},
			{id: 3, infos: []cinfo{{chain: s.chain, remote: remotes[3], traits: []int{1}}}},
		}
		for id := 0; id < 3; id++ {
			if err := s.met.VerifSetValidatorMetrics(s.ctx, p.addrs[id], &metrixtypes.ValidatorMetrics{ValAddress: p.strs[id],
				Uptime: dec(e18), SuccessRate: dec(e18), ExecutionTime: sdkmath.NewInt(100), FeatureSet: dec(e18)}); err != nil {
				t.Fatal(err)
			}
		}
		for id, f := range []int64{10, 20, 10, 10} {
			s.setFee(id, f)
		}
		s.cf, s.sf = new(big.Int).Div(new(big.Int).Mul(e18, bi(3)), bi(100)), new(big.Int).Div(e18, bi(100))
	} else {
		n := 2 + r.Intn(4)
		for _, id := range r.Perm(s.np)[:n] {
			s.snap = append(s.snap, genSval(r, id, s.chain))
		}
		for id := 0; id < s.np; id++ {
			if r.Intn(7) != 0 {
				s.setMetrics(r, id)
			}
			if r.Intn(7) != 0 {
				f := niceMult[r.Intn(len(niceMult))]
				if r.Intn(25) == 0 {
					f = 0
				}
				s.setFee(id, f)
			}
		}
		s.cf = new(big.Int).Rand(r, new(big.Int).Div(e18, bi(10)))
		s.sf = new(big.Int).Rand(r, new(big.Int).Div(e18, bi(10)))
		if r.Intn(15) == 0 {
			s.cf = bi(0)
		}
		if r.Intn(3) == 0 {
			s.cf, s.sf = new(big.Int).Div(new(big.Int).Mul(e18, bi(3)), bi(100)), new(big.Int).Div(e18, bi(100))
		}
	}
	s.setFunds()
	s.installSnap()

	var steps []string
	var ids []uint64
	reported := map[uint64]string{} // id -> report the keeper accepted for it
	var forced []string             // directed tail: report before the election, estimate, end-block
	var forceID uint64
	pickID := func() uint64 {
		if forceID != 0 {
			return forceID
		}
		if len(ids) == 0 || r.Intn(12) == 0 {
			return uint64(1 + r.Intn(10))
		}
		return ids[r.Intn(len(ids))]
	}
	senders := []string{"", "alice", "bob"}
	observe := func(opS string, replay func() map[string]any) {
		rs := s.rows()
		ids = ids[:0]
		var obs []string
		inSnap := map[string]bool{}
		for _, v := range s.snap {
			inSnap[p.strs[v.id]] = true
		}
		for _, rw := range rs {
			ids = append(ids, rw.id)
			if _, known := p.id[rw.assignee]; !known {
				run.Violate("C14:assignee-unknown", fmt.Sprintf("message %d (%s) is assigned to %q, which is no validator of any table", rw.id, rw.kind, rw.assignee), replay())
			}
			if f, ok := s.first[rw.id]; !ok {
				s.first[rw.id] = rw.assignee
			} else if f != rw.assignee {
				run.Violate("C14:assignee-changed", fmt.Sprintf("message %d was assigned to #%d and is now assigned to #%d", rw.id, p.id[f], p.id[rw.assignee]), replay())
			}
			f := "None"
			if rw.fees != nil {
				f = fmt.Sprintf("(Some (%s, %s, %s))", emit.ZU(rw.fees.RelayerFee), emit.ZU(rw.fees.CommunityFee), emit.ZU(rw.fees.SecurityFee))
				if !s.seenF[rw.id] { // first sight = the election just happened: ceilings for ITS assignee on the tables of now
					s.seenF[rw.id] = true
					fm, _ := s.tre.GetRelayerFeesByChainReferenceID(s.ctx, s.chain)
					if mult, ok := fm[rw.assignee]; ok {
						wr := ceilDiv(new(big.Int).Mul(mult.BigInt(), new(big.Int).SetUint64(rw.est)))
						wc := ceilDiv(new(big.Int).Mul(s.cf, wr))
						ws := ceilDiv(new(big.Int).Mul(s.sf, wr))
						if wr.Cmp(new(big.Int).SetUint64(rw.fees.RelayerFee)) != 0 || wc.Cmp(new(big.Int).SetUint64(rw.fees.CommunityFee)) != 0 || ws.Cmp(new(big.Int).SetUint64(rw.fees.SecurityFee)) != 0 {
							run.Violate("C14:queued-fee-not-ceiling", fmt.Sprintf("message %d (assignee #%d, retries %d) carries fees (%d,%d,%d), ceilings for its assignee are (%s,%s,%s)",
								rw.id, p.id[rw.assignee], rw.retries, rw.fees.RelayerFee, rw.fees.CommunityFee, rw.fees.SecurityFee, wr, wc, ws), replay())
						}
					} else {
						run.Violate("C14:fees-without-multiplier", fmt.Sprintf("message %d carries fees but its assignee #%d has no multiplier on record", rw.id, p.id[rw.assignee]), replay())
					}
				}
			}
			if (rw.kind == "slc" || rw.kind == "usc") && ((rw.est > 0) != (rw.fees != nil)) {
				run.Violate("C14:estimate-fees-disagree", fmt.Sprintf("fee-paying message %d (assignee #%d): elected estimate %d but fees %v", rw.id, p.id[rw.assignee], rw.est, rw.fees), replay())
			}
			if what, ok := reported[rw.id]; ok && !rw.pad && !rw.er {
				run.Violate("C14:report-lost", fmt.Sprintf("the %s report accepted for message %d is gone from the queue row", what, rw.id), replay())
			}
			obs = append(obs, emit.Pair(emit.ZU(rw.id), emit.ZI(p.id[rw.assignee]), emit.ZU(rw.est), emit.Bool(rw.pad), emit.Bool(rw.er), f,
				emit.ZI(remoteID(rw.remote)), emit.ZI(int64(rw.retries))))
		}
		var offs []string
		for v := 0; v < s.np; v++ {
			off, err := s.cons.GetMessagesForRelaying(s.ctx, s.qn, p.addrs[v])
			if err != nil {
				t.Fatal(err)
			}
			var oid []string
			for _, m := range off {
				oid = append(oid, emit.ZU(m.GetId()))
				var me *srow
				for j := range rs {
					if rs[j].id == m.GetId() {
						me = &rs[j]
					}
				}
				if me == nil {
					run.Violate("C14:offer-not-in-queue", fmt.Sprintf("message %d offered but not in the queue", m.GetId()), replay())
					continue
				}
				if me.assignee != p.strs[v] || s.first[me.id] != p.strs[v] {
					run.Violate("C14:offer-not-assignee", fmt.Sprintf("message %d (first assigned to #%d, now #%d) offered to #%d", me.id, p.id[s.first[me.id]], p.id[me.assignee], v), replay())
				}
				if me.req && me.est == 0 {
					run.Violate("C14:offer-without-estimate", fmt.Sprintf("message %d offered before its gas estimate is elected", me.id), replay())
				}
				if me.pad || me.er {
					run.Violate("C14:offer-after-report", fmt.Sprintf("message %d offered although it has a delivery/error report", me.id), replay())
				} else if what, ok := reported[me.id]; ok {
					run.Violate("C14:offer-after-report-filed", fmt.Sprintf("message %d offered for relay although a %s report was filed (and accepted) for it earlier; the queue row no longer shows it", me.id, what), replay())
				}
				if (me.kind == "slc" || me.kind == "usc") && me.req && me.fees == nil {
					run.Violate("C14:offer-without-fees", fmt.Sprintf("fee-paying message %d (elected estimate %d) offered to its assignee #%d without fees", me.id, me.est, p.id[me.assignee]), replay())
				}
				for _, o := range rs {
					if o.id >= me.id {
						continue
					}
					if o.kind == "vu" {
						run.Violate("C14:offer-ahead-of-valset", fmt.Sprintf("message %d offered ahead of older valset update %d", me.id, o.id), replay())
					}
					if me.kind == "slc" && me.sender != "" && o.kind == "slc" && o.sender == me.sender && !o.pad && !o.er {
						run.Violate("C14:offer-ahead-of-same-sender", fmt.Sprintf("message %d offered while older message %d of the same sender is pending", me.id, o.id), replay())
					}
				}
				if !inSnap[p.strs[v]] {
					run.Count("sys-offer", "to-departed-assignee")
				} else {
					run.Count("sys-offer", "to-snapshot-member")
				}
			}
			offs = append(offs, emit.List(oid))
		}
		// completeness: everything relayable is offered to its assignee
		for _, me := range rs {
			if me.pad || me.er || (me.req && me.est == 0) {
				continue
			}
			held := false
			for _, o := range rs {
				if o.id >= me.id {
					continue
				}
				if o.kind == "vu" || (me.kind == "slc" && me.sender != "" && o.kind == "slc" && o.sender == me.sender && !o.pad && !o.er) {
					held = true
				}
			}
			if held {
				continue
			}
			off, _ := s.cons.GetMessagesForRelaying(s.ctx, s.qn, p.addrs[p.id[me.assignee]])
			found := false
			for _, m := range off {
				if m.GetId() == me.id {
					found = true
				}
			}
			if !found {
				run.Violate("C14:relayable-message-withheld", fmt.Sprintf("message %d meets every condition but is not offered to its assignee #%d", me.id, p.id[me.assignee]), replay())
			}
		}
		steps = append(steps, emit.Pair(opS, emit.Pair(emit.List(obs), emit.List(offs))))
	}
	mkReplay := func(opS string) func() map[string]any {
		return func() map[string]any {
			return map[string]any{"kind": "sys", "steps": append(append([]string{}, steps...), opS)}
		}
	}

	opS := "(C14.mk_set " + s.tablesCoq() + ")"
	observe(opS, mkReplay(opS))

	nops := 4 + r.Intn(9)
	if scripted {
		nops = len(script)
	}
	retried, departedChange := 0, 0
	for i := 0; i < nops; i++ {
		k := r.Intn(100)
		what := ""
		if scripted {
			what = script[i]
		} else {
			switch {
			case len(ids) == 0 || k < 30:
				what = "request"
			case k < 45:
				what = "tables"
			case k < 60:
				what = "submit"
			case k < 75:
				what = "endblock"
			case k < 86:
				what = "attest-error"
			case k < 91:
				what = "public-access"
			case k < 94:
				what = "error-data"
			default:
				what = "delete"
			}
		}
		if !scripted && len(forced) == 0 && r.Intn(12) == 0 {
			what = "branch"
		}
		forceID = 0
		if !scripted && len(forced) > 0 {
			what = forced[0]
			forced = forced[1:]
			if what != "endblock" && len(ids) > 0 {
				forceID = ids[len(ids)-1]
			}
		}
		ts := ts0 + int64(r.Intn(50))
		if !scripted && r.Intn(6) == 0 {
			ts = int64(r.Intn(7))
		}
		if scripted {
			ts = 1700000000
		}
		s.ctx = s.ctx.WithBlockTime(time.Unix(ts, 0).UTC())
		run.Count("sys-op", strings.SplitN(what, ":", 2)[0])
		switch strings.SplitN(what, ":", 2)[0] {
		case "branch":
			// a store branch at the same height that is DISCARDED (a multi-message tx failing later, CheckTx, simulation):
			// a validator without a fee record upserts one and a message is assigned there.  Nothing of it may be
			// visible to the assignments that follow on the committed context; the model has no step for it.
			recs, _ := s.tre.GetRelayerFees(s.ctx)
			has := map[string]bool{}
			for _, rf := range recs {
				for _, f := range rf.Fees {
					if f.ChainReferenceId == s.chain {
						has[rf.ValAddress] = true
					}
				}
			}
			done := false
			for _, v := range s.snap {
				if has[p.strs[v.id]] {
					continue
				}
				bctx, _ := s.ctx.CacheContext()
				_ = s.tre.SetRelayerFee(bctx, p.addrs[v.id], &treasurytypes.RelayerFeeSetting{ValAddress: p.strs[v.id],
					Fees: []treasurytypes.RelayerFeeSetting_FeeSetting{{ChainReferenceId: s.chain, Multiplicator: dec(new(big.Int).Div(e18, bi(10)))}}})
				func() {
					defer func() { _ = recover() }()
					_, _ = s.evm.AddSmartContractExecutionToConsensus(bctx, s.chain, s.turn, &evmtypes.SubmitLogicCall{HexContractAddress: "0x01", Payload: []byte{9}, SenderAddress: []byte("carol")})
				}()
				done = true
				break
			}
			if done {
				run.Count("sys-branch", "discarded-branch-with-uncommitted-fee")
				forced = []string{"request", "request", "request"}
				nops += 3
			} else {
				run.Count("sys-branch", "no-fee-less-snapshot-validator")
			}
			continue
		case "tables":
			chg := r.Intn(9)
			if scripted {
				chg = 0
			}
			switch chg {
			case 0, 1: // a validator leaves the snapshot (prefer one that holds a message)
				if len(s.snap) > 1 {
					j := r.Intn(len(s.snap))
					if scripted {
						j = 0
					} else {
						for jj, v := range s.snap {
							for _, f := range s.first {
								if f == p.strs[v.id] && r.Intn(2) == 0 {
									j = jj
								}
							}
						}
					}
					s.snap = append(append([]sval{}, s.snap[:j]...), s.snap[j+1:]...)
					departedChange++
				}
			case 2: // a validator joins
				in := map[int]bool{}
				for _, v := range s.snap {
					in[v.id] = true
				}
				for _, id := range r.Perm(s.np) {
					if !in[id] {
						s.snap = append(s.snap, genSval(r, id, s.chain))
						break
					}
				}
			case 3: // an account / trait change
				j := r.Intn(len(s.snap))
				s.snap[j] = genSval(r, s.snap[j].id, s.chain)
			case 4, 5: // a relayer changes its price (rarely to 0: the treasury then refuses to price its messages)
				f := niceMult[r.Intn(len(niceMult))]
				if r.Intn(6) == 0 {
					f = 0
				}
				s.setFee(r.Intn(s.np), f)
			case 6:
				s.setMetrics(r, r.Intn(s.np))
			case 7:
				s.cf = new(big.Int).Rand(r, new(big.Int).Div(e18, bi(10)))
				s.sf = new(big.Int).Rand(r, new(big.Int).Div(e18, bi(10)))
				if r.Intn(4) == 0 { // governance sets a fund fee to "0": GetCombinedFeesForRelay fails for every message
					if r.Intn(2) == 0 {
						s.cf = bi(0)
					} else {
						s.sf = bi(0)
					}
				}
				s.setFunds()
			case 8:
				if s.turn == "t7" {
					s.turn = "t8"
				} else {
					s.turn = "t7"
				}
			}
			s.installSnap()
			opS = "(C14.mk_set " + s.tablesCoq() + ")"
		case "request":
			kind := r.Intn(10)
			if scripted {
				kind = 0
			}
			before := s.rows()
			var err error
			panicked := false
			needMEV := false
			made := true
			func() {
				defer func() {
					if x := recover(); x != nil {
						panicked = true
					}
				}()
				switch {
				case kind < 5:
					sd := senders[r.Intn(len(senders))]
					mev := r.Intn(3) == 0
					turn := s.turn
					if r.Intn(8) == 0 {
						turn = "t8"
					}
					if scripted {
						sd, mev, turn = "alice", false, "t7"
						if what == "request:bob" {
							sd = "bob"
						}
					}
					needMEV = mev
					sdC := "None"
					if sd != "" {
						sdC = fmt.Sprintf("(Some %d)", map[string]int{"alice": 7, "bob": 8}[sd])
					}
					opS = fmt.Sprintf("SRequest (QLogicCall %s %s) %d %s", sdC, emit.Bool(mev), turnNames[turn], emit.ZI(ts))
					_, err = s.evm.AddSmartContractExecutionToConsensus(s.ctx, s.chain, turn, &evmtypes.SubmitLogicCall{
						HexContractAddress: "0x01", Payload: []byte{byte(i)}, SenderAddress: []byte(sd),
						ExecutionRequirements: evmtypes.SubmitLogicCall_ExecutionRequirements{EnforceMEVRelay: mev}})
					run.Count("sys-request", "logic-call")
				case kind < 6:
					opS = fmt.Sprintf("SRequest QUserUpload 0 %s", emit.ZI(ts))
					_, err = s.evm.AddUploadUserSmartContractToConsensus(s.ctx, s.chain, s.turn, &evmtypes.UploadUserSmartContract{Bytecode: []byte{1}, SenderAddress: []byte("alice"), Id: 1})
					run.Count("sys-request", "user-upload")
				case kind < 7:
					opS = fmt.Sprintf("SRequest QCompassUpload 0 %s", emit.ZI(ts))
					_, err = s.evm.AddUploadSmartContractToConsensus(s.ctx, s.chain, &evmtypes.UploadSmartContract{Id: 1, Bytecode: []byte{1}})
					run.Count("sys-request", "compass-upload")
				case kind < 8:
					var ok bool
					ok, err = s.handover(s.turn)
					if !ok {
						made = false
						run.Count("sys-request", "handover-hook-missing")
						return
					}
					opS = fmt.Sprintf("SRequest QHandover 0 %s", emit.ZI(ts))
					run.Count("sys-request", "handover")
				default:
					vid := int64(1 + r.Intn(3))
					opS = fmt.Sprintf("SRequest (QValset %d) 0 %s", vid, emit.ZI(ts))
					err = s.evm.PublishValsetToChain(s.ctx, evmtypes.Valset{ValsetID: uint64(vid), Validators: []string{"0x01"}, Powers: []uint64{1 << 32}},
						&evmtypes.ChainInfo{ChainReferenceID: s.chain, SmartContractAddr: "0xc0", SmartContractUniqueID: []byte(s.turn)})
					run.Count("sys-request", "valset-update")
				}
			}()
			if !made {
				continue
			}
			after := s.rows()
			rp := mkReplay(opS)
			if (err != nil || panicked) && rowsKey(before) != rowsKey(after) {
				run.Violate("C14:failed-request-enqueued", fmt.Sprintf("request failed (%v, panic=%v) but the queue changed", err, panicked), rp())
			}
			if err != nil && !panicked && ts >= 0 {
				if id, ok := s.anyEligible(needMEV); ok {
					run.Violate("C14:eligible-but-rejected", fmt.Sprintf("validator #%d is eligible but the request failed: %v", id, err), rp())
				}
			}
			var maxBefore uint64
			for _, b := range before {
				if b.id > maxBefore {
					maxBefore = b.id
				}
			}
			for _, a := range after {
				if a.id > maxBefore && (a.kind == "slc" || a.kind == "usc") && !scripted && len(forced) == 0 && r.Intn(5) == 0 {
					rk := "error-data"
					if r.Intn(3) == 0 {
						rk = "public-access"
					}
					forced = []string{rk, "submit", "endblock"}
					if r.Intn(2) == 0 {
						forced = []string{"submit", rk, "endblock"}
					}
					nops += 3
					run.Count("sys-directed", "report-before-election")
				}
				if a.id > maxBefore {
					if el, why := s.sc.eligible(s.env, p, int(p.id[a.assignee]), a.remote, needMEV); !el {
						run.Violate("C14:queued-assignee-ineligible", fmt.Sprintf("new message %d (%s) assigned to #%d: %s", a.id, a.kind, p.id[a.assignee], why), rp())
					}
					if a.est != 0 || a.fees != nil {
						run.Violate("C14:new-message-carries-fees", fmt.Sprintf("new message %d enters with estimate %d / fees %v", a.id, a.est, a.fees), rp())
					}
				}
			}
		case "submit":
			id := pickID()
			if scripted && len(ids) > 0 {
				id = ids[len(ids)-1]
			}
			g := uint64(1 + r.Intn(400000))
			if scripted {
				g = 21000
			} else if forceID == 0 && r.Intn(10) == 0 {
				g = 0
			} else if forceID == 0 && r.Intn(12) == 0 {
				g = emit.U64(r) // multiplier x gas may leave 64 bits: the fee step fails for this message only
			}
			for v := range p.addrs { // every validator of the pool: any later snapshot has 100 % of its power behind the estimate
				_ = s.cons.AddMessageGasEstimates(s.ctx, p.addrs[v], []*consensustypes.MsgAddMessageGasEstimates_GasEstimate{{MsgId: id, QueueTypeName: s.qn, Value: g}})
			}
			opS = fmt.Sprintf("SSubmit %d %s", id, emit.ZU(g))
		case "endblock":
			opS = "SEndBlock"
			halted := false
			func() {
				defer func() {
					if x := recover(); x != nil {
						run.Violate("C14:endblock-fee-panic", fmt.Sprintf("CheckAndProcessEstimatedMessages panicked: %v", x), mkReplay(opS)())
						halted = true
					}
				}()
				if err := s.cons.CheckAndProcessEstimatedMessages(s.ctx); err != nil {
					t.Fatal(err)
				}
			}()
			if halted {
				i = nops
				continue
			}
		case "attest-error":
			id := pickID()
			if scripted && len(ids) > 0 {
				id = ids[len(ids)-1]
			}
			before := s.rows()
			if !scripted && r.Intn(2) == 0 { // prefer a logic call that demands MEV, or one that already carries fees
				for _, b := range before {
					if b.kind == "slc" && (b.mev || b.fees != nil) && r.Intn(2) == 0 {
						id = b.id
					}
				}
			}
			opS = fmt.Sprintf("SAttestError %d %s", id, emit.ZI(ts))
			var old *srow
			for j := range before {
				if before[j].id == id {
					old = &before[j]
				}
			}
			proof, err := codectypes.NewAnyWithValue(&evmtypes.SmartContractExecutionErrorProof{ErrorMessage: "boom"})
			if err != nil {
				t.Fatal(err)
			}
			for v := range p.addrs {
				_ = s.cons.AddMessageEvidence(s.ctx, p.addrs[v], &consensustypes.MsgAddEvidence{Proof: proof, MessageID: id, QueueTypeName: s.qn})
			}
			panicked := false
			func() {
				defer func() {
					if x := recover(); x != nil {
						panicked = true
					}
				}()
				if err := s.cons.CheckAndProcessAttestedMessages(s.ctx); err != nil {
					t.Fatal(err)
				}
			}()
			after := s.rows()
			rp := mkReplay(opS)
			if old != nil && !panicked {
				var maxBefore uint64
				for _, b := range before {
					if b.id > maxBefore {
						maxBefore = b.id
					}
				}
				var fresh []srow
				for _, a := range after {
					if a.id == id {
						run.Violate("C14:attested-message-kept", fmt.Sprintf("message %d still queued after its error proof was attested", id), rp())
					}
					if a.id > maxBefore {
						fresh = append(fresh, a)
					}
				}
				retryable := (old.kind == "slc" || old.kind == "usc" || old.kind == "upl") && old.retries < 2
				needMEV := old.mev
				if len(fresh) > 1 || (len(fresh) == 1 && !retryable) {
					run.Violate("C14:unexpected-retry", fmt.Sprintf("error proof on message %d (%s, retries %d) produced %d new messages", id, old.kind, old.retries, len(fresh)), rp())
				}
				if len(fresh) == 1 {
					n := fresh[0]
					retried++
					run.Count("sys-retry", "re-enqueued")
					if n.kind != old.kind || n.retries != old.retries+1 {
						run.Violate("C14:retry-shape", fmt.Sprintf("retry of %d (%s, retries %d) is %d (%s, retries %d)", id, old.kind, old.retries, n.id, n.kind, n.retries), rp())
					}
					if n.fees != nil || n.est != 0 {
						run.Violate("C14:retry-keeps-fees", fmt.Sprintf("retry %d of message %d enters with estimate %d and fees %v (previous assignee #%d)", n.id, id, n.est, n.fees, p.id[old.assignee]), rp())
					}
					if el, why := s.sc.eligible(s.env, p, int(p.id[n.assignee]), n.remote, needMEV); !el {
						run.Violate("C14:retry-assignee-ineligible", fmt.Sprintf("retry %d of message %d assigned to #%d: %s", n.id, id, p.id[n.assignee], why), rp())
					}
					if n.assignee != old.assignee {
						run.Count("sys-retry", "other-assignee")
					}
				} else if retryable {
					run.Count("sys-retry", "pick-failed")
					if idEl, ok := s.anyEligible(needMEV); ok && ts >= 0 {
						run.Violate("C14:eligible-but-rejected", fmt.Sprintf("validator #%d is eligible but the retry of message %d was not enqueued", idEl, id), rp())
					}
				} else {
					run.Count("sys-retry", "not-retried")
				}
			}
		case "public-access":
			id := pickID()
			if err := s.cons.SetMessagePublicAccessData(s.ctx, p.addrs[0], &consensustypes.MsgSetPublicAccessData{MessageID: id, QueueTypeName: s.qn, Data: []byte{2}, ValsetID: 1}); err == nil {
				if _, ok := reported[id]; !ok {
					reported[id] = "delivery"
				}
			}
			opS = fmt.Sprintf("SPublicAccess %d", id)
		case "error-data":
			id := pickID()
			if err := s.cons.SetMessageErrorData(s.ctx, p.addrs[0], &consensustypes.MsgSetErrorData{MessageID: id, QueueTypeName: s.qn, Data: []byte{3}}); err == nil {
				if _, ok := reported[id]; !ok {
					reported[id] = "error"
				}
			}
			opS = fmt.Sprintf("SError %d", id)
		default:
			id := pickID()
			_ = s.cons.DeleteJob(s.ctx, s.qn, id)
			opS = fmt.Sprintf("SDelete %d", id)
		}
		observe(opS, mkReplay(opS))
	}
	if scripted {
		run.Count("departed-assignee", "scripted-witness-replayed")
	}
	run.Case(fmt.Sprintf("C14.CSys %d %d %s", chainID(s.chain), s.np, emit.List(steps)), len(s.first) >= 2 && (retried > 0 || departedChange > 0),
		map[string]any{"sys-history": steps})
}

// ---------- the response cap ----------

func doCap(t *testing.T, run *emit.Run, p *pool, r *rand.Rand) {
	e := newEnv(t, 5, 1700000000)
	chain := chains[0]
	qn := turnstoneQueue(chain)
	e.vs.snap = &valsettypes.Snapshot{Id: 1, TotalShares: sdkmath.NewInt(1), Validators: []valsettypes.Validator{{Address: p.addrs[0], ShareCount: sdkmath.NewInt(1)}}}
	total0 := 0
	var blocks []string
	var all []struct {
		id  uint64
		asg int
		pad bool
	}
	target := 1001 + r.Intn(40)
	for total0 < target {
		asg := 0
		n := 150 + r.Intn(400)
		if r.Intn(3) == 0 {
			asg = 1
			n = 1 + r.Intn(30)
		}
		for j := 0; j < n; j++ {
			id, err := e.cons.PutMessageInQueue(e.ctx, qn, &evmtypes.Message{ChainReferenceID: chain, TurnstoneID: "t", Assignee: p.strs[asg], AssigneeRemoteAddress: remotes[asg],
				Action: &evmtypes.Message_UploadSmartContract{UploadSmartContract: &evmtypes.UploadSmartContract{Id: 1}}}, nil)
			if err != nil {
				t.Fatal(err)
			}
			all = append(all, struct {
				id  uint64
				asg int
				pad bool
			}{id, asg, false})
		}
		if asg == 0 {
			total0 += n
		}
		blocks = append(blocks, emit.Pair(emit.ZI(int64(n)), fmt.Sprintf("(OpPut (KEvm AOther) %d false false)", asg)))
	}
	// a few delivery reports among the first thousand shift the window
	for j := 0; j < r.Intn(4); j++ {
		k := r.Intn(len(all))
		if err := e.cons.SetMessagePublicAccessData(e.ctx, p.addrs[0], &consensustypes.MsgSetPublicAccessData{MessageID: all[k].id, QueueTypeName: qn, Data: []byte{2}, ValsetID: 1}); err == nil {
			all[k].pad = true
		}
		blocks = append(blocks, emit.Pair("1", fmt.Sprintf("(OpPublicAccess %d)", all[k].id)))
	}
	off, err := e.cons.GetMessagesForRelaying(e.ctx, qn, p.addrs[0])
	if err != nil {
		t.Fatal(err)
	}
	// oracle: exactly the first 1000 relayable messages of validator 0, in id order
	var want []uint64
	for _, m := range all {
		if m.asg == 0 && !m.pad && len(want) < 1000 {
			want = append(want, m.id)
		}
	}
	var got []uint64
	for _, m := range off {
		got = append(got, m.GetId())
	}
	replay := map[string]any{"kind": "cap", "blocks": blocks}
	if len(got) > 1000 {
		run.Violate("C14:cap-exceeded", fmt.Sprintf("%d messages returned", len(got)), replay)
	}
	if fmt.Sprint(got) != fmt.Sprint(want) {
		run.Violate("C14:cap-wrong-window", fmt.Sprintf("GetMessagesForRelaying returned %d messages (first %v...), the first 1000 relayable ones are %d (first %v...)", len(got), head(got), len(want), head(want)), replay)
	}
	sort.Slice(got, func(i, j int) bool { return got[i] < got[j] })
	var rg []string
	for i := 0; i < len(got); {
		j := i
		for j+1 < len(got) && got[j+1] == got[j]+1 {
			j++
		}
		rg = append(rg, emit.Pair(emit.ZU(got[i]), emit.ZU(got[j])))
		i = j + 1
	}
	run.Count("cap", fmt.Sprintf("candidates>%d", 1000))
	run.Case(fmt.Sprintf("C14.CCap %s 0 %d %s", emit.List(blocks), len(all), emit.List(rg)), len(want) == 1000, replay)
}

func head(x []uint64) []uint64 {
	if len(x) > 3 {
		return x[:3]
	}
	return x
}

// ---------- the queues whose payload carries no assignee ----------

func doAuxQueues(t *testing.T, run *emit.Run, p *pool) {
	e := newEnv(t, 5, 1700000000)
	chain := chains[0]
	e.vs.snap = &valsettypes.Snapshot{Id: 1, TotalShares: sdkmath.NewInt(2), Validators: []valsettypes.Validator{
		{Address: p.addrs[0], ShareCount: sdkmath.NewInt(1), ExternalChainInfos: []*valsettypes.ExternalChainInfo{{ChainType: "evm", ChainReferenceID: chain, Address: remotes[0]}}},
		{Address: p.addrs[1], ShareCount: sdkmath.NewInt(1), ExternalChainInfos: []*valsettypes.ExternalChainInfo{{ChainType: "evm", ChainReferenceID: chain, Address: remotes[1]}}}}}
	before := turnstoneRows(t, e, p, chain)
	if err := e.evm.CheckExternalBalancesForChain(e.ctx, chain); err != nil {
		t.Fatal(err)
	}
	if err := e.evm.ScheduleReferenceBlockForChain(e.ctx, chain); err != nil {
		t.Fatal(err)
	}
	_ = e.evm.CollectJobFundEvents(e.ctx)
	if rowsCoq(before) != rowsCoq(turnstoneRows(t, e, p, chain)) {
		run.Violate("C14:aux-request-in-turnstone-queue", "a balances / reference-block / collect-funds request changed the turnstone queue", nil)
	}
	for _, sub := range []string{"validators-balances", "reference-block"} {
		qn := consensustypes.Queue(sub, "evm", chain)
		msgs, err := e.cons.GetMessagesFromQueue(e.ctx, qn, 0)
		if err != nil || len(msgs) != 1 {
			run.Count("aux-queue", sub+":unreadable")
			continue
		}
		cm, _ := msgs[0].ConsensusMsg(theCdc())
		if vb, ok := cm.(*evmtypes.ValidatorBalancesAttestation); ok && vb.Assignee != "" {
			run.Violate("C14:aux-payload-assigned", "validator balances request carries an assignee: "+vb.Assignee, nil)
		}
		for v := 0; v < 3; v++ {
			off, _ := e.cons.GetMessagesForRelaying(e.ctx, qn, p.addrs[v])
			if len(off) != 1 {
				run.Violate("C14:aux-payload-not-offered", fmt.Sprintf("%s request not returned to validator #%d", sub, v), nil)
			}
		}
		run.Count("aux-queue", sub+":no-assignee-offered-to-all")
	}
}

// ---------- ranking overflow: the witness of Evm/AssignOvProofs.v on the real keeper ----------

func doOverflowWitness(t *testing.T, run *emit.Run, p *pool) {
	sc := &scenario{metrics: map[int][4]*big.Int{}, fees: map[int]*big.Int{}, feesB: map[int]bool{}, chain: chains[0], ts: 1700000000, req: 1}
	sc.snap = []sval{{id: 0, infos: []cinfo{{chain: chains[0], remote: remotes[0]}}}, {id: 1, infos: []cinfo{{chain: chains[0], remote: remotes[1]}}}}
	sc.metrics[0] = [4]*big.Int{new(big.Int).Set(e18), new(big.Int).Set(e18), bi(100), new(big.Int).Set(e18)}
	sc.metrics[1] = [4]*big.Int{bi(0), bi(0), bi(200), bi(0)}
	sc.fees[0], sc.fees[1] = new(big.Int).Set(e18), new(big.Int).Mul(e18, bi(2))
	huge := new(big.Int).Mul(new(big.Int).Exp(bi(10), bi(77), nil), e18)
	sc.weights = &[5]*big.Int{huge, huge, huge, huge, huge}
	e := newEnv(t, 5, sc.ts)
	sc.install(t, e, p)
	panicked := false
	func() {
		defer func() {
			if x := recover(); x != nil {
				panicked = strings.Contains(fmt.Sprint(x), "overflow")
			}
		}()
		_, _, _ = e.evm.PickValidatorForMessage(e.ctx, sc.chain, nil)
	}()
	run.Count("ranking-overflow", map[bool]string{true: "panic-witnessed (weights 10^77 refused by SetRelayWeights, written raw through the hook)", false: "no-panic"}[panicked])
	doPick(t, run, p, sc, "overflow-witness")
}

var _ = sdk.ValAddress{}

// ---------- a pending valset update behind a backlog of more than one page ----------

// doBacklogValset: 1001..1030 messages of another validator, THEN a pending valset update, THEN messages of the
// polling validator.  Through the real query servers: nothing queued behind the valset update may be offered for
// relay or for gas estimation, however long the backlog in front of it is.
func doBacklogValset(t *testing.T, run *emit.Run, p *pool, r *rand.Rand) {
	e := newEnv(t, 5, 1700000000)
	chain := chains[0]
	qn := turnstoneQueue(chain)
	e.vs.snap = &valsettypes.Snapshot{Id: 1, TotalShares: sdkmath.NewInt(2), Validators: []valsettypes.Validator{
		{Address: p.addrs[0], ShareCount: sdkmath.NewInt(1)}, {Address: p.addrs[1], ShareCount: sdkmath.NewInt(1)}}}
	put := func(asg int, valset bool, opts *consensus.PutOptions) uint64 {
		m := &evmtypes.Message{ChainReferenceID: chain, TurnstoneID: "t", Assignee: p.strs[asg], AssigneeRemoteAddress: remotes[asg],
			Action: &evmtypes.Message_UploadSmartContract{UploadSmartContract: &evmtypes.UploadSmartContract{Id: 1}}}
		if valset {
			m.Action = &evmtypes.Message_UpdateValset{UpdateValset: &evmtypes.UpdateValset{Valset: &evmtypes.Valset{ValsetID: 7}}}
		}
		id, err := e.cons.PutMessageInQueue(e.ctx, qn, m, opts)
		if err != nil {
			t.Fatal(err)
		}
		return id
	}
	n := 1001 + r.Intn(30)
	for j := 0; j < n; j++ {
		put(1, false, nil)
	}
	est := &consensus.PutOptions{RequireSignatures: true, RequireGasEstimation: true}
	vu := put(1, true, est)
	m1 := put(0, false, nil)
	m2 := put(0, false, est)
	blocks := []string{
		emit.Pair(emit.ZI(int64(n)), "(OpPut (KEvm AOther) 1 false false)"),
		emit.Pair("1", "(OpPut (KEvm AUpdateValset) 1 true false)"),
		emit.Pair("1", "(OpPut (KEvm AOther) 0 false false)"),
		emit.Pair("1", "(OpPut (KEvm AOther) 0 true false)"),
	}
	replay := map[string]any{"kind": "backlog-valset", "backlog": n, "valset-update": vu, "later": []uint64{m1, m2}}
	poll := func() (relay, estim []uint64) {
		rr, err := e.cons.QueuedMessagesForRelaying(e.ctx, &consensustypes.QueryQueuedMessagesForRelayingRequest{QueueTypeName: qn, ValAddress: p.addrs[0]})
		if err != nil {
			t.Fatal(err)
		}
		for _, m := range rr.Messages {
			relay = append(relay, m.Id)
		}
		kr, err := e.cons.GetMessagesForRelaying(e.ctx, qn, p.addrs[0])
		if err != nil {
			t.Fatal(err)
		}
		if len(kr) != len(relay) {
			run.Violate("C14:query-server-differs", fmt.Sprintf("QueuedMessagesForRelaying returned %d messages, the keeper %d", len(relay), len(kr)), replay)
		}
		ge, err := e.cons.QueuedMessagesForGasEstimation(e.ctx, &consensustypes.QueryQueuedMessagesForGasEstimationRequest{QueueTypeName: qn, ValAddress: p.addrs[0]})
		if err != nil {
			t.Fatal(err)
		}
		for _, m := range ge.MessagesToEstimate {
			estim = append(estim, m.Id)
		}
		return
	}
	relay, estim := poll()
	for _, id := range relay {
		if id > vu {
			run.Violate("C14:offer-ahead-of-valset", fmt.Sprintf("message %d offered ahead of older valset update %d (which sits behind a backlog of %d messages)", id, vu, n), replay)
		}
	}
	for _, id := range estim {
		if id > vu {
			run.Violate("C14:estimation-ahead-of-valset", fmt.Sprintf("message %d handed out for gas estimation ahead of older valset update %d (behind a backlog of %d messages)", id, vu, n), replay)
		}
	}
	if len(estim) != 1 || estim[0] != vu {
		run.Count("backlog-valset", fmt.Sprintf("estimation-offer=%v", estim))
	}
	rg := func(ids []uint64) string {
		var out []string
		for _, id := range ids {
			out = append(out, emit.Pair(emit.ZU(id), emit.ZU(id)))
		}
		return emit.List(out)
	}
	run.Count("backlog-valset", "valset-update-behind>1000")
	run.Case(fmt.Sprintf("C14.CCap %s 0 %d %s", emit.List(blocks), n+3, rg(relay)), len(relay) == 0, replay)
	// non-vacuity: once the valset update is gone the later message is offered
	if err := e.cons.DeleteJob(e.ctx, qn, vu); err != nil {
		t.Fatal(err)
	}
	relay, _ = poll()
	if len(relay) != 1 || relay[0] != m1 {
		run.Violate("C14:relayable-message-withheld", fmt.Sprintf("after the valset update %d was removed message %d should be the offer of validator #0, got %v", vu, m1, relay), replay)
	}
	blocks = append(blocks, emit.Pair("1", fmt.Sprintf("(OpDelete %d)", vu)))
	run.Case(fmt.Sprintf("C14.CCap %s 0 %d %s", emit.List(blocks), n+2, rg(relay)), len(relay) == 1, replay)
}
