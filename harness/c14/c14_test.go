package c14

import (
	"context"
	"fmt"
	"math/big"
	"math/rand"
	"reflect"
	"sort"
	"strings"
	"testing"
	"time"

	"cosmossdk.io/log"
	sdkmath "cosmossdk.io/math"
	"cosmossdk.io/store"
	"cosmossdk.io/store/metrics"
	storetypes "cosmossdk.io/store/types"
	tmproto "github.com/cometbft/cometbft/proto/tendermint/types"
	tmdb "github.com/cosmos/cosmos-db"
	"github.com/cosmos/cosmos-sdk/codec"
	codectypes "github.com/cosmos/cosmos-sdk/codec/types"
	"github.com/cosmos/cosmos-sdk/runtime"
	sdk "github.com/cosmos/cosmos-sdk/types"
	authcodec "github.com/cosmos/cosmos-sdk/x/auth/codec"
	typesparams "github.com/cosmos/cosmos-sdk/x/params/types"
	chainparams "github.com/palomachain/paloma/v2/app/params"
	xchain "github.com/palomachain/paloma/v2/internal/x-chain"
	"github.com/palomachain/paloma/v2/verifharness/emit"
	consensuskeeper "github.com/palomachain/paloma/v2/x/consensus/keeper"
	"github.com/palomachain/paloma/v2/x/consensus/keeper/consensus"
	consensustypes "github.com/palomachain/paloma/v2/x/consensus/types"
	evmkeeper "github.com/palomachain/paloma/v2/x/evm/keeper"
	evmtypes "github.com/palomachain/paloma/v2/x/evm/types"
	metrixkeeper "github.com/palomachain/paloma/v2/x/metrix/keeper"
	metrixtypes "github.com/palomachain/paloma/v2/x/metrix/types"
	treasurykeeper "github.com/palomachain/paloma/v2/x/treasury/keeper"
	treasurytypes "github.com/palomachain/paloma/v2/x/treasury/types"
	valsettypes "github.com/palomachain/paloma/v2/x/valset/types"
)

// ---------- fake valset keeper: the only collaborator that is not the real keeper ----------

type fakeValset struct{ snap *valsettypes.Snapshot }

func (f *fakeValset) FindSnapshotByID(context.Context, uint64) (*valsettypes.Snapshot, error) {
	return f.snap, nil
}
func (f *fakeValset) GetCurrentSnapshot(context.Context) (*valsettypes.Snapshot, error) {
	return f.snap, nil
}
func (f *fakeValset) SetSnapshotOnChain(context.Context, uint64, string) error { return nil }
func (f *fakeValset) GetLatestSnapshotOnChain(context.Context, string) (*valsettypes.Snapshot, error) {
	return f.snap, nil
}
func (f *fakeValset) KeepValidatorAlive(context.Context, sdk.ValAddress, string) error { return nil }
func (f *fakeValset) Jail(context.Context, sdk.ValAddress, string) error              { return nil }
func (f *fakeValset) IsJailed(context.Context, sdk.ValAddress) (bool, error)           { return false, nil }
func (f *fakeValset) SetValidatorBalance(context.Context, sdk.ValAddress, string, string, string, *big.Int) error {
	return nil
}
func (f *fakeValset) GetValidatorChainInfos(context.Context, sdk.ValAddress) ([]*valsettypes.ExternalChainInfo, error) {
	return nil, nil
}
func (f *fakeValset) GetAllChainInfos(context.Context) ([]*valsettypes.ValidatorExternalAccounts, error) {
	return nil, nil
}
func (f *fakeValset) GetSigningKey(context.Context, sdk.ValAddress, string, string, string) ([]byte, error) {
	return nil, nil
}
func (f *fakeValset) CanAcceptValidator(context.Context, sdk.ValAddress) error { return nil }

// ---------- environment: real evm / consensus / treasury / metrix keepers on one store ----------

type env struct {
	ctx  sdk.Context
	evm  *evmkeeper.Keeper
	cons *consensuskeeper.Keeper
	tre  *treasurykeeper.Keeper
	met  *metrixkeeper.Keeper
	vs   *fakeValset
}

var chains = []string{"chain-a", "chain-b"} // ids 1, 2

func chainID(s string) int64 {
	for i, c := range chains {
		if c == s {
			return int64(i + 1)
		}
	}
	return 99
}

var cdcOnce codec.Codec

func theCdc() codec.Codec {
	if cdcOnce == nil {
		reg := codectypes.NewInterfaceRegistry()
		consensustypes.RegisterInterfaces(reg)
		evmtypes.RegisterInterfaces(reg)
		cdcOnce = codec.NewProtoCodec(reg)
	}
	return cdcOnce
}

func newEnv(t *testing.T, height int64, ts int64) *env {
	keys := map[string]*storetypes.KVStoreKey{}
	db := tmdb.NewMemDB()
	ms := store.NewCommitMultiStore(db, log.NewNopLogger(), metrics.NewNoOpMetrics())
	for _, n := range []string{evmtypes.StoreKey, consensustypes.StoreKey, treasurytypes.StoreKey, metrixtypes.StoreKey} {
		keys[n] = storetypes.NewKVStoreKey(n)
		ms.MountStoreWithDB(keys[n], storetypes.StoreTypeIAVL, db)
	}
	mem := storetypes.NewMemoryStoreKey("mem_verif")
	ms.MountStoreWithDB(mem, storetypes.StoreTypeMemory, nil)
	if err := ms.LoadLatestVersion(); err != nil {
		t.Fatal(err)
	}
	cdc := theCdc()
	sub := func(n string) typesparams.Subspace {
		return typesparams.NewSubspace(cdc, consensustypes.Amino, keys[n], mem, n+"Params")
	}
	ctx := sdk.NewContext(ms, tmproto.Header{Height: height, Time: time.Unix(ts, 0).UTC()}, false, log.NewNopLogger())
	ac := authcodec.NewBech32Codec(chainparams.ValidatorAddressPrefix)
	vs := &fakeValset{}
	reg := consensuskeeper.NewRegistry()
	evmK := &evmkeeper.Keeper{}
	tre := treasurykeeper.NewKeeper(cdc, runtime.NewKVStoreService(keys[treasurytypes.StoreKey]), sub(treasurytypes.StoreKey), nil, nil, evmK)
	met := metrixkeeper.NewKeeper(cdc, runtime.NewKVStoreService(keys[metrixtypes.StoreKey]), sub(metrixtypes.StoreKey), nil, nil, ac)
	cons := consensuskeeper.NewKeeper(cdc, runtime.NewKVStoreService(keys[consensustypes.StoreKey]), sub(consensustypes.StoreKey), vs, reg, tre)
	*evmK = *evmkeeper.NewKeeper(cdc, runtime.NewKVStoreService(keys[evmtypes.StoreKey]), "", cons, vs, ac, &met, *tre)
	cons.LateInject(evmK)
	reg.Add(evmK)
	for i, c := range chains {
		if err := evmK.AddSupportForNewChain(ctx, c, uint64(i+1), 123, "0x1234", big.NewInt(55)); err != nil {
			t.Fatal(err)
		}
	}
	return &env{ctx: ctx, evm: evmK, cons: cons, tre: tre, met: &met, vs: vs}
}

func turnstoneQueue(chain string) string {
	return consensustypes.Queue(evmtypes.ConsensusTurnstoneMessage, xchain.Type("evm"), xchain.ReferenceID(chain))
}
func balancesQueue(chain string) string {
	return consensustypes.Queue(evmkeeper.ConsensusGetValidatorBalances, xchain.Type("evm"), xchain.ReferenceID(chain))
}

// ---------- address pool: ids are ranks of the bech32 strings ----------

type pool struct {
	addrs []sdk.ValAddress
	strs  []string
	id    map[string]int64
}

func newPool(r *rand.Rand, n int) *pool {
	p := &pool{id: map[string]int64{}}
	type ent struct {
		a sdk.ValAddress
		s string
	}
	var es []ent
	seen := map[string]bool{}
	for len(es) < n {
		b := make([]byte, 20)
		r.Read(b)
		a := sdk.ValAddress(b)
		if seen[a.String()] {
			continue
		}
		seen[a.String()] = true
		es = append(es, ent{a, a.String()})
	}
	sort.Slice(es, func(i, j int) bool { return strings.Compare(es[i].s, es[j].s) < 0 })
	for i, e := range es {
		p.addrs = append(p.addrs, e.a)
		p.strs = append(p.strs, e.s)
		p.id[e.s] = int64(i)
	}
	return p
}

var remotes = []string{"0xr0", "0xr1", "0xr2", "0xr3", "0xr4", "0xr5"}

func remoteID(s string) int64 {
	for i, x := range remotes {
		if x == s {
			return int64(i)
		}
	}
	return -1
}

var traitNames = []string{"", valsettypes.PIGEON_TRAIT_MEV, "other", "MEV"} // ids by index; 1 = mev

func dec(raw *big.Int) sdkmath.LegacyDec { return sdkmath.LegacyNewDecFromBigIntWithPrec(raw, 18) }

var e18 = new(big.Int).Exp(big.NewInt(10), big.NewInt(18), nil)

func bi(x int64) *big.Int { return big.NewInt(x) }

// genDecRaw draws a raw decimal with many ties: a few round values, some random fractions, rarely hostile.
func genDecRaw(r *rand.Rand, hostile bool) *big.Int {
	switch k := r.Intn(12); {
	case k < 5:
		nice := []int64{0, 1, 5, 9, 10, 11, 20, 100}
		return new(big.Int).Mul(bi(nice[r.Intn(len(nice))]), new(big.Int).Div(e18, bi(10)))
	case k < 8:
		return new(big.Int).Rand(r, new(big.Int).Mul(e18, bi(2)))
	case k < 10:
		return bi(int64(r.Intn(4)))
	default:
		if !hostile {
			return new(big.Int).Set(e18)
		}
		x := emit.BigUpTo(r, 100)
		if r.Intn(2) == 0 {
			x.Neg(x)
		}
		return x
	}
}

// ---------- a generated pick scenario ----------

type cinfo struct {
	chain  string
	remote string
	traits []int
}
type sval struct {
	id    int
	infos []cinfo
}
type scenario struct {
	snap    []sval
	metrics map[int][4]*big.Int // id -> uptime, success, exec(int), feature
	fees    map[int]*big.Int    // id -> multiplier on chain-a
	feesB   map[int]bool        // has a fee record for chain-b only (no chain-a entry)
	weights *[5]*big.Int        // nil = unset (defaults)
	wSet, wAccepted, wRaw bool  // filled by install: SetRelayWeights was tried / accepted them / they were written raw through the hook
	ts      int64
	req     int // 0 nil, 1 false, 2 true
	chain   string
}

func genScenario(r *rand.Rand, np int, hostile bool) *scenario {
	sc := &scenario{metrics: map[int][4]*big.Int{}, fees: map[int]*big.Int{}, feesB: map[int]bool{}, chain: chains[0]}
	if r.Intn(8) == 0 {
		sc.chain = chains[1]
	}
	n := r.Intn(np + 1)
	if r.Intn(3) > 0 && n < 3 {
		n = 3 + r.Intn(np-2)
	}
	perm := r.Perm(np)[:n]
	mevBias := r.Intn(3)
	for _, id := range perm {
		v := sval{id: id}
		ni := 1
		switch r.Intn(10) {
		case 0:
			ni = 0
		case 1, 2:
			ni = 2 + r.Intn(2)
		}
		for j := 0; j < ni; j++ {
			ci := cinfo{chain: chains[0], remote: remotes[r.Intn(len(remotes))]}
			if r.Intn(6) == 0 {
				ci.chain = chains[1]
			}
			if mevBias > 0 && r.Intn(3) < mevBias {
				ci.traits = append(ci.traits, 1)
			}
			if r.Intn(4) == 0 {
				ci.traits = append([]int{2 + r.Intn(2)}, ci.traits...)
			}
			v.infos = append(v.infos, ci)
		}
		sc.snap = append(sc.snap, v)
	}
	if hostile && len(sc.snap) > 0 && r.Intn(3) == 0 { // duplicated snapshot entry with different infos
		d := sc.snap[r.Intn(len(sc.snap))]
		d2 := sval{id: d.id}
		if r.Intn(2) == 0 {
			d2.infos = []cinfo{{chain: sc.chain, remote: remotes[r.Intn(len(remotes))], traits: []int{r.Intn(3)}}}
		}
		sc.snap = append(sc.snap, d2)
	}
	tieU, tieS, tieE, tieF, tieFee := genDecRaw(r, false), genDecRaw(r, false), bi(int64(r.Intn(500))), genDecRaw(r, false), genDecRaw(r, false)
	tieMode := r.Intn(4) // 0: all distinct-ish, 1: some tie, 2: mostly tie, 3: all tie
	pickv := func(tie *big.Int, gen func() *big.Int) *big.Int {
		if tieMode == 3 || (tieMode > 0 && r.Intn(3) < tieMode) {
			return tie
		}
		return gen()
	}
	for id := 0; id < np; id++ {
		if r.Intn(6) != 0 {
			sc.metrics[id] = [4]*big.Int{
				pickv(tieU, func() *big.Int { return genDecRaw(r, hostile) }),
				pickv(tieS, func() *big.Int { return genDecRaw(r, hostile) }),
				pickv(tieE, func() *big.Int { return bi(int64(r.Intn(2000))) }),
				pickv(tieF, func() *big.Int { return genDecRaw(r, hostile) }),
			}
		}
		switch k := r.Intn(8); {
		case k == 0:
		case k == 1:
			sc.feesB[id] = true
		default:
			sc.fees[id] = pickv(tieFee, func() *big.Int { return genDecRaw(r, hostile) })
		}
	}
	if r.Intn(3) == 0 {
		w := [5]*big.Int{}
		for i := range w {
			switch r.Intn(4) {
			case 0:
				w[i] = bi(0)
			case 1:
				w[i] = new(big.Int).Set(e18)
			default:
				w[i] = new(big.Int).Rand(r, new(big.Int).Mul(e18, bi(3)))
			}
		}
		sc.weights = &w
	}
	if hostile && r.Intn(5) == 0 {
		// weights a RelayWeightsProposal may set (no validation): near the LegacyDec limit the weighted sum overflows
		w := [5]*big.Int{}
		mode := r.Intn(3) // 0: near the LegacyDec limit, 1: around the bound of the validation, 2: a negative one
		for i := range w {
			w[i] = new(big.Int).Set(e18)
			switch mode {
			case 0:
				if r.Intn(4) != 0 {
					w[i] = new(big.Int).Mul(new(big.Int).Exp(bi(10), bi(int64(74+r.Intn(4))), nil), e18)
				}
			case 1:
				if r.Intn(2) == 0 {
					w[i] = new(big.Int).Add(new(big.Int).Mul(bi(1000000), e18), bi(int64(r.Intn(3)-1)))
				}
			default:
				if r.Intn(3) == 0 {
					w[i] = new(big.Int).Neg(new(big.Int).Rand(r, new(big.Int).Mul(e18, bi(2))))
				}
			}
		}
		sc.weights = &w
	}
	switch r.Intn(10) {
	case 0:
		sc.ts = int64(r.Intn(7))
	case 1:
		if hostile {
			sc.ts = -int64(r.Intn(1000)) - 1
		} else {
			sc.ts = 1700000000
		}
	default:
		sc.ts = 1600000000 + r.Int63n(400000000)
	}
	sc.req = r.Intn(3)
	if r.Intn(3) == 0 {
		sc.req = 2
	}
	return sc
}

func (sc *scenario) install(t *testing.T, e *env, p *pool) {
	snap := &valsettypes.Snapshot{Id: 1, TotalShares: sdkmath.NewInt(int64(len(sc.snap)))}
	for _, v := range sc.snap {
		val := valsettypes.Validator{Address: p.addrs[v.id], ShareCount: sdkmath.NewInt(1), State: valsettypes.ValidatorState_ACTIVE}
		for _, ci := range v.infos {
			x := &valsettypes.ExternalChainInfo{ChainType: "evm", ChainReferenceID: ci.chain, Address: ci.remote}
			for _, tr := range ci.traits {
				x.Traits = append(x.Traits, traitNames[tr])
			}
			val.ExternalChainInfos = append(val.ExternalChainInfos, x)
		}
		snap.Validators = append(snap.Validators, val)
	}
	if len(sc.snap) == 0 && sc.ts%2 == 0 {
		e.vs.snap = nil // "no snapshot found"
	} else {
		e.vs.snap = snap
	}
	for id, m := range sc.metrics {
		if err := e.met.VerifSetValidatorMetrics(e.ctx, p.addrs[id], &metrixtypes.ValidatorMetrics{
			ValAddress: p.strs[id], Uptime: dec(m[0]), SuccessRate: dec(m[1]), ExecutionTime: sdkmath.NewIntFromBigInt(m[2]), FeatureSet: dec(m[3]),
		}); err != nil {
			t.Fatal(err)
		}
	}
	for id, f := range sc.fees {
		rfs := &treasurytypes.RelayerFeeSetting{ValAddress: p.strs[id], Fees: []treasurytypes.RelayerFeeSetting_FeeSetting{
			{ChainReferenceId: chains[0], Multiplicator: dec(f)}}}
		if id%2 == 0 { // some settings carry both chains
			rfs.Fees = append([]treasurytypes.RelayerFeeSetting_FeeSetting{{ChainReferenceId: chains[1], Multiplicator: dec(new(big.Int).Add(f, e18))}}, rfs.Fees...)
		}
		if err := e.tre.SetRelayerFee(e.ctx, p.addrs[id], rfs); err != nil {
			t.Fatal(err)
		}
	}
	for id := range sc.feesB {
		rfs := &treasurytypes.RelayerFeeSetting{ValAddress: p.strs[id], Fees: []treasurytypes.RelayerFeeSetting_FeeSetting{
			{ChainReferenceId: chains[1], Multiplicator: dec(e18)}}}
		if err := e.tre.SetRelayerFee(e.ctx, p.addrs[id], rfs); err != nil {
			t.Fatal(err)
		}
	}
	if sc.weights != nil {
		w := sc.weights
		rw := &evmtypes.RelayWeights{
			Fee: dec(w[0]).String(), Uptime: dec(w[1]).String(), SuccessRate: dec(w[2]).String(), ExecutionTime: dec(w[3]).String(), FeatureSet: dec(w[4]).String(),
		}
		// the setter validates (C09 repair): what it refuses is written the way older code stored it, through C09's hook
		sc.wSet = true
		if err := e.evm.SetRelayWeights(e.ctx, sc.chain, rw); err == nil {
			sc.wAccepted = true
		} else {
			m := reflect.ValueOf(*e.evm).MethodByName("VerifC09StoreRelayWeights")
			if !m.IsValid() {
				t.Fatalf("SetRelayWeights refused %v and the raw-weights hook is missing: %v", rw, err)
			}
			if out := m.Call([]reflect.Value{reflect.ValueOf(context.Context(e.ctx)), reflect.ValueOf(sc.chain), reflect.ValueOf(rw)}); !out[0].IsNil() {
				t.Fatal(out[0].Interface())
			}
			sc.wRaw = true
		}
	} else if sc.ts%3 == 0 {
		if err := e.evm.SetRelayWeights(e.ctx, sc.chain, nil); err != nil { // nil weights => ValueOrDefault
			t.Fatal(err)
		}
	}
}

// model inputs, read back through the same queries the code uses (projection of the real tables)
func (sc *scenario) coqInputs(t *testing.T, e *env, p *pool) (sn, ms, fs, w string) {
	var vs []string
	if e.vs.snap != nil {
		for _, v := range e.vs.snap.Validators {
			var is []string
			for _, ci := range v.ExternalChainInfos {
				var trs []string
				for _, tr := range ci.Traits {
					k := 0
					for i, n := range traitNames {
						if n == tr {
							k = i
						}
					}
					trs = append(trs, emit.ZI(int64(k)))
				}
				is = append(is, emit.Pair(emit.ZI(chainID(ci.ChainReferenceID)), emit.ZI(remoteID(ci.Address)), emit.List(trs)))
			}
			vs = append(vs, emit.Pair(emit.ZI(p.id[v.Address.String()]), emit.List(is)))
		}
	}
	sn = emit.List(vs)
	resp, err := e.met.Validators(e.ctx, nil)
	if err != nil {
		t.Fatal(err)
	}
	var mm []string
	for _, m := range resp.ValMetrics {
		mm = append(mm, emit.Pair(emit.ZI(p.id[m.ValAddress]), emit.Z(m.Uptime.BigInt()), emit.Z(m.SuccessRate.BigInt()), emit.Z(m.ExecutionTime.BigInt()), emit.Z(m.FeatureSet.BigInt())))
	}
	ms = emit.List(mm)
	fm, err := e.tre.GetRelayerFeesByChainReferenceID(e.ctx, sc.chain)
	if err != nil {
		t.Fatal(err)
	}
	keys := make([]string, 0, len(fm))
	for k := range fm {
		keys = append(keys, k)
	}
	sort.Strings(keys)
	var ff []string
	for _, k := range keys {
		ff = append(ff, emit.Pair(emit.ZI(p.id[k]), emit.Z(fm[k].BigInt())))
	}
	fs = emit.List(ff)
	rw, err := e.evm.GetRelayWeights(e.ctx, sc.chain)
	if err != nil {
		t.Fatal(err)
	}
	dw, err := rw.ValueOrDefault().DecValues()
	if err != nil {
		t.Fatal(err)
	}
	w = emit.Pair(emit.Z(dw.Fee.BigInt()), emit.Z(dw.Uptime.BigInt()), emit.Z(dw.SuccessRate.BigInt()), emit.Z(dw.ExecutionTime.BigInt()), emit.Z(dw.FeatureSet.BigInt()))
	return
}

func reqOf(k int) *xchain.JobRequirements {
	switch k {
	case 1:
		return &xchain.JobRequirements{EnforceMEVRelay: false}
	case 2:
		return &xchain.JobRequirements{EnforceMEVRelay: true}
	}
	return nil
}
func reqCoq(k int) string {
	switch k {
	case 1:
		return "(Some false)"
	case 2:
		return "(Some true)"
	}
	return "None"
}

func errCode(err error) int64 {
	s := err.Error()
	switch {
	case strings.Contains(s, "no validators eligible for assignment"), strings.Contains(s, "no snapshot found"):
		return 1
	case strings.Contains(s, "no assignable validators for message"):
		return 2
	case strings.Contains(s, "picked validator is missing external address"):
		return 3
	}
	return 50
}

// eligibility oracle, straight from the property statement, on the real tables
func (sc *scenario) eligible(e *env, p *pool, id int, remote string, needMEV bool) (bool, string) {
	addr := p.addrs[id]
	if e.vs.snap == nil {
		return false, "no snapshot"
	}
	inSnap, acct, mev := false, false, false
	for _, v := range e.vs.snap.Validators {
		if !v.Address.Equals(addr) {
			continue
		}
		inSnap = true
		for _, ci := range v.ExternalChainInfos {
			if ci.ChainReferenceID == sc.chain {
				// one entry per address (C10): remote and trait come from the same entry; if a
				// hostile snapshot repeats an address they may come from two of its entries
				// (theorem assignee_eligible_any_snapshot)
				if remote == "" || ci.Address == remote {
					acct = true
				}
				for _, tr := range ci.Traits {
					if tr == valsettypes.PIGEON_TRAIT_MEV {
						mev = true
					}
				}
				break
			}
		}
	}
	if !inSnap {
		return false, "not in the current snapshot"
	}
	if !acct {
		return false, "no account on the target chain with the returned remote address"
	}
	if needMEV && !mev {
		return false, "MEV trait required but not carried"
	}
	m, err := e.met.GetValidatorMetrics(e.ctx, addr)
	if err != nil || m == nil {
		return false, "no performance metrics on record"
	}
	all, err := e.tre.GetRelayerFees(e.ctx)
	if err != nil {
		return false, "fees unreadable"
	}
	hasFee := false
	for _, rfs := range all {
		if rfs.ValAddress != p.strs[id] {
			continue
		}
		for _, f := range rfs.Fees {
			if f.ChainReferenceId == sc.chain {
				hasFee = true
			}
		}
	}
	if !hasFee {
		return false, "no relayer fee on record for the chain"
	}
	return true, ""
}

type qrow struct{ id, assignee, remote int64 }

func turnstoneRows(t *testing.T, e *env, p *pool, chain string) []qrow {
	msgs, err := e.cons.GetMessagesFromQueue(e.ctx, turnstoneQueue(chain), 0)
	if err != nil {
		t.Fatal(err)
	}
	var out []qrow
	for _, m := range msgs {
		cm, err := m.ConsensusMsg(theCdc())
		if err != nil {
			t.Fatal(err)
		}
		em := cm.(*evmtypes.Message)
		out = append(out, qrow{int64(m.GetId()), p.id[em.Assignee], remoteID(em.AssigneeRemoteAddress)})
	}
	return out
}
func rowsCoq(rs []qrow) string {
	var s []string
	for _, r := range rs {
		s = append(s, emit.Pair(emit.ZI(r.id), emit.ZI(r.assignee), emit.ZI(r.remote)))
	}
	return emit.List(s)
}

func doPick(t *testing.T, run *emit.Run, p *pool, sc *scenario, tag string) {
	e := newEnv(t, 5, sc.ts)
	sc.install(t, e, p)
	if sc.wSet {
		maxW := new(big.Int).Mul(bi(1000000), e18)
		inRange := true
		var ws []string
		for _, x := range sc.weights {
			if x.Sign() < 0 || x.Cmp(maxW) > 0 {
				inRange = false
			}
			ws = append(ws, emit.Z(x))
		}
		if inRange != sc.wAccepted {
			run.Violate("C14:weights-validation", fmt.Sprintf("SetRelayWeights accepted=%v for weights %v (each must be a decimal in [0, 10^6])", sc.wAccepted, ws), map[string]any{"kind": "weights", "weights": ws})
		}
		run.Count("weights", map[bool]string{true: "accepted", false: "refused, written raw through the hook"}[sc.wAccepted])
		run.Case(fmt.Sprintf("C14.CWeights %s %s", emit.Pair(ws...), emit.Bool(sc.wAccepted)), true, nil)
	}
	sn, ms, fs, w := sc.coqInputs(t, e, p)
	replay := map[string]any{"kind": "pick", "scenario": fmt.Sprintf("%+v", *sc), "snapshot": sn, "metrics": ms, "fees": fs, "weights": w, "ts": sc.ts, "req": sc.req, "chain": sc.chain}

	// 1. direct pick through the real keeper
	var who, remote string
	var err error
	panicked := false
	func() {
		defer func() {
			if x := recover(); x != nil {
				panicked = true
			}
		}()
		who, remote, err = e.evm.PickValidatorForMessage(e.ctx, sc.chain, reqOf(sc.req))
	}()
	got := ""
	switch {
	case panicked:
		got = "PickPanic"
		run.Count("pick", "panic")
		if sc.ts >= 0 && !sc.wRaw {
			run.Violate("C14:ranking-panic-with-validated-weights", "the pick panicked although the relay weights are the defaults or went through SetRelayWeights", replay)
		}
	case err != nil:
		got = fmt.Sprintf("(PickErr %d)", errCode(err))
		run.Count("pick", fmt.Sprintf("err%d", errCode(err)))
	default:
		id, ok := p.id[who]
		if !ok {
			run.Violate("C14:assignee-unknown", "picked an address that is in no table: "+who, replay)
			id = -1
		}
		got = fmt.Sprintf("(Picked %d %s)", id, emit.ZI(remoteID(remote)))
		run.Count("pick", "ok")
		if ok {
			if el, why := sc.eligible(e, p, int(id), remote, sc.req == 2); !el {
				run.Violate("C14:assignee-ineligible", fmt.Sprintf("validator #%d picked for %s (%s) but %s", id, sc.chain, tag, why), replay)
			}
		}
	}
	if err != nil && !panicked && sc.ts >= 0 {
		// completeness side of the oracle: an error although somebody is eligible
		for id := range p.addrs {
			if el, _ := sc.eligible(e, p, id, "", sc.req == 2); el && noDupSnapshot(sc) {
				run.Violate("C14:eligible-but-rejected", fmt.Sprintf("validator #%d is eligible but the request failed: %v", id, err), replay)
				break
			}
		}
	}
	run.Count("snapshot-size", fmt.Sprint(len(sc.snap)))
	run.Case(fmt.Sprintf("C14.CPick %s %s %s %s %d %s %s %s", sn, ms, fs, w, chainID(sc.chain), reqCoq(sc.req), emit.ZI(sc.ts), got),
		!panicked && err == nil && len(sc.snap) >= 2, replay)

	// 2. the same request through a real enqueueing caller
	if sc.req == 0 {
		return
	}
	var next int64
	npre := int(sc.ts % 3)
	for i := 0; i < npre && i < len(p.addrs); i++ {
		id, perr := e.cons.PutMessageInQueue(e.ctx, turnstoneQueue(sc.chain), &evmtypes.Message{
			ChainReferenceID: sc.chain, TurnstoneID: "t", Assignee: p.strs[i], AssigneeRemoteAddress: remotes[i%len(remotes)],
			Action: &evmtypes.Message_UploadSmartContract{UploadSmartContract: &evmtypes.UploadSmartContract{Id: 1}},
		}, nil)
		if perr != nil {
			t.Fatal(perr)
		}
		next = int64(id)
	}
	before := turnstoneRows(t, e, p, sc.chain)
	var newID uint64
	panicked = false
	func() {
		defer func() {
			if x := recover(); x != nil {
				panicked = true
			}
		}()
		newID, err = e.evm.AddSmartContractExecutionToConsensus(e.ctx, sc.chain, "t", &evmtypes.SubmitLogicCall{
			HexContractAddress: "0x01", Payload: []byte{1}, SenderAddress: []byte("s"),
			ExecutionRequirements: evmtypes.SubmitLogicCall_ExecutionRequirements{EnforceMEVRelay: sc.req == 2},
		})
	}()
	after := turnstoneRows(t, e, p, sc.chain)
	res := int64(newID)
	if panicked {
		res = -100
	} else if err != nil {
		res = -errCode(err)
	}
	if (panicked || err != nil) && rowsCoq(before) != rowsCoq(after) {
		run.Violate("C14:failed-request-enqueued", fmt.Sprintf("request failed (%v) but the queue changed: %s -> %s", err, rowsCoq(before), rowsCoq(after)), replay)
	}
	if !panicked && err == nil {
		if len(after) != len(before)+1 {
			run.Violate("C14:enqueue-count", "successful request did not add exactly one message", replay)
		} else {
			last := after[len(after)-1]
			if el, why := sc.eligible(e, p, int(last.assignee), remotes[last.remote], sc.req == 2); !el {
				run.Violate("C14:queued-assignee-ineligible", fmt.Sprintf("queued message %d assigned to #%d: %s", last.id, last.assignee, why), replay)
			}
		}
	}
	run.Count("enqueue", map[bool]string{true: "ok", false: "failed"}[!panicked && err == nil])
	run.Case(fmt.Sprintf("C14.CEnqueue %s %s %s %s %d %s %s %d %s %s %s", sn, ms, fs, w, chainID(sc.chain), emit.Bool(sc.req == 2), emit.ZI(sc.ts),
		next, rowsCoq(before), rowsCoq(after), emit.ZI(res)), !panicked && err == nil, nil)
}

func noDupSnapshot(sc *scenario) bool {
	seen := map[int]bool{}
	for _, v := range sc.snap {
		if seen[v.id] {
			return false
		}
		seen[v.id] = true
	}
	return true
}

// ---------- rank: scores compared digit for digit ----------

func doRank(t *testing.T, run *emit.Run, p *pool, r *rand.Rand) {
	e := newEnv(t, 5, 1700000000)
	n := 1 + r.Intn(len(p.addrs))
	infos := map[string]evmkeeper.ValidatorInfo{}
	var rows []string
	hostile := r.Intn(6) == 0
	tie := r.Intn(3)
	base := [5]*big.Int{genDecRaw(r, false), genDecRaw(r, false), genDecRaw(r, false), new(big.Int).Mul(bi(int64(r.Intn(500))), e18), genDecRaw(r, false)}
	for _, id := range r.Perm(len(p.addrs))[:n] {
		var v [5]*big.Int
		for k := range v {
			if tie > 0 && r.Intn(3) < tie {
				v[k] = base[k]
			} else if k == 3 {
				v[k] = new(big.Int).Mul(bi(int64(r.Intn(3000))), e18)
			} else {
				v[k] = genDecRaw(r, hostile)
			}
		}
		infos[p.strs[id]] = evmkeeper.ValidatorInfo{Fee: dec(v[0]), Uptime: dec(v[1]), SuccessRate: dec(v[2]), ExecutionTime: dec(v[3]), FeatureSet: dec(v[4])}
		rows = append(rows, emit.Pair(emit.ZI(int64(id)), emit.Z(v[0]), emit.Z(v[1]), emit.Z(v[2]), emit.Z(v[3]), emit.Z(v[4])))
	}
	var w [5]*big.Int
	for i := range w {
		if r.Intn(2) == 0 {
			w[i] = new(big.Int).Set(e18)
		} else {
			w[i] = new(big.Int).Rand(r, new(big.Int).Mul(e18, bi(3)))
		}
	}
	addrs, scores, err := evmkeeper.VerifRankValidators(e.ctx, infos, evmtypes.RelayWeightDec{Fee: dec(w[0]), Uptime: dec(w[1]), SuccessRate: dec(w[2]), ExecutionTime: dec(w[3]), FeatureSet: dec(w[4])})
	if err != nil {
		t.Fatal(err)
	}
	var got []string
	for i := range addrs {
		got = append(got, emit.Pair(emit.ZI(p.id[addrs[i]]), emit.Z(scores[i].BigInt())))
	}
	run.Count("rank-size", fmt.Sprint(n))
	run.Case(fmt.Sprintf("C14.CRank %s %s %s", emit.List(rows), emit.Pair(emit.Z(w[0]), emit.Z(w[1]), emit.Z(w[2]), emit.Z(w[3]), emit.Z(w[4])), emit.List(got)), n >= 2, nil)
}

// ---------- LegacyDec primitives ----------

func genBigSigned(r *rand.Rand, bits int) *big.Int {
	x := emit.BigUpTo(r, bits)
	if r.Intn(3) == 0 {
		x.Neg(x)
	}
	return x
}

func doDec(run *emit.Run, r *rand.Rand) {
	opc := r.Intn(8)
	var a, b *big.Int
	half := new(big.Int).Div(e18, bi(2))
	switch r.Intn(5) {
	case 0: // products / quotients that land exactly on .5 of the last place
		q := genBigSigned(r, 70)
		a = new(big.Int).Add(new(big.Int).Mul(q, e18), half)
		b = new(big.Int).Set(e18)
		if r.Intn(2) == 0 {
			a.Mul(q, bi(2)).Add(a, bi(1)) // odd integer
			b = new(big.Int).Set(half)
			if opc == 1 {
				b = new(big.Int).Mul(e18, bi(2))
			}
		}
	case 1:
		a, b = genBigSigned(r, 330), genBigSigned(r, 80)
	case 2:
		a, b = genBigSigned(r, 130), genBigSigned(r, 200)
	default:
		a, b = genBigSigned(r, 90), genBigSigned(r, 90)
	}
	if opc == 5 { // fee chain: multiplier x uint64 gas
		a = genBigSigned(r, 100)
		if r.Intn(3) > 0 {
			a.Abs(a)
		}
		b = new(big.Int).SetUint64(emit.U64(r))
	}
	if a.BitLen() > 340 {
		a.Rsh(a, 20)
	}
	var out *big.Int
	ok := true
	func() {
		defer func() {
			if x := recover(); x != nil {
				ok = false
			}
		}()
		da := dec(a)
		switch opc {
		case 0:
			out = da.Mul(dec(b)).BigInt()
		case 1:
			out = da.Quo(dec(b)).BigInt()
		case 2:
			out = da.MulInt(sdkmath.NewIntFromBigInt(b)).BigInt()
		case 3:
			out = da.Ceil().BigInt()
		case 4:
			out = da.TruncateInt().BigInt()
		case 5:
			out = new(big.Int).SetUint64(da.MulInt(sdkmath.NewIntFromBigInt(b)).Ceil().TruncateInt().Uint64())
		case 6:
			out = da.Add(dec(b)).BigInt()
		case 7:
			out = da.Sub(dec(b)).BigInt()
		}
	}()
	if opc == 2 && b.BitLen() > 256 { // math.Int itself cannot hold b
		return
	}
	if opc == 4 && a.BitLen() > 315 {
		return
	}
	got := "None"
	if ok {
		got = "(Some " + emit.Z(out) + ")"
	}
	run.Count("dec-op", fmt.Sprintf("%d/%v", opc, ok))
	run.Case(fmt.Sprintf("C14.CDec %d %s %s %s", opc, emit.Z(a), emit.Z(b), got), ok, nil)
}

// ---------- fees through the real consensus keeper + treasury ----------

func ceilDiv(x *big.Int) *big.Int { // ceil(x / 10^18) for any sign
	q, m := new(big.Int).DivMod(x, e18, new(big.Int)) // Euclidean: m >= 0
	if m.Sign() > 0 {
		q.Add(q, bi(1))
	}
	return q
}

func doFees(t *testing.T, run *emit.Run, p *pool, r *rand.Rand) {
	e := newEnv(t, 5, 1700000000)
	mult := genDecRaw(r, r.Intn(5) == 0)
	if r.Intn(3) == 0 {
		mult = new(big.Int).Rand(r, new(big.Int).Mul(e18, bi(5)))
	}
	cf, sf := new(big.Int).Rand(r, e18), new(big.Int).Rand(r, e18)
	if r.Intn(3) == 0 {
		cf = new(big.Int).Div(e18, bi(int64(1+r.Intn(100))))
	}
	if r.Intn(3) == 0 {
		sf = new(big.Int).Div(e18, bi(int64(1+r.Intn(100))))
	}
	gas := emit.U64(r)
	if r.Intn(2) == 0 {
		gas = uint64(r.Intn(3000000))
	}
	if mult.Sign() == 0 || cf.Sign() == 0 || sf.Sign() == 0 {
		run.Count("fees", "zero-setting-skipped")
		return
	}
	id := r.Intn(len(p.addrs))
	if err := e.tre.SetRelayerFee(e.ctx, p.addrs[id], &treasurytypes.RelayerFeeSetting{ValAddress: p.strs[id],
		Fees: []treasurytypes.RelayerFeeSetting_FeeSetting{{ChainReferenceId: chains[0], Multiplicator: dec(mult)}}}); err != nil {
		t.Fatal(err)
	}
	if err := e.tre.SetCommunityFundFee(e.ctx, dec(cf).String()); err != nil {
		t.Fatal(err)
	}
	if err := e.tre.SetSecurityFee(e.ctx, dec(sf).String()); err != nil {
		t.Fatal(err)
	}
	var fees *evmtypes.Fees
	var err error
	ok := true
	replay := map[string]any{"kind": "fees", "mult": mult.String(), "community": cf.String(), "security": sf.String(), "gas": gas}
	func() {
		defer func() {
			if x := recover(); x != nil {
				ok = false
				// since the C09 fix the computation returns an error for every bad factor / overflow
				run.Violate("C14:fee-calc-panic", fmt.Sprintf("calculateFeesForEstimate panicked: %v", x), replay)
			}
		}()
		fees, err = e.cons.VerifCalculateFeesForEstimate(e.ctx, p.addrs[id], chains[0], gas)
	}()
	if err != nil {
		ok = false
	}
	got := "None"
	if ok {
		got = fmt.Sprintf("(Some (%d, %d, %d))", fees.RelayerFee, fees.CommunityFee, fees.SecurityFee)
		// direct oracle: exact ceilings by integer arithmetic
		g := new(big.Int).SetUint64(gas)
		wr := ceilDiv(new(big.Int).Mul(mult, g))
		wc := ceilDiv(new(big.Int).Mul(cf, wr))
		ws := ceilDiv(new(big.Int).Mul(sf, wr))
		if wr.Cmp(new(big.Int).SetUint64(fees.RelayerFee)) != 0 || wc.Cmp(new(big.Int).SetUint64(fees.CommunityFee)) != 0 || ws.Cmp(new(big.Int).SetUint64(fees.SecurityFee)) != 0 {
			run.Violate("C14:fee-not-ceiling", fmt.Sprintf("fees (%d,%d,%d) but ceilings are (%s,%s,%s)", fees.RelayerFee, fees.CommunityFee, fees.SecurityFee, wr, wc, ws), replay)
		}
	}
	run.Count("fees", map[bool]string{true: "ok", false: "error"}[ok])
	run.Case(fmt.Sprintf("C14.CFees %s %s %s %s %s", emit.Z(mult), emit.Z(cf), emit.Z(sf), emit.ZU(gas), got), ok && gas > 0, replay)
}

// ---------- multiplicator validation on submission (real treasury msg server) ----------

func doUpsert(t *testing.T, run *emit.Run, p *pool, r *rand.Rand) {
	e := newEnv(t, 5, 1700000000)
	maxM := new(big.Int).Mul(bi(1000000), e18)
	var m *big.Int
	switch r.Intn(8) {
	case 0:
		m = bi(0)
	case 1:
		m = new(big.Int).Add(maxM, bi(int64(r.Intn(3)-1)))
	case 2:
		m = bi(int64(r.Intn(3) - 1))
	case 3:
		m = new(big.Int).Neg(genDecRaw(r, false))
	case 4:
		m = emit.BigUpTo(r, 120)
	default:
		m = genDecRaw(r, true)
	}
	id := r.Intn(len(p.addrs))
	srv := treasurykeeper.NewMsgServerImpl(*e.tre)
	_, err := srv.UpsertRelayerFee(e.ctx, &treasurytypes.MsgUpsertRelayerFee{FeeSetting: &treasurytypes.RelayerFeeSetting{ValAddress: p.strs[id],
		Fees: []treasurytypes.RelayerFeeSetting_FeeSetting{{ChainReferenceId: chains[0], Multiplicator: dec(m)}}}})
	fm, ferr := e.tre.GetRelayerFeesByChainReferenceID(e.ctx, chains[0])
	if ferr != nil {
		t.Fatal(ferr)
	}
	_, stored := fm[p.strs[id]]
	replay := map[string]any{"kind": "upsert", "multiplicator": m.String()}
	if stored != (err == nil) {
		run.Violate("C14:upsert-outcome-store-disagree", fmt.Sprintf("UpsertRelayerFee(%s) err=%v but stored=%v", m, err, stored), replay)
	}
	if stored && (m.Sign() <= 0 || m.Cmp(maxM) > 0) {
		run.Violate("C14:bad-multiplicator-stored", fmt.Sprintf("multiplicator %s accepted into the store", m), replay)
	}
	run.Count("upsert", map[bool]string{true: "accepted", false: "rejected"}[err == nil])
	run.Case(fmt.Sprintf("C14.CUpsert %s %s", emit.Z(m), emit.Bool(err == nil)), true, replay)
}

// ---------- queue histories ----------

type mirror struct { // what the harness itself knows about every message it put (for the oracle)
	kind   string // "vu", "slc", "upl", "oth", "foreign"
	sender string
}

func doQueue(t *testing.T, run *emit.Run, p *pool, r *rand.Rand, hostile bool) {
	e := newEnv(t, 5, 1700000000)
	nv := 1 + r.Intn(4)
	foreign := r.Intn(8) == 0
	chain := chains[0]
	qn := turnstoneQueue(chain)
	if foreign {
		qn = balancesQueue(chain)
	}
	snap := &valsettypes.Snapshot{Id: 1, TotalShares: sdkmath.NewInt(int64(nv))}
	for i := 0; i < nv; i++ {
		snap.Validators = append(snap.Validators, valsettypes.Validator{Address: p.addrs[i], ShareCount: sdkmath.NewInt(1), State: valsettypes.ValidatorState_ACTIVE,
			ExternalChainInfos: []*valsettypes.ExternalChainInfo{{ChainType: "evm", ChainReferenceID: chain, Address: remotes[i]}}})
	}
	e.vs.snap = snap
	// fee table: validators 0..nv (nv = an outsider that is never in the snapshot)
	var feeRows []string
	for i := 0; i <= nv; i++ {
		if r.Intn(6) == 0 {
			continue // no record at all
		}
		m := new(big.Int).Rand(r, new(big.Int).Mul(e18, bi(3)))
		switch r.Intn(6) {
		case 0:
			m = bi(0)
		case 1:
			m = new(big.Int).Set(e18)
		case 2:
			if hostile {
				m = new(big.Int).Neg(m)
			}
		}
		qfees := []treasurytypes.RelayerFeeSetting_FeeSetting{{ChainReferenceId: chain, Multiplicator: dec(m)}}
		twin := treasurytypes.RelayerFeeSetting_FeeSetting{ChainReferenceId: strings.ToUpper(chain), Multiplicator: dec(new(big.Int).Mul(bi(7), e18))}
		switch r.Intn(3) { // a case twin of the chain id with another price before / after the real entry
		case 1:
			qfees = append([]treasurytypes.RelayerFeeSetting_FeeSetting{twin}, qfees...)
		case 2:
			qfees = append(qfees, twin)
		}
		if err := e.tre.SetRelayerFee(e.ctx, p.addrs[i], &treasurytypes.RelayerFeeSetting{ValAddress: p.strs[i], Fees: qfees}); err != nil {
			t.Fatal(err)
		}
		feeRows = append(feeRows, emit.Pair(emit.ZI(int64(i)), emit.Z(m)))
	}
	cf, sf := new(big.Int).Rand(r, e18), new(big.Int).Rand(r, e18)
	if r.Intn(12) == 0 {
		cf = bi(0)
	}
	_ = e.tre.SetCommunityFundFee(e.ctx, dec(cf).String())
	_ = e.tre.SetSecurityFee(e.ctx, dec(sf).String())
	cfg := emit.Pair(emit.List(feeRows), emit.Z(cf), emit.Z(sf))

	mir := map[uint64]mirror{}
	reported := map[uint64]string{} // id -> which report the keeper ACCEPTED for it (never withdrawn by any operation)
	type forcedOp struct {
		k  int
		id uint64
	}
	var forced []forcedOp // directed tail: report BEFORE the election, then estimate, then end-block
	var forceID uint64
	var ids []uint64
	pickID := func() uint64 {
		if forceID != 0 {
			return forceID
		}
		if len(ids) == 0 || r.Intn(12) == 0 {
			return uint64(1 + r.Intn(12))
		}
		return ids[r.Intn(len(ids))]
	}
	senders := []string{"", "alice", "bob", "carol"}
	nops := 3 + r.Intn(10)
	var steps []string
	puts, rejected, changed := 0, 0, 0
	for i := 0; i < nops; i++ {
		var opS string
		k := r.Intn(100)
		if len(ids) < 2 {
			k = 0
		}
		forceID = 0
		if len(forced) > 0 {
			k, forceID = forced[0].k, forced[0].id
			forced = forced[1:]
		}
		switch {
		case k < 45: // put
			asg := r.Intn(nv + 1)
			req := r.Intn(3) > 0
			pad := r.Intn(10) == 0
			opts := &consensus.PutOptions{RequireSignatures: true, RequireGasEstimation: req}
			if pad {
				opts.PublicAccessData = []byte{1}
			}
			var msg consensus.ConsensusMsg
			var kindS string
			var mr mirror
			if foreign {
				msg = &evmtypes.ValidatorBalancesAttestation{Assignee: p.strs[asg], HexAddresses: []string{"0x1"}, ValAddresses: []sdk.ValAddress{p.addrs[0]}, FromBlockTime: time.Unix(1, 0).UTC()}
				kindS, mr = "KForeign", mirror{kind: "foreign"}
			} else {
				em := &evmtypes.Message{ChainReferenceID: chain, TurnstoneID: "t", Assignee: p.strs[asg], AssigneeRemoteAddress: remotes[asg%len(remotes)]}
				switch a := r.Intn(10); {
				case a < 2:
					em.Action = &evmtypes.Message_UpdateValset{UpdateValset: &evmtypes.UpdateValset{Valset: &evmtypes.Valset{ValsetID: uint64(i + 1)}}}
					kindS, mr = "(KEvm AUpdateValset)", mirror{kind: "vu"}
				case a < 7:
					s := r.Intn(len(senders))
					em.Action = &evmtypes.Message_SubmitLogicCall{SubmitLogicCall: &evmtypes.SubmitLogicCall{HexContractAddress: "0x01", Payload: []byte{byte(i)}, SenderAddress: []byte(senders[s])}}
					if s == 0 {
						kindS = "(KEvm (ASubmitLogicCall None))"
					} else {
						kindS = fmt.Sprintf("(KEvm (ASubmitLogicCall (Some %d)))", s)
					}
					mr = mirror{kind: "slc", sender: senders[s]}
				case a < 8:
					em.Action = &evmtypes.Message_UploadUserSmartContract{UploadUserSmartContract: &evmtypes.UploadUserSmartContract{Bytecode: []byte{1}, SenderAddress: []byte("alice"), Id: 1}}
					kindS, mr = "(KEvm AUploadUserContract)", mirror{kind: "upl"}
				default:
					em.Action = &evmtypes.Message_UploadSmartContract{UploadSmartContract: &evmtypes.UploadSmartContract{Id: 1}}
					kindS, mr = "(KEvm AOther)", mirror{kind: "oth"}
				}
				msg = em
			}
			id, err := e.cons.PutMessageInQueue(e.ctx, qn, msg, opts)
			if err != nil {
				t.Fatalf("put: %v", err)
			}
			ids = append(ids, id)
			mir[id] = mr
			puts++
			if (mr.kind == "slc" || mr.kind == "upl") && req && !pad && len(forced) == 0 && r.Intn(5) == 0 {
				rk := 90 // error report
				if r.Intn(3) == 0 {
					rk = 80 // delivery report
				}
				forced = []forcedOp{{rk, id}, {50, id}, {70, 0}}
				if r.Intn(2) == 0 { // estimate first, report between estimate and election
					forced = []forcedOp{{50, id}, {rk, id}, {70, 0}}
				}
				nops += 3
				run.Count("queue-directed", "report-before-election")
			}
			opS = fmt.Sprintf("OpPut %s %d %s %s", kindS, asg, emit.Bool(req), emit.Bool(pad))
			run.Count("op", "put")
		case k < 60:
			id := pickID()
			g := uint64(1 + r.Intn(400000))
			switch r.Intn(8) {
			case 0:
				g = 0
			case 1:
				g = emit.U64(r)
			}
			if forceID != 0 {
				g = uint64(1 + r.Intn(400000))
			}
			nerr := 0
			for v := 0; v < nv; v++ {
				if err := e.cons.AddMessageGasEstimates(e.ctx, p.addrs[v], []*consensustypes.MsgAddMessageGasEstimates_GasEstimate{{MsgId: id, QueueTypeName: qn, Value: g}}); err != nil {
					nerr++
				}
			}
			if nerr > 0 {
				rejected++
			}
			opS = fmt.Sprintf("OpSubmit %d %s", id, emit.ZU(g))
			run.Count("op", "submit")
		case k < 75:
			halted := false
			func() {
				defer func() {
					if x := recover(); x != nil {
						// a panic inside the end-blocker halts the chain (C09, F6 — repaired on the merged
						// tree: fee arithmetic now returns errors).  Nothing after it is meaningful.
						run.Count("op", "endblock-panic")
						run.Violate("C14:endblock-fee-panic", fmt.Sprintf("CheckAndProcessEstimatedMessages panicked: %v", x),
							map[string]any{"kind": "queue", "config": cfg, "nv": nv, "steps": append([]string{}, steps...)})
						halted = true
					}
				}()
				if err := e.cons.CheckAndProcessEstimatedMessages(e.ctx); err != nil {
					t.Fatal(err)
				}
			}()
			if halted {
				i = nops
				continue
			}
			opS = "OpEndBlock"
			run.Count("op", "endblock")
		case k < 85:
			id := pickID()
			if err := e.cons.SetMessagePublicAccessData(e.ctx, p.addrs[0], &consensustypes.MsgSetPublicAccessData{MessageID: id, QueueTypeName: qn, Data: []byte{2}, ValsetID: 1}); err != nil {
				rejected++
			} else if _, ok := reported[id]; !ok {
				reported[id] = "delivery"
			}
			opS = fmt.Sprintf("OpPublicAccess %d", id)
			run.Count("op", "public-access")
		case k < 93:
			id := pickID()
			if err := e.cons.SetMessageErrorData(e.ctx, p.addrs[0], &consensustypes.MsgSetErrorData{MessageID: id, QueueTypeName: qn, Data: []byte{3}}); err != nil {
				rejected++
			} else if _, ok := reported[id]; !ok {
				reported[id] = "error"
			}
			opS = fmt.Sprintf("OpError %d", id)
			run.Count("op", "error-data")
		default:
			id := pickID()
			if err := e.cons.DeleteJob(e.ctx, qn, id); err != nil {
				rejected++
			} else {
				for j, x := range ids {
					if x == id {
						ids = append(ids[:j], ids[j+1:]...)
						break
					}
				}
			}
			opS = fmt.Sprintf("OpDelete %d", id)
			run.Count("op", "delete")
		}

		// observe the real queue
		msgs, err := e.cons.GetMessagesFromQueue(e.ctx, qn, 0)
		if err != nil {
			t.Fatal(err)
		}
		type row struct {
			id       uint64
			assignee string
			est      uint64
			req      bool
			pad, er  bool
			fees     *evmtypes.Fees
			m        mirror
		}
		var rows []row
		var obs []string
		for _, m := range msgs {
			cm, err := m.ConsensusMsg(theCdc())
			if err != nil {
				t.Fatal(err)
			}
			rw := row{id: m.GetId(), est: m.GetGasEstimate(), req: m.GetRequireGasEstimation(), pad: m.GetPublicAccessData() != nil, er: m.GetErrorData() != nil, m: mir[m.GetId()]}
			switch x := cm.(type) {
			case *evmtypes.Message:
				rw.assignee = x.Assignee
				if slc := x.GetSubmitLogicCall(); slc != nil {
					rw.fees = slc.Fees
				}
				if u := x.GetUploadUserSmartContract(); u != nil {
					rw.fees = u.Fees
				}
			case *evmtypes.ValidatorBalancesAttestation:
				rw.assignee = x.Assignee
			}
			rows = append(rows, rw)
			f := "None"
			if rw.fees != nil {
				f = fmt.Sprintf("(Some (%s, %s, %s))", emit.ZU(rw.fees.RelayerFee), emit.ZU(rw.fees.CommunityFee), emit.ZU(rw.fees.SecurityFee))
				changed++
			}
			obs = append(obs, emit.Pair(emit.ZU(rw.id), emit.ZI(p.id[rw.assignee]), emit.ZU(rw.est), emit.Bool(rw.pad), emit.Bool(rw.er), f))
		}
		var offs []string
		for v := 0; v <= nv; v++ {
			off, err := e.cons.GetMessagesForRelaying(e.ctx, qn, p.addrs[v])
			if err != nil {
				t.Fatal(err)
			}
			var oid []string
			for _, m := range off {
				oid = append(oid, emit.ZU(m.GetId()))
				if foreign {
					continue
				}
				// ---- direct oracle on the real state ----
				var me *row
				for j := range rows {
					if rows[j].id == m.GetId() {
						me = &rows[j]
					}
				}
				replay := map[string]any{"kind": "queue", "config": cfg, "nv": nv, "steps": append(append([]string{}, steps...), opS), "validator": v, "message": m.GetId()}
				if me == nil {
					run.Violate("C14:offer-not-in-queue", fmt.Sprintf("message %d offered but not in the queue", m.GetId()), replay)
					continue
				}
				if me.assignee != p.strs[v] {
					run.Violate("C14:offer-not-assignee", fmt.Sprintf("message %d (assignee #%d) offered to #%d", me.id, p.id[me.assignee], v), replay)
				}
				if me.req && me.est == 0 {
					run.Violate("C14:offer-without-estimate", fmt.Sprintf("message %d offered before its gas estimate is elected", me.id), replay)
				}
				if me.pad || me.er {
					run.Violate("C14:offer-after-report", fmt.Sprintf("message %d offered although it has a delivery/error report", me.id), replay)
				} else if what, ok := reported[me.id]; ok {
					run.Violate("C14:offer-after-report-filed", fmt.Sprintf("message %d offered for relay although a%s report was filed (and accepted) for it earlier; the queue row no longer shows it", me.id, map[string]string{"error": "n error", "delivery": " delivery"}[what]), replay)
				}
				if (me.m.kind == "slc" || me.m.kind == "upl") && me.req && me.fees == nil {
					run.Violate("C14:offer-without-fees", fmt.Sprintf("fee-paying message %d (elected estimate %d) offered to its assignee #%d without fees", me.id, me.est, p.id[me.assignee]), replay)
				}
				for _, o := range rows {
					if o.id >= me.id {
						continue
					}
					if o.m.kind == "vu" {
						run.Violate("C14:offer-ahead-of-valset", fmt.Sprintf("message %d offered ahead of older valset update %d", me.id, o.id), replay)
					}
					if me.m.kind == "slc" && me.m.sender != "" && o.m.kind == "slc" && o.m.sender == me.m.sender && !o.pad && !o.er {
						run.Violate("C14:offer-ahead-of-same-sender", fmt.Sprintf("message %d offered while older message %d of the same sender is pending", me.id, o.id), replay)
					}
				}
				// the fees carried by an offered fee-payer with an elected estimate are the ceilings
				if me.fees != nil && me.est > 0 {
					fm, _ := e.tre.GetRelayerFeesByChainReferenceID(e.ctx, chain)
					if mult, ok := fm[me.assignee]; ok {
						wr := ceilDiv(new(big.Int).Mul(mult.BigInt(), new(big.Int).SetUint64(me.est)))
						wc := ceilDiv(new(big.Int).Mul(cf, wr))
						ws := ceilDiv(new(big.Int).Mul(sf, wr))
						if wr.Cmp(new(big.Int).SetUint64(me.fees.RelayerFee)) != 0 || wc.Cmp(new(big.Int).SetUint64(me.fees.CommunityFee)) != 0 || ws.Cmp(new(big.Int).SetUint64(me.fees.SecurityFee)) != 0 {
							run.Violate("C14:queued-fee-not-ceiling", fmt.Sprintf("message %d carries fees (%d,%d,%d), ceilings are (%s,%s,%s)", me.id, me.fees.RelayerFee, me.fees.CommunityFee, me.fees.SecurityFee, wr, wc, ws), replay)
						}
					}
				}
			}
			offs = append(offs, emit.List(oid))
		}
		// after every step: a fee payer has an elected estimate iff it carries fees (the election is all-or-nothing
		// per message), and an accepted report never disappears from the row
		if !foreign {
			for _, me := range rows {
				rp := map[string]any{"kind": "queue", "config": cfg, "nv": nv, "steps": append(append([]string{}, steps...), opS), "message": me.id}
				if (me.m.kind == "slc" || me.m.kind == "upl") && ((me.est > 0) != (me.fees != nil)) {
					run.Violate("C14:estimate-fees-disagree", fmt.Sprintf("fee-paying message %d (assignee #%d): elected estimate %d but fees %v", me.id, p.id[me.assignee], me.est, me.fees), rp)
				}
				if what, ok := reported[me.id]; ok && !me.pad && !me.er {
					run.Violate("C14:report-lost", fmt.Sprintf("the %s report accepted for message %d is gone from the queue row", what, me.id), rp)
				}
			}
		}
		// completeness side of the oracle: a message meeting every condition is offered to its assignee
		if !foreign {
			for _, me := range rows {
				if me.pad || me.er || (me.req && me.est == 0) {
					continue
				}
				held := false
				for _, o := range rows {
					if o.id >= me.id {
						continue
					}
					if o.m.kind == "vu" {
						held = true
					}
					if me.m.kind == "slc" && me.m.sender != "" && o.m.kind == "slc" && o.m.sender == me.m.sender && !o.pad && !o.er {
						held = true
					}
				}
				if held {
					continue
				}
				off, err := e.cons.GetMessagesForRelaying(e.ctx, qn, p.addrs[p.id[me.assignee]])
				if err != nil {
					t.Fatal(err)
				}
				found := false
				for _, m := range off {
					if m.GetId() == me.id {
						found = true
					}
				}
				if !found {
					run.Violate("C14:relayable-message-withheld", fmt.Sprintf("message %d meets every condition but is not offered to its assignee #%d", me.id, p.id[me.assignee]),
						map[string]any{"kind": "queue", "config": cfg, "nv": nv, "steps": append(append([]string{}, steps...), opS), "message": me.id})
				}
			}
		}
		steps = append(steps, emit.Pair(opS, emit.Pair(emit.List(obs), emit.List(offs))))
	}
	run.Count("queue-kind", map[bool]string{true: "foreign", false: "turnstone"}[foreign])
	run.Case(fmt.Sprintf("C14.CQueue %s %d %s", cfg, nv+1, emit.List(steps)), puts >= 2 && (rejected > 0 || changed > 0), map[string]any{"queue-history": steps})
}

func TestCorr(t *testing.T) {
	run := emit.Start("C14", 1500)
	r := run.Rng
	run.Rule("seeded generator; kinds: LegacyDec primitives (Mul/Quo/MulInt/Ceil/TruncateInt/Add/Sub and the fee chain on boundary-biased operands incl. exact .5 ties and range overflow), " +
		"rankValidators (1..8 validators, tie-heavy metrics, random weights; scores compared exactly), PickValidatorForMessage through the real evm keeper with real treasury+metrix stores " +
		"(0..8 snapshot validators, missing chain accounts / fee records / metrics, MEV trait mixes, duplicate entries, 3 requirement settings, block times incl. small and negative) " +
		"and the same request through AddSmartContractExecutionToConsensus (queue before/after), calculateFeesForEstimate through treasury, and queue histories of 3..12 ops " +
		"(Put of 4 action kinds / foreign payloads, estimates, end-block election with fees, public-access / error reports, delete) with GetMessagesForRelaying per validator after every op; " +
		"system histories of 5..13 ops on one turnstone queue with CHANGING tables (validators leave / join the snapshot, accounts, traits, prices, metrics, fund fees, turnstone id), every message entering through a real " +
		"enqueueing caller (logic call, user upload, compass upload, handover [hook], valset update), error proofs attested through the real attestation router (retries), offers per validator after every op; " +
		"queues of > 1000 relayable messages (response cap); governance-sized relay weights (ranking overflow). " +
		"non-trivial = successful pick among >= 2 validators / history with >= 2 puts and a rejected or fee-setting op / non-panicking arithmetic")
	p := newPool(r, 8)
	search := run.N > 0 && (strings.TrimSpace(getenv("VERIF_SEARCH")) == "1")
	nDec := run.N * 30 / 100
	nRank := run.N * 10 / 100
	nPick := run.N * 30 / 100
	nFees := run.N * 10 / 100
	nQueue := run.N - nDec - nRank - nPick - nFees
	nSys := run.N * 8 / 100
	if search {
		nDec, nRank = nDec/3, nRank/3
		nPick += nDec
		nQueue += nRank
		nSys *= 2
	}
	replayCorpus(t, run, p)
	doReassign(t, run, p)
	// second round: witnesses of the theorems replayed on the real keepers, then the random histories
	doSys(t, run, p, rand.New(rand.NewSource(1)), []string{"request", "tables", "submit", "endblock", "request:bob", "attest-error", "submit", "endblock", "attest-error", "attest-error"})
	doOverflowWitness(t, run, p)
	doAuxQueues(t, run, p)
	nCap := 1 + run.N/4000
	for i := 0; i < nCap; i++ {
		doCap(t, run, p, r)
		doBacklogValset(t, run, p, r)
	}
	for i := 0; i < nDec; i++ {
		doDec(run, r)
	}
	for i := 0; i < nRank; i++ {
		doRank(t, run, p, r)
	}
	for i := 0; i < nPick; i++ {
		hostile := r.Intn(100) < 15
		doPick(t, run, p, genScenario(r, len(p.addrs), hostile), map[bool]string{true: "hostile", false: "valid"}[hostile])
	}
	for i := 0; i < nFees; i++ {
		doFees(t, run, p, r)
	}
	for i := 0; i < nFees/2; i++ {
		doUpsert(t, run, p, r)
	}
	for i := 0; i < nQueue || i < nSys; i++ {
		if i < nQueue {
			doQueue(t, run, p, r, r.Intn(100) < 15)
		}
		if i < nSys { // interleaved so that the shards stay balanced
			doSys(t, run, p, r, nil)
		}
	}
	if err := run.Finish("Base.Dec Evm.Assign Cons.Fees Cons.Relay Cons.RelaySys Corr.C14", "C14.case", "C14.check"); err != nil {
		t.Fatal(err)
	}
}
