package c04

// Second round: the bytes every proof type hands to the grouping (BytesToHash) are inside the model
// (coq/theories/Cons/EvidenceBytes.v).  This file drives the real BytesToHash and the real
// VerifyEvidence with SPLIT VOTES OF FIELD-NEAR-MISS PROOFS: families of proofs of one type that
// differ in one field, or whose adjacent fields exchanged a digit, or that spell "nothing" differently
// (empty / "0" / leading zero), or whose list elements were merged / split.  The oracle requires that
// the validators who submitted a proof with the SAME FIELDS as the winner hold two thirds.

import (
	"context"
	"errors"
	"fmt"
	"math/big"
	"math/rand"
	"os"
	"strconv"
	"strings"
	"testing"

	"cosmossdk.io/log"
	codectypes "github.com/cosmos/cosmos-sdk/codec/types"
	sdk "github.com/cosmos/cosmos-sdk/types"
	"github.com/cosmos/gogoproto/proto"
	"github.com/ethereum/go-ethereum/common"
	ethtypes "github.com/ethereum/go-ethereum/core/types"
	"github.com/palomachain/paloma/v2/util/libcons"
	"github.com/palomachain/paloma/v2/verifharness/emit"
	"github.com/palomachain/paloma/v2/x/consensus/types"
	evmtypes "github.com/palomachain/paloma/v2/x/evm/types"
	valsettypes "github.com/palomachain/paloma/v2/x/valset/types"
)

func ctext(b []byte) string {
	for _, c := range b {
		if c < 0x20 || c > 0x7e {
			return "(C04.TB " + emit.Bytes(b) + ")"
		}
	}
	return "(C04.TS " + emit.Str(string(b)) + ")"
}

// cproof prints the proof as a Corr.C04.cproof: its FIELDS (for a tx proof: the canonical re-encoding
// of the decoded transaction / receipt, which is what BytesToHash concatenates).
func cproof(h evmtypes.Hashable) string {
	switch p := h.(type) {
	case nil:
		return "C04.CPNone"
	case *evmtypes.TxExecutedProof:
		tx, err := p.GetTX()
		if err != nil {
			return "C04.CPNone"
		}
		tb, err := tx.MarshalBinary()
		if err != nil {
			return "C04.CPNone"
		}
		if p.SerializedReceipt == nil {
			return fmt.Sprintf("(C04.CPTx %s None)", ctext(tb))
		}
		rc, err := p.GetReceipt()
		if err != nil {
			return "C04.CPNone"
		}
		rb, err := rc.MarshalBinary()
		if err != nil {
			return "C04.CPNone"
		}
		return fmt.Sprintf("(C04.CPTx %s (Some %s))", ctext(tb), ctext(rb))
	case *evmtypes.SmartContractExecutionErrorProof:
		return fmt.Sprintf("(C04.CPErr %s)", ctext([]byte(p.ErrorMessage)))
	case *evmtypes.ValidatorBalancesAttestationRes:
		items := make([]string, len(p.Balances))
		for i, b := range p.Balances {
			items[i] = ctext([]byte(b))
		}
		return fmt.Sprintf("(C04.CPBal %s %s)", emit.ZU(p.BlockHeight), emit.List(items))
	case *evmtypes.ReferenceBlockAttestationRes:
		return fmt.Sprintf("(C04.CPRef %s %s)", emit.ZU(p.BlockHeight), ctext([]byte(p.BlockHash)))
	}
	panic(fmt.Sprintf("proof type %T has no model", h))
}

func describe(h evmtypes.Hashable) string {
	switch p := h.(type) {
	case nil:
		return "<no proof>"
	case *evmtypes.TxExecutedProof:
		return fmt.Sprintf("TxExecutedProof{tx %x receipt %x (nil=%v)}", p.SerializedTX, p.SerializedReceipt, p.SerializedReceipt == nil)
	case *evmtypes.SmartContractExecutionErrorProof:
		return fmt.Sprintf("SmartContractExecutionErrorProof{%q}", p.ErrorMessage)
	case *evmtypes.ValidatorBalancesAttestationRes:
		return fmt.Sprintf("ValidatorBalancesAttestationRes{height %d balances %q}", p.BlockHeight, p.Balances)
	case *evmtypes.ReferenceBlockAttestationRes:
		return fmt.Sprintf("ReferenceBlockAttestationRes{height %d hash %q}", p.BlockHeight, p.BlockHash)
	}
	return fmt.Sprintf("%T", h)
}

// sameFields: same proof type and the same value in every field.
func sameFields(a, b evmtypes.Hashable) bool {
	if a == nil || b == nil {
		return a == nil && b == nil
	}
	if tagOf(a) != tagOf(b) {
		return false
	}
	if x, ok := a.(*evmtypes.TxExecutedProof); ok {
		y := b.(*evmtypes.TxExecutedProof)
		return string(x.SerializedTX) == string(y.SerializedTX) && string(x.SerializedReceipt) == string(y.SerializedReceipt) &&
			(x.SerializedReceipt == nil) == (y.SerializedReceipt == nil)
	}
	ab, err1 := proto.Marshal(a.(proto.Message))
	bb, err2 := proto.Marshal(b.(proto.Message))
	if err1 != nil || err2 != nil {
		panic("marshal")
	}
	if x, ok := a.(*evmtypes.ValidatorBalancesAttestationRes); ok { // empty trailing strings are on the wire, but be explicit
		y := b.(*evmtypes.ValidatorBalancesAttestationRes)
		if x.BlockHeight != y.BlockHeight || len(x.Balances) != len(y.Balances) {
			return false
		}
		for i := range x.Balances {
			if x.Balances[i] != y.Balances[i] {
				return false
			}
		}
		return true
	}
	return string(ab) == string(bb)
}

func digitsStr(r *rand.Rand, n int) string {
	var sb strings.Builder
	for i := 0; i < n; i++ {
		d := r.Intn(10)
		if i == 0 && n > 1 && d == 0 {
			d = 1 + r.Intn(9)
		}
		sb.WriteByte(byte('0' + d))
	}
	return sb.String()
}

func legacyTx(nonce uint64, data byte) []byte {
	tx := ethtypes.NewTx(&ethtypes.LegacyTx{Nonce: nonce, Gas: 21000, GasPrice: big.NewInt(1), Data: []byte{data}})
	b, _ := tx.MarshalBinary()
	return b
}

func typedTx(nonce uint64, data byte, long bool) []byte {
	d := []byte{data}
	if long {
		d = make([]byte, 70) // payload > 55 bytes: the long RLP list header
		d[0] = data
	}
	to := common.HexToAddress("0x00000000000000000000000000000000000000aa")
	tx := ethtypes.NewTx(&ethtypes.DynamicFeeTx{ChainID: big.NewInt(1), Nonce: nonce, Gas: 21000, GasFeeCap: big.NewInt(2), GasTipCap: big.NewInt(1), To: &to, Data: d})
	b, _ := tx.MarshalBinary()
	return b
}

func receiptOf(status, gas uint64, typ uint8) []byte {
	r := &ethtypes.Receipt{Type: typ, Status: status, CumulativeGasUsed: gas}
	b, _ := r.MarshalBinary()
	return b
}

// nearMissFamily returns proofs of one type that are pairwise different in at least one field but as
// close to each other as the encoding allows.  The first entry is the base.
func nearMissFamily(r *rand.Rand) (string, []evmtypes.Hashable) {
	switch r.Intn(8) {
	case 0, 1, 2: // balances
		h := uint64(1 + r.Intn(9))
		for i, n := 0, r.Intn(8); i < n; i++ {
			h = h*10 + uint64(r.Intn(10))
		}
		n := 1 + r.Intn(3)
		bs := make([]string, n)
		for i := range bs {
			bs[i] = digitsStr(r, 1+r.Intn(20))
			switch r.Intn(12) {
			case 0:
				bs[i] = "0"
			case 1:
				bs[i] = ""
			}
		}
		mk := func(h uint64, bs []string) evmtypes.Hashable {
			return &evmtypes.ValidatorBalancesAttestationRes{BlockHeight: h, Balances: append([]string{}, bs...)}
		}
		with := func(i int, v string) []string {
			c := append([]string{}, bs...)
			c[i] = v
			return c
		}
		out := []evmtypes.Hashable{mk(h, bs)}
		// digit moved from the height into the first balance, and back
		if h >= 10 {
			out = append(out, mk(h/10, with(0, strconv.Itoa(int(h%10))+bs[0])))
		}
		if len(bs[0]) >= 1 && h < 1<<59 {
			out = append(out, mk(h*10+uint64(bs[0][0]-'0'), with(0, bs[0][1:])))
		}
		// digit moved between adjacent balances; balances merged; merged with the separator inside; split
		if n >= 2 && len(bs[1]) >= 1 {
			c := with(0, bs[0]+bs[1][:1])
			c[1] = bs[1][1:]
			out = append(out, mk(h, c))
			out = append(out, mk(h, append([]string{bs[0] + bs[1]}, bs[2:]...)))
			out = append(out, mk(h, append([]string{bs[0] + "\n" + bs[1]}, bs[2:]...)))
		}
		if n >= 3 { // same number of balances, the separator inside a different one
			out = append(out, mk(h, []string{bs[0] + "\n" + bs[1], bs[2]}), mk(h, []string{bs[0], bs[1] + "\n" + bs[2]}))
		}
		if len(bs[0]) >= 2 {
			out = append(out, mk(h, append([]string{bs[0][:1], bs[0][1:]}, bs[1:]...)))
		}
		// nothing spelled differently
		out = append(out, mk(h, with(0, "0"+bs[0])), mk(h, with(n-1, "")), mk(h, with(n-1, "0")), mk(h, append(append([]string{}, bs...), "")), mk(h, bs[:n-1]))
		// one field differs
		out = append(out, mk(h+1, bs), mk(h, with(n-1, bs[n-1]+"0")), mk(h, with(r.Intn(n), digitsStr(r, 1+r.Intn(20)))))
		if n >= 2 {
			c := append([]string{}, bs...)
			c[0], c[1] = c[1], c[0]
			out = append(out, mk(h, c))
		}
		return "balances", out
	case 3, 4: // reference block
		h := uint64(1 + r.Intn(9))
		for i, n := 0, r.Intn(8); i < n; i++ {
			h = h*10 + uint64(r.Intn(10))
		}
		hash := "0x" + fmt.Sprintf("%0*x", 4+2*r.Intn(3), r.Intn(1<<16))
		switch r.Intn(8) {
		case 0:
			hash = digitsStr(r, 6) // a hash that is all digits
		case 1:
			hash = fmt.Sprintf("%x", r.Intn(1<<16)) // no 0x
		}
		mk := func(h uint64, s string) evmtypes.Hashable {
			return &evmtypes.ReferenceBlockAttestationRes{BlockHeight: h, BlockHash: s}
		}
		out := []evmtypes.Hashable{mk(h, hash)}
		if hash[0] >= '0' && hash[0] <= '9' {
			out = append(out, mk(h*10+uint64(hash[0]-'0'), hash[1:])) // first byte of the hash read as a digit of the height
		}
		if h >= 10 {
			out = append(out, mk(h/10, strconv.Itoa(int(h%10))+hash)) // last digit of the height read as part of the hash
		}
		out = append(out, mk(h, strings.ToUpper(hash)), mk(h+1, hash), mk(h, hash+"0"), mk(h, hash[:len(hash)-1]), mk(h, ""), mk(h, "0"+hash), mk(h*10, hash), mk(h, "\n"+hash))
		return "refblock", out
	case 5: // error message
		m := fmt.Sprintf("execution reverted: %d", r.Intn(100))
		mk := func(s string) evmtypes.Hashable { return &evmtypes.SmartContractExecutionErrorProof{ErrorMessage: s} }
		return "error", []evmtypes.Hashable{mk(m), mk(m + " "), mk(m[:len(m)-1]), mk(""), mk(strings.ToUpper(m)), mk(m + "\n"), mk(" " + m), mk(m + "0")}
	default: // transaction
		k := uint64(r.Intn(200))
		d := byte(r.Intn(256))
		mk := func(tx, rc []byte) evmtypes.Hashable { return &evmtypes.TxExecutedProof{SerializedTX: tx, SerializedReceipt: rc} }
		long := r.Intn(2) == 0
		base := legacyTx(k, d)
		if r.Intn(2) == 0 {
			base = typedTx(k, d, long)
		}
		out := []evmtypes.Hashable{
			mk(base, receiptOf(1, 100+k, 0)), mk(base, nil), mk(base, receiptOf(0, 100+k, 0)), mk(base, receiptOf(1, 101+k, 0)), mk(base, receiptOf(1, 100+k, 2)),
			mk(legacyTx(k+1, d), receiptOf(1, 100+k, 0)), mk(legacyTx(k, d+1), receiptOf(1, 100+k, 0)), mk(typedTx(k, d, !long), receiptOf(1, 100+k, 0)),
			mk(typedTx(k, d, long), nil), mk(legacyTx(k, d), nil),
		}
		// the same bytes under another type
		tp := out[0].(*evmtypes.TxExecutedProof)
		b, _ := tp.BytesToHash()
		out = append(out, &evmtypes.SmartContractExecutionErrorProof{ErrorMessage: string(b)})
		return "tx", out
	}
}

func anyOf(t *testing.T, h evmtypes.Hashable) *codectypes.Any {
	a, err := codectypes.NewAnyWithValue(h.(proto.Message))
	if err != nil {
		t.Fatal(err)
	}
	return a
}

func runNearMiss(t *testing.T, run *emit.Run, r *rand.Rand) {
	seenBytes := map[string]bool{}
	emitBytes := func(h evmtypes.Hashable) {
		key := fmt.Sprintf("%d/%s", tagOf(h), describe(h))
		if seenBytes[key] {
			return
		}
		seenBytes[key] = true
		b, err := h.BytesToHash()
		got := "None"
		if err == nil {
			got = "(Some " + ctext(b) + ")"
		}
		run.Count("kind", "bytes")
		run.Count("bytes-type", fmt.Sprintf("%T", h))
		run.Case(fmt.Sprintf("C04.CBytes %s %s", cproof(h), got), true, map[string]any{"kind": "bytes", "proof": describe(h), "bytes": fmt.Sprintf("%q", b)})
	}

	// undecodable tx / receipt: BytesToHash fails
	for _, h := range []evmtypes.Hashable{
		&evmtypes.TxExecutedProof{SerializedTX: []byte{1, 2, 3}},
		&evmtypes.TxExecutedProof{SerializedTX: legacyTx(1, 1), SerializedReceipt: []byte{}},
		&evmtypes.TxExecutedProof{SerializedTX: legacyTx(1, 1), SerializedReceipt: []byte{0xff}},
		&evmtypes.TxExecutedProof{},
	} {
		emitBytes(h)
	}

	type sub = nmSub
	doSplit := func(ids []int, shares []*big.Int, proofs []evmtypes.Hashable, subs []sub, origin string) {
		sn, tot := snapshotOf(ids, shares)
		cc := libcons.New(func(context.Context) (*valsettypes.Snapshot, error) { return sn, nil }, types.ModuleCdc)
		var evs []libcons.Evidence
		var items, pitems, pdesc []string
		for _, p := range proofs {
			pitems = append(pitems, cproof(p))
			pdesc = append(pdesc, describe(p))
		}
		for _, s := range subs {
			ev := &types.Evidence{ValAddress: valAddr(s.id)}
			if proofs[s.which] != nil {
				ev.Proof = anyOf(t, proofs[s.which])
			}
			evs = append(evs, ev)
			items = append(items, emit.Pair(emit.ZI(int64(s.id)), emit.ZI(int64(s.which))))
		}
		shareOf := func(id int) *big.Int {
			for k, sid := range ids {
				if sid == id {
					return shares[k]
				}
			}
			return new(big.Int)
		}
		ctx := sdk.Context{}.WithContext(context.Background()).WithLogger(log.NewNopLogger())
		res, err := cc.VerifyEvidence(ctx, evs)
		got := ""
		switch {
		case err == nil:
			w := res.Winner.(evmtypes.Hashable)
			wi := -1
			for i, p := range proofs {
				if p != nil && sameFields(p, w) {
					wi = i
					break
				}
			}
			if wi < 0 {
				run.Violate("C04:winner-not-submitted", "the evidence winner is not one of the submitted proofs",
					map[string]any{"kind": "split-near-miss", "origin": origin, "proofs": pdesc, "winner": describe(w)})
				wi = 0
			}
			got = strconv.Itoa(wi)
			// oracle: the validators whose proof has the winner's FIELDS hold two thirds of the snapshot
			backing := new(big.Int)
			members := 0
			counted := map[int]bool{}
			var pooled []string
			wb, _ := w.BytesToHash()
			for _, s := range subs {
				p := proofs[s.which]
				if p == nil {
					continue
				}
				if sameFields(p, w) {
					if !counted[s.id] {
						backing.Add(backing, shareOf(s.id))
						counted[s.id] = true
						for _, sid := range ids {
							if sid == s.id {
								members++
							}
						}
					}
					continue
				}
				if pb, err := p.BytesToHash(); err == nil && tagOf(p) == tagOf(w) && string(pb) == string(wb) {
					pooled = append(pooled, describe(p))
				}
			}
			if members == 0 {
				run.Violate("C04:decision-without-snapshot-member", "evidence winner although none of the validators that submitted its fields is in the snapshot",
					map[string]any{"kind": "split-near-miss", "origin": origin, "snapshot": coqSnapshot(ids, shares, tot), "proofs": pdesc, "submissions(validator,proof)": items, "winner": describe(w)})
			}
			if new(big.Int).Mul(backing, big.NewInt(3)).Cmp(new(big.Int).Mul(tot, big.NewInt(2))) < 0 {
				id, what := "C04:winner-backers-disagree-on-fields",
					"evidence winner: the validators that submitted a proof with the winner's fields hold less than 2/3 of snapshot shares (different answers were pooled as identical evidence)"
				// the two encodings that are weak in the source as it is (own rendering, independent of the code under test)
				if known := knownWeakEncoding(w, proofs, subs2which(subs)); known != "" {
					id = known
					what += " [" + known + "]"
				}
				run.Violate(id, what, map[string]any{"kind": "split-near-miss", "origin": origin, "snapshot": coqSnapshot(ids, shares, tot),
					"proofs": pdesc, "submissions(validator,proof)": items, "winner": describe(w), "pooled_with_winner_but_different": pooled,
					"backing_of_winner_fields": backing.String(), "total": tot.String()})
			}
		case errors.Is(err, libcons.ErrConsensusNotAchieved):
			got = "(-1)"
		default:
			got = "(-2)"
		}
		run.Count("kind", "split-near-miss")
		run.Count("split-outcome", map[bool]string{true: "winner", false: got}[err == nil])
		run.Case(fmt.Sprintf("C04.CEvidenceP %s %s %s %s", coqSnapshot(ids, shares, tot), emit.List(pitems), emit.List(items), got), len(subs) > 1,
			map[string]any{"kind": "split-near-miss", "origin": origin, "proofs": pdesc, "submissions": items, "got": got})
	}

	one := big.NewInt(1)
	// corpus (harness/corpus/C04/witnesses.json): the digit shift between block height and first balance (seeded C04-C),
	// 10 equal validators, 3 + 4 of them on the two answers
	{
		a := &evmtypes.ValidatorBalancesAttestationRes{BlockHeight: 1900000, Balances: []string{"15000000000000000000", "7"}}
		b := &evmtypes.ValidatorBalancesAttestationRes{BlockHeight: 19000001, Balances: []string{"5000000000000000000", "7"}}
		ids := []int{0, 1, 2, 3, 4, 5, 6, 7, 8, 9}
		sh := []*big.Int{one, one, one, one, one, one, one, one, one, one}
		doSplit(ids, sh, []evmtypes.Hashable{a, b}, []sub{{0, 0}, {1, 0}, {2, 0}, {3, 1}, {4, 1}, {5, 1}, {6, 1}}, "corpus:height-balance-digit-shift")
		emitBytes(a)
		emitBytes(b)
		// the two weak encodings of the source as it is
		c := &evmtypes.ReferenceBlockAttestationRes{BlockHeight: 1200, BlockHash: "xabc"}
		d := &evmtypes.ReferenceBlockAttestationRes{BlockHeight: 120, BlockHash: "0xabc"}
		doSplit([]int{0, 1, 2}, []*big.Int{one, one, one}, []evmtypes.Hashable{c, d}, []sub{{0, 0}, {1, 1}, {2, 1}}, "corpus:refblock-digit-shift")
		e := &evmtypes.ValidatorBalancesAttestationRes{BlockHeight: 7, Balances: []string{"1\n2", "3"}}
		f := &evmtypes.ValidatorBalancesAttestationRes{BlockHeight: 7, Balances: []string{"1", "2\n3"}}
		doSplit([]int{0, 1, 2}, []*big.Int{one, one, one}, []evmtypes.Hashable{e, f}, []sub{{0, 0}, {1, 1}, {2, 1}}, "corpus:balances-embedded-newline")
	}

	n := run.N / 5
	if os.Getenv("VERIF_SEARCH") == "1" {
		n = run.N / 2
	}
	for i := 0; i < n; i++ {
		kind, fam := nearMissFamily(r)
		// 2..4 members of the family, the base more often than not
		nv := 2 + r.Intn(3)
		var proofs []evmtypes.Hashable
		if r.Intn(4) != 0 {
			proofs = append(proofs, fam[0])
		}
		for len(proofs) < nv {
			proofs = append(proofs, fam[r.Intn(len(fam))])
		}
		for _, p := range proofs {
			emitBytes(p)
		}
		if r.Intn(25) == 0 {
			proofs = append(proofs, nil) // a validator without a proof
		}
		nvals := 3 + r.Intn(6)
		ids := r.Perm(10)[:nvals]
		var shares []*big.Int
		if r.Intn(2) == 0 {
			shares = make([]*big.Int, nvals)
			for j := range shares {
				shares[j] = big.NewInt(1)
			}
		} else {
			shares = genShares(r, nvals)
			if _, tot := snapshotOf(ids, shares); tot.Sign() == 0 {
				shares[0] = big.NewInt(1)
			}
		}
		if r.Intn(15) == 0 { // an empty snapshot (total 0): every submitter is an outsider
			ids, shares = nil, nil
		}
		perm := r.Perm(11)
		m := nvals + r.Intn(2)
		if r.Intn(3) == 0 {
			m = 1 + r.Intn(len(perm))
		}
		var subs []sub
		even := r.Intn(2) == 0 // an even split: no answer has two thirds on its own
		for j, id := range perm[:m] {
			w := r.Intn(len(proofs))
			if even {
				w = j % len(proofs)
			}
			if proofs[w] == nil && r.Intn(3) != 0 {
				w = 0
			}
			subs = append(subs, sub{id, w})
		}
		run.Count("near-miss-family", kind)
		run.Count("near-miss-split", map[bool]string{true: "even", false: "random"}[even])
		doSplit(ids, shares, proofs, subs, "generated:"+kind)
	}
}

type nmSub struct{ id, which int }

func subs2which(subs []nmSub) []int {
	out := make([]int, len(subs))
	for i, s := range subs {
		out[i] = s.which
	}
	return out
}

// knownWeakEncoding recognises, with its own rendering, the two pooling shapes that the source as it is
// (before the fix in branch verif-C04) allows: a reference-block answer whose height and hash run together,
// and a balances answer with a newline inside a balance.  Anything else is not excused.
func knownWeakEncoding(w evmtypes.Hashable, proofs []evmtypes.Hashable, which []int) string {
	for _, wi := range which {
		p := proofs[wi]
		if p == nil || sameFields(p, w) || tagOf(p) != tagOf(w) {
			continue
		}
		switch a := w.(type) {
		case *evmtypes.ReferenceBlockAttestationRes:
			b := p.(*evmtypes.ReferenceBlockAttestationRes)
			if strconv.FormatUint(a.BlockHeight, 10)+a.BlockHash == strconv.FormatUint(b.BlockHeight, 10)+b.BlockHash {
				return "C04:refblock-height-hash-run-together"
			}
		case *evmtypes.ValidatorBalancesAttestationRes:
			b := p.(*evmtypes.ValidatorBalancesAttestationRes)
			join := func(x *evmtypes.ValidatorBalancesAttestationRes) (string, bool) {
				s, nl := strconv.FormatUint(x.BlockHeight, 10), false
				for _, v := range x.Balances {
					s += "\n" + v
					nl = nl || strings.Contains(v, "\n")
				}
				return s, nl
			}
			ja, na := join(a)
			jb, nb := join(b)
			if ja == jb && (na || nb) {
				return "C04:balances-embedded-newline"
			}
		}
	}
	return ""
}
