package c04

// Second round, keeper level: the real consensus + evm + valset keepers of the integration fixture.
// A reference-block or validator-balances request is put in its consensus queue, validators of the
// snapshot (and an outsider) submit field-near-miss answers through Keeper.AddMessageEvidence
// (re-submissions, a proof-less submission), CheckAndProcessAttestedMessages runs in between.
// Observed after every run: is the request still queued; the chain's reference block / the recorded
// balances.  Oracle: the request is removed exactly when two thirds of the snapshot shares stand
// behind answers equal IN EVERY FIELD (latest submission per validator), the effect applied is that
// answer, and nothing is applied while the request stays.  The same op sequence is replayed by the
// model (Corr.C04.CAttest).

import (
	"fmt"
	"math/big"
	"math/rand"
	"strconv"
	"strings"
	"testing"

	sdkmath "cosmossdk.io/math"
	"github.com/cometbft/cometbft/crypto/ed25519"
	codectypes "github.com/cosmos/cosmos-sdk/codec/types"
	cryptocodec "github.com/cosmos/cosmos-sdk/crypto/codec"
	stakingtypes "github.com/cosmos/cosmos-sdk/x/staking/types"
	sdk "github.com/cosmos/cosmos-sdk/types"
	"github.com/ethereum/go-ethereum/common"
	"github.com/onsi/ginkgo/v2"
	"github.com/palomachain/paloma/v2/tests/integration/helper"
	utilkeeper "github.com/palomachain/paloma/v2/util/keeper"
	consensusmodule "github.com/palomachain/paloma/v2/x/consensus"
	consensusqueue "github.com/palomachain/paloma/v2/x/consensus/keeper/consensus"
	"github.com/palomachain/paloma/v2/verifharness/emit"
	consensustypes "github.com/palomachain/paloma/v2/x/consensus/types"
	evmkeeper "github.com/palomachain/paloma/v2/x/evm/keeper"
	evmtypes "github.com/palomachain/paloma/v2/x/evm/types"
	valsettypes "github.com/palomachain/paloma/v2/x/valset/types"
)

const attChain = "eth-main"

func randHeight(r *rand.Rand) uint64 {
	h := uint64(2000 + r.Intn(8000)) // > 10 * the chain's initial reference height even after dropping a digit
	for i, n := 0, r.Intn(5); i < n; i++ {
		h = h*10 + uint64(r.Intn(10))
	}
	return h
}

// attRefFamily: reference-block answers, all with a height above the chain's (123).
func attRefFamily(r *rand.Rand) []evmtypes.Hashable {
	h := randHeight(r)
	hash := "0x" + fmt.Sprintf("%0*x", 4+2*r.Intn(3), r.Intn(1<<16))
	if r.Intn(6) == 0 {
		hash = digitsStr(r, 6)
	}
	mk := func(h uint64, s string) evmtypes.Hashable {
		return &evmtypes.ReferenceBlockAttestationRes{BlockHeight: h, BlockHash: s}
	}
	out := []evmtypes.Hashable{mk(h, hash)}
	if hash[0] >= '0' && hash[0] <= '9' {
		out = append(out, mk(h*10+uint64(hash[0]-'0'), hash[1:]))
	}
	out = append(out, mk(h/10, strconv.Itoa(int(h%10))+hash), mk(h+1, hash), mk(h, strings.ToUpper(hash)), mk(h, hash+"0"), mk(h, ""), mk(h*10, hash))
	return out
}

// attBalFamily: balances answers with exactly n balances.
func attBalFamily(r *rand.Rand, n int) []evmtypes.Hashable {
	h := randHeight(r)
	bs := make([]string, n)
	for i := range bs {
		bs[i] = digitsStr(r, 2+r.Intn(19))
	}
	mk := func(h uint64, bs []string) evmtypes.Hashable {
		return &evmtypes.ValidatorBalancesAttestationRes{BlockHeight: h, Balances: append([]string{}, bs...)}
	}
	with := func(i int, v string) []string {
		c := append([]string{}, bs...)
		c[i] = v
		return c
	}
	out := []evmtypes.Hashable{mk(h, bs)}
	out = append(out, mk(h/10, with(0, strconv.Itoa(int(h%10))+bs[0])), mk(h*10+uint64(bs[0][0]-'0'), with(0, bs[0][1:])))
	if n >= 2 {
		c := with(0, bs[0]+bs[1][:1])
		c[1] = bs[1][1:]
		out = append(out, mk(h, c))
	}
	if n >= 3 { // same count, the separator inside a balance: [b0\nb1, b2, .., x] / [b0, b1\nb2, .., x]
		a := append([]string{bs[0] + "\n" + bs[1]}, bs[2:]...)
		a = append(a, "9")
		b := append([]string{bs[0], bs[1] + "\n" + bs[2]}, bs[3:]...)
		b = append(b, "9")
		out = append(out, mk(h, a), mk(h, b))
	}
	i := r.Intn(n)
	out = append(out, mk(h+1, bs), mk(h, with(i, bs[i]+"0")), mk(h, with(i, "0"+bs[i])), mk(h, with(i, "")), mk(h, with(i, "0")))
	return out
}

func knownWeakPair(a, b evmtypes.Hashable) string {
	if a == nil || b == nil || sameFields(a, b) {
		return ""
	}
	return knownWeakEncoding(a, []evmtypes.Hashable{b}, []int{0})
}

func runAttested(t *testing.T, run *emit.Run, r *rand.Rand) {
	n := run.N / 15
	for i := 0; i < n; i++ {
		attestedCase(t, run, r)
	}
}

func attestedCase(t *testing.T, run *emit.Run, r *rand.Rand) {
	must := func(err error) {
		if err != nil {
			t.Helper()
			t.Fatal(err)
		}
	}
	f := helper.InitFixture(ginkgo.GinkgoT())
	ctx := f.Ctx.WithBlockHeight(5)
	must(f.EvmKeeper.AddSupportForNewChain(ctx, attChain, 1, 123, "0x1234", big.NewInt(55)))
	must(f.EvmKeeper.SetFeeManagerAddress(ctx, attChain, "0xb794f5ea0ba39494ce839613fffba74279579268"))
	must(f.EvmKeeper.ActivateChainReferenceID(ctx, attChain, &evmtypes.SmartContract{Id: 123}, "addr", []byte("abc")))

	nv := 3 + r.Intn(5)
	// validators derived from run.Rng only (addresses and keys decide the snapshot order)
	vals := make([]stakingtypes.Validator, nv)
	equal := r.Intn(2) == 0
	// pattern 2 / 3: skewed shares; the 2/3-by-shares set is a minority by head count ("heavy agree"), or a
	// head-count majority of small validators stays below 2/3 of the shares ("light agree")
	// pattern 4: equal shares, the agreeing validators stay just below two thirds; then silent validators are
	// jailed one by one and the valset module builds new snapshots: the quorum is reached by the SNAPSHOT change
	pattern := r.Intn(5)
	if pattern == 4 {
		nv = 4 + r.Intn(3)
		vals = make([]stakingtypes.Validator, nv)
		equal = true
	}
	var skew []int64
	if pattern == 2 || pattern == 3 {
		switch r.Intn(3) {
		case 0: // e.g. 50/20/10/10/10
			nv = 5 + r.Intn(3)
			skew = []int64{50, 20}
		case 1: // one validator holds more than two thirds
			nv = 4 + r.Intn(4)
			skew = []int64{int64(70 + r.Intn(20))}
		default: // 40/30 + small ones
			nv = 5 + r.Intn(3)
			skew = []int64{40, 30}
		}
		rest := int64(100)
		for _, x := range skew {
			rest -= x
		}
		small := nv - len(skew)
		for k := 0; k < small; k++ {
			x := rest / int64(small)
			if k == 0 {
				x += rest % int64(small)
			}
			if x == 0 {
				x = 1
			}
			skew = append(skew, x)
		}
		r.Shuffle(len(skew), func(a, b int) { skew[a], skew[b] = skew[b], skew[a] })
		vals = make([]stakingtypes.Validator, nv)
	}
	ops := map[string]int{} // operator -> id (snapshot order, set below)
	for i := range vals {
		secret := make([]byte, 32)
		r.Read(secret)
		protoPK, err := cryptocodec.FromCmtPubKeyInterface(ed25519.GenPrivKeyFromSecret(secret).PubKey())
		must(err)
		pkAny, err := codectypes.NewAnyWithValue(protoPK)
		must(err)
		opAddr := make([]byte, 20)
		r.Read(opAddr)
		power := int64(1000)
		if !equal {
			power = int64(1 + r.Intn(9))
		}
		if skew != nil {
			power = skew[i]
		}
		vals[i] = stakingtypes.Validator{
			OperatorAddress: sdk.ValAddress(opAddr).String(),
			Tokens:          sdk.TokensFromConsensusPower(power, sdk.DefaultPowerReduction),
			Status:          stakingtypes.Bonded,
			ConsensusPubkey: pkAny,
		}
		must(f.StakingKeeper.SetValidator(ctx, vals[i]))
		op, err := utilkeeper.ValAddressFromBech32(f.EvmKeeper.AddressCodec, vals[i].GetOperator())
		must(err)
		pk, err := vals[i].ConsPubKey()
		must(err)
		must(f.ValsetKeeper.AddExternalChainInfo(ctx, op, []*valsettypes.ExternalChainInfo{{
			ChainType: "evm", ChainReferenceID: attChain, Address: common.BytesToAddress(op).Hex(), Pubkey: pk.Bytes(),
		}}))
	}
	snap, err := f.ValsetKeeper.TriggerSnapshotBuild(ctx)
	must(err)
	if snap == nil || len(snap.Validators) != nv {
		t.Fatalf("snapshot has %d validators, want %d", len(snap.GetValidators()), nv)
	}
	var snItems []string
	shares := map[int]sdkmath.Int{}
	addrs := []sdk.ValAddress{}
	for i, v := range snap.Validators {
		ops[string(v.Address)] = i
		shares[i] = v.ShareCount
		addrs = append(addrs, v.Address)
		snItems = append(snItems, emit.Pair(emit.ZI(int64(i)), emit.Z(v.ShareCount.BigInt())))
	}
	total := snap.TotalShares
	coqSn := emit.List(snItems) + " " + emit.Z(total.BigInt())
	outsider := sdk.ValAddress([]byte("outsider------------"))
	const outsiderID = 99

	txPAD := false
	kind := r.Intn(3)
	isRef, isTx := kind == 0, kind == 2
	sub := evmkeeper.ConsensusGetValidatorBalances
	if isRef {
		sub = evmkeeper.ConsensusGetReferenceBlock
	}
	if isTx {
		sub = evmtypes.ConsensusTurnstoneMessage
	}
	queue := consensustypes.Queue(sub, consensustypes.ChainTypeEVM, attChain)
	var msgID uint64
	var msgs []consensustypes.QueuedSignedMessageI
	if isTx {
		// a turnstone message (SubmitLogicCall, no fees set: no transaction can match it) with a compass contract on record
		sc, err := f.EvmKeeper.SaveNewSmartContract(ctx, "[]", []byte{1, 2, 3})
		must(err)
		_ = f.EvmKeeper.SetAsCompassContract(ctx, sc) // records it as the last compass; deploying it to the chains is not our subject
		msgID, err = f.ConsensusKeeper.PutMessageInQueue(ctx, queue, &evmtypes.Message{
			TurnstoneID: "abc", ChainReferenceID: attChain, Assignee: addrs[0].String(), AssigneeRemoteAddress: "0x00000000000000000000000000000000000000a1",
			Action: &evmtypes.Message_SubmitLogicCall{SubmitLogicCall: &evmtypes.SubmitLogicCall{
				HexContractAddress: "0x00000000000000000000000000000000000000c1", Abi: []byte("[]"), Payload: []byte{1}, Deadline: 1 << 40,
				SenderAddress: make([]byte, 20),
			}},
		}, &consensusqueue.PutOptions{RequireSignatures: true}) // public access data: set below, once the answers are known
		must(err)
		txPAD = true
	} else {
		msgs, err = f.ConsensusKeeper.GetMessagesFromQueue(ctx, queue, 0)
		must(err)
		for _, m := range msgs {
			must(f.ConsensusKeeper.DeleteJob(ctx, queue, m.GetId()))
		}
		if isRef {
			must(f.EvmKeeper.ScheduleReferenceBlockForChain(ctx, attChain))
		} else {
			must(f.EvmKeeper.CheckExternalBalancesForChain(ctx, attChain))
		}
		msgs, err = f.ConsensusKeeper.GetMessagesFromQueue(ctx, queue, 0)
		must(err)
		if len(msgs) != 1 {
			t.Fatalf("request not queued (%d)", len(msgs))
		}
		msgID = msgs[0].GetId()
	}
	var reqVals []sdk.ValAddress
	if !isRef && !isTx {
		cm, err := msgs[0].ConsensusMsg(f.Codec)
		must(err)
		for _, a := range cm.(*evmtypes.ValidatorBalancesAttestation).ValAddresses {
			reqVals = append(reqVals, a)
		}
		if len(reqVals) != nv {
			t.Fatalf("balances request for %d validators, want %d", len(reqVals), nv)
		}
	}

	var fam []evmtypes.Hashable
	if isTx {
		fam = attTxFamily(r)
	} else if isRef {
		fam = attRefFamily(r)
	} else {
		fam = attBalFamily(r, nv)
	}
	np := 2 + r.Intn(2)
	proofs := []evmtypes.Hashable{fam[0]}
	for len(proofs) < np {
		proofs = append(proofs, fam[r.Intn(len(fam))])
	}
	if r.Intn(4) == 0 {
		proofs = append(proofs, nil)
	}
	if txPAD {
		// what the relayer reported as the transaction it sent (public access data): nothing like a hash, the hash of
		// the transaction the validators attest, or 32 / 31 / 33 bytes that are NOT that hash (replaced or sped-up
		// transaction, re-org, wrongly reported hash)
		var attested []byte
		for _, p := range proofs {
			if tp, ok := p.(*evmtypes.TxExecutedProof); ok && attested == nil {
				if tx, err := tp.GetTX(); err == nil {
					attested = tx.Hash().Bytes()
				}
			}
		}
		other := make([]byte, 33)
		r.Read(other)
		var data []byte
		mode := r.Intn(9)
		switch {
		case mode == 0:
			data = []byte{1}
		case mode == 1 && attested != nil:
			data = attested
		case mode == 2:
			data = other[:31]
		case mode == 3:
			data = other
		default:
			data = other[:32]
		}
		must(f.ConsensusKeeper.SetMessagePublicAccessData(ctx, addrs[0], &consensustypes.MsgSetPublicAccessData{
			MessageID: msgID, QueueTypeName: queue, Data: data}))
		run.Count("attested-reported-tx", map[int]string{0: "1 byte", 1: "hash of the attested tx", 2: "31 bytes", 3: "33 bytes"}[mode]+map[bool]string{true: "32 bytes, not the attested tx", false: ""}[mode >= 4 || (mode == 1 && attested == nil)])
	}
	// partially malformed proofs: they unpack, but their bytes to hash cannot be built
	malformed := -1
	if r.Intn(3) == 0 {
		bad := []evmtypes.Hashable{
			&evmtypes.TxExecutedProof{SerializedTX: legacyTx(7, 7), SerializedReceipt: []byte{0xff}},      // tx fine, receipt garbage
			&evmtypes.TxExecutedProof{SerializedTX: typedTx(7, 7, true), SerializedReceipt: []byte{1, 2}}, // tx fine, receipt garbage
			&evmtypes.TxExecutedProof{SerializedTX: []byte{1, 2, 3}, SerializedReceipt: receiptOf(1, 100, 0)},
			&evmtypes.TxExecutedProof{},
		}
		malformed = len(proofs)
		proofs = append(proofs, bad[r.Intn(len(bad))])
	}
	unhashable := func(p evmtypes.Hashable) bool {
		if p == nil {
			return true
		}
		_, err := p.BytesToHash()
		return err != nil
	}
	var pitems, pdesc []string
	for _, p := range proofs {
		pitems = append(pitems, cproof(p))
		pdesc = append(pdesc, describe(p))
	}

	jailed := map[string]bool{}
	latest := map[int]int{} // validator id -> proof index of its latest accepted submission
	var opItems []string
	var trace []string
	removed := false

	// what is applied right now
	refNow := func() (uint64, string) {
		ci, err := f.EvmKeeper.GetChainInfo(ctx, attChain)
		must(err)
		return ci.ReferenceBlockHeight, ci.ReferenceBlockHash
	}
	balNow := func() []string {
		out := make([]string, len(reqVals))
		for i, a := range reqVals {
			infos, err := f.ValsetKeeper.GetValidatorChainInfos(ctx, a)
			must(err)
			for _, ci := range infos {
				if ci.ChainReferenceID == attChain {
					out[i] = ci.Balance
				}
			}
		}
		return out
	}
	agreed := func() (evmtypes.Hashable, *big.Int) { // the answer with 2/3 of the shares on equal fields, if any
		for _, p := range proofs {
			if p == nil {
				continue
			}
			s := new(big.Int)
			for id, w := range latest {
				if sh, ok := shares[id]; ok && sameFields(proofs[w], p) {
					s.Add(s, sh.BigInt())
				}
			}
			if new(big.Int).Mul(s, big.NewInt(3)).Cmp(new(big.Int).Mul(total.BigInt(), big.NewInt(2))) >= 0 {
				return p, s
			}
		}
		return nil, nil
	}
	replay := func() map[string]any {
		return map[string]any{"kind": "attested", "request": sub, "snapshot": coqSn, "proofs": pdesc, "ops": trace}
	}
	weak := func() string { // do two different submitted answers collide under one of the two known weak encodings?
		for _, a := range latest {
			for _, b := range latest {
				if k := knownWeakPair(proofs[a], proofs[b]); k != "" {
					return k
				}
			}
		}
		return ""
	}

	// block heights: the request was added at height 5.  "late": everything happens around a pruning block
	// (height = 0 mod 50) when the request is older than 300 blocks
	const added = 5
	height := int64(6)
	late := r.Intn(3) == 0 && !isTx && pattern != 4 // a turnstone message has no effect to tell "declared" from "pruned"
	pruneBlock := int64(50 * (7 + r.Intn(4)))
	if late {
		height = pruneBlock - 1
	}
	hctx := func() sdk.Context { return ctx.WithBlockHeight(height) }
	module := consensusmodule.NewAppModule(f.Codec, f.ConsensusKeeper, nil, nil)
	process := func() {
		// the consensus MODULE's end-blocker (estimates, attestation, pruning), not the keeper function
		must(module.EndBlock(hctx()))
		ms, err := f.ConsensusKeeper.GetMessagesFromQueue(ctx, queue, 0)
		must(err)
		removed = true
		for _, m := range ms {
			if m.GetId() == msgID {
				removed = false
			}
		}
		p, _ := agreed()
		declared := false
		if isTx {
			declared = removed
		} else if isRef {
			h, s := refNow()
			declared = h != 123 || s != "0x1234"
		} else {
			for _, b := range balNow() {
				declared = declared || b != ""
			}
		}
		pruneDue := height%50 == 0 && height-added > 300
		got := "(-1)"
		if removed && !declared {
			got = "(-4)"
		} else if removed {
			got = "(-3)"
			if isRef {
				h, s := refNow()
				for i, q := range proofs {
					if rq, ok := q.(*evmtypes.ReferenceBlockAttestationRes); ok && rq.BlockHeight == h && rq.BlockHash == s {
						got = strconv.Itoa(i)
						break
					}
				}
			}
		}
		trace = append(trace, fmt.Sprintf("EndBlock at height %d -> removed=%v effects-applied=%v", height, removed, declared))
		opItems = append(opItems, fmt.Sprintf("C04.AEndBlock %d %s", height, got))
		run.Count("attested-process", map[bool]string{true: map[bool]string{true: "declared", false: "pruned"}[declared], false: "stays"}[removed])
		if height%50 == 0 {
			run.Count("attested-endblock-height", map[bool]string{true: "0 mod 50, older than 300", false: "0 mod 50, young"}[pruneDue])
		}
		violate := func(id, what string) {
			// the two weak encodings of the source as it is pool different answers: every consequence of that
			// (removal without two thirds, the pooled sibling applied instead of the agreed answer) is that finding
			if k := weak(); k != "" {
				id, what = k, what+" ["+k+"]"
			}
			run.Violate(id, what, replay())
		}
		switch {
		case removed && !declared && p != nil:
			violate("C04:pruned-although-two-thirds-agree", fmt.Sprintf("a %s request was removed at height %d without being declared and without its effects although 2/3 of the snapshot shares stand behind one answer at that moment", sub, height))
		case removed && !declared && !pruneDue:
			violate("C04:removed-without-declaration", fmt.Sprintf("a %s request was removed at height %d without effects although no pruning is due", sub, height))
		case removed && !declared:
			// pruned: older than 300 blocks at a height = 0 mod 50, no answer with two thirds
		case removed && p == nil:
			violate("C04:message-removed-without-two-thirds-on-fields",
				"a "+sub+" request was declared answered and removed although no answer is backed, field by field, by 2/3 of the snapshot shares")
		case !removed && p != nil:
			violate("C04:two-thirds-agree-but-message-stays", "2/3 of the snapshot shares submitted the same answer but the "+sub+" request stays queued")
		}
		// effect
		if isTx {
			// declared delivered / failed / not verified: the message leaves the queue (checked above)
		} else if isRef {
			h, s := refNow()
			if !removed && (h != 123 || s != "0x1234") {
				violate("C04:effect-applied-without-removal", fmt.Sprintf("reference block changed to %d/%q while the request is still queued", h, s))
			}
			if removed && p != nil {
				rp := p.(*evmtypes.ReferenceBlockAttestationRes)
				if rp.BlockHeight != h || rp.BlockHash != s {
					violate("C04:applied-effect-is-not-the-agreed-answer", fmt.Sprintf("reference block is %d/%q, the agreed answer is %s", h, s, describe(p)))
				}
			}
		} else {
			now := balNow()
			for i, b := range now {
				if !removed && b != "" {
					violate("C04:effect-applied-without-removal", fmt.Sprintf("balance %q recorded while the request is still queued", b))
				}
				if removed && p != nil {
					want, ok := new(big.Int).SetString(p.(*evmtypes.ValidatorBalancesAttestationRes).Balances[i], 10)
					if ok && want.String() != b && !jailed[string(reqVals[i])] { // valset refuses to record anything for a jailed validator
						violate("C04:applied-effect-is-not-the-agreed-answer", fmt.Sprintf("balance %d recorded as %q, the agreed answer says %s", i, b, want))
					}
				}
			}
		}
	}

	nops := 2 + r.Intn(2*nv+2)
	split := r.Intn(2) == 0
	// planned submissions for the skewed patterns: validators by share, heaviest (pattern 2) or lightest (3) first,
	// all on the base answer; pattern 3 stops before the agreeing shares reach two thirds
	type planned struct{ id, w int }
	var plan []planned
	if pattern == 4 {
		k := 0
		for 3*(k+1) < 2*nv {
			k++
		}
		for id := 0; id < k; id++ {
			plan = append(plan, planned{id, 0})
		}
		nops = len(plan)
		run.Count("attested-pattern", "snapshot-change")
	} else if pattern >= 2 {
		order := make([]int, nv)
		for k := range order {
			order[k] = k
		}
		for a := 0; a < nv; a++ {
			for b := a + 1; b < nv; b++ {
				lt := shares[order[b]].GT(shares[order[a]])
				if pattern == 3 {
					lt = shares[order[b]].LT(shares[order[a]])
				}
				if lt {
					order[a], order[b] = order[b], order[a]
				}
			}
		}
		sum := new(big.Int)
		for _, id := range order {
			next := new(big.Int).Add(sum, shares[id].BigInt())
			reach := new(big.Int).Mul(next, big.NewInt(3)).Cmp(new(big.Int).Mul(total.BigInt(), big.NewInt(2))) >= 0
			if pattern == 3 && reach {
				break
			}
			plan = append(plan, planned{id, 0})
			sum = next
			if pattern == 2 && reach {
				break
			}
		}
		if r.Intn(3) == 0 && len(proofs) > 1 && proofs[1] != nil { // a dissenting light / heavy validator afterwards
			plan = append(plan, planned{order[nv-1], 1})
		}
		if malformed >= 0 && r.Intn(3) != 0 { // first of all a partially malformed proof, from an outsider or the last validator in the order
			who := outsiderID
			if r.Intn(2) == 0 && pattern == 2 {
				who = order[nv-1]
			}
			plan = append([]planned{{who, malformed}}, plan...)
		}
		nops = len(plan)
		run.Count("attested-pattern", map[int]string{2: "heavy-agree", 3: "light-agree"}[pattern])
	} else {
		run.Count("attested-pattern", "random")
	}
	for j := 0; j < nops && !removed; j++ {
		id := r.Intn(nv)
		addr := addrs[id]
		if r.Intn(10) == 0 {
			id, addr = outsiderID, outsider
		}
		w := r.Intn(len(proofs))
		if split {
			w = j % len(proofs)
		} else if r.Intn(3) != 0 {
			w = 0
		}
		if plan != nil {
			id, w = plan[j].id, plan[j].w
			addr = outsider
			if id != outsiderID {
				addr = addrs[id]
			}
		}
		// heights
		switch {
		case late && plan != nil:
			if j == nops-1 {
				height = pruneBlock // the last submission arrives in the pruning block itself
			}
		case late:
			if height <= pruneBlock && r.Intn(3) == 0 {
				height++
			}
		default:
			height++
			if r.Intn(5) == 0 && height < 250 {
				height = (height/50 + 1) * 50
			}
		}
		m := &consensustypes.MsgAddEvidence{MessageID: msgID, QueueTypeName: queue}
		if proofs[w] != nil {
			m.Proof = anyOf(t, proofs[w])
		}
		err := f.ConsensusKeeper.AddMessageEvidence(hctx(), addr, m)
		if err == nil {
			latest[id] = w
			if proofs[w] == nil {
				run.Violate("C04:proofless-evidence-accepted", "AddMessageEvidence accepted evidence without a proof", replay())
			} else if unhashable(proofs[w]) {
				run.Violate("C04:unhashable-evidence-accepted", "AddMessageEvidence accepted evidence whose bytes to hash cannot be built ("+describe(proofs[w])+"): every later attestation run of the request fails on it", replay())
			}
		}
		trace = append(trace, fmt.Sprintf("validator %d submits proof %d -> ok=%v", id, w, err == nil))
		opItems = append(opItems, fmt.Sprintf("C04.ASubmit %d %d %s", id, w, emit.Bool(err == nil)))
		if plan != nil || r.Intn(2) == 0 {
			process()
		}
	}
	if pattern == 4 && !removed {
		// the silent validators are jailed one by one; after each the valset module builds a new snapshot
		for id := len(plan); id < nv && !removed; id++ {
			height++
			var v stakingtypes.Validator
			for _, x := range vals {
				op, err := utilkeeper.ValAddressFromBech32(f.EvmKeeper.AddressCodec, x.GetOperator())
				must(err)
				if string(op) == string(addrs[id]) {
					v = x
				}
			}
			v.Jailed = true
			jailed[string(addrs[id])] = true
			must(f.StakingKeeper.SetValidator(ctx, v))
			if _, err := f.ValsetKeeper.TriggerSnapshotBuild(hctx()); err != nil {
				t.Fatalf("snapshot build: %v", err)
			}
			cur, err := f.ValsetKeeper.GetCurrentSnapshot(ctx)
			must(err)
			shares = map[int]sdkmath.Int{}
			var items []string
			for _, sv := range cur.Validators {
				i := ops[string(sv.Address)]
				shares[i] = sv.ShareCount
				items = append(items, emit.Pair(emit.ZI(int64(i)), emit.Z(sv.ShareCount.BigInt())))
			}
			total = cur.TotalShares
			trace = append(trace, fmt.Sprintf("validator %d is jailed; new snapshot of %d validators, total %s", id, len(cur.Validators), total))
			opItems = append(opItems, fmt.Sprintf("C04.ASnap %s %s", emit.List(items), emit.Z(total.BigInt())))
			run.Count("attested-snapshot-change", fmt.Sprintf("%d validators left", len(cur.Validators)))
			process()
		}
	}
	if !removed {
		process()
	}
	run.Count("kind", "attested")
	run.Count("attested-request", sub)
	run.Count("attested-timing", map[bool]string{true: "around a pruning block, older than 300", false: "young"}[late])
	run.Case(fmt.Sprintf("C04.CAttest %s %d %s %s", coqSn, added, emit.List(pitems), emit.List(opItems)), true, replay())
}

// attTxFamily: answers to a turnstone message: transaction proofs (all with a receipt) that differ in one field, and error proofs.
func attTxFamily(r *rand.Rand) []evmtypes.Hashable {
	k := uint64(r.Intn(200))
	d := byte(r.Intn(256))
	mk := func(tx, rc []byte) evmtypes.Hashable { return &evmtypes.TxExecutedProof{SerializedTX: tx, SerializedReceipt: rc} }
	base := legacyTx(k, d)
	if r.Intn(2) == 0 {
		base = typedTx(k, d, r.Intn(2) == 0)
	}
	ok, failed := receiptOf(1, 100+k, 0), receiptOf(0, 100+k, 0)
	out := []evmtypes.Hashable{mk(base, ok), mk(base, failed)}
	if r.Intn(2) == 0 { // the agreed answer is a failed transaction
		out[0], out[1] = out[1], out[0]
	}
	m := fmt.Sprintf("execution reverted: %d", r.Intn(100))
	out = append(out, mk(legacyTx(k+1, d), ok), mk(base, receiptOf(1, 101+k, 0)), mk(legacyTx(k, d+1), failed),
		&evmtypes.SmartContractExecutionErrorProof{ErrorMessage: m}, &evmtypes.SmartContractExecutionErrorProof{ErrorMessage: m + " "})
	if r.Intn(4) == 0 { // the agreed answer is an execution error
		out[0], out[5] = out[5], out[0]
	}
	return out
}
