package c04

import (
	"context"
	"errors"
	"fmt"
	"math/big"
	"math/rand"
	"testing"

	"cosmossdk.io/log"
	sdkmath "cosmossdk.io/math"
	"cosmossdk.io/store"
	"cosmossdk.io/store/metrics"
	storetypes "cosmossdk.io/store/types"
	tmproto "github.com/cometbft/cometbft/proto/tendermint/types"
	tmdb "github.com/cosmos/cosmos-db"
	codectypes "github.com/cosmos/cosmos-sdk/codec/types"
	sdk "github.com/cosmos/cosmos-sdk/types"
	ethtypes "github.com/ethereum/go-ethereum/core/types"
	"github.com/cosmos/cosmos-sdk/codec"
	"github.com/cosmos/cosmos-sdk/runtime"
	paramstypes "github.com/cosmos/cosmos-sdk/x/params/types"
	keeperutil "github.com/palomachain/paloma/v2/util/keeper"
	conskeeper "github.com/palomachain/paloma/v2/x/consensus/keeper"
	"github.com/palomachain/paloma/v2/util/libcons"
	"github.com/palomachain/paloma/v2/util/palomath"
	"github.com/palomachain/paloma/v2/verifharness/emit"
	"github.com/palomachain/paloma/v2/x/consensus/keeper/consensus"
	"github.com/palomachain/paloma/v2/x/consensus/types"
	evmtypes "github.com/palomachain/paloma/v2/x/evm/types"
	valsettypes "github.com/palomachain/paloma/v2/x/valset/types"
)

type nopLog struct{}

func (nopLog) Logger(context.Context) log.Logger { return log.NewNopLogger() }
func (nopLog) ModuleName() string               { return "verif" }

func valAddr(i int) sdk.ValAddress {
	b := make([]byte, 20)
	b[0] = 0xA0
	b[19] = byte(i)
	return sdk.ValAddress(b)
}

// ---- proof pool ----
type proofPool struct {
	dataID map[string]int // BytesToHash output -> id
}

func (p *proofPool) id(b []byte) int {
	if v, ok := p.dataID[string(b)]; ok {
		return v
	}
	v := len(p.dataID) + 1
	p.dataID[string(b)] = v
	return v
}

func txBytes(k int) []byte {
	tx := ethtypes.NewTx(&ethtypes.LegacyTx{Nonce: uint64(k), Gas: 21000, GasPrice: big.NewInt(1), Data: []byte{byte(k)}})
	b, _ := tx.MarshalBinary()
	return b
}

func receiptBytes(k int) []byte {
	r := &ethtypes.Receipt{Status: uint64(k % 2), CumulativeGasUsed: uint64(100 + k)}
	b, _ := r.MarshalBinary()
	return b
}

const (
	tagTx = iota
	tagErr
	tagBal
	tagRef
)

// mkProof returns the proof message, its tag and the bytes the grouping hashes.
func mkProof(r *rand.Rand, k int) (evmtypes.Hashable, int) {
	switch r.Intn(6) {
	case 0, 1:
		return &evmtypes.TxExecutedProof{SerializedTX: txBytes(k), SerializedReceipt: receiptBytes(k)}, tagTx
	case 2:
		return &evmtypes.TxExecutedProof{SerializedTX: txBytes(k)}, tagTx
	case 3:
		return &evmtypes.SmartContractExecutionErrorProof{ErrorMessage: fmt.Sprintf("boom-%d", k)}, tagErr
	case 4:
		// the cross-type collision shape: an error proof whose message is exactly what a tx proof hashes
		tp := &evmtypes.TxExecutedProof{SerializedTX: txBytes(k), SerializedReceipt: receiptBytes(k)}
		b, _ := tp.BytesToHash()
		return &evmtypes.SmartContractExecutionErrorProof{ErrorMessage: string(b)}, tagErr
	default:
		if r.Intn(2) == 0 {
			return &evmtypes.ReferenceBlockAttestationRes{BlockHeight: uint64(k), BlockHash: "0xabc"}, tagRef
		}
		return &evmtypes.ValidatorBalancesAttestationRes{BlockHeight: uint64(k), Balances: []string{"1", "2"}}, tagBal
	}
}

func tagOf(h any) int {
	switch h.(type) {
	case *evmtypes.TxExecutedProof:
		return tagTx
	case *evmtypes.SmartContractExecutionErrorProof:
		return tagErr
	case *evmtypes.ValidatorBalancesAttestationRes:
		return tagBal
	default:
		return tagRef
	}
}

// ---- share vectors ----
func genShares(r *rand.Rand, n int) []*big.Int {
	out := make([]*big.Int, n)
	mode := r.Intn(4)
	var scale *big.Int
	switch mode {
	case 0:
		scale = big.NewInt(1)
	case 1:
		scale = big.NewInt(1_000_000)
	case 2:
		scale = new(big.Int).Lsh(big.NewInt(1), 200)
	default:
		scale = new(big.Int).Lsh(big.NewInt(1), uint(r.Intn(250)))
	}
	for i := range out {
		base := big.NewInt(int64(r.Intn(7)))
		out[i] = new(big.Int).Mul(base, scale)
		if mode != 0 && r.Intn(3) == 0 {
			out[i].Add(out[i], big.NewInt(int64(r.Intn(3))))
		}
	}
	return out
}

func snapshotOf(ids []int, shares []*big.Int) (*valsettypes.Snapshot, *big.Int) {
	sn := &valsettypes.Snapshot{}
	tot := new(big.Int)
	for i, id := range ids {
		sn.Validators = append(sn.Validators, valsettypes.Validator{Address: valAddr(id), ShareCount: sdkmath.NewIntFromBigInt(shares[i])})
		tot.Add(tot, shares[i])
	}
	sn.TotalShares = sdkmath.NewIntFromBigInt(tot)
	return sn, tot
}

func coqSnapshot(ids []int, shares []*big.Int, tot *big.Int) string {
	items := make([]string, len(ids))
	for i := range ids {
		items[i] = emit.Pair(emit.ZI(int64(ids[i])), emit.Z(shares[i]))
	}
	return emit.List(items) + " " + emit.Z(tot)
}

func TestCorr(t *testing.T) {
	run := emit.Start("C04", 1500)
	r := run.Rng
	run.Rule("seeded generator; kinds: Median (boundary-biased uint64 multisets of size 0..9), VerifyGasEstimates and VerifyEvidence " +
		"(1..8 snapshot validators, shares small / scaled up to 2^255, outsiders, 1..4 evidence values over 4 proof types incl. " +
		"cross-type equal-bytes proofs), queue-level AddEvidence/AddGasEstimate/SetElectedGasEstimate histories. " +
		"non-trivial = distinct case whose outcome is not the trivial one (median of <2 values, not-achieved with no snapshot validator)")
	reg := codectypes.NewInterfaceRegistry()
	evmtypes.RegisterInterfaces(reg)
	types.RegisterInterfaces(reg)
	cdc := types.ModuleCdc
	_ = cdc

	// corpus first: minimised past failures
	corpusMedian := [][]uint64{{1 << 63, 1<<63 + 2}, {1<<64 - 1, 1<<64 - 1}, {1<<64 - 1, 0}, {1 << 63, 1 << 63, 1 << 63, 1<<63 + 1}}
	doMedian := func(s []uint64) {
		got := palomath.Median(s)
		if len(s) > 0 {
			lo, hi := s[0], s[0]
			for _, x := range s {
				if x < lo {
					lo = x
				}
				if x > hi {
					hi = x
				}
			}
			if got < lo || got > hi {
				run.Violate("C04:median-outside-range", fmt.Sprintf("Median(%v)=%d outside [%d,%d]", s, got, lo, hi),
					map[string]any{"kind": "median", "input": fmt.Sprint(s), "got": got})
			}
		}
		run.Count("kind", "median")
		run.Case(fmt.Sprintf("C04.CMedian %s %s", emit.U64List(s), emit.ZU(got)), len(s) >= 2, map[string]any{"median": fmt.Sprint(s), "got": got})
	}
	for _, s := range corpusMedian {
		doMedian(s)
	}
	nMed := run.N * 2 / 5
	for i := 0; i < nMed; i++ {
		n := r.Intn(10)
		s := make([]uint64, n)
		base := emit.U64(r)
		for j := range s {
			if r.Intn(2) == 0 {
				s[j] = base + uint64(r.Intn(5)) - 2
			} else {
				s[j] = emit.U64(r)
			}
		}
		doMedian(s)
	}

	// ---- VerifyGasEstimates ----
	nEst := run.N / 5
	for i := 0; i < nEst; i++ {
		n := 1 + r.Intn(8)
		ids := r.Perm(10)[:n]
		shares := genShares(r, n)
		sn, tot := snapshotOf(ids, shares)
		if r.Intn(10) == 0 { // an empty snapshot (total 0): nobody can decide anything
			ids, shares = nil, nil
			sn, tot = snapshotOf(nil, nil)
		}
		cc := libcons.New(func(context.Context) (*valsettypes.Snapshot, error) { return sn, nil }, types.ModuleCdc)
		// submitters: a random NoDup subset of 12 validators (ids 10,11 are never in the snapshot)
		perm := r.Perm(12)
		m := r.Intn(len(perm) + 1)
		var ests []libcons.GasEstimate
		var items []string
		vals := []uint64{}
		base := emit.U64(r)
		backing := new(big.Int)
		members := 0
		for _, id := range perm[:m] {
			v := emit.U64(r)
			if r.Intn(2) == 0 {
				v = base + uint64(r.Intn(3))
			}
			ests = append(ests, &types.GasEstimate{ValAddress: valAddr(id), Value: v})
			items = append(items, emit.Pair(emit.ZI(int64(id)), emit.ZU(v)))
			vals = append(vals, v)
			for k, sid := range ids {
				if sid == id {
					backing.Add(backing, shares[k])
					members++
				}
			}
		}
		ctx := sdk.Context{}.WithContext(context.Background()).WithLogger(log.NewNopLogger())
		got, err := cc.VerifyGasEstimates(ctx, nopLog{}, ests)
		if err == nil && members == 0 {
			run.Violate("C04:decision-without-snapshot-member", "an estimate was elected although no submitter is in the snapshot",
				map[string]any{"kind": "estimates", "snapshot": coqSnapshot(ids, shares, tot), "estimates": items})
		}
		var cls string
		switch {
		case err == nil:
			cls = emit.ZU(got)
			// oracle: quorum and range
			if new(big.Int).Mul(backing, big.NewInt(3)).Cmp(new(big.Int).Mul(tot, big.NewInt(2))) < 0 {
				run.Violate("C04:estimate-without-quorum", "estimate elected with less than 2/3 of snapshot shares", map[string]any{"snapshot": coqSnapshot(ids, shares, tot), "estimates": items})
			}
			lo, hi := vals[0], vals[0]
			for _, x := range vals {
				if x < lo {
					lo = x
				}
				if x > hi {
					hi = x
				}
			}
			if got < lo || got > hi {
				run.Violate("C04:median-outside-range", fmt.Sprintf("elected %d outside [%d,%d]", got, lo, hi), map[string]any{"estimates": items})
			}
		case errors.Is(err, libcons.ErrConsensusNotAchieved):
			cls = "(-1)"
		default:
			cls = "(-2)"
		}
		run.Count("kind", "estimates")
		run.Count("estimate-outcome", map[bool]string{true: "elected", false: cls}[err == nil])
		run.Case(fmt.Sprintf("C04.CEstimates %s %s %s", coqSnapshot(ids, shares, tot), emit.List(items), cls), m > 0 && len(ids) > 0,
			map[string]any{"kind": "estimates", "snapshot": coqSnapshot(ids, shares, tot), "estimates": items, "got": cls})
	}

	// ---- VerifyEvidence ----
	nEv := run.N / 5
	pool := &proofPool{dataID: map[string]int{}}
	type pv struct {
		h   evmtypes.Hashable
		tag int
		did int
		raw []byte
	}
	type sub struct{ id, which int }
	mkPV := func(h evmtypes.Hashable, tag int) pv {
		b, err := h.BytesToHash()
		if err != nil {
			t.Fatal(err)
		}
		a, err := codectypes.NewAnyWithValue(h.(interface {
			Reset()
			String() string
			ProtoMessage()
		}))
		if err != nil {
			t.Fatal(err)
		}
		return pv{h, tag, pool.id(b), a.Value}
	}
	doEvidence := func(ids []int, shares []*big.Int, pvs []pv, subs []sub, origin string) {
		sn, tot := snapshotOf(ids, shares)
		cc := libcons.New(func(context.Context) (*valsettypes.Snapshot, error) { return sn, nil }, types.ModuleCdc)
		var evs []libcons.Evidence
		var items []string
		for _, s := range subs {
			a, err := codectypes.NewAnyWithValue(pvs[s.which].h.(interface {
				Reset()
				String() string
				ProtoMessage()
			}))
			if err != nil {
				t.Fatal(err)
			}
			evs = append(evs, &types.Evidence{ValAddress: valAddr(s.id), Proof: a})
			items = append(items, emit.Pair(emit.ZI(int64(s.id)), emit.ZI(int64(pvs[s.which].tag)), emit.ZI(int64(pvs[s.which].did)), "false"))
		}
		ctx := sdk.Context{}.WithContext(context.Background()).WithLogger(log.NewNopLogger())
		res, err := cc.VerifyEvidence(ctx, evs)
		cls := ""
		switch {
		case err == nil:
			wt := tagOf(res.Winner)
			wb, _ := res.Winner.(evmtypes.Hashable).BytesToHash()
			cls = fmt.Sprintf("(C04.OWinner %d %d)", wt, pool.id(wb))
			// oracle: byte-identical (same type, same proof bytes) backing >= 2/3
			wa, _ := codectypes.NewAnyWithValue(res.Winner.(interface {
				Reset()
				String() string
				ProtoMessage()
			}))
			backing := new(big.Int)
			members := 0
			for _, s := range subs {
				if pvs[s.which].tag == wt && string(pvs[s.which].raw) == string(wa.Value) {
					for k, sid := range ids {
						if sid == s.id {
							backing.Add(backing, shares[k])
							members++
						}
					}
				}
			}
			if members == 0 {
				run.Violate("C04:decision-without-snapshot-member", "evidence winner although none of its backers is in the snapshot",
					map[string]any{"kind": "evidence", "origin": origin, "snapshot": coqSnapshot(ids, shares, tot), "evidence(val,type,bytes-id)": items, "winner": cls})
			}
			if new(big.Int).Mul(backing, big.NewInt(3)).Cmp(new(big.Int).Mul(tot, big.NewInt(2))) < 0 {
				run.Violate("C04:winner-without-identical-two-thirds",
					"evidence winner is backed by less than 2/3 of snapshot shares on byte-identical evidence",
					map[string]any{"kind": "evidence", "origin": origin, "snapshot": coqSnapshot(ids, shares, tot), "evidence(val,type,bytes-id)": items, "winner": cls})
			}
		case errors.Is(err, libcons.ErrConsensusNotAchieved):
			cls = "C04.ONotAchieved"
		default:
			cls = "C04.OFailed"
		}
		run.Count("kind", "evidence")
		run.Count("evidence-outcome", cls[:8])
		run.Case(fmt.Sprintf("C04.CEvidence %s %s %s", coqSnapshot(ids, shares, tot), emit.List(items), cls), len(subs) > 0,
			map[string]any{"kind": "evidence", "snapshot": coqSnapshot(ids, shares, tot), "evidence(val,type,bytes-id,bad)": items, "got": cls})
	}
	// corpus (harness/corpus/C04/witnesses.json): the type-confusion witness fixed by f84b10f6 -- the attacker's error
	// proof whose message is exactly what the honest tx proofs hash, submitted first; and the same with 1 honest short.
	{
		honest := &evmtypes.TxExecutedProof{SerializedTX: txBytes(1), SerializedReceipt: receiptBytes(1)}
		hb, _ := honest.BytesToHash()
		forged := &evmtypes.SmartContractExecutionErrorProof{ErrorMessage: string(hb)}
		pvs := []pv{mkPV(forged, tagErr), mkPV(honest, tagTx)}
		one := big.NewInt(1)
		doEvidence([]int{0, 1, 2}, []*big.Int{one, one, one}, pvs, []sub{{0, 0}, {1, 1}, {2, 1}}, "corpus:type-confusion")
		doEvidence([]int{0, 1, 2}, []*big.Int{one, one, one}, pvs, []sub{{0, 0}, {1, 1}}, "corpus:type-confusion-short")
		doEvidence([]int{0, 1, 2}, []*big.Int{one, one, one}, pvs, []sub{{1, 1}, {0, 0}}, "corpus:type-confusion-short-2")
	}
	for i := 0; i < nEv; i++ {
		n := 1 + r.Intn(8)
		ids := r.Perm(10)[:n]
		shares := genShares(r, n)
		if _, tot := snapshotOf(ids, shares); tot.Sign() == 0 {
			// total 0 with zero-share members makes every group a winner (0>=0): excluded by the theorem's hypothesis 0 < total
			shares[0] = big.NewInt(1)
		}
		if r.Intn(12) == 0 { // an empty snapshot (total 0): every submitter is an outsider
			ids, shares = nil, nil
		}
		nvals := 1 + r.Intn(4)
		var pvs []pv
		k0 := r.Intn(3)
		for j := 0; j < nvals; j++ {
			h, tag := mkProof(r, k0+r.Intn(2))
			pvs = append(pvs, mkPV(h, tag))
		}
		perm := r.Perm(12)
		m := r.Intn(len(perm) + 1)
		var subs []sub
		for _, id := range perm[:m] {
			w := r.Intn(len(pvs))
			if r.Intn(3) != 0 {
				w = 0
			}
			subs = append(subs, sub{id, w})
		}
		doEvidence(ids, shares, pvs, subs, "generated")
	}

	// ---- queue-level bookkeeping through the real consensus.Queue ----
	nQ := run.N / 5
	storeKey := storetypes.NewKVStoreKey(types.StoreKey)
	db := tmdb.NewMemDB()
	stateStore := store.NewCommitMultiStore(db, log.NewNopLogger(), metrics.NewNoOpMetrics())
	stateStore.MountStoreWithDB(storeKey, storetypes.StoreTypeIAVL, db)
	if err := stateStore.LoadLatestVersion(); err != nil {
		t.Fatal(err)
	}
	qreg := types.ModuleCdc.InterfaceRegistry()
	qreg.RegisterInterface("palomachain.tests.SimpleMessage", (*types.ConsensusMsg)(nil), &types.SimpleMessage{})
	qreg.RegisterImplementations((*types.ConsensusMsg)(nil), &types.SimpleMessage{})
	types.RegisterInterfaces(qreg)
	evmtypes.RegisterInterfaces(qreg)
	sg := keeperutil.SimpleStoreGetter(stateStore.GetKVStore(storeKey))
	var msgType *types.SimpleMessage
	cq, err := consensus.NewQueue(consensus.QueueOptions{
		QueueTypeName: "simple-message", Sg: sg, Ider: keeperutil.NewIDGenerator(sg, nil), Cdc: types.ModuleCdc,
		TypeCheck:       types.StaticTypeChecker(msgType),
		VerifySignature: func([]byte, []byte, []byte) bool { return true },
		ChainType:       types.ChainTypeEVM, ChainReferenceID: "bla",
	})
	if err != nil {
		t.Fatal(err)
	}
	qctx := sdk.NewContext(stateStore, tmproto.Header{}, false, log.NewNopLogger())
	for i := 0; i < nQ; i++ {
		requires := r.Intn(5) != 0
		id, err := cq.Put(qctx, &types.SimpleMessage{Sender: "s", Hello: "h", World: "w"}, &consensus.PutOptions{RequireSignatures: true, RequireGasEstimation: requires})
		if err != nil {
			t.Fatal(err)
		}
		nops := 1 + r.Intn(10)
		var ops []string
		elected := uint64(0)
		for j := 0; j < nops; j++ {
			switch r.Intn(4) {
			case 0, 1:
				v, k := r.Intn(4), r.Intn(3)
				h, tag := mkProof(r, k)
				b, _ := h.BytesToHash()
				a, _ := codectypes.NewAnyWithValue(h.(interface {
					Reset()
					String() string
					ProtoMessage()
				}))
				err := cq.AddEvidence(qctx, id, &types.Evidence{ValAddress: valAddr(v), Proof: a})
				ops = append(ops, fmt.Sprintf("C04.QEvidence %d %d %d %s", v, tag, pool.id(b), emit.Bool(err == nil)))
			case 2:
				v, val := r.Intn(4), emit.U64(r)
				err := cq.AddGasEstimate(qctx, id, &types.GasEstimate{ValAddress: valAddr(v), Value: val})
				ops = append(ops, fmt.Sprintf("C04.QEstimate %d %s %s", v, emit.ZU(val), emit.Bool(err == nil)))
			default:
				val := emit.U64(r)
				err := cq.SetElectedGasEstimate(qctx, id, val)
				if err == nil {
					if elected != 0 {
						run.Violate("C04:elected-estimate-changed", "SetElectedGasEstimate accepted although an estimate was already elected", map[string]any{"ops": ops})
					}
					elected = val
				}
				ops = append(ops, fmt.Sprintf("C04.QElect %s %s", emit.ZU(val), emit.Bool(err == nil)))
			}
		}
		msg, err := cq.GetMsgByID(qctx, id)
		if err != nil {
			t.Fatal(err)
		}
		var evItems, esItems []string
		seen := map[string]bool{}
		for _, e := range msg.GetEvidence() {
			var h evmtypes.Hashable
			if err := types.ModuleCdc.UnpackAny(e.Proof, &h); err != nil {
				t.Fatal(err)
			}
			b, _ := h.BytesToHash()
			evItems = append(evItems, emit.Pair(emit.ZI(int64(e.ValAddress[19])), emit.ZI(int64(tagOf(h))), emit.ZI(int64(pool.id(b))), "false"))
			if seen[string(e.ValAddress)] {
				run.Violate("C04:validator-counted-twice", "a validator has two evidence entries on one message", map[string]any{"ops": ops})
			}
			seen[string(e.ValAddress)] = true
		}
		for _, e := range msg.GetGasEstimates() {
			esItems = append(esItems, emit.Pair(emit.ZI(int64(e.ValAddress[19])), emit.ZU(e.Value)))
		}
		run.Count("kind", "queue")
		run.Case(fmt.Sprintf("C04.CQueue %s %s %s %s %s", emit.Bool(requires), emit.List(ops), emit.List(evItems), emit.List(esItems), emit.ZU(msg.GetGasEstimate())),
			len(ops) >= 3, map[string]any{"kind": "queue", "requires_estimate": requires, "ops": ops})
		_ = cq.Remove(qctx, id)
	}

	// ---- end-block election through the real consensus keeper (CheckAndProcessEstimatedMessages) ----
	runEndBlock(t, run, r, stateStore, storeKey)

	// ---- BytesToHash of every proof type, split votes of field-near-miss proofs (nearmiss_test.go) ----
	runNearMiss(t, run, r)

	// ---- keeper level: AddMessageEvidence + CheckAndProcessAttestedMessages on the integration fixture (attest_test.go) ----
	runAttested(t, run, r)

	if err := run.Finish("Cons.Quorum Corr.C04", "C04.case", "C04.check"); err != nil {
		t.Fatal(err)
	}
}

// ---- keeper-level fixture ----
type stubValset struct{ snap *valsettypes.Snapshot }

func (s *stubValset) GetSigningKey(context.Context, sdk.ValAddress, string, string, string) ([]byte, error) {
	return nil, nil
}
func (s *stubValset) GetCurrentSnapshot(context.Context) (*valsettypes.Snapshot, error) { return s.snap, nil }
func (s *stubValset) CanAcceptValidator(context.Context, sdk.ValAddress) error           { return nil }
func (s *stubValset) KeepValidatorAlive(context.Context, sdk.ValAddress, string) error   { return nil }
func (s *stubValset) Jail(context.Context, sdk.ValAddress, string) error                 { return nil }

type stubFees struct{}

func (stubFees) GetCombinedFeesForRelay(context.Context, sdk.ValAddress, string) (*types.MessageFeeSettings, error) {
	// multiplicators <= 1 so that the fee arithmetic (not C04's subject) cannot overflow uint64
	return &types.MessageFeeSettings{
		RelayerFee:   sdkmath.LegacyMustNewDecFromStr("1"),
		CommunityFee: sdkmath.LegacyMustNewDecFromStr("0.3"),
		SecurityFee:  sdkmath.LegacyMustNewDecFromStr("0.01"),
	}, nil
}

type oneQueue struct {
	opt    *consensus.QueueOptions
	attest func(ctx context.Context, q consensus.Queuer, msg types.QueuedSignedMessageI) error
}

func (q oneQueue) SupportedQueues(context.Context) ([]consensus.SupportsConsensusQueueAction, error) {
	return []consensus.SupportsConsensusQueueAction{{QueueOptions: *q.opt, ProcessMessageForAttestation: q.attest}}, nil
}

func runEndBlock(t *testing.T, run *emit.Run, r *rand.Rand, stateStore storetypes.CommitMultiStore, storeKey *storetypes.KVStoreKey) {
	ireg := codectypes.NewInterfaceRegistry()
	appCodec := codec.NewProtoCodec(ireg)
	types.RegisterInterfaces(ireg)
	evmtypes.RegisterInterfaces(ireg)
	ireg.RegisterImplementations((*types.ConsensusMsg)(nil), &evmtypes.Message{})
	memKey := storetypes.NewMemoryStoreKey(types.MemStoreKey)
	ps := paramstypes.NewSubspace(appCodec, types.Amino, storeKey, memKey, "ConsensusParams")
	vs := &stubValset{}
	kreg := conskeeper.NewRegistry()
	qname := types.Queue("verif-eb", "evm", "bla")
	kreg.Add(oneQueue{opt: consensus.ApplyOpts(nil,
		consensus.WithQueueTypeName(qname),
		consensus.WithStaticTypeCheck(&evmtypes.Message{}),
		consensus.WithChainInfo("evm", "bla"),
		consensus.WithVerifySignature(func([]byte, []byte, []byte) bool { return true }),
	), attest: func(c context.Context, q consensus.Queuer, msg types.QueuedSignedMessageI) error {
		// a minimal attester for this stub environment (the real evm one is driven in attest_test.go):
		// a winner removes the message
		if len(msg.GetEvidence()) == 0 {
			return nil
		}
		var evs []libcons.Evidence
		for _, e := range msg.GetEvidence() {
			evs = append(evs, e)
		}
		cc := libcons.New(func(context.Context) (*valsettypes.Snapshot, error) { return vs.snap, nil }, appCodec)
		if _, err := cc.VerifyEvidence(c, evs); err != nil {
			return nil
		}
		return q.Remove(c, msg.GetId())
	}})
	k := conskeeper.NewKeeper(appCodec, runtime.NewKVStoreService(storeKey), ps, vs, kreg, stubFees{})
	srv := conskeeper.NewMsgServerImpl(*k)
	ctx := sdk.NewContext(stateStore, tmproto.Header{}, false, log.NewNopLogger())

	nEB := run.N / 5
	for i := 0; i < nEB; i++ {
		requires := r.Intn(8) != 0
		msg := &evmtypes.Message{TurnstoneID: "abc", ChainReferenceID: "bla", Assignee: valAddr(0).String()}
		switch r.Intn(3) {
		case 0:
			msg.Action = &evmtypes.Message_SubmitLogicCall{SubmitLogicCall: &evmtypes.SubmitLogicCall{}}
		case 1:
			msg.Action = &evmtypes.Message_UploadUserSmartContract{UploadUserSmartContract: &evmtypes.UploadUserSmartContract{}}
		}
		id, err := k.PutMessageInQueue(ctx, qname, msg, &consensus.PutOptions{RequireSignatures: true, RequireGasEstimation: requires})
		if err != nil {
			t.Fatal(err)
		}
		n := 1 + r.Intn(6)
		ids := r.Perm(8)[:n]
		shares := genShares(r, n)
		sn, tot := snapshotOf(ids, shares)
		if tot.Sign() == 0 {
			shares[0] = big.NewInt(1)
			sn, tot = snapshotOf(ids, shares)
		}
		base := emit.U64(r)
		var ops []string
		type est struct {
			id int
			v  uint64
		}
		var stored []est
		elected := uint64(0)
		nops := 2 + r.Intn(12)
		for j := 0; j < nops; j++ {
			if r.Intn(8) == 0 {
				// the message is handed to another relayer (the step ReassignOrphanedMessages performs per message; it has no
				// production caller at this HEAD, driven through C06's hook): estimates and an elected estimate are untouched
				if err := k.VerifReassignMessageValidator(ctx, valAddr(r.Intn(10)).String(), "0x00000000000000000000000000000000000000b2", id, qname); err != nil {
					t.Fatal(err)
				}
				mm, err := k.GetMessagesFromQueue(ctx, qname, 0)
				if err != nil || len(mm) != 1 {
					t.Fatalf("queue read: %v (%d msgs)", err, len(mm))
				}
				if mm[0].GetGasEstimate() != elected || len(mm[0].GetGasEstimates()) != len(stored) {
					run.Violate("C04:elected-estimate-changed", fmt.Sprintf("re-assigning the message to another relayer changed its elected estimate %d -> %d (or its estimates)", elected, mm[0].GetGasEstimate()),
						map[string]any{"snapshot": coqSnapshot(ids, shares, tot), "ops": append(append([]string{}, ops...), "reassign to another validator")})
				}
				run.Count("endblock", "reassigned")
				continue
			}
			if r.Intn(3) != 0 {
				v := r.Intn(10)
				if r.Intn(3) != 0 && len(ids) > 0 {
					v = ids[r.Intn(len(ids))]
				}
				val := base + uint64(r.Intn(5))
				switch r.Intn(6) {
				case 0:
					val = emit.U64(r)
				case 1:
					val = 0
				}
				if r.Intn(4) == 0 {
					// one MsgAddMessageGasEstimates through the real msg server, executed like a transaction (all or nothing);
					// half of them carry the SAME (queue, id) twice, with the same or another value
					if val == 0 {
						val = 1
					}
					batch := []*types.MsgAddMessageGasEstimates_GasEstimate{{MsgId: id, QueueTypeName: qname, Value: val}}
					if r.Intn(2) == 0 {
						val2 := val
						if r.Intn(2) == 0 {
							val2 = val + 1 + uint64(r.Intn(1000))
							if val2 == 0 {
								val2 = 7
							}
						}
						batch = append(batch, &types.MsgAddMessageGasEstimates_GasEstimate{MsgId: id, QueueTypeName: qname, Value: val2})
					}
					creator := sdk.AccAddress(valAddr(v)).String()
					cctx, write := ctx.CacheContext()
					_, err := srv.AddMessageEstimates(cctx, &types.MsgAddMessageGasEstimates{
						Metadata: valsettypes.MsgMetadata{Creator: creator, Signers: []string{creator}}, Estimates: batch,
					})
					if err == nil {
						write()
						for _, b := range batch {
							stored = append(stored, est{v, b.Value})
							ops = append(ops, fmt.Sprintf("C04.EEstimate %d %s true", v, emit.ZU(b.Value)))
						}
					}
					run.Count("estimate-batch", fmt.Sprintf("%d entries for one message, accepted=%v", len(batch), err == nil))
					mm, err2 := k.GetMessagesFromQueue(ctx, qname, 0)
					if err2 != nil || len(mm) != 1 {
						t.Fatalf("queue read: %v (%d msgs)", err2, len(mm))
					}
					seen := map[string]bool{}
					for _, e := range mm[0].GetGasEstimates() {
						if seen[string(e.ValAddress)] {
							run.Violate("C04:validator-has-two-estimates", "a validator has two gas estimate entries on one message (its shares count twice in the election)",
								map[string]any{"snapshot": coqSnapshot(ids, shares, tot), "ops": ops, "batch": fmt.Sprint(batch)})
						}
						seen[string(e.ValAddress)] = true
					}
					continue
				}
				err := k.AddMessageGasEstimates(ctx, valAddr(v), []*types.MsgAddMessageGasEstimates_GasEstimate{{MsgId: id, QueueTypeName: qname, Value: val}})
				if err == nil {
					stored = append(stored, est{v, val})
				}
				ops = append(ops, fmt.Sprintf("C04.EEstimate %d %s %s", v, emit.ZU(val), emit.Bool(err == nil)))
				continue
			}
			if r.Intn(4) == 0 { // the valset moved on
				n = 1 + r.Intn(6)
				ids = r.Perm(8)[:n]
				shares = genShares(r, n)
				sn, tot = snapshotOf(ids, shares)
				if tot.Sign() == 0 {
					shares[0] = big.NewInt(1)
					sn, tot = snapshotOf(ids, shares)
				}
				if r.Intn(4) == 0 { // ... to an empty snapshot
					ids, shares = nil, nil
					sn, tot = snapshotOf(nil, nil)
				}
			}
			vs.snap = sn
			if err := k.CheckAndProcessEstimatedMessages(ctx); err != nil {
				t.Fatal(err)
			}
			m, err := k.GetMessagesFromQueue(ctx, qname, 0)
			if err != nil || len(m) != 1 {
				t.Fatalf("queue read: %v (%d msgs)", err, len(m))
			}
			now := m[0].GetGasEstimate()
			if now != elected {
				if elected != 0 {
					run.Violate("C04:elected-estimate-changed", fmt.Sprintf("end-block changed an elected estimate %d -> %d", elected, now), map[string]any{"ops": ops})
				} else {
					backing := new(big.Int)
					members := 0
					lo, hi := ^uint64(0), uint64(0)
					distinct := map[int]bool{}
					for _, e := range stored {
						for kx, sid := range ids {
							if sid == e.id && !distinct[e.id] { // DISTINCT submitters
								backing.Add(backing, shares[kx])
								members++
							}
						}
						distinct[e.id] = true
						if e.v < lo {
							lo = e.v
						}
						if e.v > hi {
							hi = e.v
						}
					}
					if new(big.Int).Mul(backing, big.NewInt(3)).Cmp(new(big.Int).Mul(tot, big.NewInt(2))) < 0 {
						run.Violate("C04:estimate-without-quorum", "end-block elected an estimate with less than 2/3 of snapshot shares behind the estimates",
							map[string]any{"snapshot": coqSnapshot(ids, shares, tot), "ops": ops})
					}
					if members == 0 {
						run.Violate("C04:decision-without-snapshot-member", "end-block elected an estimate although no submitter is in the snapshot",
							map[string]any{"snapshot": coqSnapshot(ids, shares, tot), "ops": ops})
					}
					if len(stored) == 0 || now < lo || now > hi {
						run.Violate("C04:median-outside-range", fmt.Sprintf("end-block elected %d outside [%d,%d]", now, lo, hi), map[string]any{"ops": ops})
					}
					if !requires {
						run.Violate("C04:elected-without-flag", "estimate elected on a message that does not require estimation", map[string]any{"ops": ops})
					}
				}
				elected = now
				run.Count("endblock", "elected")
			} else {
				run.Count("endblock", "no-change")
			}
			ops = append(ops, fmt.Sprintf("C04.EBlock %s %s", coqSnapshot(ids, shares, tot), emit.ZU(now)))
		}
		m, err := k.GetMessagesFromQueue(ctx, qname, 0)
		if err != nil || len(m) != 1 {
			t.Fatalf("queue read: %v (%d msgs)", err, len(m))
		}
		var esItems []string
		for _, e := range m[0].GetGasEstimates() {
			esItems = append(esItems, emit.Pair(emit.ZI(int64(e.ValAddress[19])), emit.ZU(e.Value)))
		}
		run.Count("kind", "endblock")
		run.Case(fmt.Sprintf("C04.CEndBlock %s %s %s %s", emit.Bool(requires), emit.List(ops), emit.List(esItems), emit.ZU(m[0].GetGasEstimate())),
			len(ops) >= 3 && requires, map[string]any{"kind": "endblock", "requires_estimate": requires, "ops": ops})
		if err := k.DeleteJob(ctx, qname, id); err != nil {
			t.Fatal(err)
		}
	}
	nBack := 1
	if run.Tier != "quick" {
		nBack = 4
	}
	for i := 0; i < nBack; i++ {
		runBacklog(t, run, r, k, vs, ctx, qname)
	}
}

// runBacklog: one queue with a backlog of 1001..1040 pending messages; the LAST ones get estimates / evidence from
// two thirds (and one of them from less): the end-block must elect / declare them wherever they sit in the queue.
func runBacklog(t *testing.T, run *emit.Run, r *rand.Rand, k *conskeeper.Keeper, vs *stubValset, ctx sdk.Context, qname string) {
	n := 1001 + r.Intn(40)
	var idsQ []uint64
	for i := 0; i < n; i++ {
		msg := &evmtypes.Message{TurnstoneID: "abc", ChainReferenceID: "bla", Assignee: valAddr(0).String(),
			Action: &evmtypes.Message_SubmitLogicCall{SubmitLogicCall: &evmtypes.SubmitLogicCall{}}}
		id, err := k.PutMessageInQueue(ctx, qname, msg, &consensus.PutOptions{RequireSignatures: true, RequireGasEstimation: true})
		if err != nil {
			t.Fatal(err)
		}
		idsQ = append(idsQ, id)
	}
	nv := 3 + r.Intn(4)
	ids := r.Perm(8)[:nv]
	shares := make([]*big.Int, nv)
	for i := range shares {
		shares[i] = big.NewInt(int64(1 + r.Intn(9)))
	}
	sn, tot := snapshotOf(ids, shares)
	vs.snap = sn
	// validators in snapshot order until two thirds are reached / just not reached
	upTo := func(reach bool) []int {
		var out []int
		sum := new(big.Int)
		for i := range ids {
			next := new(big.Int).Add(sum, shares[i])
			ok := new(big.Int).Mul(next, big.NewInt(3)).Cmp(new(big.Int).Mul(tot, big.NewInt(2))) >= 0
			if ok && !reach {
				break
			}
			out = append(out, ids[i])
			sum = next
			if ok {
				break
			}
		}
		return out
	}
	mEst, mEstShort, mEv, mEvShort := idsQ[n-1], idsQ[n-2], idsQ[n-3], idsQ[n-4]
	proof := &evmtypes.SmartContractExecutionErrorProof{ErrorMessage: fmt.Sprintf("boom-%d", r.Intn(100))}
	pa, _ := codectypes.NewAnyWithValue(proof)
	estOps := map[uint64][]string{}
	evOps := map[uint64][]string{}
	val := 1 + emit.U64(r)%1000000
	for _, c := range []struct {
		id    uint64
		reach bool
	}{{mEst, true}, {mEstShort, false}} {
		for _, v := range upTo(c.reach) {
			err := k.AddMessageGasEstimates(ctx, valAddr(v), []*types.MsgAddMessageGasEstimates_GasEstimate{{MsgId: c.id, QueueTypeName: qname, Value: val}})
			estOps[c.id] = append(estOps[c.id], fmt.Sprintf("C04.EEstimate %d %s %s", v, emit.ZU(val), emit.Bool(err == nil)))
		}
	}
	for _, c := range []struct {
		id    uint64
		reach bool
	}{{mEv, true}, {mEvShort, false}} {
		for _, v := range upTo(c.reach) {
			err := k.AddMessageEvidence(ctx, valAddr(v), &types.MsgAddEvidence{MessageID: c.id, QueueTypeName: qname, Proof: pa})
			evOps[c.id] = append(evOps[c.id], fmt.Sprintf("C04.ASubmit %d 0 %s", v, emit.Bool(err == nil)))
		}
	}
	if err := k.CheckAndProcessEstimatedMessages(ctx); err != nil {
		t.Fatal(err)
	}
	if err := k.CheckAndProcessAttestedMessages(ctx); err != nil {
		t.Fatal(err)
	}
	after, err := k.GetMessagesFromQueue(ctx, qname, 0)
	if err != nil {
		t.Fatal(err)
	}
	byID := map[uint64]types.QueuedSignedMessageI{}
	for _, m := range after {
		byID[m.GetId()] = m
	}
	pos := func(id uint64) int {
		for i, x := range idsQ {
			if x == id {
				return i + 1
			}
		}
		return 0
	}
	replay := func(id uint64) map[string]any {
		return map[string]any{"kind": "backlog", "queue_length": n, "message_position": pos(id), "snapshot": coqSnapshot(ids, shares, tot),
			"estimates": estOps[id], "evidence": evOps[id]}
	}
	for _, c := range []struct {
		id    uint64
		reach bool
	}{{mEst, true}, {mEstShort, false}} {
		m := byID[c.id]
		if m == nil {
			t.Fatalf("message %d vanished", c.id)
		}
		el := m.GetGasEstimate()
		if c.reach && el == 0 {
			run.Violate("C04:two-thirds-estimated-but-nothing-elected", fmt.Sprintf("submitters with 2/3 of the snapshot shares estimated the message at position %d of %d, the end-block elected nothing", pos(c.id), n), replay(c.id))
		}
		if !c.reach && el != 0 {
			run.Violate("C04:estimate-without-quorum", "end-block elected an estimate with less than 2/3 of snapshot shares behind the estimates", replay(c.id))
		}
		var es []string
		for _, e := range m.GetGasEstimates() {
			es = append(es, emit.Pair(emit.ZI(int64(e.ValAddress[19])), emit.ZU(e.Value)))
		}
		run.Count("kind", "backlog")
		run.Case(fmt.Sprintf("C04.CEndBlock true %s %s %s", emit.List(append(append([]string{}, estOps[c.id]...), fmt.Sprintf("C04.EBlock %s %s", coqSnapshot(ids, shares, tot), emit.ZU(el)))), emit.List(es), emit.ZU(el)),
			true, replay(c.id))
	}
	for _, c := range []struct {
		id    uint64
		reach bool
	}{{mEv, true}, {mEvShort, false}} {
		_, still := byID[c.id]
		if c.reach && still {
			run.Violate("C04:two-thirds-agree-but-message-stays", fmt.Sprintf("2/3 of the snapshot shares submitted the same evidence for the message at position %d of %d but it stays queued", pos(c.id), n), replay(c.id))
		}
		if !c.reach && !still {
			run.Violate("C04:message-removed-without-two-thirds-on-fields", "a message was declared and removed with less than 2/3 of the snapshot shares on one answer", replay(c.id))
		}
		got := "(-1)"
		if !still {
			got = "0"
		}
		run.Count("kind", "backlog")
		run.Case(fmt.Sprintf("C04.CAttest %s 0 %s %s", coqSnapshot(ids, shares, tot), emit.List([]string{cproof(proof)}), emit.List(append(append([]string{}, evOps[c.id]...), "C04.AProcess "+got))),
			true, replay(c.id))
	}
	run.Count("backlog-length", fmt.Sprint(n))
	for _, id := range idsQ {
		if _, ok := byID[id]; ok {
			_ = k.DeleteJob(ctx, qname, id)
		}
	}
}
