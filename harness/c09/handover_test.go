package c09

// C09, round 6.
//
// (1) SetSmartContractAsActive — reached from the compass-handover and upload-smart-contract
// attesters inside the consensus EndBlock — on the REAL evm keeper with the deployment record
// present (in flight / awaiting the ownership transfer) and removed in between through the real
// MsgRemoveSmartContractDeployment handler (any account may send it: C03's known finding).
// Oracle C09:set-active-panic: it must return an error, not panic.  (The full handover flow with a
// matching CompassHandover transaction is C07's / C14's; here the function the end-blocker calls is
// driven directly.)
//
// (2) The metrix end-blocker after relay histories of every age: OnConsensusMessageAttested (the
// listener the attestation path calls) with message ids that jump past the 1000-message scoring
// window, so that PurgeRelayMetrics leaves validators with an EMPTY record list, then the real
// metrix EndBlock at multiples of 10.  Oracle C09:metrix-end-panic.

import (
	"fmt"
	"math/big"
	"os"
	"testing"

	sdkmath "cosmossdk.io/math"
	sdk "github.com/cosmos/cosmos-sdk/types"
	"github.com/onsi/ginkgo/v2"
	"github.com/palomachain/paloma/v2/tests/integration/helper"
	"github.com/palomachain/paloma/v2/verifharness/emit"
	evmkeeper "github.com/palomachain/paloma/v2/x/evm/keeper"
	evmtypes "github.com/palomachain/paloma/v2/x/evm/types"
	"github.com/palomachain/paloma/v2/x/metrix"
	metrixtypes "github.com/palomachain/paloma/v2/x/metrix/types"
)

func setActiveScenario(t *testing.T, run *emit.Run, variant string) {
	replay := map[string]any{"kind": "set-active", "variant": variant}
	f := helper.InitFixture(ginkgo.GinkgoT())
	ctx := f.Ctx.WithBlockHeight(5)
	must := func(err error) {
		if err != nil {
			t.Helper()
			t.Fatal(err)
		}
	}
	repo := os.Getenv("VERIF_REPO")
	if repo == "" {
		repo = "/repo"
	}
	abiJSON, err := os.ReadFile(repo + "/x/evm/keeper/testdata/sample-abi.json")
	must(err)
	sc, err := f.EvmKeeper.SaveNewSmartContract(ctx, string(abiJSON), []byte{0x60, 0x80, 0x01})
	must(err)
	must(f.EvmKeeper.SetAsCompassContract(ctx, sc))
	must(f.EvmKeeper.AddSupportForNewChain(ctx, "eth-main", 1, 123, "0x1234", big.NewInt(55)))
	ci, err := f.EvmKeeper.GetChainInfo(ctx, "eth-main")
	must(err)
	dep := f.EvmKeeper.VerifC07CreateDeployment(ctx, sc, ci, []byte("unique-1"))
	_ = dep
	ms := evmkeeper.NewMsgServerImpl(f.EvmKeeper)
	switch variant {
	case "removed":
		_, err := ms.RemoveSmartContractDeployment(ctx, &evmtypes.MsgRemoveSmartContractDeploymentRequest{SmartContractID: sc.Id, ChainReferenceID: "eth-main"})
		must(err)
	case "other-chain":
		_, err := ms.RemoveSmartContractDeployment(ctx, &evmtypes.MsgRemoveSmartContractDeploymentRequest{SmartContractID: sc.Id, ChainReferenceID: "bnb-main"})
		must(err)
	case "in-flight":
	}
	var outs []string
	for _, id := range []uint64{sc.Id, sc.Id + 7} {
		out, what := guard(func() error {
			_ = f.EvmKeeper.SetSmartContractAsActive(ctx, id, "eth-main") // an error is the expected answer for a missing / not-waiting record
			return nil
		})
		outs = append(outs, fmt.Sprint(out))
		run.Count("set-active", variant+map[int]string{0: ":returned", 2: ":panic"}[out])
		if out == 2 {
			run.Violate("C09:set-active-panic", fmt.Sprintf("SetSmartContractAsActive(contract %d, eth-main) with the deployment record %s panicked (called by the handover / upload attesters inside the consensus EndBlock): %s", id, variant, what), replay)
		}
	}
	run.Case("C09.CBlocks "+emit.List(outs), variant == "removed", replay)
}

type relayEv struct {
	V   int    `json:"v"`
	ID  uint64 `json:"id"`
	H   int64  `json:"h"`
	OK  bool   `json:"ok"`
	End bool   `json:"end,omitempty"` // run the metrix EndBlock at height H instead
}

func metrixHistory(t *testing.T, run *emit.Run, evs []relayEv) {
	replay := map[string]any{"kind": "metrix-history", "events": evs}
	f := helper.InitFixture(ginkgo.GinkgoT())
	am := metrix.NewAppModule(f.Codec, f.MetrixKeeper)
	var outs []string
	for _, e := range evs {
		ctx := f.Ctx.WithBlockHeight(e.H)
		if e.End {
			out, what := guard(func() error { return am.EndBlock(ctx) })
			outs = append(outs, fmt.Sprint(out))
			run.Count("metrix-history-endblock", map[int]string{0: "completed", 1: "error", 2: "panic"}[out])
			if out != 0 {
				kind := map[int]string{1: "error", 2: "panic"}[out]
				run.Violate("C09:metrix-end-"+kind+":"+normalize(what), fmt.Sprintf("x/metrix EndBlock at height %d (relay history with aged-out records): %s: %s", e.H, kind, what), replay)
			}
			continue
		}
		out, what := guard(func() error {
			f.MetrixKeeper.OnConsensusMessageAttested(ctx, metrixtypes.MessageAttestedEvent{
				AssignedAtBlockHeight: sdkmath.NewInt(e.H - 3), HandledAtBlockHeight: sdkmath.NewInt(e.H),
				Assignee: sdk.ValAddress(fmt.Sprintf("validator-%02d-address", e.V)), MessageID: e.ID, WasRelayedSuccessfully: e.OK,
			})
			return nil
		})
		if out == 2 {
			run.Violate("C09:metrix-listener-panic", "OnConsensusMessageAttested panicked: "+what, replay)
		}
	}
	run.Case("C09.CBlocks "+emit.List(outs), true, replay)
}

func genMetrixHistory(run *emit.Run) []relayEv {
	r := run.Rng
	var evs []relayEv
	id, h := uint64(1+r.Intn(20)), int64(100)
	n := 6 + r.Intn(14)
	for i := 0; i < n; i++ {
		switch r.Intn(5) {
		case 0:
			id += uint64(900 + r.Intn(400)) // past the scoring window
		case 1:
			id += uint64(200 + r.Intn(400))
		default:
			id += uint64(1 + r.Intn(5))
		}
		h += int64(1 + r.Intn(40))
		evs = append(evs, relayEv{V: r.Intn(4), ID: id, H: h, OK: r.Intn(4) > 0})
		if r.Intn(3) == 0 {
			h = (h/10 + 1) * 10
			evs = append(evs, relayEv{End: true, H: h})
		}
	}
	h = (h/10 + 1) * 10
	evs = append(evs, relayEv{End: true, H: h}, relayEv{End: true, H: h + 10})
	return evs
}
