package c09

// C09, round 4: the user-contract-upload attester reaches its receipt-log scan only for a
// transaction that really matches the message, so this scenario builds one: validators with real
// secp256k1 keys registered as their chain accounts, the message's fees elected through the real
// estimate step, real signatures added through the real AddMessageSignature (ecrecover check),
// the deploy_contract call data packed from the stored sign data / snapshot / fees exactly as
// VerifyAgainstTX expects it, public access data, a TxExecutedProof with a successful receipt from
// every validator — and receipt logs of every shape in front of (or instead of) compass'
// ContractDeployed event: anonymous (zero-topic) logs, foreign events, a short data field, nothing.
// Then the real consensus EndBlock.  Oracle: C09:consensus-end-panic / -error as everywhere.

import (
	"crypto/ecdsa"
	"crypto/sha256"
	"fmt"
	"math/big"
	"os"
	"strings"
	"testing"

	sdkmath "cosmossdk.io/math"
	codectypes "github.com/cosmos/cosmos-sdk/codec/types"
	sdk "github.com/cosmos/cosmos-sdk/types"
	"github.com/ethereum/go-ethereum/accounts/abi"
	"github.com/ethereum/go-ethereum/common"
	ethtypes "github.com/ethereum/go-ethereum/core/types"
	"github.com/ethereum/go-ethereum/crypto"
	"github.com/onsi/ginkgo/v2"
	"github.com/palomachain/paloma/v2/tests/integration/helper"
	"github.com/palomachain/paloma/v2/testutil"
	utilkeeper "github.com/palomachain/paloma/v2/util/keeper"
	"github.com/palomachain/paloma/v2/util/libmsg"
	"github.com/palomachain/paloma/v2/verifharness/emit"
	"github.com/palomachain/paloma/v2/x/consensus"
	consensuskeeper "github.com/palomachain/paloma/v2/x/consensus/keeper"
	consensustypes "github.com/palomachain/paloma/v2/x/consensus/types"
	evmkeeper "github.com/palomachain/paloma/v2/x/evm/keeper"
	evmtypes "github.com/palomachain/paloma/v2/x/evm/types"
	treasurytypes "github.com/palomachain/paloma/v2/x/treasury/types"
	valsettypes "github.com/palomachain/paloma/v2/x/valset/types"
)

var uscLogShapes = []string{"event", "anon,event", "foreign,event", "anon", "foreign", "", "event-short-data", "anon,anon,event", "foreign,anon,event", "event,anon"}

// sigEncodings: how validator i hands in its signature (validator 0 always in the plain 65-byte form):
//   v01      [R || S || V], V in {0, 1}            the form the chain stores and BuildCompassConsensus reads
//   v2728    V in {27, 28}
//   compact  64 bytes [R || yParityAndS] (EIP-2098)
//   short    63 bytes; long: 66 bytes; empty
var sigEncodings = []string{"v01", "v2728", "compact", "short", "long", "empty"}

func encodeSig(sig []byte, enc string) []byte {
	out := append([]byte{}, sig...)
	switch enc {
	case "v2728":
		out[64] += 27
	case "compact":
		out = out[:64]
		if sig[64] == 1 {
			out[32] |= 0x80
		}
	case "short":
		out = out[:63]
	case "long":
		out = append(out, 0)
	case "empty":
		out = nil
	}
	return out
}

func uscScenario(t *testing.T, run *emit.Run, logs string, nv int, encs ...string) {
	replay := map[string]any{"kind": "usc-receipt", "logs": logs, "nvals": nv, "sigs": encs}
	const chain = "eth-main"
	f := helper.InitFixture(ginkgo.GinkgoT())
	ctx := f.Ctx.WithBlockHeight(5)
	must := func(err error) {
		if err != nil {
			t.Helper()
			t.Fatal(err)
		}
	}
	repo := os.Getenv("VERIF_REPO")
	if repo == "" {
		repo = "/repo"
	}
	abiJSON, err := os.ReadFile(repo + "/x/evm/keeper/testdata/sample-abi.json")
	must(err)
	compassABI, err := abi.JSON(strings.NewReader(string(abiJSON)))
	must(err)
	sc, err := f.EvmKeeper.SaveNewSmartContract(ctx, string(abiJSON), []byte{0x60, 0x80, 0x01})
	must(err)
	must(f.EvmKeeper.SetAsCompassContract(ctx, sc))
	must(f.EvmKeeper.AddSupportForNewChain(ctx, chain, 1, 123, "0x1234", big.NewInt(55)))
	must(f.EvmKeeper.SetFeeManagerAddress(ctx, chain, feeMgr))
	must(f.EvmKeeper.ActivateChainReferenceID(ctx, chain, sc, "0x00000000000000000000000000000000000c0de0", []byte("compass-1")))
	must(f.TreasuryKeeper.SetCommunityFundFee(ctx, "0.01"))
	must(f.TreasuryKeeper.SetSecurityFee(ctx, "0.01"))
	vals := testutil.GenValidators(nv, nv*1000)
	var ops []sdk.ValAddress
	var keys []*ecdsa.PrivateKey
	for i, val := range vals {
		must(f.StakingKeeper.SetValidator(ctx, val))
		must(f.StakingKeeper.SetValidatorByConsAddr(ctx, val))
		bz, err := utilkeeper.ValAddressFromBech32(f.ValsetKeeper.AddressCodec, val.GetOperator())
		must(err)
		op := sdk.ValAddress(bz)
		ops = append(ops, op)
		seed := sha256.Sum256([]byte(fmt.Sprintf("c09-usc-key-%d", i)))
		key, err := crypto.ToECDSA(seed[:])
		must(err)
		keys = append(keys, key)
		eth := crypto.PubkeyToAddress(key.PublicKey)
		must(f.ValsetKeeper.AddExternalChainInfo(ctx, op, []*valsettypes.ExternalChainInfo{{ChainType: "evm", ChainReferenceID: chain, Address: eth.Hex(), Pubkey: eth.Bytes()}}))
		must(f.TreasuryKeeper.SetRelayerFee(ctx, op, &treasurytypes.RelayerFeeSetting{ValAddress: op.String(),
			Fees: []treasurytypes.RelayerFeeSetting_FeeSetting{{Multiplicator: sdkmath.LegacyMustNewDecFromStr("1.1"), ChainReferenceId: chain}}}))
	}
	snap, err := f.ValsetKeeper.TriggerSnapshotBuild(ctx)
	must(err)
	f.MetrixKeeper.UpdateUptime(ctx)
	must(f.ValsetKeeper.SetSnapshotOnChain(ctx, snap.Id, chain))

	action := &evmtypes.UploadUserSmartContract{Bytecode: []byte{0x60, 0x80, 0x02}, DeployerAddress: "0x51eca2efb15afacc612278c71f5edb35986f172f", Deadline: 1337,
		SenderAddress: []byte("abcdefghijabcdefghij"), BlockHeight: 5, Id: 1, Retries: 2}
	id, err := f.EvmKeeper.AddUploadUserSmartContractToConsensus(ctx, chain, "", action)
	must(err)
	q := consensustypes.Queue(evmtypes.ConsensusTurnstoneMessage, "evm", chain)
	cons := consensuskeeper.NewMsgServerImpl(f.ConsensusKeeper)
	for _, op := range ops {
		_, err := cons.AddMessageEstimates(ctx, &consensustypes.MsgAddMessageGasEstimates{Metadata: valsettypes.MsgMetadata{Creator: sdk.AccAddress(op).String()},
			Estimates: []*consensustypes.MsgAddMessageGasEstimates_GasEstimate{{MsgId: id, QueueTypeName: q, Value: 21000}}})
		must(err)
	}
	consMod := consensus.NewAppModule(f.Codec, f.ConsensusKeeper, nil, nil)
	var outs []string
	block := func(hgt int64) {
		c := ctx.WithBlockHeight(hgt)
		out, what := guard(func() error { return consMod.EndBlock(c) })
		outs = append(outs, fmt.Sprint(out))
		run.Count("usc-endblock", map[int]string{0: "completed", 1: "error", 2: "panic"}[out])
		if out != 0 {
			kind := map[int]string{1: "error", 2: "panic"}[out]
			run.Violate("C09:consensus-end-"+kind+":"+normalize(what), fmt.Sprintf("x/consensus EndBlock at height %d (user contract upload attested with receipt logs [%s]): %s: %s", hgt, logs, kind, what), replay)
		}
	}
	block(6) // elects the estimate, sets the fees
	get := func() (consensustypes.QueuedSignedMessageI, *evmtypes.Message) {
		ms, err := f.ConsensusKeeper.GetMessagesFromQueue(ctx, q, 0)
		must(err)
		for _, m := range ms {
			if m.GetId() == id {
				em, err := libmsg.ToEvmMessage(m, f.Codec)
				must(err)
				return m, em
			}
		}
		t.Fatalf("message %d not queued", id)
		return nil, nil
	}
	qm, em := get()
	if em.GetUploadUserSmartContract().Fees == nil {
		t.Fatal("fees were not elected")
	}
	bytesToSign, err := qm.GetBytesToSign(f.Codec)
	must(err)
	hash := crypto.Keccak256(append([]byte(evmkeeper.SignaturePrefix), bytesToSign...))
	for i, op := range ops {
		sig, err := crypto.Sign(hash, keys[i])
		must(err)
		enc := "v01"
		if i > 0 && i-1 < len(encs) {
			enc = encs[i-1]
		}
		out, what := guard(func() error {
			return f.ConsensusKeeper.AddMessageSignature(ctx, op, []*consensustypes.ConsensusMessageSignature{{Id: id, QueueTypeName: q, Signature: encodeSig(sig, enc),
				SignedByAddress: crypto.PubkeyToAddress(keys[i].PublicKey).Hex()}})
		})
		if out == 2 {
			run.Violate("C09:add-signature-panic", fmt.Sprintf("AddMessageSignature (%s) panicked: %s", enc, what), replay)
		}
		if enc == "v01" && out != 0 {
			t.Fatalf("plain signature refused: %s", what)
		}
		run.Count("usc-signature", enc+map[int]string{0: ":accepted", 1: ":refused", 2: ":panic"}[out])
	}
	qm, em = get()
	usc := em.GetUploadUserSmartContract()
	valset := evmkeeper.VerifC07TransformSnapshot(snap, chain)
	padded := [32]byte(append(make([]byte, 32-len(usc.SenderAddress)), usc.SenderAddress...))
	// only what has the stored form can be packed (a tree that stores other forms fails in BuildCompassConsensus:
	// then any call data will do, the end-blocker meets the same stored signatures)
	var cc evmtypes.CompassConsensus
	packable := true
	if o, _ := guard(func() error { cc = evmtypes.BuildCompassConsensus(&valset, qm.GetSignData()); return nil }); o != 0 {
		packable = false
		cc = evmtypes.BuildCompassConsensus(&valset, qm.GetSignData()[:1])
	}
	data, err := compassABI.Pack("deploy_contract",
		cc,
		common.HexToAddress(usc.GetDeployerAddress()), usc.GetBytecode(),
		evmtypes.FeeArgs{RelayerFee: new(big.Int).SetUint64(usc.Fees.RelayerFee), CommunityFee: new(big.Int).SetUint64(usc.Fees.CommunityFee),
			SecurityFee: new(big.Int).SetUint64(usc.Fees.SecurityFee), FeePayerPalomaAddress: padded},
		new(big.Int).SetUint64(id), big.NewInt(usc.GetDeadline()), common.HexToAddress(em.AssigneeRemoteAddress))
	must(err)
	tx := ethtypes.NewTx(&ethtypes.LegacyTx{Nonce: 7, Gas: 300000, GasPrice: big.NewInt(1), Data: data})
	txb, _ := tx.MarshalBinary()

	ev := compassABI.Events["ContractDeployed"]
	evData, err := ev.Inputs.NonIndexed().Pack(common.HexToAddress("0x00000000000000000000000000000000000d0001"), common.HexToAddress(usc.GetDeployerAddress()), big.NewInt(1))
	must(err)
	var rlogs []*ethtypes.Log
	if logs != "" {
		for _, sh := range strings.Split(logs, ",") {
			switch sh {
			case "anon":
				rlogs = append(rlogs, &ethtypes.Log{Address: common.HexToAddress("0x01"), Topics: []common.Hash{}, Data: []byte{1, 2, 3}})
			case "foreign":
				rlogs = append(rlogs, &ethtypes.Log{Address: common.HexToAddress("0x02"), Topics: []common.Hash{crypto.Keccak256Hash([]byte("Transfer(address,address,uint256)"))}, Data: []byte{4}})
			case "event":
				rlogs = append(rlogs, &ethtypes.Log{Address: common.HexToAddress("0x03"), Topics: []common.Hash{ev.ID}, Data: evData})
			case "event-short-data":
				rlogs = append(rlogs, &ethtypes.Log{Address: common.HexToAddress("0x03"), Topics: []common.Hash{ev.ID}, Data: evData[:7]})
			}
		}
	}
	rc := &ethtypes.Receipt{Status: 1, CumulativeGasUsed: 1, Logs: rlogs}
	if rlogs == nil {
		rc.Logs = []*ethtypes.Log{}
	}
	rcb, err := rc.MarshalBinary()
	must(err)
	must(f.ConsensusKeeper.SetMessagePublicAccessData(ctx, ops[0], &consensustypes.MsgSetPublicAccessData{MessageID: id, QueueTypeName: q, Data: tx.Hash().Bytes(), ValsetID: snap.Id}))
	pr, err := codectypes.NewAnyWithValue(&evmtypes.TxExecutedProof{SerializedTX: txb, SerializedReceipt: rcb})
	must(err)
	for _, op := range ops {
		must(f.ConsensusKeeper.AddMessageEvidence(ctx, op, &consensustypes.MsgAddEvidence{Proof: pr, MessageID: id, QueueTypeName: q}))
	}
	// the transaction must really match: otherwise the log scan is never reached and this scenario checks nothing
	if packable {
		if err := usc.VerifyAgainstTX(ctx.WithBlockHeight(7), tx, qm, &valset, sc, em.AssigneeRemoteAddress); err != nil {
			t.Fatalf("the constructed transaction does not match the message: %v", err)
		}
	}
	block(7)
	block(8)
	run.Count("usc-receipt-logs", logs)
	run.Case("C09.CBlocks "+emit.List(outs), true, replay)
}
