package c09

// C09 correspondence harness + direct oracle.
//
// One history = a fresh integration fixture (real treasury, consensus, evm, valset, metrix, paloma,
// staking keepers; consensus' fee provider is the real treasury keeper) driven through the REAL
// msg servers (treasury UpsertRelayerFee, consensus AddMessageEstimates), the governance handlers
// (SetCommunityFundFee / SetSecurityFee), the real SLC enqueue path (relayer ranking included) and
// the REAL consensus AppModule.EndBlock under recover, step by step; the observed answers are
// replayed by Corr.C09.check on Sys/EndBlock.v.  After the history, with whatever hostile state it
// left behind, every module's real BeginBlock and EndBlock is run under recover at every height
// class (1, multiples of 10, 50, 300, 303, 10000).
//
// Direct oracle (on the real code, independent of the model):
//   C09:<module>-<begin|end>-panic / -error   a Begin/EndBlock panicked or returned an error
//   C09:unusable-multiplier-stored             the treasury store holds a nil / non-positive / > 10^6 multiplier after an upsert
//   C09:starved-message                        a message whose own inputs are all usable was not
//                                              elected / priced in a block in which it had 2/3 of estimates

import (
	"encoding/json"
	"fmt"
	"math/big"
	"os"
	"path/filepath"
	"sort"
	"strings"
	"testing"

	sdkmath "cosmossdk.io/math"
	sdk "github.com/cosmos/cosmos-sdk/types"
	"github.com/onsi/ginkgo/v2"
	"github.com/palomachain/paloma/v2/util/libmsg"
	"github.com/palomachain/paloma/v2/verifharness/emit"
	consensuskeeper "github.com/palomachain/paloma/v2/x/consensus/keeper"
	consensustypes "github.com/palomachain/paloma/v2/x/consensus/types"
	evmtypes "github.com/palomachain/paloma/v2/x/evm/types"
	treasurytypes "github.com/palomachain/paloma/v2/x/treasury/types"
	valsettypes "github.com/palomachain/paloma/v2/x/valset/types"
)

var prec = new(big.Int).Exp(big.NewInt(10), big.NewInt(18), nil)

type hop struct {
	Kind   string      `json:"k"` // upsert govc govs snapshot put estimate endblock
	V      int         `json:"v,omitempty"`
	Chain  int         `json:"chain,omitempty"`
	Fees   [][2]string `json:"fees,omitempty"` // (chain index, raw multiplier or "nil")
	Str    string      `json:"str,omitempty"`  // governance fee string
	ID     uint64      `json:"id,omitempty"`
	Value  uint64      `json:"value,omitempty"`
	Height int64       `json:"h,omitempty"`
}

func decOf(raw string) sdkmath.LegacyDec {
	if raw == "nil" {
		return sdkmath.LegacyDec{}
	}
	b, _ := new(big.Int).SetString(raw, 10)
	return sdkmath.LegacyNewDecFromBigIntWithPrec(b, 18)
}

func zOpt(raw string) string {
	if raw == "nil" {
		return "None"
	}
	b, _ := new(big.Int).SetString(raw, 10)
	return "(Some " + emit.Z(b) + ")"
}

// chain reference ids a fee entry can be registered under (UpsertRelayerFee accepts unknown chains): index 0 and 1
// are the two real chains, the others near-miss spellings — for the treasury, and for the model, OTHER chains
var chainSpellings = []string{"eth-main", "bnb-main", "ETH-MAIN", "eth-main ", " Eth-Main", "BNB-MAIN", "bnb-main\t", "Eth-main"}

var hostileMults = []string{
	"nil", "0", "-1", "-1000000000000000000", "-500000000000000000", "1", "999999999999999999",
	"1100000000000000000", "1250000000000000000", "2500000000000000000", "1000000000000000000",
	"1000000000000000000000000", "1000000000000000000000001", "1000000000000000000000000000000000000000000000000",
	"115792089237316195423570985008687907853269984665640564039457584007913129639935999999999999999999",
	"-115792089237316195423570985008687907853269984665640564039457584007913129639935999999999999999999",
}
var saneMults = []string{"1100000000000000000", "1250000000000000000", "2500000000000000000", "1000000000000000000", "1500000000000000000"}
var govStrings = []string{"0.01", "0.03", "0.3", "1", "0", "-0.01", "abc", "", "1000000000000000000000000", "-5", "0.000000000000000001",
	"340282366920938463463374607431768211456", "0.01", "0.02"}
var estimateValues = []uint64{0, 1, 21000, 21000, 300000, 1 << 32, 1 << 53, 1<<63 - 1, 1 << 63, 18446744073709551000, 1<<64 - 1}

type runner struct {
	t     *testing.T
	run   *emit.Run
	e     *env
	ops   []hop
	terms []string
	// mirror for the oracle
	snapshot bool
	fees     map[int]map[int]*big.Int // accepted multipliers as the harness knows them
	gov      [2]string
	msgs     map[uint64]*mirrorMsg
	nontriv  bool
}

type mirrorMsg struct {
	chain, assignee int
	ests            map[int]uint64
}

func (r *runner) valIndex(addr string) int {
	for i, v := range r.e.vals {
		if v.String() == addr {
			return i
		}
	}
	return -1
}

func (r *runner) valAddr(i int) (sdk.ValAddress, string) {
	if i < 0 {
		return nil, "not-an-address"
	}
	if i < len(r.e.vals) {
		return r.e.vals[i], r.e.vals[i].String()
	}
	a := sdk.ValAddress([]byte(fmt.Sprintf("outsider-%012d", i)))
	return a, a.String()
}

func guard(f func() error) (outcome int, what string) {
	defer func() {
		if x := recover(); x != nil {
			outcome, what = 2, fmt.Sprint(x)
		}
	}()
	if err := f(); err != nil {
		return 1, err.Error()
	}
	return 0, ""
}

func (r *runner) observe(ctx sdk.Context) ([]string, map[uint64][2]bool) {
	type row struct {
		id      uint64
		elected uint64
		fees    *evmtypes.Fees
	}
	var rows []row
	for _, c := range chains {
		q := consensustypes.Queue(evmtypes.ConsensusTurnstoneMessage, "evm", c)
		msgs, err := r.e.f.ConsensusKeeper.GetMessagesFromQueue(ctx, q, 0)
		if err != nil {
			r.t.Fatalf("GetMessagesFromQueue: %v", err)
		}
		for _, m := range msgs {
			em, err := libmsg.ToEvmMessage(m, r.e.f.Codec)
			if err != nil {
				r.t.Fatalf("ToEvmMessage: %v", err)
			}
			var fees *evmtypes.Fees
			if slc := em.GetSubmitLogicCall(); slc != nil {
				fees = slc.Fees
			}
			rows = append(rows, row{m.GetId(), m.GetGasEstimate(), fees})
		}
	}
	sort.Slice(rows, func(i, j int) bool { return rows[i].id < rows[j].id })
	var out []string
	state := map[uint64][2]bool{}
	for _, w := range rows {
		f := "None"
		if w.fees != nil {
			f = fmt.Sprintf("(Some (%s, %s, %s))", emit.ZU(w.fees.RelayerFee), emit.ZU(w.fees.CommunityFee), emit.ZU(w.fees.SecurityFee))
		}
		out = append(out, emit.Pair(emit.ZU(w.id), emit.ZU(w.elected), f))
		state[w.id] = [2]bool{w.elected != 0, w.fees != nil}
	}
	return out, state
}

// usable: everything this message's processing reads is sane, so it must not be skipped
func (r *runner) usable(m *mirrorMsg) (bool, *big.Int) {
	if !r.snapshot {
		return false, nil
	}
	var total, got int64
	for _, p := range r.e.powers {
		total += p
	}
	var vals []uint64
	for v, x := range m.ests {
		if v < len(r.e.powers) {
			got += r.e.powers[v]
		}
		vals = append(vals, x)
	}
	if len(vals) == 0 || 3*got < 2*total {
		return false, nil
	}
	sort.Slice(vals, func(i, j int) bool { return vals[i] < vals[j] })
	var med uint64
	if len(vals)%2 == 1 {
		med = vals[len(vals)/2]
	} else {
		a, b := vals[len(vals)/2-1], vals[len(vals)/2]
		med = a + (b-a)/2
	}
	if med == 0 {
		return false, nil
	}
	mult := r.fees[m.assignee][m.chain]
	if mult == nil || mult.Sign() <= 0 {
		return false, nil
	}
	for _, g := range r.gov {
		d, err := sdkmath.LegacyNewDecFromStr(g)
		if err != nil || !d.IsPositive() || d.GT(sdkmath.LegacyOneDec()) {
			return false, nil
		}
	}
	prod := new(big.Int).Mul(mult, new(big.Int).SetUint64(med))
	q, rem := new(big.Int).QuoRem(prod, prec, new(big.Int))
	if rem.Sign() > 0 {
		q.Add(q, big.NewInt(1))
	}
	if !q.IsUint64() {
		return false, nil
	}
	return true, q
}

func (r *runner) do(h hop) {
	e := r.e
	replay := func() any { return map[string]any{"powers": e.powers, "ops": append(append([]hop{}, r.ops...), h)} }
	ctx := e.at(e.height)
	switch h.Kind {
	case "snapshot":
		if err := e.buildSnapshot(); err != nil {
			r.t.Fatal(err)
		}
		r.snapshot = true
		var items []string
		for i, p := range e.powers {
			items = append(items, emit.Pair(emit.ZI(int64(i)), emit.ZI(p*1000000)))
		}
		r.terms = append(r.terms, "C09.HSnapshot "+emit.List(items))
	case "upsert":
		_, addr := r.valAddr(h.V)
		fs := &treasurytypes.RelayerFeeSetting{ValAddress: addr}
		var items []string
		for _, f := range h.Fees {
			var ci int
			fmt.Sscan(f[0], &ci)
			fs.Fees = append(fs.Fees, treasurytypes.RelayerFeeSetting_FeeSetting{ChainReferenceId: chainSpellings[ci], Multiplicator: decOf(f[1])})
			items = append(items, emit.Pair(emit.ZI(int64(ci)), zOpt(f[1])))
		}
		out, _ := guard(func() error {
			_, err := e.tre.UpsertRelayerFee(ctx, &treasurytypes.MsgUpsertRelayerFee{FeeSetting: fs,
				Metadata: valsettypes.MsgMetadata{Creator: addr, Signers: []string{addr}}})
			return err
		})
		ok := out == 0
		// oracle on the real store: whatever was submitted, only usable multipliers are ever stored
		if all, err := e.f.TreasuryKeeper.GetRelayerFees(ctx); err == nil {
			for _, rec := range all {
				for _, f := range rec.Fees {
					if f.Multiplicator.IsNil() || !f.Multiplicator.IsPositive() || f.Multiplicator.GT(sdkmath.LegacyNewDec(1000000)) {
						r.run.Violate("C09:unusable-multiplier-stored", fmt.Sprintf("treasury stores relayer fee multiplicator %s for %s on %s", f.Multiplicator, rec.ValAddress, f.ChainReferenceId), replay())
					}
				}
			}
		}
		if ok {
			if r.fees[h.V] == nil {
				r.fees[h.V] = map[int]*big.Int{}
			}
			seen := map[int]bool{}
			for _, f := range h.Fees {
				var ci int
				fmt.Sscan(f[0], &ci)
				if seen[ci] {
					continue
				}
				seen[ci] = true
				if f[1] == "nil" {
					r.fees[h.V][ci] = big.NewInt(0)
				} else {
					b, _ := new(big.Int).SetString(f[1], 10)
					r.fees[h.V][ci] = b
				}
			}
		}
		r.run.Count("upsert", map[bool]string{true: "accepted", false: "rejected"}[ok])
		r.terms = append(r.terms, fmt.Sprintf("C09.HUpsert %s %s %s", emit.ZI(int64(h.V)), emit.List(items), emit.Bool(ok)))
	case "govc", "govs":
		var err error
		if h.Kind == "govc" {
			err = e.f.TreasuryKeeper.SetCommunityFundFee(ctx, h.Str)
			r.gov[0] = h.Str
		} else {
			err = e.f.TreasuryKeeper.SetSecurityFee(ctx, h.Str)
			r.gov[1] = h.Str
		}
		if err != nil {
			r.t.Fatalf("gov fee: %v", err)
		}
		parsed := "None"
		if d, err := sdkmath.LegacyNewDecFromStr(h.Str); err == nil {
			parsed = "(Some " + emit.Z(d.BigInt()) + ")"
		}
		r.terms = append(r.terms, map[string]string{"govc": "C09.HGovC ", "govs": "C09.HGovS "}[h.Kind]+parsed)
	case "put":
		var id uint64
		sender := []byte("abcdefghijabcdefghij")
		if h.Value%2 == 1 {
			sender = []byte("abcdefghijabcdefghijabcdefghij12") // 32-byte (contract / module) sender
		}
		out, what := guard(func() error {
			var err error
			id, err = e.f.EvmKeeper.AddSmartContractExecutionToConsensus(ctx, chains[h.Chain], "", &evmtypes.SubmitLogicCall{
				Payload: []byte{1, 2, 3, 4}, HexContractAddress: "0x51eca2efb15afacc612278c71f5edb35986f172f", Abi: []byte("[]"), Deadline: 1337,
				SenderAddress: sender, ContractAddress: []byte("abcdefghijabcdefghij"),
			})
			return err
		})
		if out == 2 {
			r.run.Violate("C09:put-panic", "AddSmartContractExecutionToConsensus panicked: "+what, replay())
		}
		res := "None"
		if out == 0 {
			q := consensustypes.Queue(evmtypes.ConsensusTurnstoneMessage, "evm", chains[h.Chain])
			m, err := e.f.ConsensusKeeper.GetMessagesFromQueue(ctx, q, 0)
			if err != nil {
				r.t.Fatal(err)
			}
			a := -2
			for _, x := range m {
				if x.GetId() == id {
					em, _ := libmsg.ToEvmMessage(x, e.f.Codec)
					a = r.valIndex(em.GetAssignee())
				}
			}
			res = "(Some " + emit.Pair(emit.ZU(id), emit.ZI(int64(a))) + ")"
			r.msgs[id] = &mirrorMsg{chain: h.Chain, assignee: a, ests: map[int]uint64{}}
		}
		r.run.Count("put", map[bool]string{true: "assigned", false: "refused"}[out == 0])
		r.terms = append(r.terms, fmt.Sprintf("C09.HPut %d %s", h.Chain, res))
	case "estimate":
		va, _ := r.valAddr(h.V)
		ch := 0
		if m := r.msgs[h.ID]; m != nil {
			ch = m.chain // the queue the message lives in (pigeon reads it from the query it answers)
		}
		q := consensustypes.Queue(evmtypes.ConsensusTurnstoneMessage, "evm", chains[ch])
		out, _ := guard(func() error {
			_, err := e.cons.AddMessageEstimates(ctx, &consensustypes.MsgAddMessageGasEstimates{
				Metadata:  valsettypes.MsgMetadata{Creator: sdk.AccAddress(va).String()},
				Estimates: []*consensustypes.MsgAddMessageGasEstimates_GasEstimate{{MsgId: h.ID, QueueTypeName: q, Value: h.Value}},
			})
			return err
		})
		ok := out == 0
		if ok {
			if m := r.msgs[h.ID]; m != nil {
				m.ests[h.V] = h.Value
			}
		}
		r.run.Count("estimate", map[bool]string{true: "accepted", false: "rejected"}[ok])
		r.terms = append(r.terms, fmt.Sprintf("C09.HEstimate %s %s %s %s", emit.ZI(int64(h.V)), emit.ZU(h.ID), emit.ZU(h.Value), emit.Bool(ok)))
	case "endblock":
		e.height = h.Height
		bctx := e.at(e.height)
		_, before := r.observe(bctx)
		out, what := guard(func() error { return e.consMod.EndBlock(bctx) })
		if out != 0 {
			kind := map[int]string{1: "error", 2: "panic"}[out]
			r.run.Violate("C09:consensus-end-"+kind+":"+normalize(what), fmt.Sprintf("x/consensus EndBlock at height %d: %s: %s", e.height, kind, what), replay())
		}
		obs, after := r.observe(bctx)
		// starvation oracle
		for id, m := range r.msgs {
			if before[id][0] || !r.snapshot {
				continue
			}
			if ok, _ := r.usable(m); ok && out == 0 && !(after[id][0] && after[id][1]) {
				r.run.Violate("C09:starved-message", fmt.Sprintf("message %d has 2/3 of estimates and usable fee settings but was not elected/priced at height %d", id, e.height), replay())
			}
			if after[id][0] {
				r.nontriv = true
			}
		}
		r.run.Count("consensus-endblock", map[int]string{0: "completed", 1: "error", 2: "panic"}[out])
		r.terms = append(r.terms, fmt.Sprintf("C09.HEndBlock %d %s", out, emit.List(obs)))
		if out == 2 {
			// the block is lost; the history ends here
			r.ops = append(r.ops, h)
			panic(stopHistory{})
		}
	}
	r.ops = append(r.ops, h)
}

type stopHistory struct{}

func normalize(s string) string {
	s = strings.ToLower(s)
	if len(s) > 40 {
		s = s[:40]
	}
	return strings.Map(func(c rune) rune {
		if (c >= 'a' && c <= 'z') || c == ' ' {
			return c
		}
		return -1
	}, s)
}

// every module's real BeginBlock / EndBlock, under recover, at every height class
func (r *runner) allModules(label string) {
	e := r.e
	type mod struct {
		name  string
		begin func(sdk.Context) error
		end   func(sdk.Context) error
	}
	mods := []mod{
		{"consensus", func(c sdk.Context) error { return e.consMod.BeginBlock(c) }, func(c sdk.Context) error { return e.consMod.EndBlock(c) }},
		{"evm", func(c sdk.Context) error { return e.evmMod.BeginBlock(c) }, func(c sdk.Context) error { return e.evmMod.EndBlock(c) }},
		{"valset", func(c sdk.Context) error { return e.valsetMod.BeginBlock(c) }, func(c sdk.Context) error { return e.valsetMod.EndBlock(c) }},
		{"paloma", func(c sdk.Context) error { return e.palomaMod.BeginBlock(c) }, func(c sdk.Context) error { return e.palomaMod.EndBlock(c) }},
		{"metrix", func(c sdk.Context) error { return e.metrixMod.BeginBlock(c) }, func(c sdk.Context) error { return e.metrixMod.EndBlock(c) }},
	}
	heights := []int64{e.height + 1, 300, 303, 350, 600, 606, 650, 9999, 10000, 10010, 10050}
	if !r.snapshot {
		heights = append([]int64{1, 10, 50}, heights...)
	}
	var outs []string
	for _, h := range heights {
		if h <= e.height && r.snapshot {
			continue
		}
		e.height = h
		ctx := e.at(h)
		for _, m := range mods {
			for ph, fn := range map[string]func(sdk.Context) error{"begin": m.begin, "end": m.end} {
				out, what := guard(func() error { return fn(ctx) })
				outs = append(outs, fmt.Sprint(out))
				r.run.Count("block-"+m.name, map[int]string{0: "completed", 1: "error", 2: "panic"}[out])
				if out != 0 {
					kind := map[int]string{1: "error", 2: "panic"}[out]
					r.run.Violate("C09:"+m.name+"-"+ph+"-"+kind+":"+normalize(what),
						fmt.Sprintf("x/%s %sBlock at height %d (%s): %s: %s", m.name, strings.Title(ph), h, label, kind, what),
						map[string]any{"powers": e.powers, "ops": r.ops, "then": "all modules", "height": h})
				}
			}
		}
	}
	checkInvariants(r.run, e, e.at(e.height), map[string]any{"powers": e.powers, "ops": r.ops, "then": "all modules"})
	r.run.Case("C09.CBlocks "+emit.List(outs), len(r.msgs) > 0, nil)
}

func (r *runner) history(ops []hop, tail bool) {
	func() {
		defer func() {
			if x := recover(); x != nil {
				if _, ok := x.(stopHistory); !ok {
					panic(x)
				}
			}
		}()
		for _, h := range ops {
			r.do(h)
		}
	}()
	r.run.Case("C09.CHist "+emit.List(r.terms), r.nontriv, map[string]any{"powers": r.e.powers, "ops": r.ops})
	if tail {
		r.allModules("after history")
	}
}

func newRunner(t *testing.T, run *emit.Run, powers []int64) *runner {
	e, err := newEnv(ginkgo.GinkgoT(), powers)
	if err != nil {
		t.Fatal(err)
	}
	return &runner{t: t, run: run, e: e, fees: map[int]map[int]*big.Int{}, msgs: map[uint64]*mirrorMsg{}}
}

func genHistory(run *emit.Run, nv int, hostile bool) []hop {
	r := run.Rng
	var ops []hop
	pick := func(l []string) string { return l[r.Intn(len(l))] }
	snapAt := 0
	if r.Intn(8) == 0 {
		snapAt = 1 + r.Intn(4)
	}
	height := int64(6)
	nextID := uint64(1)
	n := 8 + r.Intn(18)
	// mostly-valid prologue
	if !hostile || r.Intn(2) == 0 {
		ops = append(ops, hop{Kind: "govc", Str: "0.01"}, hop{Kind: "govs", Str: "0.03"})
	}
	for i := 0; i < n; i++ {
		if i == snapAt {
			ops = append(ops, hop{Kind: "snapshot"})
			for v := 0; v < nv; v++ {
				if r.Intn(5) > 0 {
					m := pick(saneMults)
					if hostile && r.Intn(3) == 0 {
						m = pick(hostileMults)
					}
					ci := "0"
					if hostile && r.Intn(5) == 0 {
						ci = fmt.Sprint(2 + r.Intn(len(chainSpellings)-2)) // this validator only knows the chain by a near-miss spelling
					}
					ops = append(ops, hop{Kind: "upsert", V: v, Fees: [][2]string{{ci, m}}})
				}
			}
		}
		switch k := r.Intn(20); {
		case k < 4:
			v := r.Intn(nv + 1)
			if r.Intn(15) == 0 {
				v = -1
			}
			var fs [][2]string
			for j := 0; j < 1+r.Intn(2); j++ {
				m := pick(saneMults)
				if hostile && r.Intn(2) == 0 {
					m = pick(hostileMults)
				}
				ci := r.Intn(2)
				if hostile && r.Intn(4) == 0 {
					ci = r.Intn(len(chainSpellings)) // a near-miss spelling of a chain id
				}
				fs = append(fs, [2]string{fmt.Sprint(ci), m})
			}
			if r.Intn(12) == 0 {
				fs = nil
			}
			ops = append(ops, hop{Kind: "upsert", V: v, Fees: fs})
		case k < 5:
			s := "0.01"
			if hostile {
				s = pick(govStrings)
			}
			ops = append(ops, hop{Kind: map[bool]string{true: "govc", false: "govs"}[r.Intn(2) == 0], Str: s})
		case k < 9:
			ops = append(ops, hop{Kind: "put", Chain: r.Intn(2), Value: uint64(r.Intn(2))})
			nextID++
		case k < 17:
			id := uint64(1 + r.Intn(int(nextID)))
			if nextID > 1 && r.Intn(4) > 0 {
				id = uint64(1 + r.Intn(int(nextID-1)))
			}
			val := estimateValues[2+r.Intn(3)]
			if hostile && r.Intn(3) == 0 {
				val = estimateValues[r.Intn(len(estimateValues))]
			}
			same := r.Intn(3) > 0
			for v := 0; v < nv+1; v++ {
				if v == nv && r.Intn(6) > 0 {
					continue
				}
				if r.Intn(5) == 0 {
					continue
				}
				x := val
				if !same {
					x = estimateValues[1+r.Intn(len(estimateValues)-1)]
				}
				ops = append(ops, hop{Kind: "estimate", V: v, ID: id, Value: x})
			}
		default:
			switch r.Intn(4) {
			case 0:
				height++
			case 1:
				height = (height/10 + 1) * 10
			case 2:
				if height < 240 {
					height = (height/50 + 1) * 50
				} else {
					height++
				}
			default:
				height += int64(1 + r.Intn(7))
			}
			if height > 290 {
				height = 290 + int64(i%5)
			}
			ops = append(ops, hop{Kind: "endblock", Height: height})
		}
	}
	height++
	ops = append(ops, hop{Kind: "endblock", Height: height})
	return ops
}

func TestCorr(t *testing.T) {
	run := emit.Start("C09", 60)
	run.Rule("per history: fresh integration fixture (3..5 validators, random powers), 8..26 ops through the real treasury / consensus msg servers, " +
		"governance fee setters, real SLC enqueue (ranking) and the real consensus EndBlock under recover at heights incl. multiples of 10 and 50; " +
		"half of the histories draw multipliers / fee strings / estimates from a hostile pool (nil, 0, negative, 1e-18, 1e6, 1e6+1ulp, 1e30, ±LegacyDec range limit; " +
		"'abc', '', negative, huge strings; estimates 0, 1, 2^63, 2^64-1, 2^64-616); then every module's real Begin/EndBlock at heights next, 300, 303, 350, 600, 606, 650, 9999, 10000, 10010, 10050. " +
		"Plus mulCeilUint64 on boundary operands. SECOND ROUND: N attestation histories (compass deployed; logic calls, user-contract uploads, validator-balance and reference-block requests; " +
		"evidence through MsgAddEvidence from a pool of absent / empty-type / unregistered / garbage proofs, transaction proofs with successful, failed and missing receipts, error proofs, balance lists of right and wrong length, proofs of the wrong kind; " +
		"the same unusable proofs written through the queue object; public access / error data by any validator; gas estimates so that some messages get fees and some never do; end-blocks at growing heights and a jump past the pruning age to a multiple of 50), " +
		"N/3 histories of the real skyway.EndBlocker on two chains with applied / refused / panicking claims, isNewSnapshotWorthy on equal-order snapshots incl. zero totals and the 1% boundary, " +
		"the real paloma BeginBlock after a really applied upgrade for (binary version, completed upgrade) pairs with multi-digit components, pre-releases, build metadata, shorthands and invalid strings. non-trivial = a history in which at least one election happened (CHist) / a block run with queued messages (CBlocks)")

	// ---- corpus first: F6 and friends ----
	corpus, _ := filepath.Glob("/verif/harness/corpus/C09/*.json")
	sort.Strings(corpus)
	for _, p := range corpus {
		bz, err := os.ReadFile(p)
		if err != nil {
			t.Fatal(err)
		}
		var kind struct {
			Kind string `json:"kind"`
		}
		_ = json.Unmarshal(bz, &kind)
		switch kind.Kind {
		case "attest-history":
			var c struct {
				Powers []int64 `json:"powers"`
				Ops    []xhop  `json:"ops"`
			}
			if err := json.Unmarshal(bz, &c); err != nil {
				t.Fatalf("%s: %v", p, err)
			}
			newARunner(t, run, c.Powers).history(c.Ops)
		case "grace-legacy":
			var c struct {
				Shapes []string `json:"shapes"`
				Legacy int      `json:"legacy_includes"`
			}
			if err := json.Unmarshal(bz, &c); err != nil {
				t.Fatalf("%s: %v", p, err)
			}
			graceScenario(t, run, c.Shapes, c.Legacy)
		case "set-active":
			var c struct {
				Variant string `json:"variant"`
			}
			if err := json.Unmarshal(bz, &c); err != nil {
				t.Fatalf("%s: %v", p, err)
			}
			setActiveScenario(t, run, c.Variant)
		case "metrix-history":
			var c struct {
				Events []relayEv `json:"events"`
			}
			if err := json.Unmarshal(bz, &c); err != nil {
				t.Fatalf("%s: %v", p, err)
			}
			metrixHistory(t, run, c.Events)
		case "usc-receipt":
			var c struct {
				Logs  string   `json:"logs"`
				NVals int      `json:"nvals"`
				Sigs  []string `json:"sigs"`
			}
			if err := json.Unmarshal(bz, &c); err != nil {
				t.Fatalf("%s: %v", p, err)
			}
			uscScenario(t, run, c.Logs, c.NVals, c.Sigs...)
		case "evm-gov-history":
			var c struct {
				History govHist `json:"history"`
			}
			if err := json.Unmarshal(bz, &c); err != nil {
				t.Fatalf("%s: %v", p, err)
			}
			evmGovHistory(t, run, c.History)
		case "skyway-history":
			var c struct {
				Ops []yhop `json:"ops"`
			}
			if err := json.Unmarshal(bz, &c); err != nil {
				t.Fatalf("%s: %v", p, err)
			}
			skyHistory(t, run, c.Ops)
		default:
			var c struct {
				Powers []int64 `json:"powers"`
				Ops    []hop   `json:"ops"`
			}
			if err := json.Unmarshal(bz, &c); err != nil {
				t.Fatalf("%s: %v", p, err)
			}
			rr := newRunner(t, run, c.Powers)
			rr.history(c.Ops, true)
		}
		run.Count("source", "corpus")
	}

	// ---- mulCeilUint64 ----
	nm := run.N * 4
	for i := 0; i < nm; i++ {
		raw := hostileMults[1+run.Rng.Intn(len(hostileMults)-1)]
		if run.Rng.Intn(2) == 0 {
			raw = emit.BigUpTo(run.Rng, 70).String()
			if run.Rng.Intn(6) == 0 {
				raw = "-" + raw
			}
		}
		n := emit.U64(run.Rng)
		if i%5 == 0 {
			// the 64-bit boundary itself: floor(d*n) = 2^64-1 with a fractional part (ceiling = 2^64), or just below / above it
			n = 1 + run.Rng.Uint64()>>uint(6+run.Rng.Intn(50))
			num := new(big.Int).Mul(new(big.Int).SetUint64(^uint64(0)), prec)
			num.Add(num, new(big.Int).Div(prec, big.NewInt(int64(2+run.Rng.Intn(3)))))
			if run.Rng.Intn(4) == 0 {
				num.Sub(num, prec)
			}
			raw = new(big.Int).Div(num, new(big.Int).SetUint64(n)).String()
		}
		d := decOf(raw)
		var got uint64
		out, what := guard(func() error {
			var err error
			got, err = consensuskeeper.VerifC09MulCeilUint64(d, n)
			return err
		})
		if out == 2 {
			run.Violate("C09:mulceil-panic", fmt.Sprintf("mulCeilUint64(%s, %d) panicked: %s", raw, n, what), map[string]any{"d": raw, "n": n})
		}
		b, _ := new(big.Int).SetString(raw, 10)
		run.Count("mulceil", map[int]string{0: "value", 1: "error", 2: "panic"}[out])
		run.Case(fmt.Sprintf("C09.CMulCeil %s %s %s", emit.Z(b), emit.ZU(n), emit.Opt(emit.ZU(got), out == 0)), out == 0 && got > 0, nil)
	}

	// ---- generated histories ----
	for i := 0; i < run.N; i++ {
		nv := 3 + run.Rng.Intn(3)
		powers := make([]int64, nv)
		for j := range powers {
			powers[j] = int64(1 + run.Rng.Intn(20))
			if run.Rng.Intn(3) == 0 {
				powers[j] = 10
			}
		}
		hostile := i%2 == 1 || os.Getenv("VERIF_SEARCH") != ""
		ops := genHistory(run, nv, hostile)
		rr := newRunner(t, run, powers)
		rr.history(ops, i%3 == 0 || run.Tier == "thorough")
		run.Count("source", map[bool]string{true: "hostile", false: "mostly-valid"}[hostile])
	}

	// ---- second round: attestation / pruning histories, the skyway end-blocker, isNewSnapshotWorthy ----
	na := run.N
	for i := 0; i < na; i++ {
		nv := 3 + run.Rng.Intn(3)
		powers := make([]int64, nv)
		for j := range powers {
			powers[j] = int64(1 + run.Rng.Intn(20))
			if run.Rng.Intn(3) == 0 {
				powers[j] = 10
			}
		}
		ops := genAttestHistory(run, nv)
		ar := newARunner(t, run, powers)
		ar.history(ops)
		if i%5 == 0 {
			checkInvariants(run, ar.e, ar.e.at(ar.e.height), map[string]any{"kind": "attest-history", "powers": powers, "ops": ar.ops})
			worthyCases(run, ar.e)
		}
		run.Count("source", "attest-history")
	}
	ns := run.N / 3
	for i := 0; i < ns; i++ {
		skyHistory(t, run, genSkyHistory(run))
		run.Count("source", "skyway-history")
	}

	// ---- governance-configured state: compass deployment to a new chain, relay weights, retry ranking ----
	for i := 0; i < run.N/5; i++ {
		evmGovHistory(t, run, genGovHist(run))
		run.Count("source", "evm-gov-history")
	}

	// ---- a user contract upload attested with a MATCHING transaction and receipt logs of every shape ----
	for i, sh := range uscLogShapes {
		nv := 3 + (i+int(run.Seed))%3
		var encs []string
		for k := 1; k < nv; k++ {
			encs = append(encs, sigEncodings[run.Rng.Intn(len(sigEncodings))])
		}
		uscScenario(t, run, sh, nv, encs...)
		run.Count("source", "usc-receipt")
	}

	// ---- round 6: SetSmartContractAsActive with the deployment record removed mid-flight; metrix with aged-out relay histories ----
	for _, v := range []string{"in-flight", "removed", "other-chain"} {
		setActiveScenario(t, run, v)
	}
	for i := 0; i < run.N/5; i++ {
		metrixHistory(t, run, genMetrixHistory(run))
		run.Count("source", "metrix-history")
	}

	// ---- round 7: the previous release's unjailed snapshot (comma-joined) with the separator byte inside operator addresses ----
	for i := 0; i < 12; i++ {
		n := 2 + run.Rng.Intn(4)
		var shapes []string
		for k := 0; k < n; k++ {
			shapes = append(shapes, graceShapes[run.Rng.Intn(len(graceShapes))])
		}
		graceScenario(t, run, shapes, run.Rng.Intn(n+1))
	}

	// ---- the version gate: real paloma BeginBlock over (binary version, completed upgrade) pairs ----
	gateCases(t, run, run.N/3, gateCorpus)

	if err := run.Finish("Sys.EndBlock Sys.EndBlockAttest Sys.EndBlockMods Corr.C09", "C09.case", "C09.check"); err != nil {
		t.Fatal(err)
	}
}
