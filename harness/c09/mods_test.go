package c09

// C09, second round: invariants that the site classes "guarded" / "not-sender-controlled" of
// tables/c09_sites.json rest on, checked on the real state, and the division of isNewSnapshotWorthy
// on the real function (hook VerifC08SnapshotWorthy) against Sys/EndBlockMods.worthy_powers.
//
//   C09:snapshot-zero-total     the current snapshot lists validators but its TotalShares is not positive
//                               (isNewSnapshotWorthy and transformSnapshotToCompass divide by it)
//   C09:snapshot-share-negative a snapshot validator has a negative share count
//   C09:no-snapshot-with-queue  a consensus queue holds a message although no snapshot exists
//                               (VerifyEvidence / VerifyGasEstimates dereference the snapshot)
//   C09:queued-sender-too-long  a queued SubmitLogicCall / UploadUserSmartContract carries a sender
//                               address longer than 32 bytes (bytes.Repeat(…, 32-len) would panic)
//   C09:worthy-panic-positive   isNewSnapshotWorthy panicked although both totals are positive

import (
	"fmt"

	sdkmath "cosmossdk.io/math"
	sdk "github.com/cosmos/cosmos-sdk/types"
	"github.com/palomachain/paloma/v2/util/libmsg"
	"github.com/palomachain/paloma/v2/verifharness/emit"
	consensustypes "github.com/palomachain/paloma/v2/x/consensus/types"
	evmkeeper "github.com/palomachain/paloma/v2/x/evm/keeper"
	evmtypes "github.com/palomachain/paloma/v2/x/evm/types"
	valsettypes "github.com/palomachain/paloma/v2/x/valset/types"
)

func checkInvariants(run *emit.Run, e *env, ctx sdk.Context, replay any) {
	snap, err := e.f.ValsetKeeper.GetCurrentSnapshot(ctx)
	if err != nil {
		return
	}
	if snap != nil && len(snap.Validators) > 0 {
		run.Count("invariant", "snapshot-checked")
		if !snap.TotalShares.IsPositive() {
			run.Violate("C09:snapshot-zero-total", fmt.Sprintf("snapshot %d lists %d validators with total shares %s", snap.Id, len(snap.Validators), snap.TotalShares), replay)
		}
		for _, v := range snap.Validators {
			if v.ShareCount.IsNegative() {
				run.Violate("C09:snapshot-share-negative", fmt.Sprintf("snapshot %d: validator %s has share count %s", snap.Id, v.Address, v.ShareCount), replay)
			}
		}
	}
	queued := 0
	for _, c := range chains {
		for _, q := range []string{
			consensustypes.Queue(evmtypes.ConsensusTurnstoneMessage, "evm", c),
			consensustypes.Queue(evmkeeper.ConsensusGetValidatorBalances, "evm", c),
			consensustypes.Queue(evmkeeper.ConsensusGetReferenceBlock, "evm", c),
		} {
			ms, err := e.f.ConsensusKeeper.GetMessagesFromQueue(ctx, q, 0)
			if err != nil {
				continue
			}
			queued += len(ms)
			for _, m := range ms {
				em, err := libmsg.ToEvmMessage(m, e.f.Codec)
				if err != nil || em == nil {
					continue
				}
				var sender []byte
				if slc := em.GetSubmitLogicCall(); slc != nil {
					sender = slc.SenderAddress
				}
				if u := em.GetUploadUserSmartContract(); u != nil {
					sender = u.SenderAddress
				}
				if len(sender) > 32 {
					run.Violate("C09:queued-sender-too-long", fmt.Sprintf("message %d carries a %d-byte sender address", m.GetId(), len(sender)), replay)
				}
			}
		}
	}
	if queued > 0 {
		run.Count("invariant", "queue-with-snapshot-checked")
		if snap == nil {
			run.Violate("C09:no-snapshot-with-queue", fmt.Sprintf("%d messages queued but GetCurrentSnapshot returns nil", queued), replay)
		}
	}
}

// isNewSnapshotWorthy on two snapshots with the same validators in the same share order
func worthyCases(run *emit.Run, e *env) {
	r := run.Rng
	ctx := e.at(e.height)
	nv := len(e.vals)
	gen := func() []int64 {
		out := make([]int64, nv)
		var acc int64
		for i := range out {
			acc += int64(r.Intn(40))
			if r.Intn(6) == 0 {
				acc += int64(r.Intn(100000))
			}
			out[i] = acc
		}
		return out
	}
	for k := 0; k < 12; k++ {
		cur, nw := gen(), gen()
		switch r.Intn(6) {
		case 0:
			nw = append([]int64{}, cur...)
		case 1:
			for i := range cur {
				cur[i] = 0 // nobody holds bonded tokens: total 0
			}
		case 2:
			for i := range nw {
				nw[i] = 0
			}
		case 3: // 1% boundary
			cur, nw = make([]int64, nv), make([]int64, nv)
			for i := range cur {
				cur[i], nw[i] = 0, 0
			}
			cur[nv-2], cur[nv-1] = 1, 99
			nw[nv-2], nw[nv-1] = int64(1+r.Intn(2)), int64(98+r.Intn(2))
		}
		mk := func(sh []int64) (*valsettypes.Snapshot, int64) {
			s := &valsettypes.Snapshot{TotalShares: sdkmath.ZeroInt()}
			var tot int64
			for i, x := range sh {
				s.Validators = append(s.Validators, valsettypes.Validator{Address: e.vals[i], ShareCount: sdkmath.NewInt(x), State: valsettypes.ValidatorState_ACTIVE})
				tot += x
			}
			s.TotalShares = sdkmath.NewInt(tot)
			return s, tot
		}
		a, ta := mk(cur)
		b, tb := mk(nw)
		res := 0
		out, what := guard(func() error {
			if e.f.ValsetKeeper.VerifC08SnapshotWorthy(ctx, a, b) {
				res = 1
			}
			return nil
		})
		if out == 2 {
			res = 2
			if ta > 0 && tb > 0 {
				run.Violate("C09:worthy-panic-positive", fmt.Sprintf("isNewSnapshotWorthy(%v/%d, %v/%d) panicked: %s", cur, ta, nw, tb, what), map[string]any{"cur": cur, "new": nw})
			}
		}
		run.Count("worthy", map[int]string{0: "not-worthy", 1: "worthy", 2: "panic (zero total, as the model says)"}[res])
		zl := func(l []int64) string {
			var it []string
			for _, x := range l {
				it = append(it, emit.ZI(x))
			}
			return emit.List(it)
		}
		run.Case(fmt.Sprintf("C09.CWorthy %s %s %s %s %d", zl(cur), zl(nw), emit.ZI(ta), emit.ZI(tb), res), res != 0, nil)
	}
}
