package c09

// C09, second round: the version gate of x/paloma's BeginBlock on the REAL keeper — governance
// completes an upgrade (real x/upgrade keeper: ApplyUpgrade), the binary's version is the paloma
// keeper's AppVersion field (app wiring passes the build version), the real AppModule.BeginBlock
// runs under recover — against Sys/EndBlockMods.gate_open.
//
// The versions are parsed HERE (own parser after semver.org + the vMAJOR / vMAJOR.MINOR shorthands of
// golang.org/x/mod/semver; not that library) into (major, minor, patch, pre-release identifiers);
// build metadata is dropped.
//
// Direct oracle, independent of the model (own comparison):
//   C09:version-gate-stops-not-older   BeginBlock panicked although the binary is on the upgrade's
//                                      major.minor line and not older than the completed upgrade
//   C09:version-gate-lets-older        BeginBlock completed although the binary is older than the
//                                      completed upgrade (same line)
//   C09:paloma-begin-error             BeginBlock returned an error

import (
	"context"
	"fmt"
	"math/big"
	"strings"
	"testing"

	"cosmossdk.io/core/header"
	upgradetypes "cosmossdk.io/x/upgrade/types"
	"github.com/cosmos/cosmos-sdk/types/module"
	"github.com/onsi/ginkgo/v2"
	"github.com/palomachain/paloma/v2/tests/integration/helper"
	"github.com/palomachain/paloma/v2/verifharness/emit"
	"github.com/palomachain/paloma/v2/x/paloma"
)

type preID struct {
	num   *big.Int // nil = alphanumeric
	alpha string
}

type semVer struct {
	major, minor, patch *big.Int
	pre                 []preID
}

func parseNum(s string) (*big.Int, bool) {
	if s == "" || (len(s) > 1 && s[0] == '0') {
		return nil, false
	}
	for _, c := range s {
		if c < '0' || c > '9' {
			return nil, false
		}
	}
	n, _ := new(big.Int).SetString(s, 10)
	return n, true
}

func identOK(s string) bool {
	if s == "" {
		return false
	}
	for _, c := range s {
		if !(c >= '0' && c <= '9' || c >= 'a' && c <= 'z' || c >= 'A' && c <= 'Z' || c == '-') {
			return false
		}
	}
	return true
}

func parseSemver(s string) (*semVer, bool) {
	if !strings.HasPrefix(s, "v") {
		return nil, false
	}
	s = s[1:]
	build := ""
	hasBuild := false
	if i := strings.IndexByte(s, '+'); i >= 0 {
		s, build, hasBuild = s[:i], s[i+1:], true
	}
	pre := ""
	hasPre := false
	if i := strings.IndexByte(s, '-'); i >= 0 {
		s, pre, hasPre = s[:i], s[i+1:], true
	}
	parts := strings.Split(s, ".")
	if len(parts) > 3 {
		return nil, false
	}
	if len(parts) < 3 && (hasPre || hasBuild) {
		return nil, false // the shorthands carry neither
	}
	out := &semVer{minor: big.NewInt(0), patch: big.NewInt(0)}
	var ok bool
	if out.major, ok = parseNum(parts[0]); !ok {
		return nil, false
	}
	if len(parts) > 1 {
		if out.minor, ok = parseNum(parts[1]); !ok {
			return nil, false
		}
	}
	if len(parts) > 2 {
		if out.patch, ok = parseNum(parts[2]); !ok {
			return nil, false
		}
	}
	if hasPre {
		for _, id := range strings.Split(pre, ".") {
			if !identOK(id) {
				return nil, false
			}
			numeric := true
			for _, c := range id {
				if c < '0' || c > '9' {
					numeric = false
				}
			}
			if numeric {
				n, ok := parseNum(id)
				if !ok {
					return nil, false // leading zero
				}
				out.pre = append(out.pre, preID{num: n})
			} else {
				out.pre = append(out.pre, preID{alpha: id})
			}
		}
	}
	if hasBuild {
		for _, id := range strings.Split(build, ".") {
			if !identOK(id) {
				return nil, false
			}
		}
	}
	return out, true
}

// precedence of semver.org §11
func cmpSemver(a, b *semVer) int {
	for _, p := range [][2]*big.Int{{a.major, b.major}, {a.minor, b.minor}, {a.patch, b.patch}} {
		if c := p[0].Cmp(p[1]); c != 0 {
			return c
		}
	}
	switch {
	case len(a.pre) == 0 && len(b.pre) == 0:
		return 0
	case len(a.pre) == 0:
		return 1
	case len(b.pre) == 0:
		return -1
	}
	for i := 0; i < len(a.pre) && i < len(b.pre); i++ {
		x, y := a.pre[i], b.pre[i]
		switch {
		case x.num != nil && y.num != nil:
			if c := x.num.Cmp(y.num); c != 0 {
				return c
			}
		case x.num != nil:
			return -1
		case y.num != nil:
			return 1
		default:
			if c := strings.Compare(x.alpha, y.alpha); c != 0 {
				return c
			}
		}
	}
	switch {
	case len(a.pre) < len(b.pre):
		return -1
	case len(a.pre) > len(b.pre):
		return 1
	}
	return 0
}

func semTerm(v *semVer, ok bool) string {
	if !ok {
		return "None"
	}
	var ids []string
	for _, p := range v.pre {
		if p.num != nil {
			ids = append(ids, "(EndBlockMods.PNum "+emit.Z(p.num)+")")
		} else {
			var bs []string
			for _, c := range []byte(p.alpha) {
				bs = append(bs, fmt.Sprint(c))
			}
			ids = append(ids, "(EndBlockMods.PAlpha "+emit.List(bs)+")")
		}
	}
	return fmt.Sprintf("(Some (EndBlockMods.Build_semver %s %s %s %s))", emit.Z(v.major), emit.Z(v.minor), emit.Z(v.patch), emit.List(ids))
}

var gateNums = []string{"0", "1", "2", "5", "6", "9", "10", "11", "19", "20", "99", "100", "101", "1000"}
var gatePre = []string{"", "", "", "", "-rc1", "-rc.1", "-rc.2", "-rc.10", "-alpha", "-alpha.1", "-beta", "-0", "-1", "-10", "-rc.1.x", "-x-y"}
var gateBuild = []string{"", "", "", "+wasm", "+build.7", "+20240101"}
var gateOdd = []string{"", "5.1.6", "v5", "v5.1", "vabc", "v5.1.6.1", "v05.1.6", "v5.1.6-", "v5.1.6-rc..1", "v5.1.6-01", "upgrade-to-v5", "v5.01.6"}

func gateCases(t *testing.T, run *emit.Run, n int, corpus [][2]string) {
	r := run.Rng
	gen := func(base []string) string {
		if r.Intn(12) == 0 {
			return gateOdd[r.Intn(len(gateOdd))]
		}
		M, m, p := base[0], base[1], base[2]
		if r.Intn(5) == 0 {
			m = gateNums[r.Intn(len(gateNums))]
		}
		if r.Intn(12) == 0 {
			M = gateNums[r.Intn(len(gateNums))]
		}
		if r.Intn(3) > 0 {
			p = gateNums[r.Intn(len(gateNums))]
		}
		return "v" + M + "." + m + "." + p + gatePre[r.Intn(len(gatePre))] + gateBuild[r.Intn(len(gateBuild))]
	}
	pairs := append([][2]string{}, corpus...)
	for i := 0; i < n; i++ {
		base := []string{gateNums[r.Intn(len(gateNums))], gateNums[r.Intn(len(gateNums))], gateNums[r.Intn(len(gateNums))]}
		gov := gen(base)
		if r.Intn(15) == 0 {
			gov = strings.TrimPrefix(gov, "v") // CheckChainVersion adds the prefix
		}
		for k := 0; k < 4; k++ {
			pairs = append(pairs, [2]string{gen(base), gov})
		}
	}
	var f *helper.Fixture
	curGov := "\x00"
	for _, pr := range pairs {
		app, gov := pr[0], pr[1]
		if gov != curGov {
			// a fresh chain on which governance completes the upgrade named gov ("" = none completed)
			f = helper.InitFixture(ginkgo.GinkgoT())
			curGov = gov
			if gov != "" {
				ctx := f.Ctx.WithHeaderInfo(header.Info{Height: 123}).WithBlockHeight(123)
				f.UpgradeKeeper.SetUpgradeHandler(gov, func(_ context.Context, _ upgradetypes.Plan, vm module.VersionMap) (module.VersionMap, error) { return vm, nil })
				if err := f.UpgradeKeeper.ApplyUpgrade(ctx, upgradetypes.Plan{Name: gov, Height: 123}); err != nil {
					t.Fatalf("ApplyUpgrade(%q): %v", gov, err)
				}
			}
		}
		k := f.PalomaKeeper
		k.AppVersion = app
		am := paloma.NewAppModule(f.Codec, k, nil, nil)
		ctx := f.Ctx.WithHeaderInfo(header.Info{Height: 124}).WithBlockHeight(124)
		out, what := guard(func() error { return am.BeginBlock(ctx) })
		replay := map[string]any{"kind": "version-gate", "binary": app, "completed_upgrade": gov}
		if out == 1 {
			run.Violate("C09:paloma-begin-error", fmt.Sprintf("x/paloma BeginBlock (binary %q, completed upgrade %q) returned an error: %s", app, gov, what), replay)
		}
		a, aok := parseSemver(app)
		govV := gov
		if gov != "" && !strings.HasPrefix(gov, "v") {
			govV = "v" + gov
		}
		g, gok := parseSemver(govV)
		req := "None"
		if gov != "" {
			req = "(Some " + semTerm(g, gok) + ")"
		}
		if gov != "" && aok && gok && a.major.Cmp(g.major) == 0 && a.minor.Cmp(g.minor) == 0 {
			older := cmpSemver(a, g) < 0
			if out == 2 && !older {
				run.Violate("C09:version-gate-stops-not-older", fmt.Sprintf("the version gate halted binary %s although the completed upgrade is %s (not older, same major.minor): %s", app, gov, what), replay)
			}
			if out == 0 && older {
				run.Violate("C09:version-gate-lets-older", fmt.Sprintf("the version gate let binary %s run although the completed upgrade is %s", app, gov), replay)
			}
			run.Count("version-gate", map[bool]string{true: "same-line-older", false: "same-line-not-older"}[older])
		} else {
			run.Count("version-gate", map[int]string{0: "other:open", 2: "other:stopped", 1: "other:error"}[out])
		}
		run.Case(fmt.Sprintf("C09.CGate %s %s %d", semTerm(a, aok), req, out), out == 2, nil)
	}
}

var gateCorpus = [][2]string{
	{"v5.1.10", "v5.1.6"}, {"v5.1.100", "v5.1.6"}, {"v5.1.6", "v5.1.6"}, {"v5.1.5", "v5.1.6"}, {"v5.1.10+wasm", "v5.1.6"}, {"v5.1.9", "v5.1.10"},
	{"v5.10.0", "v5.9.0"}, {"v5.9.3", "v5.10.0"}, {"v5.1.6-rc1", "v5.1.6"}, {"v5.1.6", "v5.1.6-rc1"}, {"v5.1.6-rc.10", "v5.1.6-rc.9"}, {"v5.1.6-rc.9", "v5.1.6-rc.10"},
	{"v5.1.6-2", "v5.1.6-10"}, {"v5.1.6-alpha", "v5.1.6-1"}, {"v10.0.0", "v9.9.9"}, {"v5.1.6", ""}, {"v5.1.7", "5.1.6"}, {"5.1.7", "v5.1.6"}, {"v5.1", "v5.1.0"},
	{"v5.1.20", "v5.1.100"}, {"v5.1.100", "v5.1.20"}, {"v5.1.6+a", "v5.1.6+b"},
}
