package c09

// C09, second round: the REAL skyway end-blocker (x/skyway.EndBlocker on keeper.SetupFiveValChain,
// two active chains) with hostile claims, against Sys/EndBlockMods.v.
//
// Every claim is voted by all five validators through the real msg server (ValidateBasic first, as
// baseapp does), then the real EndBlocker runs on the block context.  Claim classes:
//   applied   deposit of the registered token, positive amount (valid receiver, or an unparsable one:
//             the community pool gets it)
//   refused   deposit of an unregistered token; light-node sale from the wrong contract; sale of a
//             valid amount without a feegranter configured
//   panics    deposit with a negative amount (sdk.NewCoin); sale with a negative amount or one
//             >= 2^256/10^6 (amount.Mul(1_000_000) / sdk.NewCoin in CreateSaleLightNodeClientLicense —
//             the test environment builds the skyway keeper without a paloma keeper, the stub below
//             repeats the real function's first statement with the real SDK calls and then reports
//             the missing feegranter, which is what the real keeper does in this environment)
//
// Direct oracle:
//   C09:skyway-end-panic        a panic escaped skyway.EndBlocker
//   C09:skyway-cursor-back      a chain's last observed nonce moved backwards
//   C09:skyway-hostile-effect   the bridged supply changed by something else than the applied deposits
//   C09:skyway-stuck            an end-blocker run neither completed its last step nor moved a cursor

import (
	"context"
	"fmt"
	"math/big"
	"testing"
	"time"

	"cosmossdk.io/log"
	sdkmath "cosmossdk.io/math"
	sdk "github.com/cosmos/cosmos-sdk/types"
	"github.com/palomachain/paloma/v2/util/libcons"
	"github.com/palomachain/paloma/v2/verifharness/emit"
	evmtypes "github.com/palomachain/paloma/v2/x/evm/types"
	palomatypes "github.com/palomachain/paloma/v2/x/paloma/types"
	"github.com/palomachain/paloma/v2/x/skyway"
	skywaykeeper "github.com/palomachain/paloma/v2/x/skyway/keeper"
	skywaytypes "github.com/palomachain/paloma/v2/x/skyway/types"
	treasurytypes "github.com/palomachain/paloma/v2/x/treasury/types"
	valsettypes "github.com/palomachain/paloma/v2/x/valset/types"
)

var skyChains = []string{"test-chain", "test-chain-2"}
var skyTokens = []string{"0x0bc529c00C6401aEF6D220BE8C6Ea1667F6Ad93e", "0x1111111111111111111111111111111111111111"}
var skyDenoms = []string{"ugrain", "utokb"}
var skySale = []string{"0xAaAaAaAaAaAaAaAaAaAaAaAaAaAaAaAaAaAaAaAa", "0xBbBbBbBbBbBbBbBbBbBbBbBbBbBbBbBbBbBbBbBb"}

type licenceStub struct{}

func (licenceStub) CreateSaleLightNodeClientLicense(_ context.Context, _ string, amount sdkmath.Int) error {
	_ = sdk.NewCoin("ugrain", amount.Mul(sdkmath.NewInt(1_000_000))) // x/paloma/keeper/keeper.go, first statement
	return palomatypes.ErrNoFeegranter
}

type yhop struct {
	K     string `json:"k"` // claim endblock
	Chain int    `json:"chain,omitempty"`
	Class string `json:"class,omitempty"` // deposit deposit-pool deposit-unknown deposit-negative sale-ok sale-wrong sale-negative sale-huge
	Amt   string `json:"amt,omitempty"`
	H     int64  `json:"h,omitempty"`
}

type skyEnv struct {
	in     skywaykeeper.TestInput
	ctx    sdk.Context
	k      skywaykeeper.Keeper
	ms     skywaytypes.MsgServer
	cc     *libcons.ConsensusChecker
	nonce  []uint64
	supply []sdkmath.Int
}

func newSkyEnv(t *testing.T) *skyEnv {
	in, c := skywaykeeper.SetupFiveValChain(t)
	ctx := sdk.UnwrapSDKContext(c).WithLogger(log.NewNopLogger())
	must := func(err error) {
		if err != nil {
			t.Helper()
			t.Fatal(err)
		}
	}
	must(in.EvmKeeper.AddSupportForNewChain(ctx, skyChains[1], 2, 123, "0x1234", big.NewInt(55)))
	for i, addr := range skywaykeeper.ValAddrs {
		v, err := in.StakingKeeper.GetValidator(ctx, addr)
		must(err)
		pk, err := v.ConsPubKey()
		must(err)
		var infos []*valsettypes.ExternalChainInfo
		var fees []treasurytypes.RelayerFeeSetting_FeeSetting
		for _, ch := range skyChains {
			infos = append(infos, &valsettypes.ExternalChainInfo{ChainType: "evm", ChainReferenceID: ch, Address: skywaykeeper.EthAddrs[i].String(), Pubkey: pk.Bytes()})
			fees = append(fees, treasurytypes.RelayerFeeSetting_FeeSetting{Multiplicator: sdkmath.LegacyMustNewDecFromStr("1.10"), ChainReferenceId: ch})
		}
		must(in.ValsetKeeper.AddExternalChainInfo(ctx, addr, infos))
		must(in.TreasuryKeeper.SetRelayerFee(ctx, addr, &treasurytypes.RelayerFeeSetting{ValAddress: addr.String(), Fees: fees}))
	}
	ctx = ctx.WithBlockHeight(ctx.BlockHeight() + 1)
	_, err := in.ValsetKeeper.TriggerSnapshotBuild(ctx)
	must(err)
	in.MetrixKeeper.UpdateUptime(ctx)
	for i, ch := range skyChains {
		must(in.EvmKeeper.ActivateChainReferenceID(ctx, ch, &evmtypes.SmartContract{Id: 1}, fmt.Sprintf("0x%040d", i+1), []byte("compass-"+ch)))
	}
	k := in.SkywayKeeper
	gov := skywaykeeper.NewSkywayProposalHandler(k)
	must(gov(ctx, &skywaytypes.SetERC20ToDenomProposal{Title: "t", Description: "d", ChainReferenceId: skyChains[1], Erc20: skyTokens[1], Denom: skyDenoms[1]}))
	var sales []*skywaytypes.LightNodeSaleContract
	for ci, a := range skySale {
		sales = append(sales, &skywaytypes.LightNodeSaleContract{ChainReferenceId: skyChains[ci], ContractAddress: a})
	}
	must(k.SetAllLighNodeSaleContracts(ctx, sales))
	k.VerifC11SetPalomaKeeper(licenceStub{})
	active := k.EVMKeeper.GetActiveChainNames(ctx)
	if len(active) != 2 || active[0] != skyChains[0] || active[1] != skyChains[1] {
		t.Fatalf("active chains %v, expected %v", active, skyChains)
	}
	e := &skyEnv{in: in, ctx: ctx, k: k, ms: skywaykeeper.NewMsgServerImpl(k), cc: libcons.New(in.ValsetKeeper.GetCurrentSnapshot, in.Marshaler), nonce: []uint64{0, 0}}
	for _, d := range skyDenoms {
		e.supply = append(e.supply, in.BankKeeper.GetSupply(ctx, d).Amount)
	}
	return e
}

func deliverTx(root sdk.Context, f func(ctx sdk.Context) error) (err error) {
	cctx, write := root.CacheContext()
	defer func() {
		if r := recover(); r != nil {
			err = fmt.Errorf("panic: %v", r)
		}
	}()
	err = f(cctx)
	if err == nil {
		write()
	}
	return err
}

func (e *skyEnv) vote(ci int, class, amt string, nonce uint64) error {
	a, ok := sdkmath.NewIntFromString(amt)
	if !ok {
		return fmt.Errorf("bad amount %q", amt)
	}
	for v := range skywaykeeper.ValAddrs {
		o := skywaykeeper.AccAddrs[v].String()
		md := valsettypes.MsgMetadata{Creator: o, Signers: []string{o}}
		var err error
		switch class {
		case "deposit", "deposit-pool", "deposit-unknown", "deposit-negative":
			tok := skyTokens[ci]
			if class == "deposit-unknown" {
				tok = "0x3333333333333333333333333333333333333333"
			}
			rcv := sdk.AccAddress([]byte("c09-receiver-0000001")).String()
			if class == "deposit-pool" {
				rcv = "not-a-bech32-address"
			}
			m := &skywaytypes.MsgSendToPalomaClaim{EventNonce: nonce, EthBlockHeight: 1000 + nonce, TokenContract: tok, Amount: a,
				EthereumSender: "0x2222222222222222222222222222222222222222", PalomaReceiver: rcv, Orchestrator: o, ChainReferenceId: skyChains[ci],
				Metadata: md, SkywayNonce: nonce, CompassId: "compass-" + skyChains[ci]}
			if err = m.ValidateBasic(); err == nil {
				err = deliverTx(e.ctx, func(c sdk.Context) error { _, er := e.ms.SendToPalomaClaim(c, m); return er })
			}
		default:
			sc := skySale[ci]
			if class == "sale-wrong" {
				sc = "0xDDdDddDdDdddDDddDDddDDDDdDdDDdDDdDDDDDDd"
			}
			m := &skywaytypes.MsgLightNodeSaleClaim{EventNonce: nonce, EthBlockHeight: 1000 + nonce, Orchestrator: o, Metadata: md, ChainReferenceId: skyChains[ci],
				SkywayNonce: nonce, ClientAddress: sdk.AccAddress([]byte("c09-client-000000001")).String(), Amount: a, SmartContractAddress: sc, CompassId: "compass-" + skyChains[ci]}
			if err = m.ValidateBasic(); err == nil {
				err = deliverTx(e.ctx, func(c sdk.Context) error { _, er := e.ms.LightNodeSaleClaim(c, m); return er })
			}
		}
		if err != nil {
			return fmt.Errorf("validator %d: %w", v, err)
		}
	}
	return nil
}

func skyHistory(t *testing.T, run *emit.Run, ops []yhop) {
	e := newSkyEnv(t)
	var terms []string
	var done []yhop
	type accepted struct {
		applied bool
		amt     *big.Int
	}
	acc := [][]accepted{nil, nil} // per chain, index = nonce-1
	nontriv := false
	for _, h := range ops {
		replay := map[string]any{"kind": "skyway-history", "ops": append(append([]yhop{}, done...), h)}
		switch h.K {
		case "claim":
			n := e.nonce[h.Chain] + 1
			if err := e.vote(h.Chain, h.Class, h.Amt, n); err != nil {
				// a claim the msg server refuses never reaches the end-blocker
				run.Count("skyway-claim", "refused-at-submission:"+h.Class)
				done = append(done, h)
				continue
			}
			e.nonce[h.Chain] = n
			amt, _ := new(big.Int).SetString(h.Amt, 10)
			cl := "CRefused"
			switch h.Class {
			case "deposit", "deposit-pool":
				cl = "(CApplied " + emit.Z(amt) + ")"
			case "deposit-negative", "sale-negative", "sale-huge":
				cl = "CPanics"
			}
			acc[h.Chain] = append(acc[h.Chain], accepted{h.Class == "deposit" || h.Class == "deposit-pool", amt})
			run.Count("skyway-claim", h.Class)
			terms = append(terms, fmt.Sprintf("C09.YClaim %d %d %s", h.Chain, n, cl))
		case "endblock":
			ctx := e.ctx.WithBlockHeight(h.H).WithBlockTime(time.Unix(1700000000+h.H*2, 0))
			var before []uint64
			for _, ch := range skyChains {
				c, err := e.k.GetLastObservedSkywayNonce(ctx, ch)
				if err != nil {
					t.Fatal(err)
				}
				before = append(before, c)
			}
			out, what := guard(func() error { skyway.EndBlocker(ctx, e.k, e.cc); return nil })
			if out != 0 {
				run.Violate("C09:skyway-end-panic:"+normalize(what), fmt.Sprintf("skyway.EndBlocker at height %d: %s", h.H, what), replay)
			}
			var curs []string
			moved, drained := false, true
			want := new(big.Int)
			for i, ch := range skyChains {
				c, err := e.k.GetLastObservedSkywayNonce(ctx, ch)
				if err != nil {
					t.Fatal(err)
				}
				if c < before[i] {
					run.Violate("C09:skyway-cursor-back", fmt.Sprintf("chain %s: last observed nonce went from %d to %d", ch, before[i], c), replay)
				}
				if c > before[i] {
					moved = true
					nontriv = true
				}
				if c != e.nonce[i] {
					drained = false
				}
				for n := uint64(1); n <= c && int(n) <= len(acc[i]); n++ {
					if acc[i][n-1].applied {
						want.Add(want, acc[i][n-1].amt)
					}
				}
				curs = append(curs, emit.ZU(c))
			}
			if !moved && !drained {
				run.Violate("C09:skyway-stuck", fmt.Sprintf("skyway.EndBlocker at height %d neither drained the fully voted claims nor moved a cursor (cursors %v)", h.H, curs), replay)
			}
			// bridged supply: only applied deposits may change it
			effects := new(big.Int)
			for i, d := range skyDenoms {
				now := e.in.BankKeeper.GetSupply(ctx, d).Amount
				effects.Add(effects, now.Sub(e.supply[i]).BigInt())
			}
			if effects.Cmp(want) != 0 {
				run.Violate("C09:skyway-hostile-effect", fmt.Sprintf("bridged supply changed by %s, the applied deposits below the cursors sum to %s", effects, want), replay)
			}
			terms = append(terms, fmt.Sprintf("C09.YEndBlock %d %s %s", out, emit.List(curs), emit.Z(effects)))
			run.Count("skyway-endblock", map[bool]string{true: "cursor-moved", false: "idle"}[moved])
		}
		done = append(done, h)
	}
	run.Case(fmt.Sprintf("C09.CSkyway %d %s", len(skyChains), emit.List(terms)), nontriv, map[string]any{"kind": "skyway-history", "ops": done})
}

func genSkyHistory(run *emit.Run) []yhop {
	r := run.Rng
	classes := []string{"deposit", "deposit", "deposit-pool", "deposit-unknown", "deposit-negative", "sale-ok", "sale-wrong", "sale-negative", "sale-huge"}
	var ops []yhop
	h := int64(20)
	n := 4 + r.Intn(9)
	for i := 0; i < n; i++ {
		if r.Intn(4) == 0 {
			h += int64(1 + r.Intn(30))
			if r.Intn(3) == 0 {
				h = (h/50 + 1) * 50
			}
			ops = append(ops, yhop{K: "endblock", H: h})
			continue
		}
		c := classes[r.Intn(len(classes))]
		amt := fmt.Sprint(1 + r.Intn(1000000))
		switch c {
		case "deposit-negative", "sale-negative":
			amt = "-" + amt
			if r.Intn(3) == 0 {
				amt = "-1"
			}
		case "sale-huge":
			// 2^256/10^6 rounded up .. 2^256-1: amount.Mul(1_000_000) leaves the 256-bit range
			x := new(big.Int).Lsh(big.NewInt(1), 256)
			x.Div(x, big.NewInt(1000000)).Add(x, big.NewInt(int64(1+r.Intn(1000))))
			amt = x.String()
		}
		ops = append(ops, yhop{K: "claim", Chain: r.Intn(2), Class: c, Amt: amt})
	}
	for k := 0; k < 3; k++ {
		h += int64(1 + r.Intn(5))
		ops = append(ops, yhop{K: "endblock", H: h})
	}
	return ops
}
