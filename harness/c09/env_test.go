package c09

// Fixture for C09: the integration fixture of /repo (tests/integration/helper.InitFixture) — real
// treasury, consensus (fee provider = the real treasury keeper), evm, valset, metrix, paloma,
// scheduler, staking keepers on one multistore — plus the real AppModules built over those
// keepers, so that BeginBlock / EndBlock are the functions the application calls.

import (
	"fmt"
	"math/big"
	"time"

	"cosmossdk.io/core/header"
	sdkmath "cosmossdk.io/math"
	sdk "github.com/cosmos/cosmos-sdk/types"
	stakingtypes "github.com/cosmos/cosmos-sdk/x/staking/types"
	"github.com/onsi/ginkgo/v2"
	"github.com/palomachain/paloma/v2/tests/integration/helper"
	"github.com/palomachain/paloma/v2/testutil"
	utilkeeper "github.com/palomachain/paloma/v2/util/keeper"
	"github.com/palomachain/paloma/v2/x/consensus"
	consensuskeeper "github.com/palomachain/paloma/v2/x/consensus/keeper"
	consensustypes "github.com/palomachain/paloma/v2/x/consensus/types"
	"github.com/palomachain/paloma/v2/x/evm"
	evmtypes "github.com/palomachain/paloma/v2/x/evm/types"
	"github.com/palomachain/paloma/v2/x/metrix"
	"github.com/palomachain/paloma/v2/x/paloma"
	treasurykeeper "github.com/palomachain/paloma/v2/x/treasury/keeper"
	treasurytypes "github.com/palomachain/paloma/v2/x/treasury/types"
	"github.com/palomachain/paloma/v2/x/valset"
	valsettypes "github.com/palomachain/paloma/v2/x/valset/types"
)

const feeMgr = "0xb794f5ea0ba39494ce839613fffba74279579268"

var chains = []string{"eth-main", "bnb-main"}

type env struct {
	f         *helper.Fixture
	ctx       sdk.Context
	height    int64
	vals      []sdk.ValAddress
	powers    []int64
	tre       treasurytypes.MsgServer
	cons      consensustypes.MsgServer
	consMod   consensus.AppModule
	evmMod    evm.AppModule
	valsetMod valset.AppModule
	palomaMod paloma.AppModule
	metrixMod metrix.AppModule
	infos     [][]*valsettypes.ExternalChainInfo // per validator: what it registered (second round: re-registered with / without the MEV trait)
}

func (e *env) at(h int64) sdk.Context {
	return e.ctx.WithHeaderInfo(header.Info{Height: h, Time: time.Unix(1700000000+h*2, 0)}).
		WithBlockHeight(h).WithBlockTime(time.Unix(1700000000+h*2, 0))
}

func newEnv(t ginkgo.FullGinkgoTInterface, powers []int64) (*env, error) {
	f := helper.InitFixture(t)
	e := &env{f: f, height: 5, powers: powers}
	e.ctx = f.Ctx
	ctx := e.at(5)
	for i, c := range chains {
		if err := f.EvmKeeper.AddSupportForNewChain(ctx, c, uint64(i+1), 123, "0x1234", big.NewInt(55)); err != nil {
			return nil, err
		}
		if err := f.EvmKeeper.SetFeeManagerAddress(ctx, c, feeMgr); err != nil {
			return nil, err
		}
		if err := f.EvmKeeper.ActivateChainReferenceID(ctx, c, &evmtypes.SmartContract{Id: 123}, "addr", []byte("abc")); err != nil {
			return nil, err
		}
	}
	n := len(powers)
	vs := testutil.GenValidators(n, n)
	for i := range vs {
		vs[i].Tokens = sdk.TokensFromConsensusPower(powers[i], sdk.DefaultPowerReduction)
		vs[i].DelegatorShares = sdkmath.LegacyNewDecFromInt(vs[i].Tokens)
		vs[i].Status = stakingtypes.Bonded
		if err := f.StakingKeeper.SetValidator(ctx, vs[i]); err != nil {
			return nil, err
		}
	}
	for _, v := range vs {
		consAddr, err := v.GetConsAddr()
		if err != nil {
			return nil, err
		}
		pk, err := v.ConsPubKey()
		if err != nil {
			return nil, err
		}
		op, err := utilkeeper.ValAddressFromBech32(f.EvmKeeper.AddressCodec, v.GetOperator())
		if err != nil {
			return nil, err
		}
		e.vals = append(e.vals, op)
		s, err := f.EvmKeeper.AddressCodec.BytesToString(consAddr)
		if err != nil {
			return nil, err
		}
		var infos []*valsettypes.ExternalChainInfo
		for k, c := range chains {
			infos = append(infos, &valsettypes.ExternalChainInfo{ChainType: "evm", ChainReferenceID: c,
				Address: fmt.Sprintf("%s-%d", s, k), Pubkey: append(pk.Bytes(), byte(k))})
		}
		if err := f.ValsetKeeper.AddExternalChainInfo(ctx, op, infos); err != nil {
			return nil, err
		}
		e.infos = append(e.infos, infos)
	}
	e.tre = treasurykeeper.NewMsgServerImpl(f.TreasuryKeeper)
	e.cons = consensuskeeper.NewMsgServerImpl(f.ConsensusKeeper)
	e.consMod = consensus.NewAppModule(f.Codec, f.ConsensusKeeper, nil, nil)
	e.evmMod = evm.NewAppModule(f.Codec, f.EvmKeeper, nil, nil)
	e.valsetMod = valset.NewAppModule(f.Codec, f.ValsetKeeper, nil, nil)
	e.palomaMod = paloma.NewAppModule(f.Codec, f.PalomaKeeper, nil, nil)
	e.metrixMod = metrix.NewAppModule(f.Codec, f.MetrixKeeper)
	return e, nil
}

func (e *env) buildSnapshot() error {
	ctx := e.at(e.height)
	if _, err := e.f.ValsetKeeper.TriggerSnapshotBuild(ctx); err != nil {
		return err
	}
	e.f.MetrixKeeper.UpdateUptime(ctx)
	return nil
}
