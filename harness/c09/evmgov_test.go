package c09

// C09, round 4: the evm and consensus end-blockers on a governance-configured state, for real.
//
// Through the real evm governance handler: a compass contract, a supported chain that is NOT yet
// active (the evm end-blocker tries to deploy compass to it every block: deploySmartContractToChain,
// the one place with a recover of its own) and an ACTIVE chain; validators with accounts / fees on
// both, snapshot; a RelayWeightsProposal per chain with weights from a pool (sane, extreme but well
// formed — 10^77 —, negative, unparsable, empty); the fee manager; then the real evm EndBlock at
// several heights, and on the active chain a logic call whose relay fails (unanimous error proof):
// the consensus EndBlock retries it, which ranks the validators with the stored weights.
//
// Oracle: C09:evm-end-panic / -error, C09:consensus-end-panic / -error (as everywhere),
//         C09:unusable-relay-weights-stored  the handler accepted weights that are not decimals in [0, 10^6]

import (
	"context"
	"fmt"
	"math/big"
	"os"
	"testing"

	sdkmath "cosmossdk.io/math"
	codectypes "github.com/cosmos/cosmos-sdk/codec/types"
	"github.com/onsi/ginkgo/v2"
	"github.com/palomachain/paloma/v2/tests/integration/helper"
	"github.com/palomachain/paloma/v2/testutil"
	utilkeeper "github.com/palomachain/paloma/v2/util/keeper"
	"github.com/palomachain/paloma/v2/verifharness/emit"
	"github.com/palomachain/paloma/v2/x/consensus"
	consensustypes "github.com/palomachain/paloma/v2/x/consensus/types"
	"github.com/palomachain/paloma/v2/x/evm"
	evmtypes "github.com/palomachain/paloma/v2/x/evm/types"
	treasurytypes "github.com/palomachain/paloma/v2/x/treasury/types"
	valsettypes "github.com/palomachain/paloma/v2/x/valset/types"

	sdk "github.com/cosmos/cosmos-sdk/types"
)

const hugeWeight = "100000000000000000000000000000000000000000000000000000000000000000000000000000" // 10^77

var weightPool = []string{"1.0", "0.5", "0.12", "0", "1.0", hugeWeight, hugeWeight, "-1", "abc", "", "1000000", "1000001", "0.000000000000000001"}

func weightUsable(w string) bool {
	d, err := sdkmath.LegacyNewDecFromStr(w)
	return err == nil && !d.IsNegative() && !d.GT(sdkmath.LegacyNewDec(1000000))
}

type govHist struct {
	Weights [2][5]string `json:"weights"` // [inactive chain, active chain][fee uptime successRate executionTime featureSet]
	NVals   int          `json:"nvals"`
	MEV     bool         `json:"mev"`
}

func evmGovHistory(t *testing.T, run *emit.Run, h govHist) {
	replay := map[string]any{"kind": "evm-gov-history", "history": h}
	f := helper.InitFixture(ginkgo.GinkgoT())
	ctx := f.Ctx.WithBlockHeight(50)
	gov := evm.NewReferenceChainReferenceIDProposalHandler(f.EvmKeeper)
	evmMod := evm.NewAppModule(f.Codec, f.EvmKeeper, nil, nil)
	consMod := consensus.NewAppModule(f.Codec, f.ConsensusKeeper, nil, nil)
	repo := os.Getenv("VERIF_REPO")
	if repo == "" {
		repo = "/repo"
	}
	abiJSON, err := os.ReadFile(repo + "/x/evm/keeper/testdata/sample-abi.json")
	if err != nil {
		t.Fatal(err)
	}
	must := func(err error) {
		if err != nil {
			t.Helper()
			t.Fatal(err)
		}
	}
	must(gov(ctx, &evmtypes.DeployNewSmartContractProposal{Title: "compass", Description: "compass", AbiJSON: string(abiJSON), BytecodeHex: "0x608001"}))
	names := []string{"new-chain", "old-chain"}
	for i, n := range names {
		must(gov(ctx, &evmtypes.AddChainProposal{Title: "c", Description: "c", ChainReferenceID: n, ChainID: uint64(i + 1), BlockHeight: 123, BlockHashAtHeight: "0x1234", MinOnChainBalance: "55"}))
	}
	vals := testutil.GenValidators(h.NVals, h.NVals*1000)
	var ops []sdk.ValAddress
	for i, val := range vals {
		must(f.StakingKeeper.SetValidator(ctx, val))
		must(f.StakingKeeper.SetValidatorByConsAddr(ctx, val))
		opBz, err := utilkeeper.ValAddressFromBech32(f.ValsetKeeper.AddressCodec, val.GetOperator())
		must(err)
		op := sdk.ValAddress(opBz)
		ops = append(ops, op)
		var infos []*valsettypes.ExternalChainInfo
		var fees []treasurytypes.RelayerFeeSetting_FeeSetting
		for k, n := range names {
			var traits []string
			if i == 0 && h.MEV {
				traits = []string{valsettypes.PIGEON_TRAIT_MEV}
			}
			infos = append(infos, &valsettypes.ExternalChainInfo{ChainType: "evm", ChainReferenceID: n, Address: fmt.Sprintf("0x%039d%d", i+1, k), Pubkey: []byte(fmt.Sprintf("pk-%d-%d", i, k)), Traits: traits})
			fee := "1.1"
			if i == 0 {
				fee = "0.9"
			}
			fees = append(fees, treasurytypes.RelayerFeeSetting_FeeSetting{Multiplicator: sdkmath.LegacyMustNewDecFromStr(fee), ChainReferenceId: n})
		}
		must(f.ValsetKeeper.AddExternalChainInfo(ctx, op, infos))
		must(f.TreasuryKeeper.SetRelayerFee(ctx, op, &treasurytypes.RelayerFeeSetting{ValAddress: op.String(), Fees: fees}))
	}
	must(f.EvmKeeper.ActivateChainReferenceID(ctx, names[1], &evmtypes.SmartContract{Id: 1}, "0x0000000000000000000000000000000000000abc", []byte("compass-old")))
	must(f.TreasuryKeeper.SetCommunityFundFee(ctx, "0.01"))
	must(f.TreasuryKeeper.SetSecurityFee(ctx, "0.01"))
	_, err = f.ValsetKeeper.TriggerSnapshotBuild(ctx)
	must(err)
	f.MetrixKeeper.UpdateUptime(ctx)

	// a logic call on the active chain, queued while the default weights are in force
	var slcID uint64
	out, what := guard(func() error {
		var err error
		slcID, err = f.EvmKeeper.AddSmartContractExecutionToConsensus(ctx, names[1], "", &evmtypes.SubmitLogicCall{
			Payload: []byte{1, 2, 3, 4}, HexContractAddress: "0x51eca2efb15afacc612278c71f5edb35986f172f", Abi: []byte("[]"), Deadline: 1337,
			SenderAddress: []byte("abcdefghijabcdefghij"), ContractAddress: []byte("abcdefghijabcdefghij"),
		})
		return err
	})
	if out == 2 {
		run.Violate("C09:put-panic", "AddSmartContractExecutionToConsensus panicked: "+what, replay)
	}
	queued := out == 0

	// governance: relay weights for both chains, fee manager
	hostileActive := false
	for ci, n := range names {
		w := h.Weights[ci]
		out, what := guard(func() error {
			return gov(ctx, &evmtypes.RelayWeightsProposal{Title: "w", Description: "w", ChainReferenceID: n,
				Fee: w[0], Uptime: w[1], SuccessRate: w[2], ExecutionTime: w[3], FeatureSet: w[4]})
		})
		usable := true
		for _, x := range w {
			usable = usable && weightUsable(x)
		}
		if out == 2 {
			run.Violate("C09:relay-weights-handler-panic", "RelayWeightsProposal handler panicked: "+what, replay)
		}
		if out == 0 && !usable && ci == 1 {
			hostileActive = true
		}
		if out == 0 && !usable {
			run.Violate("C09:unusable-relay-weights-stored", fmt.Sprintf("the governance handler stored relay weights %v for %s", w, n), replay)
		}
		run.Count("relay-weights", map[bool]string{true: "usable", false: "hostile"}[usable]+map[int]string{0: ":accepted", 1: ":refused", 2: ":panic"}[out])
		// State stored by code older than the validation (hook present once it is merged): only on the chain
		// that is not yet active, where deploySmartContractToChain's own recover must contain the ranking panic.
		// (On an active chain such a stored state still halts the consensus end-blocker: design/C09.md, what remains.)
		if out == 1 && ci == 0 {
			if hk, ok := any(f.EvmKeeper).(interface {
				VerifC09StoreRelayWeights(context.Context, string, *evmtypes.RelayWeights) error
			}); ok {
				must(hk.VerifC09StoreRelayWeights(ctx, n, &evmtypes.RelayWeights{Fee: w[0], Uptime: w[1], SuccessRate: w[2], ExecutionTime: w[3], FeatureSet: w[4]}))
				run.Count("relay-weights", "hostile:stored-as-older-code-did")
			}
		}
	}
	must(gov(ctx, &evmtypes.SetFeeManagerAddressProposal{Title: "f", Summary: "f", ChainReferenceID: names[0], FeeManagerAddress: feeMgr}))
	must(gov(ctx, &evmtypes.SetFeeManagerAddressProposal{Title: "f", Summary: "f", ChainReferenceID: names[1], FeeManagerAddress: feeMgr}))

	var outs []string
	block := func(name string, hgt int64, fn func(sdk.Context) error) {
		c := ctx.WithBlockHeight(hgt)
		out, what := guard(func() error { return fn(c) })
		outs = append(outs, fmt.Sprint(out))
		run.Count("gov-state-"+name, map[int]string{0: "completed", 1: "error", 2: "panic"}[out])
		if out != 0 {
			kind := map[int]string{1: "error", 2: "panic"}[out]
			run.Violate("C09:"+name+"-"+kind+":"+normalize(what), fmt.Sprintf("x/%s at height %d (governance-configured state): %s: %s", name, hgt, kind, what), replay)
		}
	}
	for _, hgt := range []int64{51, 52, 300} {
		block("evm-end", hgt, func(c sdk.Context) error { return evmMod.EndBlock(c) })
	}
	if queued {
		// the relay failed; everybody attests the same error: the end-blocker retries the call
		q := consensustypes.Queue(evmtypes.ConsensusTurnstoneMessage, "evm", names[1])
		pr, _ := codectypes.NewAnyWithValue(&evmtypes.SmartContractExecutionErrorProof{ErrorMessage: "execution reverted"})
		for _, op := range ops {
			_ = f.ConsensusKeeper.AddMessageEvidence(ctx, op, &consensustypes.MsgAddEvidence{Proof: pr, MessageID: slcID, QueueTypeName: q})
		}
		block("consensus-end", 53, func(c sdk.Context) error { return consMod.EndBlock(c) })
		block("evm-end", 54, func(c sdk.Context) error { return evmMod.EndBlock(c) })
		block("consensus-end", 55, func(c sdk.Context) error { return consMod.EndBlock(c) })
	}
	run.Case("C09.CGovBlocks "+emit.Bool(hostileActive)+" "+emit.List(outs), true, replay)
}

func genGovHist(run *emit.Run) govHist {
	r := run.Rng
	h := govHist{NVals: 2 + r.Intn(4), MEV: r.Intn(2) == 0}
	for ci := 0; ci < 2; ci++ {
		hostile := r.Intn(2) == 0
		for k := 0; k < 5; k++ {
			h.Weights[ci][k] = weightPool[r.Intn(5)]
			if hostile && r.Intn(2) == 0 {
				h.Weights[ci][k] = weightPool[r.Intn(len(weightPool))]
			}
		}
	}
	return h
}

var _ = big.NewInt
