package c09

// C09, round 7: valset's EndBlock is the only Paloma end-blocker that returns a callee's error
// (UpdateGracePeriod's) to the SDK — an error there halts the chain as surely as a panic.  Scenario:
// the unjailed-validators snapshot of the PREVIOUS release (raw operator addresses joined by ",",
// written through the store as that release did) is in the store, the unjailed validators have
// operator addresses with the separator byte 0x2c at the start / at the end / in the middle /
// doubled / as every byte, and the real valset AppModule.EndBlock runs for several blocks.
// Oracle C09:valset-end-error / C09:valset-end-panic: EndBlock returns nil; and the legacy key is
// gone after the first block (C09:legacy-snapshot-kept).

import (
	"bytes"
	"fmt"
	"testing"

	codectypes "github.com/cosmos/cosmos-sdk/codec/types"
	cryptocodec "github.com/cosmos/cosmos-sdk/crypto/codec"
	sdk "github.com/cosmos/cosmos-sdk/types"
	stakingtypes "github.com/cosmos/cosmos-sdk/x/staking/types"
	"github.com/cometbft/cometbft/crypto/ed25519"
	"github.com/onsi/ginkgo/v2"
	"github.com/palomachain/paloma/v2/tests/integration/helper"
	"github.com/palomachain/paloma/v2/verifharness/emit"
	"github.com/palomachain/paloma/v2/x/valset"
)

var graceShapes = []string{"plain", "comma-first", "comma-last", "comma-middle", "comma-doubled", "all-commas", "comma-first-and-last"}

func graceAddr(shape string, i int) sdk.ValAddress {
	a := bytes.Repeat([]byte{byte(0x41 + i)}, 20)
	switch shape {
	case "comma-first":
		a[0] = 0x2c
	case "comma-last":
		a[19] = 0x2c
	case "comma-middle":
		a[9] = 0x2c
	case "comma-doubled":
		a[9], a[10] = 0x2c, 0x2c
	case "all-commas":
		a = bytes.Repeat([]byte{0x2c}, 20)
		a[19] = byte(i) // distinct
	case "comma-first-and-last":
		a[0], a[19] = 0x2c, 0x2c
	}
	return a
}

func graceScenario(t *testing.T, run *emit.Run, shapes []string, legacyIncludes int) {
	replay := map[string]any{"kind": "grace-legacy", "shapes": shapes, "legacy_includes": legacyIncludes}
	f := helper.InitFixture(ginkgo.GinkgoT())
	ctx := f.Ctx.WithBlockHeight(7)
	var addrs [][]byte
	for i, sh := range shapes {
		protoPK, err := cryptocodec.FromCmtPubKeyInterface(ed25519.GenPrivKey().PubKey())
		if err != nil {
			t.Fatal(err)
		}
		pk, err := codectypes.NewAnyWithValue(protoPK)
		if err != nil {
			t.Fatal(err)
		}
		a := graceAddr(sh, i)
		v := stakingtypes.Validator{OperatorAddress: a.String(), Tokens: sdk.TokensFromConsensusPower(10, sdk.DefaultPowerReduction), Status: stakingtypes.Bonded, ConsensusPubkey: pk}
		if err := f.StakingKeeper.SetValidator(ctx, v); err != nil {
			t.Fatal(err)
		}
		if err := f.StakingKeeper.SetValidatorByConsAddr(ctx, v); err != nil {
			t.Fatal(err)
		}
		addrs = append(addrs, a)
	}
	// what the previous release left behind: the first legacyIncludes unjailed validators, joined by ","
	if legacyIncludes > len(addrs) {
		legacyIncludes = len(addrs)
	}
	f.ValsetKeeper.VerifC12SnapshotSet(ctx, "unjailed-validators-snapshot", bytes.Join(addrs[:legacyIncludes], []byte(",")))
	am := valset.NewAppModule(f.Codec, f.ValsetKeeper, nil, nil)
	var outs []string
	for _, h := range []int64{7, 8, 9, 10, 50} {
		c := f.Ctx.WithBlockHeight(h)
		out, what := guard(func() error { return am.EndBlock(c) })
		outs = append(outs, fmt.Sprint(out))
		run.Count("grace-legacy-endblock", map[int]string{0: "completed", 1: "error", 2: "panic"}[out])
		if out != 0 {
			kind := map[int]string{1: "error", 2: "panic"}[out]
			run.Violate("C09:valset-end-"+kind+":"+normalize(what), fmt.Sprintf("x/valset EndBlock at height %d with the previous release's unjailed snapshot in the store (operator addresses %v): %s: %s", h, shapes, kind, what), replay)
		}
		if _, still := f.ValsetKeeper.VerifC12SnapshotGet(c, "unjailed-validators-snapshot"); still && out == 0 {
			run.Violate("C09:legacy-snapshot-kept", fmt.Sprintf("the legacy unjailed snapshot is still in the store after the block at height %d", h), replay)
		}
	}
	run.Case("C09.CBlocks "+emit.List(outs), true, replay)
}
