package c09

// C09, second round: the attestation and pruning steps of the consensus end-blocker on the REAL
// keepers (integration fixture), step by step against Sys/EndBlockAttest.v.
//
// One history: snapshot (3..5 validators, random powers), compass contract, sane relayer fees; then
// puts on every kind of queue (SubmitLogicCall through the real ranking, validator-balance requests
// through CheckExternalBalancesForChain, reference-block requests), gas estimates (so that some
// logic calls get their fees and some never do), evidence through the real MsgAddEvidence handler
// from a hostile pool (absent proof, empty type URL, unregistered type, garbage transaction bytes,
// transaction proofs with a successful / failed / missing receipt, error proofs, balance lists of
// the right and the wrong length, proofs of the wrong kind for the queue), evidence written through
// the queue object (what code before the submission check could store), public access / error data
// by any validator, real consensus EndBlock under recover at growing heights, and a final jump past
// the pruning age to a multiple of 50.
//
// Direct oracle (independent of the model):
//   C09:consensus-end-panic:<text>       the real EndBlock panicked
//   C09:consensus-end-error:<text>       ... or returned an error
//   C09:attest-starved                   a message with unanimous, acceptable evidence of its own was
//                                        still queued after the block (something else in the queue starved it)
//   C09:unusable-evidence-stored         the msg server accepted evidence the end-blocker cannot process
//   C09:prune-left-old-message           a message older than 300 blocks survived a block at a multiple of 50

import (
	"fmt"
	"math/big"
	"os"
	"sort"
	"strings"
	"testing"

	codectypes "github.com/cosmos/cosmos-sdk/codec/types"
	sdk "github.com/cosmos/cosmos-sdk/types"
	ethtypes "github.com/ethereum/go-ethereum/core/types"
	"github.com/palomachain/paloma/v2/util/libmsg"
	"github.com/palomachain/paloma/v2/verifharness/emit"
	consensustypes "github.com/palomachain/paloma/v2/x/consensus/types"
	evmkeeper "github.com/palomachain/paloma/v2/x/evm/keeper"
	evmtypes "github.com/palomachain/paloma/v2/x/evm/types"
	treasurytypes "github.com/palomachain/paloma/v2/x/treasury/types"
	valsettypes "github.com/palomachain/paloma/v2/x/valset/types"
)

type xhop struct {
	K      string `json:"k"` // put-slc put-mev put-usc put-bal put-ref trait snapshot estimates evidence stored pad err endblock
	Chain  int    `json:"chain,omitempty"`
	ID     uint64 `json:"id,omitempty"`
	V      int    `json:"v,omitempty"`
	P      string `json:"p,omitempty"`
	Height int64  `json:"h,omitempty"`
	Last   bool   `json:"last,omitempty"` // the message put last (instead of ID)
	On     bool   `json:"on,omitempty"`   // trait: advertise the MEV trait
}

type amirror struct {
	id     uint64
	rank   int
	kind   string // slc bal ref
	n      int
	queue  string
	chain  int
	ev     map[int]string
	gone   bool
	fees   bool
	added  int64
}

type arunner struct {
	t     *testing.T
	run   *emit.Run
	e     *env
	ops   []xhop
	terms []string
	msgs  map[uint64]*amirror
	order []uint64
	nontr bool
	refAt map[int]int // per chain: the largest reference height index a removed request may have installed
}

// chains sorted as the evm keeper's chain-info store iterates them
func chainRank(ci int) int {
	names := append([]string{}, chains...)
	sort.Strings(names)
	for i, n := range names {
		if n == chains[ci] {
			return i
		}
	}
	return 0
}

func queueOf(kind string, ci int) (string, int) {
	switch kind {
	case "slc":
		return consensustypes.Queue(evmtypes.ConsensusTurnstoneMessage, "evm", chains[ci]), chainRank(ci)*4 + 0
	case "bal":
		return consensustypes.Queue(evmkeeper.ConsensusGetValidatorBalances, "evm", chains[ci]), chainRank(ci)*4 + 1
	default:
		return consensustypes.Queue(evmkeeper.ConsensusGetReferenceBlock, "evm", chains[ci]), chainRank(ci)*4 + 3
	}
}

func txBytes(k int) []byte {
	tx := ethtypes.NewTx(&ethtypes.LegacyTx{Nonce: uint64(k), Gas: 21000, GasPrice: big.NewInt(1), Data: []byte{9, byte(k)}})
	b, _ := tx.MarshalBinary()
	return b
}

func receiptBytes(status uint64) []byte {
	rc := &ethtypes.Receipt{Status: status, CumulativeGasUsed: 1, Logs: []*ethtypes.Log{}}
	b, _ := rc.MarshalBinary()
	return b
}

// proofOf: the Any the validator submits and the model's view of it
func proofOf(p string) (*codectypes.Any, string, bool) {
	var a, b, c int
	mk := func(m interface {
		Reset()
		String() string
		ProtoMessage()
	}) *codectypes.Any {
		x, err := codectypes.NewAnyWithValue(m)
		if err != nil {
			panic(err)
		}
		return x
	}
	switch {
	case p == "absent":
		return nil, "PAbsent", false
	case p == "empty-url":
		return &codectypes.Any{}, "PAbsent", false
	case p == "unknown":
		return &codectypes.Any{TypeUrl: "/palomachain.paloma.evm.NoSuchProof", Value: []byte{1, 2}}, "PUndecodable", false
	case p == "garbage-tx":
		return mk(&evmtypes.TxExecutedProof{SerializedTX: []byte{1, 2, 3}}), "PUndecodable", false
	case strings.HasPrefix(p, "err:"):
		fmt.Sscanf(p, "err:%d", &a)
		return mk(&evmtypes.SmartContractExecutionErrorProof{ErrorMessage: fmt.Sprintf("boom-%d", a)}), fmt.Sprintf("(PGood 1 %d 0)", a), true
	case strings.HasPrefix(p, "bal:"):
		fmt.Sscanf(p, "bal:%d:%d", &a, &b)
		var bs []string
		for i := 0; i < b; i++ {
			bs = append(bs, "900000000000000000000")
		}
		return mk(&evmtypes.ValidatorBalancesAttestationRes{BlockHeight: uint64(1000 + a), Balances: bs}), fmt.Sprintf("(PGood 2 %d %d)", a*100+b, b), true
	case strings.HasPrefix(p, "ref:"):
		fmt.Sscanf(p, "ref:%d", &a)
		return mk(&evmtypes.ReferenceBlockAttestationRes{BlockHeight: uint64(5000 + a), BlockHash: fmt.Sprintf("0x%064x", a+1)}), fmt.Sprintf("(PGood 3 %d 0)", 5000+a), true
	case strings.HasPrefix(p, "txnr:"):
		fmt.Sscanf(p, "txnr:%d", &a)
		return mk(&evmtypes.TxExecutedProof{SerializedTX: txBytes(a)}), fmt.Sprintf("(PGood 0 %d 2)", 2*(1000+a)), true
	case strings.HasPrefix(p, "tx:"):
		fmt.Sscanf(p, "tx:%d:%d", &a, &c)
		return mk(&evmtypes.TxExecutedProof{SerializedTX: txBytes(a), SerializedReceipt: receiptBytes(uint64(c))}), fmt.Sprintf("(PGood 0 %d 0)", 2*a+c), true
	}
	panic("unknown proof " + p)
}

func (r *arunner) replay(h xhop) any {
	return map[string]any{"kind": "attest-history", "powers": r.e.powers, "ops": append(append([]xhop{}, r.ops...), h)}
}

func (r *arunner) queued() map[uint64]consensustypes.QueuedSignedMessageI {
	out := map[uint64]consensustypes.QueuedSignedMessageI{}
	ctx := r.e.at(r.e.height)
	for ci := range chains {
		for _, kind := range []string{"slc", "bal", "ref"} {
			q, _ := queueOf(kind, ci)
			ms, err := r.e.f.ConsensusKeeper.GetMessagesFromQueue(ctx, q, 0)
			if err != nil {
				r.t.Fatalf("GetMessagesFromQueue %s: %v", q, err)
			}
			for _, m := range ms {
				out[m.GetId()] = m
			}
		}
	}
	return out
}

func (r *arunner) register(before map[uint64]consensustypes.QueuedSignedMessageI, kind string, ci int, pad bool) {
	after := r.queued()
	for id := range after {
		if _, ok := before[id]; ok {
			continue
		}
		q, rank := queueOf(kind, ci)
		n := 0
		if kind == "bal" {
			n = len(r.e.vals)
		}
		r.msgs[id] = &amirror{id: id, rank: rank, kind: kind, n: n, queue: q, chain: ci, ev: map[int]string{}, added: r.e.height}
		r.order = append(r.order, id)
		k := map[string]string{"slc": "KLogicCall", "bal": fmt.Sprintf("(KBalances %d)", n), "ref": "KRefBlock"}[kind]
		r.terms = append(r.terms, fmt.Sprintf("C09.XPut %d %d %s %d %s", id, rank, k, r.e.height, emit.Bool(pad)))
	}
}

// unanimous, acceptable evidence of its own => must be attested in this block whatever else is queued
func (m *amirror) mustGo(nv int, refAt map[int]int) bool {
	if len(m.ev) != nv {
		return false
	}
	first := ""
	for _, p := range m.ev {
		if first == "" {
			first = p
		}
		if p != first {
			return false
		}
	}
	switch m.kind {
	case "slc":
		return strings.HasPrefix(first, "err:") || (strings.HasPrefix(first, "tx:") && strings.HasSuffix(first, ":0"))
	case "bal":
		return first == fmt.Sprintf("bal:%d:%d", 1, m.n) || strings.HasSuffix(first, fmt.Sprintf(":%d", m.n)) && strings.HasPrefix(first, "bal:")
	default:
		// the reference block only moves upwards (ErrInvalidReferenceBlockHeight otherwise)
		var k int
		if _, err := fmt.Sscanf(first, "ref:%d", &k); err != nil {
			return false
		}
		return k > refAt[m.chain]
	}
}

// another reference-block request of the same chain that may be attested earlier in the same block
func (r *arunner) refBusy(m *amirror) bool {
	for _, o := range r.msgs {
		if o != m && !o.gone && o.kind == "ref" && o.chain == m.chain && len(o.ev) > 0 {
			return true
		}
	}
	return false
}

func (r *arunner) do(h xhop) {
	e := r.e
	ctx := e.at(e.height)
	if h.Last && len(r.order) > 0 {
		h.ID = r.order[len(r.order)-1]
	}
	switch h.K {
	case "trait":
		// validator V re-registers its chain accounts with / without the MEV trait
		if h.V < 0 || h.V >= len(e.vals) {
			break
		}
		var infos []*valsettypes.ExternalChainInfo
		for _, in := range e.infos[h.V] {
			cp := *in
			cp.Traits = nil
			if h.On {
				cp.Traits = []string{valsettypes.PIGEON_TRAIT_MEV}
			}
			infos = append(infos, &cp)
		}
		if err := e.f.ValsetKeeper.AddExternalChainInfo(ctx, e.vals[h.V], infos); err != nil {
			r.t.Fatalf("AddExternalChainInfo: %v", err)
		}
	case "snapshot":
		if err := e.buildSnapshot(); err != nil {
			r.t.Fatal(err)
		}
		var items []string
		for i, p := range e.powers {
			items = append(items, emit.Pair(emit.ZI(int64(i)), emit.ZI(p)))
		}
		r.terms = append(r.terms, "C09.XSnapshot "+emit.List(items))
	case "put-mev":
		// a logic call that enforces MEV relaying and may still be retried
		before := r.queued()
		out, what := guard(func() error {
			_, err := e.f.EvmKeeper.AddSmartContractExecutionToConsensus(ctx, chains[h.Chain], "", &evmtypes.SubmitLogicCall{
				Payload: []byte{1, 2, 3, byte(len(r.order))}, HexContractAddress: "0x51eca2efb15afacc612278c71f5edb35986f172f", Abi: []byte("[]"), Deadline: 1337,
				SenderAddress: []byte("abcdefghijabcdefghij"), ContractAddress: []byte("abcdefghijabcdefghij"),
				ExecutionRequirements: evmtypes.SubmitLogicCall_ExecutionRequirements{EnforceMEVRelay: true},
			})
			return err
		})
		if out == 2 {
			r.run.Violate("C09:put-panic", "AddSmartContractExecutionToConsensus (MEV) panicked: "+what, r.replay(h))
		}
		r.run.Count("put-mev", map[int]string{0: "assigned", 1: "refused", 2: "panic"}[out])
		r.register(before, "slc", h.Chain, false)
	case "put-slc":
		before := r.queued()
		out, what := guard(func() error {
			_, err := e.f.EvmKeeper.AddSmartContractExecutionToConsensus(ctx, chains[h.Chain], "", &evmtypes.SubmitLogicCall{
				Payload: []byte{1, 2, 3, byte(len(r.order))}, HexContractAddress: "0x51eca2efb15afacc612278c71f5edb35986f172f", Abi: []byte("[]"), Deadline: 1337,
				SenderAddress: []byte("abcdefghijabcdefghij"), ContractAddress: []byte("abcdefghijabcdefghij"), Retries: 2,
			})
			return err
		})
		if out == 2 {
			r.run.Violate("C09:put-panic", "AddSmartContractExecutionToConsensus panicked: "+what, r.replay(h))
		}
		r.register(before, "slc", h.Chain, false)
	case "put-usc":
		before := r.queued()
		out, what := guard(func() error {
			_, err := e.f.EvmKeeper.AddUploadUserSmartContractToConsensus(ctx, chains[h.Chain], "", &evmtypes.UploadUserSmartContract{
				Bytecode: []byte{0x60, 0x80, byte(len(r.order))}, DeployerAddress: "0x51eca2efb15afacc612278c71f5edb35986f172f", Deadline: 1337,
				SenderAddress: []byte("abcdefghijabcdefghij"), BlockHeight: e.height, Id: uint64(1 + len(r.order)), Retries: 2,
			})
			return err
		})
		if out == 2 {
			r.run.Violate("C09:put-panic", "AddUploadUserSmartContractToConsensus panicked: "+what, r.replay(h))
		}
		r.register(before, "slc", h.Chain, false)
	case "put-bal":
		before := r.queued()
		if err := e.f.EvmKeeper.CheckExternalBalancesForChain(ctx, chains[h.Chain]); err != nil {
			r.t.Fatalf("CheckExternalBalancesForChain: %v", err)
		}
		r.register(before, "bal", h.Chain, true)
	case "put-ref":
		before := r.queued()
		if err := e.f.EvmKeeper.ScheduleReferenceBlockForChain(ctx, chains[h.Chain]); err != nil {
			r.t.Fatalf("ScheduleReferenceBlockForChain: %v", err)
		}
		r.register(before, "ref", h.Chain, true)
	case "estimates":
		m := r.msgs[h.ID]
		if m == nil || m.kind != "slc" {
			break
		}
		for v := range e.vals {
			_, _ = e.cons.AddMessageEstimates(ctx, &consensustypes.MsgAddMessageGasEstimates{
				Metadata:  valsettypes.MsgMetadata{Creator: sdk.AccAddress(e.vals[v]).String()},
				Estimates: []*consensustypes.MsgAddMessageGasEstimates_GasEstimate{{MsgId: h.ID, QueueTypeName: m.queue, Value: 21000}},
			})
		}
	case "evidence", "stored":
		any, term, usable := proofOf(h.P)
		q := ""
		if m := r.msgs[h.ID]; m != nil {
			q = m.queue
		} else {
			q, _ = queueOf("slc", 0)
		}
		var addr sdk.ValAddress
		vterm := int64(h.V)
		if h.V >= 0 && h.V < len(e.vals) {
			addr = e.vals[h.V]
		} else {
			addr = sdk.ValAddress([]byte(fmt.Sprintf("outsider-%012d", h.V)))
			vterm = -1
		}
		if h.K == "stored" {
			m := r.msgs[h.ID]
			if m == nil || m.gone || vterm < 0 {
				return
			}
			cq, err := e.f.ConsensusKeeper.VerifC07Queue(ctx, q)
			if err != nil {
				r.t.Fatal(err)
			}
			if err := cq.AddEvidence(ctx, h.ID, &consensustypes.Evidence{ValAddress: addr, Proof: any}); err != nil {
				r.t.Fatalf("queue.AddEvidence: %v", err)
			}
			m.ev[h.V] = h.P
			r.run.Count("evidence", "stored-directly:"+strings.SplitN(h.P, ":", 2)[0])
			r.terms = append(r.terms, fmt.Sprintf("C09.XStored %s %d %s", emit.ZI(vterm), h.ID, term))
			break
		}
		out, what := guard(func() error {
			_, err := e.cons.AddEvidence(ctx, &consensustypes.MsgAddEvidence{Proof: any, MessageID: h.ID, QueueTypeName: q,
				Metadata: valsettypes.MsgMetadata{Creator: sdk.AccAddress(addr).String()}})
			return err
		})
		if out == 2 {
			r.run.Violate("C09:add-evidence-panic", "AddEvidence panicked: "+what, r.replay(h))
		}
		ok := out == 0
		if ok && !usable {
			r.run.Violate("C09:unusable-evidence-stored", fmt.Sprintf("MsgAddEvidence with proof %q was accepted for message %d", h.P, h.ID), r.replay(h))
		}
		if ok {
			if m := r.msgs[h.ID]; m != nil {
				m.ev[h.V] = h.P
			}
		}
		r.run.Count("evidence", map[bool]string{true: "accepted:", false: "rejected:"}[ok]+strings.SplitN(h.P, ":", 2)[0])
		r.terms = append(r.terms, fmt.Sprintf("C09.XEvidence %s %d %s %s", emit.ZI(vterm), h.ID, term, emit.Bool(ok)))
	case "pad", "err":
		q := ""
		if m := r.msgs[h.ID]; m != nil {
			q = m.queue
		} else {
			q, _ = queueOf("slc", 0)
		}
		creator := sdk.AccAddress(e.vals[h.V%len(e.vals)]).String()
		out, _ := guard(func() error {
			if h.K == "pad" {
				_, err := e.cons.SetPublicAccessData(ctx, &consensustypes.MsgSetPublicAccessData{MessageID: h.ID, QueueTypeName: q, Data: []byte{7, 7}, ValsetID: 1,
					Metadata: valsettypes.MsgMetadata{Creator: creator}})
				return err
			}
			_, err := e.cons.SetErrorData(ctx, &consensustypes.MsgSetErrorData{MessageID: h.ID, QueueTypeName: q, Data: []byte{8},
				Metadata: valsettypes.MsgMetadata{Creator: creator}})
			return err
		})
		r.terms = append(r.terms, fmt.Sprintf("C09.%s %d %s", map[string]string{"pad": "XPublicData", "err": "XErrorData"}[h.K], h.ID, emit.Bool(out == 0)))
	case "endblock":
		e.height = h.Height
		bctx := e.at(e.height)
		// the estimate step first, on its own (the end-blocker's own run then finds nothing new), so that
		// the elections of this block are known before the attestation step runs
		if err := e.f.ConsensusKeeper.CheckAndProcessEstimatedMessages(bctx); err != nil {
			r.t.Fatalf("CheckAndProcessEstimatedMessages: %v", err)
		}
		for id, qm := range r.queued() {
			m := r.msgs[id]
			if m == nil || m.fees || m.kind != "slc" {
				continue
			}
			if em, err := libmsg.ToEvmMessage(qm, e.f.Codec); err == nil && ((em.GetSubmitLogicCall() != nil && em.GetSubmitLogicCall().Fees != nil) ||
				(em.GetUploadUserSmartContract() != nil && em.GetUploadUserSmartContract().Fees != nil)) {
				m.fees = true
				r.terms = append(r.terms, fmt.Sprintf("C09.XElect %d", id))
			}
		}
		must := map[uint64]bool{}
		for id, m := range r.msgs {
			if !m.gone && m.mustGo(len(e.vals), r.refAt) && !(m.kind == "ref" && r.refBusy(m)) {
				must[id] = true
			}
		}
		out, what := guard(func() error { return e.consMod.EndBlock(bctx) })
		if out != 0 {
			kind := map[int]string{1: "error", 2: "panic"}[out]
			r.run.Violate("C09:consensus-end-"+kind+":"+normalize(what), fmt.Sprintf("x/consensus EndBlock at height %d (attestation history): %s: %s", e.height, kind, what), r.replay(h))
		}
		r.run.Count("attest-endblock", map[int]string{0: "completed", 1: "error", 2: "panic"}[out])
		var ids, jailed []string
		if out != 2 {
			left := r.queued()
			var known []*amirror
			for _, id := range r.order {
				m := r.msgs[id]
				if _, ok := left[id]; ok {
					known = append(known, m)
				} else if !m.gone {
					m.gone = true
					if m.kind == "ref" {
						for _, p := range m.ev {
							var k int
							if _, err := fmt.Sscanf(p, "ref:%d", &k); err == nil && k > r.refAt[m.chain] {
								r.refAt[m.chain] = k
							}
						}
					}
					r.nontr = true
					r.run.Count("attest-fate", "removed:"+m.kind)
				}
			}
			sort.SliceStable(known, func(i, j int) bool {
				if known[i].rank != known[j].rank {
					return known[i].rank < known[j].rank
				}
				return known[i].id < known[j].id
			})
			for _, m := range known {
				ids = append(ids, emit.ZU(m.id))
				if must[m.id] {
					r.run.Violate("C09:attest-starved", fmt.Sprintf("message %d (%s) has unanimous acceptable evidence but is still queued after the block at height %d", m.id, m.kind, e.height), r.replay(h))
				}
				if e.height%50 == 0 && e.height-m.added > 300 {
					r.run.Violate("C09:prune-left-old-message", fmt.Sprintf("message %d queued at %d survived the pruning block %d", m.id, m.added, e.height), r.replay(h))
				}
			}
			for i, v := range e.vals {
				if j, err := e.f.ValsetKeeper.IsJailed(bctx, v); err == nil && j {
					jailed = append(jailed, emit.ZI(int64(i)))
					r.run.Count("attest-fate", "jailed-validator")
				}
			}
		}
		r.terms = append(r.terms, fmt.Sprintf("C09.XEndBlock %d %d %s %s", e.height, out, emit.List(ids), emit.List(jailed)))
		if out == 2 {
			r.ops = append(r.ops, h)
			panic(stopHistory{})
		}
	}
	r.ops = append(r.ops, h)
}

func newARunner(t *testing.T, run *emit.Run, powers []int64) *arunner {
	rr := newRunner(t, run, powers)
	e := rr.e
	ctx := e.at(e.height)
	repo := os.Getenv("VERIF_REPO")
	if repo == "" {
		repo = "/repo"
	}
	abiJSON, err := os.ReadFile(repo + "/x/evm/keeper/testdata/sample-abi.json")
	if err != nil {
		t.Fatal(err)
	}
	sc, err := e.f.EvmKeeper.SaveNewSmartContract(ctx, string(abiJSON), []byte{0x60, 0x80, 0x01})
	if err != nil {
		t.Fatal(err)
	}
	if err := e.f.EvmKeeper.SetAsCompassContract(ctx, sc); err != nil {
		t.Fatal(err)
	}
	_ = e.f.TreasuryKeeper.SetCommunityFundFee(ctx, "0.01")
	_ = e.f.TreasuryKeeper.SetSecurityFee(ctx, "0.03")
	if err := e.buildSnapshot(); err != nil {
		t.Fatal(err)
	}
	for i := range e.vals {
		addr := e.vals[i].String()
		var fs []treasurytypes.RelayerFeeSetting_FeeSetting
		for _, c := range chains {
			fs = append(fs, treasurytypes.RelayerFeeSetting_FeeSetting{ChainReferenceId: c, Multiplicator: decOf("1100000000000000000")})
		}
		if _, err := e.tre.UpsertRelayerFee(ctx, &treasurytypes.MsgUpsertRelayerFee{FeeSetting: &treasurytypes.RelayerFeeSetting{ValAddress: addr, Fees: fs},
			Metadata: valsettypes.MsgMetadata{Creator: addr, Signers: []string{addr}}}); err != nil {
			t.Fatal(err)
		}
	}
	ar := &arunner{t: t, run: run, e: e, msgs: map[uint64]*amirror{}, refAt: map[int]int{}}
	var items []string
	for i, p := range e.powers {
		items = append(items, emit.Pair(emit.ZI(int64(i)), emit.ZI(p)))
	}
	ar.terms = append(ar.terms, "C09.XSnapshot "+emit.List(items))
	return ar
}

func (r *arunner) history(ops []xhop) {
	func() {
		defer func() {
			if x := recover(); x != nil {
				if _, ok := x.(stopHistory); !ok {
					panic(x)
				}
			}
		}()
		for _, h := range ops {
			r.do(h)
		}
	}()
	r.run.Case("C09.CAttest "+emit.List(r.terms), r.nontr, map[string]any{"kind": "attest-history", "powers": r.e.powers, "ops": r.ops})
}

var slcProofs = []string{"err:1", "err:1", "err:2", "tx:1:0", "tx:2:1", "tx:3:1", "txnr:4", "ref:1", "bal:1:3"}
var hostileProofs = []string{"absent", "empty-url", "unknown", "garbage-tx"}

func genAttestHistory(run *emit.Run, nv int) []xhop {
	r := run.Rng
	var ops []xhop
	height := int64(6)
	nextID := uint64(1)
	type qm struct {
		id   uint64
		kind string
	}
	var live []qm
	put := func() {
		ci := r.Intn(2)
		switch k := r.Intn(10); {
		case k < 6:
			ops = append(ops, xhop{K: map[bool]string{true: "put-usc", false: "put-slc"}[k == 5], Chain: ci})
			live = append(live, qm{nextID, "slc"})
		case k < 8:
			ops = append(ops, xhop{K: "put-bal", Chain: ci})
			live = append(live, qm{nextID, "bal"})
		default:
			ops = append(ops, xhop{K: "put-ref", Chain: ci})
			live = append(live, qm{nextID, "ref"})
		}
		nextID++
	}
	for i := 0; i < 2+r.Intn(3); i++ {
		put()
	}
	n := 6 + r.Intn(14)
	for i := 0; i < n; i++ {
		switch k := r.Intn(20); {
		case k < 3:
			put()
		case k < 5 && len(live) > 0:
			ops = append(ops, xhop{K: "estimates", ID: live[r.Intn(len(live))].id})
		case k < 7 && len(live) > 0:
			ops = append(ops, xhop{K: map[bool]string{true: "pad", false: "err"}[r.Intn(3) > 0], ID: live[r.Intn(len(live))].id, V: r.Intn(nv)})
		case k < 16 && len(live) > 0:
			m := live[r.Intn(len(live))]
			id := m.id
			if r.Intn(25) == 0 {
				id = nextID + 5 // no such message
			}
			// one proof for (almost) everybody, so that consensus is common
			var base string
			switch m.kind {
			case "slc":
				base = slcProofs[r.Intn(len(slcProofs))]
			case "bal":
				base = fmt.Sprintf("bal:%d:%d", 1+r.Intn(2), []int{nv, nv, nv - 1, nv + 1, 0}[r.Intn(5)])
				if r.Intn(6) == 0 {
					base = "err:3"
				}
			default:
				base = fmt.Sprintf("ref:%d", 1+r.Intn(2))
				if r.Intn(6) == 0 {
					base = "tx:5:1"
				}
			}
			few := r.Intn(5) == 0 // only one or two validators attest: no consensus, pruning jails the others
			for v := 0; v < nv; v++ {
				if r.Intn(6) == 0 || (few && v >= 1+r.Intn(2)) {
					continue
				}
				p := base
				if r.Intn(7) == 0 {
					p = hostileProofs[r.Intn(len(hostileProofs))]
				} else if r.Intn(9) == 0 {
					p = slcProofs[r.Intn(len(slcProofs))]
				}
				kind := "evidence"
				if r.Intn(3) == 0 && (p == "absent" || p == "empty-url" || p == "unknown" || p == "garbage-tx") {
					kind = "stored"
				}
				vv := v
				if r.Intn(30) == 0 {
					vv = 99 // not a validator
				}
				ops = append(ops, xhop{K: kind, ID: id, V: vv, P: p})
			}
		default:
			switch r.Intn(3) {
			case 0:
				height++
			case 1:
				height += int64(1 + r.Intn(9))
			default:
				height = (height/50+1)*50 + int64(r.Intn(2))
			}
			if height > 280 {
				height = 280 + int64(i)
			}
			ops = append(ops, xhop{K: "endblock", Height: height})
		}
	}
	// an MEV-only job whose relay fails: the attestation retries it in the end-blocker, with or
	// without a validator left that advertises the MEV trait
	if r.Intn(3) == 0 {
		v, ci := r.Intn(nv), r.Intn(2)
		ops = append(ops, xhop{K: "trait", V: v, On: true}, xhop{K: "snapshot"}, xhop{K: "put-mev", Chain: ci})
		if r.Intn(4) > 0 {
			ops = append(ops, xhop{K: "trait", V: v, On: false}, xhop{K: "snapshot"})
		}
		if r.Intn(2) == 0 {
			ops = append(ops, xhop{K: "err", Last: true, V: v})
		}
		for w := 0; w < nv; w++ {
			ops = append(ops, xhop{K: "evidence", Last: true, V: w, P: "err:9"})
		}
		height += int64(1 + r.Intn(3))
		ops = append(ops, xhop{K: "endblock", Height: height})
		height++
		ops = append(ops, xhop{K: "endblock", Height: height})
	}
	// past the pruning age
	final := (height+300)/50*50 + 50
	if r.Intn(3) == 0 {
		ops = append(ops, xhop{K: "endblock", Height: final - 1})
	}
	ops = append(ops, xhop{K: "endblock", Height: final})
	return ops
}
