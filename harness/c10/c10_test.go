//go:build verif

// Package c10 is the correspondence harness + direct oracle for property C10 (validator snapshots
// faithful, immutable, correctly projected to chains).  It drives the REAL valset / evm / staking /
// consensus keepers (x/skyway/keeper.CreateTestEnv) and the real transformSnapshotToCompass /
// isEnoughToReachConsensus through the verif hooks.
package c10

import (
	"bytes"
	"encoding/json"
	"fmt"
	"math/big"
	"math/rand"
	"os"
	"path/filepath"
	"reflect"
	"sort"
	"strings"
	"testing"
	"time"

	"cosmossdk.io/log"
	sdkmath "cosmossdk.io/math"
	storetypes "cosmossdk.io/store/types"
	"github.com/cometbft/cometbft/crypto/ed25519"
	cryptocodec "github.com/cosmos/cosmos-sdk/crypto/codec"
	sdk "github.com/cosmos/cosmos-sdk/types"
	authcodec "github.com/cosmos/cosmos-sdk/x/auth/codec"
	slashingtypes "github.com/cosmos/cosmos-sdk/x/slashing/types"
	stakingtypes "github.com/cosmos/cosmos-sdk/x/staking/types"
	"github.com/ethereum/go-ethereum/accounts/abi"
	"github.com/ethereum/go-ethereum/common"
	"github.com/onsi/ginkgo/v2"
	chainparams "github.com/palomachain/paloma/v2/app/params"
	"github.com/palomachain/paloma/v2/tests/integration/helper"
	"github.com/palomachain/paloma/v2/verifharness/emit"
	consensustypes "github.com/palomachain/paloma/v2/x/consensus/types"
	evmkeeper "github.com/palomachain/paloma/v2/x/evm/keeper"
	evmtypes "github.com/palomachain/paloma/v2/x/evm/types"
	schedulertypes "github.com/palomachain/paloma/v2/x/scheduler/types"
	treasurytypes "github.com/palomachain/paloma/v2/x/treasury/types"
	valsetmodule "github.com/palomachain/paloma/v2/x/valset"
	valsettypes "github.com/palomachain/paloma/v2/x/valset/types"
)

var (
	two32     = new(big.Int).Lsh(big.NewInt(1), 32)
	threshold = new(big.Int).Div(new(big.Int).Lsh(big.NewInt(1), 33), big.NewInt(3)) // floor(2^33/3)
)

var gapReported, gapSentReported bool

func valAddr(i int) sdk.ValAddress {
	b := make([]byte, 20)
	b[0] = 0xC1
	b[18] = byte(i >> 8)
	b[19] = byte(i)
	return sdk.ValAddress(b)
}

func chainName(c int) string { return fmt.Sprintf("chain-%d", c) }

// ---------- recorded forms ----------

// rinfo is one external account with the strings as registered (chain type, chain reference id,
// traits); Addr numbers the remote address.  Legacy corpus files spell {"Evm":…,"Chain":n,…}.
type rinfo struct {
	Type   string   `json:"type"`
	Ref    string   `json:"ref"`
	Addr   int64    `json:"Addr"`
	Traits []string `json:"traits,omitempty"`
}

func (i *rinfo) UnmarshalJSON(b []byte) error {
	var raw struct {
		Type   *string  `json:"type"`
		Ref    *string  `json:"ref"`
		Addr   int64    `json:"Addr"`
		Traits []string `json:"traits"`
		Evm    *bool    `json:"Evm"`
		Chain  *int     `json:"Chain"`
	}
	if err := json.Unmarshal(b, &raw); err != nil {
		return err
	}
	i.Addr, i.Traits = raw.Addr, raw.Traits
	switch {
	case raw.Type != nil:
		i.Type = *raw.Type
	case raw.Evm != nil && !*raw.Evm:
		i.Type = "cosmos"
	default:
		i.Type = "evm"
	}
	switch {
	case raw.Ref != nil:
		i.Ref = *raw.Ref
	case raw.Chain != nil:
		i.Ref = chainName(*raw.Chain)
	}
	return nil
}

type rval struct {
	Val   int
	Share *big.Int
	Infos []rinfo
}

// stab is the string table of one correspondence case: the Go strings themselves go to Coq once,
// the steps refer to them by index; the model compares the strings.
type stab struct {
	idx  map[string]int
	list []string
}

func newStab() *stab { return &stab{idx: map[string]int{}} }
func (t *stab) id(s string) string {
	i, ok := t.idx[s]
	if !ok {
		i = len(t.list)
		t.idx[s] = i
		t.list = append(t.list, s)
	}
	return emit.ZI(int64(i))
}
func (t *stab) ids(ss []string) string {
	out := make([]string, len(ss))
	for k, s := range ss {
		out[k] = t.id(s)
	}
	return emit.List(out)
}
func coqString(s string) string {
	plain := true
	for i := 0; i < len(s); i++ {
		if s[i] < 0x20 || s[i] > 0x7e || s[i] == '"' {
			plain = false
		}
	}
	if plain {
		return emit.Str(s)
	}
	bs := make([]string, len(s))
	for i := 0; i < len(s); i++ {
		bs[i] = emit.ZI(int64(s[i]))
	}
	return "(C10.bs " + emit.List(bs) + ")"
}
func (t *stab) coq() string {
	out := make([]string, len(t.list))
	for k, s := range t.list {
		out[k] = coqString(s)
	}
	return emit.List(out)
}

func coqInfo(t *stab, i rinfo) string {
	return emit.Pair(t.id(i.Type), t.id(i.Ref), emit.ZI(i.Addr), t.ids(i.Traits))
}
func coqInfos(t *stab, is []rinfo) string {
	s := make([]string, len(is))
	for k, i := range is {
		s[k] = coqInfo(t, i)
	}
	return emit.List(s)
}
func coqVal(t *stab, v rval) string {
	return emit.Pair(emit.ZI(int64(v.Val)), emit.Z(v.Share), coqInfos(t, v.Infos))
}
func coqVals(t *stab, vs []rval) string {
	s := make([]string, len(vs))
	for k, v := range vs {
		s[k] = coqVal(t, v)
	}
	return emit.List(s)
}
func coqEntries(addrs []int64, powers []uint64) string {
	s := make([]string, len(addrs))
	for k := range addrs {
		s[k] = emit.Pair(emit.ZI(addrs[k]), emit.ZU(powers[k]))
	}
	return emit.List(s)
}

// address registry: remote address string <-> small integer
type addrReg struct {
	byStr map[string]int64
}

func (a *addrReg) str(id int64) string { return fmt.Sprintf("0x%040x", id) }
func (a *addrReg) id(s string) int64 {
	var id int64
	if _, err := fmt.Sscanf(strings.TrimPrefix(s, "0x"), "%x", &id); err != nil {
		return -1
	}
	return id
}

func mkExt(a *addrReg, i rinfo) *valsettypes.ExternalChainInfo {
	return &valsettypes.ExternalChainInfo{
		ChainType:        i.Type,
		ChainReferenceID: i.Ref,
		Address:          a.str(i.Addr),
		Pubkey:           []byte(a.str(i.Addr)),
		Traits:           i.Traits,
	}
}

// chain types: the eight spellings the code accepts as "evm", and near misses it must not accept
var evmSpellings = []string{"evm", "evm", "evm", "evm", "EVM", "Evm", "eVm", "evM", "EvM", "eVM", "EVm"}
var notEvmSpellings = []string{"cosmos", "evm ", " evm", "evm\n", "ev", "evmm", "evm2", "", "\uff45\uff56\uff4d", "\u0435vm", "e\u200bvm", "EV\u039c", "solana"}

func genType(r *rand.Rand, evm bool) string {
	if evm {
		return evmSpellings[r.Intn(len(evmSpellings))]
	}
	return notEvmSpellings[r.Intn(len(notEvmSpellings))]
}

// isEvm: the oracle's own reading of "the chain type is evm up to letter case": one of the eight
// ASCII spellings (written out, not computed with the function the code uses)
func isEvm(t string) bool {
	switch t {
	case "evm", "evM", "eVm", "eVM", "Evm", "EvM", "EVm", "EVM":
		return true
	}
	return false
}

// nearMiss returns a spelling that a human reads as s but that is another string: letter case,
// blanks, look-alike letters, a prefix / suffix / extension of s.
func nearMiss(r *rand.Rand, s string) string {
	for {
		if m := nearMiss1(r, s); m != s {
			return m
		}
	}
}

func nearMiss1(r *rand.Rand, s string) string {
	repl := func(old, new string) string {
		if strings.Contains(s, old) {
			return strings.Replace(s, old, new, 1)
		}
		return s + new
	}
	switch r.Intn(16) {
	case 0:
		return strings.ToUpper(s[:1]) + s[1:]
	case 1:
		return strings.ToUpper(s)
	case 2:
		return strings.Title(s) //nolint
	case 3:
		return s + " "
	case 4:
		return " " + s
	case 5:
		return s + "\n"
	case 6:
		return s + "\t"
	case 7:
		return repl("c", "\u0441") // cyrillic es
	case 8:
		return repl("a", "\u0430") // cyrillic a
	case 9:
		return repl("-", "\u2010") // hyphen
	case 10:
		return s + "\u200b" // zero-width space
	case 11:
		return s[:len(s)-1]
	case 12:
		return s[1:]
	case 13:
		return s + "0"
	case 14:
		return repl("-", "_")
	default:
		b := []byte(s)
		k := r.Intn(len(b))
		if b[k] >= 'a' && b[k] <= 'z' {
			b[k] -= 32
		}
		return string(b)
	}
}

// ---------- part 1: the projection as a function ----------

type tcase struct {
	Vals  []rval  `json:"vals"`
	Chain int     `json:"chain"`
	Ref   *string `json:"ref,omitempty"` // the chain projected to, as spelled (legacy files: chain-<Chain>)
}

func (tc tcase) target() string {
	if tc.Ref != nil {
		return *tc.Ref
	}
	return chainName(tc.Chain)
}

func floorPower(share, total *big.Int) *big.Int {
	if total.Sign() <= 0 || share.Sign() < 0 {
		return new(big.Int)
	}
	p := new(big.Int).Mul(share, two32)
	return p.Quo(p, total)
}

// doTransform runs the real transformSnapshotToCompass + isEnoughToReachConsensus on the case,
// applies the direct oracle and records the correspondence case.
func doTransform(run *emit.Run, a *addrReg, r *rand.Rand, tc tcase, tag string) {
	target := tc.target()
	sn := &valsettypes.Snapshot{Id: 7, TotalShares: sdkmath.ZeroInt()}
	total := new(big.Int)
	for _, v := range tc.Vals {
		var infos []*valsettypes.ExternalChainInfo
		for _, i := range v.Infos {
			infos = append(infos, mkExt(a, i))
		}
		sn.Validators = append(sn.Validators, valsettypes.Validator{
			Address: valAddr(v.Val), ShareCount: sdkmath.NewIntFromBigInt(v.Share), ExternalChainInfos: infos,
			State: valsettypes.ValidatorState_ACTIVE,
		})
		total.Add(total, v.Share)
	}
	sn.TotalShares = sdkmath.NewIntFromBigInt(total)
	replay := map[string]any{"kind": "transform", "case": tc}
	var vs evmtypes.Valset
	var enough bool
	panicked := func() (p any) {
		defer func() { p = recover() }()
		vs = evmkeeper.VerifTransformSnapshotToCompass(sn, target)
		enough = evmkeeper.VerifIsEnoughToReachConsensus(vs)
		return nil
	}()
	run.Count("transform", tag)
	if panicked != nil {
		run.Violate("C10:transform-panics", fmt.Sprintf("transformSnapshotToCompass panics on total %s: %v", total, panicked), replay)
		return
	}
	// ---- direct oracle on the real output ----
	shareOf := map[int64]*big.Int{} // remote address -> share of its validator
	expectN := 0
	for _, v := range tc.Vals {
		has := false
		for _, i := range v.Infos {
			if isEvm(i.Type) && i.Ref == target {
				shareOf[i.Addr] = v.Share
				has = true
			}
		}
		if has {
			expectN++
		}
	}
	addrs := make([]int64, len(vs.Validators))
	sum := new(big.Int)
	for k, s := range vs.Validators {
		addrs[k] = a.id(s)
		p := new(big.Int).SetUint64(vs.Powers[k])
		sum.Add(sum, p)
		sh, ok := shareOf[addrs[k]]
		if !ok {
			run.Violate("C10:entry-without-account", fmt.Sprintf("valset lists %s which is no evm account on the chain", s), replay)
			continue
		}
		if want := floorPower(sh, total); want.Cmp(p) != 0 {
			run.Violate("C10:power-not-floor", fmt.Sprintf("share %s of total %s: power %s, floor(share*2^32/total) = %s", sh, total, p, want), replay)
		}
		if k > 0 && vs.Powers[k] > vs.Powers[k-1] {
			run.Violate("C10:powers-not-descending", fmt.Sprintf("powers %v", vs.Powers), replay)
		}
	}
	if len(vs.Validators) != expectN {
		run.Violate("C10:validator-entries", fmt.Sprintf("%d validators have an evm account on the chain but the valset has %d entries (a validator with two accounts is counted twice)", expectN, len(vs.Validators)), replay)
	}
	if sum.Cmp(two32) > 0 {
		run.Violate("C10:power-sum-above-2p32", fmt.Sprintf("powers sum to %s > 2^32", sum), replay)
	}
	if enough != (sum.Cmp(threshold) >= 0) {
		run.Violate("C10:quorum-gate", fmt.Sprintf("isEnoughToReachConsensus=%v but powers sum to %s (threshold %s)", enough, sum, threshold), replay)
	}
	if enough && !gapReported && new(big.Int).Mul(sum, big.NewInt(3)).Cmp(new(big.Int).Lsh(big.NewInt(1), 33)) < 0 {
		gapReported = true // once per run: the violation list is capped and must stay free for unlisted ones
		// listed as a known finding: the integer threshold floor(2^33/3) admits a sum that is 2/3 of a
		// unit below the real number 2/3 * 2^32 (theorem quorum_constant_exact)
		run.Violate("C10:quorum-floor-gap", fmt.Sprintf("powers sum to %s = thresholdForConsensus: accepted although 3*sum = 2^33-2 < 2*2^32", sum), replay)
	}
	if enough {
		run.Count("transform-enough", "yes")
	} else {
		run.Count("transform-enough", "no")
	}
	nontrivial := len(vs.Validators) >= 2
	tb := newStab()
	term := fmt.Sprintf("%s %s %s %s", coqVals(tb, tc.Vals), tb.id(target), coqEntries(addrs, vs.Powers), emit.Bool(enough))
	run.Case("C10.CTransform "+tb.coq()+" "+term,
		nontrivial, map[string]any{"transform": tc, "powers": vs.Powers, "enough": enough})
}

// negativeShareWitness replays the witness of CompassProofs.nonneg_hypothesis_needed on the real
// function: a negative share (impossible for bonded tokens, a staking invariant the snapshot code
// does not check) makes another validator's power exceed 2^32.  Recorded as a correspondence case
// and counted; not an oracle violation (no history reaches it).
func negativeShareWitness(run *emit.Run, a *addrReg) {
	sn := &valsettypes.Snapshot{Id: 7, TotalShares: sdkmath.NewInt(5)}
	vals := []rval{
		{Val: 1, Share: big.NewInt(-5), Infos: []rinfo{{Type: "evm", Ref: "c0", Addr: 11}}},
		{Val: 2, Share: big.NewInt(10), Infos: []rinfo{{Type: "evm", Ref: "c0", Addr: 21}}},
	}
	for _, v := range vals {
		sn.Validators = append(sn.Validators, valsettypes.Validator{Address: valAddr(v.Val), ShareCount: sdkmath.NewIntFromBigInt(v.Share),
			ExternalChainInfos: []*valsettypes.ExternalChainInfo{mkExt(a, v.Infos[0])}, State: valsettypes.ValidatorState_ACTIVE})
	}
	vs := evmkeeper.VerifTransformSnapshotToCompass(sn, "c0")
	enough := evmkeeper.VerifIsEnoughToReachConsensus(vs)
	sum := new(big.Int)
	addrs := make([]int64, len(vs.Validators))
	for k, s := range vs.Validators {
		addrs[k] = a.id(s)
		sum.Add(sum, new(big.Int).SetUint64(vs.Powers[k]))
	}
	run.Count("hypothesis-needed", fmt.Sprintf("negative share: real powers %v sum>2^32=%v", vs.Powers, sum.Cmp(two32) > 0))
	tb := newStab()
	term := fmt.Sprintf("%s %s %s %s", coqVals(tb, vals), tb.id("c0"), coqEntries(addrs, vs.Powers), emit.Bool(enough))
	run.Case("C10.CTransform "+tb.coq()+" "+term, true, map[string]any{"negative-share-witness": vs.Powers})
}

// modInverse-based family: a*2^32 = -1 (mod b), so that a*2^32/b has fractional part (b-1)/b.
func nearIntegerPair(r *rand.Rand) (*big.Int, *big.Int) {
	for {
		bits := 22 + r.Intn(40)
		b := new(big.Int).Rand(r, new(big.Int).Lsh(big.NewInt(1), uint(bits)))
		b.SetBit(b, bits, 1)
		b.SetBit(b, 0, 1) // odd => invertible mod 2^32's powers
		inv := new(big.Int).ModInverse(two32, b)
		if inv == nil {
			continue
		}
		a := new(big.Int).Sub(b, inv) // a = -inv mod b
		a.Mod(a, b)
		if a.Sign() > 0 && a.Cmp(b) < 0 {
			return a, b
		}
	}
}

func genShares(r *rand.Rand, n int, allowHuge bool) []*big.Int {
	out := make([]*big.Int, n)
	mode := r.Intn(7)
	switch mode {
	case 0: // near-integer quotient family, remaining validators split the rest
		a, b := nearIntegerPair(r)
		out[0] = a
		rest := new(big.Int).Sub(b, a)
		for i := 1; i < n; i++ {
			if i == n-1 {
				out[i] = new(big.Int).Set(rest)
			} else {
				x := new(big.Int).Rand(r, new(big.Int).Add(rest, big.NewInt(1)))
				out[i] = x
				rest.Sub(rest, x)
			}
		}
		if n == 1 {
			out[0] = b
		}
	case 1: // all equal
		base := big.NewInt(int64(1 + r.Intn(1_000_000)))
		if r.Intn(2) == 0 {
			base.Mul(base, big.NewInt(1_000_000_000_000))
		}
		for i := range out {
			out[i] = new(big.Int).Set(base)
		}
	case 2: // near-equal
		base := big.NewInt(int64(1_000_000 + r.Intn(1_000_000)))
		for i := range out {
			out[i] = new(big.Int).Add(base, big.NewInt(int64(r.Intn(3)-1)))
		}
	case 3: // one dominant
		for i := range out {
			out[i] = big.NewInt(int64(1 + r.Intn(1000)))
		}
		out[r.Intn(n)] = new(big.Int).Lsh(big.NewInt(int64(1+r.Intn(1000))), uint(20+r.Intn(35)))
	case 4: // around the quorum boundary: k of n equal shares with k/n near 2/3
		for i := range out {
			out[i] = big.NewInt(1_000_000)
		}
	case 5: // 10^18 scale (total stays below 2^63)
		for i := range out {
			out[i] = new(big.Int).Rand(r, new(big.Int).Div(new(big.Int).Lsh(big.NewInt(1), 62), big.NewInt(int64(n))))
		}
	default: // small, zeros allowed
		for i := range out {
			out[i] = big.NewInt(int64(r.Intn(6)))
		}
	}
	if allowHuge && r.Intn(12) == 0 { // beyond int64
		k := uint(63 + r.Intn(150))
		mx := 0
		for i := range out {
			if b := out[i].BitLen(); b > mx {
				mx = b
			}
		}
		if mx+int(k)+8 > 250 { // sdk math.Int is capped at 256 bits
			k = uint(250 - 8 - mx)
		}
		for i := range out {
			out[i] = new(big.Int).Lsh(out[i], k)
		}
	}
	return out
}

func genTransform(r *rand.Rand, next *int64) tcase {
	n := 1 + r.Intn(8)
	if r.Intn(15) == 0 {
		n = 21 + r.Intn(15) // beyond Go's single insertion-sort block
	}
	shares := genShares(r, n, true)
	tc := tcase{Chain: r.Intn(3)}
	if r.Intn(10) == 0 { // project to a near-miss spelling of the chain the accounts are on
		m := nearMiss(r, chainName(tc.Chain))
		tc.Ref = &m
	}
	pAcc := 0.5 + r.Float64()/2
	dups := r.Intn(4) == 0
	account := func(c int) rinfo {
		*next++
		ref := chainName(c)
		if r.Intn(8) == 0 { // registered under a spelling that only looks like the chain's id
			ref = nearMiss(r, ref)
			if tc.Ref != nil && r.Intn(2) == 0 {
				ref = *tc.Ref
			}
		}
		return rinfo{Type: genType(r, r.Intn(6) != 0), Ref: ref, Addr: *next}
	}
	for i := 0; i < n; i++ {
		v := rval{Val: i, Share: shares[i]}
		for c := 0; c < 3; c++ {
			if r.Float64() < pAcc {
				v.Infos = append(v.Infos, account(c))
				if dups && r.Intn(4) == 0 { // a second account on the same chain
					v.Infos = append(v.Infos, account(c))
				}
			}
		}
		r.Shuffle(len(v.Infos), func(x, y int) { v.Infos[x], v.Infos[y] = v.Infos[y], v.Infos[x] })
		tc.Vals = append(tc.Vals, v)
	}
	return tc
}

// ---------- part 2: histories on the real keepers ----------

type env struct {
	in      *helper.Fixture
	ctx     sdk.Context
	nvals   int
	names   []string        // the chain spellings of this history: 3 base ids, then (sometimes) near misses of them that are chains of their own
	chains  map[string]bool // supported chains (added)
	scID    uint64
	chainID uint64
	seen    map[string]map[uint64]bool // queue -> message ids already reported
	known   map[uint64]rsnapObs        // last observation of every stored snapshot
	raw     map[uint64][]byte          // every stored snapshot as first seen: all fields but Chains, protobuf bytes
	lastID  uint64
	lastCtr uint64 // the snapshot id counter as last read from the raw store
	tb      *stab
}

type rsnapObs struct {
	ID     uint64
	Vals   []rval
	Total  *big.Int
	Chains []string
}

// counter reads the snapshot id counter straight from the valset store (prefix "IDs", key
// "generated-ids-snapshot-id", 8 bytes big endian): (value, present).
func (e *env) counter() (uint64, bool) {
	cms, ok := e.in.Ctx.MultiStore().(interface {
		StoreKeysByName() map[string]storetypes.StoreKey
	})
	if !ok {
		return 0, false
	}
	key := cms.StoreKeysByName()[valsettypes.StoreKey]
	if key == nil {
		return 0, false
	}
	bz := e.ctx.KVStore(key).Get([]byte("IDs" + "generated-ids-" + "snapshot-id"))
	if len(bz) != 8 {
		return 0, false
	}
	var v uint64
	for _, b := range bz {
		v = v<<8 | uint64(b)
	}
	return v, true
}

func valIdx(a sdk.ValAddress) int { return int(a[18])<<8 | int(a[19]) }

func projInfos(a *addrReg, es []*valsettypes.ExternalChainInfo) []rinfo {
	var out []rinfo
	for _, e := range es {
		out = append(out, rinfo{Type: e.ChainType, Ref: e.ChainReferenceID, Addr: a.id(e.Address), Traits: e.Traits})
	}
	return out
}

func project(a *addrReg, sn *valsettypes.Snapshot) rsnapObs {
	o := rsnapObs{ID: sn.Id, Total: sn.TotalShares.BigInt()}
	for _, v := range sn.Validators {
		o.Vals = append(o.Vals, rval{Val: valIdx(v.Address), Share: v.ShareCount.BigInt(), Infos: projInfos(a, v.ExternalChainInfos)})
	}
	o.Chains = append(o.Chains, sn.Chains...)
	return o
}

func coqSnap(t *stab, o rsnapObs) string {
	return emit.Pair(emit.ZU(o.ID), coqVals(t, o.Vals), emit.Z(o.Total), t.ids(o.Chains))
}

func sameInfo(x, y rinfo) bool {
	if x.Type != y.Type || x.Ref != y.Ref || x.Addr != y.Addr || len(x.Traits) != len(y.Traits) {
		return false
	}
	for k := range x.Traits {
		if x.Traits[k] != y.Traits[k] {
			return false
		}
	}
	return true
}

func sameVals(x, y []rval) bool {
	if len(x) != len(y) {
		return false
	}
	for i := range x {
		if x[i].Val != y[i].Val || x[i].Share.Cmp(y[i].Share) != 0 || len(x[i].Infos) != len(y[i].Infos) {
			return false
		}
		for k := range x[i].Infos {
			if !sameInfo(x[i].Infos[k], y[i].Infos[k]) {
				return false
			}
		}
	}
	return true
}

func newEnv(t *testing.T) *env {
	// the integration fixture: real auth/bank/staking/slashing + all Paloma keepers with a codec that
	// knows the consensus and evm message types (InitFixture does not use its argument)
	in := helper.InitFixture(ginkgo.GinkgoT())
	ctx := in.Ctx.WithLogger(log.NewNopLogger())
	return &env{in: in, ctx: ctx, chains: map[string]bool{}, scID: 1, seen: map[string]map[uint64]bool{}, known: map[uint64]rsnapObs{}, raw: map[uint64][]byte{}, tb: newStab()}
}

var valCodec = authcodec.NewBech32Codec(chainparams.ValidatorAddressPrefix)

func (e *env) setValidator(i int, status stakingtypes.BondStatus, jailed bool, tokens *big.Int) error {
	op, err := valCodec.BytesToString(valAddr(i))
	if err != nil {
		return err
	}
	seed := make([]byte, 32)
	seed[0], seed[1] = byte(i), byte(i>>8)
	pk, err := cryptocodec.FromCmtPubKeyInterface(ed25519.GenPrivKeyFromSecret(seed).PubKey())
	if err != nil {
		return err
	}
	v, err := stakingtypes.NewValidator(op, pk, stakingtypes.Description{Moniker: fmt.Sprintf("v%d", i)})
	if err != nil {
		return err
	}
	v.Status = status
	v.Jailed = jailed
	v.Tokens = sdkmath.NewIntFromBigInt(tokens)
	v.DelegatorShares = sdkmath.LegacyNewDecFromBigInt(tokens)
	if err := e.in.StakingKeeper.SetValidator(e.ctx, v); err != nil {
		return err
	}
	if err := e.in.StakingKeeper.SetValidatorByConsAddr(e.ctx, v); err != nil {
		return err
	}
	// what relayer selection needs (so that valset messages really get enqueued): a signing
	// info for the uptime metric and a relayer fee on every chain
	cons, err := v.GetConsAddr()
	if err != nil {
		return err
	}
	if err := e.in.SlashingKeeper.SetValidatorSigningInfo(e.ctx, cons, slashingtypes.NewValidatorSigningInfo(cons, 0, 0, time.Unix(0, 0), false, 0)); err != nil {
		return err
	}
	fs := &treasurytypes.RelayerFeeSetting{ValAddress: valAddr(i).String()}
	for _, n := range e.names {
		fs.Fees = append(fs.Fees, treasurytypes.RelayerFeeSetting_FeeSetting{Multiplicator: sdkmath.LegacyMustNewDecFromStr("1.10"), ChainReferenceId: n})
	}
	return e.in.TreasuryKeeper.SetRelayerFee(e.ctx, valAddr(i), fs)
}

type sv struct {
	Val    int
	Bonded bool
	Jailed bool
	Tokens *big.Int
}

func (e *env) staking() []sv {
	var out []sv
	_ = e.in.StakingKeeper.IterateValidators(e.ctx, func(_ int64, v stakingtypes.ValidatorI) bool {
		bz, err := valCodec.StringToBytes(v.GetOperator())
		if err == nil {
			out = append(out, sv{valIdx(bz), v.IsBonded(), v.IsJailed(), v.GetTokens().BigInt()})
		}
		return false
	})
	return out
}

type chainObs struct {
	Ref    string
	Active bool
}

// the evm keeper's chain infos in store order
func (e *env) allChains() []chainObs {
	var out []chainObs
	cis, _ := e.in.EvmKeeper.GetAllChainInfos(e.ctx)
	for _, ci := range cis {
		out = append(out, chainObs{ci.GetChainReferenceID(), ci.IsActive()})
	}
	return out
}

func (e *env) activeChains() []string {
	var out []string
	for _, c := range e.allChains() {
		if c.Active {
			out = append(out, c.Ref)
		}
	}
	return out
}

func coqChains(t *stab, cs []chainObs) string {
	s := make([]string, len(cs))
	for k, c := range cs {
		s[k] = emit.Pair(t.id(c.Ref), emit.Bool(c.Active))
	}
	return emit.List(s)
}

// hasExactAccount: some account of the list carries exactly this reference id (Go string equality)
func hasExactAccount(infos []rinfo, ref string) bool {
	for _, i := range infos {
		if i.Ref == ref {
			return true
		}
	}
	return false
}

// expected eligible set computed independently of createNewSnapshot, from the real stores
func (e *env) expectedSnapshot(a *addrReg) ([]rval, *big.Int) {
	active := e.activeChains()
	total := new(big.Int)
	var out []rval
	for _, s := range e.staking() {
		if !s.Bonded || s.Jailed {
			continue
		}
		es, _ := e.in.ValsetKeeper.GetValidatorChainInfos(e.ctx, valAddr(s.Val))
		infos := projInfos(a, es)
		ok := true
		for _, c := range active {
			ok = ok && hasExactAccount(infos, c)
		}
		if !ok {
			continue
		}
		out = append(out, rval{Val: s.Val, Share: s.Tokens, Infos: infos})
		total.Add(total, s.Tokens)
	}
	return out, total
}

// membersHaveAccounts is the clause "every snapshot member has an account on every active chain",
// checked directly: for each member and each active chain some account's reference id EQUALS the
// chain's reference id.
func (e *env) membersHaveAccounts(run *emit.Run, what string, o rsnapObs, replay any) {
	for _, c := range e.activeChains() {
		for _, v := range o.Vals {
			if !hasExactAccount(v.Infos, c) {
				var has []string
				for _, i := range v.Infos {
					has = append(has, fmt.Sprintf("%q", i.Ref))
				}
				run.Violate("C10:member-without-account", fmt.Sprintf("%s lists validator v%d (share %s) which has no account on active chain %q (its accounts are on %s)",
					what, v.Val, v.Share, c, strings.Join(has, ", ")), replay)
				return
			}
		}
	}
}

type sentMsg struct {
	Chain  string
	ID     uint64
	Addrs  []int64
	Powers []uint64
	Kind   string // "update": UpdateValset message; "deploy": the valset in the constructor input of a compass deployment
}

// the compass ABI of the tree under test (x/evm/keeper/testdata/sample-abi.json), for deployments
var (
	compassABIJSON string
	compassABI     abi.ABI
	compassOK      bool
)

func init() {
	repo := os.Getenv("VERIF_REPO")
	if repo == "" {
		repo = "/repo"
	}
	b, err := os.ReadFile(filepath.Join(repo, "x/evm/keeper/testdata/sample-abi.json"))
	if err != nil {
		return
	}
	parsed, err := abi.JSON(strings.NewReader(string(b)))
	if err != nil {
		return
	}
	compassABIJSON, compassABI, compassOK = string(b), parsed, true
}

// decodeDeployValset reads the valset out of an UploadSmartContract's constructor input
// (bytes32 compass id, uint256, uint256, (address[] validators, uint256[] powers, uint256 valset_id), address)
func decodeDeployValset(input []byte) (id uint64, addrs []string, powers []uint64, ok bool) {
	if !compassOK {
		return
	}
	vals, err := compassABI.Constructor.Inputs.Unpack(input)
	if err != nil || len(vals) < 4 {
		return
	}
	v := reflect.ValueOf(vals[3])
	if v.Kind() != reflect.Struct {
		return
	}
	fv, fp, fi := v.FieldByName("Validators"), v.FieldByName("Powers"), v.FieldByName("ValsetId")
	if !fv.IsValid() || !fp.IsValid() || !fi.IsValid() {
		return
	}
	as, ok1 := fv.Interface().([]common.Address)
	ps, ok2 := fp.Interface().([]*big.Int)
	vid, ok3 := fi.Interface().(*big.Int)
	if !ok1 || !ok2 || !ok3 {
		return
	}
	for _, a := range as {
		addrs = append(addrs, a.Hex())
	}
	for _, p := range ps {
		if !p.IsUint64() {
			return 0, nil, nil, false
		}
		powers = append(powers, p.Uint64())
	}
	return vid.Uint64(), addrs, powers, true
}

// newly appeared UpdateValset messages in the turnstone queues of all supported chains
func (e *env) newSent(a *addrReg) []sentMsg {
	var out []sentMsg
	cs := make([]string, 0, len(e.chains))
	for c := range e.chains {
		cs = append(cs, c)
	}
	sort.Strings(cs)
	for _, c := range cs {
		q := consensustypes.Queue(evmtypes.ConsensusTurnstoneMessage, "evm", c)
		msgs, err := e.in.ConsensusKeeper.GetMessagesFromQueue(e.ctx, q, 0)
		if err != nil {
			continue
		}
		if e.seen[q] == nil {
			e.seen[q] = map[uint64]bool{}
		}
		for _, m := range msgs {
			if e.seen[q][m.GetId()] {
				continue
			}
			e.seen[q][m.GetId()] = true
			cm, err := m.ConsensusMsg(e.in.Codec)
			if err != nil {
				continue
			}
			em, ok := cm.(*evmtypes.Message)
			if !ok {
				continue
			}
			if up := em.GetUploadSmartContract(); up != nil {
				id, addrs, powers, ok := decodeDeployValset(up.GetConstructorInput())
				if !ok {
					continue
				}
				s := sentMsg{Chain: c, ID: id, Powers: powers, Kind: "deploy"}
				for _, x := range addrs {
					s.Addrs = append(s.Addrs, a.id(x))
				}
				out = append(out, s)
				continue
			}
			uv := em.GetUpdateValset()
			if uv == nil || uv.Valset == nil {
				continue
			}
			s := sentMsg{Chain: c, ID: uv.Valset.ValsetID, Powers: uv.Valset.Powers, Kind: "update"}
			for _, x := range uv.Valset.Validators {
				s.Addrs = append(s.Addrs, a.id(x))
			}
			out = append(out, s)
		}
	}
	return out
}

func coqSent(t *stab, ms []sentMsg) string {
	s := make([]string, len(ms))
	for i, m := range ms {
		s[i] = emit.Pair(t.id(m.Chain), emit.ZU(m.ID), coqEntries(m.Addrs, m.Powers))
	}
	return emit.List(s)
}

// observe reads back current id + every stored snapshot, applies the history oracles and returns the
// Coq observation record.
func (e *env) observe(run *emit.Run, a *addrReg, hist *[]string, sent []sentMsg) string {
	replay := func() any { return map[string]any{"kind": "history", "ops": *hist} }
	// discover the highest stored id: ids are probed upwards from the last known one
	top := e.lastID
	for id := e.lastID + 1; id <= e.lastID+3; id++ {
		if sn, err := e.in.ValsetKeeper.FindSnapshotByID(e.ctx, id); err == nil && sn != nil {
			top = id
		}
	}
	if top > e.lastID+1 {
		run.Violate("C10:id-not-consecutive", fmt.Sprintf("snapshot id jumped from %d to %d", e.lastID, top), replay())
	}
	if sn, err := e.in.ValsetKeeper.FindSnapshotByID(e.ctx, 0); err == nil && sn != nil {
		run.Violate("C10:snapshot-under-id-0", "a snapshot is stored under id 0", replay())
	}
	cur, _ := e.in.ValsetKeeper.GetCurrentSnapshot(e.ctx)
	curID := uint64(0)
	if cur != nil {
		curID = cur.Id
	}
	// the id counter itself, read from the raw store after EVERY operation: never below a stored id,
	// never decreasing, never gone once issued
	ctr, present := e.counter()
	if top > 0 && (!present || ctr < top) {
		run.Violate("C10:counter-below-stored-id", fmt.Sprintf("snapshot id counter is %d (present=%v) but snapshot %d is stored: the next build re-issues a used id", ctr, present, top), replay())
	}
	if ctr < e.lastCtr {
		run.Violate("C10:counter-decreased", fmt.Sprintf("snapshot id counter went from %d to %d (present=%v)", e.lastCtr, ctr, present), replay())
	}
	e.lastCtr = ctr
	if curID != top {
		run.Violate("C10:current-not-max-id", fmt.Sprintf("current snapshot id %d, highest stored id %d", curID, top), replay())
	}
	var store []string
	for id := top; id >= 1; id-- {
		sn, err := e.in.ValsetKeeper.FindSnapshotByID(e.ctx, id)
		if err != nil || sn == nil {
			run.Violate("C10:stored-snapshot-lost", fmt.Sprintf("snapshot %d no longer found", id), replay())
			continue
		}
		o := project(a, sn)
		if o.ID != id {
			run.Violate("C10:stored-snapshot-mutated", fmt.Sprintf("snapshot under key %d carries id %d", id, o.ID), replay())
		}
		// every field of the stored record but Chains (height, creation time, validator state, pubkeys,
		// balances, traits, ...): byte-identical to what was stored first
		cp := *sn
		cp.Chains = nil
		if bz, err := cp.Marshal(); err == nil {
			if was, ok := e.raw[id]; ok && !bytes.Equal(was, bz) {
				run.Violate("C10:stored-snapshot-mutated", fmt.Sprintf("snapshot %d: a field other than Chains changed after it was stored", id), replay())
			} else if !ok {
				e.raw[id] = bz
			}
		}
		if old, ok := e.known[id]; ok {
			okc := len(o.Chains) >= len(old.Chains)
			for k := range old.Chains {
				okc = okc && k < len(o.Chains) && o.Chains[k] == old.Chains[k]
			}
			if !sameVals(old.Vals, o.Vals) || old.Total.Cmp(o.Total) != 0 || !okc {
				run.Violate("C10:stored-snapshot-mutated", fmt.Sprintf("snapshot %d changed other than by added chains", id), replay())
			}
		} else {
			// just stored (nothing happened since the build): its members against the chains active now
			e.membersHaveAccounts(run, fmt.Sprintf("stored snapshot %d", id), o, replay())
		}
		e.known[id] = o
		store = append(store, coqSnap(e.tb, o))
	}
	e.lastID = top
	// sent messages: quorum, floor powers, one entry per validator
	for _, m := range sent {
		sn, ok := e.known[m.ID]
		if !ok {
			run.Violate("C10:sent-unknown-snapshot", fmt.Sprintf("valset %d sent to %q is no stored snapshot", m.ID, m.Chain), replay())
			continue
		}
		sum := new(big.Int)
		for _, p := range m.Powers {
			sum.Add(sum, new(big.Int).SetUint64(p))
		}
		if sum.Cmp(threshold) < 0 {
			run.Violate("C10:sent-without-quorum", fmt.Sprintf("valset %d sent (%s) to %q with powers summing to %s < %s", m.ID, m.Kind, m.Chain, sum, threshold), replay())
		}
		if sum.Cmp(threshold) == 0 && !gapSentReported {
			gapSentReported = true
			run.Violate("C10:quorum-floor-gap", fmt.Sprintf("valset %d really enqueued (%s) for %q with powers %v summing to exactly %s = thresholdForConsensus: 3*sum = 2^33-2 < 2*2^32", m.ID, m.Kind, m.Chain, m.Powers, sum), replay())
		}
		if sum.Cmp(two32) > 0 {
			run.Violate("C10:power-sum-above-2p32", fmt.Sprintf("valset %d sent to %q with powers summing to %s > 2^32", m.ID, m.Chain, sum), replay())
		}
		total := new(big.Int)
		share := map[int64]*big.Int{}
		n := 0
		for _, v := range sn.Vals {
			total.Add(total, v.Share)
			has := false
			for _, i := range v.Infos {
				if isEvm(i.Type) && i.Ref == m.Chain {
					share[i.Addr] = v.Share
					has = true
				}
			}
			if has {
				n++
			}
		}
		if n != len(m.Addrs) {
			run.Violate("C10:validator-entries", fmt.Sprintf("valset %d sent to %q: %d validators with an account, %d entries", m.ID, m.Chain, n, len(m.Addrs)), replay())
		}
		for k, ad := range m.Addrs {
			sh, ok := share[ad]
			if !ok {
				run.Violate("C10:entry-without-account", fmt.Sprintf("valset %d sent to %q lists an address that is no account there", m.ID, m.Chain), replay())
				continue
			}
			if want := floorPower(sh, total); want.Cmp(new(big.Int).SetUint64(m.Powers[k])) != 0 {
				run.Violate("C10:power-not-floor", fmt.Sprintf("sent valset %d: share %s of %s has power %d, floor is %s", m.ID, sh, total, m.Powers[k], want), replay())
			}
		}
		run.Count("sent", fmt.Sprintf("%s entries=%d", m.Kind, len(m.Addrs)))
	}
	return fmt.Sprintf("{| C10.o_current := %s; C10.o_store := %s; C10.o_sent := %s |}", emit.ZU(curID), emit.List(store), coqSent(e.tb, sent))
}

func genTokens(r *rand.Rand, mode int) *big.Int {
	switch mode {
	case 0:
		return big.NewInt(1_000_000)
	case 1:
		return big.NewInt(int64(1_000_000 + r.Intn(3)))
	case 2:
		return new(big.Int).Mul(big.NewInt(int64(1+r.Intn(1000))), new(big.Int).Exp(big.NewInt(10), big.NewInt(int64(6+r.Intn(10))), nil))
	case 3:
		// bonded validators have positive tokens (staking drops a validator without power from
		// the bonded set); a total of zero makes isNewSnapshotWorthy divide by zero (C09's domain)
		return big.NewInt(int64(1 + r.Intn(5)))
	default:
		a, _ := nearIntegerPair(r)
		return a
	}
}

// hist is one history being driven and recorded
type hist struct {
	t                                 *testing.T
	run                               *emit.Run
	a                                 *addrReg
	e                                 *env
	log                               []string // human-readable replay
	steps                             []string
	next                              *int64
	stored, rejected, sentN, nearMiss int
}

func (h *hist) replay() any { return map[string]any{"kind": "history", "ops": h.log} }

func (h *hist) record(hop string, sent []sentMsg) {
	obs := h.e.observe(h.run, h.a, &h.log, sent)
	h.steps = append(h.steps, emit.Pair(hop, obs))
	h.sentN += len(sent)
}

type stakeSpec struct {
	Status stakingtypes.BondStatus
	Jailed bool
	Tokens *big.Int
}

func (h *hist) stakingSet(set map[int]stakeSpec) {
	e := h.e
	for i := 0; i < 1<<16 && len(set) > 0; i++ {
		v, ok := set[i]
		if !ok {
			continue
		}
		delete(set, i)
		if err := e.setValidator(i, v.Status, v.Jailed, v.Tokens); err != nil {
			h.t.Fatalf("setValidator: %v", err)
		}
	}
	svs := e.staking()
	s := make([]string, len(svs))
	for k, v := range svs {
		s[k] = emit.Pair(emit.ZI(int64(v.Val)), emit.Bool(v.Bonded), emit.Bool(v.Jailed), emit.Z(v.Tokens))
	}
	h.log = append(h.log, fmt.Sprintf("staking %v", s))
	h.run.Count("op", "staking")
	h.record("C10.HStaking "+emit.List(s), nil)
}

func fmtInfos(infos []rinfo) string {
	out := make([]string, len(infos))
	for k, i := range infos {
		out[k] = fmt.Sprintf("{type %q ref %q addr #%d traits %q}", i.Type, i.Ref, i.Addr, i.Traits)
	}
	return "[" + strings.Join(out, " ") + "]"
}

// recordStaking records the staking state as it is now (after an operation that changed it through
// the keepers) as a staking step of the history.
func (h *hist) recordStaking(tag string) {
	svs := h.e.staking()
	s := make([]string, len(svs))
	for k, v := range svs {
		s[k] = emit.Pair(emit.ZI(int64(v.Val)), emit.Bool(v.Bonded), emit.Bool(v.Jailed), emit.Z(v.Tokens))
	}
	h.log = append(h.log, fmt.Sprintf("%s: staking now %v", tag, s))
	h.record("C10.HStaking "+emit.List(s), h.e.newSent(h.a))
}

// jail jails validator i THROUGH the valset keeper (Keeper.Jail: slashing + staking jail, jail log,
// jail reason), as a missed keep-alive or a failed attestation would; for the snapshot model this is a
// staking change.
func (h *hist) jail(i int) bool {
	var err error
	func() {
		defer func() {
			if p := recover(); p != nil {
				err = fmt.Errorf("panic: %v", p)
			}
		}()
		err = h.e.in.ValsetKeeper.Jail(h.e.ctx, valAddr(i), "verif")
	}()
	h.run.Count("op", fmt.Sprintf("keeper-jail ok=%v", err == nil))
	h.recordStaking(fmt.Sprintf("valset.Jail v%d -> %v", i, err == nil))
	return err == nil
}

// endBlock runs the valset module's end blocker at a height where it only sweeps for validators
// without a keep-alive (height > 50, multiple of 10, no multiple of 50: no snapshot build inside).
func (h *hist) endBlock(height int64) {
	e := h.e
	func() {
		defer func() { _ = recover() }()
		_ = valsetmodule.NewAppModule(e.in.Codec, e.in.ValsetKeeper, nil, nil).EndBlock(e.ctx.WithBlockHeight(height))
	}()
	h.run.Count("op", "valset-endblock")
	h.recordStaking(fmt.Sprintf("valset EndBlock height %d", height))
}

func (h *hist) register(i int, infos []rinfo) bool {
	var ext []*valsettypes.ExternalChainInfo
	for _, in := range infos {
		ext = append(ext, mkExt(h.a, in))
	}
	err := h.e.in.ValsetKeeper.AddExternalChainInfo(h.e.ctx, valAddr(i), ext)
	if err != nil {
		h.rejected++
	}
	h.log = append(h.log, fmt.Sprintf("register v%d %s -> %v", i, fmtInfos(infos), err == nil))
	h.run.Count("op", fmt.Sprintf("register ok=%v", err == nil))
	h.record(fmt.Sprintf("C10.HRegister %s %s %s", emit.ZI(int64(i)), coqInfos(h.e.tb, infos), emit.Bool(err == nil)), nil)
	return err == nil
}

func (h *hist) recordChains() {
	h.run.Count("op", "chains")
	h.record("C10.HChains "+coqChains(h.e.tb, h.e.allChains()), h.e.newSent(h.a))
}

func (h *hist) addChain(name string) {
	e := h.e
	if !e.chains[name] {
		e.chainID++
		if err := e.in.EvmKeeper.AddSupportForNewChain(e.ctx, name, 100+e.chainID, 1, "0xbeef", big.NewInt(1)); err == nil {
			e.chains[name] = true
		}
		h.log = append(h.log, fmt.Sprintf("add %q", name))
	}
	h.recordChains()
}

func (h *hist) activateChain(name string) {
	e := h.e
	e.scID++
	_ = e.in.EvmKeeper.ActivateChainReferenceID(e.ctx, name, &evmtypes.SmartContract{Id: e.scID}, fmt.Sprintf("0xc0%02d", e.scID), []byte(fmt.Sprintf("uid-%d", e.scID)))
	h.log = append(h.log, fmt.Sprintf("activate %q", name))
	h.recordChains()
}

// feeMgr sets the chain's fee manager address (a compass deployment needs one); no valset state changes
func (h *hist) feeMgr(name string) {
	_ = h.e.in.EvmKeeper.SetFeeManagerAddress(h.e.ctx, name, "0x00000000000000000000000000000000000000fe")
	h.log = append(h.log, fmt.Sprintf("fee-manager %q", name))
	h.recordChains()
}

// compass saves a compass contract and makes it the latest one: the keeper tries to deploy it to every
// chain without a deployment (the valset goes into the constructor input, behind the quorum guard)
func (h *hist) compass() {
	if !compassOK {
		return
	}
	e := h.e
	func() {
		defer func() { _ = recover() }()
		sc, err := e.in.EvmKeeper.SaveNewSmartContract(e.ctx, compassABIJSON, []byte{0x60, 0x80, 0x60, 0x40})
		if err == nil {
			_ = e.in.EvmKeeper.SetAsCompassContract(e.ctx, sc)
		}
	}()
	h.log = append(h.log, "new compass contract")
	h.run.Count("op", "compass")
	h.recordChains()
}

func (h *hist) removeChain(name string) {
	e := h.e
	_ = e.in.EvmKeeper.RemoveSupportForChain(e.ctx, &evmtypes.RemoveChainProposal{ChainReferenceID: name})
	delete(e.chains, name)
	h.log = append(h.log, fmt.Sprintf("remove %q", name))
	h.recordChains()
}

func (h *hist) build() {
	e, run, a := h.e, h.run, h.a
	created, err := e.in.ValsetKeeper.VerifCreateNewSnapshot(e.ctx)
	if err != nil {
		h.t.Fatalf("createNewSnapshot: %v", err)
	}
	co := project(a, created)
	// oracle: faithful to the staking / registration / chain state
	want, wtotal := e.expectedSnapshot(a)
	if !sameVals(want, co.Vals) || wtotal.Cmp(co.Total) != 0 {
		run.Violate("C10:snapshot-unfaithful", fmt.Sprintf("createNewSnapshot lists %d validators / total %s, expected %d / %s", len(co.Vals), co.Total, len(want), wtotal), h.replay())
	}
	e.membersHaveAccounts(run, "createNewSnapshot", co, h.replay())
	before := e.lastID
	e.in.MetrixKeeper.UpdateUptime(e.ctx)
	var sn *valsettypes.Snapshot
	perr := func() (p any) {
		defer func() { p = recover() }()
		sn, err = e.in.ValsetKeeper.TriggerSnapshotBuild(e.ctx)
		return nil
	}()
	if perr != nil {
		run.Violate("C10:build-panics", fmt.Sprintf("TriggerSnapshotBuild panics: %v", perr), h.replay())
	}
	did := err == nil && sn != nil
	if perr != nil { // whatever was written before the panic stays (no cache context here)
		if x, e2 := e.in.ValsetKeeper.FindSnapshotByID(e.ctx, before+1); e2 == nil && x != nil {
			did = true
		}
	}
	if did {
		h.stored++
	}
	h.log = append(h.log, fmt.Sprintf("build -> stored=%v", did))
	run.Count("op", fmt.Sprintf("build stored=%v", did))
	h.record(fmt.Sprintf("C10.HBuild %s %s", coqSnap(e.tb, co), emit.Bool(did)), e.newSent(a))
	if did && e.lastID != before+1 {
		run.Violate("C10:id-not-increasing", fmt.Sprintf("build stored a snapshot but last id went %d -> %d", before, e.lastID), h.replay())
	}
}

func (h *hist) setOnChain(id uint64, name string) {
	err := h.e.in.ValsetKeeper.SetSnapshotOnChain(h.e.ctx, id, name)
	if err != nil {
		h.rejected++
	}
	h.log = append(h.log, fmt.Sprintf("set-on-chain %d %q -> %v", id, name, err == nil))
	h.run.Count("op", fmt.Sprintf("set-on-chain ok=%v", err == nil))
	h.record(fmt.Sprintf("C10.HSetOnChain %s %s %s", emit.ZU(id), h.e.tb.id(name), emit.Bool(err == nil)), nil)
}

func (h *hist) jit(name string) {
	e := h.e
	func() {
		defer func() {
			if p := recover(); p != nil {
				h.run.Violate("C10:jit-panics", fmt.Sprintf("justInTimeValsetUpdate panics: %v", p), h.replay())
			}
		}()
		_ = e.in.EvmKeeper.PreJobExecution(e.ctx, &schedulertypes.Job{ID: "j", Routing: schedulertypes.Routing{ChainType: "evm", ChainReferenceID: name}})
	}()
	h.log = append(h.log, fmt.Sprintf("jit %q", name))
	h.run.Count("op", "jit")
	h.record(fmt.Sprintf("C10.HJit %s", e.tb.id(name)), e.newSent(h.a))
}

// missing calls the real evm Keeper.MissingChains with the given ids: direct oracle (exactly the
// active chains whose id is not, as a Go string, among the input, in store order) + a
// correspondence case of its own.
func (h *hist) missing(input []string) {
	e := h.e
	got, err := e.in.EvmKeeper.MissingChains(e.ctx, input)
	if err != nil {
		return
	}
	all := e.allChains()
	var want []string
	for _, c := range all {
		if !c.Active {
			continue
		}
		f := false
		for _, i := range input {
			f = f || i == c.Ref
		}
		if !f {
			want = append(want, c.Ref)
		}
	}
	same := len(got) == len(want)
	for k := range want {
		same = same && got[k] == want[k]
	}
	if !same {
		h.run.Violate("C10:missing-chains-inexact", fmt.Sprintf("MissingChains(%q) = %q, but the active chains whose reference id is not among the input are %q", input, got, want),
			map[string]any{"kind": "missing-chains", "input": input, "chains": all, "ops": h.log})
	}
	tb := newStab()
	h.run.Count("missing", fmt.Sprintf("reported=%d", min(len(got), 3)))
	term := fmt.Sprintf("%s %s %s", tb.ids(input), coqChains(tb, all), tb.ids(got)) // fills the table
	h.run.Case("C10.CMissing "+tb.coq()+" "+term, len(got) > 0 && len(input) > 0,
		map[string]any{"missing": input, "got": got})
}

func (h *hist) finish(nontrivial bool) {
	h.run.Count("history", fmt.Sprintf("stored=%d", min(h.stored, 5)))
	h.run.Count("history-near-miss-ids", fmt.Sprintf("%d", min(h.nearMiss, 5)))
	h.run.Case("C10.CHist "+h.e.tb.coq()+" "+emit.List(h.steps), nontrivial, map[string]any{"history": h.log, "sent": h.sentN})
}

func newHist(t *testing.T, run *emit.Run, a *addrReg, next *int64, names []string) *hist {
	e := newEnv(t)
	e.names = names
	return &hist{t: t, run: run, a: a, e: e, next: next}
}

// directed histories, run first on every check (no randomness)

func (h *hist) acct(typ, ref string) rinfo {
	*h.next++
	return rinfo{Type: typ, Ref: ref, Addr: *h.next}
}

func equalStake(n int, tokens int64) map[int]stakeSpec {
	set := map[int]stakeSpec{}
	for i := 0; i < n; i++ {
		set[i] = stakeSpec{Status: stakingtypes.Bonded, Tokens: big.NewInt(tokens)}
	}
	return set
}

// quorumGapHistory: the known finding C10:quorum-floor-gap at system level.  Three validators with
// equal stake are members of the snapshot; the third one's account for chain-1 is not an evm account
// (MissingChains looks at reference ids only), so the valset projected to chain-1 holds two entries
// of floor(2^32/3) = 1431655765: the sum is exactly thresholdForConsensus = 2863311530, the gate
// passes, and the UpdateValset message is really enqueued although the two validators hold
// 2/3 - 2/(3*2^32) of the power scale (3*sum = 2^33-2 < 2*2^32).
func quorumGapHistory(t *testing.T, run *emit.Run, a *addrReg, next *int64) {
	n0, n1 := chainName(0), chainName(1)
	h := newHist(t, run, a, next, []string{n0, n1})
	h.e.nvals = 3
	h.addChain(n0)
	h.activateChain(n0)
	h.addChain(n1)
	h.activateChain(n1)
	h.stakingSet(equalStake(3, 1_000_000))
	h.register(0, []rinfo{h.acct("evm", n0), h.acct("evm", n1)})
	h.register(1, []rinfo{h.acct("evm", n0), h.acct("evm", n1)})
	h.register(2, []rinfo{h.acct("evm", n0), h.acct("solana", n1)})
	h.build()
	run.Count("directed", fmt.Sprintf("quorum-gap sent=%d", h.sentN))
	h.finish(true)
}

// nearMissHistory: a validator registered under a case variant (and others under other near misses)
// of the only active chain's id must stay out of the snapshot; a chain whose id is a case variant
// of another chain's id is a chain of its own.
func nearMissHistory(t *testing.T, run *emit.Run, a *addrReg, next *int64) {
	n0 := "eth-main"
	variants := []string{"Eth-Main", "ETH-MAIN", "eth-main ", " eth-main", "eth-mai", "eth-main1", "\u0435th-main", "eth\u2010main"}
	h := newHist(t, run, a, next, []string{n0, "Eth-Main"})
	h.e.nvals = 2 + len(variants)
	h.addChain(n0)
	h.activateChain(n0)
	h.stakingSet(equalStake(h.e.nvals, 5_000_000))
	h.register(0, []rinfo{h.acct("evm", n0)})
	h.register(1, []rinfo{h.acct("EVM", n0)})
	for k, v := range variants {
		h.register(2+k, []rinfo{h.acct("evm", v)})
		h.missing([]string{v})
	}
	h.build() // members: v0, v1
	h.addChain("Eth-Main")
	h.activateChain("Eth-Main") // now v2 has an account on "Eth-Main" but not on "eth-main", v0/v1 the other way round
	h.missing([]string{n0})
	h.missing([]string{"Eth-Main"})
	h.build() // nobody
	h.register(0, []rinfo{h.acct("evm", n0), h.acct("evm", "Eth-Main")})
	h.build() // v0
	run.Count("directed", fmt.Sprintf("near-miss stored=%d", h.stored))
	h.finish(true)
}

// jitGateHistory: the just-in-time sender must not send a valset without quorum.  Snapshot 1 (three
// equal validators) is live on chain-0; two of them then re-register their chain-0 account under a
// chain type that is not evm (they still "support" the chain: MissingChains reads reference ids
// only); snapshot 2 is stored, the keep-warm rule skips publishing it, and the job-triggered update
// finds a newer current snapshot whose valset for chain-0 holds one third of the power.
func jitGateHistory(t *testing.T, run *emit.Run, a *addrReg, next *int64) {
	n0 := chainName(0)
	h := newHist(t, run, a, next, []string{n0})
	h.e.nvals = 3
	h.addChain(n0)
	h.activateChain(n0)
	h.stakingSet(equalStake(3, 2_000_000))
	acc := []rinfo{h.acct("evm", n0), h.acct("evm", n0), h.acct("evm", n0)}
	for i := range acc {
		h.register(i, []rinfo{acc[i]})
	}
	h.build() // snapshot 1, sent to chain-0 with three entries
	h.setOnChain(1, n0)
	for i := 1; i < 3; i++ {
		b := acc[i]
		b.Type = "solana"
		h.register(i, []rinfo{b})
	}
	h.build() // snapshot 2 stored (account keys changed), not published (keep-warm)
	before := h.sentN
	h.jit(n0) // valset for chain-0: one entry, power floor(2^32/3) < threshold: nothing may be sent
	run.Count("directed", fmt.Sprintf("jit-gate stored=%d sent-by-jit=%d", h.stored, h.sentN-before))
	h.finish(true)
}

// deployGateHistory: the valset inside a compass deployment.  chain-0 is added but not active, so all
// three equal validators are members although only v0 has an account there: the deployment must be
// refused (one third of the power).  After v1 registered an account the two of three reach exactly
// thresholdForConsensus and the deployment message is enqueued (the quorum-floor-gap once more, on
// the deployment path: three equal validators, one without an account on the chain).
func deployGateHistory(t *testing.T, run *emit.Run, a *addrReg, next *int64) {
	n0 := chainName(0)
	h := newHist(t, run, a, next, []string{n0})
	h.e.nvals = 3
	h.addChain(n0)
	h.feeMgr(n0)
	h.stakingSet(equalStake(3, 3_000_000))
	h.register(0, []rinfo{h.acct("evm", n0)})
	h.build()   // snapshot 1: v0, v1, v2 (no active chain)
	h.compass() // valset for chain-0: v0 alone: nothing may be deployed
	refused := h.sentN
	h.register(1, []rinfo{h.acct("evm", n0)})
	h.build() // snapshot 2; the deployment is retried: powers [1431655765 1431655765]
	run.Count("directed", fmt.Sprintf("deploy-gate sent-below-quorum=%d sent-after=%d", refused, h.sentN-refused))
	h.finish(true)
}

// keeperJailHistory: validators jailed through the valset keeper (not merely marked in staking) and by
// the end blocker's liveness sweep; whatever Keeper.Jail writes or prunes, the snapshot id counter and
// the stored snapshots must survive: ids keep increasing, the current snapshot stays the highest id.
func keeperJailHistory(t *testing.T, run *emit.Run, a *addrReg, next *int64) {
	n0 := chainName(0)
	h := newHist(t, run, a, next, []string{n0})
	h.e.nvals = 6
	h.addChain(n0)
	h.activateChain(n0)
	h.stakingSet(equalStake(6, 4_000_000))
	for i := 0; i < 6; i++ {
		h.register(i, []rinfo{h.acct("evm", n0)})
	}
	h.build() // snapshot 1
	ok1 := h.jail(5)
	h.build() // snapshot 2 (one member less)
	ok2 := h.jail(4)
	h.build()      // snapshot 3
	h.endBlock(60) // nobody sent a keep-alive: the sweep jails whom it may
	h.build()      // snapshot 4
	h.setOnChain(1, n0)
	run.Count("directed", fmt.Sprintf("keeper-jail ok=%v,%v stored=%d", ok1, ok2, h.stored))
	h.finish(true)
}

// worthyBoundaryHistory walks isNewSnapshotWorthy's branches on the real keeper: the 1 % float test
// one raw decimal unit below and exactly at the boundary, a flipped ranking, traits added /
// permuted / replaced, a re-spelt chain type, accounts added and re-ordered.  Whether each build is
// stored is decided by the model in Coq (Corr.C10.pre_ok); nothing is expected here.
func worthyBoundaryHistory(t *testing.T, run *emit.Run, a *addrReg, next *int64) {
	n0 := chainName(0)
	h := newHist(t, run, a, next, []string{n0})
	h.e.nvals = 2
	big17 := func(x int64, plus int64) *big.Int {
		v := new(big.Int).Mul(big.NewInt(x), new(big.Int).Exp(big.NewInt(10), big.NewInt(16), nil))
		return v.Add(v, big.NewInt(plus))
	}
	stake := func(x0, p0, x1, p1 int64) {
		h.stakingSet(map[int]stakeSpec{0: {Status: stakingtypes.Bonded, Tokens: big17(x0, p0)}, 1: {Status: stakingtypes.Bonded, Tokens: big17(x1, p1)}})
	}
	h.addChain(n0)
	h.activateChain(n0)
	stake(40, 0, 60, 0)
	a0, a1 := h.acct("evm", n0), h.acct("evm", n0)
	a1.Traits = []string{"mev"}
	h.register(0, []rinfo{a0})
	h.register(1, []rinfo{a1})
	h.build()            // first: stored
	stake(41, -1, 59, 1) // fractions move by 10^16-1 raw units
	h.build()            // not stored
	stake(41, 0, 59, 0)  // by exactly 10^16
	h.build()            // stored
	with := func(i rinfo, traits ...string) rinfo { i.Traits = traits; return i }
	h.register(1, []rinfo{with(a1, "mev", "fast")})
	h.build() // stored: number of traits
	h.register(1, []rinfo{with(a1, "fast", "mev")})
	h.build() // not stored: same set
	h.register(1, []rinfo{with(a1, "fast", "fast")})
	h.build() // stored: "mev" is gone
	b0 := a0
	b0.Type = "EVM"
	h.register(0, []rinfo{b0})
	h.build() // stored: the key spells the type
	c0 := h.acct("evm", "chain-9")
	h.register(0, []rinfo{b0, c0})
	h.build() // stored: one more account
	h.register(0, []rinfo{c0, b0})
	h.build() // not stored: same keys
	h.register(0, []rinfo{b0, b0})
	h.build() // stored: same length, but the key of c0 is gone
	stake(59, 0, 41, 0)
	h.build() // stored: ranking flipped
	stake(50, 0, 50, 0)
	h.build() // stored (9 %)
	stake(50, 1, 50, -1)
	h.build() // stored: ranking among formerly equal shares
	run.Count("directed", fmt.Sprintf("worthy-boundary stored=%d", h.stored))
	h.finish(true)
}

func doHistory(t *testing.T, run *emit.Run, a *addrReg, r *rand.Rand, next *int64, nops int) {
	names := []string{chainName(0), chainName(1), chainName(2)}
	if r.Intn(4) == 0 { // a chain of its own whose id only looks like another chain's id
		names = append(names, nearMiss(r, names[r.Intn(3)]))
	}
	h := newHist(t, run, a, next, names)
	e := h.e
	e.nvals = 2 + r.Intn(5)
	tokMode := r.Intn(5)
	traitPool := []string{"mev", "fast", "MEV", "archive"}
	stakingOp := func(all bool) {
		set := map[int]stakeSpec{}
		for i := 0; i < e.nvals; i++ {
			if !all && r.Intn(3) != 0 {
				continue
			}
			st := stakingtypes.Bonded
			if x := r.Intn(10); x == 0 {
				st = stakingtypes.Unbonding
			} else if x == 1 {
				st = stakingtypes.Unbonded
			}
			set[i] = stakeSpec{Status: st, Jailed: r.Intn(8) == 0, Tokens: genTokens(r, tokMode)}
		}
		h.stakingSet(set)
	}
	// spell: how a validator writes the reference id of chain slot c into its registration
	spell := func(c int, pMiss int) string {
		if pMiss > 0 && r.Intn(pMiss) == 0 {
			h.nearMiss++
			if len(names) > 3 && r.Intn(2) == 0 {
				return names[3]
			}
			return nearMiss(r, names[c])
		}
		return names[c]
	}
	registerOp := func(i int, full bool) {
		var infos []rinfo
		pMiss := 6
		if full {
			pMiss = 14
		}
		for c := 0; c < len(names); c++ {
			if c >= 3 && r.Intn(2) == 0 {
				continue
			}
			if full || r.Intn(4) != 0 {
				*next++
				ad := *next
				if !full && r.Intn(12) == 0 && *next > 3 { // hostile: somebody else's address (collision)
					ad = 1 + r.Int63n(*next-1)
				}
				in := rinfo{Type: genType(r, r.Intn(10) != 0), Ref: spell(c, pMiss), Addr: ad}
				if r.Intn(5) == 0 {
					in.Traits = append(in.Traits, traitPool[r.Intn(len(traitPool))])
					if r.Intn(3) == 0 {
						in.Traits = append(in.Traits, traitPool[r.Intn(len(traitPool))])
					}
				}
				infos = append(infos, in)
				if !full && r.Intn(8) == 0 { // second account on the same chain (sometimes under a near-miss id)
					*next++
					infos = append(infos, rinfo{Type: "evm", Ref: spell(c, 3), Addr: *next})
				}
			}
		}
		h.register(i, infos)
	}
	// reRegisterOp: the validator's registered accounts again, slightly changed (what
	// isNewSnapshotWorthy's last loop looks at): traits, spelling of the type, order, one dropped / doubled
	reRegisterOp := func(i int) {
		es, _ := e.in.ValsetKeeper.GetValidatorChainInfos(e.ctx, valAddr(i))
		infos := projInfos(a, es)
		if len(infos) == 0 {
			registerOp(i, true)
			return
		}
		k := r.Intn(len(infos))
		switch r.Intn(7) {
		case 0:
			infos[k].Traits = append(append([]string{}, infos[k].Traits...), traitPool[r.Intn(len(traitPool))])
		case 1:
			if n := len(infos[k].Traits); n > 0 {
				infos[k].Traits = append([]string{}, infos[k].Traits[:n-1]...)
			} else {
				infos[k].Traits = []string{"mev"}
			}
		case 2:
			infos[k].Type = genType(r, isEvm(infos[k].Type))
		case 3:
			r.Shuffle(len(infos), func(x, y int) { infos[x], infos[y] = infos[y], infos[x] })
		case 4:
			infos = append(infos[:k], infos[k+1:]...)
		case 5:
			infos = append(infos, infos[k])
		default: // unchanged
		}
		h.register(i, infos)
	}
	// nudgeOp: one bonded validator's stake moves by a fraction of a percent up to a few percent
	nudgeOp := func() {
		svs := e.staking()
		if len(svs) == 0 {
			return
		}
		v := svs[r.Intn(len(svs))]
		if !v.Bonded || v.Tokens.Sign() <= 0 {
			stakingOp(false)
			return
		}
		d := new(big.Int).Mul(v.Tokens, big.NewInt(int64(r.Intn(60))))
		d.Quo(d, big.NewInt(1000))
		d.Add(d, big.NewInt(int64(r.Intn(3)-1)))
		nt := new(big.Int).Add(v.Tokens, d)
		if r.Intn(2) == 0 {
			nt = new(big.Int).Sub(v.Tokens, d)
		}
		if nt.Sign() <= 0 {
			nt = big.NewInt(1)
		}
		h.stakingSet(map[int]stakeSpec{v.Val: {Status: stakingtypes.Bonded, Jailed: v.Jailed, Tokens: nt}})
	}
	deploys := r.Intn(3) == 0 // this history has a compass contract to deploy
	chainOp := func(c int, kind int) {
		switch {
		case !e.chains[names[c]]:
			h.addChain(names[c])
			if deploys && r.Intn(4) != 0 {
				h.feeMgr(names[c])
			}
		case kind == 0:
			h.activateChain(names[c])
		default:
			if r.Intn(3) == 0 {
				h.removeChain(names[c])
			} else {
				h.recordChains()
			}
		}
	}
	anyName := func() string {
		if r.Intn(8) == 0 {
			return nearMiss(r, names[r.Intn(len(names))])
		}
		return names[r.Intn(len(names))]
	}
	onChainOp := func() {
		id := uint64(0)
		if e.lastID > 0 && r.Intn(6) != 0 {
			id = 1 + uint64(r.Int63n(int64(e.lastID)))
		} else {
			id = e.lastID + uint64(r.Intn(3)) // 0 when nothing stored, or an id not issued yet
			if r.Intn(2) == 0 {
				id = e.lastID + 1
			}
		}
		h.setOnChain(id, anyName())
	}
	missingOp := func() {
		var input []string
		if r.Intn(2) == 0 { // the ids of a validator's registered accounts, as ValidatorSupportsAllChains passes them
			es, _ := e.in.ValsetKeeper.GetValidatorChainInfos(e.ctx, valAddr(r.Intn(e.nvals)))
			for _, x := range es {
				input = append(input, x.GetChainReferenceID())
			}
		} else {
			for _, n := range names {
				switch r.Intn(4) {
				case 0:
				case 1:
					input = append(input, nearMiss(r, n))
				default:
					input = append(input, n)
				}
			}
			r.Shuffle(len(input), func(x, y int) { input[x], input[y] = input[y], input[x] })
		}
		h.missing(input)
	}

	// mostly-valid prefix: chains, validators, registrations, first build
	nch := 1 + r.Intn(len(names))
	for c := 0; c < nch; c++ {
		chainOp(c, 0)
		if r.Intn(4) != 0 {
			chainOp(c, 0)
		}
	}
	stakingOp(true)
	for i := 0; i < e.nvals; i++ {
		if r.Intn(6) != 0 {
			registerOp(i, r.Intn(3) != 0)
		}
	}
	missingOp()
	h.build()
	for k := 0; k < nops; k++ {
		if deploys && k == nops/3 {
			h.compass()
		}
		switch x := r.Intn(28); {
		case x >= 26:
			h.jail(r.Intn(e.nvals))
		case x == 25:
			h.endBlock(60 + 10*int64(r.Intn(4)))
		case x >= 23:
			nudgeOp()
		case x >= 21:
			reRegisterOp(r.Intn(e.nvals))
		case x < 4:
			stakingOp(false)
		case x < 7:
			registerOp(r.Intn(e.nvals), r.Intn(2) == 0)
		case x < 9:
			chainOp(r.Intn(len(names)), r.Intn(2))
		case x < 14:
			h.build()
			if ac := e.activeChains(); e.lastID > 0 && len(ac) > 0 && r.Intn(3) == 0 { // as an attested valset update would
				h.setOnChain(1+uint64(r.Int63n(int64(e.lastID))), ac[r.Intn(len(ac))])
			}
		case x < 17:
			onChainOp()
		case x < 18:
			missingOp()
		default:
			h.jit(anyName())
		}
	}
	h.finish(h.stored >= 2 && h.rejected >= 1)
}

func min(a, b int) int {
	if a < b {
		return a
	}
	return b
}

func TestCorr(t *testing.T) {
	run := emit.Start("C10", 700)
	r := run.Rng
	a := &addrReg{}
	var next int64
	run.Rule("seeded generator. (1) projection: 1..8 (sometimes 21..35) snapshot validators, share families: a*2^32 = -1 (mod total) " +
		"(quotient just below an integer), all equal, near-equal, one dominant, equal shares around the 2/3 boundary, 10^18 scale, tiny with zeros, " +
		"occasionally beyond int64; accounts on 3 chains, chain types in the 8 spellings of evm and in near misses (blank, look-alike letters, prefix, other type), " +
		"reference ids exact or near-miss spellings (letter case, blanks, look-alike letters, prefix / suffix / extension), projection to a near-miss id, second accounts " +
		"on the same chain; non-trivial = at least two entries sent. (2) histories on the real staking/valset/evm/consensus keepers: chains added / activated / removed " +
		"(sometimes a chain whose id is a near miss of another chain's id), validators bonded / unbonding / unbonded / jailed with arbitrary tokens, registrations " +
		"(incl. colliding and duplicate accounts, near-miss reference ids, traits), builds, SetSnapshotOnChain on existing and non-existing ids, just-in-time valset " +
		"updates; non-trivial = at least two stored snapshots and one rejected operation. (3) evm MissingChains called directly with registered and hostile id lists. " +
		"Two directed histories first: quorum-floor-gap at system level, near-miss ids")

	// corpus first: minimised past failures
	files, _ := filepath.Glob("../corpus/C10/*.json")
	sort.Strings(files)
	for _, f := range files {
		b, err := os.ReadFile(f)
		if err != nil {
			continue
		}
		var tc tcase
		if json.Unmarshal(b, &tc) == nil && len(tc.Vals) > 0 {
			for _, v := range tc.Vals {
				for _, i := range v.Infos {
					if i.Addr > next {
						next = i.Addr
					}
				}
			}
			doTransform(run, a, r, tc, "corpus")
		}
	}
	// bin/check --replay FILE: a failing projection input is re-run first (histories are reproduced by
	// the seed recorded in the replay file, which bin/check restores)
	if rp := os.Getenv("VERIF_REPLAY"); rp != "" {
		if b, err := os.ReadFile(rp); err == nil {
			var obj struct {
				Input struct {
					Kind string `json:"kind"`
					Case tcase  `json:"case"`
				} `json:"input"`
			}
			if json.Unmarshal(b, &obj) == nil && obj.Input.Kind == "transform" && len(obj.Input.Case.Vals) > 0 {
				doTransform(run, a, r, obj.Input.Case, "replay")
			}
		}
	}
	negativeShareWitness(run, a)
	quorumGapHistory(t, run, a, &next)
	nearMissHistory(t, run, a, &next)
	worthyBoundaryHistory(t, run, a, &next)
	jitGateHistory(t, run, a, &next)
	deployGateHistory(t, run, a, &next)
	keeperJailHistory(t, run, a, &next)
	nHist := run.N / 5
	nTr := run.N - nHist
	for i := 0; i < nTr; i++ {
		doTransform(run, a, r, genTransform(r, &next), "generated")
	}
	for i := 0; i < nHist; i++ {
		nops := 4 + r.Intn(7)
		if run.Tier == "thorough" {
			nops = 4 + r.Intn(14)
		}
		doHistory(t, run, a, r, &next, nops)
	}
	if err := run.Finish("Valset.Snapshot Evm.Compass Corr.C10", "C10.case", "C10.check"); err != nil {
		t.Fatal(err)
	}
}
