//go:build verif

// Package c10 is the correspondence harness + direct oracle for property C10 (validator snapshots
// faithful, immutable, correctly projected to chains).  It drives the REAL valset / evm / staking /
// consensus keepers (x/skyway/keeper.CreateTestEnv) and the real transformSnapshotToCompass /
// isEnoughToReachConsensus through the verif hooks.
package c10

import (
	"encoding/json"
	"fmt"
	"math/big"
	"math/rand"
	"os"
	"path/filepath"
	"sort"
	"strings"
	"testing"
	"time"

	"cosmossdk.io/log"
	sdkmath "cosmossdk.io/math"
	"github.com/cometbft/cometbft/crypto/ed25519"
	authcodec "github.com/cosmos/cosmos-sdk/x/auth/codec"
	cryptocodec "github.com/cosmos/cosmos-sdk/crypto/codec"
	sdk "github.com/cosmos/cosmos-sdk/types"
	slashingtypes "github.com/cosmos/cosmos-sdk/x/slashing/types"
	stakingtypes "github.com/cosmos/cosmos-sdk/x/staking/types"
	"github.com/onsi/ginkgo/v2"
	chainparams "github.com/palomachain/paloma/v2/app/params"
	"github.com/palomachain/paloma/v2/tests/integration/helper"
	"github.com/palomachain/paloma/v2/verifharness/emit"
	consensustypes "github.com/palomachain/paloma/v2/x/consensus/types"
	evmkeeper "github.com/palomachain/paloma/v2/x/evm/keeper"
	evmtypes "github.com/palomachain/paloma/v2/x/evm/types"
	schedulertypes "github.com/palomachain/paloma/v2/x/scheduler/types"
	treasurytypes "github.com/palomachain/paloma/v2/x/treasury/types"
	valsettypes "github.com/palomachain/paloma/v2/x/valset/types"
)

var (
	two32     = new(big.Int).Lsh(big.NewInt(1), 32)
	threshold = new(big.Int).Div(new(big.Int).Lsh(big.NewInt(1), 33), big.NewInt(3)) // floor(2^33/3)
)

var gapReported, gapSentReported bool

func valAddr(i int) sdk.ValAddress {
	b := make([]byte, 20)
	b[0] = 0xC1
	b[18] = byte(i >> 8)
	b[19] = byte(i)
	return sdk.ValAddress(b)
}

func chainName(c int) string { return fmt.Sprintf("chain-%d", c) }

var chainTypes = []string{"evm", "evm", "evm", "evm", "EVM", "Evm", "cosmos"}

// ---------- recorded (abstract) forms ----------

type rinfo struct {
	Evm   bool
	Chain int
	Addr  int64
}
type rval struct {
	Val   int
	Share *big.Int
	Infos []rinfo
}

func coqInfo(i rinfo) string {
	return emit.Pair(emit.Bool(i.Evm), emit.ZI(int64(i.Chain)), emit.ZI(i.Addr))
}
func coqInfos(is []rinfo) string {
	s := make([]string, len(is))
	for k, i := range is {
		s[k] = coqInfo(i)
	}
	return emit.List(s)
}
func coqVal(v rval) string { return emit.Pair(emit.ZI(int64(v.Val)), emit.Z(v.Share), coqInfos(v.Infos)) }
func coqVals(vs []rval) string {
	s := make([]string, len(vs))
	for k, v := range vs {
		s[k] = coqVal(v)
	}
	return emit.List(s)
}
func coqEntries(addrs []int64, powers []uint64) string {
	s := make([]string, len(addrs))
	for k := range addrs {
		s[k] = emit.Pair(emit.ZI(addrs[k]), emit.ZU(powers[k]))
	}
	return emit.List(s)
}

// address registry: remote address string <-> small integer
type addrReg struct {
	byStr map[string]int64
}

func (a *addrReg) str(id int64) string { return fmt.Sprintf("0x%040x", id) }
func (a *addrReg) id(s string) int64 {
	var id int64
	if _, err := fmt.Sscanf(strings.TrimPrefix(s, "0x"), "%x", &id); err != nil {
		return -1
	}
	return id
}

func mkExt(a *addrReg, i rinfo, ctype string) *valsettypes.ExternalChainInfo {
	return &valsettypes.ExternalChainInfo{
		ChainType:        ctype,
		ChainReferenceID: chainName(i.Chain),
		Address:          a.str(i.Addr),
		Pubkey:           []byte(a.str(i.Addr)),
	}
}

func typeFor(r *rand.Rand, evm bool) string {
	if !evm {
		return "cosmos"
	}
	return chainTypes[r.Intn(6)]
}

func isEvm(t string) bool { return strings.ToLower(t) == "evm" }

// ---------- part 1: the projection as a function ----------

type tcase struct {
	Vals  []rval `json:"vals"`
	Chain int    `json:"chain"`
}

func floorPower(share, total *big.Int) *big.Int {
	if total.Sign() <= 0 || share.Sign() < 0 {
		return new(big.Int)
	}
	p := new(big.Int).Mul(share, two32)
	return p.Quo(p, total)
}

// doTransform runs the real transformSnapshotToCompass + isEnoughToReachConsensus on the case,
// applies the direct oracle and records the correspondence case.
func doTransform(run *emit.Run, a *addrReg, r *rand.Rand, tc tcase, tag string) {
	sn := &valsettypes.Snapshot{Id: 7, TotalShares: sdkmath.ZeroInt()}
	total := new(big.Int)
	for _, v := range tc.Vals {
		var infos []*valsettypes.ExternalChainInfo
		for _, i := range v.Infos {
			infos = append(infos, mkExt(a, i, typeFor(r, i.Evm)))
		}
		sn.Validators = append(sn.Validators, valsettypes.Validator{
			Address: valAddr(v.Val), ShareCount: sdkmath.NewIntFromBigInt(v.Share), ExternalChainInfos: infos,
			State: valsettypes.ValidatorState_ACTIVE,
		})
		total.Add(total, v.Share)
	}
	sn.TotalShares = sdkmath.NewIntFromBigInt(total)
	replay := map[string]any{"kind": "transform", "case": tc}
	var vs evmtypes.Valset
	var enough bool
	panicked := func() (p any) {
		defer func() { p = recover() }()
		vs = evmkeeper.VerifTransformSnapshotToCompass(sn, chainName(tc.Chain))
		enough = evmkeeper.VerifIsEnoughToReachConsensus(vs)
		return nil
	}()
	run.Count("transform", tag)
	if panicked != nil {
		run.Violate("C10:transform-panics", fmt.Sprintf("transformSnapshotToCompass panics on total %s: %v", total, panicked), replay)
		return
	}
	// ---- direct oracle on the real output ----
	shareOf := map[int64]*big.Int{} // remote address -> share of its validator
	expectN := 0
	for _, v := range tc.Vals {
		has := false
		for _, i := range v.Infos {
			if i.Evm && i.Chain == tc.Chain {
				shareOf[i.Addr] = v.Share
				has = true
			}
		}
		if has {
			expectN++
		}
	}
	addrs := make([]int64, len(vs.Validators))
	sum := new(big.Int)
	for k, s := range vs.Validators {
		addrs[k] = a.id(s)
		p := new(big.Int).SetUint64(vs.Powers[k])
		sum.Add(sum, p)
		sh, ok := shareOf[addrs[k]]
		if !ok {
			run.Violate("C10:entry-without-account", fmt.Sprintf("valset lists %s which is no evm account on the chain", s), replay)
			continue
		}
		if want := floorPower(sh, total); want.Cmp(p) != 0 {
			run.Violate("C10:power-not-floor", fmt.Sprintf("share %s of total %s: power %s, floor(share*2^32/total) = %s", sh, total, p, want), replay)
		}
		if k > 0 && vs.Powers[k] > vs.Powers[k-1] {
			run.Violate("C10:powers-not-descending", fmt.Sprintf("powers %v", vs.Powers), replay)
		}
	}
	if len(vs.Validators) != expectN {
		run.Violate("C10:validator-entries", fmt.Sprintf("%d validators have an evm account on the chain but the valset has %d entries (a validator with two accounts is counted twice)", expectN, len(vs.Validators)), replay)
	}
	if sum.Cmp(two32) > 0 {
		run.Violate("C10:power-sum-above-2p32", fmt.Sprintf("powers sum to %s > 2^32", sum), replay)
	}
	if enough != (sum.Cmp(threshold) >= 0) {
		run.Violate("C10:quorum-gate", fmt.Sprintf("isEnoughToReachConsensus=%v but powers sum to %s (threshold %s)", enough, sum, threshold), replay)
	}
	if enough && !gapReported && new(big.Int).Mul(sum, big.NewInt(3)).Cmp(new(big.Int).Lsh(big.NewInt(1), 33)) < 0 {
		gapReported = true // once per run: the violation list is capped and must stay free for unlisted ones
		// listed as a known finding: the integer threshold floor(2^33/3) admits a sum that is 2/3 of a
		// unit below the real number 2/3 * 2^32 (theorem quorum_constant_exact)
		run.Violate("C10:quorum-floor-gap", fmt.Sprintf("powers sum to %s = thresholdForConsensus: accepted although 3*sum = 2^33-2 < 2*2^32", sum), replay)
	}
	if enough {
		run.Count("transform-enough", "yes")
	} else {
		run.Count("transform-enough", "no")
	}
	nontrivial := len(vs.Validators) >= 2
	run.Case(fmt.Sprintf("C10.CTransform %s %s %s %s", coqVals(tc.Vals), emit.ZI(int64(tc.Chain)), coqEntries(addrs, vs.Powers), emit.Bool(enough)),
		nontrivial, map[string]any{"transform": tc, "powers": vs.Powers, "enough": enough})
}

// modInverse-based family: a*2^32 = -1 (mod b), so that a*2^32/b has fractional part (b-1)/b.
func nearIntegerPair(r *rand.Rand) (*big.Int, *big.Int) {
	for {
		bits := 22 + r.Intn(40)
		b := new(big.Int).Rand(r, new(big.Int).Lsh(big.NewInt(1), uint(bits)))
		b.SetBit(b, bits, 1)
		b.SetBit(b, 0, 1) // odd => invertible mod 2^32's powers
		inv := new(big.Int).ModInverse(two32, b)
		if inv == nil {
			continue
		}
		a := new(big.Int).Sub(b, inv) // a = -inv mod b
		a.Mod(a, b)
		if a.Sign() > 0 && a.Cmp(b) < 0 {
			return a, b
		}
	}
}

func genShares(r *rand.Rand, n int, allowHuge bool) []*big.Int {
	out := make([]*big.Int, n)
	mode := r.Intn(7)
	switch mode {
	case 0: // near-integer quotient family, remaining validators split the rest
		a, b := nearIntegerPair(r)
		out[0] = a
		rest := new(big.Int).Sub(b, a)
		for i := 1; i < n; i++ {
			if i == n-1 {
				out[i] = new(big.Int).Set(rest)
			} else {
				x := new(big.Int).Rand(r, new(big.Int).Add(rest, big.NewInt(1)))
				out[i] = x
				rest.Sub(rest, x)
			}
		}
		if n == 1 {
			out[0] = b
		}
	case 1: // all equal
		base := big.NewInt(int64(1 + r.Intn(1_000_000)))
		if r.Intn(2) == 0 {
			base.Mul(base, big.NewInt(1_000_000_000_000))
		}
		for i := range out {
			out[i] = new(big.Int).Set(base)
		}
	case 2: // near-equal
		base := big.NewInt(int64(1_000_000 + r.Intn(1_000_000)))
		for i := range out {
			out[i] = new(big.Int).Add(base, big.NewInt(int64(r.Intn(3)-1)))
		}
	case 3: // one dominant
		for i := range out {
			out[i] = big.NewInt(int64(1 + r.Intn(1000)))
		}
		out[r.Intn(n)] = new(big.Int).Lsh(big.NewInt(int64(1+r.Intn(1000))), uint(20+r.Intn(35)))
	case 4: // around the quorum boundary: k of n equal shares with k/n near 2/3
		for i := range out {
			out[i] = big.NewInt(1_000_000)
		}
	case 5: // 10^18 scale (total stays below 2^63)
		for i := range out {
			out[i] = new(big.Int).Rand(r, new(big.Int).Div(new(big.Int).Lsh(big.NewInt(1), 62), big.NewInt(int64(n))))
		}
	default: // small, zeros allowed
		for i := range out {
			out[i] = big.NewInt(int64(r.Intn(6)))
		}
	}
	if allowHuge && r.Intn(12) == 0 { // beyond int64
		k := uint(63 + r.Intn(150))
		mx := 0
		for i := range out {
			if b := out[i].BitLen(); b > mx {
				mx = b
			}
		}
		if mx+int(k)+8 > 250 { // sdk math.Int is capped at 256 bits
			k = uint(250 - 8 - mx)
		}
		for i := range out {
			out[i] = new(big.Int).Lsh(out[i], k)
		}
	}
	return out
}

func genTransform(r *rand.Rand, next *int64) tcase {
	n := 1 + r.Intn(8)
	if r.Intn(15) == 0 {
		n = 21 + r.Intn(15) // beyond Go's single insertion-sort block
	}
	shares := genShares(r, n, true)
	tc := tcase{Chain: r.Intn(3)}
	pAcc := 0.5 + r.Float64()/2
	dups := r.Intn(4) == 0
	for i := 0; i < n; i++ {
		v := rval{Val: i, Share: shares[i]}
		for c := 0; c < 3; c++ {
			if r.Float64() < pAcc {
				*next++
				v.Infos = append(v.Infos, rinfo{Evm: r.Intn(8) != 0, Chain: c, Addr: *next})
				if dups && r.Intn(4) == 0 { // a second account on the same chain
					*next++
					v.Infos = append(v.Infos, rinfo{Evm: r.Intn(8) != 0, Chain: c, Addr: *next})
				}
			}
		}
		r.Shuffle(len(v.Infos), func(x, y int) { v.Infos[x], v.Infos[y] = v.Infos[y], v.Infos[x] })
		tc.Vals = append(tc.Vals, v)
	}
	return tc
}

// ---------- part 2: histories on the real keepers ----------

type env struct {
	in     *helper.Fixture
	ctx    sdk.Context
	nvals  int
	chains map[int]bool // supported chains (added)
	scID   uint64
	seen   map[string]map[uint64]bool // queue -> message ids already reported
	known  map[uint64]rsnapObs        // last observation of every stored snapshot
	lastID uint64
}

type rsnapObs struct {
	ID     uint64
	Vals   []rval
	Total  *big.Int
	Chains []int
}

func chainIdx(s string) int {
	var c int
	if _, err := fmt.Sscanf(s, "chain-%d", &c); err != nil {
		return -1
	}
	return c
}

func valIdx(a sdk.ValAddress) int { return int(a[18])<<8 | int(a[19]) }

func project(a *addrReg, sn *valsettypes.Snapshot) rsnapObs {
	o := rsnapObs{ID: sn.Id, Total: sn.TotalShares.BigInt()}
	for _, v := range sn.Validators {
		rv := rval{Val: valIdx(v.Address), Share: v.ShareCount.BigInt()}
		for _, e := range v.ExternalChainInfos {
			rv.Infos = append(rv.Infos, rinfo{Evm: isEvm(e.ChainType), Chain: chainIdx(e.ChainReferenceID), Addr: a.id(e.Address)})
		}
		o.Vals = append(o.Vals, rv)
	}
	for _, c := range sn.Chains {
		o.Chains = append(o.Chains, chainIdx(c))
	}
	return o
}

func coqSnap(o rsnapObs) string {
	cs := make([]string, len(o.Chains))
	for i, c := range o.Chains {
		cs[i] = emit.ZI(int64(c))
	}
	return emit.Pair(emit.ZU(o.ID), coqVals(o.Vals), emit.Z(o.Total), emit.List(cs))
}

func sameVals(x, y []rval) bool {
	if len(x) != len(y) {
		return false
	}
	for i := range x {
		if x[i].Val != y[i].Val || x[i].Share.Cmp(y[i].Share) != 0 || len(x[i].Infos) != len(y[i].Infos) {
			return false
		}
		for k := range x[i].Infos {
			if x[i].Infos[k] != y[i].Infos[k] {
				return false
			}
		}
	}
	return true
}

func newEnv(t *testing.T) *env {
	// the integration fixture: real auth/bank/staking/slashing + all Paloma keepers with a codec that
	// knows the consensus and evm message types (InitFixture does not use its argument)
	in := helper.InitFixture(ginkgo.GinkgoT())
	ctx := in.Ctx.WithLogger(log.NewNopLogger())
	return &env{in: in, ctx: ctx, chains: map[int]bool{}, scID: 1, seen: map[string]map[uint64]bool{}, known: map[uint64]rsnapObs{}}
}

var valCodec = authcodec.NewBech32Codec(chainparams.ValidatorAddressPrefix)

func (e *env) setValidator(i int, status stakingtypes.BondStatus, jailed bool, tokens *big.Int) error {
	op, err := valCodec.BytesToString(valAddr(i))
	if err != nil {
		return err
	}
	seed := make([]byte, 32)
	seed[0], seed[1] = byte(i), byte(i>>8)
	pk, err := cryptocodec.FromCmtPubKeyInterface(ed25519.GenPrivKeyFromSecret(seed).PubKey())
	if err != nil {
		return err
	}
	v, err := stakingtypes.NewValidator(op, pk, stakingtypes.Description{Moniker: fmt.Sprintf("v%d", i)})
	if err != nil {
		return err
	}
	v.Status = status
	v.Jailed = jailed
	v.Tokens = sdkmath.NewIntFromBigInt(tokens)
	v.DelegatorShares = sdkmath.LegacyNewDecFromBigInt(tokens)
	if err := e.in.StakingKeeper.SetValidator(e.ctx, v); err != nil {
		return err
	}
	if err := e.in.StakingKeeper.SetValidatorByConsAddr(e.ctx, v); err != nil {
		return err
	}
	// what relayer selection needs (so that valset messages really get enqueued): a signing
	// info for the uptime metric and a relayer fee on every chain
	cons, err := v.GetConsAddr()
	if err != nil {
		return err
	}
	if err := e.in.SlashingKeeper.SetValidatorSigningInfo(e.ctx, cons, slashingtypes.NewValidatorSigningInfo(cons, 0, 0, time.Unix(0, 0), false, 0)); err != nil {
		return err
	}
	fs := &treasurytypes.RelayerFeeSetting{ValAddress: valAddr(i).String()}
	for c := 0; c < 3; c++ {
		fs.Fees = append(fs.Fees, treasurytypes.RelayerFeeSetting_FeeSetting{Multiplicator: sdkmath.LegacyMustNewDecFromStr("1.10"), ChainReferenceId: chainName(c)})
	}
	return e.in.TreasuryKeeper.SetRelayerFee(e.ctx, valAddr(i), fs)
}

type sv struct {
	Val    int
	Bonded bool
	Jailed bool
	Tokens *big.Int
}

func (e *env) staking() []sv {
	var out []sv
	_ = e.in.StakingKeeper.IterateValidators(e.ctx, func(_ int64, v stakingtypes.ValidatorI) bool {
		bz, err := valCodec.StringToBytes(v.GetOperator())
		if err == nil {
			out = append(out, sv{valIdx(bz), v.IsBonded(), v.IsJailed(), v.GetTokens().BigInt()})
		}
		return false
	})
	return out
}

func (e *env) activeChains() []int {
	var out []int
	cis, _ := e.in.EvmKeeper.GetAllChainInfos(e.ctx)
	for _, ci := range cis {
		if ci.IsActive() {
			if c := chainIdx(ci.GetChainReferenceID()); c >= 0 {
				out = append(out, c)
			} else {
				out = append(out, 99) // the environment's own "test-chain", if it ever becomes active
			}
		}
	}
	sort.Ints(out)
	return out
}

// expected eligible set computed independently of createNewSnapshot, from the real stores
func (e *env) expectedSnapshot(a *addrReg) ([]rval, *big.Int) {
	active := e.activeChains()
	total := new(big.Int)
	var out []rval
	for _, s := range e.staking() {
		if !s.Bonded || s.Jailed {
			continue
		}
		infos, _ := e.in.ValsetKeeper.GetValidatorChainInfos(e.ctx, valAddr(s.Val))
		ok := true
		for _, c := range active {
			f := false
			for _, i := range infos {
				if chainIdx(i.ChainReferenceID) == c {
					f = true
				}
			}
			ok = ok && f
		}
		if !ok {
			continue
		}
		rv := rval{Val: s.Val, Share: s.Tokens}
		for _, i := range infos {
			rv.Infos = append(rv.Infos, rinfo{Evm: isEvm(i.ChainType), Chain: chainIdx(i.ChainReferenceID), Addr: a.id(i.Address)})
		}
		out = append(out, rv)
		total.Add(total, s.Tokens)
	}
	return out, total
}

type sentMsg struct {
	Chain   int
	ID      uint64
	Addrs   []int64
	Powers  []uint64
	Present bool
}

// newly appeared UpdateValset messages in the turnstone queues of all supported chains
func (e *env) newSent(a *addrReg) []sentMsg {
	var out []sentMsg
	cs := make([]int, 0, len(e.chains))
	for c := range e.chains {
		cs = append(cs, c)
	}
	sort.Ints(cs)
	for _, c := range cs {
		q := consensustypes.Queue(evmtypes.ConsensusTurnstoneMessage, "evm", chainName(c))
		msgs, err := e.in.ConsensusKeeper.GetMessagesFromQueue(e.ctx, q, 0)
		if err != nil {
			continue
		}
		if e.seen[q] == nil {
			e.seen[q] = map[uint64]bool{}
		}
		for _, m := range msgs {
			if e.seen[q][m.GetId()] {
				continue
			}
			e.seen[q][m.GetId()] = true
			cm, err := m.ConsensusMsg(e.in.Codec)
			if err != nil {
				continue
			}
			em, ok := cm.(*evmtypes.Message)
			if !ok {
				continue
			}
			uv := em.GetUpdateValset()
			if uv == nil || uv.Valset == nil {
				continue
			}
			s := sentMsg{Chain: c, ID: uv.Valset.ValsetID, Powers: uv.Valset.Powers}
			for _, x := range uv.Valset.Validators {
				s.Addrs = append(s.Addrs, a.id(x))
			}
			out = append(out, s)
		}
	}
	return out
}

func coqSent(ms []sentMsg) string {
	s := make([]string, len(ms))
	for i, m := range ms {
		s[i] = emit.Pair(emit.ZI(int64(m.Chain)), emit.ZU(m.ID), coqEntries(m.Addrs, m.Powers))
	}
	return emit.List(s)
}

// observe reads back current id + every stored snapshot, applies the history oracles and returns the
// Coq observation record.
func (e *env) observe(run *emit.Run, a *addrReg, hist *[]string, sent []sentMsg) string {
	replay := func() any { return map[string]any{"kind": "history", "ops": *hist} }
	// discover the highest stored id: ids are probed upwards from the last known one
	top := e.lastID
	for id := e.lastID + 1; id <= e.lastID+3; id++ {
		if sn, err := e.in.ValsetKeeper.FindSnapshotByID(e.ctx, id); err == nil && sn != nil {
			top = id
		}
	}
	if top > e.lastID+1 {
		run.Violate("C10:id-not-consecutive", fmt.Sprintf("snapshot id jumped from %d to %d", e.lastID, top), replay())
	}
	if sn, err := e.in.ValsetKeeper.FindSnapshotByID(e.ctx, 0); err == nil && sn != nil {
		run.Violate("C10:snapshot-under-id-0", "a snapshot is stored under id 0", replay())
	}
	cur, _ := e.in.ValsetKeeper.GetCurrentSnapshot(e.ctx)
	curID := uint64(0)
	if cur != nil {
		curID = cur.Id
	}
	if curID != top {
		run.Violate("C10:current-not-max-id", fmt.Sprintf("current snapshot id %d, highest stored id %d", curID, top), replay())
	}
	var store []string
	for id := top; id >= 1; id-- {
		sn, err := e.in.ValsetKeeper.FindSnapshotByID(e.ctx, id)
		if err != nil || sn == nil {
			run.Violate("C10:stored-snapshot-lost", fmt.Sprintf("snapshot %d no longer found", id), replay())
			continue
		}
		o := project(a, sn)
		if o.ID != id {
			run.Violate("C10:stored-snapshot-mutated", fmt.Sprintf("snapshot under key %d carries id %d", id, o.ID), replay())
		}
		if old, ok := e.known[id]; ok {
			okc := len(o.Chains) >= len(old.Chains)
			for k := range old.Chains {
				okc = okc && k < len(o.Chains) && o.Chains[k] == old.Chains[k]
			}
			if !sameVals(old.Vals, o.Vals) || old.Total.Cmp(o.Total) != 0 || !okc {
				run.Violate("C10:stored-snapshot-mutated", fmt.Sprintf("snapshot %d changed other than by added chains", id), replay())
			}
		}
		e.known[id] = o
		store = append(store, coqSnap(o))
	}
	e.lastID = top
	// sent messages: quorum, floor powers, one entry per validator
	for _, m := range sent {
		sn, ok := e.known[m.ID]
		if !ok {
			run.Violate("C10:sent-unknown-snapshot", fmt.Sprintf("valset %d sent to chain-%d is no stored snapshot", m.ID, m.Chain), replay())
			continue
		}
		sum := new(big.Int)
		for _, p := range m.Powers {
			sum.Add(sum, new(big.Int).SetUint64(p))
		}
		if sum.Cmp(threshold) < 0 {
			run.Violate("C10:sent-without-quorum", fmt.Sprintf("valset %d sent to chain-%d with powers summing to %s < %s", m.ID, m.Chain, sum, threshold), replay())
		}
		if sum.Cmp(threshold) == 0 && !gapSentReported {
			gapSentReported = true
			run.Violate("C10:quorum-floor-gap", fmt.Sprintf("valset %d sent to chain-%d with powers summing to exactly %s: 3*sum = 2^33-2 < 2*2^32", m.ID, m.Chain, sum), replay())
		}
		if sum.Cmp(two32) > 0 {
			run.Violate("C10:power-sum-above-2p32", fmt.Sprintf("valset %d sent to chain-%d with powers summing to %s > 2^32", m.ID, m.Chain, sum), replay())
		}
		total := new(big.Int)
		share := map[int64]*big.Int{}
		n := 0
		for _, v := range sn.Vals {
			total.Add(total, v.Share)
			has := false
			for _, i := range v.Infos {
				if i.Evm && i.Chain == m.Chain {
					share[i.Addr] = v.Share
					has = true
				}
			}
			if has {
				n++
			}
		}
		if n != len(m.Addrs) {
			run.Violate("C10:validator-entries", fmt.Sprintf("valset %d sent to chain-%d: %d validators with an account, %d entries", m.ID, m.Chain, n, len(m.Addrs)), replay())
		}
		for k, ad := range m.Addrs {
			sh, ok := share[ad]
			if !ok {
				run.Violate("C10:entry-without-account", fmt.Sprintf("valset %d sent to chain-%d lists an address that is no account there", m.ID, m.Chain), replay())
				continue
			}
			if want := floorPower(sh, total); want.Cmp(new(big.Int).SetUint64(m.Powers[k])) != 0 {
				run.Violate("C10:power-not-floor", fmt.Sprintf("sent valset %d: share %s of %s has power %d, floor is %s", m.ID, sh, total, m.Powers[k], want), replay())
			}
		}
		run.Count("sent", fmt.Sprintf("entries=%d", len(m.Addrs)))
	}
	return fmt.Sprintf("{| C10.o_current := %s; C10.o_store := %s; C10.o_sent := %s |}", emit.ZU(curID), emit.List(store), coqSent(sent))
}

func genTokens(r *rand.Rand, mode int) *big.Int {
	switch mode {
	case 0:
		return big.NewInt(1_000_000)
	case 1:
		return big.NewInt(int64(1_000_000 + r.Intn(3)))
	case 2:
		return new(big.Int).Mul(big.NewInt(int64(1+r.Intn(1000))), new(big.Int).Exp(big.NewInt(10), big.NewInt(int64(6+r.Intn(10))), nil))
	case 3:
		// bonded validators have positive tokens (staking drops a validator without power from
		// the bonded set); a total of zero makes isNewSnapshotWorthy divide by zero (C09's domain)
		return big.NewInt(int64(1 + r.Intn(5)))
	default:
		a, _ := nearIntegerPair(r)
		return a
	}
}

func doHistory(t *testing.T, run *emit.Run, a *addrReg, r *rand.Rand, next *int64, nops int) {
	e := newEnv(t)
	e.nvals = 2 + r.Intn(5)
	var hist []string // human-readable replay
	var steps []string
	stored, rejected, sentN := 0, 0, 0
	tokMode := r.Intn(5)
	record := func(hop string, sent []sentMsg) {
		obs := e.observe(run, a, &hist, sent)
		steps = append(steps, emit.Pair(hop, obs))
		sentN += len(sent)
	}
	stakingOp := func(all bool) {
		for i := 0; i < e.nvals; i++ {
			if !all && r.Intn(3) != 0 {
				continue
			}
			st := stakingtypes.Bonded
			if x := r.Intn(10); x == 0 {
				st = stakingtypes.Unbonding
			} else if x == 1 {
				st = stakingtypes.Unbonded
			}
			jailed := r.Intn(8) == 0
			tok := genTokens(r, tokMode)
			if err := e.setValidator(i, st, jailed, tok); err != nil {
				t.Fatalf("setValidator: %v", err)
			}
		}
		svs := e.staking()
		s := make([]string, len(svs))
		for k, v := range svs {
			s[k] = emit.Pair(emit.ZI(int64(v.Val)), emit.Bool(v.Bonded), emit.Bool(v.Jailed), emit.Z(v.Tokens))
		}
		hist = append(hist, fmt.Sprintf("staking %v", s))
		run.Count("op", "staking")
		record("C10.HStaking "+emit.List(s), nil)
	}
	registerOp := func(i int, full bool) {
		var infos []rinfo
		var ext []*valsettypes.ExternalChainInfo
		for c := 0; c < 3; c++ {
			if full || r.Intn(4) != 0 {
				*next++
				ad := *next
				if !full && r.Intn(12) == 0 && *next > 3 { // hostile: somebody else's address (collision)
					ad = 1 + r.Int63n(*next-1)
				}
				in := rinfo{Evm: r.Intn(10) != 0, Chain: c, Addr: ad}
				infos = append(infos, in)
				ext = append(ext, mkExt(a, in, typeFor(r, in.Evm)))
				if !full && r.Intn(8) == 0 { // second account on the same chain
					*next++
					in2 := rinfo{Evm: true, Chain: c, Addr: *next}
					infos = append(infos, in2)
					ext = append(ext, mkExt(a, in2, "evm"))
				}
			}
		}
		err := e.in.ValsetKeeper.AddExternalChainInfo(e.ctx, valAddr(i), ext)
		if err != nil {
			rejected++
		}
		hist = append(hist, fmt.Sprintf("register v%d %v -> %v", i, infos, err == nil))
		run.Count("op", fmt.Sprintf("register ok=%v", err == nil))
		record(fmt.Sprintf("C10.HRegister %s %s %s", emit.ZI(int64(i)), coqInfos(infos), emit.Bool(err == nil)), nil)
	}
	chainOp := func(c int, kind int) {
		switch {
		case !e.chains[c]:
			if err := e.in.EvmKeeper.AddSupportForNewChain(e.ctx, chainName(c), uint64(100+c), 1, "0xbeef", big.NewInt(1)); err == nil {
				e.chains[c] = true
			}
			hist = append(hist, fmt.Sprintf("add chain-%d", c))
		case kind == 0:
			e.scID++
			_ = e.in.EvmKeeper.ActivateChainReferenceID(e.ctx, chainName(c), &evmtypes.SmartContract{Id: e.scID}, fmt.Sprintf("0xc0%02d", c), []byte(fmt.Sprintf("uid-%d", c)))
			hist = append(hist, fmt.Sprintf("activate chain-%d", c))
		default:
			if r.Intn(3) == 0 {
				_ = e.in.EvmKeeper.RemoveSupportForChain(e.ctx, &evmtypes.RemoveChainProposal{ChainReferenceID: chainName(c)})
				delete(e.chains, c)
				hist = append(hist, fmt.Sprintf("remove chain-%d", c))
			}
		}
		ac := e.activeChains()
		s := make([]string, len(ac))
		for k, c := range ac {
			s[k] = emit.ZI(int64(c))
		}
		run.Count("op", "chains")
		record("C10.HActive "+emit.List(s), e.newSent(a))
	}
	buildOp := func() {
		created, err := e.in.ValsetKeeper.VerifCreateNewSnapshot(e.ctx)
		if err != nil {
			t.Fatalf("createNewSnapshot: %v", err)
		}
		co := project(a, created)
		// oracle: faithful to the staking / registration / chain state
		want, wtotal := e.expectedSnapshot(a)
		if !sameVals(want, co.Vals) || wtotal.Cmp(co.Total) != 0 {
			run.Violate("C10:snapshot-unfaithful", fmt.Sprintf("createNewSnapshot lists %d validators / total %s, expected %d / %s", len(co.Vals), co.Total, len(want), wtotal),
				map[string]any{"kind": "history", "ops": hist})
		}
		before := e.lastID
		e.in.MetrixKeeper.UpdateUptime(e.ctx)
		var sn *valsettypes.Snapshot
		perr := func() (p any) {
			defer func() { p = recover() }()
			sn, err = e.in.ValsetKeeper.TriggerSnapshotBuild(e.ctx)
			return nil
		}()
		if perr != nil {
			run.Violate("C10:build-panics", fmt.Sprintf("TriggerSnapshotBuild panics: %v", perr), map[string]any{"kind": "history", "ops": hist})
		}
		did := err == nil && sn != nil
		if perr != nil { // whatever was written before the panic stays (no cache context here)
			if x, e2 := e.in.ValsetKeeper.FindSnapshotByID(e.ctx, before+1); e2 == nil && x != nil {
				did = true
			}
		}
		if did {
			stored++
		}
		hist = append(hist, fmt.Sprintf("build -> stored=%v", did))
		run.Count("op", fmt.Sprintf("build stored=%v", did))
		record(fmt.Sprintf("C10.HBuild %s %s", coqSnap(co), emit.Bool(did)), e.newSent(a))
		if did && e.lastID != before+1 {
			run.Violate("C10:id-not-increasing", fmt.Sprintf("build stored a snapshot but last id went %d -> %d", before, e.lastID), map[string]any{"kind": "history", "ops": hist})
		}
	}
	onChainOp := func() {
		id := uint64(0)
		if e.lastID > 0 && r.Intn(6) != 0 {
			id = 1 + uint64(r.Int63n(int64(e.lastID)))
		} else {
			id = e.lastID + uint64(r.Intn(3)) // 0 when nothing stored, or an id not issued yet
			if r.Intn(2) == 0 {
				id = e.lastID + 1
			}
		}
		c := r.Intn(3)
		err := e.in.ValsetKeeper.SetSnapshotOnChain(e.ctx, id, chainName(c))
		if err != nil {
			rejected++
		}
		hist = append(hist, fmt.Sprintf("set-on-chain %d chain-%d -> %v", id, c, err == nil))
		run.Count("op", fmt.Sprintf("set-on-chain ok=%v", err == nil))
		record(fmt.Sprintf("C10.HSetOnChain %s %s %s", emit.ZU(id), emit.ZI(int64(c)), emit.Bool(err == nil)), nil)
	}
	jitOp := func() {
		c := r.Intn(3)
		func() {
			defer func() {
				if p := recover(); p != nil {
					run.Violate("C10:jit-panics", fmt.Sprintf("justInTimeValsetUpdate panics: %v", p), map[string]any{"kind": "history", "ops": hist})
				}
			}()
			_ = e.in.EvmKeeper.PreJobExecution(e.ctx, &schedulertypes.Job{ID: "j", Routing: schedulertypes.Routing{ChainType: "evm", ChainReferenceID: chainName(c)}})
		}()
		hist = append(hist, fmt.Sprintf("jit chain-%d", c))
		run.Count("op", "jit")
		record(fmt.Sprintf("C10.HJit %s", emit.ZI(int64(c))), e.newSent(a))
	}

	// mostly-valid prefix: chains, validators, registrations, first build
	nch := 1 + r.Intn(3)
	for c := 0; c < nch; c++ {
		chainOp(c, 0)
		if r.Intn(4) != 0 {
			chainOp(c, 0)
		}
	}
	stakingOp(true)
	for i := 0; i < e.nvals; i++ {
		if r.Intn(6) != 0 {
			registerOp(i, r.Intn(3) != 0)
		}
	}
	buildOp()
	for k := 0; k < nops; k++ {
		switch x := r.Intn(20); {
		case x < 4:
			stakingOp(false)
		case x < 7:
			registerOp(r.Intn(e.nvals), r.Intn(2) == 0)
		case x < 9:
			chainOp(r.Intn(3), r.Intn(2))
		case x < 14:
			buildOp()
		case x < 17:
			onChainOp()
		default:
			jitOp()
		}
	}
	run.Count("history", fmt.Sprintf("stored=%d", min(stored, 5)))
	run.Case("C10.CHist "+emit.List(steps), stored >= 2 && rejected >= 1, map[string]any{"history": hist, "sent": sentN})
}

func min(a, b int) int {
	if a < b {
		return a
	}
	return b
}

func TestCorr(t *testing.T) {
	run := emit.Start("C10", 700)
	r := run.Rng
	a := &addrReg{}
	var next int64
	run.Rule("seeded generator. (1) projection: 1..8 (sometimes 21..35) snapshot validators, share families: a*2^32 = -1 (mod total) " +
		"(quotient just below an integer), all equal, near-equal, one dominant, equal shares around the 2/3 boundary, 10^18 scale, tiny with zeros, " +
		"occasionally beyond int64; accounts on 3 chains incl. non-evm and mixed-case chain types and second accounts on the same chain; " +
		"non-trivial = at least two entries sent. (2) histories on the real staking/valset/evm/consensus keepers: chains added / activated / removed, " +
		"validators bonded / unbonding / unbonded / jailed with arbitrary tokens, registrations (incl. colliding and duplicate accounts), builds, " +
		"SetSnapshotOnChain on existing and non-existing ids, just-in-time valset updates; non-trivial = at least two stored snapshots and one rejected operation")

	// corpus first: minimised past failures
	files, _ := filepath.Glob("../corpus/C10/*.json")
	sort.Strings(files)
	for _, f := range files {
		b, err := os.ReadFile(f)
		if err != nil {
			continue
		}
		var tc tcase
		if json.Unmarshal(b, &tc) == nil && len(tc.Vals) > 0 {
			for _, v := range tc.Vals {
				for _, i := range v.Infos {
					if i.Addr > next {
						next = i.Addr
					}
				}
			}
			doTransform(run, a, r, tc, "corpus")
		}
	}
	// bin/check --replay FILE: a failing projection input is re-run first (histories are reproduced by
	// the seed recorded in the replay file, which bin/check restores)
	if rp := os.Getenv("VERIF_REPLAY"); rp != "" {
		if b, err := os.ReadFile(rp); err == nil {
			var obj struct {
				Input struct {
					Kind string `json:"kind"`
					Case tcase  `json:"case"`
				} `json:"input"`
			}
			if json.Unmarshal(b, &obj) == nil && obj.Input.Kind == "transform" && len(obj.Input.Case.Vals) > 0 {
				doTransform(run, a, r, obj.Input.Case, "replay")
			}
		}
	}
	nHist := run.N / 5
	nTr := run.N - nHist
	for i := 0; i < nTr; i++ {
		doTransform(run, a, r, genTransform(r, &next), "generated")
	}
	for i := 0; i < nHist; i++ {
		nops := 4 + r.Intn(7)
		if run.Tier == "thorough" {
			nops = 4 + r.Intn(14)
		}
		doHistory(t, run, a, r, &next, nops)
	}
	if err := run.Finish("Valset.Snapshot Evm.Compass Corr.C10", "C10.case", "C10.check"); err != nil {
		t.Fatal(err)
	}
}
