package c19

// The message universe of the harness: EVERY sdk.Msg implementation registered in the interface
// registry of a real application instance (SDK, wasm, ibc and Paloma modules; app.New as the node
// builds it), plus near-miss type URLs that no module registers. For each of them the class the
// PROPERTY assigns is computed independently of the code under test:
//   - a registered message belongs to the consensus-queue / scheduler / bridge-chain (evm) /
//     validator-set class iff its Go type lives in x/consensus, x/scheduler, x/evm, x/valset of Paloma;
//   - a near-miss URL carries its class by construction (labelled below).
// The oracle compares the priority the real GetTxPriority gives a single-message transaction of
// every such URL against reference priorities of the four classes.

import (
	"fmt"
	"os"
	"reflect"
	"sort"
	"strings"

	"cosmossdk.io/log"
	dbm "github.com/cosmos/cosmos-db"
	"github.com/cosmos/cosmos-sdk/baseapp"
	"github.com/cosmos/cosmos-sdk/client/flags"
	"github.com/cosmos/cosmos-sdk/server"
	serverconfig "github.com/cosmos/cosmos-sdk/server/config"
	simtestutil "github.com/cosmos/cosmos-sdk/testutil/sims"
	sdk "github.com/cosmos/cosmos-sdk/types"
	"github.com/cosmos/cosmos-sdk/version"
	palomaapp "github.com/palomachain/paloma/v2/app"
	palomamempool "github.com/palomachain/paloma/v2/app/mempool"
	pcommon "github.com/palomachain/paloma/v2/testutil/common"
	"github.com/palomachain/paloma/v2/verifharness/emit"
)

const appChainID = "c19-chain"

// a message whose type URL is whatever we want (gogoproto's MessageName honours XXX_MessageName)
type fakeMsg struct{ name string }

func (f *fakeMsg) Reset()                  {}
func (f *fakeMsg) String() string          { return f.name }
func (f *fakeMsg) ProtoMessage()           {}
func (f *fakeMsg) XXX_MessageName() string { return f.name }

// near-miss proto names: (name, class by construction; -1 = none of the four)
var nearMiss = []struct {
	name string
	cls  int
}{
	{"palomachain.paloma.consensusx.MsgFoo", -1},
	{"palomachain.paloma.xconsensus.MsgFoo", -1},
	{"palomachain.paloma.consensus", -1}, // no trailing segment: not a message of the package
	{"palomachain.paloma.Consensus.MsgFoo", -1},
	{"palomachain.palomax.consensus.MsgFoo", -1},
	{"xpalomachain.paloma.consensus.MsgFoo", -1},
	{"x.palomachain.paloma.consensus.MsgFoo", -1},
	{"other.palomachain.paloma.scheduler.MsgExecuteJob", -1},
	{"cosmos.scheduler.v1.MsgUpdateParams", -1},
	{"cosmos.evm.v1.MsgEthereumTx", -1},
	{"ethermint.evm.v1.MsgEthereumTx", -1},
	{"cosmos.valset.v1.MsgFoo", -1},
	{"ibc.applications.consensus.v1.MsgFoo", -1},
	{"palomachain.paloma.skyway.consensus.MsgFoo", -1},
	{"palomachain.paloma.skyway.evm.MsgFoo", -1},
	{"palomachain.paloma.treasury.valset.MsgFoo", -1},
	{"palomachain.paloma.paloma.scheduler.MsgFoo", -1},
	{"palomachain.paloma.evmx.MsgFoo", -1},
	{"palomachain.paloma.valsets.MsgFoo", -1},
	{"palomachain.paloma.schedulers.MsgFoo", -1},
	{"palomachain.paloma", -1},
	{"", -1},
	// future messages of the four packages are in the class (the code decides by package prefix)
	{"palomachain.paloma.consensus.MsgFutureThing", 0},
	{"palomachain.paloma.consensus.v2.MsgFutureThing", 0},
	{"palomachain.paloma.scheduler.MsgFutureThing", 1},
	{"palomachain.paloma.evm.MsgFutureThing", 2},
	{"palomachain.paloma.valset.MsgFutureThing", 3},
}

var palomaClassPkgs = map[string]int{
	"github.com/palomachain/paloma/v2/x/consensus/types": 0,
	"github.com/palomachain/paloma/v2/x/scheduler/types": 1,
	"github.com/palomachain/paloma/v2/x/evm/types":       2,
	"github.com/palomachain/paloma/v2/x/valset/types":    3,
}

type msgKind struct {
	name string // consensus / scheduler / evm / valset / other (what the property says)
	cls  int    // 0..3, or -1
	url  string
	mk   func() sdk.Msg
	src  string // fixed / registry / near-miss
}

// the application as cmd/palomad's newApp builds it: base-app options from server.DefaultBaseappOptions(appOpts)
// (a default app.toml with mempool.max-txs = maxTxs) plus optimistic execution, handed to app.New
func newPalomadApp(maxTxs int) *palomaapp.App {
	pcommon.SetupPalomaPrefixes()
	version.Version = "v2.4.0"
	dir, err := os.MkdirTemp("", "c19-palomad-*")
	if err != nil {
		panic(err)
	}
	cfg := serverconfig.DefaultConfig()
	opts := simtestutil.AppOptionsMap{
		flags.FlagHome:             dir,
		flags.FlagChainID:          appChainID,
		server.FlagPruning:         cfg.Pruning,
		server.FlagMinGasPrices:    cfg.MinGasPrices,
		server.FlagIAVLCacheSize:   cfg.IAVLCacheSize,
		server.FlagQueryGasLimit:   cfg.QueryGasLimit,
		server.FlagInvCheckPeriod:  0,
		server.FlagMempoolMaxTxs:   maxTxs,
		server.FlagInterBlockCache: cfg.InterBlockCache,
	}
	bopts := server.DefaultBaseappOptions(opts)
	bopts = append(bopts, baseapp.SetOptimisticExecution())
	return palomaapp.New(log.NewNopLogger(), dbm.NewMemDB(), nil, true, opts, bopts...)
}

func newApp() *palomaapp.App {
	pcommon.SetupPalomaPrefixes()
	version.Version = "v2.4.0" // x/paloma refuses an empty application version
	dir, err := os.MkdirTemp("", "c19-app-*")
	if err != nil {
		panic(err)
	}
	opts := make(simtestutil.AppOptionsMap, 0)
	opts[flags.FlagHome] = dir
	opts[server.FlagInvCheckPeriod] = 0
	return palomaapp.New(log.NewNopLogger(), dbm.NewMemDB(), nil, true, opts, baseapp.SetChainID(appChainID))
}

var classNames = []string{"consensus", "scheduler", "evm", "valset", "other"}

func clsName(c int) string {
	if c < 0 {
		return "other"
	}
	return classNames[c]
}

// builds e.kinds: indices 0..10 are the first builder's fixed messages (the corpus refers to them),
// then every registered sdk.Msg, then the near-miss URLs.
func (e *env) buildKinds(app *palomaapp.App) {
	for _, k := range msgKinds {
		c, ok := classRank[k.name]
		if !ok {
			c = -1
		}
		e.kinds = append(e.kinds, msgKind{name: k.name, cls: c, url: sdk.MsgTypeURL(k.mk()), mk: k.mk, src: "fixed"})
	}
	reg := app.InterfaceRegistry()
	urls := reg.ListImplementations(sdk.MsgInterfaceProtoName)
	sort.Strings(urls)
	for _, u := range urls {
		m, err := reg.Resolve(u)
		if err != nil {
			panic(fmt.Sprintf("registry lists %s but cannot resolve it: %v", u, err))
		}
		typ := reflect.TypeOf(m)
		c := -1
		if x, ok := palomaClassPkgs[typ.Elem().PkgPath()]; ok {
			c = x
		}
		e.kinds = append(e.kinds, msgKind{name: clsName(c), cls: c, url: u, src: "registry",
			mk: func() sdk.Msg { return reflect.New(typ.Elem()).Interface().(sdk.Msg) }})
	}
	e.nRegistered = len(urls)
	for _, nm := range nearMiss {
		name := nm.name
		e.kinds = append(e.kinds, msgKind{name: clsName(nm.cls), cls: nm.cls, url: "/" + name, src: "near-miss",
			mk: func() sdk.Msg { return &fakeMsg{name: name} }})
	}
	for i, k := range e.kinds {
		if got := sdk.MsgTypeURL(k.mk()); got != k.url {
			panic(fmt.Sprintf("kind %d: type URL %q, expected %q", i, got, k.url))
		}
		if k.cls >= 0 {
			e.byClass[k.cls] = append(e.byClass[k.cls], i)
		} else {
			e.byClass[4] = append(e.byClass[4], i)
		}
	}
}

// The class of every URL of the universe, against the property's list. Reference priorities are the
// ones the real GetTxPriority gives the first builder's fixed Paloma messages (kinds 0,2,4,6).
func (e *env) classSweep() {
	const ante = int64(42)
	prioOf := func(i int) int64 {
		tx := e.mkTx(0, 0)
		tx.msgs = []sdk.Msg{e.kinds[i].mk()}
		return e.prio.GetTxPriority(ctxWith(ante), tx)
	}
	ref := [4]int64{prioOf(0), prioOf(2), prioOf(4), prioOf(6)}
	for i, k := range e.kinds {
		p := prioOf(i)
		bad := ""
		if k.cls < 0 {
			for j := 0; j < 4; j++ {
				if p >= ref[j] {
					bad = fmt.Sprintf("a single-message transaction of type %s (not a consensus-queue, scheduler, bridge-chain or validator-set message) with CheckTx priority %d got priority %d, not below the %s class (%d)",
						k.url, ante, p, classNames[j], ref[j])
					break
				}
			}
		} else {
			for j := 0; j < 4 && bad == ""; j++ {
				switch {
				case j < k.cls && p >= ref[j]:
					bad = fmt.Sprintf("a single-message %s transaction (%s) got priority %d, not below the %s class (%d)", k.name, k.url, p, classNames[j], ref[j])
				case j > k.cls && p <= ref[j]:
					bad = fmt.Sprintf("a single-message %s transaction (%s) got priority %d, not above the %s class (%d)", k.name, k.url, p, classNames[j], ref[j])
				case j == k.cls && p != ref[j]:
					bad = fmt.Sprintf("a single-message %s transaction (%s) got priority %d, other %s transactions get %d", k.name, k.url, p, classNames[j], ref[j])
				}
			}
			if bad == "" && p <= ante {
				bad = fmt.Sprintf("a single-message %s transaction (%s) got priority %d, not above an ordinary transaction (%d)", k.name, k.url, p, ante)
			}
		}
		if bad != "" && !e.classReported[k.url] {
			e.classReported[k.url] = true
			// the consequence for Select, on the real pool: the misclassified tx against a valset tx of another sender
			mp := palomamempool.DefaultPriorityMempool()
			for s, kk := range []int{6, i} {
				tx := e.mkTx(s, 0)
				tx.msgs = []sdk.Msg{e.kinds[kk].mk()}
				_ = mp.Insert(ctxWith(ante), tx)
			}
			out, _ := realSelect(mp)
			var order []string
			for _, t := range out {
				order = append(order, sdk.MsgTypeURL(t.msgs[0]))
			}
			e.run.Violate("C19:class-of-type-url", bad, map[string]any{"type_url": k.url, "source": k.src, "class_by_property": k.name,
				"check_tx_priority": ante, "priority": p, "reference_priorities": ref,
				"ops": []any{[]any{"i", 0, 0, []int{6}, ante}, []any{"i", 1, 0, []int{i}, ante}, []any{"s"}}, "select_order": order})
		}
		cls := "None"
		if k.cls >= 0 {
			cls = fmt.Sprintf("(Some %d%%nat)", k.cls)
		}
		e.run.Count("class-sweep", k.src+":"+k.name)
		e.run.Case(fmt.Sprintf("C19.CClass %s %s %s %s", emit.Str(k.url), cls, emit.ZI(ante), emit.ZI(p)), k.cls >= 0 || strings.Contains(k.url, "consensus") ||
			strings.Contains(k.url, "scheduler") || strings.Contains(k.url, "evm") || strings.Contains(k.url, "valset"),
			map[string]any{"kind": "class", "type_url": k.url, "class": k.name, "priority": p})
	}
}
