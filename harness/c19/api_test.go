package c19

// Second round: the whole API of app/mempool under a configuration (MaxTx, TxReplacement, OnRead),
// with ONE open iterator advanced one Next() at a time so that Insert / Remove are interleaved with
// it (iterator invalidation), NextSenderTx, IsEmpty, multi-signer transactions, duplicate inserts.

import (
	"errors"
	"fmt"
	"math"
	"sort"

	cryptotypes "github.com/cosmos/cosmos-sdk/crypto/types"
	sdk "github.com/cosmos/cosmos-sdk/types"
	sdkmempool "github.com/cosmos/cosmos-sdk/types/mempool"
	palomamempool "github.com/palomachain/paloma/v2/app/mempool"
	"github.com/palomachain/paloma/v2/verifharness/emit"
)

type apiHist struct {
	mp      *palomamempool.PriorityNonceMempool[int64]
	maxTx   int
	rule    int
	pend    map[sn]pendTx
	known   map[int]bool // senders that ever had an accepted Insert (their index exists)
	premise bool         // no duplicate insert, no MinInt64 priority so far
	it      sdkmempool.Iterator
	itClean bool // no Insert / Remove since the iterator was opened
	itOut   []*testTx
	onRead  int
	dead    bool // a call into the real pool panicked where the model has no panic: the history stops there
	terms   []string
	log     []any
	feats   map[string]bool
}

func (e *env) newAPIHist(maxTx, rule int) *apiHist {
	h := &apiHist{maxTx: maxTx, rule: rule, pend: map[sn]pendTx{}, known: map[int]bool{}, premise: true, feats: map[string]bool{}}
	cfg := palomamempool.PriorityNonceMempoolConfig[int64]{
		TxPriority: palomamempool.NewDefaultTxPriority(),
		MaxTx:      maxTx,
		OnRead:     func(sdk.Tx) { h.onRead++ },
	}
	switch rule {
	case 1:
		cfg.TxReplacement = func(op, np int64, _, _ sdk.Tx) bool { return np >= op }
	case 2:
		cfg.TxReplacement = func(op, np int64, _, _ sdk.Tx) bool { return np > op }
	case 3:
		cfg.TxReplacement = func(op, np int64, _, _ sdk.Tx) bool { return false }
	}
	h.mp = palomamempool.NewPriorityMempool(cfg)
	return h
}

func (h *apiHist) replay() map[string]any {
	return map[string]any{"max_tx": h.maxTx, "replacement_rule": h.rule, "history": h.log}
}

func (h *apiHist) after(e *env, term string, entry any) {
	cnt := h.mp.CountTx()
	h.terms = append(h.terms, emit.Pair(term, emit.ZI(int64(cnt))))
	h.log = append(h.log, entry)
	if cnt != len(h.pend) { // every history and configuration (theorem count_and_capacity)
		e.run.Violate("C19:count-differs-from-pending", fmt.Sprintf("CountTx()=%d but %d transactions are pending (MaxTx=%d)", cnt, len(h.pend), h.maxTx), h.replay())
	}
	if h.maxTx > 0 && cnt > h.maxTx {
		e.run.Violate("C19:max-tx-exceeded", fmt.Sprintf("CountTx()=%d exceeds MaxTx=%d", cnt, h.maxTx), h.replay())
	}
}

func yieldTerm(t *testTx, done, panicked bool) string {
	switch {
	case panicked:
		return "C19.YPanic"
	case done:
		return "C19.YDone"
	}
	return fmt.Sprintf("(C19.YTx %d %s)", t.sender, emit.ZU(t.seq))
}

func (h *apiHist) insert(e *env, s int, n uint64, kinds []int, ante int64, extra ...sn) {
	if h.dead {
		return
	}
	tx := e.mkTx(s, n)
	for _, x := range extra {
		tx.pubs = append(tx.pubs, e.pubs[x.s])
		tx.seqs = append(tx.seqs, x.n)
	}
	var urls []string
	for _, k := range kinds {
		m := e.kinds[k].mk()
		tx.msgs = append(tx.msgs, m)
		urls = append(urls, emit.Str(sdk.MsgTypeURL(m)))
	}
	ctx := ctxWith(ante)
	prio := e.prio.GetTxPriority(ctx, tx)
	before := h.mp.CountTx()
	old, dup := h.pend[sn{s, n}]
	err, pan := safely(func() error { return h.mp.Insert(ctx, tx) })
	if pan != nil {
		e.run.Violate("C19:insert-panics", fmt.Sprintf("Insert(sender %d, nonce %d) panicked: %v", s, n, pan), h.replay())
		h.dead = true
		return
	}
	res := "IOk"
	switch {
	case err == nil && h.maxTx < 0:
		res = "INoop"
	case err == nil:
	case errors.Is(err, sdkmempool.ErrMempoolTxMaxCapacity):
		res = "IErrCap"
	default:
		res = "IErrRule"
	}
	e.run.Count("api-insert", res)
	// oracle: the capacity rule, on the real outcome
	wantCap := h.maxTx > 0 && before >= h.maxTx
	if wantCap != (res == "IErrCap") {
		e.run.Violate("C19:max-tx-rule", fmt.Sprintf("Insert with %d transactions in a pool of MaxTx=%d returned %v", before, h.maxTx, err), h.replay())
	}
	if res == "IErrRule" && !(dup && h.rule != 0) {
		e.run.Violate("C19:insert-rejected", "Insert returned an error: "+err.Error(), h.replay())
	}
	if res == "IOk" {
		if dup || prio == math.MinInt64 {
			h.premise = false
		}
		if dup {
			h.feats["replacement"] = true
			e.run.Count("api-replacement", fmt.Sprintf("old%+d", cmp64(prio, old.prio)))
		}
		h.pend[sn{s, n}] = pendTx{tx, prio}
		h.known[s] = true
		h.itClean = false
	} else if res == "IErrRule" {
		h.feats["rule-rejected"] = true
	} else if res == "IErrCap" {
		h.feats["cap"] = true
	}
	sig := []string{emit.Pair(emit.ZI(int64(s)), emit.ZU(n))}
	for _, x := range extra {
		sig = append(sig, emit.Pair(emit.ZI(int64(x.s)), emit.ZU(x.n)))
	}
	if len(extra) > 0 {
		h.feats["multi-signer"] = true
	}
	h.after(e, fmt.Sprintf("C19.XInsert %s %s %s %s %s", emit.List(sig), emit.List(urls), emit.ZI(ante), emit.ZI(prio), res),
		map[string]any{"op": "insert", "sender": s, "nonce": n, "extra_signers": fmt.Sprint(extra), "kinds": kinds, "ante": ante, "priority": prio, "result": res})
}

func cmp64(a, b int64) int {
	switch {
	case a < b:
		return -1
	case a > b:
		return 1
	}
	return 0
}

func (h *apiHist) remove(e *env, s int, n uint64) {
	if h.dead {
		return
	}
	err, pan := safely(func() error { return h.mp.Remove(e.mkTx(s, n)) })
	if pan != nil {
		e.run.Violate("C19:remove-panics", fmt.Sprintf("Remove(sender %d, nonce %d) panicked: %v", s, n, pan), h.replay())
		h.dead = true
		return
	}
	_, was := h.pend[sn{s, n}]
	if (err == nil) != was {
		// outside the premise too: Remove is keyed by (first signer, sequence) whatever was inserted
		e.run.Violate("C19:remove-outcome", fmt.Sprintf("Remove(sender %d, nonce %d) err=%v but pending=%v", s, n, err, was), h.replay())
	}
	if err == nil {
		delete(h.pend, sn{s, n})
		h.itClean = false
	}
	h.after(e, fmt.Sprintf("C19.XRemove %d %s %s", s, emit.ZU(n), emit.Bool(err == nil)),
		map[string]any{"op": "remove", "sender": s, "nonce": n, "ok": err == nil})
}

// one iterator movement under recover
func guarded(f func() sdkmempool.Iterator) (it sdkmempool.Iterator, panicked bool) {
	defer func() {
		if r := recover(); r != nil {
			it, panicked = nil, true
		}
	}()
	return f(), false
}

func (h *apiHist) position(e *env, kind string, it sdkmempool.Iterator, panicked bool) {
	var cur *testTx
	if it != nil {
		func() { // Tx() of the position reached (under recover: the model's Tx() never panics)
			defer func() {
				if r := recover(); r != nil {
					e.run.Violate("C19:iterator-tx-panics", fmt.Sprintf("Iterator.Tx() panicked: %v", r), h.replay())
					it, h.dead = nil, true
				}
			}()
			cur = it.Tx().(*testTx)
		}()
		if h.dead {
			return
		}
		h.itOut = append(h.itOut, cur)
	}
	h.it = it
	entry := map[string]any{"op": kind, "panicked": panicked, "done": it == nil && !panicked}
	if cur != nil {
		entry["at"] = fmt.Sprintf("(%d,%d)", cur.sender, cur.seq)
	}
	if panicked {
		e.run.Count("api-iterator", "panicked")
		if h.itClean && h.premise {
			e.run.Violate("C19:select-panics", "Select/Next panicked inside the premise", h.replay())
		} else if !h.itClean && h.premise {
			h.feats["panic-after-interleaved-mutation"] = true
			e.run.Count("api-iterator", "panicked after an interleaved mutation (priorities above MinInt64)")
		}
	}
	if it == nil && !panicked {
		if h.itClean && h.premise {
			// a full, undisturbed iteration: the property, directly
			hh := &hist{pend: h.pend, premise: true, log: h.log}
			hh.oracle(e, h.itOut, false, entry)
		} else if h.itClean {
			// outside the premise: the soundness half (theorem select_sound_any_history)
			ids := make([]sn, len(h.itOut))
			for i, t := range h.itOut {
				ids[i] = sn{t.sender, t.seq}
			}
			prio := map[sn]int64{}
			for k, p := range h.pend {
				prio[k] = p.prio
			}
			oracleSN(e, ids, prio, h.replay(), false)
		} else if !h.itClean && len(h.itOut) < len(h.pend) {
			h.feats["truncated-by-interleaving"] = true
			e.run.Count("api-iterator", "ended early after an interleaved mutation")
		}
	}
	ctor := "C19.XNext"
	if kind == "open" {
		ctor = "C19.XOpen"
	}
	h.after(e, fmt.Sprintf("%s %s", ctor, yieldTerm(cur, it == nil && !panicked, panicked)), entry)
}

func (h *apiHist) open(e *env) {
	if h.dead {
		return
	}
	h.itOut = nil
	h.itClean = true
	it, panicked := guarded(func() sdkmempool.Iterator { return h.mp.Select(ctxWith(0), nil) })
	e.run.Count("api-op", "open")
	h.position(e, "open", it, panicked)
}

func (h *apiHist) next(e *env) {
	if h.it == nil || h.dead {
		return
	}
	cur := h.it
	it, panicked := guarded(func() sdkmempool.Iterator { return cur.Next() })
	e.run.Count("api-op", "next")
	if !h.itClean {
		h.feats["next-after-mutation"] = true
	}
	h.position(e, "next", it, panicked)
}

func (h *apiHist) nextSender(e *env, s int) {
	if h.dead {
		return
	}
	var got sdk.Tx
	panicked := false
	func() {
		defer func() {
			if r := recover(); r != nil {
				panicked = true
			}
		}()
		got = h.mp.NextSenderTx(sdk.AccAddress(e.pubs[s].Address()).String())
	}()
	// oracle: the lowest pending sequence number of the sender (the same object), nil for a sender never seen
	var want *pendTx
	for k, p := range h.pend {
		if k.s == s && (want == nil || k.n < want.tx.seq) {
			pp := p
			want = &pp
		}
	}
	term := "NNil"
	switch {
	case panicked:
		term = "NPanic"
		e.run.Count("api-next-sender", "panics: index of a sender whose transactions were all removed")
		h.feats["next-sender-panic"] = true
	case got != nil:
		term = fmt.Sprintf("(NTx %s)", emit.ZU(got.(*testTx).seq))
	}
	if want != nil && (panicked || got == nil || got.(*testTx).seq != want.tx.seq || (h.premise && got != sdk.Tx(want.tx))) {
		e.run.Violate("C19:next-sender-tx", fmt.Sprintf("NextSenderTx(sender %d) = %v (panicked=%v), lowest pending nonce is %d", s, got, panicked, want.tx.seq), h.replay())
	}
	if want == nil && got != nil {
		e.run.Violate("C19:next-sender-tx", fmt.Sprintf("NextSenderTx(sender %d) returned a transaction but none is pending", s), h.replay())
	}
	if want == nil && !h.known[s] && panicked {
		e.run.Violate("C19:next-sender-tx", fmt.Sprintf("NextSenderTx(sender %d) panicked for a sender never inserted", s), h.replay())
	}
	e.run.Count("api-op", "next-sender")
	h.after(e, fmt.Sprintf("C19.XNextSender %d %s", s, term), map[string]any{"op": "next-sender", "sender": s, "result": term})
}

func (h *apiHist) isEmpty(e *env) {
	if h.dead {
		return
	}
	err, pan := safely(func() error { return palomamempool.IsEmpty[int64](h.mp) })
	if pan != nil {
		e.run.Violate("C19:is-empty", fmt.Sprintf("IsEmpty panicked: %v", pan), h.replay())
		h.dead = true
		return
	}
	if (err == nil) != (len(h.pend) == 0) {
		e.run.Violate("C19:is-empty", fmt.Sprintf("IsEmpty = %v but %d transactions are pending", err, len(h.pend)), h.replay())
	}
	e.run.Count("api-op", "is-empty")
	h.after(e, fmt.Sprintf("C19.XIsEmpty %s", emit.Bool(err == nil)), map[string]any{"op": "is-empty", "empty": err == nil})
}

func (h *apiHist) finish(e *env) {
	h.after(e, fmt.Sprintf("C19.XOnReadCalls %d", h.onRead), map[string]any{"op": "on-read-calls", "calls": h.onRead})
	var fs []string
	for f := range h.feats {
		fs = append(fs, f)
		e.run.Count("api-feature", f)
	}
	sort.Strings(fs)
	e.run.Count("history", "api")
	e.run.Count("api-config", fmt.Sprintf("MaxTx=%d rule=%d", sign(h.maxTx), h.rule))
	e.run.Case(fmt.Sprintf("C19.CApi %s %d %s", emit.ZI(int64(h.maxTx)), h.rule, emit.List(h.terms)), len(fs) > 0,
		map[string]any{"kind": "api", "features": fs, "max_tx": h.maxTx, "rule": h.rule, "history": h.log})
}

func sign(x int) int {
	switch {
	case x < 0:
		return -1
	case x > 0:
		return 1
	}
	return 0
}

func (e *env) genAPIHistory() {
	r := e.run.Rng
	maxTx, rule := 0, 0
	switch r.Intn(10) {
	case 0, 1, 2:
		maxTx = 1 + r.Intn(6)
	case 3:
		maxTx = -1 - r.Intn(3)
	}
	if r.Intn(3) == 0 {
		rule = 1 + r.Intn(3)
	}
	h := e.newAPIHist(maxTx, rule)
	nSenders := 1 + r.Intn(6)
	senders := r.Perm(8)[:nSenders]
	nops := 3 + r.Intn(18)
	dupHeavy := r.Intn(3) == 0
	tieHeavy := r.Intn(2) == 0
	for i := 0; i < nops && !h.dead; i++ {
		x := r.Intn(100)
		switch {
		case x < 40:
			s := senders[r.Intn(nSenders)]
			n := uint64(r.Intn(5))
			if r.Intn(15) == 0 {
				n = emit.U64(r)
			}
			if _, dup := h.pend[sn{s, n}]; dup && !(dupHeavy && r.Intn(2) == 0) {
				for n = 0; ; n++ {
					if _, d := h.pend[sn{s, n}]; !d {
						break
					}
				}
			}
			ante := int64(42)
			if !tieHeavy || r.Intn(3) == 0 {
				ante = anteChoices[r.Intn(len(anteChoices))]
			}
			if r.Intn(40) == 0 {
				ante = math.MinInt64
			}
			var extra []sn
			if r.Intn(7) == 0 {
				for k := 1 + r.Intn(2); k > 0; k-- {
					extra = append(extra, sn{r.Intn(8), uint64(r.Intn(5))})
				}
			}
			h.insert(e, s, n, e.genKinds(r), ante, extra...)
		case x < 52:
			if len(h.pend) > 0 && r.Intn(5) != 0 {
				keys := make([]sn, 0, len(h.pend))
				for k := range h.pend {
					keys = append(keys, k)
				}
				sort.Slice(keys, func(i, j int) bool { return keys[i].s < keys[j].s || (keys[i].s == keys[j].s && keys[i].n < keys[j].n) })
				// while an iterator is open, prefer the transaction it stands on / the one just behind it
				if h.it != nil && len(h.itOut) > 0 && r.Intn(2) == 0 {
					t := h.itOut[len(h.itOut)-1-r.Intn(min(2, len(h.itOut)))]
					if r.Intn(2) == 0 {
						// a LATER transaction of the sender just yielded: the iterator may stand on its index node
						var later []sn
						for _, k := range keys {
							if k.s == t.sender && k.n > t.seq {
								later = append(later, k)
							}
						}
						if len(later) > 0 {
							k := later[len(later)-1-r.Intn(min(2, len(later)))]
							h.remove(e, k.s, k.n)
							break
						}
					}
					h.remove(e, t.sender, t.seq)
				} else {
					k := keys[r.Intn(len(keys))]
					h.remove(e, k.s, k.n)
				}
			} else {
				h.remove(e, r.Intn(8), uint64(r.Intn(5)))
			}
		case x < 62:
			h.open(e)
		case x < 88:
			if h.it == nil {
				h.open(e)
			} else {
				h.next(e)
			}
		case x < 95:
			h.nextSender(e, r.Intn(8))
		default:
			h.isEmpty(e)
		}
	}
	// finish the open iteration, then the final observations
	for k := 0; h.it != nil && k < 64 && !h.dead; k++ {
		h.next(e)
	}
	if !h.dead {
		h.nextSender(e, senders[0])
		h.isEmpty(e)
	}
	h.finish(e)
}

var _ = cryptotypes.PubKey(nil)
