package c19

// Second round: the mempool AS THE APPLICATION USES IT. A real application instance (app.New, InitChain
// with funded accounts, the real ante chain) is driven through ABCI: CheckTx (new and re-check),
// PrepareProposal (the SDK's DefaultProposalHandler over mempool.SelectBy's fallback loop),
// FinalizeBlock + Commit. Observed: the outcome of every CheckTx / block transaction, the proposal, the
// (sender, nonce) sequence of Select on app.Mempool(), CountTx after every step. The Coq side re-runs
// the admission rule (sequence numbers of the check state / committed state), the SDK handler's
// selection loop and the mempool model on the same steps.

import (
	"encoding/json"
	"fmt"
	stdmath "math"
	"math/big"
	"math/rand"
	"sort"
	"strings"

	"cosmossdk.io/math"
	abci "github.com/cometbft/cometbft/abci/types"
	cmtproto "github.com/cometbft/cometbft/proto/tendermint/types"
	cmttypes "github.com/cometbft/cometbft/types"
	"github.com/cosmos/cosmos-sdk/crypto/keys/secp256k1"
	cryptotypes "github.com/cosmos/cosmos-sdk/crypto/types"
	"github.com/cosmos/cosmos-sdk/testutil/mock"
	simtestutil "github.com/cosmos/cosmos-sdk/testutil/sims"
	sdk "github.com/cosmos/cosmos-sdk/types"
	sdkmempool "github.com/cosmos/cosmos-sdk/types/mempool"
	"github.com/cosmos/cosmos-sdk/x/auth/signing"
	authtypes "github.com/cosmos/cosmos-sdk/x/auth/types"
	banktypes "github.com/cosmos/cosmos-sdk/x/bank/types"
	palomaapp "github.com/palomachain/paloma/v2/app"
	palomamempool "github.com/palomachain/paloma/v2/app/mempool"
	"github.com/palomachain/paloma/v2/verifharness/emit"
	consensustypes "github.com/palomachain/paloma/v2/x/consensus/types"
	schedulertypes "github.com/palomachain/paloma/v2/x/scheduler/types"
	valsettypes "github.com/palomachain/paloma/v2/x/valset/types"
)

const nAppAcc = 6

// the fee and gas limit a transaction DECLARES (TxFeeSkipper never deducts a fee, so any amount passes)
type feeGas struct {
	amount *big.Int
	gas    uint64
}

func (f feeGas) String() string {
	if f.amount == nil {
		return "no fee"
	}
	return fmt.Sprintf("fee %sugrain gas %d", f.amount, f.gas)
}

// the whole range: none, realistic, a gas price at the edge of the class band (MaxInt64-3 .. MaxInt64), beyond int64
func genFee(r *rand.Rand) feeGas {
	gas := []uint64{200000, 400000, 1000000}[r.Intn(3)]
	g := new(big.Int).SetUint64(gas)
	mul := func(p int64) *big.Int { return new(big.Int).Mul(g, big.NewInt(p)) }
	switch r.Intn(10) {
	case 0, 1, 2:
		return feeGas{}
	case 3:
		return feeGas{big.NewInt(int64(r.Intn(5000))), gas}
	case 4:
		return feeGas{mul(int64(1 + r.Intn(100))), gas}
	case 5:
		return feeGas{mul(43), gas}
	case 6:
		return feeGas{mul(stdmath.MaxInt64 - int64(r.Intn(6))), gas}
	case 7:
		return feeGas{mul(stdmath.MaxInt64), gas}
	case 8:
		return feeGas{new(big.Int).Lsh(big.NewInt(1), uint(64+r.Intn(150))), gas}
	default:
		return feeGas{mul(1 << 40), gas}
	}
}

type appTx struct {
	fee     string
	bz      []byte
	signers []sn
	urls    []string
	prio    int64
}

type appHist struct {
	app       *palomaapp.App
	mp        sdkmempool.Mempool // app.Mempool(): must be Paloma's PriorityNonceMempool[int64]
	built     string             // how the application was built
	valHash   []byte
	height    int64
	accNums   []uint64
	next      []uint64 // the sequence the check state expects per account (as the harness believes)
	pend      map[sn]*appTx
	premise   bool // no (sender, nonce) admitted while pending so far
	disciplin bool // every block is followed by a re-check of every transaction still pending
	terms     []string
	log       []any
	feats     map[string]bool
	initSeqs  []string
	dead      bool // an ABCI call failed in a way a well-formed history cannot explain: reported, the history stops
}

// an ABCI call of the real application failed for a reason the history does not explain (e.g. the pool panicked
// inside baseapp, which recovers it into an error)
func (h *appHist) fail(e *env, what string) {
	e.run.Violate("C19:app-abci-failure", what, map[string]any{"app_built_as": h.built, "app_history": h.log})
	h.dead = true
}

func (e *env) addr(i int) sdk.AccAddress { return sdk.AccAddress(e.pubs[i].Address()) }

// maxTxs == noPalomad: app.New with no base-app options; otherwise the way cmd/palomad builds it with
// mempool.max-txs = maxTxs in app.toml (-1 is the SDK default: "no-op mempool")
const noPalomad = -99

func (e *env) newAppHist(r *rand.Rand) *appHist { return e.newAppHistWith(r, noPalomad) }

func (e *env) newAppHistWith(r *rand.Rand, maxTxs int, seqs ...uint64) *appHist {
	h := &appHist{pend: map[sn]*appTx{}, premise: true, feats: map[string]bool{}, built: "app.New(logger, db, nil, true, appOpts)"}
	if maxTxs == noPalomad {
		h.app = newApp()
	} else {
		h.app = newPalomadApp(maxTxs)
		h.built = fmt.Sprintf("cmd/palomad newApp: app.New(..., append(server.DefaultBaseappOptions(appOpts), baseapp.SetOptimisticExecution())...) with mempool.max-txs = %d", maxTxs)
		h.feats[fmt.Sprintf("built-like-palomad max-txs=%d", maxTxs)] = true
	}
	h.mp = h.app.Mempool()
	if _, ok := h.mp.(*palomamempool.PriorityNonceMempool[int64]); !ok {
		// reported; the history goes on through the Mempool interface so that the consequences (CheckTx admits, the pool
		// does not hold / does not order) are reported with their inputs as well
		e.run.Violate("C19:app-mempool-type", fmt.Sprintf("the application's mempool (BaseApp.Mempool(), where CheckTx inserts and PrepareProposal selects) is %T, not app/mempool.PriorityNonceMempool[int64]; application built as: %s",
			h.mp, h.built), map[string]any{"app_built_as": h.built, "mempool": fmt.Sprintf("%T", h.mp)})
		h.feats["foreign-mempool"] = true
	}
	pv := mock.NewPV()
	pub, _ := pv.GetPubKey()
	valSet := cmttypes.NewValidatorSet([]*cmttypes.Validator{cmttypes.NewValidator(pub, 1)})
	h.valHash = valSet.Hash()
	var accs []authtypes.GenesisAccount
	var bals []banktypes.Balance
	for i := 0; i < nAppAcc; i++ {
		seq := uint64(r.Intn(3))
		if i < len(seqs) {
			seq = seqs[i]
		}
		h.next = append(h.next, seq)
		h.initSeqs = append(h.initSeqs, emit.Pair(emit.ZI(int64(i)), emit.ZU(seq)))
		acc := authtypes.NewBaseAccount(e.addr(i), e.pubs[i], uint64(i), seq)
		accs = append(accs, acc)
		bals = append(bals, banktypes.Balance{Address: acc.GetAddress().String(),
			Coins: sdk.NewCoins(sdk.NewCoin("ugrain", math.NewInt(1_000_000_000_000)), sdk.NewCoin(sdk.DefaultBondDenom, math.NewInt(1_000_000_000_000)))})
	}
	gs, err := simtestutil.GenesisStateWithValSet(h.app.AppCodec(), h.app.DefaultGenesis(), valSet, accs, bals...)
	if err != nil {
		panic(err)
	}
	stateBytes, _ := json.Marshal(gs)
	if _, err = h.app.InitChain(&abci.RequestInitChain{ChainId: appChainID, ConsensusParams: simtestutil.DefaultConsensusParams,
		AppStateBytes: stateBytes, InitialHeight: 1}); err != nil {
		panic(err)
	}
	if _, err = h.app.FinalizeBlock(&abci.RequestFinalizeBlock{Height: 1, NextValidatorsHash: h.valHash}); err != nil {
		panic(err)
	}
	if _, err = h.app.Commit(); err != nil {
		panic(err)
	}
	h.height = 1
	ctx := h.app.GetBaseApp().NewUncachedContext(false, cmtHeader(1))
	for i := 0; i < nAppAcc; i++ {
		a := h.app.AccountKeeper.GetAccount(ctx, e.addr(i))
		if a == nil || a.GetSequence() != h.next[i] {
			panic("genesis account not as configured")
		}
		h.accNums = append(h.accNums, a.GetAccountNumber())
	}
	return h
}

// message kinds of the app level: 0 other (bank send), 1 consensus, 2 scheduler, 3 valset (Paloma messages carry
// their signers in Metadata.Signers: ONE message, several signers), 4 two bank sends (several messages)
func (e *env) appMsgs(kind int, signers []int) []sdk.Msg {
	meta := func() valsettypes.MsgMetadata {
		m := valsettypes.MsgMetadata{Creator: e.addr(signers[0]).String()}
		for _, s := range signers {
			m.Signers = append(m.Signers, e.addr(s).String())
		}
		return m
	}
	send := func(s int) sdk.Msg {
		return banktypes.NewMsgSend(e.addr(s), e.addr((s+1)%nAppAcc), sdk.NewCoins(sdk.NewInt64Coin("ugrain", 7)))
	}
	switch kind {
	case 1:
		return []sdk.Msg{&consensustypes.MsgAddMessagesSignatures{Metadata: meta()}}
	case 2:
		return []sdk.Msg{&schedulertypes.MsgExecuteJob{JobID: "job", Metadata: meta()}}
	case 3:
		return []sdk.Msg{&valsettypes.MsgKeepAlive{PigeonVersion: "v9.9.9", Metadata: meta()}}
	case 4:
		var out []sdk.Msg
		for _, s := range signers {
			out = append(out, send(s))
		}
		return out
	}
	return []sdk.Msg{send(signers[0])}
}

func (h *appHist) build(e *env, kind int, signers []sn, fee feeGas) *appTx {
	var who []int
	var accNums, seqs []uint64
	var privs []cryptotypes.PrivKey
	for _, x := range signers {
		who = append(who, x.s)
		accNums = append(accNums, h.accNums[x.s])
		seqs = append(seqs, x.n)
		privs = append(privs, e.privs[x.s])
	}
	if kind == 0 { // one bank send: one signer
		who, accNums, seqs, privs = who[:1], accNums[:1], seqs[:1], privs[:1]
		signers = signers[:1]
	}
	msgs := e.appMsgs(kind, who)
	txc := h.app.TxConfig()
	coins := sdk.NewCoins()
	if fee.amount != nil && fee.amount.Sign() > 0 {
		coins = sdk.NewCoins(sdk.NewCoin("ugrain", math.NewIntFromBigInt(fee.amount)))
	}
	gas := fee.gas
	if gas == 0 {
		gas = 400000
	}
	tx, err := simtestutil.GenSignedMockTx(rand.New(rand.NewSource(1)), txc, msgs, coins, gas, appChainID, accNums, seqs, privs...)
	if err != nil {
		panic(err)
	}
	bz, err := txc.TxEncoder()(tx)
	if err != nil {
		panic(err)
	}
	// what the pool will see: the signer list in signature order, the first one keys the transaction
	sigs, err := tx.(signing.SigVerifiableTx).GetSignaturesV2()
	if err != nil || len(sigs) != len(signers) {
		panic(fmt.Sprintf("signatures: %v (%d, expected %d)", err, len(sigs), len(signers)))
	}
	for i, sg := range sigs {
		if sdk.AccAddress(sg.PubKey.Address()).String() != e.addr(signers[i].s).String() || sg.Sequence != signers[i].n {
			panic("signature order differs from the signer list")
		}
	}
	at := &appTx{bz: bz, signers: signers, fee: fee.String()}
	for _, m := range msgs {
		at.urls = append(at.urls, emit.Str(sdk.MsgTypeURL(m)))
	}
	// the priority GetTxPriority gives it under the CheckTx priority the application's TxFeeChecker assigns (42)
	at.prio = e.prio.GetTxPriority(ctxWith(42), tx)
	return at
}

type cryptoPriv = *secp256k1.PrivKey
type sdkIterator = sdkmempool.Iterator

func cmtHeader(h int64) cmtproto.Header { return cmtproto.Header{Height: h, ChainID: appChainID} }

func snTerm(xs []sn) string {
	items := make([]string, len(xs))
	for i, x := range xs {
		items[i] = emit.Pair(emit.ZI(int64(x.s)), emit.ZU(x.n))
	}
	return emit.List(items)
}

func (h *appHist) after(e *env, term string, entry any) { h.after2(e, term, entry, true) }

func (h *appHist) after2(e *env, term string, entry any, check bool) {
	h.terms = append(h.terms, emit.Pair(term, emit.ZI(int64(h.mp.CountTx()))))
	h.log = append(h.log, entry)
	if check {
		h.countCheck(e)
	}
}

func (h *appHist) countCheck(e *env) {
	if cnt := h.mp.CountTx(); cnt != len(h.pend) {
		e.run.Violate("C19:count-differs-from-pending", fmt.Sprintf("application pool: CountTx()=%d but %d admitted transactions are pending", cnt, len(h.pend)),
			map[string]any{"app_built_as": h.built, "app_history": h.log})
	}
}

// ErrWrongSequence; a failed re-check of a transaction that is no longer in the pool comes back joined with
// ErrTxNotFound (code 1, codespace undefined)
func seqMismatch(code uint32, codespace, log string) bool {
	return (code == 32 && codespace == "sdk") || (code != 0 && strings.Contains(log, "account sequence mismatch"))
}

func (h *appHist) check(e *env, kind int, signers []sn, fee ...feeGas) *appTx {
	if h.dead {
		return nil
	}
	var fg feeGas
	if len(fee) > 0 {
		fg = fee[0]
	}
	at := h.build(e, kind, signers, fg)
	res, err := h.app.CheckTx(&abci.RequestCheckTx{Tx: at.bz, Type: abci.CheckTxType_New})
	if err != nil {
		h.fail(e, "CheckTx: "+err.Error())
		return nil
	}
	ok := res.Code == 0
	if !ok && !seqMismatch(res.Code, res.Codespace, res.Log) {
		h.fail(e, fmt.Sprintf("CheckTx of a well-formed transaction (signers %v) failed for another reason than its sequence: code %d %s: %.300s", at.signers, res.Code, res.Codespace, res.Log))
		return nil
	}
	key := at.signers[0]
	if ok {
		if _, dup := h.pend[key]; dup {
			h.premise = false
			h.feats["admitted-duplicate"] = true
			if h.disciplin {
				e.run.Violate("C19:admission-admits-duplicate", fmt.Sprintf("CheckTx admitted (sender %d, nonce %d) while a transaction with that sender and sequence is pending, although every pending transaction was re-checked after each block",
					key.s, key.n), map[string]any{"app_built_as": h.built, "app_history": h.log})
			}
		}
		h.pend[key] = at
		for _, x := range at.signers {
			h.next[x.s] = x.n + 1
		}
	} else {
		h.feats["rejected-sequence"] = true
	}
	if len(at.signers) > 1 {
		h.feats["multi-signer"] = true
	}
	e.run.Count("app-check", fmt.Sprintf("kind%d ok=%v", kind, ok))
	h.after(e, fmt.Sprintf("C19.PCheck %s %s %s %s", snTerm(at.signers), emit.List(at.urls), emit.ZI(at.prio), emit.Bool(ok)),
		map[string]any{"op": "check", "kind": kind, "declared": at.fee, "signers": fmt.Sprint(at.signers), "priority_by_class": at.prio, "ok": ok})
	if ok {
		return at
	}
	return nil
}

func (h *appHist) recheck(e *env, at *appTx) {
	if h.dead {
		return
	}
	res, err := h.app.CheckTx(&abci.RequestCheckTx{Tx: at.bz, Type: abci.CheckTxType_Recheck})
	if err != nil {
		h.fail(e, "CheckTx (re-check): "+err.Error())
		return
	}
	ok := res.Code == 0
	if !ok && !seqMismatch(res.Code, res.Codespace, res.Log) {
		h.fail(e, fmt.Sprintf("re-check of %v failed for another reason than the sequence: code %d %s: %.300s", at.signers, res.Code, res.Codespace, res.Log))
		return
	}
	key := at.signers[0]
	if ok {
		for _, x := range at.signers {
			h.next[x.s] = x.n + 1
		}
	} else {
		delete(h.pend, key) // baseapp removes it from the pool (by first signer and sequence)
		h.feats["recheck-removed"] = true
	}
	e.run.Count("app-op", fmt.Sprintf("recheck ok=%v", ok))
	h.after(e, fmt.Sprintf("C19.PRecheck %s %s", snTerm(at.signers), emit.Bool(ok)),
		map[string]any{"op": "recheck", "signers": fmt.Sprint(at.signers), "ok": ok})
}

func (h *appHist) decodeKeys(e *env, txs [][]byte) []sn {
	var out []sn
	for _, bz := range txs {
		tx, err := h.app.TxConfig().TxDecoder()(bz)
		if err != nil {
			panic(err)
		}
		sigs, _ := tx.(signing.SigVerifiableTx).GetSignaturesV2()
		a := sdk.AccAddress(sigs[0].PubKey.Address()).String()
		for i := 0; i < nAppAcc; i++ {
			if e.addr(i).String() == a {
				out = append(out, sn{i, sigs[0].Sequence})
			}
		}
	}
	return out
}

func (h *appHist) pendPrio() map[sn]int64 {
	m := map[sn]int64{}
	for k, t := range h.pend {
		m[k] = t.prio
	}
	return m
}

func (h *appHist) prepare(e *env) [][]byte {
	if h.dead {
		return nil
	}
	consecutive := h.allConsecutive(e)
	// What the handler removes from the pool is what its iteration over Select YIELDS and its verification refuses. A
	// transaction the pool holds but Select does not yield (outside the premise: a replaced transaction whose stale
	// sender-index priority hides it, theorem select_complete_without_premise_refuted) is neither visited nor removed.
	// So, when something may be refused: what Select yields before the proposal and no longer afterwards was removed.
	var before map[sn]bool
	if !consecutive {
		before = map[sn]bool{}
		for _, k := range h.selectObs(e, true) {
			before[k] = true
		}
		if h.dead {
			return nil
		}
	}
	res, err := h.app.PrepareProposal(&abci.RequestPrepareProposal{MaxTxBytes: 10_000_000, Height: h.height + 1})
	if err != nil {
		h.fail(e, "PrepareProposal: "+err.Error())
		return nil
	}
	out := h.decodeKeys(e, res.Txs)
	entry := map[string]any{"op": "prepare", "proposal": fmt.Sprint(out)}
	if h.premise && consecutive {
		// every pending transaction continues its sender's committed sequence: nothing is skipped or removed,
		// the proposal IS the Select order and the whole property applies to it
		oracleSN(e, out, h.pendPrio(), map[string]any{"app_built_as": h.built, "app_history": append(append([]any{}, h.log...), entry)}, true)
		h.feats["proposal-checked-by-oracle"] = true
	}
	e.run.Count("app-op", "prepare")
	h.after2(e, fmt.Sprintf("C19.PPrepare %s", snTerm(out)), entry, consecutive)
	if !consecutive {
		left := map[sn]bool{}
		for _, k := range h.selectObs(e, true) {
			left[k] = true
		}
		for k := range h.pend {
			if before[k] && !left[k] {
				delete(h.pend, k)
				h.feats["prepare-removed-invalid"] = true
			} else if !before[k] && !left[k] {
				h.feats["pending-but-hidden-from-select (outside the premise)"] = true
			}
		}
		h.countCheck(e) // CountTx against the bookkeeping, for every history
	}
	return res.Txs
}

func (h *appHist) decodeOne(e *env, tx sdk.Tx) sn {
	sigs, _ := tx.(signing.SigVerifiableTx).GetSignaturesV2()
	a := sdk.AccAddress(sigs[0].PubKey.Address()).String()
	for i := 0; i < nAppAcc; i++ {
		if e.addr(i).String() == a {
			return sn{i, sigs[0].Sequence}
		}
	}
	panic("unknown signer")
}

// every pending transaction has one signer and the pending sequence numbers of each account continue its
// committed sequence without a gap
func (h *appHist) allConsecutive(e *env) bool {
	bySigner := map[int][]uint64{}
	for _, t := range h.pend {
		if len(t.signers) > 1 {
			return false
		}
		bySigner[t.signers[0].s] = append(bySigner[t.signers[0].s], t.signers[0].n)
	}
	ctx := h.app.GetBaseApp().NewUncachedContext(false, cmtHeader(h.height))
	for s, ns := range bySigner {
		sort.Slice(ns, func(i, j int) bool { return ns[i] < ns[j] })
		base := h.app.AccountKeeper.GetAccount(ctx, e.addr(s)).GetSequence()
		for i, n := range ns {
			if n != base+uint64(i) {
				return false
			}
		}
	}
	return true
}

func (h *appHist) selectObs(e *env, resync bool) []sn {
	if h.dead {
		return nil
	}
	var out []sn
	it, panicked := guarded(func() sdkIterator { return h.mp.Select(ctxWith(0), nil) })
	for it != nil && !panicked {
		cur := it
		it, panicked = guarded(func() sdkIterator {
			out = append(out, h.decodeOne(e, cur.Tx()))
			return cur.Next()
		})
	}
	entry := map[string]any{"op": "select", "out": fmt.Sprint(out), "panicked": panicked}
	if h.premise && !resync {
		if panicked {
			e.run.Violate("C19:select-panics", "Select/Next panicked on the application's pool", map[string]any{"app_built_as": h.built, "app_history": append(append([]any{}, h.log...), entry)})
		} else {
			oracleSN(e, out, h.pendPrio(), map[string]any{"app_built_as": h.built, "app_history": append(append([]any{}, h.log...), entry)}, true)
		}
	} else if !panicked && !resync {
		oracleSN(e, out, h.pendPrio(), map[string]any{"app_built_as": h.built, "app_history": append(append([]any{}, h.log...), entry)}, false)
	}
	e.run.Count("app-op", "select")
	h.after2(e, fmt.Sprintf("C19.PSelect %s", snTerm(out)), entry, !resync)
	return out
}

func (h *appHist) block(e *env, txs []*appTx) {
	var bzs [][]byte
	for _, t := range txs {
		bzs = append(bzs, t.bz)
	}
	if h.dead {
		return
	}
	h.height++
	res, err := h.app.FinalizeBlock(&abci.RequestFinalizeBlock{Height: h.height, Txs: bzs, NextValidatorsHash: h.valHash})
	if err != nil {
		h.fail(e, "FinalizeBlock: "+err.Error())
		return
	}
	var oks, sigTerms []string
	for i, t := range txs {
		r := res.TxResults[i]
		ok := !seqMismatch(r.Code, r.Codespace, r.Log) // the ante handler passed (the message itself may fail: no validator, no job)
		oks = append(oks, emit.Bool(ok))
		sigTerms = append(sigTerms, snTerm(t.signers))
		if ok {
			delete(h.pend, t.signers[0])
		} else {
			h.feats["block-tx-bad-sequence"] = true
		}
	}
	if _, err = h.app.Commit(); err != nil {
		panic(err)
	}
	// the check state is the committed state again
	ctx := h.app.GetBaseApp().NewUncachedContext(false, cmtHeader(h.height))
	for i := 0; i < nAppAcc; i++ {
		h.next[i] = h.app.AccountKeeper.GetAccount(ctx, e.addr(i)).GetSequence()
	}
	e.run.Count("app-op", "block")
	h.after(e, fmt.Sprintf("C19.PBlock %s %s", emit.List(sigTerms), emit.List(oks)),
		map[string]any{"op": "block", "txs": len(txs), "oks": fmt.Sprint(oks)})
}

func (h *appHist) pendingSorted() []*appTx {
	keys := make([]sn, 0, len(h.pend))
	for k := range h.pend {
		keys = append(keys, k)
	}
	sort.Slice(keys, func(i, j int) bool { return keys[i].s < keys[j].s || (keys[i].s == keys[j].s && keys[i].n < keys[j].n) })
	out := make([]*appTx, len(keys))
	for i, k := range keys {
		out[i] = h.pend[k]
	}
	return out
}

func (h *appHist) finish(e *env) {
	var fs []string
	for f := range h.feats {
		fs = append(fs, f)
		e.run.Count("app-feature", f)
	}
	sort.Strings(fs)
	e.run.Count("history", "app")
	e.run.Case(fmt.Sprintf("C19.CApp %s %s", emit.List(h.initSeqs), emit.List(h.terms)), len(fs) > 0,
		map[string]any{"kind": "app", "app_built_as": h.built, "features": fs, "disciplined": h.disciplin, "history": h.log})
}

func (e *env) genAppHistory() {
	r := e.run.Rng
	built := noPalomad
	if r.Intn(8) == 0 { // the way cmd/palomad builds it
		built = []int{-1, 0, 5000}[r.Intn(3)]
	}
	h := e.newAppHistWith(r, built)
	if h == nil {
		return
	}
	h.disciplin = r.Intn(3) != 0
	var all []*appTx // every transaction ever admitted (CometBFT's view, for re-checks of removed ones too)
	nops := 6 + r.Intn(14)
	for i := 0; i < nops && !h.dead; i++ {
		switch x := r.Intn(100); {
		case x < 60:
			s := r.Intn(nAppAcc)
			n := h.next[s]
			switch r.Intn(12) {
			case 0:
				if n > 0 {
					n--
				}
			case 1:
				n++
			}
			kind := []int{0, 0, 0, 1, 2, 3, 4}[r.Intn(7)]
			signers := []sn{{s, n}}
			if kind != 0 && r.Intn(4) == 0 {
				s2 := (s + 1 + r.Intn(nAppAcc-1)) % nAppAcc
				n2 := h.next[s2]
				if r.Intn(6) == 0 {
					n2++
				}
				signers = append(signers, sn{s2, n2})
			}
			fee := genFee(r)
			if fee.amount != nil {
				h.feats["declared-fee"] = true
			}
			if t := h.check(e, kind, signers, fee); t != nil {
				all = append(all, t)
			}
		case x < 70:
			h.selectObs(e, false)
		case x < 82:
			h.prepare(e)
		default:
			// a block: the proposal (or a part of it, or something else CometBFT might hold), then Commit
			prop := h.prepare(e)
			keys := h.decodeKeys(e, prop)
			var txs []*appTx
			for _, k := range keys {
				if t, ok := h.pend[k]; ok {
					txs = append(txs, t)
				}
			}
			switch r.Intn(4) {
			case 0:
				txs = txs[:len(txs)/2]
			case 1:
				if len(txs) > 1 {
					txs = txs[1:] // the first one is left out: the block has a sequence gap for its sender
				}
			}
			h.block(e, txs)
			if h.disciplin {
				// CometBFT re-checks what is left in its pool, in its (arrival) order
				for _, t := range all {
					if cur, ok := h.pend[t.signers[0]]; ok && cur == t {
						h.recheck(e, t)
					}
				}
			} else if r.Intn(2) == 0 && len(all) > 0 {
				h.recheck(e, all[r.Intn(len(all))])
			}
		}
	}
	h.selectObs(e, false)
	h.finish(e)
}

// Scripted application histories, run once per check (each on a fresh application):
//  A: a pending transaction that is NOT re-checked after a Commit — the check state falls back to its sequence number
//     and a second transaction with the same (sender, sequence) is admitted (theorem admission_without_recheck_refuted);
//  B: the same with the re-check — the duplicate is refused (theorem admission_gives_unique_sender_nonce);
//  C: the pool keys a transaction by its FIRST signer: a two-signer validator-set transaction is selected before the
//     ordinary transaction that carries its second signer's previous sequence number; the SDK proposal handler's
//     verification of it fails (second signer's sequence is ahead) and the handler removes it from the pool.
func (e *env) appWitnesses() {
	r := rand.New(rand.NewSource(19))
	for _, script := range []string{"A", "B", "C", "D", "P-1", "P0", "P5000"} {
		built := noPalomad
		switch script {
		case "P-1":
			built = -1
		case "P0":
			built = 0
		case "P5000":
			built = 5000
		}
		h := e.newAppHistWith(r, built)
		if h == nil {
			return
		}
		h.disciplin = script == "B"
		n0, n1 := h.next[0], h.next[1]
		switch script {
		case "A", "B":
			t0 := h.check(e, 0, []sn{{0, n0}})
			t1 := h.check(e, 0, []sn{{0, n0 + 1}})
			if t0 == nil || t1 == nil {
				if !h.dead {
					h.fail(e, "witness "+script+": well-sequenced transactions were not admitted")
				}
				h.finish(e)
				continue
			}
			h.block(e, []*appTx{t0})
			if script == "B" {
				h.recheck(e, t1)
			}
			dup := h.check(e, 1, []sn{{0, n0 + 1}}) // another transaction with the pending (sender, sequence)
			e.run.Count("app-witness", fmt.Sprintf("%s: duplicate admitted=%v", script, dup != nil))
			if (dup != nil) != (script == "A") {
				e.run.Violate("C19:admission-witness", fmt.Sprintf("script %s: a second transaction with a pending (sender, sequence) was admitted=%v", script, dup != nil),
					map[string]any{"app_built_as": h.built, "app_history": h.log})
			}
			h.selectObs(e, false)
			if script == "A" {
				h.recheck(e, t1) // CometBFT re-checks the OLD one later: it fails and baseapp removes the pool entry — the new transaction's
				h.selectObs(e, false)
			}
		case "C":
			u := h.check(e, 0, []sn{{1, n1}})
			a := h.check(e, 3, []sn{{0, n0}, {1, n1 + 1}})
			if u == nil || a == nil {
				if !h.dead {
					h.fail(e, "witness C: well-sequenced transactions were not admitted")
				}
				h.finish(e)
				continue
			}
			h.selectObs(e, false)
			prop := h.decodeKeys(e, h.prepare(e))
			e.run.Count("app-witness", fmt.Sprintf("C: proposal %v, pool after it %d", prop, h.mp.CountTx()))
		case "D", "P-1", "P0", "P5000":
			// D: ordinary transactions DECLARING huge fees (gas price at and beyond MaxInt64) against other senders'
			//    class transactions; P*: the application built the way cmd/palomad builds it. One pending transaction per
			//    sender, admitted in the reverse of the order the property demands.
			huge := new(big.Int).Mul(big.NewInt(400000), big.NewInt(stdmath.MaxInt64))
			h.check(e, 0, []sn{{0, h.next[0]}}, feeGas{huge, 400000})
			h.check(e, 4, []sn{{1, h.next[1]}, {2, h.next[2]}}, feeGas{new(big.Int).Lsh(big.NewInt(1), 200), 400000})
			h.check(e, 3, []sn{{3, h.next[3]}})
			h.check(e, 2, []sn{{4, h.next[4]}})
			h.check(e, 1, []sn{{5, h.next[5]}})
			h.selectObs(e, false)
			h.prepare(e)
		}
		h.feats["witness-"+script] = true
		h.finish(e)
	}
}


// corpus: {"app":{"init_seqs":[..6..],"built":-99},"ops":[["c",kind,[[acct,seq],..],"declared fee (decimal)",gas], ["rc",[acct,seq]],
// ["s"], ["p"], ["b",[[acct,seq],..]]]} — CheckTx / re-check of the pending tx keyed (acct,seq) / Select / PrepareProposal / block of the listed pending txs + Commit
func (e *env) replayAppCorpus(initSeqs []uint64, built int, ops [][]json.RawMessage) {
	if built == 0 {
		built = noPalomad
	}
	h := e.newAppHistWith(rand.New(rand.NewSource(19)), built, initSeqs...)
	if h == nil {
		return
	}
	keysOf := func(raw json.RawMessage) []sn {
		var xs [][2]uint64
		json.Unmarshal(raw, &xs)
		var out []sn
		for _, x := range xs {
			out = append(out, sn{int(x[0]), x[1]})
		}
		return out
	}
	for _, o := range ops {
		var tag string
		json.Unmarshal(o[0], &tag)
		switch tag {
		case "c":
			var kind int
			json.Unmarshal(o[1], &kind)
			var fg feeGas
			if len(o) > 4 {
				var amt string
				json.Unmarshal(o[3], &amt)
				if a, ok := new(big.Int).SetString(amt, 10); ok {
					fg.amount = a
				}
				json.Unmarshal(o[4], &fg.gas)
			}
			h.check(e, kind, keysOf(o[2]), fg)
		case "rc":
			var x [2]uint64
			json.Unmarshal(o[1], &x)
			if t, ok := h.pend[sn{int(x[0]), x[1]}]; ok {
				h.recheck(e, t)
			}
		case "s":
			h.selectObs(e, false)
		case "p":
			h.prepare(e)
		case "b":
			var txs []*appTx
			for _, k := range keysOf(o[1]) {
				if t, ok := h.pend[k]; ok {
					txs = append(txs, t)
				}
			}
			h.block(e, txs)
		}
	}
	h.feats["corpus"] = true
	h.finish(e)
}
