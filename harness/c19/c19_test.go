package c19

// Correspondence harness + direct oracle for C19: drives the real app/mempool.PriorityNonceMempool[int64]
// (the configuration app.go installs) with histories of Insert / Remove / Select, records the
// (sender, nonce) sequence of every Select(..).Next() walk, Remove's outcome, the real GetTxPriority
// of every inserted transaction and CountTx() after every operation.

import (
	"encoding/json"
	"fmt"
	"math"
	"math/rand"
	"os"
	"path/filepath"
	"sort"
	"strings"
	"testing"

	"cosmossdk.io/log"
	tmproto "github.com/cometbft/cometbft/proto/tendermint/types"
	"github.com/cosmos/cosmos-sdk/crypto/keys/secp256k1"
	cryptotypes "github.com/cosmos/cosmos-sdk/crypto/types"
	sdk "github.com/cosmos/cosmos-sdk/types"
	txsigning "github.com/cosmos/cosmos-sdk/types/tx/signing"
	"github.com/cosmos/cosmos-sdk/x/auth/signing"
	banktypes "github.com/cosmos/cosmos-sdk/x/bank/types"
	palomaapp "github.com/palomachain/paloma/v2/app"
	palomamempool "github.com/palomachain/paloma/v2/app/mempool"
	pcommon "github.com/palomachain/paloma/v2/testutil/common"
	"github.com/palomachain/paloma/v2/verifharness/emit"
	consensustypes "github.com/palomachain/paloma/v2/x/consensus/types"
	evmtypes "github.com/palomachain/paloma/v2/x/evm/types"
	palomatypes "github.com/palomachain/paloma/v2/x/paloma/types"
	schedulertypes "github.com/palomachain/paloma/v2/x/scheduler/types"
	skywaytypes "github.com/palomachain/paloma/v2/x/skyway/types"
	valsettypes "github.com/palomachain/paloma/v2/x/valset/types"
	protov2 "google.golang.org/protobuf/proto"
)

// a transaction with one or more signers (pubs[i] signs with sequence seqs[i]); the pool keys it by the FIRST
type testTx struct {
	msgs   []sdk.Msg
	pubs   []cryptotypes.PubKey
	seqs   []uint64
	sender int    // rank of the first signer's bech32 string
	seq    uint64 // = seqs[0]
}

func (t *testTx) GetMsgs() []sdk.Msg                    { return t.msgs }
func (t *testTx) GetMsgsV2() ([]protov2.Message, error) { return nil, nil }
func (t *testTx) GetSigners() ([][]byte, error) {
	var out [][]byte
	for _, p := range t.pubs {
		out = append(out, p.Address())
	}
	return out, nil
}
func (t *testTx) GetPubKeys() ([]cryptotypes.PubKey, error) { return t.pubs, nil }
func (t *testTx) GetSignaturesV2() ([]txsigning.SignatureV2, error) {
	var out []txsigning.SignatureV2
	for i, p := range t.pubs {
		out = append(out, txsigning.SignatureV2{PubKey: p, Sequence: t.seqs[i]})
	}
	return out, nil
}

func (e *env) mkTx(s int, n uint64) *testTx {
	return &testTx{pubs: []cryptotypes.PubKey{e.pubs[s]}, seqs: []uint64{n}, sender: s, seq: n}
}

var (
	_ sdk.Tx                  = (*testTx)(nil)
	_ signing.SigVerifiableTx = (*testTx)(nil)
)

// message pool: kind -> constructor. Kinds 0..3 are the four prioritised domains.
var msgKinds = []struct {
	name string
	mk   func() sdk.Msg
}{
	{"consensus", func() sdk.Msg { return &consensustypes.MsgAddMessagesSignatures{} }},
	{"consensus", func() sdk.Msg { return &consensustypes.MsgAddEvidence{} }},
	{"scheduler", func() sdk.Msg { return &schedulertypes.MsgExecuteJob{} }},
	{"scheduler", func() sdk.Msg { return &schedulertypes.MsgCreateJob{} }},
	{"evm", func() sdk.Msg { return &evmtypes.MsgRemoveSmartContractDeploymentRequest{} }},
	{"evm", func() sdk.Msg { return &evmtypes.MsgProposeNewReferenceBlockAttestation{} }},
	{"valset", func() sdk.Msg { return &valsettypes.MsgKeepAlive{} }},
	{"valset", func() sdk.Msg { return &valsettypes.MsgAddExternalChainInfoForValidator{} }},
	{"other", func() sdk.Msg { return &banktypes.MsgSend{} }},
	{"other", func() sdk.Msg { return &skywaytypes.MsgSendToRemote{} }},
	{"other", func() sdk.Msg { return &palomatypes.MsgAddStatusUpdate{} }},
}

type sn struct {
	s int
	n uint64
}

type pendTx struct {
	tx   *testTx
	prio int64
}

// one history on one fresh real mempool
type hist struct {
	mp       *palomamempool.PriorityNonceMempool[int64]
	pend     map[sn]pendTx
	premise  bool // still inside the property's premise (no duplicate insert, no MinInt64 priority)
	terms    []string
	log      []any
	selects  int
	bigSel   bool
	rejected bool
	removed  bool
	multiSig bool
	dead     bool   // a call into the real pool panicked where the model has no panic: the history stops there
	lastSel  string // rendering of the previous op's Select output ("" if the previous op was not a Select)
}

type env struct {
	run  *emit.Run
	pubs []cryptotypes.PubKey // by rank
	privs []*secp256k1.PrivKey
	prio palomamempool.TxPriority[int64]
	// class ranking oracle: lowest / highest real priority seen per class (0 consensus .. 3 valset, 4 = everything else below MaxInt64-3)
	clsMin, clsMax [5]int64
	clsSeen        [5]bool
	// the message universe (registry_test.go)
	kinds         []msgKind
	byClass       [5][]int
	nRegistered   int
	classReported map[string]bool
	app           *palomaapp.App
}

var classRank = map[string]int{"consensus": 0, "scheduler": 1, "evm": 2, "valset": 3}

// single-message consensus > scheduler > evm > valset > all others (whose CheckTx priority is below MaxInt64-3)
func (e *env) classOracle(kinds []int, ante, prio int64, entry any) {
	c := 4
	if len(kinds) == 1 && e.kinds[kinds[0]].cls >= 0 {
		c = e.kinds[kinds[0]].cls
	}
	if c == 4 && ante >= math.MaxInt64-3 {
		return
	}
	if !e.clsSeen[c] || prio < e.clsMin[c] {
		e.clsMin[c] = prio
	}
	if !e.clsSeen[c] || prio > e.clsMax[c] {
		e.clsMax[c] = prio
	}
	e.clsSeen[c] = true
	for i := 0; i < 5; i++ {
		for j := i + 1; j < 5; j++ {
			if e.clsSeen[i] && e.clsSeen[j] && e.clsMin[i] <= e.clsMax[j] {
				names := []string{"consensus", "scheduler", "evm", "valset", "other"}
				e.run.Violate("C19:class-order", fmt.Sprintf("a single-message %s transaction got priority %d, not above a %s transaction's %d",
					names[i], e.clsMin[i], names[j], e.clsMax[j]), map[string]any{"insert": entry})
				e.clsSeen = [5]bool{}
				return
			}
		}
	}
}

func newEnv(run *emit.Run) *env {
	type kp struct {
		pub  cryptotypes.PubKey
		addr string
		priv *secp256k1.PrivKey
	}
	pcommon.SetupPalomaPrefixes() // the node's bech32 prefixes (the priority index compares the sender STRINGS)
	var ks []kp
	for i := 0; i < 8; i++ {
		priv := secp256k1.GenPrivKeyFromSecret([]byte{byte(i), 0xC1, 0x9})
		pk := priv.PubKey()
		ks = append(ks, kp{pk, sdk.AccAddress(pk.Address()).String(), priv})
	}
	// the priority index compares the bech32 sender strings
	sort.Slice(ks, func(i, j int) bool { return strings.Compare(ks[i].addr, ks[j].addr) < 0 })
	e := &env{run: run, prio: palomamempool.NewDefaultTxPriority(), classReported: map[string]bool{}}
	for _, k := range ks {
		e.pubs = append(e.pubs, k.pub)
		e.privs = append(e.privs, k.priv)
	}
	e.app = newApp()
	e.buildKinds(e.app)
	return e
}

func ctxWith(p int64) sdk.Context {
	return sdk.NewContext(nil, tmproto.Header{}, false, log.NewNopLogger()).WithPriority(p)
}

func (e *env) newHist() *hist {
	return &hist{mp: palomamempool.DefaultPriorityMempool(), pend: map[sn]pendTx{}, premise: true}
}

func (h *hist) after(e *env, term string, entry any) {
	if !strings.HasPrefix(term, "C19.CSelect") {
		h.lastSel = ""
	}
	cnt := h.mp.CountTx()
	h.terms = append(h.terms, emit.Pair(term, emit.ZI(int64(cnt))))
	h.log = append(h.log, entry)
	// for every history (theorem count_and_capacity): a duplicate insert replaces, it does not add
	if cnt != len(h.pend) {
		e.run.Violate("C19:count-differs-from-pending", fmt.Sprintf("CountTx()=%d but %d transactions are pending", cnt, len(h.pend)),
			map[string]any{"history": h.log})
	}
}

func (h *hist) insert(e *env, s int, n uint64, kinds []int, ante int64, extra ...sn) {
	if h.dead {
		return
	}
	tx := e.mkTx(s, n)
	for _, x := range extra {
		tx.pubs = append(tx.pubs, e.pubs[x.s])
		tx.seqs = append(tx.seqs, x.n)
	}
	var urls []string
	for _, k := range kinds {
		m := e.kinds[k].mk()
		tx.msgs = append(tx.msgs, m)
		urls = append(urls, emit.Str(sdk.MsgTypeURL(m)))
	}
	ctx := ctxWith(ante)
	prio := e.prio.GetTxPriority(ctx, tx)
	if _, dup := h.pend[sn{s, n}]; dup || prio == math.MinInt64 {
		h.premise = false
	}
	err, pan := safely(func() error { return h.mp.Insert(ctx, tx) })
	if pan != nil {
		e.run.Violate("C19:insert-panics", fmt.Sprintf("Insert(sender %d, nonce %d) panicked: %v", s, n, pan), map[string]any{"history": h.log})
		h.dead = true
		return
	}
	if err != nil {
		// the default configuration never rejects; the model has no such branch
		e.run.Violate("C19:insert-rejected", "Insert returned an error: "+err.Error(), map[string]any{"history": h.log})
	}
	h.pend[sn{s, n}] = pendTx{tx, prio}
	cls := "ante"
	if len(kinds) == 1 {
		cls = e.kinds[kinds[0]].name
		e.run.Count("insert-url-source", e.kinds[kinds[0]].src)
	}
	e.run.Count("insert-class", cls)
	e.classOracle(kinds, ante, prio, map[string]any{"kinds": kinds, "ante": ante, "priority": prio})
	if len(extra) == 0 {
		h.after(e, fmt.Sprintf("C19.CInsert %d %s %s %s %s", s, emit.ZU(n), emit.List(urls), emit.ZI(ante), emit.ZI(prio)),
			map[string]any{"op": "insert", "sender": s, "nonce": n, "kinds": kinds, "ante": ante, "priority": prio})
		return
	}
	// several signers: the pool keys the transaction by the first one only
	sig := []string{emit.Pair(emit.ZI(int64(s)), emit.ZU(n))}
	for _, x := range extra {
		sig = append(sig, emit.Pair(emit.ZI(int64(x.s)), emit.ZU(x.n)))
	}
	h.multiSig = true
	e.run.Count("insert-signers", fmt.Sprint(len(sig)))
	h.after(e, fmt.Sprintf("C19.CInsertM %s %s %s %s", emit.List(sig), emit.List(urls), emit.ZI(ante), emit.ZI(prio)),
		map[string]any{"op": "insert", "sender": s, "nonce": n, "extra_signers": fmt.Sprint(extra), "kinds": kinds, "ante": ante, "priority": prio})
}

func (h *hist) remove(e *env, s int, n uint64) {
	if h.dead {
		return
	}
	tx := e.mkTx(s, n)
	err, pan := safely(func() error { return h.mp.Remove(tx) })
	if pan != nil {
		e.run.Violate("C19:remove-panics", fmt.Sprintf("Remove(sender %d, nonce %d) panicked: %v", s, n, pan), map[string]any{"history": h.log})
		h.dead = true
		return
	}
	_, was := h.pend[sn{s, n}]
	if (err == nil) != was { // every history: Remove is keyed by (first signer, sequence)
		e.run.Violate("C19:remove-outcome", fmt.Sprintf("Remove(sender %d, nonce %d) err=%v but pending=%v", s, n, err, was), map[string]any{"history": h.log})
	}
	if err == nil {
		delete(h.pend, sn{s, n})
		h.removed = true
		e.run.Count("op", "remove-ok")
	} else {
		h.rejected = true
		e.run.Count("op", "remove-notfound")
	}
	h.after(e, fmt.Sprintf("C19.CRemove %d %s %s", s, emit.ZU(n), emit.Bool(err == nil)),
		map[string]any{"op": "remove", "sender": s, "nonce": n, "ok": err == nil})
}

// runs a call into the real pool; a panic becomes a value instead of killing the run
func safely(f func() error) (err error, panicked any) {
	defer func() {
		if r := recover(); r != nil {
			panicked = r
		}
	}()
	return f(), nil
}

func realSelect(mp *palomamempool.PriorityNonceMempool[int64]) (out []*testTx, panicked bool) {
	defer func() {
		if r := recover(); r != nil {
			panicked = true
		}
	}()
	it := mp.Select(ctxWith(0), nil)
	for it != nil {
		out = append(out, it.Tx().(*testTx))
		if len(out) > 10000 {
			panic("select does not terminate")
		}
		it = it.Next()
	}
	return
}

func (h *hist) selectOp(e *env) {
	if h.dead {
		return
	}
	out, panicked := realSelect(h.mp)
	items := make([]string, len(out))
	ids := make([]sn, len(out))
	for i, t := range out {
		items[i] = emit.Pair(emit.ZI(int64(t.sender)), emit.ZU(t.seq))
		ids[i] = sn{t.sender, t.seq}
	}
	h.selects++
	senders := map[int]bool{}
	for _, t := range out {
		senders[t.sender] = true
	}
	if len(senders) >= 2 {
		h.bigSel = true
	}
	e.run.Count("op", "select")
	if panicked {
		e.run.Count("select", "panicked")
	}
	entry := map[string]any{"op": "select", "out": fmt.Sprint(ids), "panicked": panicked}
	if !h.premise && !panicked {
		// outside the premise (theorem select_sound_any_history): nothing twice, nothing that is not pending, sequence order
		ids2 := make([]sn, len(out))
		prio := map[sn]int64{}
		for i, t := range out {
			ids2[i] = sn{t.sender, t.seq}
		}
		for k, p := range h.pend {
			prio[k] = p.prio
		}
		oracleSN(e, ids2, prio, map[string]any{"history": append(append([]any{}, h.log...), entry)}, false)
	}
	if h.premise {
		h.oracle(e, out, panicked, entry)
		if h.lastSel != "" && h.lastSel != fmt.Sprint(ids)+" " {
			e.run.Violate("C19:select-not-idempotent", "a repeated Select with nothing in between yielded a different sequence: "+h.lastSel+" then "+fmt.Sprint(ids),
				map[string]any{"history": append(append([]any{}, h.log...), entry)})
		}
	}
	h.lastSel = fmt.Sprint(ids) + " "
	h.after(e, fmt.Sprintf("C19.CSelect %s %s", emit.List(items), emit.Bool(panicked)), entry)
}

// the property, evaluated directly on what the real mempool yielded
func (h *hist) oracle(e *env, out []*testTx, panicked bool, entry any) {
	replay := map[string]any{"history": append(append([]any{}, h.log...), entry)}
	if panicked {
		e.run.Violate("C19:select-panics", "Select/Next panicked inside the premise", replay)
		return
	}
	ids := make([]sn, len(out))
	for i, t := range out {
		ids[i] = sn{t.sender, t.seq}
		if p, ok := h.pend[ids[i]]; ok && p.tx != t {
			e.run.Violate("C19:yields-wrong-tx", fmt.Sprintf("Select yielded a different transaction object for (sender %d, nonce %d)", t.sender, t.seq), replay)
			return
		}
	}
	prio := make(map[sn]int64, len(h.pend))
	for k, p := range h.pend {
		prio[k] = p.prio
	}
	oracleSN(e, ids, prio, replay, true)
}

// out: the yielded (sender, nonce) sequence; pend: the pending set with the priority of each transaction;
// complete: inside the premise (every pending transaction must be yielded, priority dominance)
func oracleSN(e *env, out []sn, pend map[sn]int64, replay any, complete bool) {
	seen := map[sn]int{}
	lastNonce := map[int]uint64{}
	hasLast := map[int]bool{}
	for _, k := range out {
		if _, ok := pend[k]; !ok {
			e.run.Violate("C19:yields-non-pending", fmt.Sprintf("Select yielded (sender %d, nonce %d) which is not pending (removed or never inserted)", k.s, k.n), replay)
			return
		}
		seen[k]++
		if seen[k] > 1 {
			e.run.Violate("C19:yields-twice", fmt.Sprintf("Select yielded (sender %d, nonce %d) twice", k.s, k.n), replay)
			return
		}
		if hasLast[k.s] && lastNonce[k.s] >= k.n {
			e.run.Violate("C19:nonce-order", fmt.Sprintf("sender %d: nonce %d yielded after nonce %d", k.s, k.n, lastNonce[k.s]), replay)
			return
		}
		hasLast[k.s], lastNonce[k.s] = true, k.n
	}
	if !complete {
		return
	}
	if len(out) != len(pend) {
		e.run.Violate("C19:pending-not-yielded", fmt.Sprintf("Select yielded %d of %d pending transactions", len(out), len(pend)), replay)
		return
	}
	// priority dominance: when t is yielded, every other sender's next available tx has priority <= prio t
	yielded := map[sn]bool{}
	for _, t := range out {
		pt := pend[t]
		next := map[int]sn{}
		for k := range pend {
			if yielded[k] || k.s == t.s {
				continue
			}
			if cur, ok := next[k.s]; !ok || k.n < cur.n {
				next[k.s] = k
			}
		}
		for s2, k := range next {
			if pend[k] > pt {
				e.run.Violate("C19:priority-dominance", fmt.Sprintf("(sender %d, nonce %d, priority %d) yielded while sender %d's next (nonce %d) has priority %d",
					t.s, t.n, pt, s2, k.n, pend[k]), replay)
				return
			}
		}
		yielded[t] = true
	}
}

func (h *hist) finish(e *env, kind string) {
	nontrivial := h.bigSel && (h.removed || h.rejected)
	e.run.Count("history", kind)
	e.run.Count("history-len", fmt.Sprintf("%02d", len(h.terms)/4*4))
	e.run.Case("C19.CHist "+emit.List(h.terms), nontrivial, map[string]any{"kind": kind, "history": h.log})
}

// ---- generators ----

var anteChoices = []int64{42, 42, 42, 42, 42, 0, 1, 2, 3, -5, math.MaxInt64, math.MaxInt64 - 1, math.MaxInt64 - 2, math.MaxInt64 - 3,
	math.MaxInt64 - 4, math.MaxInt64 - 5, math.MinInt64 + 1, 1 << 40}

func (e *env) genKinds(r *rand.Rand) []int {
	switch x := r.Intn(20); {
	case x < 9: // one prioritised message: the fixed ones, or any registered / future message of the four packages
		if r.Intn(3) != 0 {
			return []int{r.Intn(8)}
		}
		c := e.byClass[r.Intn(4)]
		return []int{c[r.Intn(len(c))]}
	case x < 15: // one ordinary message: the fixed ones, or anything else the registry knows / a near-miss URL
		if r.Intn(2) == 0 {
			return []int{8 + r.Intn(3)}
		}
		return []int{e.byClass[4][r.Intn(len(e.byClass[4]))]}
	case x < 16:
		return nil
	default:
		return []int{r.Intn(len(e.kinds)), r.Intn(len(e.kinds))} // multi-message: ante priority
	}
}

func genNonce(r *rand.Rand) uint64 {
	if r.Intn(12) == 0 {
		return emit.U64(r)
	}
	return uint64(r.Intn(7))
}

func (e *env) genHistory(hostile bool) {
	r := e.run.Rng
	h := e.newHist()
	nSenders := 1 + r.Intn(8)
	senders := r.Perm(8)[:nSenders]
	nops := 2 + r.Intn(16)
	if e.run.Tier == "thorough" && r.Intn(4) == 0 {
		nops += r.Intn(30)
	}
	tieHeavy := r.Intn(2) == 0
	for i := 0; i < nops && !h.dead; i++ {
		x := r.Intn(100)
		switch {
		case x < 55: // insert
			s := senders[r.Intn(nSenders)]
			n := genNonce(r)
			if _, dup := h.pend[sn{s, n}]; dup && !(hostile && r.Intn(3) == 0) {
				// stay inside the premise: pick the sender's next free small nonce
				for n = 0; ; n++ {
					if _, d := h.pend[sn{s, n}]; !d {
						break
					}
				}
			}
			ante := int64(42)
			if !tieHeavy || r.Intn(4) == 0 {
				ante = anteChoices[r.Intn(len(anteChoices))]
			}
			if hostile && r.Intn(10) == 0 {
				ante = math.MinInt64
			}
			var extra []sn
			if r.Intn(12) == 0 { // further signers: the pool keys the transaction by the first one only
				for k := 1 + r.Intn(2); k > 0; k-- {
					extra = append(extra, sn{r.Intn(8), genNonce(r)})
				}
			}
			h.insert(e, s, n, e.genKinds(r), ante, extra...)
		case x < 72: // remove (mostly a pending one)
			if len(h.pend) > 0 && r.Intn(5) != 0 {
				keys := make([]sn, 0, len(h.pend))
				for k := range h.pend {
					keys = append(keys, k)
				}
				sort.Slice(keys, func(i, j int) bool { return keys[i].s < keys[j].s || (keys[i].s == keys[j].s && keys[i].n < keys[j].n) })
				k := keys[r.Intn(len(keys))]
				h.remove(e, k.s, k.n)
			} else {
				h.remove(e, r.Intn(8), genNonce(r))
			}
		default:
			h.selectOp(e)
			if r.Intn(3) == 0 {
				h.selectOp(e) // repeated select with nothing in between
			}
		}
	}
	if !h.dead {
		h.selectOp(e)
	}
	kind := "structured"
	if hostile {
		kind = "hostile"
	}
	h.finish(e, kind)
}

// corpus: {"ops":[["i",sender,nonce,[kinds],ante],["r",sender,nonce],["s"]]}
func (e *env) replayCorpus(t *testing.T) {
	files, _ := filepath.Glob("../corpus/C19/*.json")
	sort.Strings(files)
	if rp := os.Getenv("VERIF_REPLAY"); rp != "" {
		files = append(files, rp)
	}
	for _, f := range files {
		b, err := os.ReadFile(f)
		if err != nil {
			continue
		}
		var doc struct {
			API *struct {
				MaxTx int `json:"max_tx"`
				Rule  int `json:"rule"`
			} `json:"api"`
			App *struct {
				InitSeqs []uint64 `json:"init_seqs"`
				Built    int      `json:"built"`
			} `json:"app"`
			Ops [][]json.RawMessage `json:"ops"`
		}
		if json.Unmarshal(b, &doc) != nil || len(doc.Ops) == 0 {
			continue
		}
		if doc.App != nil { // a history of the real application through ABCI
			e.replayAppCorpus(doc.App.InitSeqs, doc.App.Built, doc.Ops)
			continue
		}
		tagOf := func(o []json.RawMessage) (tag string) { json.Unmarshal(o[0], &tag); return }
		num := func(o []json.RawMessage, i int) int64 { var v int64; json.Unmarshal(o[i], &v); return v }
		insArgs := func(o []json.RawMessage) (kinds []int, extra []sn) {
			json.Unmarshal(o[3], &kinds)
			if len(o) > 5 {
				var xs [][2]uint64
				json.Unmarshal(o[5], &xs)
				for _, x := range xs {
					extra = append(extra, sn{int(x[0]), x[1]})
				}
			}
			return
		}
		if doc.API != nil { // the whole API with an open iterator: i / r / o(pen) / n(ext) / ns (NextSenderTx) / e (IsEmpty)
			a := e.newAPIHist(doc.API.MaxTx, doc.API.Rule)
			for _, o := range doc.Ops {
				switch tagOf(o) {
				case "i":
					kinds, extra := insArgs(o)
					a.insert(e, int(num(o, 1)), uint64(num(o, 2)), kinds, num(o, 4), extra...)
				case "r":
					a.remove(e, int(num(o, 1)), uint64(num(o, 2)))
				case "o":
					a.open(e)
				case "n":
					a.next(e)
				case "ns":
					a.nextSender(e, int(num(o, 1)))
				case "e":
					a.isEmpty(e)
				}
			}
			a.finish(e)
			continue
		}
		h := e.newHist()
		for _, o := range doc.Ops {
			switch tagOf(o) {
			case "i":
				kinds, extra := insArgs(o)
				h.insert(e, int(num(o, 1)), uint64(num(o, 2)), kinds, num(o, 4), extra...)
			case "r":
				h.remove(e, int(num(o, 1)), uint64(num(o, 2)))
			case "s":
				h.selectOp(e)
			}
		}
		h.finish(e, "corpus")
	}
}

func TestCorr(t *testing.T) {
	run := emit.Start("C19", 3000)
	run.Rule("seeded histories of 3..18 ops (longer in the thorough tier) on a fresh real PriorityNonceMempool[int64]: Insert (1..8 senders ranked by bech32 string, " +
		"nonces 0..6 and boundary uint64, real messages of the four prioritised domains / ordinary / multi-message / none, ante priority 42-heavy or drawn from " +
		"{0..3,-5,2^40,MaxInt64-0..5,MinInt64+1}), Remove (pending and non-pending), Select (single and repeated); ~15% hostile histories add duplicate (sender,nonce) " +
		"inserts and MinInt64 priorities (outside the premise: correspondence only). Compared per op: GetTxPriority, Remove outcome, full (sender,nonce) Select sequence, panic flag, CountTx. " +
		"non-trivial = a Select yielded >=2 senders and the history has a successful or rejected Remove")
	e := newEnv(run)
	e.classSweep()
	e.replayCorpus(t)
	e.appWitnesses()
	for i := 0; i < run.N; i++ {
		e.genHistory(run.Rng.Intn(100) < 15)
		if i%3 == 0 {
			e.genAPIHistory()
		}
		if i%30 == 0 {
			e.genAppHistory()
		}
	}
	if err := run.Finish("Mempool.PriorityNonce Mempool.PriorityNonceApi Corr.C19", "C19.case", "C19.check"); err != nil {
		t.Fatal(err)
	}
}
