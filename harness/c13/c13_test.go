// Package c13 is the correspondence harness and direct oracle for property C13: validators are
// never punished for doing what the chain asked.
//
// Part A drives the real skyway keeper / msg server on keeper.SetupFiveValChain with real
// secp256k1 keys: batches are built, re-estimated, confirmed, cancelled, executed; the
// deployment id changes; validators re-register keys; evidence of every kind is submitted.
// After EVERY step every genuine signature produced so far (a validator's registered key over a
// BytesToSign the chain published) is replayed as MsgSubmitBadSignatureEvidence in a throw-away
// cache context: nobody may become jailed (the direct oracle).  The history with the observed
// outcome classes and jailed flags goes to Coq (Corr/C13.v: CEvid).
//
// Part B drives the real consensus keeper's PruneJob with evidence distributions around the 10 %
// and 2/3 boundaries and a recording valset (CPrune).
package c13

import (
	"context"
	"crypto/ecdsa"
	"encoding/hex"
	"fmt"
	"math/big"
	"math/rand"
	"os"
	"path/filepath"
	"encoding/json"
	"sort"
	"strings"
	"testing"
	"time"

	"cosmossdk.io/log"
	sdkmath "cosmossdk.io/math"
	codectypes "github.com/cosmos/cosmos-sdk/codec/types"
	sdk "github.com/cosmos/cosmos-sdk/types"
	"github.com/ethereum/go-ethereum/crypto"
	"github.com/palomachain/paloma/v2/util/libcons"
	"github.com/palomachain/paloma/v2/verifharness/emit"
	skyway "github.com/palomachain/paloma/v2/x/skyway"
	evmtypes "github.com/palomachain/paloma/v2/x/evm/types"
	"github.com/palomachain/paloma/v2/x/skyway/keeper"
	"github.com/palomachain/paloma/v2/x/skyway/types"
	valsettypes "github.com/palomachain/paloma/v2/x/valset/types"
	stakingtypes "github.com/cosmos/cosmos-sdk/x/staking/types"
)

const (
	chainName = "test-chain"
	chainB    = "chain-b" // a second chain: no batches are built there, but evidence can name it
	erc20     = "0x0bc529c00C6401aEF6D220BE8C6Ea1667F6Ad93e"
	denom     = "ugrain"
	dummyEst  = 300000
)

// result classes = Corr/C13.v res_code
const (
	rOk = iota
	rErrChain
	rErrExists
	rErrNotFound
	rErrAlreadySet
	rErrArchived
	rErrSig
	rErrNoVal
)

// violate forwards an oracle violation to the run, at most 3 per id: emit keeps 50 violations in
// all, and a listed known finding that fires in many histories must not crowd out a new one.
var perID = map[string]int{}

func violate(run *emit.Run, id, what string, replay any) {
	perID[id]++
	if perID[id] <= 3 {
		run.Violate(id, what, replay)
	}
}

type triple struct {
	tid, body int
	est       uint64 // effective (packed) estimate
}

func (t triple) coq() string {
	return fmt.Sprintf("(%d, %d, %s)", t.tid, t.body, emit.ZU(t.est))
}

// a signature a validator produced because the chain asked for it
type genuine struct {
	Val      int                   `json:"validator"`
	Key      int                   `json:"key"`
	Sig      string                `json:"signature"`
	Subject  types.OutgoingTxBatch `json:"subject"`
	Cp       string                `json:"checkpoint"`
	Accepted bool                  `json:"confirm_accepted"`
	tr       triple
}

type hist struct {
	t     *testing.T
	run   *emit.Run
	r     *rand.Rand
	in    keeper.TestInput
	ctx   sdk.Context
	ms    types.MsgServer
	token *types.EthAddress
	send  sdk.AccAddress

	keys    []*ecdsa.PrivateKey
	keyAddr map[string]int // lower hex address -> key index
	regKey  [5]int         // key each validator currently has registered

	tids     map[string]int
	curTid   string // deployment id in force on test-chain
	tidB     string // deployment id in force on chain-b
	regKeyB  [5]int // key each validator has registered on chain-b
	scid     uint64
	bodies   map[string]int
	cpTriple map[string]triple
	tripleCp map[triple]string
	issued   map[string]bool
	confs    []genuine
	known    map[uint64]types.InternalOutgoingTxBatch // last seen version of every batch ever built
	nonces   []uint64

	steps   []string
	replay  []map[string]any
	sawArch bool
	sawJail bool

	servedSeen map[string]bool // "step/nonce/bytes" already given to the model as EServed
	queryErr   map[string]bool

	// chain restarts from an exported genesis: issued is what the RUNNING instance published (reset
	// at a restart to what it shows), ever is everything any instance published
	ever         map[string]bool
	afterGenesis bool

	// ids carried by stale activations (ActivateChainReferenceID with a version not above the active
	// one: chain info untouched, event published, open batches re-issued for the event's id)
	staleTids []string

	// keys a validator had registered and replaced since (per chain): the valset snapshot is rebuilt
	// only every 50 blocks and still shows them
	retired, retiredB []int

	pendingEst  map[uint64][]uint64 // every estimate value sent for a batch
	deferOracle bool // several model steps describe ONE real operation (an end block): oracle after the last
	orphaned    int                     // validators taken out of the bonded set by opOrphan
	roundServed []types.OutgoingTxBatch // what the signing queries served in the current oracle round
	signer      int
}

// registeredNow: does validator v have eth address a registered for chain in the LIVE registry.
func (h *hist) registeredNow(v int, chain, a string) bool {
	all, err := h.in.ValsetKeeper.GetAllChainInfos(h.ctx)
	if err != nil {
		h.t.Fatal(err)
	}
	for _, va := range all {
		if !va.Address.Equals(keeper.ValAddrs[v]) {
			continue
		}
		for _, ci := range va.ExternalChainInfo {
			if ci.ChainReferenceID == chain && strings.EqualFold(ci.Address, a) {
				return true
			}
		}
	}
	return false
}

// checkpointTid finds the deployment id (the one in force, or one carried by a stale activation)
// under which bytes hx are batch b's checkpoint.
func (h *hist) checkpointTid(b types.OutgoingTxBatch, hx string) (string, bool) {
	for _, tid := range append([]string{h.curTid}, h.staleTids...) {
		want, err := b.GetCheckpoint(tid)
		if err == nil && hex.EncodeToString(want) == hx {
			return tid, true
		}
	}
	return "", false
}

// vid: oracle ids of histories with a genesis restart are kept apart (the defect there is another one).
func (h *hist) vid(id string) string {
	if h.afterGenesis {
		return id + "-after-genesis-import"
	}
	return id
}

func effEst(e uint64) uint64 {
	if e == 0 {
		return dummyEst
	}
	return e
}

func (h *hist) tidID(s string) int {
	if v, ok := h.tids[s]; ok {
		return v
	}
	v := len(h.tids)
	h.tids[s] = v
	return v
}

func bodyString(b types.OutgoingTxBatch) string {
	var sb strings.Builder
	fmt.Fprintf(&sb, "%s|%d|%d|%x|", strings.ToLower(b.TokenContract), b.BatchNonce, b.BatchTimeout, b.AssigneeRemoteAddress)
	for _, tx := range b.Transactions {
		fmt.Fprintf(&sb, "%s:%s;", strings.ToLower(tx.DestAddress), tx.Erc20Token.Amount.String())
	}
	return sb.String()
}

func (h *hist) bodyID(b types.OutgoingTxBatch) int {
	s := bodyString(b)
	if v, ok := h.bodies[s]; ok {
		return v
	}
	v := len(h.bodies) + 1
	h.bodies[s] = v
	return v
}

// note records that checkpoint bytes cp belong to triple tr and checks the bijection.
func (h *hist) note(cp []byte, tr triple) {
	hx := hex.EncodeToString(cp)
	if old, ok := h.cpTriple[hx]; ok && old != tr {
		violate(h.run, "C13:checkpoint-class-mismatch", "one checkpoint for two (deployment id, body, estimate) triples",
			map[string]any{"checkpoint": hx, "a": old.coq(), "b": tr.coq()})
	}
	if old, ok := h.tripleCp[tr]; ok && old != hx {
		violate(h.run, "C13:checkpoint-class-mismatch", "two checkpoints for one (deployment id, body, estimate) triple",
			map[string]any{"triple": tr.coq(), "a": old, "b": hx})
	}
	h.cpTriple[hx] = tr
	h.tripleCp[tr] = hx
}

func (h *hist) tripleOf(b types.OutgoingTxBatch, tid string) (triple, []byte) {
	tr := triple{h.tidID(tid), h.bodyID(b), effEst(b.GasEstimate)}
	cp, err := b.GetCheckpoint(tid)
	if err != nil {
		h.t.Fatalf("GetCheckpoint: %v", err)
	}
	h.note(cp, tr)
	return tr, cp
}

func (h *hist) jailed(ctx sdk.Context) []int {
	var out []int
	for i := 0; i < 5; i++ {
		v, err := h.in.StakingKeeper.Validator(ctx, keeper.ValAddrs[i])
		if err != nil {
			h.t.Fatalf("validator %d: %v", i, err)
		}
		if v.IsJailed() {
			out = append(out, i)
		}
	}
	return out
}

func intsCoq(xs []int) string {
	s := make([]string, len(xs))
	for i, x := range xs {
		s[i] = fmt.Sprint(x)
	}
	return emit.List(s)
}

func has(xs []int, x int) bool {
	for _, y := range xs {
		if y == x {
			return true
		}
	}
	return false
}

// submit sends MsgSubmitBadSignatureEvidence through the real msg server, from an unrelated account.
func (h *hist) submit(ctx sdk.Context, chain string, subj types.OutgoingTxBatch, sig string) (class int, note string) {
	defer func() {
		if rec := recover(); rec != nil {
			class, note = rErrSig, "panic"
		}
	}()
	s := subj
	any, err := codectypes.NewAnyWithValue(&s)
	if err != nil {
		h.t.Fatalf("any: %v", err)
	}
	msg := &types.MsgSubmitBadSignatureEvidence{
		Subject: any, Signature: sig, ChainReferenceId: chain,
		Metadata: valsettypes.MsgMetadata{Creator: h.send.String(), Signers: []string{h.send.String()}},
	}
	_, err = h.ms.SubmitBadSignatureEvidence(ctx, msg)
	switch {
	case err == nil:
		return rOk, ""
	case strings.Contains(err.Error(), "Checkpoint exists"):
		return rErrArchived, ""
	case strings.Contains(err.Error(), "unable to create batch"):
		return rErrChain, ""
	case strings.Contains(err.Error(), "signature decoding"), strings.Contains(err.Error(), "signature to eth address failed"):
		return rErrSig, ""
	case strings.Contains(err.Error(), "Did not find validator"):
		return rErrNoVal, ""
	}
	return -1, err.Error()
}

// oracle: replay every genuine signature, with the subject it was made for, as evidence — in a
// cache context that is thrown away.  Nobody may get jailed.
func (h *hist) oracle(after string) {
	h.roundServed = nil
	h.queryAll(after)
	// served-then-replayed, independent of any model: whatever a signing query served just now, an
	// honest validator signs exactly those bytes with its registered key, and that signature is
	// submitted as bad-signature evidence on a cache branch.  Accepted-and-jailed = violation.
	for _, b := range h.roundServed {
		h.signer = (h.signer + 1) % 5
		v := h.signer
		sgb, err := types.NewEthereumSignature(b.BytesToSign, h.keys[h.regKey[v]])
		if err != nil {
			h.t.Fatal(err)
		}
		cctx, _ := h.ctx.CacheContext()
		before := h.jailed(cctx)
		class, _ := h.submit(cctx, chainName, b, hex.EncodeToString(sgb))
		for _, j := range h.jailed(cctx) {
			if !has(before, j) {
				violate(h.run, h.vid("C13:honest-signer-jailed"),
					fmt.Sprintf("served-then-replayed: a batch query served BytesToSign %x for batch %d, validator %d signed exactly that, the signature submitted as bad-signature evidence was accepted and validator %d jailed", b.BytesToSign, b.BatchNonce, v, j),
					map[string]any{"kind": "evidence-history", "history": h.replay, "after": after, "served_batch": b, "signer": v, "class": class})
			}
		}
	}
	for _, g := range h.confs {
		cctx, _ := h.ctx.CacheContext()
		before := h.jailed(cctx)
		class, _ := h.submit(cctx, chainName, g.Subject, g.Sig)
		h.submit(cctx, chainB, g.Subject, g.Sig) // the submitter also chooses the chain
		// the subject's BytesToSign field is the submitter's to choose: blank it, garble it
		forged := g.Subject
		forged.BytesToSign = nil
		h.submit(cctx, chainName, forged, g.Sig)
		forged.BytesToSign = []byte("not the checkpoint, chosen by the submitter")
		h.submit(cctx, chainName, forged, g.Sig)
		now := h.jailed(cctx)
		for _, v := range now {
			if !has(before, v) {
				if h.afterGenesis && !h.issued[g.Cp] {
					// published by the instance before the restart for a batch retired before the export
					violate(h.run, "C13:retired-checkpoint-unprotected-after-genesis",
						fmt.Sprintf("after a restart from an exported genesis validator %d is jailed by its own confirmation of a checkpoint the previous chain instance published (%s); the batch was retired before the export", v, g.Cp),
						map[string]any{"kind": "evidence-history", "history": h.replay, "after": after, "evidence": g, "class": class})
					continue
				}
				violate(h.run, h.vid("C13:honest-signer-jailed"),
					fmt.Sprintf("validator %d jailed by bad-signature evidence made of its own confirmation of a checkpoint the chain published (%s)", v, g.Cp),
					map[string]any{"kind": "evidence-history", "history": h.replay, "after": after, "evidence": g, "class": class})
			}
		}
	}
	for cp := range h.issued {
		b, _ := hex.DecodeString(cp)
		if !h.in.SkywayKeeper.GetPastEthSignatureCheckpoint(h.ctx, b) {
			violate(h.run, h.vid("C13:issued-checkpoint-not-archived"), "a checkpoint published for signing (stored BytesToSign or served by a batch query) is not in the archive ("+cp+")",
				map[string]any{"kind": "evidence-history", "history": h.replay, "after": after, "checkpoint": cp})
		}
	}
}

// served records that a batch query of the real query server handed out batch b: its BytesToSign
// is published for signing, whatever is in the store.  The model is told (EServed) and must agree.
func (h *hist) served(how string, b types.OutgoingTxBatch, after string) {
	hx := hex.EncodeToString(b.BytesToSign)
	h.issued[hx] = true
	h.run.Count("query-served", how)
	tr, ok := h.cpTriple[hx]
	if !ok {
		// bytes never seen: the only thing they may be is a checkpoint of this batch
		if tid, found := h.checkpointTid(b, hx); found {
			tr = triple{h.tidID(tid), h.bodyID(b), effEst(b.GasEstimate)}
			h.note(b.BytesToSign, tr)
		} else {
			violate(h.run, "C13:query-serves-unknown-bytes", how+" serves BytesToSign that is no checkpoint the harness can account for ("+hx+")",
				map[string]any{"kind": "evidence-history", "history": h.replay, "after": after, "query": how, "batch": b})
			return
		}
	}
	st := h.stored(b.BatchNonce)
	if st != nil && hex.EncodeToString(st.BytesToSign) != hx {
		h.run.Count("query-served", how+": NOT the stored bytes")
	}
	key := fmt.Sprintf("%d/%d/%s", len(h.replay), b.BatchNonce, hx)
	if h.servedSeen[key] {
		return
	}
	h.servedSeen[key] = true
	h.roundServed = append(h.roundServed, b)
	h.steps = append(h.steps, fmt.Sprintf("C13.EServed %d %s", b.BatchNonce, tr.coq()))
}

// queryAll asks the real query server everything a relayer can ask about batches.
func (h *hist) queryAll(after string) {
	k := h.in.SkywayKeeper
	qerr := func(q string, err error) {
		if err != nil && !h.queryErr[q] {
			h.queryErr[q] = true
			h.run.Count("query-error", q+": "+strings.SplitN(err.Error(), ":", 2)[0])
		}
	}
	for v := 0; v < 5; v++ {
		r, err := k.LastPendingBatchRequestByAddr(h.ctx, &types.QueryLastPendingBatchRequestByAddrRequest{Address: keeper.AccAddrs[v].String()})
		qerr("LastPendingBatchRequestByAddr", err)
		if err == nil {
			for _, b := range r.Batch {
				h.served("LastPendingBatchRequestByAddr", b, after)
			}
		}
		g, err := k.LastPendingBatchForGasEstimation(h.ctx, &types.QueryLastPendingBatchForGasEstimationRequest{Address: keeper.ValAddrs[v], ChainReferenceId: chainName})
		qerr("LastPendingBatchForGasEstimation", err)
		if err == nil {
			for _, b := range g.Batch {
				h.served("LastPendingBatchForGasEstimation", b, after)
			}
		}
	}
	for _, chain := range []string{chainName, ""} {
		r, err := k.OutgoingTxBatches(h.ctx, &types.QueryOutgoingTxBatchesRequest{ChainReferenceId: chain})
		qerr("OutgoingTxBatches", err)
		if err == nil {
			for _, b := range r.Batches {
				h.served("OutgoingTxBatches", b, after)
			}
		}
	}
	for _, n := range h.liveNonces() {
		r, err := k.BatchRequestByNonce(h.ctx, &types.QueryBatchRequestByNonceRequest{Nonce: n, ContractAddress: h.token.GetAddress().Hex()})
		qerr("BatchRequestByNonce", err)
		if err == nil {
			h.served("BatchRequestByNonce", r.Batch, after)
		}
	}
}

func (h *hist) step(term string, class int, rep map[string]any) {
	j := h.jailed(h.ctx)
	h.steps = append(h.steps, fmt.Sprintf("C13.EStep (%s) %s %s", term, emit.ZI(int64(class)), intsCoq(j)))
	rep["class"] = class
	rep["jailed_after"] = j
	h.replay = append(h.replay, rep)
	if !h.deferOracle {
		h.oracle(fmt.Sprint(rep["op"]))
	}
}

func (h *hist) regList() string {
	all, err := h.in.ValsetKeeper.GetAllChainInfos(h.ctx)
	if err != nil {
		h.t.Fatal(err)
	}
	var items []string
	for _, va := range all {
		vi := -1
		for i := 0; i < 5; i++ {
			if va.Address.Equals(keeper.ValAddrs[i]) {
				vi = i
			}
		}
		for _, ci := range va.ExternalChainInfo {
			mc := 0
			switch ci.ChainReferenceID {
			case chainName:
				mc = 1
			case chainB:
				mc = 2
			default:
				continue
			}
			k, ok := h.keyAddr[strings.ToLower(ci.Address)]
			if !ok {
				k = 99
			}
			items = append(items, fmt.Sprintf("(%d, %d, %d)", mc, vi, k))
		}
	}
	return emit.List(items)
}

func (h *hist) stored(nonce uint64) *types.InternalOutgoingTxBatch {
	b, err := h.in.SkywayKeeper.GetOutgoingTXBatch(h.ctx, *h.token, nonce)
	if err != nil {
		h.t.Fatal(err)
	}
	return b
}

func (h *hist) publish(nonce uint64) {
	b := h.stored(nonce)
	if b == nil {
		return
	}
	h.known[nonce] = *b
	hx := hex.EncodeToString(b.BytesToSign)
	h.issued[hx] = true
	if _, ok := h.cpTriple[hx]; ok {
		return
	}
	// bytes never seen before: they must be the batch's checkpoint under the deployment id in force
	// (or, after a stale activation, under the id its event carried)
	ext := b.ToExternal()
	tid, found := h.checkpointTid(ext, hx)
	if !found {
		violate(h.run, "C13:bytes-to-sign-not-checkpoint", "stored BytesToSign is not the batch's checkpoint under the current deployment id",
			map[string]any{"kind": "evidence-history", "history": h.replay, "nonce": nonce, "bytes_to_sign": hx})
		return
	}
	h.note(b.BytesToSign, triple{h.tidID(tid), h.bodyID(ext), effEst(b.GasEstimate)})
}

// republish re-reads every stored batch: whatever it shows as BytesToSign now has been published.
func (h *hist) republish() {
	for _, n := range h.liveNonces() {
		h.publish(n)
	}
}

func newHist(t *testing.T, run *emit.Run) *hist {
	in, c := keeper.SetupFiveValChain(t)
	ctx := sdk.UnwrapSDKContext(c).WithLogger(log.NewNopLogger())
	in.Context = ctx
	h := &hist{t: t, run: run, r: run.Rng, in: in, ctx: ctx, ms: keeper.NewMsgServerImpl(in.SkywayKeeper),
		keyAddr: map[string]int{}, tids: map[string]int{}, bodies: map[string]int{}, cpTriple: map[string]triple{},
		tripleCp: map[triple]string{}, issued: map[string]bool{}, known: map[uint64]types.InternalOutgoingTxBatch{},
		servedSeen: map[string]bool{}, queryErr: map[string]bool{}, ever: map[string]bool{}, pendingEst: map[uint64][]uint64{}}
	tok, err := types.NewEthAddress(erc20)
	if err != nil {
		t.Fatal(err)
	}
	h.token = tok
	h.keys = append(h.keys, keeper.EthPrivKeys[:5]...)
	for i := 0; i < 4; i++ {
		b := make([]byte, 32)
		h.r.Read(b)
		b[0] |= 1
		k, err := crypto.ToECDSA(b)
		if err != nil {
			t.Fatal(err)
		}
		h.keys = append(h.keys, k)
	}
	for i, k := range h.keys {
		h.keyAddr[strings.ToLower(crypto.PubkeyToAddress(k.PublicKey).Hex())] = i
	}
	for i := range h.regKey {
		h.regKey[i] = i
	}
	// a funded sender that is not a validator
	h.send = sdk.AccAddress(append([]byte("c13-unrelated-acct"), 0, 0)[:20])
	coins := sdk.NewCoins(sdk.NewCoin(denom, sdkmath.NewInt(1_000_000_000)))
	if err := in.BankKeeper.MintCoins(ctx, types.ModuleName, coins); err != nil {
		t.Fatal(err)
	}
	in.AccountKeeper.SetAccount(ctx, in.AccountKeeper.NewAccountWithAddress(ctx, h.send))
	if err := in.BankKeeper.SendCoinsFromModuleToAccount(ctx, types.ModuleName, h.send, coins); err != nil {
		t.Fatal(err)
	}
	ci, err := in.EvmKeeper.GetChainInfo(ctx, chainName)
	if err != nil {
		t.Fatal(err)
	}
	h.curTid = string(ci.SmartContractUniqueID)
	h.scid = ci.ActiveSmartContractID
	h.steps = append(h.steps, fmt.Sprintf("C13.EStep (OSetTid 1 %d) 0 []", h.tidID(h.curTid)))
	// second chain; on it validator i registers the key validator i+1 uses on test-chain
	if err := in.EvmKeeper.AddSupportForNewChain(ctx, chainB, 2, 123, "0x5678", big.NewInt(55)); err != nil {
		t.Fatal(err)
	}
	cib, err := in.EvmKeeper.GetChainInfo(ctx, chainB)
	if err != nil {
		t.Fatal(err)
	}
	h.tidB = string(cib.SmartContractUniqueID)
	h.steps = append(h.steps, fmt.Sprintf("C13.EStep (OSetTid 2 %d) 0 []", h.tidID(h.tidB)))
	for i := 0; i < 5; i++ {
		h.regKeyB[i] = (i + 1) % 5
		if err := h.register(i); err != nil {
			t.Fatalf("register on chain-b: %v", err)
		}
	}
	h.steps = append(h.steps, fmt.Sprintf("C13.EStep (OSetReg %s) 0 []", h.regList()))
	h.replay = append(h.replay, map[string]any{"op": "setup: SetupFiveValChain, validator i registered with EthPrivKeys[i]"})
	return h
}

var dests = []string{"0xd041c41EA1bf0F006ADBb6d2c9ef9D425dE5eaD7", "0x1111111111111111111111111111111111111111", "0x2222222222222222222222222222222222222222"}

func (h *hist) opBuild() {
	n := 1 + h.r.Intn(3)
	var txs []string
	for i := 0; i < n; i++ {
		d, _ := types.NewEthAddress(dests[h.r.Intn(len(dests))])
		amt := int64(1 + h.r.Intn(500))
		if _, err := h.in.SkywayKeeper.AddToOutgoingPool(h.ctx, h.send, *d, sdk.NewCoin(denom, sdkmath.NewInt(amt)), chainName); err != nil {
			h.t.Fatalf("AddToOutgoingPool: %v", err)
		}
		txs = append(txs, fmt.Sprintf("%s:%d", d.GetAddress().Hex(), amt))
	}
	b, err := h.in.SkywayKeeper.BuildOutgoingTXBatch(h.ctx, chainName, *h.token, uint(1+h.r.Intn(3)))
	if err != nil || b == nil {
		if h.orphaned == 0 {
			h.t.Fatalf("BuildOutgoingTXBatch: %v %v", b, err)
		}
		// after relayers left the active set a build may find nobody to assign: nothing may be published
		h.run.Count("op", "build failed (no relayer)")
		h.replay = append(h.replay, map[string]any{"op": "build failed", "error": fmt.Sprint(err)})
		h.oracle("build failed")
		return
	}
	h.nonces = append(h.nonces, b.BatchNonce)
	h.publish(b.BatchNonce)
	h.run.Count("op", "build")
	h.step(fmt.Sprintf("OBuild %d 1 %d", b.BatchNonce, h.bodyID(b.ToExternal())), rOk,
		map[string]any{"op": "build", "pool": txs, "nonce": b.BatchNonce})
}

func (h *hist) pickNonce() (uint64, bool) {
	if len(h.nonces) == 0 {
		return 0, false
	}
	return h.nonces[h.r.Intn(len(h.nonces))], true
}

func (h *hist) liveNonces() []uint64 {
	var out []uint64
	for _, n := range h.nonces {
		if h.stored(n) != nil {
			out = append(out, n)
		}
	}
	return out
}

var ests = []uint64{1, 21000, 299999, 300000, 300001, 123456789}

func (h *hist) opEstimate() {
	n, ok := h.pickNonce()
	if !ok {
		return
	}
	est := ests[h.r.Intn(len(ests))]
	switch h.r.Intn(10) {
	case 0:
		est = 0
	case 1:
		est = h.r.Uint64()
	}
	arg := h.known[n]
	err := h.in.SkywayKeeper.UpdateBatchGasEstimate(h.ctx, arg, est)
	class := rOk
	switch {
	case err == nil:
		h.publish(n)
	case strings.Contains(err.Error(), "batch not found"):
		class = rErrNotFound
	case strings.Contains(err.Error(), "already set"):
		class = rErrAlreadySet
	default:
		h.t.Fatalf("UpdateBatchGasEstimate: %v", err)
	}
	h.run.Count("op", "estimate")
	h.run.Count("estimate-outcome", fmt.Sprint(class))
	h.step(fmt.Sprintf("OEstimate %d %s", n, emit.ZU(est)), class, map[string]any{"op": "estimate", "nonce": n, "estimate": est})
}

func (h *hist) sign(key int, cp []byte) string {
	sg, err := types.NewEthereumSignature(cp, h.keys[key])
	if err != nil {
		h.t.Fatal(err)
	}
	if h.r.Intn(4) == 0 {
		sg[64] += 27
	}
	s := hex.EncodeToString(sg)
	if h.r.Intn(4) == 0 {
		s = "0x" + s
	}
	return s
}

// opConfirm: a validator asks the chain what to sign -- the real query server, as a pigeon does --
// signs the BytesToSign it is given with its registered key and sends MsgConfirmBatch.  That
// signature is genuine whatever ConfirmBatch says.  Sometimes (not genuine, not replayed by the
// oracle) the validator is "eager": it computes the checkpoint for the id in force itself.
func (h *hist) opConfirm() {
	live := h.liveNonces()
	if len(live) == 0 {
		return
	}
	v := h.r.Intn(5)
	key := h.regKey[v]
	var ext types.OutgoingTxBatch
	how := ""
	switch h.r.Intn(4) {
	case 0: // by nonce
		n := live[h.r.Intn(len(live))]
		r, err := h.in.SkywayKeeper.BatchRequestByNonce(h.ctx, &types.QueryBatchRequestByNonceRequest{Nonce: n, ContractAddress: h.token.GetAddress().Hex()})
		if err != nil {
			h.t.Fatalf("BatchRequestByNonce: %v", err)
		}
		ext, how = r.Batch, "BatchRequestByNonce"
	case 1: // the relay query (only batches with an estimate)
		r, err := h.in.SkywayKeeper.OutgoingTxBatches(h.ctx, &types.QueryOutgoingTxBatchesRequest{ChainReferenceId: chainName})
		if err == nil && len(r.Batches) > 0 {
			ext, how = r.Batches[h.r.Intn(len(r.Batches))], "OutgoingTxBatches"
		}
	}
	if how == "" {
		r, err := h.in.SkywayKeeper.LastPendingBatchRequestByAddr(h.ctx, &types.QueryLastPendingBatchRequestByAddrRequest{Address: keeper.AccAddrs[v].String()})
		if err != nil {
			h.t.Fatalf("LastPendingBatchRequestByAddr: %v", err)
		}
		if len(r.Batch) == 0 {
			return // nothing pending for this validator
		}
		ext, how = r.Batch[0], "LastPendingBatchRequestByAddr"
	}
	h.served(how, ext, "confirm")
	n := ext.BatchNonce
	toSign := ext.BytesToSign
	eager := h.r.Intn(6) == 0
	if eager {
		cp, err := ext.GetCheckpoint(h.curTid)
		if err != nil {
			h.t.Fatal(err)
		}
		toSign = cp
		h.note(cp, triple{h.tidID(h.curTid), h.bodyID(ext), effEst(ext.GasEstimate)})
	}
	sgb, err := types.NewEthereumSignature(toSign, h.keys[key])
	if err != nil {
		h.t.Fatal(err)
	}
	sig := hex.EncodeToString(sgb)
	_, err = h.ms.ConfirmBatch(h.ctx, &types.MsgConfirmBatch{
		Nonce: n, TokenContract: h.token.GetAddress().Hex(), EthSigner: crypto.PubkeyToAddress(h.keys[key].PublicKey).Hex(),
		Orchestrator: keeper.AccAddrs[v].String(), Signature: sig,
		Metadata: valsettypes.MsgMetadata{Creator: keeper.AccAddrs[v].String(), Signers: []string{keeper.AccAddrs[v].String()}},
	})
	tr, ok := h.cpTriple[hex.EncodeToString(toSign)]
	if !ok {
		return // reported by served()
	}
	sigFail := err != nil && strings.Contains(err.Error(), "signature verification failed")
	pastSig := err == nil || strings.Contains(err.Error(), "duplicate") || strings.Contains(err.Error(), "already confirmed")
	if sigFail || pastSig {
		h.steps = append(h.steps, fmt.Sprintf("C13.EConfirm %d %s %s", n, tr.coq(), emit.Bool(!sigFail)))
	} else {
		h.run.Count("confirm-other-error", strings.SplitN(err.Error(), ":", 2)[0])
	}
	st := h.stored(n)
	redeployed := false
	if st != nil {
		c, _ := st.GetCheckpoint(h.curTid)
		redeployed = hex.EncodeToString(c) != hex.EncodeToString(st.BytesToSign)
	}
	if eager {
		h.run.Count("op", "confirm-eager(recomputed checkpoint)")
		if redeployed {
			// issued <> verified on the real code: what ConfirmBatch accepts was never published
			h.run.Count("issued-vs-verified", fmt.Sprintf("stored BytesToSign <> checkpoint under the id in force: signature over the self-computed checkpoint: sig check passed=%v", !sigFail))
			cctx, _ := h.ctx.CacheContext()
			before := h.jailed(cctx)
			h.submit(cctx, chainName, ext, sig)
			h.run.Count("issued-vs-verified", fmt.Sprintf("stored BytesToSign <> checkpoint under the id in force: that signature replayed as evidence jails its signer=%v", len(h.jailed(cctx)) > len(before)))
		}
		h.replay = append(h.replay, map[string]any{"op": "confirm-eager", "nonce": n, "validator": v, "key": key, "error": fmt.Sprint(err)})
		h.oracle("confirm-eager")
		return
	}
	if redeployed {
		h.run.Count("issued-vs-verified", fmt.Sprintf("stored BytesToSign <> checkpoint under the id in force: signature over the served (published) BytesToSign: sig check passed=%v", !sigFail))
	}
	h.confs = append(h.confs, genuine{Val: v, Key: key, Sig: sig, Subject: ext, Cp: hex.EncodeToString(toSign), Accepted: err == nil, tr: tr})
	h.run.Count("op", "confirm")
	h.run.Count("confirm-accepted", fmt.Sprint(err == nil))
	h.run.Count("confirm-read-from", how)
	h.replay = append(h.replay, map[string]any{"op": "confirm", "read_from": how, "nonce": n, "validator": v, "key": key, "signed": hex.EncodeToString(toSign), "accepted": err == nil})
	h.oracle("confirm")
}

func (h *hist) opRemove() {
	n, ok := h.pickNonce()
	if !ok {
		return
	}
	var err error
	how := "cancel"
	if h.r.Intn(2) == 0 {
		err = h.in.SkywayKeeper.CancelOutgoingTXBatch(h.ctx, *h.token, n)
	} else {
		how = "executed"
		err = h.in.SkywayKeeper.OutgoingTxBatchExecuted(h.ctx, *h.token, types.MsgBatchSendToRemoteClaim{
			BatchNonce: n, EthBlockHeight: 1, TokenContract: h.token.GetAddress().Hex(), ChainReferenceId: chainName,
		})
	}
	class := rOk
	if err != nil {
		if h.stored(n) != nil {
			h.t.Fatalf("%s failed on a stored batch: %v", how, err)
		}
		class = rErrNotFound
	}
	h.run.Count("op", how)
	h.step(fmt.Sprintf("ORemove %d", n), class, map[string]any{"op": how, "nonce": n})
}

// opEndBlock: the real flow.  Validators send MsgEstimateBatchGas for a batch without estimate,
// or time passes beyond the batch timeout; then the module's EndBlocker runs (processGasEstimates
// elects the median and calls UpdateBatchGasEstimate, cleanupTimedOutBatches cancels).  What it did
// is read back from the store and given to the model as OEstimate / ORemove steps.
func (h *hist) opEndBlock() {
	live := h.liveNonces()
	how := "endblock:estimates"
	if h.r.Intn(4) == 0 {
		how = "endblock:timeout"
		h.advance()
	} else if len(live) > 0 {
		n := live[h.r.Intn(len(live))]
		k := 2 + h.r.Intn(4)
		base := ests[h.r.Intn(len(ests))]
		var es []uint64
		vals := h.r.Perm(5)[:k]
		for range vals {
			es = append(es, base+uint64(h.r.Intn(3)))
		}
		h.sendEstimates(n, vals, es)
	}
	h.endBlock(how)
}

func (h *hist) advance() {
	h.ctx = h.ctx.WithBlockTime(h.ctx.BlockTime().Add(11 * time.Minute))
	h.in.Context = h.ctx
}

// sendEstimates: validators vals send MsgEstimateBatchGas for batch n.  The harness remembers every
// value sent: estimates stay pending across blocks (and genesis restarts) until they reach consensus.
func (h *hist) sendEstimates(n uint64, vals []int, es []uint64) {
	for i, v := range vals {
		_, _ = h.ms.EstimateBatchGas(h.ctx, &types.MsgEstimateBatchGas{
			Nonce: n, TokenContract: h.token.GetAddress().Hex(), EthSigner: crypto.PubkeyToAddress(h.keys[h.regKey[v]].PublicKey).Hex(), Estimate: es[i],
			Metadata: valsettypes.MsgMetadata{Creator: keeper.AccAddrs[v].String(), Signers: []string{keeper.AccAddrs[v].String()}},
		})
		h.pendingEst[n] = append(h.pendingEst[n], es[i])
	}
}

// endBlock runs the module's real EndBlocker and gives the model what it did, in the order the end
// blocker works: processGasEstimates (estimates elected -> UpdateBatchGasEstimate) first, then
// cleanupTimedOutBatches.  A batch can get its estimate elected AND be cancelled in one block (the
// pending estimates reach consensus only now, e.g. because the snapshot shrank, and the batch is
// past its timeout): the batch is gone afterwards, the election is recognised by the archive entry
// for the batch's checkpoint under one of the estimates that were sent for it.
func (h *hist) endBlock(how string) {
	live := h.liveNonces()
	before := map[uint64]uint64{}
	for _, n := range live {
		before[n] = h.stored(n).GasEstimate
	}
	cc := libcons.New(h.in.ValsetKeeper.GetCurrentSnapshot, h.in.Marshaler)
	skyway.EndBlocker(h.ctx, h.in.SkywayKeeper, cc)
	h.republish() // whatever the end blocker left as BytesToSign is published
	h.run.Count("op", how)
	h.replay = append(h.replay, map[string]any{"op": how})
	did := false
	h.deferOracle = true
	for _, n := range live {
		b := h.stored(n)
		if b != nil && b.GasEstimate != before[n] {
			h.publish(n)
			h.run.Count("endblock-effect", "estimate-elected")
			h.step(fmt.Sprintf("OEstimate %d %s", n, emit.ZU(b.GasEstimate)), rOk, map[string]any{"op": "endblock elected estimate", "nonce": n, "estimate": b.GasEstimate})
			did = true
		}
		if b == nil && before[n] == 0 {
			seen := map[uint64]bool{}
			for _, e := range h.pendingEst[n] {
				if seen[e] || e == 0 {
					continue
				}
				seen[e] = true
				kb := h.known[n]
				kb.GasEstimate = e
				ext := kb.ToExternal()
				cp, err := ext.GetCheckpoint(h.curTid)
				if err != nil {
					h.t.Fatal(err)
				}
				hx := hex.EncodeToString(cp)
				if h.issued[hx] || h.ever[hx] || !h.in.SkywayKeeper.GetPastEthSignatureCheckpoint(h.ctx, cp) {
					continue
				}
				// elected in this very block, then the batch was cancelled
				h.note(cp, triple{h.tidID(h.curTid), h.bodyID(ext), effEst(e)})
				h.issued[hx] = true
				kb.BytesToSign = cp
				h.known[n] = kb
				h.run.Count("endblock-effect", "estimate-elected and batch timed out in one block")
				h.step(fmt.Sprintf("OEstimate %d %s", n, emit.ZU(e)), rOk, map[string]any{"op": "endblock elected estimate (batch cancelled in the same block)", "nonce": n, "estimate": e})
				did = true
				break
			}
		}
	}
	for _, n := range live {
		if h.stored(n) == nil {
			h.run.Count("endblock-effect", "timed-out")
			h.step(fmt.Sprintf("ORemove %d", n), rOk, map[string]any{"op": "endblock cancelled timed-out batch", "nonce": n})
			did = true
		}
	}
	h.deferOracle = false
	if !did {
		h.run.Count("endblock-effect", "nothing")
	}
	h.oracle(how)
}

// opGenesis: the chain is restarted from an exported genesis, as far as the skyway module is
// concerned: ExportGenesis, every key of the module's store deleted, InitGenesis.  (The other
// modules' state -- chain infos, registrations, staking -- is carried by their own genesis.)
func (h *hist) opGenesis() {
	k := h.in.SkywayKeeper
	gs := keeper.ExportGenesis(h.ctx, k)
	st := k.VerifC11RawStore(h.ctx)
	var keys [][]byte
	it := st.Iterator(nil, nil)
	for ; it.Valid(); it.Next() {
		keys = append(keys, append([]byte{}, it.Key()...))
	}
	it.Close()
	for _, key := range keys {
		st.Delete(key)
	}
	func() {
		defer func() {
			if rec := recover(); rec != nil {
				h.t.Fatalf("InitGenesis of the exported state panicked: %v", rec)
			}
		}()
		keeper.InitGenesis(h.ctx, k, gs)
	}()
	for cp := range h.issued {
		h.ever[cp] = true
	}
	h.issued = map[string]bool{}
	h.afterGenesis = true
	h.republish()
	h.run.Count("op", "genesis export+import")
	h.step("OGenesis", rOk, map[string]any{"op": "genesis export + import (skyway store rebuilt from ExportGenesis)", "batches": len(gs.Batches)})
}

// opStaleActivate: ActivateChainReferenceID for test-chain with a contract version NOT above the
// active one and another unique id.  evm leaves the chain info alone but publishes the activation
// event; skyway re-issues the open batches for the id the event carries.
func (h *hist) opStaleActivate() {
	id := fmt.Sprintf("stale-%d-%d", h.scid, len(h.staleTids))
	cur, err := h.in.EvmKeeper.GetChainInfo(h.ctx, chainName)
	if err != nil {
		h.t.Fatal(err)
	}
	ver := cur.ActiveSmartContractID // not above the active one: the activation is a no-op for evm
	if ver > 0 && h.r.Intn(2) == 0 {
		ver--
	}
	err = h.in.EvmKeeper.ActivateChainReferenceID(h.ctx, chainName, &evmtypes.SmartContract{Id: ver}, "0xdef", []byte(id))
	if err != nil {
		h.t.Fatalf("stale ActivateChainReferenceID: %v", err)
	}
	ci, _ := h.in.EvmKeeper.GetChainInfo(h.ctx, chainName)
	if string(ci.SmartContractUniqueID) != h.curTid {
		h.t.Fatalf("stale activation changed the id in force")
	}
	h.staleTids = append(h.staleTids, id)
	h.republish()
	h.run.Count("op", "stale activation")
	h.step(fmt.Sprintf("OStaleActivate 1 %d", h.tidID(id)), rOk, map[string]any{"op": "stale activation", "version": ver, "unique_id": id})
}

// opOrphan: the relayer an open batch is assigned to leaves the active set (it was jailed by an
// earlier evidence message, or it is taken out of the bonded set here), the valset snapshot is
// rebuilt without it, and blocks end.  On the code as it is nothing happens to the batch.
func (h *hist) opOrphan() {
	live := h.liveNonces()
	if len(live) == 0 {
		return
	}
	b := h.stored(live[h.r.Intn(len(live))])
	vi := -1
	for i := 0; i < 5; i++ {
		if keeper.ValAddrs[i].String() == b.Assignee {
			vi = i
		}
	}
	if vi < 0 {
		return
	}
	active := 0
	for i := 0; i < 5; i++ {
		val, err := h.in.StakingKeeper.GetValidator(h.ctx, keeper.ValAddrs[i])
		if err == nil && val.IsBonded() && !val.IsJailed() {
			active++
		}
	}
	val, err := h.in.StakingKeeper.GetValidator(h.ctx, keeper.ValAddrs[vi])
	if err != nil {
		h.t.Fatal(err)
	}
	how := "relayer already jailed"
	if val.IsBonded() && !val.IsJailed() {
		if active <= 2 {
			return
		}
		val.Status = stakingtypes.Unbonding
		if err := h.in.StakingKeeper.SetValidator(h.ctx, val); err != nil {
			h.t.Fatal(err)
		}
		how = "relayer unbonding"
	} else if active < 1 {
		return
	}
	h.orphaned++
	if _, err := h.in.ValsetKeeper.TriggerSnapshotBuild(h.ctx); err != nil {
		h.run.Count("orphan-snapshot", "build failed")
	}
	h.in.MetrixKeeper.UpdateUptime(h.ctx)
	h.run.Count("op", "orphan: "+how)
	h.replay = append(h.replay, map[string]any{"op": "relayer of an open batch leaves the active set, snapshot rebuilt", "nonce": b.BatchNonce, "validator": vi, "how": how})
	for i := 0; i < 1+h.r.Intn(2); i++ {
		h.opEndBlock()
	}
}

func (h *hist) opSetTid() {
	h.scid++
	id := fmt.Sprintf("compass-%d", h.scid)
	chain, mc := chainName, 1
	if h.r.Intn(4) == 0 {
		chain, mc = chainB, 2
		if h.r.Intn(2) == 0 {
			id = h.curTid // chain-b ends up with the id test-chain has: the two chains share checkpoints
		}
	}
	err := h.in.EvmKeeper.ActivateChainReferenceID(h.ctx, chain, &evmtypes.SmartContract{Id: h.scid}, "0xabc", []byte(id))
	if err != nil {
		h.t.Fatalf("ActivateChainReferenceID: %v", err)
	}
	ci, _ := h.in.EvmKeeper.GetChainInfo(h.ctx, chain)
	now := string(ci.SmartContractUniqueID)
	if mc == 1 {
		h.curTid = now
	} else {
		h.tidB = now
	}
	h.republish()
	h.run.Count("op", "redeploy:"+chain)
	h.step(fmt.Sprintf("OSetTid %d %d", mc, h.tidID(now)), rOk, map[string]any{"op": "redeploy", "chain": chain, "unique_id": now})
}

// register writes validator v's external chain infos (both chains) as h.regKey / h.regKeyB say.
func (h *hist) register(v int) error {
	a := crypto.PubkeyToAddress(h.keys[h.regKey[v]].PublicKey)
	b := crypto.PubkeyToAddress(h.keys[h.regKeyB[v]].PublicKey)
	return h.in.ValsetKeeper.AddExternalChainInfo(h.ctx, keeper.ValAddrs[v], []*valsettypes.ExternalChainInfo{
		{ChainType: "evm", ChainReferenceID: chainName, Address: a.String(), Pubkey: a.Bytes()},
		{ChainType: "evm", ChainReferenceID: chainB, Address: b.String(), Pubkey: b.Bytes()},
	})
}

func (h *hist) opSetReg() {
	v := h.r.Intn(5)
	key := 5 + h.r.Intn(4)
	if h.r.Intn(3) == 0 {
		key = h.r.Intn(9)
	}
	oldA, oldB := h.regKey[v], h.regKeyB[v]
	onB := h.r.Intn(3) == 0
	// another validator takes over a key somebody retired
	if onB && len(h.retiredB) > 0 && h.r.Intn(3) == 0 {
		key = h.retiredB[h.r.Intn(len(h.retiredB))]
	} else if !onB && len(h.retired) > 0 && h.r.Intn(3) == 0 {
		key = h.retired[h.r.Intn(len(h.retired))]
	}
	if onB {
		h.regKeyB[v] = key
	} else {
		h.regKey[v] = key
	}
	err := h.register(v)
	if err != nil {
		h.regKey[v], h.regKeyB[v] = oldA, oldB
	} else if onB && oldB != key {
		h.retiredB = append(h.retiredB, oldB)
		h.run.Count("key-rotation", "chain-b")
	} else if !onB && oldA != key {
		h.retired = append(h.retired, oldA)
		h.run.Count("key-rotation", "test-chain")
	}
	h.run.Count("op", "re-register")
	h.run.Count("re-register-ok", fmt.Sprint(err == nil))
	h.step("OSetReg "+h.regList(), rOk, map[string]any{"op": "re-register", "validator": v, "key": key, "chain-b": onB, "ok": err == nil})
}

func (h *hist) opUnjail() {
	j := h.jailed(h.ctx)
	if len(j) == 0 {
		return
	}
	v := j[h.r.Intn(len(j))]
	val, err := h.in.StakingKeeper.GetValidator(h.ctx, keeper.ValAddrs[v])
	if err != nil {
		h.t.Fatal(err)
	}
	cons, _ := val.GetConsAddr()
	cctx, commit := h.ctx.CacheContext()
	ok := func() (ok bool) {
		defer func() {
			if recover() != nil {
				ok = false
			}
		}()
		return h.in.StakingKeeper.Unjail(cctx, cons) == nil
	}()
	if !ok {
		return
	}
	commit()
	h.run.Count("op", "unjail")
	h.step(fmt.Sprintf("OUnjail %d", v), rOk, map[string]any{"op": "unjail", "validator": v})
}

func (h *hist) anySubject() (types.OutgoingTxBatch, bool) {
	n, ok := h.pickNonce()
	if !ok {
		return types.OutgoingTxBatch{}, false
	}
	kb := h.known[n]
	return kb.ToExternal(), true
}

func (h *hist) opEvidence() {
	chain, mchain, tid := chainName, 1, h.curTid
	if h.r.Intn(5) == 0 {
		chain, mchain, tid = chainB, 2, h.tidB
	}
	var subj types.OutgoingTxBatch
	var sig string
	sgTerm := ""
	kind := ""
	switch p := h.r.Intn(100); {
	case p < 35 && len(h.confs) > 0: // genuine confirmation replayed as it was made
		g := h.confs[h.r.Intn(len(h.confs))]
		subj, sig, kind = g.Subject, g.Sig, "replay-genuine"
		sgTerm = fmt.Sprintf("(%d, %s)", g.Key, g.tr.coq())
	case p < 50 && len(h.confs) > 0: // genuine signature, subject's estimate altered
		g := h.confs[h.r.Intn(len(h.confs))]
		subj, sig, kind = g.Subject, g.Sig, "replay-genuine-other-estimate"
		subj.GasEstimate = []uint64{0, 21000, 300000, 7}[h.r.Intn(4)]
		if kb, ok := h.known[subj.BatchNonce]; ok && h.r.Intn(2) == 0 {
			subj.GasEstimate = kb.GasEstimate
		}
		sgTerm = fmt.Sprintf("(%d, %s)", g.Key, g.tr.coq())
	case p < 80: // a key signs the checkpoint of a (usually) never-issued variant of a batch
		s, ok := h.anySubject()
		if !ok {
			s = types.OutgoingTxBatch{TokenContract: erc20, BatchTimeout: 420, ChainReferenceId: chainName}
		}
		switch h.r.Intn(6) {
		case 0:
			s.BatchNonce += 100
		case 1:
			s.BatchTimeout++
		case 2:
			if len(s.Transactions) > 0 {
				txs := append([]types.OutgoingTransferTx{}, s.Transactions...)
				txs[0].Erc20Token.Amount = txs[0].Erc20Token.Amount.AddRaw(1)
				s.Transactions = txs
			} else {
				s.BatchNonce += 7
			}
		case 3:
			s.GasEstimate = ests[h.r.Intn(len(ests))]
		case 4:
			s.GasEstimate = 0
		default: // unchanged: the stored version, i.e. an issued checkpoint signed outside ConfirmBatch
		}
		key := h.r.Intn(9)
		if h.r.Intn(2) == 0 {
			key = h.regKey[h.r.Intn(5)]
			if mchain == 2 {
				key = h.regKeyB[h.r.Intn(5)]
			}
		}
		kind = "signed-variant"
		// a key its validator has replaced since (between two snapshot builds): a never-issued batch
		ret := h.retired
		if mchain == 2 {
			ret = h.retiredB
		}
		if len(ret) > 0 && h.r.Intn(3) == 0 {
			key = ret[h.r.Intn(len(ret))]
			s.BatchNonce += 300
			kind = "signed-with-retired-key"
		}
		tr, cp := h.tripleOf(s, tid)
		subj, sig = s, h.sign(key, cp)
		sgTerm = fmt.Sprintf("(%d, %s)", key, tr.coq())
	case p < 88: // signature over bytes that are no checkpoint
		s, ok := h.anySubject()
		if !ok {
			s = types.OutgoingTxBatch{TokenContract: erc20, BatchTimeout: 420, ChainReferenceId: chainName}
		}
		junk := make([]byte, 32)
		h.r.Read(junk)
		key := h.regKey[h.r.Intn(5)]
		if h.r.Intn(4) != 0 {
			s.BatchNonce += 2000
		}
		subj, sig, kind = s, h.sign(key, junk), "signed-junk"
		sgTerm = fmt.Sprintf("(%d, (-1, 0, 0))", key)
	case p < 95: // malformed signature
		s, ok := h.anySubject()
		if !ok {
			s = types.OutgoingTxBatch{TokenContract: erc20, BatchTimeout: 420, ChainReferenceId: chainName}
		}
		if h.r.Intn(4) != 0 {
			s.BatchNonce += 1000 // never issued, so the handler gets as far as the signature
		}
		subj, kind = s, "malformed"
		sig = []string{"foo", "", "a", "0x", "zz" + strings.Repeat("0", 128), hex.EncodeToString([]byte("short"))}[h.r.Intn(6)]
		sgTerm = "(-1, (0, 0, 0))"
	default: // unknown chain
		s, ok := h.anySubject()
		if !ok {
			s = types.OutgoingTxBatch{TokenContract: erc20, BatchTimeout: 420, ChainReferenceId: chainName}
		}
		chain, mchain = "no-such-chain", 9
		subj, sig, kind = s, h.sign(0, make([]byte, 32)), "unknown-chain"
		sgTerm = "(0, (-1, 0, 0))"
	}
	subj.ChainReferenceId = chain
	switch h.r.Intn(6) {
	case 0:
		subj.BytesToSign = nil
	case 1:
		subj.BytesToSign = []byte("chosen by the submitter")
	}
	var str triple
	var scp []byte
	if mchain != 9 {
		str, scp = h.tripleOf(subj, tid)
	} else {
		str = triple{0, h.bodyID(subj), effEst(subj.GasEstimate)}
	}
	before := h.jailed(h.ctx)
	class, note := h.submit(h.ctx, chain, subj, sig)
	if class < 0 {
		h.t.Fatalf("unclassified evidence error: %s", note)
	}
	after := h.jailed(h.ctx)
	for _, v := range after {
		if !has(before, v) {
			h.sawJail = true
			// whoever is jailed has the recovered address registered for that chain NOW (live
			// registry, at the time of the evidence message) -- not in some older snapshot
			rs := strings.TrimPrefix(sig, "0x")
			if sb, err := hex.DecodeString(rs); err == nil {
				if a, err := types.EthAddressFromSignature(scp, sb); err == nil && !h.registeredNow(v, chain, a.GetAddress().Hex()) {
					violate(h.run, "C13:jailed-for-a-key-it-has-not-registered",
						fmt.Sprintf("validator %d jailed by evidence whose signature recovers to %s, an address it does not have registered for %s at the time of the evidence", v, a.GetAddress().Hex(), chain),
						map[string]any{"kind": "evidence-history", "history": h.replay, "subject": subj, "signature": sig, "chain": chain, "recovered": a.GetAddress().Hex()})
				}
			}
			if h.issued[hex.EncodeToString(scp)] {
				violate(h.run, h.vid("C13:jailed-for-issued-checkpoint"),
					fmt.Sprintf("validator %d jailed by evidence whose checkpoint the chain had published", v),
					map[string]any{"kind": "evidence-history", "history": h.replay, "subject": subj, "signature": sig})
			}
		}
	}
	if class == rErrArchived {
		h.sawArch = true
	}
	h.run.Count("op", "evidence:"+kind)
	h.run.Count("evidence-outcome", []string{"ok(jail or already jailed)", "unknown chain", "", "", "", "archived", "bad signature", "no validator"}[class]+note)
	h.step(fmt.Sprintf("OEvidence %d %d %s %s", mchain, str.body, emit.ZU(subj.GasEstimate), sgTerm), class,
		map[string]any{"op": "evidence", "kind": kind, "chain": chain, "subject": subj, "signature": sig})
}

func (h *hist) finish() {
	var arch []string
	trs := make([]triple, 0, len(h.tripleCp))
	for tr := range h.tripleCp {
		trs = append(trs, tr)
	}
	sort.Slice(trs, func(i, j int) bool {
		a, b := trs[i], trs[j]
		if a.tid != b.tid {
			return a.tid < b.tid
		}
		if a.body != b.body {
			return a.body < b.body
		}
		return a.est < b.est
	})
	for _, tr := range trs {
		b, _ := hex.DecodeString(h.tripleCp[tr])
		arch = append(arch, fmt.Sprintf("(%d, %d, %s, %s)", tr.tid, tr.body, emit.ZU(tr.est), emit.Bool(h.in.SkywayKeeper.GetPastEthSignatureCheckpoint(h.ctx, b))))
	}
	h.run.Case(fmt.Sprintf("C13.CEvid %s %s", emit.List(h.steps), emit.List(arch)), h.sawArch && h.sawJail,
		map[string]any{"kind": "evidence-history", "steps": len(h.steps), "history": h.replay})
}

// scripted F10: build, estimate elected, validator signs the re-issued checkpoint, anybody replays it.
func scriptedF10(t *testing.T, run *emit.Run) {
	h := newHist(t, run)
	h.opBuild()
	n := h.nonces[0]
	if err := h.in.SkywayKeeper.UpdateBatchGasEstimate(h.ctx, h.known[n], 21000); err != nil {
		t.Fatal(err)
	}
	h.publish(n)
	h.step(fmt.Sprintf("OEstimate %d 21000", n), rOk, map[string]any{"op": "estimate", "nonce": n, "estimate": 21000})
	for v := 0; v < 2; v++ {
		b := h.stored(n)
		sgb, _ := types.NewEthereumSignature(b.BytesToSign, h.keys[v])
		sig := hex.EncodeToString(sgb)
		_, err := h.ms.ConfirmBatch(h.ctx, &types.MsgConfirmBatch{
			Nonce: n, TokenContract: h.token.GetAddress().Hex(), EthSigner: crypto.PubkeyToAddress(h.keys[v].PublicKey).Hex(),
			Orchestrator: keeper.AccAddrs[v].String(), Signature: sig,
			Metadata: valsettypes.MsgMetadata{Creator: keeper.AccAddrs[v].String(), Signers: []string{keeper.AccAddrs[v].String()}},
		})
		if err != nil {
			t.Fatalf("scripted confirm rejected: %v", err)
		}
		tr := h.cpTriple[hex.EncodeToString(b.BytesToSign)]
		g := genuine{Val: v, Key: v, Sig: sig, Subject: b.ToExternal(), Cp: hex.EncodeToString(b.BytesToSign), Accepted: true, tr: tr}
		h.confs = append(h.confs, g)
		h.replay = append(h.replay, map[string]any{"op": "confirm", "nonce": n, "validator": v, "key": v, "accepted": true})
		h.oracle("confirm")
		// and as a real step of the history
		class, note := h.submit(h.ctx, chainName, g.Subject, g.Sig)
		if class < 0 {
			t.Fatal(note)
		}
		if class == rErrArchived {
			h.sawArch = true
		}
		h.step(fmt.Sprintf("OEvidence 1 %d %s (%d, %s)", tr.body, emit.ZU(g.Subject.GasEstimate), v, tr.coq()), class,
			map[string]any{"op": "evidence", "kind": "replay-genuine", "subject": g.Subject, "signature": g.Sig})
	}
	h.run.Count("kind", "scripted-F10")
	h.finish()
}

func runEvidence(t *testing.T, run *emit.Run, n int) {
	scriptedF10(t, run)
	for i := 0; i < n; i++ {
		h := newHist(t, run)
		h.opBuild()
		nops := 6 + h.r.Intn(12)
		for j := 0; j < nops; j++ {
			switch p := h.r.Intn(100); {
			case p < 12:
				h.opBuild()
			case p < 24:
				h.opEstimate()
			case p < 32:
				h.opEndBlock()
			case p < 52:
				h.opConfirm()
			case p < 56:
				h.opRemove()
			case p < 62:
				h.opSetTid()
			case p < 68:
				h.opSetReg()
			case p < 72:
				h.opUnjail()
			case p < 75:
				h.opGenesis()
			case p < 77:
				h.opStaleActivate()
			case p < 81:
				h.opOrphan()
			default:
				h.opEvidence()
			}
		}
		h.run.Count("kind", "evidence-history")
		h.finish()
	}
}

// replayCorpus re-runs minimised past failures (harness/corpus/C13/*.json): each is a script of
// (build, estimate e, confirm by validator v, replay).
func replayCorpus(t *testing.T, run *emit.Run) {
	files, _ := filepath.Glob("../corpus/C13/*.json")
	sort.Strings(files)
	for _, f := range files {
		raw, err := os.ReadFile(f)
		if err != nil {
			continue
		}
		var sc struct {
			Kind  string `json:"kind"`
			Steps []struct {
				Op        string `json:"op"`
				Estimate  uint64 `json:"estimate"`
				Validator int    `json:"validator"`
				Validators []int `json:"validators"`
			} `json:"steps"`
		}
		if json.Unmarshal(raw, &sc) != nil || sc.Kind != "evidence-script" {
			continue
		}
		h := newHist(t, run)
		for _, s := range sc.Steps {
			switch s.Op {
			case "build":
				h.opBuild()
			case "estimate":
				n := h.nonces[len(h.nonces)-1]
				err := h.in.SkywayKeeper.UpdateBatchGasEstimate(h.ctx, h.known[n], s.Estimate)
				class := rOk
				if err != nil {
					class = rErrAlreadySet
				} else {
					h.publish(n)
				}
				h.step(fmt.Sprintf("OEstimate %d %s", n, emit.ZU(s.Estimate)), class, map[string]any{"op": "estimate", "nonce": n, "estimate": s.Estimate})
			case "redeploy":
				h.opSetTid()
			case "genesis":
				h.opGenesis()
			case "estimates-then-endblock": // validators send an estimate for the last batch, a block ends
				n := h.nonces[len(h.nonces)-1]
				var es []uint64
				for range s.Validators {
					es = append(es, s.Estimate)
				}
				h.sendEstimates(n, s.Validators, es)
				h.endBlock("endblock:estimates")
			case "unbond": // validators leave the bonded set, the snapshot is rebuilt without them
				for _, v := range s.Validators {
					val, err := h.in.StakingKeeper.GetValidator(h.ctx, keeper.ValAddrs[v])
					if err != nil {
						t.Fatal(err)
					}
					val.Status = stakingtypes.Unbonding
					if err := h.in.StakingKeeper.SetValidator(h.ctx, val); err != nil {
						t.Fatal(err)
					}
				}
				h.orphaned++
				if _, err := h.in.ValsetKeeper.TriggerSnapshotBuild(h.ctx); err != nil {
					t.Fatalf("corpus: snapshot: %v", err)
				}
				h.in.MetrixKeeper.UpdateUptime(h.ctx)
				h.replay = append(h.replay, map[string]any{"op": "validators unbonding, snapshot rebuilt", "validators": s.Validators})
			case "timeout-endblock":
				h.advance()
				h.endBlock("endblock:timeout")
			case "evidence-on-elected": // evidence naming the last batch with the given estimate, signed by the validator's key
				n := h.nonces[len(h.nonces)-1]
				kb := h.known[n]
				kb.GasEstimate = s.Estimate
				subj := kb.ToExternal()
				tr, cp := h.tripleOf(subj, h.curTid)
				sgb, _ := types.NewEthereumSignature(cp, h.keys[s.Validator])
				sig := hex.EncodeToString(sgb)
				class, note := h.submit(h.ctx, chainName, subj, sig)
				if class < 0 {
					t.Fatal(note)
				}
				h.run.Count("corpus-evidence-on-elected-class", fmt.Sprint(class))
				h.step(fmt.Sprintf("OEvidence 1 %d %s (%d, %s)", tr.body, emit.ZU(s.Estimate), s.Validator, tr.coq()), class,
					map[string]any{"op": "evidence", "kind": "corpus", "subject": subj, "signature": sig})
			case "executed":
				n := h.nonces[len(h.nonces)-1]
				err := h.in.SkywayKeeper.OutgoingTxBatchExecuted(h.ctx, *h.token, types.MsgBatchSendToRemoteClaim{
					BatchNonce: n, EthBlockHeight: 1, TokenContract: h.token.GetAddress().Hex(), ChainReferenceId: chainName,
				})
				if err != nil {
					t.Fatalf("corpus: executed: %v", err)
				}
				h.step(fmt.Sprintf("ORemove %d", n), rOk, map[string]any{"op": "executed", "nonce": n})
			case "confirm-and-replay":
				n := h.nonces[len(h.nonces)-1]
				b := h.stored(n)
				v := s.Validator
				sgb, _ := types.NewEthereumSignature(b.BytesToSign, h.keys[v])
				tr := h.cpTriple[hex.EncodeToString(b.BytesToSign)]
				g := genuine{Val: v, Key: v, Sig: hex.EncodeToString(sgb), Subject: b.ToExternal(), Cp: hex.EncodeToString(b.BytesToSign), tr: tr}
				h.confs = append(h.confs, g)
				h.replay = append(h.replay, map[string]any{"op": "confirm", "nonce": n, "validator": v, "key": v})
				h.oracle("confirm")
			}
		}
		h.run.Count("kind", "corpus")
		h.finish()
	}
}

func TestCorr(t *testing.T) {
	run := emit.Start("C13", 240)
	run.Rule("Part A: seeded histories on keeper.SetupFiveValChain (real skyway/evm/valset/staking keepers, real secp256k1 keys): " +
		"build / re-estimate (incl. 0, 300000, 2^64-ish) / confirm / cancel / executed / compass redeploy / key re-registration / unjail, " +
		"interleaved with evidence messages (genuine confirmations replayed, same with altered estimate, keys signing never-issued variants, " +
		"junk, malformed, unknown chain); after every step ALL genuine signatures so far are replayed as evidence in a discarded cache context. " +
		"Part B: PruneJob on the real consensus keeper, 1..8 snapshot validators, evidence from insiders/outsiders around the 10% and 2/3 boundaries. " +
		"non-trivial = history with at least one archived-rejection and one jailing / prune case past the floor")
	replayCorpus(t, run)
	nA := run.N / 3
	if os.Getenv("VERIF_SEARCH") == "1" {
		nA = run.N / 2
	}
	runEvidence(t, run, nA)
	runPrune(t, run, run.N-nA)
	if err := run.Finish("Skyway.Evidence Cons.Quorum Cons.Prune Corr.C13", "C13.case", "C13.check"); err != nil {
		t.Fatal(err)
	}
}

var _ = big.NewInt
var _ = context.Background
