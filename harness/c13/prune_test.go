package c13

import (
	"context"
	"errors"
	"fmt"
	"math/big"
	"math/rand"
	"testing"

	"cosmossdk.io/log"
	sdkmath "cosmossdk.io/math"
	"cosmossdk.io/store"
	"cosmossdk.io/store/metrics"
	storetypes "cosmossdk.io/store/types"
	tmproto "github.com/cometbft/cometbft/proto/tendermint/types"
	tmdb "github.com/cosmos/cosmos-db"
	"github.com/cosmos/cosmos-sdk/codec"
	codectypes "github.com/cosmos/cosmos-sdk/codec/types"
	"github.com/cosmos/cosmos-sdk/runtime"
	sdk "github.com/cosmos/cosmos-sdk/types"
	paramstypes "github.com/cosmos/cosmos-sdk/x/params/types"
	"github.com/palomachain/paloma/v2/verifharness/emit"
	conskeeper "github.com/palomachain/paloma/v2/x/consensus/keeper"
	"github.com/palomachain/paloma/v2/x/consensus/keeper/consensus"
	"github.com/palomachain/paloma/v2/x/consensus/types"
	ethtypes "github.com/ethereum/go-ethereum/core/types"
	evmtypes "github.com/palomachain/paloma/v2/x/evm/types"
	metrixtypes "github.com/palomachain/paloma/v2/x/metrix/types"
	valsettypes "github.com/palomachain/paloma/v2/x/valset/types"
)

func pvalAddr(i int) sdk.ValAddress {
	b := make([]byte, 20)
	b[0] = 0xC1
	b[19] = byte(i)
	return sdk.ValAddress(b)
}

// recValset is the valset keeper the consensus keeper talks to: a fixed snapshot, and Jail
// records every call and refuses the validators in refuse (valset.Jail's own protections).
type recValset struct {
	snap   *valsettypes.Snapshot
	refuse map[int]bool
	calls  []int
	jailed []int
}

func (s *recValset) GetSigningKey(context.Context, sdk.ValAddress, string, string, string) ([]byte, error) {
	return nil, nil
}
func (s *recValset) GetCurrentSnapshot(context.Context) (*valsettypes.Snapshot, error) { return s.snap, nil }
func (s *recValset) CanAcceptValidator(context.Context, sdk.ValAddress) error           { return nil }
func (s *recValset) KeepValidatorAlive(context.Context, sdk.ValAddress, string) error   { return nil }
func (s *recValset) Jail(_ context.Context, a sdk.ValAddress, _ string) error {
	i := int(a[19])
	s.calls = append(s.calls, i)
	if s.refuse[i] {
		return errors.New("cannot jail")
	}
	s.jailed = append(s.jailed, i)
	return nil
}

type nopMetrix struct{ n int }

func (m *nopMetrix) OnConsensusMessageAttested(context.Context, metrixtypes.MessageAttestedEvent) { m.n++ }

type oneQueue struct{ opt *consensus.QueueOptions }

func (q oneQueue) SupportedQueues(context.Context) ([]consensus.SupportsConsensusQueueAction, error) {
	return []consensus.SupportsConsensusQueueAction{{QueueOptions: *q.opt}}, nil
}

// shares: a vector with a known total, biased so that vote sums land on total/10 and 2*total/3.
func pruneShares(r *rand.Rand, n int) []*big.Int {
	out := make([]*big.Int, n)
	scale := big.NewInt(1)
	switch r.Intn(4) {
	case 1:
		scale = big.NewInt(1000)
	case 2:
		scale = new(big.Int).Lsh(big.NewInt(1), uint(r.Intn(200)))
	}
	for i := range out {
		out[i] = new(big.Int).Mul(big.NewInt(int64(r.Intn(12))), scale)
		if r.Intn(4) == 0 {
			out[i].Add(out[i], big.NewInt(int64(r.Intn(3))))
		}
	}
	return out
}

func runPrune(t *testing.T, run *emit.Run, n int) {
	r := run.Rng
	storeKey := storetypes.NewKVStoreKey(types.StoreKey)
	db := tmdb.NewMemDB()
	stateStore := store.NewCommitMultiStore(db, log.NewNopLogger(), metrics.NewNoOpMetrics())
	stateStore.MountStoreWithDB(storeKey, storetypes.StoreTypeIAVL, db)
	if err := stateStore.LoadLatestVersion(); err != nil {
		t.Fatal(err)
	}
	ireg := codectypes.NewInterfaceRegistry()
	appCodec := codec.NewProtoCodec(ireg)
	types.RegisterInterfaces(ireg)
	evmtypes.RegisterInterfaces(ireg)
	ireg.RegisterImplementations((*types.ConsensusMsg)(nil), &evmtypes.Message{})
	memKey := storetypes.NewMemoryStoreKey(types.MemStoreKey)
	ps := paramstypes.NewSubspace(appCodec, types.Amino, storeKey, memKey, "ConsensusParams")
	vs := &recValset{}
	kreg := conskeeper.NewRegistry()
	qname := types.Queue("verif-c13", "evm", "bla")
	kreg.Add(oneQueue{opt: consensus.ApplyOpts(nil,
		consensus.WithQueueTypeName(qname),
		consensus.WithStaticTypeCheck(&evmtypes.Message{}),
		consensus.WithChainInfo("evm", "bla"),
		consensus.WithVerifySignature(func([]byte, []byte, []byte) bool { return true }),
	)})
	k := conskeeper.NewKeeper(appCodec, runtime.NewKVStoreService(storeKey), ps, vs, kreg, nil)
	mx := &nopMetrix{}
	k.AddMessageConsensusAttestedListener(mx)
	ctx := sdk.NewContext(stateStore, tmproto.Header{}, false, log.NewNopLogger())

	txBytes := func(k int) []byte {
		tx := ethtypes.NewTx(&ethtypes.LegacyTx{Nonce: uint64(k), Gas: 21000, GasPrice: big.NewInt(1), Data: []byte{byte(k)}})
		b, _ := tx.MarshalBinary()
		return b
	}
	proofs := []struct {
		tag, id int
		bad     bool
		mk      func() (*codectypes.Any, error)
	}{
		{0, 1, false, func() (*codectypes.Any, error) {
			return codectypes.NewAnyWithValue(&evmtypes.TxExecutedProof{SerializedTX: txBytes(1)})
		}},
		{0, 2, false, func() (*codectypes.Any, error) {
			return codectypes.NewAnyWithValue(&evmtypes.TxExecutedProof{SerializedTX: txBytes(2)})
		}},
		{1, 3, false, func() (*codectypes.Any, error) {
			return codectypes.NewAnyWithValue(&evmtypes.SmartContractExecutionErrorProof{ErrorMessage: "boom"})
		}},
		// a proof whose BytesToHash fails (not a transaction): refused at submission where the keeper
		// validates proofs, otherwise VerifyEvidence returns no result
		{0, 4, true, func() (*codectypes.Any, error) {
			return codectypes.NewAnyWithValue(&evmtypes.TxExecutedProof{SerializedTX: []byte{1, 2, 3}})
		}},
	}

	for i := 0; i < n; i++ {
		nv := 1 + r.Intn(8)
		if r.Intn(30) == 0 {
			nv = 0
		}
		ids := r.Perm(10)[:nv]
		shares := pruneShares(r, nv)
		// scripted first case: one validator with 6 % attests and sends its evidence again
		scripted := i == 0
		if scripted {
			nv = 10
			ids = []int{0, 1, 2, 3, 4, 5, 6, 7, 8, 9}
			shares = nil
			for j := 0; j < 10; j++ {
				shares = append(shares, big.NewInt([]int64{600, 1000, 1000, 1000, 1000, 1000, 1000, 1000, 1000, 1400}[j]))
			}
		}
		tot := new(big.Int)
		sn := &valsettypes.Snapshot{}
		var snItems []string
		for j, id := range ids {
			sn.Validators = append(sn.Validators, valsettypes.Validator{Address: pvalAddr(id), ShareCount: sdkmath.NewIntFromBigInt(shares[j])})
			tot.Add(tot, shares[j])
			snItems = append(snItems, emit.Pair(emit.ZI(int64(id)), emit.Z(shares[j])))
		}
		// the recorded total is sometimes not the sum (the code never re-derives it)
		switch r.Intn(12) {
		case 0:
			tot.Add(tot, big.NewInt(int64(1+r.Intn(5))))
		case 1:
			tot = big.NewInt(0)
		}
		if scripted {
			tot = big.NewInt(10000)
		}
		sn.TotalShares = sdkmath.NewIntFromBigInt(tot)
		vs.snap, vs.calls, vs.jailed = sn, nil, nil
		vs.refuse = map[int]bool{}
		var refuse []string
		for _, id := range ids {
			if r.Intn(6) == 0 && !scripted {
				vs.refuse[id] = true
				refuse = append(refuse, fmt.Sprint(id))
			}
		}

		// the message's life: which delivery data is reported, in which order, and where evidence
		// falls in between.  0 undelivered; 1 error at the start; 2 public then error at the start
		// (the error report is ignored); 3 public at the start; 4 error, evidence, public; 5 public,
		// evidence, error (ignored); 6 evidence, error, evidence, public; 7 evidence first, data last
		opts := &consensus.PutOptions{RequireSignatures: true}
		plan := []int{0, 1, 2, 3, 3, 3, 4, 4, 4, 5, 6, 6, 7}[r.Intn(13)]
		if scripted {
			plan = 3
		}
		requireGas := r.Intn(3) == 0
		opts.RequireGasEstimation = requireGas
		msg := &evmtypes.Message{TurnstoneID: "abc", ChainReferenceID: "bla", Assignee: pvalAddr(0).String(), AssignedAtBlockHeight: sdkmath.NewInt(1),
			Action: &evmtypes.Message_SubmitLogicCall{SubmitLogicCall: &evmtypes.SubmitLogicCall{}}}
		id, err := k.PutMessageInQueue(ctx, qname, msg, opts)
		if err != nil {
			t.Fatal(err)
		}
		var opItems []string // the message's history for the model, in order
		setPublic := func() {
			// any accepted validator may report the delivery
			if err := k.SetMessagePublicAccessData(ctx, pvalAddr(r.Intn(10)), &types.MsgSetPublicAccessData{MessageID: id, QueueTypeName: qname, Data: []byte{1}}); err != nil {
				t.Fatalf("SetMessagePublicAccessData: %v", err)
			}
			opItems = append(opItems, "(2, 0, 0, 0, false)")
		}
		setError := func() {
			if err := k.SetMessageErrorData(ctx, pvalAddr(0), &types.MsgSetErrorData{MessageID: id, QueueTypeName: qname, Data: []byte{2}}); err != nil {
				t.Fatalf("SetMessageErrorData: %v", err)
			}
			opItems = append(opItems, "(1, 0, 0, 0, false)")
		}
		// evidence: aim at a fraction of the total
		target := r.Intn(5) // 0 none, 1 around 10 %, 2 around 2/3, 3 random subset, 4 everybody
		order := r.Perm(12)
		var subItems []string // every accepted MsgAddEvidence, in order
		var firstOrder []int  // validators in order of their first accepted submission
		votes := new(big.Int) // the DISTINCT attesting share, computed here
		submitted := map[int]bool{}
		nproofs := 1 + r.Intn(3)
		if r.Intn(10) == 0 {
			nproofs = 4
		}
		if scripted {
			target, order = 3, nil
		}
		shareOf := func(v int) (*big.Int, bool) {
			for j, sid := range ids {
				if sid == v {
					return shares[j], true
				}
			}
			return new(big.Int), false
		}
		// send goes through the real keeper entry point (AddMessageEvidence)
		send := func(v, pi int) bool {
			p := proofs[pi]
			a, err := p.mk()
			if err != nil {
				t.Fatal(err)
			}
			if err := k.AddMessageEvidence(ctx, pvalAddr(v), &types.MsgAddEvidence{Proof: a, MessageID: id, QueueTypeName: qname}); err != nil {
				if p.bad {
					// trees that validate proofs at submission refuse the unhashable one: this
					// validator then simply has no evidence entry (it stays silent)
					run.Count("prune-bad-proof", "refused at submission")
					return false
				}
				t.Fatalf("AddMessageEvidence: %v", err)
			} else if p.bad {
				run.Count("prune-bad-proof", "stored")
			}
			share, inside := shareOf(v)
			if inside && !submitted[v] {
				votes.Add(votes, share)
			}
			if !submitted[v] {
				firstOrder = append(firstOrder, v)
			}
			submitted[v] = true
			subItems = append(subItems, emit.Pair(emit.ZI(int64(v)), emit.ZI(int64(p.tag)), emit.ZI(int64(p.id)), emit.Bool(p.bad)))
			opItems = append(opItems, emit.Pair("0", emit.ZI(int64(v)), emit.ZI(int64(p.tag)), emit.ZI(int64(p.id)), emit.Bool(p.bad)))
			return true
		}
		lastProof := map[int]int{}
		// evidence that arrives between two reports: 1-3 validators, who mostly do not attest again later
		early := map[int]bool{}
		earlyEvidence := func() {
			for _, v := range r.Perm(12)[:1+r.Intn(3)] {
				pi := r.Intn(nproofs)
				if send(v, pi) {
					lastProof[v] = pi
					early[v] = true
				}
			}
			run.Count("prune-early-evidence", fmt.Sprintf("plan %d", plan))
		}
		switch plan {
		case 1:
			setError()
		case 2:
			setPublic()
			setError()
		case 3:
			setPublic()
		case 4:
			setError()
			earlyEvidence()
			setPublic()
		case 5:
			setPublic()
			earlyEvidence()
			setError()
		case 6:
			earlyEvidence()
			setError()
			earlyEvidence()
			setPublic()
		case 7:
			earlyEvidence()
		}
		if scripted {
			send(0, 0)
			send(0, 0)
			lastProof[0] = 0
		}
		for _, v := range order {
			if target == 0 {
				break
			}
			if early[v] && r.Intn(4) != 0 {
				continue // attested the earlier report, does not attest again
			}
			share, inside := shareOf(v)
			switch target {
			case 1:
				lim := new(big.Int).Add(tot, big.NewInt(int64(r.Intn(3))*10))
				if new(big.Int).Mul(new(big.Int).Add(votes, share), big.NewInt(10)).Cmp(lim) > 0 && r.Intn(4) != 0 {
					continue
				}
			case 2:
				lim := new(big.Int).Mul(tot, big.NewInt(2))
				if new(big.Int).Mul(new(big.Int).Add(votes, share), big.NewInt(3)).Cmp(lim) >= 0 && r.Intn(4) != 0 {
					continue
				}
			case 3:
				if r.Intn(2) == 0 {
					continue
				}
			}
			if !inside && r.Intn(3) != 0 {
				continue
			}
			pi := r.Intn(nproofs)
			if target == 4 && r.Intn(3) != 0 {
				pi = 0
			}
			if send(v, pi) {
				lastProof[v] = pi
			}
			// a pigeon retrying at once
			if submitted[v] && r.Intn(8) == 0 {
				send(v, lastProof[v])
				run.Count("prune-resend", "immediately, same proof")
			}
		}
		// re-submissions: the first attester, later attesters, same proof and another proof, several times
		if len(firstOrder) > 0 && r.Intn(2) == 0 {
			nre := 1 + r.Intn(3)
			for x := 0; x < nre; x++ {
				v := firstOrder[0]
				who := "first attester"
				if r.Intn(2) == 0 {
					v = firstOrder[r.Intn(len(firstOrder))]
					who = "any attester"
				}
				pi := lastProof[v]
				what := "same proof"
				if r.Intn(3) == 0 {
					pi = r.Intn(nproofs)
					what = "some proof"
				}
				if send(v, pi) {
					lastProof[v] = pi
				}
				run.Count("prune-resend", who+", "+what)
			}
		}
		// force the boundaries: the recorded total is whatever the snapshot says (never re-derived)
		if votes.Sign() > 0 && !scripted {
			d := big.NewInt(int64(r.Intn(3) - 1))
			switch r.Intn(8) {
			case 0, 1:
				tot = new(big.Int).Add(new(big.Int).Mul(votes, big.NewInt(10)), d)
			case 2:
				tot = new(big.Int).Add(new(big.Int).Quo(new(big.Int).Mul(votes, big.NewInt(3)), big.NewInt(2)), d)
			}
			if tot.Sign() < 0 {
				tot = big.NewInt(0)
			}
			sn.TotalShares = sdkmath.NewIntFromBigInt(tot)
		}
		if plan == 7 {
			if r.Intn(2) == 0 {
				setError()
			}
			if r.Intn(2) == 0 {
				setPublic()
			}
		}
		run.Count("prune-plan", fmt.Sprint(plan))
		// the message as the real queue holds it before pruning (what PruneJob / VerifyEvidence will see)
		m, err := k.GetMessagesFromQueue(ctx, qname, 0)
		if err != nil || len(m) != 1 {
			t.Fatalf("queue read: %v (%d msgs)", err, len(m))
		}
		public, errd := m[0].GetPublicAccessData() != nil, m[0].GetErrorData() != nil
		var evItems []string
		entries := map[int]int{}
		for _, e := range m[0].GetEvidence() {
			v := int(e.ValAddress[19])
			entries[v]++
			pi := -1
			for j, p := range proofs {
				a, _ := p.mk()
				if e.Proof != nil && a.TypeUrl == e.Proof.TypeUrl && string(a.Value) == string(e.Proof.Value) {
					pi = j
				}
			}
			if pi < 0 {
				t.Fatalf("stored proof not one of the submitted ones")
			}
			evItems = append(evItems, emit.Pair(emit.ZI(int64(v)), emit.ZI(int64(proofs[pi].tag)), emit.ZI(int64(proofs[pi].id)), emit.Bool(proofs[pi].bad)))
		}
		dupRep := map[string]any{"kind": "prune", "snapshot": snItems, "history(0=evidence val type bytes|1=error|2=public)": opItems, "stored_evidence": evItems}
		// nothing but AddEvidence touches the list: whoever supplied evidence at ANY time has an entry
		for v := range submitted {
			if entries[v] == 0 {
				violate(run, "C13:evidence-entry-lost", fmt.Sprintf("validator %d supplied evidence for the message and has no evidence entry left on it before pruning", v), dupRep)
			}
		}
		for v, c := range entries {
			if c > 1 {
				violate(run, "C13:evidence-entry-duplicated", fmt.Sprintf("validator %d has %d evidence entries on one message after re-sending: its shares are counted %d times", v, c, c), dupRep)
			}
		}

		before := mx.n
		if err := k.PruneJob(ctx, qname, id); err != nil {
			t.Fatalf("PruneJob: %v", err)
		}
		_ = before
		left, _ := k.GetMessagesFromQueue(ctx, qname, 0)
		if len(left) != 0 {
			t.Fatalf("PruneJob left %d messages", len(left))
		}

		// ---- direct oracle on what the real keeper did ----
		rep := map[string]any{"kind": "prune", "snapshot": snItems, "total": tot.String(), "public": public, "error": errd,
			"history(0=evidence val type bytes|1=error|2=public)": opItems, "stored_evidence(val,type,bytes)": evItems, "distinct_attesting_share": votes.String(),
			"refuse": refuse, "jail_calls": vs.calls}
		for _, c := range vs.calls {
			in := false
			for _, sid := range ids {
				if sid == c {
					in = true
				}
			}
			if !in {
				violate(run, "C13:prune-jailed-outsider", fmt.Sprintf("pruning asked to jail %d, not a snapshot validator", c), rep)
			}
			if submitted[c] {
				violate(run, "C13:prune-jailed-evidence-supplier", fmt.Sprintf("pruning asked to jail %d although it supplied evidence", c), rep)
			}
		}
		if len(vs.calls) > 0 {
			if !public && !errd {
				violate(run, "C13:prune-jailed-on-undelivered", "pruning an undelivered message jailed validators", rep)
			}
			if new(big.Int).Mul(votes, big.NewInt(10)).Cmp(tot) < 0 {
				violate(run, "C13:prune-jailed-below-floor", "validators jailed although fewer than 10% of snapshot shares attested", rep)
			}
		}
		cls := "jail-calls"
		switch {
		case !public && !errd:
			cls = "undelivered"
		case len(vs.calls) == 0 && new(big.Int).Mul(votes, big.NewInt(10)).Cmp(tot) < 0:
			cls = "below-floor"
		case len(vs.calls) == 0:
			cls = "no-calls(consensus/all attested/empty)"
		}
		run.Count("kind", "prune")
		run.Count("prune-outcome", cls)
		sortedJ := append([]int{}, vs.jailed...)
		run.Case(fmt.Sprintf("C13.CPrune %s %s %s %s %s %s %s %s %s", emit.List(snItems), emit.Z(tot), emit.Bool(public), emit.Bool(errd),
			emit.List(opItems), emit.List(evItems), emit.List(refuse), intsCoq(vs.calls), intsCoq(sortedJ)), len(vs.calls) > 0 || cls == "below-floor", rep)
	}
}
