// Package c01: correspondence harness + direct oracle for C01 (skyway bridge escrow conservation
// and all-or-nothing transfer lifecycle under injected collaborator faults).
//
// Drives the REAL msgServer.SendToRemote / CancelSendToRemote, Keeper.BuildOutgoingTXBatch,
// UpdateBatchGasEstimate, processAttestation (executed-batch and deposit claims), the end-blocker
// steps createBatch / cleanupTimedOutBatches and the whole skyway.EndBlocker on
// keeper.SetupFiveValChain with a second EVM chain registered, the real bank keeper and the real
// EVM keeper behind fault proxies that fail the k-th collaborator call of an operation.  After
// every step the projected observables are recorded for the Coq model (Corr/C01.v) and the
// property's direct oracle is evaluated on the real state.
package c01

import (
	"context"
	"encoding/json"
	"errors"
	"fmt"
	"math/big"
	"math/rand"
	"os"
	"path/filepath"
	"reflect"
	"sort"
	"strings"
	"testing"
	"time"
	"unsafe"

	"cosmossdk.io/log"
	sdkmath "cosmossdk.io/math"
	codectypes "github.com/cosmos/cosmos-sdk/codec/types"
	sdk "github.com/cosmos/cosmos-sdk/types"
	authtypes "github.com/cosmos/cosmos-sdk/x/auth/types"
	distrtypes "github.com/cosmos/cosmos-sdk/x/distribution/types"
	govv1beta1 "github.com/cosmos/cosmos-sdk/x/gov/types/v1beta1"
	"github.com/cosmos/gogoproto/proto"
	xchain "github.com/palomachain/paloma/v2/internal/x-chain"
	"github.com/palomachain/paloma/v2/util/libcons"
	"github.com/palomachain/paloma/v2/verifharness/emit"
	evmtypes "github.com/palomachain/paloma/v2/x/evm/types"
	"github.com/palomachain/paloma/v2/x/skyway"
	"github.com/palomachain/paloma/v2/x/skyway/keeper"
	"github.com/palomachain/paloma/v2/x/skyway/types"
	tokenfactorytypes "github.com/palomachain/paloma/v2/x/tokenfactory/types"
	treasurytypes "github.com/palomachain/paloma/v2/x/treasury/types"
	valsettypes "github.com/palomachain/paloma/v2/x/valset/types"
)

var chains = []string{"test-chain", "test-chain-2"}

// denoms[2] is a token-factory denom ("factory/<user 0>/utokc", filled in by setup) so that the
// token-admin path msgServer.SetERC20ToTokenDenom can be driven for it.
var denoms = []string{"ugrain", "utokb", ""}

// The model numbers chains and denoms by the byte order of the DenomToERC20 store keys
// (prefix ++ chain ++ denom, no separator): "test-chain-2…" sorts before "test-chain" ++ denom,
// "factory/…" before "ugrain" before "utokb".  setup() checks this numbering against the order
// GetAllERC20ToDenoms really returns.
var chainRank = []int{1, 0}
var denomRank = []int{1, 2, 0}
var denomByRank = []int{2, 0, 1}

// contract index order = byte order of the addresses (the model orders store keys by index)
var contracts = []string{
	"0x0bc529c00C6401aEF6D220BE8C6Ea1667F6Ad93e",
	"0x1111111111111111111111111111111111111111",
	"0x2222222222222222222222222222222222222222",
	"0x3333333333333333333333333333333333333333",
	"0x4444444444444444444444444444444444444444",
}

const nUsers = 3
const ethDest = "0x9999999999999999999999999999999999999999"
const ethSender = "0x8888888888888888888888888888888888888888"

var errInjected = errors.New("verif: injected collaborator fault")

const panicInjected = "verif: injected collaborator panic"

// ---- fault proxies ----
// The k-th fallible collaborator call of an operation fails: by returning an error, or (pan) by
// panicking.
type faultCtl struct {
	calls  int
	failAt int
	pan    bool
	neg    bool // the failing call answers "nothing" WITHOUT an error where its signature allows it
	fired  string
	trace  []string // names of the calls made, in order
}

var errNegative = errors.New("verif: negative answer")

func (f *faultCtl) arm(k int, pan bool) {
	f.calls, f.failAt, f.pan, f.neg, f.fired, f.trace = 0, k, pan, false, "", nil
}

// hit: nil = go on; errNegative = the proxy returns its zero answer with a nil error (only asked of
// proxies that have such an answer: hasNeg); anything else = return that error
func (f *faultCtl) hit(name string, hasNeg bool) error {
	n := f.calls
	f.calls++
	f.trace = append(f.trace, name)
	if n == f.failAt {
		f.fired = name
		if f.pan {
			panic(panicInjected)
		}
		if f.neg && hasNeg {
			f.fired = name + " (negative answer)"
			return errNegative
		}
		return errInjected
	}
	return nil
}

func negCapable(name string) bool {
	return name == "evm.PickValidatorForMessage" || name == "evm.GetEthAddressByValidator"
}

// token-factory collaborator of msgServer.SetERC20ToTokenDenom: user 0 administers every factory
// denom (who administers a denom is C16's)
type tfStub struct{ admin string }

func (t tfStub) GetAuthorityMetadata(ctx context.Context, denom string) (tokenfactorytypes.DenomAuthorityMetadata, error) {
	return tokenfactorytypes.DenomAuthorityMetadata{Admin: t.admin}, nil
}

// setUnexported sets an unexported field of the (addressable) keeper copy the harness owns.
func setUnexported(k *keeper.Keeper, field string, v any) {
	f := reflect.ValueOf(k).Elem().FieldByName(field)
	reflect.NewAt(f.Type(), unsafe.Pointer(f.UnsafeAddr())).Elem().Set(reflect.ValueOf(v))
}

type bankProxy struct {
	types.BankKeeper
	f *faultCtl
}

func (b bankProxy) SendCoinsFromModuleToAccount(ctx context.Context, m string, r sdk.AccAddress, amt sdk.Coins) error {
	if err := b.f.hit("bank.SendCoinsFromModuleToAccount", false); err != nil {
		return err
	}
	return b.BankKeeper.SendCoinsFromModuleToAccount(ctx, m, r, amt)
}

func (b bankProxy) SendCoinsFromAccountToModule(ctx context.Context, s sdk.AccAddress, m string, amt sdk.Coins) error {
	if err := b.f.hit("bank.SendCoinsFromAccountToModule", false); err != nil {
		return err
	}
	return b.BankKeeper.SendCoinsFromAccountToModule(ctx, s, m, amt)
}

func (b bankProxy) SendCoinsFromModuleToModule(ctx context.Context, s, r string, amt sdk.Coins) error {
	if err := b.f.hit("bank.SendCoinsFromModuleToModule", false); err != nil {
		return err
	}
	return b.BankKeeper.SendCoinsFromModuleToModule(ctx, s, r, amt)
}

func (b bankProxy) MintCoins(ctx context.Context, m string, amt sdk.Coins) error {
	if err := b.f.hit("bank.MintCoins", false); err != nil {
		return err
	}
	return b.BankKeeper.MintCoins(ctx, m, amt)
}

func (b bankProxy) BurnCoins(ctx context.Context, m string, amt sdk.Coins) error {
	if err := b.f.hit("bank.BurnCoins", false); err != nil {
		return err
	}
	return b.BankKeeper.BurnCoins(ctx, m, amt)
}

type evmProxy struct {
	types.EVMKeeper
	f *faultCtl
}

func (e evmProxy) GetChainInfo(ctx context.Context, c string) (*evmtypes.ChainInfo, error) {
	if err := e.f.hit("evm.GetChainInfo", false); err != nil {
		return nil, err
	}
	return e.EVMKeeper.GetChainInfo(ctx, c)
}

func (e evmProxy) PickValidatorForMessage(ctx context.Context, c string, r *xchain.JobRequirements) (string, string, error) {
	if err := e.f.hit("evm.PickValidatorForMessage", true); err != nil {
		if err == errNegative {
			return "", "", nil // nobody picked, no error
		}
		return "", "", err
	}
	return e.EVMKeeper.PickValidatorForMessage(ctx, c, r)
}

func (e evmProxy) GetEthAddressByValidator(ctx context.Context, v sdk.ValAddress, c string) (*types.EthAddress, bool, error) {
	if err := e.f.hit("evm.GetEthAddressByValidator", true); err != nil {
		if err == errNegative {
			return nil, false, nil // found = false without an error: the live registry has no account for that chain
		}
		return nil, false, err
	}
	return e.EVMKeeper.GetEthAddressByValidator(ctx, v, c)
}

// recHandler records what the real attestation handler returned (processAttestation swallows it).
type recHandler struct {
	inner interface {
		Handle(context.Context, types.Attestation, types.EthereumClaim) error
	}
	called bool
	err    error
	log    []handled // every call that returned (a panicking call does not return)
	lookup func(ctx context.Context, claim types.EthereumClaim) []txo
}

type handled struct {
	claim types.EthereumClaim
	err   error
	txs   []txo // executed-batch claim: the transfers of the batch as the handler found it
}

func (r *recHandler) Handle(ctx context.Context, att types.Attestation, claim types.EthereumClaim) error {
	r.called = true
	var txs []txo
	if r.lookup != nil {
		txs = r.lookup(ctx, claim)
	}
	r.err = r.inner.Handle(ctx, att, claim)
	r.log = append(r.log, handled{claim, r.err, txs})
	return r.err
}

// ---- environment ----
type entry struct{ C, D, K int }

type config struct {
	Table  []entry  `json:"table"`            // (chain, denom, contract) mappings besides the preset (0,0,0)
	Taxes  []string `json:"taxes"`            // per denom, "" = none
	Funds  []string `json:"funds"`            // per user*denom
	Limits []string `json:"limits,omitempty"` // per denom transfer limit (daily), "" = none
}

// evSpec is an observed claim handed to the end-blocker's tally (voted by all five validators)
type evSpec struct {
	Kind  string `json:"kind"` // "exe" | "dep"
	C     int    `json:"c"`
	K     int    `json:"k"`
	Nonce uint64 `json:"nonce,omitempty"` // batch nonce
	Eth   uint64 `json:"eth,omitempty"`
	R     int    `json:"r,omitempty"`
	Amt   string `json:"amt,omitempty"`
	// a claim that was observed already and is voted again after the observed nonce was reset: the
	// pinned code refuses to process an Observed attestation, the chain's tally stops at it
	Replay bool `json:"-"`
}

type estSpec struct {
	K     int    `json:"k"`
	Nonce uint64 `json:"nonce"`
	Est   uint64 `json:"est"`
}

type env struct {
	in    keeper.TestInput
	k     keeper.Keeper
	ms    types.MsgServer
	gov   govv1beta1.Handler
	root  sdk.Context
	f     *faultCtl
	rec   *recHandler
	cc    *libcons.ConsensusChecker
	users []sdk.AccAddress
	mod   sdk.AccAddress
	dist  sdk.AccAddress
	t0    int64
	// the whole end-blocker: chains it tallies (in its order), claims voted but not yet observed,
	// estimates submitted but not yet elected
	active   []int
	skyNonce []uint64 // next claim nonce per chain
	lastEth  []uint64
	queue    [][]evSpec
	pendEst  []estSpec
	compass  []string   // id of the compass deployment the tally accepts claims from, per chain
	observed [][]evSpec // claims the tally consumed, per chain, oldest first (observed[c][i] had nonce first[c]+i)
	firstObs []uint64
}

func mustNoErr(t *testing.T, err error) {
	t.Helper()
	if err != nil {
		t.Fatal(err)
	}
}

func setup(t *testing.T, cfg config) *env {
	in, c := keeper.SetupFiveValChain(t)
	e := &env{in: in, f: &faultCtl{failAt: -1}}
	ctx := sdk.UnwrapSDKContext(c).WithLogger(log.NewNopLogger())
	for i := 0; i < nUsers; i++ {
		b := make([]byte, 20)
		b[0], b[1], b[19] = 0xC0, 0x01, byte(i+1)
		e.users = append(e.users, sdk.AccAddress(b))
	}
	denoms[2] = "factory/" + e.users[0].String() + "/utokc"
	// second chain: registered with the EVM keeper, every validator has an account there, fresh snapshot
	mustNoErr(t, in.EvmKeeper.AddSupportForNewChain(ctx, chains[1], 2, 123, "0x1234", big.NewInt(55)))
	for i, addr := range keeper.ValAddrs {
		v, err := in.StakingKeeper.GetValidator(ctx, addr)
		mustNoErr(t, err)
		pk, err := v.ConsPubKey()
		mustNoErr(t, err)
		var infos []*valsettypes.ExternalChainInfo
		var fees []treasurytypes.RelayerFeeSetting_FeeSetting
		for _, ch := range chains {
			infos = append(infos, &valsettypes.ExternalChainInfo{ChainType: "evm", ChainReferenceID: ch, Address: keeper.EthAddrs[i].String(), Pubkey: pk.Bytes()})
			fees = append(fees, treasurytypes.RelayerFeeSetting_FeeSetting{Multiplicator: sdkmath.LegacyMustNewDecFromStr("1.10"), ChainReferenceId: ch})
		}
		mustNoErr(t, in.ValsetKeeper.AddExternalChainInfo(ctx, addr, infos))
		mustNoErr(t, in.TreasuryKeeper.SetRelayerFee(ctx, addr, &treasurytypes.RelayerFeeSetting{ValAddress: addr.String(), Fees: fees}))
	}
	ctx = ctx.WithBlockHeight(ctx.BlockHeight() + 1)
	_, err := in.ValsetKeeper.TriggerSnapshotBuild(ctx)
	mustNoErr(t, err)
	in.MetrixKeeper.UpdateUptime(ctx)
	// both chains active (a deployed compass contract): the end-blocker tallies claims of active chains only
	for i, ch := range chains {
		mustNoErr(t, in.EvmKeeper.ActivateChainReferenceID(ctx, ch, &evmtypes.SmartContract{Id: 1}, fmt.Sprintf("0x%040d", i+1), []byte("compass-"+ch)))
	}

	e.k = keeper.VerifC01WithCollaborators(in.SkywayKeeper, bankProxy{in.BankKeeper, e.f}, evmProxy{in.SkywayKeeper.EVMKeeper, e.f})
	setUnexported(&e.k, "tokenFactoryKeeper", types.TokenFactoryKeeper(tfStub{admin: e.users[0].String()}))
	e.rec = &recHandler{inner: e.k.AttestationHandler}
	e.rec.lookup = func(ctx context.Context, claim types.EthereumClaim) []txo {
		cl, ok := claim.(*types.MsgBatchSendToRemoteClaim)
		if !ok || cidx(cl.TokenContract) < 0 {
			return nil
		}
		b, err := in.SkywayKeeper.GetOutgoingTXBatch(ctx, contractAddr(cidx(cl.TokenContract)), cl.BatchNonce)
		if err != nil || b == nil {
			return nil
		}
		var out []txo
		for _, t := range b.Transactions {
			out = append(out, e.mkTx(t))
		}
		return out
	}
	e.k.AttestationHandler = e.rec
	e.ms = keeper.NewMsgServerImpl(e.k)
	e.gov = keeper.NewSkywayProposalHandler(e.k)
	e.cc = libcons.New(in.ValsetKeeper.GetCurrentSnapshot, in.Marshaler)
	e.mod = in.AccountKeeper.GetModuleAddress(types.ModuleName)
	e.dist = authtypes.NewModuleAddress(distrtypes.ModuleName)
	for _, en := range cfg.Table {
		mustNoErr(t, e.gov(ctx, &types.SetERC20ToDenomProposal{Title: "t", Description: "d", ChainReferenceId: chains[en.C], Erc20: contracts[en.K], Denom: denoms[en.D]}))
	}
	for d, r := range cfg.Taxes {
		if r != "" {
			mustNoErr(t, e.gov(ctx, &types.SetBridgeTaxProposal{Title: "t", Description: "d", Rate: r, Token: denoms[d]}))
		}
	}
	for d, l := range cfg.Limits {
		if l != "" {
			lim, _ := sdkmath.NewIntFromString(l)
			mustNoErr(t, e.gov(ctx, &types.SetBridgeTransferLimitProposal{Title: "t", Description: "d", Token: denoms[d], Limit: lim, LimitPeriod: types.LimitPeriod_DAILY}))
		}
	}
	for i, f := range cfg.Funds {
		amt, _ := new(big.Int).SetString(f, 10)
		if amt.Sign() > 0 {
			cs := sdk.NewCoins(sdk.NewCoin(denoms[i%len(denoms)], sdkmath.NewIntFromBigInt(amt)))
			mustNoErr(t, in.BankKeeper.MintCoins(ctx, types.ModuleName, cs))
			mustNoErr(t, in.BankKeeper.SendCoinsFromModuleToAccount(ctx, types.ModuleName, e.users[i/len(denoms)], cs))
		}
	}
	e.root = ctx
	e.t0 = ctx.BlockTime().Unix()
	// the model's numbering of chains and denoms must be the store order of the DenomToERC20 index
	rows := e.rows(ctx)
	for i := 1; i < len(rows); i++ {
		a, b := rows[i-1], rows[i]
		if !(chainRank[a.C] < chainRank[b.C] || (chainRank[a.C] == chainRank[b.C] && denomRank[a.D] < denomRank[b.D])) {
			t.Fatalf("GetAllERC20ToDenoms order %v is not the model's (chain rank, denom rank) order", rows)
		}
	}
	for _, ch := range e.k.EVMKeeper.GetActiveChainNames(ctx) {
		e.active = append(e.active, idx(chains, ch))
	}
	if len(e.active) != len(chains) {
		t.Fatalf("active chains %v", e.active)
	}
	e.skyNonce = make([]uint64, len(chains))
	e.lastEth = make([]uint64, len(chains))
	e.queue = make([][]evSpec, len(chains))
	e.observed = make([][]evSpec, len(chains))
	e.firstObs = make([]uint64, len(chains))
	for c, ch := range chains {
		n, err := e.k.GetLastObservedSkywayNonce(ctx, ch)
		mustNoErr(t, err)
		e.skyNonce[c] = n + 1
		e.firstObs[c] = n + 1
		e.compass = append(e.compass, e.k.GetLatestCompassID(ctx, ch))
	}
	return e
}

func idx(l []string, s string) int {
	for i, x := range l {
		if x == s {
			return i
		}
	}
	return -1
}

func cidx(s string) int {
	for i, x := range contracts {
		if strings.EqualFold(x, s) {
			return i
		}
	}
	return -1
}

// rows of the DenomToERC20 index in store order (what createBatch iterates)
func (e *env) rows(ctx sdk.Context) []entry {
	all, err := e.k.GetAllERC20ToDenoms(ctx)
	if err != nil {
		panic(err)
	}
	var out []entry
	for _, m := range all {
		out = append(out, entry{idx(chains, m.ChainReferenceId), idx(denoms, m.Denom), cidx(m.Erc20)})
	}
	return out
}

// denomOf reads the ERC20ToDenom index: the denom a transfer of (chain, contract) is refunded / burned in
func (e *env) denomOf(ctx sdk.Context, c, k int) int {
	d, err := e.k.GetDenomOfERC20(ctx, chains[c], contractAddr(k))
	if err != nil {
		return -1
	}
	return idx(denoms, d)
}

// ---- snapshots of the real state ----
type txo struct {
	id                      uint64
	sender, chain, contract int
	amount, tax             *big.Int
}
type bo struct {
	nonce           uint64
	chain, contract int
	timeout, gas    uint64
	txs             []txo
}
type snap struct {
	pool    []txo
	batches []bo
	bals    []*big.Int // user*denom
	escrow  []*big.Int
	supply  []*big.Int
	comm    []*big.Int
	usage   []string // bridge transfer usage per denom (C15's bookkeeping; here only "a failed send leaves it alone")
}

func (e *env) userIdx(a sdk.AccAddress) int {
	for i, u := range e.users {
		if u.Equals(a) {
			return i
		}
	}
	return -1
}

func (e *env) mkTx(t *types.InternalOutgoingTransferTx) txo {
	return txo{t.Id, e.userIdx(t.Sender), idx(chains, t.Erc20Token.ChainReferenceID), cidx(t.Erc20Token.Contract.GetAddress().Hex()),
		t.Erc20Token.Amount.BigInt(), t.BridgeTaxAmount.BigInt()}
}

func (e *env) snapshot(ctx sdk.Context) snap {
	var s snap
	pool, err := e.k.GetUnbatchedTransactions(ctx)
	if err != nil {
		panic(err)
	}
	for _, t := range pool {
		s.pool = append(s.pool, e.mkTx(t))
	}
	bs, err := e.k.GetOutgoingTxBatches(ctx)
	if err != nil {
		panic(err)
	}
	for _, b := range bs {
		x := bo{nonce: b.BatchNonce, chain: idx(chains, b.ChainReferenceID), contract: cidx(b.TokenContract.GetAddress().Hex()), timeout: b.BatchTimeout, gas: b.GasEstimate}
		for _, t := range b.Transactions {
			x.txs = append(x.txs, e.mkTx(t))
		}
		s.batches = append(s.batches, x)
	}
	for _, u := range e.users {
		for _, d := range denoms {
			s.bals = append(s.bals, e.in.BankKeeper.GetBalance(ctx, u, d).Amount.BigInt())
		}
	}
	for _, d := range denoms {
		s.escrow = append(s.escrow, e.in.BankKeeper.GetBalance(ctx, e.mod, d).Amount.BigInt())
		s.supply = append(s.supply, e.in.BankKeeper.GetSupply(ctx, d).Amount.BigInt())
		s.comm = append(s.comm, e.in.BankKeeper.GetBalance(ctx, e.dist, d).Amount.BigInt())
		u, err := e.k.BridgeTransferUsage(ctx, d)
		if err != nil || u == nil {
			s.usage = append(s.usage, "-")
		} else {
			s.usage = append(s.usage, fmt.Sprintf("%s@%d", u.Total, u.StartBlockHeight))
		}
	}
	return s
}

func txEq(a, b txo) bool {
	return a.id == b.id && a.sender == b.sender && a.chain == b.chain && a.contract == b.contract && a.amount.Cmp(b.amount) == 0 && a.tax.Cmp(b.tax) == 0
}

func txsEq(a, b []txo) bool {
	if len(a) != len(b) {
		return false
	}
	for i := range a {
		if !txEq(a[i], b[i]) {
			return false
		}
	}
	return true
}

func bigsEq(a, b []*big.Int) bool {
	for i := range a {
		if a[i].Cmp(b[i]) != 0 {
			return false
		}
	}
	return true
}

func (s snap) equal(o snap) bool {
	if !txsEq(s.pool, o.pool) || len(s.batches) != len(o.batches) {
		return false
	}
	for i := range s.batches {
		a, b := s.batches[i], o.batches[i]
		if a.nonce != b.nonce || a.chain != b.chain || a.contract != b.contract || a.timeout != b.timeout || a.gas != b.gas || !txsEq(a.txs, b.txs) {
			return false
		}
	}
	return bigsEq(s.bals, o.bals) && bigsEq(s.escrow, o.escrow) && bigsEq(s.supply, o.supply) && bigsEq(s.comm, o.comm)
}

// ---- operations ----
type opSpec struct {
	Kind  string    `json:"kind"`
	U     int       `json:"u,omitempty"`
	C     int       `json:"c,omitempty"`
	D     int       `json:"d,omitempty"`
	K     int       `json:"k,omitempty"`
	Amt   string    `json:"amt,omitempty"`
	ID    uint64    `json:"id,omitempty"`
	Nonce uint64    `json:"nonce,omitempty"`
	Max   int       `json:"max,omitempty"`
	H     int64     `json:"h,omitempty"`
	Now   int64     `json:"now,omitempty"` // seconds after the environment's start time
	Eth   uint64    `json:"eth,omitempty"`
	R     int       `json:"r,omitempty"`
	Est   uint64    `json:"est,omitempty"`
	Evs   []evSpec  `json:"evs,omitempty"`   // fullblock: claims voted before this block
	Ests  []estSpec `json:"ests,omitempty"`  // fullblock: estimates submitted before this block
	Fault int       `json:"fault"`           // index of the collaborator call of this op that fails; -1 none
	Panic bool      `json:"panic,omitempty"` // ... by panicking instead of returning an error
	Neg   bool      `json:"neg,omitempty"`   // ... or by answering "not found" / "nobody" with a nil error (calls that can)
	Quiet bool      `json:"quiet,omitempty"` // record only the outcome for the model (bulk steps of long histories)
}

func deliver(root sdk.Context, atomic bool, f func(ctx sdk.Context) error) (err error, panicked bool) {
	defer func() {
		if r := recover(); r != nil {
			panicked = true
			err = fmt.Errorf("panic: %v", r)
		}
	}()
	if !atomic {
		return f(root), false
	}
	cctx, write := root.CacheContext()
	err = f(cctx)
	if err == nil {
		write()
	}
	return err, false
}

func meta(a sdk.AccAddress) valsettypes.MsgMetadata {
	return valsettypes.MsgMetadata{Creator: a.String(), Signers: []string{a.String()}}
}

func contractAddr(k int) types.EthAddress {
	a, err := types.NewEthAddress(contracts[k])
	if err != nil {
		panic(err)
	}
	return *a
}

type hist struct {
	e         *env
	run       *emit.Run
	cfg       config
	ops       []opSpec
	steps     []string
	human     []string
	acc       map[uint64]txo
	accD      map[uint64]int  // denom whose coins were locked when the transfer was accepted
	applied   map[string]bool // remote events whose handler ran to the end inside an end-block
	stop      bool            // the history ends here (a known finding the model does not follow)
	e2dBefore []int           // the ERC20 -> denom index before a genesis round trip
	remapped  bool            // a denom with pending transfers was just re-pointed: a genesis round trip is due
	refund    map[uint64]bool
	burned    map[uint64]bool
	dep       []*big.Int
	exe       []*big.Int
	s0        snap
	tb0       []entry
	okN       int
	errN      int
	faultN    int
	probeN    int
	viol      bool
	panics    bool // the history injected a panic
	skip      bool // do not hand the history to the model (panic faults on a tree without the fix)
	thorough  bool
}

func (h *hist) violate(id, what string) {
	if h.viol {
		return
	}
	h.viol = true
	h.run.Violate(id, what, map[string]any{"config": h.cfg, "ops": h.ops, "trace": h.human})
}

func zc(x *big.Int) string { return emit.Z(x) }

func coqTx(t txo) string {
	return emit.Pair(emit.ZU(t.id), emit.ZI(int64(t.sender)), emit.ZI(int64(chainRank[t.chain])), emit.ZI(int64(t.contract)), zc(t.amount), zc(t.tax))
}

func coqTxs(ts []txo) string {
	s := make([]string, len(ts))
	for i, t := range ts {
		s[i] = coqTx(t)
	}
	return emit.List(s)
}

func coqFault(k int) string {
	if k < 0 {
		return "nofault"
	}
	return fmt.Sprintf("(fat %d)", k)
}

// per-denom lists go to the model in the model's denom numbering
func byRank(xs []*big.Int) []*big.Int {
	out := make([]*big.Int, len(xs))
	for r, d := range denomByRank {
		out[r] = xs[d]
	}
	return out
}

func balsByRank(xs []*big.Int) []*big.Int {
	out := make([]*big.Int, 0, len(xs))
	for u := 0; u < nUsers; u++ {
		out = append(out, byRank(xs[u*len(denoms):(u+1)*len(denoms)])...)
	}
	return out
}

func (h *hist) coqObs(ok bool, s snap) string {
	bs := make([]string, len(s.batches))
	for i, b := range s.batches {
		bs[i] = emit.Pair(emit.ZU(b.nonce), emit.ZI(int64(chainRank[b.chain])), emit.ZI(int64(b.contract)), emit.ZU(b.timeout), emit.ZU(b.gas), coqTxs(b.txs))
	}
	delta := func(a, b []*big.Int) string {
		out := make([]*big.Int, len(a))
		for i := range a {
			out[i] = new(big.Int).Sub(a[i], b[i])
		}
		return emit.ZList(byRank(out))
	}
	return fmt.Sprintf("{| C01.o_ok := %s; C01.o_pool := %s; C01.o_batches := %s; C01.o_bals := %s; C01.o_escrow := %s; C01.o_supply := %s; C01.o_comm := %s |}",
		emit.Bool(ok), coqTxs(s.pool), emit.List(bs), emit.ZList(balsByRank(s.bals)), emit.ZList(byRank(s.escrow)), delta(s.supply, h.s0.supply), delta(s.comm, h.s0.comm))
}

func coqRecv(r int) string {
	switch {
	case r < nUsers:
		return fmt.Sprintf("(RUser %d)", r)
	case r == 4:
		return "RBlocked"
	}
	return "RInvalid"
}

func coqEv(ev evSpec) string {
	if ev.Kind == "exe" {
		return fmt.Sprintf("EvExecuted %d %d %d %d", chainRank[ev.C], ev.K, ev.Nonce, ev.Eth)
	}
	amt, _ := new(big.Int).SetString(ev.Amt, 10)
	return fmt.Sprintf("EvDeposit %d %d %s %s", chainRank[ev.C], ev.K, coqRecv(ev.R), zc(amt))
}

// inputs of an operation that are read off the pre-state (the same for the operation and its probes)
type prep struct {
	tax    *big.Int
	lim    bool
	groups string // OEndBlockFull: the claims waiting per active chain, the estimates waiting
	ests   string
	full   bool
}

func (h *hist) recvAddr(r int) string {
	switch {
	case r < nUsers:
		return h.e.users[r].String()
	case r == 4:
		return h.e.dist.String()
	}
	return "invalid"
}

func (h *hist) claimOf(ev evSpec, sky uint64, orch sdk.AccAddress) interface {
	types.EthereumClaim
	proto.Message
} {
	if ev.Kind == "exe" {
		return &types.MsgBatchSendToRemoteClaim{EventNonce: sky, EthBlockHeight: ev.Eth, BatchNonce: ev.Nonce, TokenContract: contracts[ev.K],
			ChainReferenceId: chains[ev.C], Orchestrator: orch.String(), SkywayNonce: sky, Metadata: meta(orch), CompassId: h.e.compass[ev.C]}
	}
	amt, _ := new(big.Int).SetString(ev.Amt, 10)
	return &types.MsgSendToPalomaClaim{EventNonce: sky, EthBlockHeight: ev.Eth, TokenContract: contracts[ev.K], Amount: sdkmath.NewIntFromBigInt(amt),
		EthereumSender: ethSender, PalomaReceiver: h.recvAddr(ev.R), Orchestrator: orch.String(), ChainReferenceId: chains[ev.C], SkywayNonce: sky, Metadata: meta(orch), CompassId: h.e.compass[ev.C]}
}

// prepare computes the inputs the model takes from the implementation's pre-state and, for a
// block, casts the votes / estimates that are on the table when the block ends.
func (h *hist) prepare(o *opSpec) prep {
	e := h.e
	p := prep{tax: big.NewInt(0)}
	e.f.arm(-1, false)
	switch o.Kind {
	case "send":
		amt, _ := new(big.Int).SetString(o.Amt, 10)
		coin := sdk.Coin{Denom: denoms[o.D], Amount: sdkmath.NewIntFromBigInt(amt)}
		if tx, terr := keeper.VerifC01BridgeTaxAmount(e.k, e.root, e.users[o.U], coin); terr == nil {
			p.tax = tx.BigInt()
		}
		// the transfer-limit decision (C15 proves how it is taken): run the check on a discarded branch
		b, _ := e.root.CacheContext()
		func() {
			defer func() { _ = recover() }()
			p.lim = e.k.UpdateBridgeTransferUsageWithLimit(b, e.users[o.U], coin) != nil
		}()
	case "endblock", "fullblock":
		for _, ev := range o.Evs {
			if ev.Eth < e.lastEth[ev.C] {
				ev.Eth = e.lastEth[ev.C] // remote heights never go back (TryAttestation would refuse the claim for ever)
			}
			e.lastEth[ev.C] = ev.Eth
			sky := e.skyNonce[ev.C]
			e.skyNonce[ev.C]++
			for _, orch := range keeper.AccAddrs {
				cl := h.claimOf(ev, sky, orch)
				any, err := codectypes.NewAnyWithValue(cl)
				if err != nil {
					panic(err)
				}
				if _, err := e.k.Attest(e.root, cl, any); err != nil {
					panic(fmt.Sprintf("Attest %+v: %v", ev, err))
				}
			}
			e.queue[ev.C] = append(e.queue[ev.C], ev)
		}
		for _, es := range o.Ests {
			for i, acc := range keeper.AccAddrs {
				_, err := e.k.SetBatchGasEstimate(e.root, &types.MsgEstimateBatchGas{Metadata: meta(acc), Nonce: es.Nonce, TokenContract: contracts[es.K], EthSigner: keeper.EthAddrs[i].String(), Estimate: es.Est})
				if err != nil {
					panic(fmt.Sprintf("SetBatchGasEstimate %+v: %v", es, err))
				}
			}
			e.pendEst = append(e.pendEst, es)
		}
		var gs []string
		any := false
		for _, c := range e.active {
			var evs []string
			for _, ev := range e.queue[c] {
				if ev.Replay {
					break // TryAttestation refuses an attestation that is Observed already: this chain's tally ends here
				}
				evs = append(evs, coqEv(ev))
				any = true
			}
			gs = append(gs, emit.List(evs))
		}
		// processGasEstimates walks the open batches in store order
		var es []string
		for _, b := range e.snapshot(e.root).batches {
			for _, pe := range e.pendEst {
				if pe.K == b.contract && pe.Nonce == b.nonce {
					es = append(es, emit.Pair(emit.ZI(int64(pe.K)), emit.ZU(pe.Nonce), emit.ZU(pe.Est)))
					any = true
				}
			}
		}
		p.groups, p.ests, p.full = emit.List(gs), emit.List(es), any || o.Kind == "fullblock"
	}
	return p
}

type result struct {
	err    error
	pan    bool
	term   string
	atomic bool
	fired  string
	calls  int
	trace  []string
}

// apply runs one operation on ctx (the root, or a branch that is thrown away) under the op's fault.
func (h *hist) apply(ctx sdk.Context, o opSpec, p prep) result {
	e := h.e
	now := time.Unix(e.t0+o.Now, 0).UTC()
	r := result{atomic: true}
	amt := new(big.Int)
	if o.Amt != "" && o.Kind != "settax" && o.Kind != "setlimit" {
		amt.SetString(o.Amt, 10)
	}
	// the model's fault for an all-or-nothing operation: a panic there is a failure like any other
	fl := coqFault(o.Fault)
	e.rec.log = nil
	e.f.arm(o.Fault, o.Panic)
	e.f.neg = o.Neg
	switch o.Kind {
	case "send":
		coin := sdk.Coin{Denom: denoms[o.D], Amount: sdkmath.NewIntFromBigInt(amt)}
		r.err, r.pan = deliver(ctx, true, func(ctx sdk.Context) error {
			_, err := e.ms.SendToRemote(ctx, &types.MsgSendToRemote{EthDest: ethDest, Amount: coin, ChainReferenceId: chains[o.C], Metadata: meta(e.users[o.U])})
			return err
		})
		r.term = fmt.Sprintf("OSend %d %d %d %s %s %s %s", o.U, chainRank[o.C], denomRank[o.D], zc(amt), zc(p.tax), emit.Bool(p.lim), fl)
	case "cancel":
		r.err, r.pan = deliver(ctx, true, func(ctx sdk.Context) error {
			_, err := e.ms.CancelSendToRemote(ctx, &types.MsgCancelSendToRemote{TransactionId: o.ID, Metadata: meta(e.users[o.U])})
			return err
		})
		r.term = fmt.Sprintf("OCancel %d %d %s", o.U, o.ID, fl)
	case "build":
		r.err, r.pan = deliver(ctx.WithBlockTime(now), false, func(ctx sdk.Context) error {
			_, err := e.k.BuildOutgoingTXBatch(ctx, chains[o.C], contractAddr(o.K), uint(o.Max))
			return err
		})
		r.term = fmt.Sprintf("OBuild %d %d %d %d %s", chainRank[o.C], o.K, o.Max, now.Unix(), fl)
	case "createbatch":
		r.atomic = false
		r.err, r.pan = deliver(ctx.WithBlockTime(now).WithBlockHeight(o.H), false, func(ctx sdk.Context) error {
			return skyway.VerifC01CreateBatch(ctx, e.k)
		})
		r.term = fmt.Sprintf("OCreateBatch %d %d %s", o.H, now.Unix(), fl)
	case "sweep":
		r.atomic = false
		r.err, r.pan = deliver(ctx.WithBlockTime(now), false, func(ctx sdk.Context) error {
			return skyway.VerifC01CleanupTimedOutBatches(ctx, e.k)
		})
		r.term = fmt.Sprintf("OSweep %d %s", now.Unix(), fl)
	case "endblock", "fullblock":
		r.atomic = false
		r.err, r.pan = deliver(ctx.WithBlockTime(now).WithBlockHeight(o.H), false, func(ctx sdk.Context) error {
			skyway.EndBlocker(ctx, e.k, e.cc)
			return nil
		})
		if p.full || o.Panic {
			f, pf := fl, "nofault"
			if o.Panic {
				f, pf = "nofault", fl
			}
			r.term = fmt.Sprintf("OEndBlockFull %d %d %s %s %s %s", o.H, now.Unix(), p.groups, p.ests, f, pf)
		} else {
			r.term = fmt.Sprintf("OEndBlock %d %d %s", o.H, now.Unix(), fl)
		}
	case "settax":
		// governance changes the denom's bridge tax (rate and exemption list) while transfers are pending
		var ex []string
		for u := 0; u < nUsers; u++ {
			if o.U&(1<<u) != 0 {
				ex = append(ex, e.users[u].String())
			}
		}
		r.err, r.pan = deliver(ctx, true, func(ctx sdk.Context) error {
			return e.gov(ctx, &types.SetBridgeTaxProposal{Title: "t", Description: "d", Rate: o.Amt, Token: denoms[o.D], ExemptAddresses: ex})
		})
		if r.err != nil || r.pan {
			panic(fmt.Sprintf("SetBridgeTaxProposal(%q) failed: %v", o.Amt, r.err))
		}
		r.term = "OGov"
	case "setlimit":
		// governance sets / changes the denom's transfer limit while transfers are pending
		var ex []string
		for u := 0; u < nUsers; u++ {
			if o.U&(1<<u) != 0 {
				ex = append(ex, e.users[u].String())
			}
		}
		lim, _ := sdkmath.NewIntFromString(o.Amt)
		r.err, r.pan = deliver(ctx, true, func(ctx sdk.Context) error {
			return e.gov(ctx, &types.SetBridgeTransferLimitProposal{Title: "t", Description: "d", Token: denoms[o.D], Limit: lim, LimitPeriod: types.LimitPeriod(o.R), ExemptAddresses: ex})
		})
		if r.err != nil || r.pan {
			panic(fmt.Sprintf("SetBridgeTransferLimitProposal(%q) failed: %v", o.Amt, r.err))
		}
		r.term = "OGov"
	case "resetnonce":
		// governance resets the chain's observed event nonce to just below the last observed claim
		// (MsgNonceOverrideProposal through the real msg server; the compass-activation handler calls
		// the same overrideNonce), then the relayers replay the event: all validators submit the
		// IDENTICAL claim again through the real claim msg servers.  One remote event must not be
		// applied twice: the stored attestation is Observed, the tally refuses it.
		n := len(e.observed[o.C])
		if n == 0 || len(e.queue[o.C]) > 0 {
			r.term = "OGov" // nothing to replay
			break
		}
		ev := e.observed[o.C][n-1]
		sky := e.skyNonce[o.C] - 1
		r.err, r.pan = deliver(ctx, true, func(ctx sdk.Context) error {
			if _, err := e.ms.OverrideNonceProposal(ctx, &types.MsgNonceOverrideProposal{Metadata: valsettypes.MsgMetadata{Creator: ""}, ChainReferenceId: chains[o.C], Nonce: sky - 1}); err != nil {
				return err
			}
			for _, orch := range keeper.AccAddrs {
				var err error
				switch cl := h.claimOf(ev, sky, orch).(type) {
				case *types.MsgSendToPalomaClaim:
					_, err = e.ms.SendToPalomaClaim(ctx, cl)
				case *types.MsgBatchSendToRemoteClaim:
					_, err = e.ms.BatchSendToRemoteClaim(ctx, cl)
				}
				if err != nil {
					return err
				}
			}
			return nil
		})
		if r.pan {
			panic(fmt.Sprintf("nonce override + replay of %+v panicked: %v", ev, r.err))
		}
		if r.err != nil {
			// the claim msg server refuses the replay (an executed-batch claim for a batch that is
			// still open and timed out): the transaction, override included, is rolled back
			h.run.Count("nonce-reset-and-replay", ev.Kind+" refused")
			r.err, r.term = nil, "OGov"
			break
		}
		if ctx.MultiStore() == e.root.MultiStore() { // not a probe
			ev.Replay = true
			e.queue[o.C] = append(e.queue[o.C], ev)
			e.observed[o.C] = e.observed[o.C][:n-1]
		}
		h.run.Count("nonce-reset-and-replay", ev.Kind)
		r.term = "OGov"
	case "genesis":
		// the chain is restarted from an exported genesis: the real ExportGenesis, every key of the
		// module's store deleted, the real InitGenesis (the bank ledger is the bank module's own genesis)
		r.err, r.pan = deliver(ctx, false, func(ctx sdk.Context) error {
			gs := keeper.ExportGenesis(ctx, e.k)
			st := e.k.VerifC11RawStore(ctx)
			var keys [][]byte
			it := st.Iterator(nil, nil)
			for ; it.Valid(); it.Next() {
				keys = append(keys, append([]byte{}, it.Key()...))
			}
			it.Close()
			for _, key := range keys {
				st.Delete(key)
			}
			keeper.InitGenesis(ctx, e.k, gs)
			return nil
		})
		r.term = "OGenesis"
	case "mapgov":
		// governance path of setDenomToERC20 (legacy proposal handler; MsgSetERC20MappingProposal calls the same function)
		r.err, r.pan = deliver(ctx, true, func(ctx sdk.Context) error {
			return e.gov(ctx, &types.SetERC20ToDenomProposal{Title: "t", Description: "d", ChainReferenceId: chains[o.C], Erc20: contracts[o.K], Denom: denoms[o.D]})
		})
		if r.err != nil || r.pan {
			panic(fmt.Sprintf("SetERC20ToDenomProposal failed: %v", r.err))
		}
		r.term = fmt.Sprintf("OMapGov %d %d %d", chainRank[o.C], denomRank[o.D], o.K)
	case "mapadmin":
		// token admin path: msgServer.SetERC20ToTokenDenom
		r.err, r.pan = deliver(ctx, true, func(ctx sdk.Context) error {
			_, err := e.ms.SetERC20ToTokenDenom(ctx, &types.MsgSetERC20ToTokenDenom{Metadata: meta(e.users[o.U]), Denom: denoms[o.D], ChainReferenceId: chains[o.C], Erc20: contracts[o.K]})
			return err
		})
		auth := o.U == 0 && o.D == 2 // user 0 administers the factory denom; the other denoms are not factory denoms
		r.term = fmt.Sprintf("OMapAdmin %d %d %d %s %s", chainRank[o.C], denomRank[o.D], o.K, emit.Bool(auth), fl)
	case "cancelbatch":
		r.err, r.pan = deliver(ctx, false, func(ctx sdk.Context) error {
			return e.k.CancelOutgoingTXBatch(ctx, contractAddr(o.K), o.Nonce)
		})
		r.term = fmt.Sprintf("OCancelBatch %d %d %s", o.K, o.Nonce, fl)
	case "setgas":
		r.err, r.pan = deliver(ctx, false, func(ctx sdk.Context) error {
			b, gerr := e.k.GetOutgoingTXBatch(ctx, contractAddr(o.K), o.Nonce)
			if gerr != nil {
				return gerr
			}
			if b == nil {
				b = &types.InternalOutgoingTxBatch{BatchNonce: o.Nonce, TokenContract: contractAddr(o.K)}
			}
			return e.k.UpdateBatchGasEstimate(ctx, *b, o.Est)
		})
		r.term = fmt.Sprintf("OSetGas %d %d %d %s", o.K, o.Nonce, o.Est, fl)
	case "executed":
		claim := &types.MsgBatchSendToRemoteClaim{EventNonce: 1, EthBlockHeight: o.Eth, BatchNonce: o.Nonce, TokenContract: contracts[o.K],
			ChainReferenceId: chains[o.C], Orchestrator: e.users[0].String(), SkywayNonce: 1, Metadata: meta(e.users[0])}
		r.err, r.pan = h.attest(ctx, claim)
		r.term = fmt.Sprintf("OExecuted %d %d %d %d %s", chainRank[o.C], o.K, o.Nonce, o.Eth, fl)
	case "deposit":
		claim := &types.MsgSendToPalomaClaim{EventNonce: 1, EthBlockHeight: 1, TokenContract: contracts[o.K], Amount: sdkmath.NewIntFromBigInt(amt),
			EthereumSender: ethSender, PalomaReceiver: h.recvAddr(o.R), Orchestrator: e.users[0].String(), ChainReferenceId: chains[o.C], SkywayNonce: 1, Metadata: meta(e.users[0])}
		r.err, r.pan = h.attest(ctx, claim)
		r.term = fmt.Sprintf("ODeposit %d %d %s %s %s", chainRank[o.C], o.K, coqRecv(o.R), zc(amt), fl)
	default:
		panic("unknown op kind " + o.Kind)
	}
	r.fired, r.calls, r.trace = e.f.fired, e.f.calls, e.f.trace
	e.f.arm(-1, false)
	return r
}

func firstLine(s string) string {
	if i := strings.IndexByte(s, '\n'); i >= 0 {
		s = s[:i]
	}
	if len(s) > 160 {
		s = s[:160]
	}
	return s
}

// attest = "the attestation handler runs once for this claim": the real processAttestation.
func (h *hist) attest(ctx sdk.Context, claim interface {
	types.EthereumClaim
	proto.Message
}) (error, bool) {
	e := h.e
	any, aerr := codectypes.NewAnyWithValue(claim)
	if aerr != nil {
		panic(aerr)
	}
	att := &types.Attestation{Observed: true, Votes: []string{}, Height: uint64(ctx.BlockHeight()), Claim: any}
	e.rec.called, e.rec.err = false, nil
	err, pan := deliver(ctx, false, func(ctx sdk.Context) error {
		return keeper.VerifC01ProcessAttestation(e.k, ctx, att, claim)
	})
	if pan {
		return err, true
	}
	if err != nil {
		return fmt.Errorf("processAttestation returned: %w", err), false
	}
	if !e.rec.called {
		return errors.New("handler not called"), false
	}
	return e.rec.err, false
}

// probe-able: operations whose every fault point can be tried from the same pre-state
func faultable(kind string) bool {
	switch kind {
	case "settax", "setlimit", "mapgov", "resetnonce", "genesis":
		return false
	}
	return true
}

// a panic fault the model can follow: inside the whole end-blocker (pf), or in an all-or-nothing
// operation with a single exit per collaborator call (a deposit goes on after a failed forward)
func panicable(kind string) bool {
	switch kind {
	case "endblock", "fullblock", "build", "cancelbatch", "setgas", "executed", "createbatch", "sweep":
		return true
	}
	return false
}

// probes runs o from the current state on discarded branches of the store: without fault (to count
// the collaborator calls N), then with every selected fault point as an error and as a panic.
func (h *hist) probes(o opSpec, p prep, before snap, all bool) []string {
	e := h.e
	if !faultable(o.Kind) {
		return nil
	}
	var out []string
	var trace []string
	one := func(po opSpec) int {
		b, _ := e.root.CacheContext()
		r := h.apply(b, po, p)
		after := e.snapshot(b)
		ok := r.err == nil && !r.pan
		h.probeN++
		h.run.Count("probe", po.Kind+fmt.Sprintf("/fault=%v/panic=%v/neg=%v", po.Fault >= 0, po.Panic, po.Neg))
		if po.Fault < 0 {
			trace = r.trace
		}
		if r.fired != "" {
			h.run.Count("probe-fault-fired", po.Kind+"/"+r.fired)
		}
		h.stateOracle(po, "probe of "+po.Kind, after, e.denomBranch(b))
		if !ok && r.atomic && !before.equal(after) {
			h.violate("C01:failed-"+po.Kind+"-changed-state", fmt.Sprintf("%s (fault %d, panic %v, negative answer %v) reported failure but pool/batches/balances changed", po.Kind, po.Fault, po.Panic, po.Neg))
		}
		if !ok && po.Kind == "send" && !usageEq(before, after) {
			h.violate("C01:failed-send-changed-limit-usage", "a refused SendToRemote changed the transfer-limit usage")
		}
		if before.equal(after) {
			out = append(out, fmt.Sprintf("(%s, C01.PSame %s)", r.term, emit.Bool(ok)))
		} else {
			out = append(out, fmt.Sprintf("(%s, C01.PObs %s)", r.term, h.coqObs(ok, after)))
		}
		return r.calls
	}
	po := o
	po.Fault, po.Panic = -1, false
	n := one(po)
	ks := make([]int, 0, n)
	for k := 0; k < n; k++ {
		ks = append(ks, k)
	}
	if !all && n > 3 {
		// quick tier: three fault points of a long operation
		h.run.Rng.Shuffle(len(ks), func(i, j int) { ks[i], ks[j] = ks[j], ks[i] })
		ks = ks[:3]
		sort.Ints(ks)
	}
	for _, k := range ks {
		po.Fault, po.Panic, po.Neg = k, false, false
		one(po)
		if k < len(trace) && negCapable(trace[k]) {
			po.Neg = true // the same call answers "not found" / "nobody" without an error
			one(po)
			po.Neg = false
		}
		if panicSafe && panicable(o.Kind) {
			po.Panic = true
			h.panics = true
			one(po)
		}
	}
	return out
}

func usageEq(a, b snap) bool {
	for i := range a.usage {
		if a.usage[i] != b.usage[i] {
			return false
		}
	}
	return true
}

// denomBranch: the ERC20ToDenom index as seen on ctx
func (e *env) denomBranch(ctx sdk.Context) func(c, k int) int {
	return func(c, k int) int { return e.denomOf(ctx, c, k) }
}

// exec runs one operation on the real keeper (with its probes first), evaluates the oracle and records the step.
func (h *hist) exec(o opSpec, probe, all bool) {
	e := h.e
	before := e.snapshot(e.root)
	p := h.prepare(&o)
	if o.Panic && !panicSafe {
		o.Panic = false // reported once by probePanicSafe; the model follows the repaired code
	}
	if o.Panic {
		h.panics = true
	}
	if o.Kind == "genesis" {
		h.e2dBefore = h.e2dBefore[:0]
		for c := range chains {
			for k := range contracts {
				h.e2dBefore = append(h.e2dBefore, e.denomOf(e.root, c, k))
			}
		}
	}
	var probes []string
	if probe {
		probes = h.probes(o, p, before, all)
	}
	r := h.apply(e.root, o, p)
	handledLog := e.rec.log
	after := e.snapshot(e.root)
	ok := r.err == nil && !r.pan
	h.ops = append(h.ops, o)
	line := fmt.Sprintf("%+v -> ok=%v", o, ok)
	if r.err != nil {
		line += " err=" + firstLine(r.err.Error())
	}
	if r.fired != "" {
		line += " [fault fired at " + r.fired + "]"
		h.faultN++
		h.run.Count("fault-fired", o.Kind+"/"+r.fired)
		if o.Panic {
			h.run.Count("panic-fired", o.Kind+"/"+r.fired)
		}
	}
	h.human = append(h.human, line)
	h.run.Count("op", o.Kind)
	if r.pan {
		h.run.Count("outcome", o.Kind+"/panic")
	} else if ok {
		h.run.Count("outcome", o.Kind+"/ok")
		h.okN++
	} else {
		h.run.Count("outcome", o.Kind+"/err")
		h.errN++
	}
	if o.Kind == "send" && p.lim {
		h.run.Count("send-over-transfer-limit", fmt.Sprint(!ok))
	}
	h.oracle(o, ok, r.atomic, before, after, handledLog)
	if o.Kind == "endblock" || o.Kind == "fullblock" {
		h.afterBlock(after)
	}
	mo := "C01.MFull " + h.coqObs(ok, after)
	if o.Quiet {
		mo = "C01.MOk " + emit.Bool(ok)
	}
	h.steps = append(h.steps, "("+r.term+", "+mo+", "+emit.List(probes)+")")
}

// afterBlock drops the claims the tally consumed and the estimates whose batch is gone or priced.
func (h *hist) afterBlock(after snap) {
	e := h.e
	for c, ch := range chains {
		last, err := e.k.GetLastObservedSkywayNonce(e.root, ch)
		if err != nil {
			panic(err)
		}
		first := e.skyNonce[c] - uint64(len(e.queue[c])) // nonce of the oldest waiting claim
		for len(e.queue[c]) > 0 && first <= last {
			if !e.queue[c][0].Replay {
				e.observed[c] = append(e.observed[c], e.queue[c][0])
			}
			e.queue[c] = e.queue[c][1:]
			first++
			h.run.Count("claims-tallied-by-endblocker", chains[c])
		}
	}
	h.pruneEsts(after)
}

func (h *hist) pruneEsts(after snap) {
	e := h.e
	var keep []estSpec
	for _, pe := range e.pendEst {
		for _, b := range after.batches {
			if b.contract == pe.K && b.nonce == pe.Nonce && b.gas == 0 {
				keep = append(keep, pe)
			}
		}
	}
	e.pendEst = keep
}

// ---- the property's direct oracle, on the real state ----

// stateOracle: what must hold of every reachable state (also of the states probes reach).
func (h *hist) stateOracle(o opSpec, where string, after snap, denomOf func(c, k int) int) {
	// (1) escrow = sum of amount+tax over pending transfers, per denom: by the denom whose coins were
	// locked when the transfer was accepted, and by the denom the table maps the transfer to now
	pend := make([]*big.Int, len(denoms))
	pendT := make([]*big.Int, len(denoms))
	for i := range pend {
		pend[i], pendT[i] = big.NewInt(0), big.NewInt(0)
	}
	addTx := func(t txo) {
		d := denomOf(t.chain, t.contract)
		if d >= 0 {
			pendT[d].Add(pendT[d], new(big.Int).Add(t.amount, t.tax))
		}
		ld, f := h.accD[t.id]
		if !f && d >= 0 {
			pend[d].Add(pend[d], new(big.Int).Add(t.amount, t.tax)) // accepted on this (probe) branch only
		}
		if f {
			pend[ld].Add(pend[ld], new(big.Int).Add(t.amount, t.tax))
			if d != ld {
				id := "C01:pending-transfer-denom-changed"
				if o.Kind == "mapgov" || o.Kind == "mapadmin" {
					id += "/" + o.Kind // the unguarded governance path is a known finding; nothing else is
				}
				h.violate(id, fmt.Sprintf("after %s: transfer %d locked %s but the denom table now maps its contract to %v: refund / burn would be in another denom", where, t.id, denoms[ld], d))
			}
		}
	}
	for _, t := range after.pool {
		addTx(t)
	}
	for _, b := range after.batches {
		if len(b.txs) == 0 || len(b.txs) > keeper.OutgoingTxBatchSize {
			h.violate("C01:batch-size", fmt.Sprintf("after %s: batch %d holds %d transfers", where, b.nonce, len(b.txs)))
		}
		for _, t := range b.txs {
			addTx(t)
			if t.chain != b.chain || t.contract != b.contract {
				h.violate("C01:batch-holds-foreign-transfer", fmt.Sprintf("after %s: batch %d for %s holds transfer %d of %s", where, b.nonce, chains[b.chain], t.id, chains[t.chain]))
			}
		}
	}
	for d := range denoms {
		if after.escrow[d].Cmp(pendT[d]) != 0 {
			h.violate("C01:escrow-ne-pending", fmt.Sprintf("after %s: escrow of %s is %s but pending transfers sum to %s", where, denoms[d], after.escrow[d], pendT[d]))
		}
		if after.escrow[d].Cmp(pend[d]) != 0 {
			h.violate("C01:escrow-ne-pending", fmt.Sprintf("after %s: escrow of %s is %s but the pending transfers that locked %s sum to %s", where, denoms[d], after.escrow[d], denoms[d], pend[d]))
		}
	}
	// the pool is in store order: descending (contract, amount, id) — the order batches are filled in
	for i := 1; i < len(after.pool); i++ {
		a, b := after.pool[i-1], after.pool[i]
		less := a.contract < b.contract || (a.contract == b.contract && (a.amount.Cmp(b.amount) < 0 || (a.amount.Cmp(b.amount) == 0 && a.id < b.id)))
		if less {
			h.violate("C01:pool-order", fmt.Sprintf("after %s: pool not in descending (contract, amount, id) order at %d", where, i))
		}
	}
}

func (h *hist) oracle(o opSpec, ok, atomicKind bool, before, after snap, log []handled) {
	e := h.e
	findBatch := func(s snap, k int, nonce uint64) *bo {
		for i := range s.batches {
			if s.batches[i].contract == k && s.batches[i].nonce == nonce {
				return &s.batches[i]
			}
		}
		return nil
	}
	burnTxs := func(txs []txo) {
		for _, t := range txs {
			h.burned[t.id] = true
			if d, f := h.accD[t.id]; f {
				h.exe[d].Add(h.exe[d], new(big.Int).Add(t.amount, t.tax))
			}
		}
	}
	if o.Kind == "genesis" {
		// across the round trip: every pending transfer is still pending, in the same place, with the
		// byte-identical record; no balance moved
		if !ok {
			h.violate("C01:genesis-round-trip-panicked", "ExportGenesis / InitGenesis panicked on a state reached by bridge operations")
			h.stop = true
			return
		}
		if !before.equal(after) {
			lost := []uint64{}
			still := map[uint64]bool{}
			for _, t := range append(append([]txo{}, after.pool...), batchTxs(after)...) {
				still[t.id] = true
			}
			for _, t := range append(append([]txo{}, before.pool...), batchTxs(before)...) {
				if !still[t.id] {
					lost = append(lost, t.id)
				}
			}
			h.violate("C01:genesis-changed-pending-transfers", fmt.Sprintf("export + import of the module changed pool / batches / balances; pending transfers lost: %v (in no place at all: not cancellable, amount+tax stays in escrow)", lost))
		}
		// (a tree whose export drops ERC20 -> denom entries nobody waits for: no clause is violated, but
		// the model follows the repaired export, so the history ends here)
		for c := range chains {
			for k := range contracts {
				if h.e2dBefore[c*len(contracts)+k] != e.denomOf(e.root, c, k) {
					h.stop = true
				}
			}
		}
		if h.stop {
			h.run.Count("genesis-dropped-a-reverse-entry", "history ended")
		}
		// the denom a pending transfer is refunded / burned in must survive too
		for _, t := range append(append([]txo{}, after.pool...), batchTxs(after)...) {
			if ld, f := h.accD[t.id]; f && e.denomOf(e.root, t.chain, t.contract) != ld {
				h.violate("C01:genesis-drops-reverse-entry", fmt.Sprintf("after export + import transfer %d (contract %d, no longer the current ERC20 of %s) has no denom any more: it can neither be cancelled nor executed, its coins stay locked", t.id, t.contract, denoms[ld]))
				h.stop = true // the model follows the repaired export
				return
			}
		}
	}
	// bookkeeping of what the history says happened
	if ok {
		switch o.Kind {
		case "send":
			seen := map[uint64]bool{}
			for _, t := range before.pool {
				seen[t.id] = true
			}
			n := 0
			for _, t := range after.pool {
				if !seen[t.id] {
					h.acc[t.id] = t
					h.accD[t.id] = o.D
					n++
				}
			}
			if n != 1 {
				h.violate("C01:send-accepted-not-pooled", fmt.Sprintf("successful SendToRemote added %d transfers to the pool", n))
			}
			for _, t := range after.pool {
				if !seen[t.id] {
					i := t.sender*len(denoms) + o.D
					locked := new(big.Int).Sub(before.bals[i], after.bals[i])
					if want := new(big.Int).Add(t.amount, t.tax); locked.Cmp(want) != 0 {
						h.violate("C01:lock-ne-amount-plus-stored-tax", fmt.Sprintf("send of transfer %d locked %s, the pooled record says amount+tax=%s", t.id, locked, want))
					}
				}
			}
		case "cancel":
			h.refund[o.ID] = true
			if t, f := h.acc[o.ID]; f {
				d := h.accD[o.ID]
				want := new(big.Int).Add(t.amount, t.tax)
				i := t.sender*len(denoms) + d
				if new(big.Int).Sub(after.bals[i], before.bals[i]).Cmp(want) != 0 {
					h.violate("C01:refund-not-in-full", fmt.Sprintf("cancel of transfer %d refunded %s %s, expected amount+tax=%s", o.ID, new(big.Int).Sub(after.bals[i], before.bals[i]), denoms[d], want))
				}
			}
		case "executed":
			if b := findBatch(before, o.K, o.Nonce); b != nil {
				burnTxs(b.txs)
			}
		case "deposit":
			if d := e.denomOf(e.root, o.C, o.K); d >= 0 {
				amt, _ := new(big.Int).SetString(o.Amt, 10)
				h.dep[d].Add(h.dep[d], amt)
			}
		}
	}
	// the attestation handlers the end-blocker ran to the end
	if o.Kind == "endblock" || o.Kind == "fullblock" {
		for _, hd := range log {
			if hd.err != nil {
				continue
			}
			// each remote event (chain, compass, nonce, claim hash) is applied at most once
			if hash, herr := hd.claim.ClaimHash(); herr == nil {
				key := fmt.Sprintf("%s/%s/%d/%x", hd.claim.GetChainReferenceId(), hd.claim.GetCompassID(), hd.claim.GetSkywayNonce(), hash)
				if h.applied[key] {
					h.violate("C01:remote-event-applied-twice", fmt.Sprintf("after %s: the %s claim with skyway nonce %d of %s was applied a second time (supply / escrow moved twice for one remote event)", o.Kind, hd.claim.GetType(), hd.claim.GetSkywayNonce(), hd.claim.GetChainReferenceId()))
				}
				h.applied[key] = true
			}
			switch cl := hd.claim.(type) {
			case *types.MsgBatchSendToRemoteClaim:
				burnTxs(hd.txs) // the batch as the handler found it (it may have been built earlier in this very block)
				_ = cl
				h.run.Count("endblocker-handler-applied", "executed")
			case *types.MsgSendToPalomaClaim:
				if d := e.denomOf(e.root, idx(chains, cl.ChainReferenceId), cidx(cl.TokenContract)); d >= 0 {
					h.dep[d].Add(h.dep[d], cl.Amount.BigInt())
				}
				h.run.Count("endblocker-handler-applied", "deposit")
			}
		}
	}
	if (o.Kind == "settax" || o.Kind == "setlimit" || o.Kind == "mapgov" || o.Kind == "mapadmin" || o.Kind == "resetnonce" || o.Kind == "genesis") && !before.equal(after) {
		h.violate("C01:governance-moved-bridge-funds", o.Kind+" changed pool / batches / balances")
	}
	// (4) a bridge operation that reports failure leaves pool, batches and balances as they were
	if !ok && atomicKind && !before.equal(after) {
		h.violate("C01:failed-"+o.Kind+"-changed-state", fmt.Sprintf("%s reported failure but pool/batches/balances changed", o.Kind))
	}
	if !ok && o.Kind == "send" && !usageEq(before, after) {
		h.violate("C01:failed-send-changed-limit-usage", "a refused SendToRemote changed the transfer-limit usage")
	}
	// a build takes the matching transfers in pool order, at most max (100 from the end-blocker)
	for _, b := range after.batches {
		if findBatch(before, b.contract, b.nonce) != nil {
			continue
		}
		var want []txo
		for _, t := range before.pool {
			if t.contract == b.contract && t.chain == b.chain {
				want = append(want, t)
			}
		}
		max := keeper.OutgoingTxBatchSize
		if o.Kind == "build" {
			max = o.Max
		}
		if len(want) > max {
			want = want[:max]
			h.run.Count("batch-filled-to-cap", fmt.Sprint(max))
		}
		// (several builds in one block take disjoint tokens, so the pre-block pool is the right reference)
		if !txsEq(want, b.txs) {
			h.violate("C01:batch-not-first-in-pool-order", fmt.Sprintf("after %s: new batch %d does not hold the first %d matching transfers of the pool in store order", o.Kind, b.nonce, len(want)))
		}
	}
	h.stateOracle(o, o.Kind, after, e.denomBranch(e.root))
	// (2) every accepted transfer is in exactly one place
	place := map[uint64]int{}
	for _, t := range after.pool {
		place[t.id]++
	}
	for _, b := range after.batches {
		for _, t := range b.txs {
			place[t.id]++
		}
	}
	for id := range place {
		if _, f := h.acc[id]; !f {
			h.violate("C01:unaccepted-transfer-pending", fmt.Sprintf("after %s: transfer %d is pending but was never accepted", o.Kind, id))
		}
	}
	for id := range h.refund {
		place[id]++
	}
	for id := range h.burned {
		place[id]++
	}
	ids := make([]uint64, 0, len(h.acc))
	for id := range h.acc {
		ids = append(ids, id)
	}
	sort.Slice(ids, func(i, j int) bool { return ids[i] < ids[j] })
	for _, id := range ids {
		if place[id] != 1 {
			h.violate("C01:transfer-not-in-one-place", fmt.Sprintf("after %s: accepted transfer %d is in %d places (pool / batch / refunded / burned)", o.Kind, id, place[id]))
		}
	}
	// pending records are never rewritten
	chk := func(t txo) {
		if a, f := h.acc[t.id]; f && !txEq(a, t) {
			h.violate("C01:pending-record-rewritten", fmt.Sprintf("after %s: the record of transfer %d differs from what was accepted", o.Kind, t.id))
		}
	}
	for _, t := range after.pool {
		chk(t)
	}
	for _, b := range after.batches {
		for _, t := range b.txs {
			chk(t)
		}
	}
	// (3) supply changes only by attested deposits and attested executed batches
	for d := range denoms {
		delta := new(big.Int).Sub(after.supply[d], h.s0.supply[d])
		want := new(big.Int).Sub(h.dep[d], h.exe[d])
		if delta.Cmp(want) != 0 {
			h.violate("C01:supply-delta", fmt.Sprintf("after %s: supply of %s changed by %s, attested deposits - executed = %s", o.Kind, denoms[d], delta, want))
		}
	}
}

// ---- generators ----
var taxRates = []string{"", "0", "1/5", "1/3", "7/1000", "0.02"}

// candidate mappings besides the preset (test-chain, ugrain, contract 0)
var candidates = []entry{{1, 2, 0}, {1, 0, 0}, {0, 1, 1}, {1, 1, 1}, {1, 1, 2}, {0, 2, 2}, {1, 2, 2}, {1, 0, 1}}

func genConfig(r *rand.Rand) config {
	var cfg config
	used := map[[2]int]bool{{0, 0}: true}  // (chain, denom)
	usedK := map[[2]int]bool{{0, 0}: true} // (chain, contract)
	for _, i := range r.Perm(len(candidates)) {
		c := candidates[i]
		if r.Intn(2) == 0 || used[[2]int{c.C, c.D}] || usedK[[2]int{c.C, c.K}] {
			continue
		}
		used[[2]int{c.C, c.D}], usedK[[2]int{c.C, c.K}] = true, true
		cfg.Table = append(cfg.Table, c)
	}
	for range denoms {
		cfg.Taxes = append(cfg.Taxes, taxRates[r.Intn(len(taxRates))])
	}
	for i := 0; i < nUsers*len(denoms); i++ {
		switch r.Intn(5) {
		case 0:
			cfg.Funds = append(cfg.Funds, "0")
		case 1:
			cfg.Funds = append(cfg.Funds, fmt.Sprint(1+r.Intn(50)))
		case 2:
			cfg.Funds = append(cfg.Funds, fmt.Sprint(100000+r.Intn(400000)))
		default:
			cfg.Funds = append(cfg.Funds, fmt.Sprint(100+r.Intn(5000)))
		}
	}
	for range denoms {
		l := ""
		if r.Intn(4) == 0 {
			l = fmt.Sprint(20 + r.Intn(200))
		}
		cfg.Limits = append(cfg.Limits, l)
	}
	return cfg
}

type clock struct{ h, now int64 }

// genEvents: claims that reach the vote threshold before a block ends
func (h *hist) genEvents(r *rand.Rand, s snap, rows []entry, hostile bool) []evSpec {
	var evs []evSpec
	n := r.Intn(4)
	usedBatch := map[[2]uint64]bool{}
	for i := 0; i < n; i++ {
		if len(s.batches) > 0 && r.Intn(2) == 0 {
			b := s.batches[r.Intn(len(s.batches))]
			key := [2]uint64{uint64(b.contract), b.nonce}
			if usedBatch[key] && r.Intn(3) != 0 {
				continue
			}
			usedBatch[key] = true
			ev := evSpec{Kind: "exe", C: b.chain, K: b.contract, Nonce: b.nonce, Eth: uint64(1 + r.Intn(1000))}
			if hostile {
				switch r.Intn(3) {
				case 0:
					ev.C = 1 - b.chain // claim from the other chain
				case 1:
					ev.Nonce = b.nonce + uint64(1+r.Intn(3)) // unknown batch
				case 2:
					ev.Eth = b.timeout // timed out (boundary)
				}
			}
			evs = append(evs, ev)
		} else {
			en := rows[r.Intn(len(rows))]
			ev := evSpec{Kind: "dep", C: en.C, K: en.K, R: r.Intn(nUsers), Amt: fmt.Sprint(1 + r.Intn(500)), Eth: uint64(1 + r.Intn(1000))}
			if hostile {
				ev.C, ev.K, ev.R = r.Intn(len(chains)), r.Intn(len(contracts)), r.Intn(5)
				if r.Intn(3) == 0 {
					ev.Amt = "0"
				}
			} else if r.Intn(4) == 0 {
				ev.R = 3 + r.Intn(2)
			}
			evs = append(evs, ev)
		}
	}
	return evs
}

func (h *hist) genEsts(r *rand.Rand, s snap) []estSpec {
	var out []estSpec
	for _, b := range s.batches {
		if b.gas != 0 || r.Intn(3) != 0 {
			continue
		}
		dup := false
		for _, pe := range h.e.pendEst {
			if pe.K == b.contract && pe.Nonce == b.nonce {
				dup = true
			}
		}
		if !dup {
			out = append(out, estSpec{K: b.contract, Nonce: b.nonce, Est: uint64(1+r.Intn(5)) * 21000})
		}
	}
	return out
}

// freeContract: a contract address not bound on chain c (so binding it is inside every guard)
func (h *hist) freeContract(r *rand.Rand, c int) int {
	for _, k := range r.Perm(len(contracts)) {
		if h.e.denomOf(h.e.root, c, k) < 0 {
			return k
		}
	}
	return -1
}

func (h *hist) genOp(r *rand.Rand, ck *clock, search bool) opSpec {
	e := h.e
	s := e.snapshot(e.root)
	rows := e.rows(e.root)
	ck.now += int64(r.Intn(260))
	ck.h += int64(1 + r.Intn(20))
	o := opSpec{Fault: -1}
	if r.Intn(100) < 35 {
		o.Fault = r.Intn(3)
	}
	hostile := r.Intn(100) < 15
	pickEntry := func() entry { return rows[r.Intn(len(rows))] }
	g := r.Intn(100)
	if (h.remapped && r.Intn(2) == 0) || r.Intn(100) < 3 {
		// restart from an exported genesis, preferably while transfers of a contract that is no longer
		// the current ERC20 of their denom are pending
		h.remapped = false
		return opSpec{Kind: "genesis", Fault: -1}
	}
	switch {
	case g < 7:
		// governance: new tax rate and exemption list for a denom, preferably one with pending transfers
		o.Kind, o.Fault = "settax", -1
		o.D = r.Intn(len(denoms))
		if len(s.pool) > 0 && r.Intn(4) != 0 {
			t := s.pool[r.Intn(len(s.pool))]
			if d := e.denomOf(e.root, t.chain, t.contract); d >= 0 {
				o.D = d
			}
		}
		o.Amt = []string{"0", "1/5", "1/3", "7/1000", "0.02", "1/2", "3/2"}[r.Intn(7)]
		if r.Intn(3) == 0 {
			o.U = r.Intn(1 << nUsers)
		}
		return o
	case g < 10:
		// governance: transfer limit of a denom (none / daily), small enough to bite
		o.Kind, o.Fault = "setlimit", -1
		o.D = r.Intn(len(denoms))
		o.Amt = fmt.Sprint(r.Intn(120))
		o.R = r.Intn(2)
		if r.Intn(3) == 0 {
			o.U = r.Intn(1 << nUsers)
		}
		return o
	case g < 12:
		// nonce reset + replay of the last observed claim of a chain (needs one, and nothing waiting there)
		for _, c := range r.Perm(len(chains)) {
			if len(e.observed[c]) > 0 && len(e.queue[c]) == 0 {
				o.Kind, o.Fault, o.C = "resetnonce", -1, c
				return o
			}
		}
		fallthrough
	case g < 16:
		// the denom table is written while transfers are pending, inside the guard "the contract is
		// not bound to another denom on that chain": a new (chain, denom) pair, a denom re-mapped to a
		// fresh contract (the old reverse entry stays), a second chain registering a contract address
		// that is in use on the other chain, an existing pair re-asserted
		o.Kind, o.Fault = "mapgov", -1
		o.C, o.D = r.Intn(len(chains)), r.Intn(len(denoms))
		switch r.Intn(4) {
		case 0: // re-assert an existing pair
			en := pickEntry()
			o.C, o.D, o.K = en.C, en.D, en.K
		case 1: // the contract of a pending transfer, as used on the other chain
			o.K = -1
			if len(s.pool) > 0 {
				t := s.pool[r.Intn(len(s.pool))]
				if d := e.denomOf(e.root, 1-t.chain, t.contract); d < 0 || d == o.D {
					o.C, o.K = 1-t.chain, t.contract
				}
			}
			if o.K < 0 {
				o.K = h.freeContract(r, o.C)
			}
		default:
			o.K = h.freeContract(r, o.C)
		}
		if o.K < 0 {
			en := pickEntry()
			o.C, o.D, o.K = en.C, en.D, en.K
		}
		if d := e.denomOf(e.root, o.C, o.K); d >= 0 && d != o.D {
			o.D = d // stay inside the guard (the unguarded case is the known finding, see corpus G1)
		}
		h.noteRemap(s, rows, o)
		h.run.Count("mapgov", fmt.Sprintf("contract-bound-before=%v denom-mapped-before=%v pending=%d", e.denomOf(e.root, o.C, o.K) >= 0, hasRow(rows, o.C, o.D), len(s.pool)+len(s.batches)))
		return o
	case g < 21:
		// token admin path: only user 0 and only for the factory denom; refused when the contract is bound
		o.Kind = "mapadmin"
		o.U, o.C, o.D = 0, r.Intn(len(chains)), 2
		o.K = h.freeContract(r, o.C)
		if hostile || o.K < 0 || r.Intn(4) == 0 {
			switch r.Intn(3) {
			case 0:
				o.U = 1 + r.Intn(2) // not the admin
			case 1:
				o.D = r.Intn(2) // not a factory denom
			default:
				en := pickEntry() // contract already bound on that chain ...
				o.C, o.K = en.C, en.K
				if pend := append(append([]txo{}, s.pool...), batchTxs(s)...); len(pend) > 0 && r.Intn(4) != 0 {
					t := pend[r.Intn(len(pend))] // ... preferably the contract of a pending transfer
					o.C, o.K = t.chain, t.contract
				}
			}
		}
		if o.K < 0 {
			o.K = r.Intn(len(contracts))
		}
		if o.Fault >= 0 {
			o.Fault = 0
		}
		h.noteRemap(s, rows, o)
		return o
	}
	w := r.Intn(100)
	if len(s.batches) == 0 && w >= 76 && r.Intn(4) != 0 {
		w = r.Intn(76) // little to execute / estimate / cancel without batches
	}
	if len(s.pool) == 0 && w >= 30 && w < 62 && r.Intn(3) != 0 {
		w = r.Intn(30)
	}
	pan := func() {
		if o.Fault >= 0 && panicSafe && r.Intn(100) < 35 {
			o.Panic = true
		} else if o.Fault >= 0 && r.Intn(100) < 40 {
			o.Neg = true // relayer selection / address lookup answer "nobody" / "not found" with a nil error
		}
	}
	switch {
	case w < 30:
		o.Kind = "send"
		en := pickEntry()
		o.U, o.C, o.D = r.Intn(nUsers), en.C, en.D
		bal := s.bals[o.U*len(denoms)+o.D]
		switch {
		case hostile && r.Intn(3) == 0:
			o.C, o.D = r.Intn(len(chains)), r.Intn(len(denoms)) // maybe unmapped
			o.Amt = fmt.Sprint(1 + r.Intn(20))
		case hostile:
			o.Amt = []string{"0", new(big.Int).Add(bal, big.NewInt(1)).String(), bal.String(), "1"}[r.Intn(4)]
		case r.Intn(5) == 0 && bal.IsInt64() && bal.Int64() > 300:
			// amounts around the byte-length boundaries of the pool key's amount field
			c := []int64{255, 256, 257, 65535, 65536, 65537, 300, 4096}
			a := c[r.Intn(len(c))]
			if a > bal.Int64()/2 {
				a = 255 + r.Int63n(3)
			}
			o.Amt = fmt.Sprint(a)
		default:
			m := int64(40)
			if bal.IsInt64() && bal.Int64() < 40 && bal.Int64() > 0 {
				m = bal.Int64()
			}
			o.Amt = fmt.Sprint(1 + r.Int63n(m))
		}
	case w < 42:
		o.Kind = "cancel"
		o.U = r.Intn(nUsers)
		if len(s.pool) > 0 && !hostile {
			t := s.pool[r.Intn(len(s.pool))]
			o.ID, o.U = t.id, t.sender
		} else {
			o.ID = uint64(r.Intn(len(h.acc) + 3))
		}
	case w < 50:
		o.Kind = "build"
		en := pickEntry()
		o.C, o.K, o.Max, o.Now = en.C, en.K, []int{1, 2, 3, 100}[r.Intn(4)], ck.now
		if len(s.pool) > 0 && r.Intn(2) == 0 {
			t := s.pool[r.Intn(len(s.pool))] // also contracts whose denom was re-mapped since
			o.C, o.K = t.chain, t.contract
		}
		if hostile {
			o.Max = 0
		}
		if o.Fault >= 0 {
			o.Fault = r.Intn(4)
		}
		pan()
	case w < 59:
		o.Kind = "createbatch"
		ck.h = (ck.h/50 + 1) * 50
		if hostile {
			ck.h += int64(1 + r.Intn(49))
		}
		o.H, o.Now = ck.h, ck.now
		if o.Fault >= 0 {
			o.Fault = r.Intn(3 * (len(rows) + 1))
		}
		pan()
	case w < 66:
		o.Kind = "sweep"
		if r.Intn(2) == 0 {
			ck.now += 400
		}
		o.Now = ck.now
		if o.Fault >= 0 {
			o.Fault = r.Intn(len(s.batches) + 1)
		}
		pan()
	case w < 76:
		// the whole end-blocker, with whatever claims and estimates are on the table
		o.Kind = "fullblock"
		if r.Intn(2) == 0 {
			ck.h = (ck.h/50 + 1) * 50
		}
		if r.Intn(3) == 0 {
			ck.now += 500
		}
		o.H, o.Now = ck.h, ck.now
		if r.Intn(4) != 0 {
			o.Evs = h.genEvents(r, s, rows, hostile)
			o.Ests = h.genEsts(r, s)
		} else {
			o.Kind = "endblock"
		}
		if o.Fault >= 0 {
			waiting := len(o.Evs)
			for _, q := range e.queue {
				waiting += len(q)
			}
			o.Fault = r.Intn(1 + 4*waiting + len(o.Ests) + len(e.pendEst) + len(s.batches))
			if ck.h%50 == 0 {
				o.Fault = r.Intn(3*(len(rows)+1) + 4*waiting + len(o.Ests) + len(e.pendEst) + len(s.batches))
			}
		}
		pan()
	case w < 79:
		o.Kind = "cancelbatch"
		o.K, o.Nonce = r.Intn(len(contracts)), uint64(r.Intn(4))
		if len(s.batches) > 0 && !hostile {
			b := s.batches[r.Intn(len(s.batches))]
			o.K, o.Nonce = b.contract, b.nonce
		}
		if o.Fault >= 0 {
			o.Fault = 0
		}
		pan()
	case w < 83:
		o.Kind = "setgas"
		o.K, o.Nonce, o.Est = r.Intn(len(contracts)), uint64(r.Intn(4)), uint64(r.Intn(3))*21000
		if len(s.batches) > 0 && !hostile {
			b := s.batches[r.Intn(len(s.batches))]
			o.K, o.Nonce, o.Est = b.contract, b.nonce, uint64(1+r.Intn(5))*21000
		}
		if o.Fault >= 0 {
			o.Fault = 0
		}
		pan()
	case w < 91:
		o.Kind = "executed"
		o.C, o.K, o.Nonce, o.Eth = r.Intn(len(chains)), r.Intn(len(contracts)), uint64(r.Intn(4)), uint64(r.Intn(1000))
		if len(s.batches) > 0 && !hostile {
			b := s.batches[r.Intn(len(s.batches))]
			o.C, o.K, o.Nonce = b.chain, b.contract, b.nonce
		} else if len(s.batches) > 0 {
			b := s.batches[r.Intn(len(s.batches))]
			o.K, o.Nonce = b.contract, b.nonce // right batch, maybe the other chain
			if r.Intn(3) == 0 {
				o.C, o.Eth = b.chain, b.timeout+uint64(r.Intn(2))
			}
		}
		if o.Fault >= 0 {
			o.Fault = 0
		}
		pan()
	default:
		o.Kind = "deposit"
		en := pickEntry()
		o.C, o.K, o.R, o.Amt = en.C, en.K, r.Intn(nUsers), fmt.Sprint(1+r.Intn(500))
		if hostile {
			o.C, o.K = r.Intn(len(chains)), r.Intn(len(contracts))
			o.R = r.Intn(5)
			if r.Intn(3) == 0 {
				o.Amt = "0"
			}
		} else if r.Intn(4) == 0 {
			o.R = 3 + r.Intn(2)
		}
	}
	return o
}

// noteRemap: o re-points a (chain, denom) that has pending transfers of its current contract
func (h *hist) noteRemap(s snap, rows []entry, o opSpec) {
	for _, en := range rows {
		if en.C == o.C && en.D == o.D && en.K != o.K {
			for _, t := range append(append([]txo{}, s.pool...), batchTxs(s)...) {
				if t.chain == en.C && t.contract == en.K {
					h.remapped = true
					h.run.Count("denom-repointed-with-pending-transfers", o.Kind)
				}
			}
		}
	}
}

func batchTxs(s snap) []txo {
	var out []txo
	for _, b := range s.batches {
		out = append(out, b.txs...)
	}
	return out
}

func hasRow(rows []entry, c, d int) bool {
	for _, en := range rows {
		if en.C == c && en.D == d {
			return true
		}
	}
	return false
}

func newHist(t *testing.T, run *emit.Run, cfg config) *hist {
	h := &hist{e: setup(t, cfg), run: run, cfg: cfg, acc: map[uint64]txo{}, accD: map[uint64]int{}, applied: map[string]bool{}, refund: map[uint64]bool{}, burned: map[uint64]bool{}}
	h.thorough = run.Tier == "thorough"
	for range denoms {
		h.dep = append(h.dep, big.NewInt(0))
		h.exe = append(h.exe, big.NewInt(0))
	}
	h.s0 = h.e.snapshot(h.e.root)
	h.tb0 = h.e.rows(h.e.root)
	for d := range denoms {
		if h.s0.escrow[d].Sign() != 0 {
			t.Fatalf("escrow of %s not empty at start: %s", denoms[d], h.s0.escrow[d])
		}
	}
	return h
}

func (h *hist) finish(tag string) {
	if h.skip {
		h.run.Count("source", tag+" (not compared: panic faults need the fix)")
		return
	}
	tb := make([]string, len(h.tb0))
	for i, en := range h.tb0 {
		tb[i] = emit.Pair(emit.ZI(int64(chainRank[en.C])), emit.ZI(int64(denomRank[en.D])), emit.ZI(int64(en.K)))
	}
	term := fmt.Sprintf("C01.CHistP %s %s %s", emit.List(tb), emit.ZList(balsByRank(h.s0.bals)), emit.List(h.steps))
	nontrivial := h.okN > 0 && h.errN > 0
	if dir := os.Getenv("C01_TRACE_DIR"); dir != "" { // debugging aid: one trace file per case
		var b strings.Builder
		fmt.Fprintf(&b, "%s\nconfig %+v\n", tag, h.cfg)
		for i, l := range h.human {
			fmt.Fprintf(&b, "%d: %s\n    %s\n", i, l, h.steps[i])
		}
		_ = os.WriteFile(filepath.Join(dir, fmt.Sprintf("case_%03d.txt", h.run.NCases())), []byte(b.String()), 0o644)
	}
	h.run.Case(term, nontrivial, map[string]any{"source": tag, "config": h.cfg, "trace": h.human})
	h.run.Count("history-length", fmt.Sprint(len(h.steps)/5*5))
	h.run.Count("table-size", fmt.Sprint(len(h.tb0)))
	h.run.Count("history-with-fault", fmt.Sprint(h.faultN > 0))
	h.run.Count("history-with-panic", fmt.Sprint(h.panics))
	h.run.Count("history-with-probes", fmt.Sprint(h.probeN > 0))
	shared := false
	rows := h.e.rows(h.e.root)
	for i, a := range rows {
		for _, b := range rows[i+1:] {
			if a.K == b.K && a.C != b.C {
				shared = true
			}
		}
	}
	h.run.Count("contract-shared-by-two-chains", fmt.Sprint(shared))
}

type corpusFile struct {
	Note   string   `json:"note"`
	Config config   `json:"config"`
	Ops    []opSpec `json:"ops"`
}

// panicSafe: does the tree drop a half-done batch change when a collaborator panics?  (after "fix:
// do not commit a half-done batch change when a collaborator panics").  Probed on the real keeper.
var panicSafe bool

func probePanicSafe(t *testing.T, run *emit.Run) {
	cfg := config{Taxes: []string{"", "", ""}, Funds: []string{"1000", "0", "0", "0", "0", "0", "0", "0", "0"}}
	h := newHist(t, run, cfg)
	e := h.e
	o := opSpec{Kind: "send", U: 0, C: 0, D: 0, Amt: "100", Fault: -1}
	if r := h.apply(e.root, o, h.prepare(&o)); r.err != nil {
		t.Fatalf("probe send: %v", r.err)
	}
	before := e.snapshot(e.root)
	b, _ := e.root.CacheContext()
	h.apply(b, opSpec{Kind: "build", C: 0, K: 0, Max: 100, Now: 10, Fault: 1, Panic: true}, prep{})
	after := e.snapshot(b)
	panicSafe = before.equal(after)
	if !panicSafe {
		h.human = []string{"send 100ugrain; BuildOutgoingTXBatch with PickValidatorForMessage panicking (recovered by the caller, as EndBlocker does)",
			fmt.Sprintf("pool before %d transfers, after %d; batches after %d; escrow still %s", len(before.pool), len(after.pool), len(after.batches), after.escrow[0])}
		h.ops = []opSpec{o, {Kind: "build", C: 0, K: 0, Max: 100, Now: 10, Fault: 1, Panic: true}}
		h.violate("C01:panic-commits-half-done-batch-change", "a collaborator panic inside BuildOutgoingTXBatch (deferred commit sees err == nil) commits the pool removal without a batch: transfers in no pool and no batch, coins locked")
	}
	run.Extra("panic_safe_commit", panicSafe)
}

func TestCorr(t *testing.T) {
	run := emit.Start("C01", 300)
	run.Rule("one case = one history (4-28 ops) on a fresh 5-validator skyway environment with two active EVM chains, a random denom<->(chain,contract) table (incl. one contract address registered on both chains), random tax rates, transfer limits and balances; ops: send / cancel (messages, tx-wrapped; the transfer-limit decision is read off a discarded run of the check), governance SetBridgeTax / SetBridgeTransferLimit / SetERC20ToDenom (new pair, denom re-mapped to a fresh contract, second chain registering a used contract address — all inside the guard), token-admin SetERC20ToTokenDenom (incl. refused: contract bound, not admin, not a factory denom), BuildOutgoingTXBatch, createBatch, cleanupTimedOutBatches, the whole EndBlocker with claims voted by all validators and gas estimates waiting (tally -> processAttestation, processGasEstimates, sweep), UpdateBatchGasEstimate, executed-batch and deposit attestations; 35% of ops carry a fault at the k-th collaborator call (bank / EVM keeper proxies), a third of those as a PANIC; 15% are hostile; probes: for sampled ops (thorough: every op) the op is also run from the same pre-state on discarded branches without fault and with every fault point as error and as panic; one long history per run pools 101-130 transfers of one token (batches at the 100 cap, several open batches, fill order); non-trivial = at least one successful and one failed operation")
	search := os.Getenv("VERIF_SEARCH") == "1"
	thorough := run.Tier == "thorough"
	probePanicSafe(t, run)
	// corpus first
	files, _ := filepath.Glob("../corpus/C01/*.json")
	sort.Strings(files)
	for _, f := range files {
		raw, err := os.ReadFile(f)
		if err != nil {
			t.Fatal(err)
		}
		var cf corpusFile
		if err := json.Unmarshal(raw, &cf); err != nil {
			t.Fatalf("%s: %v", f, err)
		}
		h := newHist(t, run, cf.Config)
		for _, o := range cf.Ops {
			if h.stop {
				break
			}
			h.exec(o, false, false)
		}
		h.finish("corpus:" + filepath.Base(f))
		run.Count("source", "corpus")
	}
	nBig := 0
	for run.NCases() < run.N {
		r := run.Rng
		if (nBig == 0 && run.NCases() >= 20) || (thorough && run.NCases()%150 == 149) {
			nBig++
			bigHistory(t, run, r)
			continue
		}
		cfg := genConfig(r)
		h := newHist(t, run, cfg)
		n := 4 + r.Intn(25)
		if search {
			n = 10 + r.Intn(40)
		}
		ck := &clock{h: h.e.root.BlockHeight(), now: 0}
		for i := 0; i < n && !h.stop; i++ {
			o := h.genOp(r, ck, search)
			probe := thorough || r.Intn(100) < 12 || ((o.Kind == "fullblock" || o.Kind == "endblock") && r.Intn(100) < 40)
			h.exec(o, probe, thorough)
		}
		h.finish("generated")
		run.Count("source", "generated")
	}
	if err := run.Finish("Skyway.Bridge Corr.C01", "C01.case", "C01.check"); err != nil {
		t.Fatal(err)
	}
}

// bigHistory: more than 100 transfers of one token in the pool (amounts with many ties), so that
// the end-blocker's build stops at OutgoingTxBatchSize, a second batch of the same token is opened
// next to it, and the fill order (descending amount, then id) is compared transfer by transfer.
func bigHistory(t *testing.T, run *emit.Run, r *rand.Rand) {
	cfg := config{Table: []entry{{1, 2, 0}}, Taxes: []string{taxRates[r.Intn(len(taxRates))], "", ""}, Limits: []string{"", "", ""}}
	for i := 0; i < nUsers*len(denoms); i++ {
		cfg.Funds = append(cfg.Funds, "100000")
	}
	h := newHist(t, run, cfg)
	ck := &clock{h: h.e.root.BlockHeight(), now: 0}
	n := 101 + r.Intn(25) // transfers towards test-chain: more than one batch holds
	for i, main := 0, 0; main < n; i++ {
		o := opSpec{Kind: "send", U: r.Intn(nUsers), C: 0, D: 0, Amt: fmt.Sprint(1 + r.Intn(12)), Fault: -1, Quiet: i%40 != 39}
		if r.Intn(12) == 0 {
			o.C, o.D = 1, 2 // the same contract address on the other chain
		} else {
			main++
		}
		h.exec(o, false, false)
	}
	block := func(kind string, faultAt int, pan bool, jump int64) {
		ck.h = (ck.h/50 + 1) * 50
		ck.now += 30 + jump
		h.exec(opSpec{Kind: kind, H: ck.h, Now: ck.now, Fault: faultAt, Panic: pan && panicSafe}, false, false)
	}
	block("createbatch", 1+r.Intn(2), false, 0) // first build fails: nothing moves
	block("endblock", -1, false, 0)             // batch of exactly 100 + the other chain's batch
	for i := 0; i < 3; i++ {
		h.exec(opSpec{Kind: "send", U: r.Intn(nUsers), C: 0, D: 0, Amt: fmt.Sprint(1 + r.Intn(12)), Fault: -1, Quiet: true}, false, false)
	}
	block("fullblock", 1, true, 0)     // relayer selection panics in the second build of the block
	block("createbatch", -1, false, 0) // second (and maybe third) open batch of the token
	s := h.e.snapshot(h.e.root)
	if len(s.batches) > 0 {
		b := s.batches[len(s.batches)-1]
		h.exec(opSpec{Kind: "fullblock", H: ck.h + 7, Now: ck.now + 5, Fault: -1,
			Evs:  []evSpec{{Kind: "exe", C: b.chain, K: b.contract, Nonce: b.nonce, Eth: 5}},
			Ests: []estSpec{{K: s.batches[0].contract, Nonce: s.batches[0].nonce, Est: 42000}}}, false, false)
	}
	block("endblock", -1, false, 700) // everything left times out: back to the pool in order
	block("endblock", -1, false, 0)   // and is batched again
	h.finish("generated-long")
	run.Count("source", "generated-long")
}
