// Package c01: correspondence harness + direct oracle for C01 (skyway bridge escrow conservation
// and all-or-nothing transfer lifecycle under injected collaborator faults).
//
// Drives the REAL msgServer.SendToRemote / CancelSendToRemote, Keeper.BuildOutgoingTXBatch,
// UpdateBatchGasEstimate, processAttestation (executed-batch and deposit claims), the end-blocker
// steps createBatch / cleanupTimedOutBatches and the whole skyway.EndBlocker on
// keeper.SetupFiveValChain with a second EVM chain registered, the real bank keeper and the real
// EVM keeper behind fault proxies that fail the k-th collaborator call of an operation.  After
// every step the projected observables are recorded for the Coq model (Corr/C01.v) and the
// property's direct oracle is evaluated on the real state.
package c01

import (
	"context"
	"encoding/json"
	"errors"
	"fmt"
	"math/big"
	"math/rand"
	"os"
	"path/filepath"
	"sort"
	"strings"
	"testing"
	"time"

	"cosmossdk.io/log"
	sdkmath "cosmossdk.io/math"
	codectypes "github.com/cosmos/cosmos-sdk/codec/types"
	sdk "github.com/cosmos/cosmos-sdk/types"
	authtypes "github.com/cosmos/cosmos-sdk/x/auth/types"
	distrtypes "github.com/cosmos/cosmos-sdk/x/distribution/types"
	govv1beta1 "github.com/cosmos/cosmos-sdk/x/gov/types/v1beta1"
	"github.com/cosmos/gogoproto/proto"
	xchain "github.com/palomachain/paloma/v2/internal/x-chain"
	"github.com/palomachain/paloma/v2/util/libcons"
	"github.com/palomachain/paloma/v2/verifharness/emit"
	evmtypes "github.com/palomachain/paloma/v2/x/evm/types"
	"github.com/palomachain/paloma/v2/x/skyway"
	"github.com/palomachain/paloma/v2/x/skyway/keeper"
	"github.com/palomachain/paloma/v2/x/skyway/types"
	treasurytypes "github.com/palomachain/paloma/v2/x/treasury/types"
	valsettypes "github.com/palomachain/paloma/v2/x/valset/types"
)

var chains = []string{"test-chain", "test-chain-2"}
var denoms = []string{"ugrain", "utokb", "utokc"}

// contract index order = byte order of the addresses (the model orders store keys by index)
var contracts = []string{
	"0x0bc529c00C6401aEF6D220BE8C6Ea1667F6Ad93e",
	"0x1111111111111111111111111111111111111111",
	"0x2222222222222222222222222222222222222222",
}

const nUsers = 3
const ethDest = "0x9999999999999999999999999999999999999999"
const ethSender = "0x8888888888888888888888888888888888888888"

var errInjected = errors.New("verif: injected collaborator fault")

// ---- fault proxies ----
type faultCtl struct {
	calls  int
	failAt int
	fired  string
}

func (f *faultCtl) arm(k int) { f.calls, f.failAt, f.fired = 0, k, "" }
func (f *faultCtl) hit(name string) error {
	n := f.calls
	f.calls++
	if n == f.failAt {
		f.fired = name
		return errInjected
	}
	return nil
}

type bankProxy struct {
	types.BankKeeper
	f *faultCtl
}

func (b bankProxy) SendCoinsFromModuleToAccount(ctx context.Context, m string, r sdk.AccAddress, amt sdk.Coins) error {
	if err := b.f.hit("bank.SendCoinsFromModuleToAccount"); err != nil {
		return err
	}
	return b.BankKeeper.SendCoinsFromModuleToAccount(ctx, m, r, amt)
}

func (b bankProxy) SendCoinsFromAccountToModule(ctx context.Context, s sdk.AccAddress, m string, amt sdk.Coins) error {
	if err := b.f.hit("bank.SendCoinsFromAccountToModule"); err != nil {
		return err
	}
	return b.BankKeeper.SendCoinsFromAccountToModule(ctx, s, m, amt)
}

func (b bankProxy) SendCoinsFromModuleToModule(ctx context.Context, s, r string, amt sdk.Coins) error {
	if err := b.f.hit("bank.SendCoinsFromModuleToModule"); err != nil {
		return err
	}
	return b.BankKeeper.SendCoinsFromModuleToModule(ctx, s, r, amt)
}

func (b bankProxy) MintCoins(ctx context.Context, m string, amt sdk.Coins) error {
	if err := b.f.hit("bank.MintCoins"); err != nil {
		return err
	}
	return b.BankKeeper.MintCoins(ctx, m, amt)
}

func (b bankProxy) BurnCoins(ctx context.Context, m string, amt sdk.Coins) error {
	if err := b.f.hit("bank.BurnCoins"); err != nil {
		return err
	}
	return b.BankKeeper.BurnCoins(ctx, m, amt)
}

type evmProxy struct {
	types.EVMKeeper
	f *faultCtl
}

func (e evmProxy) GetChainInfo(ctx context.Context, c string) (*evmtypes.ChainInfo, error) {
	if err := e.f.hit("evm.GetChainInfo"); err != nil {
		return nil, err
	}
	return e.EVMKeeper.GetChainInfo(ctx, c)
}

func (e evmProxy) PickValidatorForMessage(ctx context.Context, c string, r *xchain.JobRequirements) (string, string, error) {
	if err := e.f.hit("evm.PickValidatorForMessage"); err != nil {
		return "", "", err
	}
	return e.EVMKeeper.PickValidatorForMessage(ctx, c, r)
}

func (e evmProxy) GetEthAddressByValidator(ctx context.Context, v sdk.ValAddress, c string) (*types.EthAddress, bool, error) {
	if err := e.f.hit("evm.GetEthAddressByValidator"); err != nil {
		return nil, false, err
	}
	return e.EVMKeeper.GetEthAddressByValidator(ctx, v, c)
}

// recHandler records what the real attestation handler returned (processAttestation swallows it).
type recHandler struct {
	inner interface {
		Handle(context.Context, types.Attestation, types.EthereumClaim) error
	}
	called bool
	err    error
}

func (r *recHandler) Handle(ctx context.Context, att types.Attestation, claim types.EthereumClaim) error {
	r.called = true
	r.err = r.inner.Handle(ctx, att, claim)
	return r.err
}

// ---- environment ----
type entry struct{ C, D, K int }

type config struct {
	Table []entry  `json:"table"` // (chain, denom, contract) mappings besides the preset (0,0,0)
	Taxes []string `json:"taxes"` // per denom, "" = none
	Funds []string `json:"funds"` // per user*denom
}

type env struct {
	in    keeper.TestInput
	k     keeper.Keeper
	ms    types.MsgServer
	gov   govv1beta1.Handler
	root  sdk.Context
	f     *faultCtl
	rec   *recHandler
	cc    *libcons.ConsensusChecker
	users []sdk.AccAddress
	mod   sdk.AccAddress
	dist  sdk.AccAddress
	table []entry // in the store iteration order createBatch uses
	t0    int64
}

func mustNoErr(t *testing.T, err error) {
	t.Helper()
	if err != nil {
		t.Fatal(err)
	}
}

func setup(t *testing.T, cfg config) *env {
	in, c := keeper.SetupFiveValChain(t)
	e := &env{in: in, f: &faultCtl{failAt: -1}}
	ctx := sdk.UnwrapSDKContext(c).WithLogger(log.NewNopLogger())
	// second chain: registered with the EVM keeper, every validator has an account there, fresh snapshot
	mustNoErr(t, in.EvmKeeper.AddSupportForNewChain(ctx, chains[1], 2, 123, "0x1234", big.NewInt(55)))
	for i, addr := range keeper.ValAddrs {
		v, err := in.StakingKeeper.GetValidator(ctx, addr)
		mustNoErr(t, err)
		pk, err := v.ConsPubKey()
		mustNoErr(t, err)
		var infos []*valsettypes.ExternalChainInfo
		var fees []treasurytypes.RelayerFeeSetting_FeeSetting
		for _, ch := range chains {
			infos = append(infos, &valsettypes.ExternalChainInfo{ChainType: "evm", ChainReferenceID: ch, Address: keeper.EthAddrs[i].String(), Pubkey: pk.Bytes()})
			fees = append(fees, treasurytypes.RelayerFeeSetting_FeeSetting{Multiplicator: sdkmath.LegacyMustNewDecFromStr("1.10"), ChainReferenceId: ch})
		}
		mustNoErr(t, in.ValsetKeeper.AddExternalChainInfo(ctx, addr, infos))
		mustNoErr(t, in.TreasuryKeeper.SetRelayerFee(ctx, addr, &treasurytypes.RelayerFeeSetting{ValAddress: addr.String(), Fees: fees}))
	}
	ctx = ctx.WithBlockHeight(ctx.BlockHeight() + 1)
	_, err := in.ValsetKeeper.TriggerSnapshotBuild(ctx)
	mustNoErr(t, err)
	in.MetrixKeeper.UpdateUptime(ctx)

	e.k = keeper.VerifC01WithCollaborators(in.SkywayKeeper, bankProxy{in.BankKeeper, e.f}, evmProxy{in.SkywayKeeper.EVMKeeper, e.f})
	e.rec = &recHandler{inner: e.k.AttestationHandler}
	e.k.AttestationHandler = e.rec
	e.ms = keeper.NewMsgServerImpl(e.k)
	e.gov = keeper.NewSkywayProposalHandler(e.k)
	e.cc = libcons.New(in.ValsetKeeper.GetCurrentSnapshot, in.Marshaler)
	e.mod = in.AccountKeeper.GetModuleAddress(types.ModuleName)
	e.dist = authtypes.NewModuleAddress(distrtypes.ModuleName)
	for i := 0; i < nUsers; i++ {
		b := make([]byte, 20)
		b[0], b[1], b[19] = 0xC0, 0x01, byte(i+1)
		e.users = append(e.users, sdk.AccAddress(b))
	}
	for _, en := range cfg.Table {
		mustNoErr(t, e.gov(ctx, &types.SetERC20ToDenomProposal{Title: "t", Description: "d", ChainReferenceId: chains[en.C], Erc20: contracts[en.K], Denom: denoms[en.D]}))
	}
	for d, r := range cfg.Taxes {
		if r != "" {
			mustNoErr(t, e.gov(ctx, &types.SetBridgeTaxProposal{Title: "t", Description: "d", Rate: r, Token: denoms[d]}))
		}
	}
	for i, f := range cfg.Funds {
		amt, _ := new(big.Int).SetString(f, 10)
		if amt.Sign() > 0 {
			cs := sdk.NewCoins(sdk.NewCoin(denoms[i%len(denoms)], sdkmath.NewIntFromBigInt(amt)))
			mustNoErr(t, in.BankKeeper.MintCoins(ctx, types.ModuleName, cs))
			mustNoErr(t, in.BankKeeper.SendCoinsFromModuleToAccount(ctx, types.ModuleName, e.users[i/len(denoms)], cs))
		}
	}
	all, err := e.k.GetAllERC20ToDenoms(ctx)
	mustNoErr(t, err)
	for _, m := range all {
		e.table = append(e.table, entry{idx(chains, m.ChainReferenceId), idx(denoms, m.Denom), cidx(m.Erc20)})
	}
	e.root = ctx
	e.t0 = ctx.BlockTime().Unix()
	return e
}

func idx(l []string, s string) int {
	for i, x := range l {
		if x == s {
			return i
		}
	}
	return -1
}

func cidx(s string) int {
	for i, x := range contracts {
		if strings.EqualFold(x, s) {
			return i
		}
	}
	return -1
}

func (e *env) denomOf(c, k int) int {
	for _, en := range e.table {
		if en.C == c && en.K == k {
			return en.D
		}
	}
	return -1
}

// ---- snapshots of the real state ----
type txo struct {
	id                      uint64
	sender, chain, contract int
	amount, tax             *big.Int
}
type bo struct {
	nonce           uint64
	chain, contract int
	timeout, gas    uint64
	txs             []txo
}
type snap struct {
	pool    []txo
	batches []bo
	bals    []*big.Int // user*denom
	escrow  []*big.Int
	supply  []*big.Int
	comm    []*big.Int
}

func (e *env) userIdx(a sdk.AccAddress) int {
	for i, u := range e.users {
		if u.Equals(a) {
			return i
		}
	}
	return -1
}

func (e *env) mkTx(t *types.InternalOutgoingTransferTx) txo {
	return txo{t.Id, e.userIdx(t.Sender), idx(chains, t.Erc20Token.ChainReferenceID), cidx(t.Erc20Token.Contract.GetAddress().Hex()),
		t.Erc20Token.Amount.BigInt(), t.BridgeTaxAmount.BigInt()}
}

func (e *env) snapshot(ctx sdk.Context) snap {
	var s snap
	pool, err := e.k.GetUnbatchedTransactions(ctx)
	if err != nil {
		panic(err)
	}
	for _, t := range pool {
		s.pool = append(s.pool, e.mkTx(t))
	}
	bs, err := e.k.GetOutgoingTxBatches(ctx)
	if err != nil {
		panic(err)
	}
	for _, b := range bs {
		x := bo{nonce: b.BatchNonce, chain: idx(chains, b.ChainReferenceID), contract: cidx(b.TokenContract.GetAddress().Hex()), timeout: b.BatchTimeout, gas: b.GasEstimate}
		for _, t := range b.Transactions {
			x.txs = append(x.txs, e.mkTx(t))
		}
		s.batches = append(s.batches, x)
	}
	for _, u := range e.users {
		for _, d := range denoms {
			s.bals = append(s.bals, e.in.BankKeeper.GetBalance(ctx, u, d).Amount.BigInt())
		}
	}
	for _, d := range denoms {
		s.escrow = append(s.escrow, e.in.BankKeeper.GetBalance(ctx, e.mod, d).Amount.BigInt())
		s.supply = append(s.supply, e.in.BankKeeper.GetSupply(ctx, d).Amount.BigInt())
		s.comm = append(s.comm, e.in.BankKeeper.GetBalance(ctx, e.dist, d).Amount.BigInt())
	}
	return s
}

func txEq(a, b txo) bool {
	return a.id == b.id && a.sender == b.sender && a.chain == b.chain && a.contract == b.contract && a.amount.Cmp(b.amount) == 0 && a.tax.Cmp(b.tax) == 0
}

func txsEq(a, b []txo) bool {
	if len(a) != len(b) {
		return false
	}
	for i := range a {
		if !txEq(a[i], b[i]) {
			return false
		}
	}
	return true
}

func bigsEq(a, b []*big.Int) bool {
	for i := range a {
		if a[i].Cmp(b[i]) != 0 {
			return false
		}
	}
	return true
}

func (s snap) equal(o snap) bool {
	if !txsEq(s.pool, o.pool) || len(s.batches) != len(o.batches) {
		return false
	}
	for i := range s.batches {
		a, b := s.batches[i], o.batches[i]
		if a.nonce != b.nonce || a.chain != b.chain || a.contract != b.contract || a.timeout != b.timeout || a.gas != b.gas || !txsEq(a.txs, b.txs) {
			return false
		}
	}
	return bigsEq(s.bals, o.bals) && bigsEq(s.escrow, o.escrow) && bigsEq(s.supply, o.supply) && bigsEq(s.comm, o.comm)
}

// ---- operations ----
type opSpec struct {
	Kind  string `json:"kind"`
	U     int    `json:"u,omitempty"`
	C     int    `json:"c,omitempty"`
	D     int    `json:"d,omitempty"`
	K     int    `json:"k,omitempty"`
	Amt   string `json:"amt,omitempty"`
	ID    uint64 `json:"id,omitempty"`
	Nonce uint64 `json:"nonce,omitempty"`
	Max   int    `json:"max,omitempty"`
	H     int64  `json:"h,omitempty"`
	Now   int64  `json:"now,omitempty"` // seconds after the environment's start time
	Eth   uint64 `json:"eth,omitempty"`
	R     int    `json:"r,omitempty"`
	Est   uint64 `json:"est,omitempty"`
	Fault int    `json:"fault"` // index of the collaborator call of this op that fails; -1 none
}

func deliver(root sdk.Context, atomic bool, f func(ctx sdk.Context) error) (err error, panicked bool) {
	defer func() {
		if r := recover(); r != nil {
			panicked = true
			err = fmt.Errorf("panic: %v", r)
		}
	}()
	if !atomic {
		return f(root), false
	}
	cctx, write := root.CacheContext()
	err = f(cctx)
	if err == nil {
		write()
	}
	return err, false
}

func md(a sdk.AccAddress) valsettypes.MsgMetadata {
	return valsettypes.MsgMetadata{Creator: a.String(), Signers: []string{a.String()}}
}

func contractAddr(k int) types.EthAddress {
	a, err := types.NewEthAddress(contracts[k])
	if err != nil {
		panic(err)
	}
	return *a
}

type hist struct {
	e       *env
	run     *emit.Run
	cfg     config
	ops     []opSpec
	steps   []string
	human   []string
	acc     map[uint64]txo
	refund  map[uint64]bool
	burned  map[uint64]bool
	dep     []*big.Int
	exe     []*big.Int
	s0      snap
	okN     int
	errN    int
	faultN  int
	viol    bool
	lastTax *big.Int
}

func (h *hist) violate(id, what string) {
	if h.viol {
		return
	}
	h.viol = true
	h.run.Violate(id, what, map[string]any{"config": h.cfg, "ops": h.ops, "trace": h.human})
}

func zc(x *big.Int) string { return emit.Z(x) }

func coqTx(t txo) string {
	return emit.Pair(emit.ZU(t.id), emit.ZI(int64(t.sender)), emit.ZI(int64(t.chain)), emit.ZI(int64(t.contract)), zc(t.amount), zc(t.tax))
}

func coqTxs(ts []txo) string {
	s := make([]string, len(ts))
	for i, t := range ts {
		s[i] = coqTx(t)
	}
	return emit.List(s)
}

func coqFault(k int) string {
	if k < 0 {
		return "nofault"
	}
	return fmt.Sprintf("(fat %d)", k)
}

func (h *hist) coqObs(ok bool, s snap) string {
	bs := make([]string, len(s.batches))
	for i, b := range s.batches {
		bs[i] = emit.Pair(emit.ZU(b.nonce), emit.ZI(int64(b.chain)), emit.ZI(int64(b.contract)), emit.ZU(b.timeout), emit.ZU(b.gas), coqTxs(b.txs))
	}
	delta := func(a, b []*big.Int) string {
		out := make([]*big.Int, len(a))
		for i := range a {
			out[i] = new(big.Int).Sub(a[i], b[i])
		}
		return emit.ZList(out)
	}
	return fmt.Sprintf("{| C01.o_ok := %s; C01.o_pool := %s; C01.o_batches := %s; C01.o_bals := %s; C01.o_escrow := %s; C01.o_supply := %s; C01.o_comm := %s |}",
		emit.Bool(ok), coqTxs(s.pool), emit.List(bs), emit.ZList(s.bals), emit.ZList(s.escrow), delta(s.supply, h.s0.supply), delta(s.comm, h.s0.comm))
}

// exec runs one operation on the real keeper, evaluates the oracle and records the step.
func (h *hist) exec(o opSpec) {
	e := h.e
	before := e.snapshot(e.root)
	e.f.arm(o.Fault)
	now := time.Unix(e.t0+o.Now, 0).UTC()
	var err error
	var pan bool
	var term string
	atomicKind := true
	tax := big.NewInt(0)
	amt := new(big.Int)
	if o.Amt != "" && o.Kind != "settax" {
		amt.SetString(o.Amt, 10)
	}
	switch o.Kind {
	case "send":
		coin := sdk.Coin{Denom: denoms[o.D], Amount: sdkmath.NewIntFromBigInt(amt)}
		e.f.arm(-1)
		if tx, terr := keeper.VerifC01BridgeTaxAmount(e.k, e.root, e.users[o.U], coin); terr == nil {
			tax = tx.BigInt()
		}
		e.f.arm(o.Fault)
		err, pan = deliver(e.root, true, func(ctx sdk.Context) error {
			_, err := e.ms.SendToRemote(ctx, &types.MsgSendToRemote{EthDest: ethDest, Amount: coin, ChainReferenceId: chains[o.C], Metadata: md(e.users[o.U])})
			return err
		})
		term = fmt.Sprintf("OSend %d %d %d %s %s %s", o.U, o.C, o.D, zc(amt), zc(tax), coqFault(o.Fault))
	case "cancel":
		err, pan = deliver(e.root, true, func(ctx sdk.Context) error {
			_, err := e.ms.CancelSendToRemote(ctx, &types.MsgCancelSendToRemote{TransactionId: o.ID, Metadata: md(e.users[o.U])})
			return err
		})
		term = fmt.Sprintf("OCancel %d %d %s", o.U, o.ID, coqFault(o.Fault))
	case "build":
		err, pan = deliver(e.root.WithBlockTime(now), false, func(ctx sdk.Context) error {
			_, err := e.k.BuildOutgoingTXBatch(ctx, chains[o.C], contractAddr(o.K), uint(o.Max))
			return err
		})
		term = fmt.Sprintf("OBuild %d %d %d %d %s", o.C, o.K, o.Max, now.Unix(), coqFault(o.Fault))
	case "createbatch":
		atomicKind = false
		err, pan = deliver(e.root.WithBlockTime(now).WithBlockHeight(o.H), false, func(ctx sdk.Context) error {
			return skyway.VerifC01CreateBatch(ctx, e.k)
		})
		term = fmt.Sprintf("OCreateBatch %d %d %s", o.H, now.Unix(), coqFault(o.Fault))
	case "sweep":
		atomicKind = false
		err, pan = deliver(e.root.WithBlockTime(now), false, func(ctx sdk.Context) error {
			return skyway.VerifC01CleanupTimedOutBatches(ctx, e.k)
		})
		term = fmt.Sprintf("OSweep %d %s", now.Unix(), coqFault(o.Fault))
	case "endblock":
		atomicKind = false
		err, pan = deliver(e.root.WithBlockTime(now).WithBlockHeight(o.H), false, func(ctx sdk.Context) error {
			skyway.EndBlocker(ctx, e.k, e.cc)
			return nil
		})
		term = fmt.Sprintf("OEndBlock %d %d %s", o.H, now.Unix(), coqFault(o.Fault))
	case "settax":
		// governance changes the denom's bridge tax (rate and exemption list) while transfers are pending
		var ex []string
		for u := 0; u < nUsers; u++ {
			if o.U&(1<<u) != 0 {
				ex = append(ex, e.users[u].String())
			}
		}
		err, pan = deliver(e.root, true, func(ctx sdk.Context) error {
			return e.gov(ctx, &types.SetBridgeTaxProposal{Title: "t", Description: "d", Rate: o.Amt, Token: denoms[o.D], ExemptAddresses: ex})
		})
		if err != nil || pan {
			panic(fmt.Sprintf("SetBridgeTaxProposal(%q) failed: %v", o.Amt, err))
		}
		term = "OGov"
	case "cancelbatch":
		err, pan = deliver(e.root, false, func(ctx sdk.Context) error {
			return e.k.CancelOutgoingTXBatch(ctx, contractAddr(o.K), o.Nonce)
		})
		term = fmt.Sprintf("OCancelBatch %d %d %s", o.K, o.Nonce, coqFault(o.Fault))
	case "setgas":
		err, pan = deliver(e.root, false, func(ctx sdk.Context) error {
			b, gerr := e.k.GetOutgoingTXBatch(ctx, contractAddr(o.K), o.Nonce)
			if gerr != nil {
				return gerr
			}
			if b == nil {
				b = &types.InternalOutgoingTxBatch{BatchNonce: o.Nonce, TokenContract: contractAddr(o.K)}
			}
			return e.k.UpdateBatchGasEstimate(ctx, *b, o.Est)
		})
		term = fmt.Sprintf("OSetGas %d %d %d %s", o.K, o.Nonce, o.Est, coqFault(o.Fault))
	case "executed":
		claim := &types.MsgBatchSendToRemoteClaim{EventNonce: 1, EthBlockHeight: o.Eth, BatchNonce: o.Nonce, TokenContract: contracts[o.K],
			ChainReferenceId: chains[o.C], Orchestrator: e.users[0].String(), SkywayNonce: 1, Metadata: md(e.users[0])}
		err, pan = h.attest(claim)
		term = fmt.Sprintf("OExecuted %d %d %d %d %s", o.C, o.K, o.Nonce, o.Eth, coqFault(o.Fault))
	case "deposit":
		recv := "invalid"
		switch {
		case o.R < nUsers:
			recv = e.users[o.R].String()
		case o.R == 4:
			recv = e.dist.String()
		}
		claim := &types.MsgSendToPalomaClaim{EventNonce: 1, EthBlockHeight: 1, TokenContract: contracts[o.K], Amount: sdkmath.NewIntFromBigInt(amt),
			EthereumSender: ethSender, PalomaReceiver: recv, Orchestrator: e.users[0].String(), ChainReferenceId: chains[o.C], SkywayNonce: 1, Metadata: md(e.users[0])}
		err, pan = h.attest(claim)
		rt := "RInvalid"
		switch {
		case o.R < nUsers:
			rt = fmt.Sprintf("(RUser %d)", o.R)
		case o.R == 4:
			rt = "RBlocked"
		}
		term = fmt.Sprintf("ODeposit %d %d %s %s %s", o.C, o.K, rt, zc(amt), coqFault(o.Fault))
	default:
		panic("unknown op kind " + o.Kind)
	}
	fired := e.f.fired
	e.f.arm(-1)
	after := e.snapshot(e.root)
	ok := err == nil && !pan
	h.ops = append(h.ops, o)
	line := fmt.Sprintf("%+v -> ok=%v", o, ok)
	if err != nil {
		line += " err=" + firstLine(err.Error())
	}
	if fired != "" {
		line += " [fault fired at " + fired + "]"
		h.faultN++
		h.run.Count("fault-fired", o.Kind+"/"+fired)
	}
	h.human = append(h.human, line)
	h.run.Count("op", o.Kind)
	if pan {
		h.run.Count("outcome", o.Kind+"/panic")
	} else if ok {
		h.run.Count("outcome", o.Kind+"/ok")
		h.okN++
	} else {
		h.run.Count("outcome", o.Kind+"/err")
		h.errN++
	}
	h.oracle(o, ok, atomicKind, before, after)
	h.steps = append(h.steps, "("+term+", "+h.coqObs(ok, after)+")")
}

func firstLine(s string) string {
	if i := strings.IndexByte(s, '\n'); i >= 0 {
		s = s[:i]
	}
	if len(s) > 160 {
		s = s[:160]
	}
	return s
}

// attest = "the attestation handler runs once for this claim": the real processAttestation.
func (h *hist) attest(claim interface {
	types.EthereumClaim
	proto.Message
}) (error, bool) {
	e := h.e
	any, aerr := codectypes.NewAnyWithValue(claim)
	if aerr != nil {
		panic(aerr)
	}
	att := &types.Attestation{Observed: true, Votes: []string{}, Height: uint64(e.root.BlockHeight()), Claim: any}
	e.rec.called, e.rec.err = false, nil
	err, pan := deliver(e.root, false, func(ctx sdk.Context) error {
		return keeper.VerifC01ProcessAttestation(e.k, ctx, att, claim)
	})
	if pan {
		return err, true
	}
	if err != nil {
		return fmt.Errorf("processAttestation returned: %w", err), false
	}
	if !e.rec.called {
		return errors.New("handler not called"), false
	}
	return e.rec.err, false
}

// ---- the property's direct oracle, on the real state ----
func (h *hist) oracle(o opSpec, ok, atomicKind bool, before, after snap) {
	e := h.e
	findBatch := func(s snap, k int, nonce uint64) *bo {
		for i := range s.batches {
			if s.batches[i].contract == k && s.batches[i].nonce == nonce {
				return &s.batches[i]
			}
		}
		return nil
	}
	// bookkeeping of what the history says happened
	if ok {
		switch o.Kind {
		case "send":
			seen := map[uint64]bool{}
			for _, t := range before.pool {
				seen[t.id] = true
			}
			n := 0
			for _, t := range after.pool {
				if !seen[t.id] {
					h.acc[t.id] = t
					n++
				}
			}
			if n != 1 {
				h.violate("C01:send-accepted-not-pooled", fmt.Sprintf("successful SendToRemote added %d transfers to the pool", n))
			}
			for _, t := range after.pool {
				if !seen[t.id] {
					i := t.sender*len(denoms) + o.D
					locked := new(big.Int).Sub(before.bals[i], after.bals[i])
					if want := new(big.Int).Add(t.amount, t.tax); locked.Cmp(want) != 0 {
						h.violate("C01:lock-ne-amount-plus-stored-tax", fmt.Sprintf("send of transfer %d locked %s, the pooled record says amount+tax=%s", t.id, locked, want))
					}
				}
			}
		case "cancel":
			h.refund[o.ID] = true
			if t, f := h.acc[o.ID]; f {
				d := e.denomOf(t.chain, t.contract)
				want := new(big.Int).Add(t.amount, t.tax)
				i := t.sender*len(denoms) + d
				if d < 0 || new(big.Int).Sub(after.bals[i], before.bals[i]).Cmp(want) != 0 {
					h.violate("C01:refund-not-in-full", fmt.Sprintf("cancel of transfer %d refunded %s, expected amount+tax=%s", o.ID, new(big.Int).Sub(after.bals[i], before.bals[i]), want))
				}
			}
		case "executed":
			if b := findBatch(before, o.K, o.Nonce); b != nil {
				for _, t := range b.txs {
					h.burned[t.id] = true
					if d := e.denomOf(t.chain, t.contract); d >= 0 {
						h.exe[d].Add(h.exe[d], new(big.Int).Add(t.amount, t.tax))
					}
				}
			}
		case "deposit":
			if d := e.denomOf(o.C, o.K); d >= 0 {
				amt, _ := new(big.Int).SetString(o.Amt, 10)
				h.dep[d].Add(h.dep[d], amt)
			}
		}
	}
	if o.Kind == "settax" && !before.equal(after) {
		h.violate("C01:governance-moved-bridge-funds", "SetBridgeTaxProposal changed pool / batches / balances")
	}
	// (4) a bridge operation that reports failure leaves pool, batches and balances as they were
	if !ok && atomicKind && !before.equal(after) {
		h.violate("C01:failed-"+o.Kind+"-changed-state", fmt.Sprintf("%s reported failure but pool/batches/balances changed", o.Kind))
	}
	// (1) escrow = sum of amount+tax over pending transfers, per denom
	pend := make([]*big.Int, len(denoms))
	for i := range pend {
		pend[i] = big.NewInt(0)
	}
	place := map[uint64]int{}
	addTx := func(t txo) {
		place[t.id]++
		if d := e.denomOf(t.chain, t.contract); d >= 0 {
			pend[d].Add(pend[d], new(big.Int).Add(t.amount, t.tax))
		}
	}
	for _, t := range after.pool {
		addTx(t)
	}
	for _, b := range after.batches {
		for _, t := range b.txs {
			addTx(t)
			if t.chain != b.chain || t.contract != b.contract {
				h.violate("C01:batch-holds-foreign-transfer", fmt.Sprintf("after %s: batch %d for %s holds transfer %d of %s", o.Kind, b.nonce, chains[b.chain], t.id, chains[t.chain]))
			}
		}
	}
	for d := range denoms {
		if after.escrow[d].Cmp(pend[d]) != 0 {
			h.violate("C01:escrow-ne-pending", fmt.Sprintf("after %s: escrow of %s is %s but pending transfers sum to %s", o.Kind, denoms[d], after.escrow[d], pend[d]))
		}
	}
	// (2) every accepted transfer is in exactly one place
	for id := range h.refund {
		place[id]++
	}
	for id := range h.burned {
		place[id]++
	}
	ids := make([]uint64, 0, len(h.acc))
	for id := range h.acc {
		ids = append(ids, id)
	}
	sort.Slice(ids, func(i, j int) bool { return ids[i] < ids[j] })
	for _, id := range ids {
		if place[id] != 1 {
			h.violate("C01:transfer-not-in-one-place", fmt.Sprintf("after %s: accepted transfer %d is in %d places (pool / batch / refunded / burned)", o.Kind, id, place[id]))
		}
	}
	for id := range place {
		if _, f := h.acc[id]; !f {
			h.violate("C01:unaccepted-transfer-pending", fmt.Sprintf("after %s: transfer %d is pending but was never accepted", o.Kind, id))
		}
	}
	// (3) supply changes only by attested deposits and attested executed batches
	for d := range denoms {
		delta := new(big.Int).Sub(after.supply[d], h.s0.supply[d])
		want := new(big.Int).Sub(h.dep[d], h.exe[d])
		if delta.Cmp(want) != 0 {
			h.violate("C01:supply-delta", fmt.Sprintf("after %s: supply of %s changed by %s, attested deposits - executed = %s", o.Kind, denoms[d], delta, want))
		}
	}
}

// ---- generators ----
var taxRates = []string{"", "0", "1/5", "1/3", "7/1000", "0.02"}

// candidate mappings besides the preset (test-chain, ugrain, contract 0)
var candidates = []entry{{1, 2, 0}, {1, 0, 0}, {0, 1, 1}, {1, 1, 1}, {1, 1, 2}, {0, 2, 2}, {1, 2, 2}, {1, 0, 1}}

func genConfig(r *rand.Rand) config {
	var cfg config
	used := map[[2]int]bool{{0, 0}: true}  // (chain, denom)
	usedK := map[[2]int]bool{{0, 0}: true} // (chain, contract)
	for _, i := range r.Perm(len(candidates)) {
		c := candidates[i]
		if r.Intn(2) == 0 || used[[2]int{c.C, c.D}] || usedK[[2]int{c.C, c.K}] {
			continue
		}
		used[[2]int{c.C, c.D}], usedK[[2]int{c.C, c.K}] = true, true
		cfg.Table = append(cfg.Table, c)
	}
	for range denoms {
		cfg.Taxes = append(cfg.Taxes, taxRates[r.Intn(len(taxRates))])
	}
	for i := 0; i < nUsers*len(denoms); i++ {
		switch r.Intn(5) {
		case 0:
			cfg.Funds = append(cfg.Funds, "0")
		case 1:
			cfg.Funds = append(cfg.Funds, fmt.Sprint(1+r.Intn(50)))
		default:
			cfg.Funds = append(cfg.Funds, fmt.Sprint(100+r.Intn(5000)))
		}
	}
	return cfg
}

type clock struct{ h, now int64 }

func (h *hist) genOp(r *rand.Rand, ck *clock, search bool) opSpec {
	e := h.e
	s := e.snapshot(e.root)
	ck.now += int64(r.Intn(260))
	ck.h += int64(1 + r.Intn(20))
	o := opSpec{Fault: -1}
	if r.Intn(100) < 35 {
		o.Fault = r.Intn(3)
	}
	hostile := r.Intn(100) < 15
	pickEntry := func() entry { return e.table[r.Intn(len(e.table))] }
	if r.Intn(100) < 9 {
		// governance: new tax rate and exemption list for a denom, preferably one with pending transfers
		o.Kind, o.Fault = "settax", -1
		o.D = r.Intn(len(denoms))
		if len(s.pool) > 0 && r.Intn(4) != 0 {
			t := s.pool[r.Intn(len(s.pool))]
			if d := e.denomOf(t.chain, t.contract); d >= 0 {
				o.D = d
			}
		}
		o.Amt = []string{"0", "1/5", "1/3", "7/1000", "0.02", "1/2", "3/2"}[r.Intn(7)]
		if r.Intn(3) == 0 {
			o.U = r.Intn(1 << nUsers)
		}
		return o
	}
	w := r.Intn(100)
	if len(s.batches) == 0 && w >= 76 && r.Intn(4) != 0 {
		w = r.Intn(76) // little to execute / estimate / cancel without batches
	}
	if len(s.pool) == 0 && w >= 30 && w < 62 && r.Intn(3) != 0 {
		w = r.Intn(30)
	}
	switch {
	case w < 30:
		o.Kind = "send"
		en := pickEntry()
		o.U, o.C, o.D = r.Intn(nUsers), en.C, en.D
		bal := s.bals[o.U*len(denoms)+o.D]
		switch {
		case hostile && r.Intn(3) == 0:
			o.C, o.D = r.Intn(len(chains)), r.Intn(len(denoms)) // maybe unmapped
			o.Amt = fmt.Sprint(1 + r.Intn(20))
		case hostile:
			o.Amt = []string{"0", new(big.Int).Add(bal, big.NewInt(1)).String(), bal.String(), "1"}[r.Intn(4)]
		default:
			m := int64(40)
			if bal.IsInt64() && bal.Int64() < 40 && bal.Int64() > 0 {
				m = bal.Int64()
			}
			o.Amt = fmt.Sprint(1 + r.Int63n(m))
		}
	case w < 42:
		o.Kind = "cancel"
		o.U = r.Intn(nUsers)
		if len(s.pool) > 0 && !hostile {
			t := s.pool[r.Intn(len(s.pool))]
			o.ID, o.U = t.id, t.sender
		} else {
			o.ID = uint64(r.Intn(len(h.acc) + 3))
		}
	case w < 50:
		o.Kind = "build"
		en := pickEntry()
		o.C, o.K, o.Max, o.Now = en.C, en.K, []int{1, 2, 3, 100}[r.Intn(4)], ck.now
		if hostile {
			o.Max = 0
		}
		if o.Fault >= 0 {
			o.Fault = r.Intn(4)
		}
	case w < 62:
		o.Kind = "createbatch"
		ck.h = (ck.h/50 + 1) * 50
		if hostile {
			ck.h += int64(1 + r.Intn(49))
		}
		o.H, o.Now = ck.h, ck.now
		if o.Fault >= 0 {
			o.Fault = r.Intn(3 * (len(e.table) + 1))
		}
	case w < 70:
		o.Kind = "sweep"
		if r.Intn(2) == 0 {
			ck.now += 400
		}
		o.Now = ck.now
		if o.Fault >= 0 {
			o.Fault = r.Intn(len(s.batches) + 1)
		}
	case w < 76:
		o.Kind = "endblock"
		if r.Intn(2) == 0 {
			ck.h = (ck.h/50 + 1) * 50
		}
		if r.Intn(3) == 0 {
			ck.now += 500
		}
		o.H, o.Now = ck.h, ck.now
		if o.Fault >= 0 {
			o.Fault = r.Intn(3*(len(e.table)+1) + len(s.batches))
		}
	case w < 79:
		o.Kind = "cancelbatch"
		o.K, o.Nonce = r.Intn(len(contracts)), uint64(r.Intn(4))
		if len(s.batches) > 0 && !hostile {
			b := s.batches[r.Intn(len(s.batches))]
			o.K, o.Nonce = b.contract, b.nonce
		}
		if o.Fault >= 0 {
			o.Fault = 0
		}
	case w < 83:
		o.Kind = "setgas"
		o.K, o.Nonce, o.Est = r.Intn(len(contracts)), uint64(r.Intn(4)), uint64(r.Intn(3))*21000
		if len(s.batches) > 0 && !hostile {
			b := s.batches[r.Intn(len(s.batches))]
			o.K, o.Nonce, o.Est = b.contract, b.nonce, uint64(1+r.Intn(5))*21000
		}
		if o.Fault >= 0 {
			o.Fault = 0
		}
	case w < 91:
		o.Kind = "executed"
		o.C, o.K, o.Nonce, o.Eth = r.Intn(len(chains)), r.Intn(len(contracts)), uint64(r.Intn(4)), uint64(r.Intn(1000))
		if len(s.batches) > 0 && !hostile {
			b := s.batches[r.Intn(len(s.batches))]
			o.C, o.K, o.Nonce = b.chain, b.contract, b.nonce
		} else if len(s.batches) > 0 {
			b := s.batches[r.Intn(len(s.batches))]
			o.K, o.Nonce = b.contract, b.nonce // right batch, maybe the other chain
			if r.Intn(3) == 0 {
				o.C, o.Eth = b.chain, b.timeout+uint64(r.Intn(2))
			}
		}
		if o.Fault >= 0 {
			o.Fault = 0
		}
	default:
		o.Kind = "deposit"
		en := pickEntry()
		o.C, o.K, o.R, o.Amt = en.C, en.K, r.Intn(nUsers), fmt.Sprint(1+r.Intn(500))
		if hostile {
			o.C, o.K = r.Intn(len(chains)), r.Intn(len(contracts))
			o.R = r.Intn(5)
			if r.Intn(3) == 0 {
				o.Amt = "0"
			}
		} else if r.Intn(4) == 0 {
			o.R = 3 + r.Intn(2)
		}
	}
	return o
}

func newHist(t *testing.T, run *emit.Run, cfg config) *hist {
	h := &hist{e: setup(t, cfg), run: run, cfg: cfg, acc: map[uint64]txo{}, refund: map[uint64]bool{}, burned: map[uint64]bool{}}
	for range denoms {
		h.dep = append(h.dep, big.NewInt(0))
		h.exe = append(h.exe, big.NewInt(0))
	}
	h.s0 = h.e.snapshot(h.e.root)
	for d := range denoms {
		if h.s0.escrow[d].Sign() != 0 {
			t.Fatalf("escrow of %s not empty at start: %s", denoms[d], h.s0.escrow[d])
		}
	}
	return h
}

func (h *hist) finish(tag string) {
	tb := make([]string, len(h.e.table))
	for i, en := range h.e.table {
		tb[i] = emit.Pair(emit.ZI(int64(en.C)), emit.ZI(int64(en.D)), emit.ZI(int64(en.K)))
	}
	term := fmt.Sprintf("C01.CHist %s %s %s", emit.List(tb), emit.ZList(h.s0.bals), emit.List(h.steps))
	nontrivial := h.okN > 0 && h.errN > 0
	h.run.Case(term, nontrivial, map[string]any{"source": tag, "config": h.cfg, "trace": h.human})
	h.run.Count("history-length", fmt.Sprint(len(h.steps)/5*5))
	h.run.Count("table-size", fmt.Sprint(len(h.e.table)))
	if h.faultN > 0 {
		h.run.Count("history-with-fault", "yes")
	} else {
		h.run.Count("history-with-fault", "no")
	}
	shared := false
	for i, a := range h.e.table {
		for _, b := range h.e.table[i+1:] {
			if a.K == b.K && a.C != b.C {
				shared = true
			}
		}
	}
	h.run.Count("contract-shared-by-two-chains", fmt.Sprint(shared))
}

type corpusFile struct {
	Note   string   `json:"note"`
	Config config   `json:"config"`
	Ops    []opSpec `json:"ops"`
}

func TestCorr(t *testing.T) {
	run := emit.Start("C01", 300)
	run.Rule("one case = one history (4-28 ops) on a fresh 5-validator skyway environment with two EVM chains, a random denom<->(chain,contract) table (incl. one contract address registered on both chains), random tax rates and balances; ops: send / cancel (messages, tx-wrapped), governance SetBridgeTax (new rate / exemption list while transfers are pending), BuildOutgoingTXBatch, createBatch, cleanupTimedOutBatches, EndBlocker, UpdateBatchGasEstimate, executed-batch and deposit attestations; 35% of ops carry a fault at the k-th collaborator call (bank / EVM keeper proxies), 15% are hostile (unmapped, zero, over balance, wrong sender, unknown id, wrong chain, timed out, blocked / invalid receiver, max=0); non-trivial = at least one successful and one failed operation")
	search := os.Getenv("VERIF_SEARCH") == "1"
	// corpus first
	files, _ := filepath.Glob("../corpus/C01/*.json")
	sort.Strings(files)
	for _, f := range files {
		raw, err := os.ReadFile(f)
		if err != nil {
			t.Fatal(err)
		}
		var cf corpusFile
		if err := json.Unmarshal(raw, &cf); err != nil {
			t.Fatalf("%s: %v", f, err)
		}
		h := newHist(t, run, cf.Config)
		for _, o := range cf.Ops {
			h.exec(o)
		}
		h.finish("corpus:" + filepath.Base(f))
		run.Count("source", "corpus")
	}
	for run.NCases() < run.N {
		r := run.Rng
		cfg := genConfig(r)
		h := newHist(t, run, cfg)
		n := 4 + r.Intn(25)
		if search {
			n = 10 + r.Intn(40)
		}
		ck := &clock{h: h.e.root.BlockHeight(), now: 0}
		for i := 0; i < n; i++ {
			h.exec(h.genOp(r, ck, search))
		}
		h.finish("generated")
		run.Count("source", "generated")
	}
	if err := run.Finish("Skyway.Bridge Corr.C01", "C01.case", "C01.check"); err != nil {
		t.Fatal(err)
	}
}
