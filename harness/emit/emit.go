// Package emit is the shared plumbing of the correspondence harness: one PRNG per run,
// Coq-term printing, case shards (coq/cases/Cxx_k.v), and the statistics / oracle-violation
// side file (Cxx_stats.json) that bin/check turns into evidence and VIOLATION lines.
package emit

import (
	"encoding/json"
	"fmt"
	"math/big"
	"math/rand"
	"os"
	"path/filepath"
	"sort"
	"strconv"
	"strings"
)

type Violation struct {
	ID     string `json:"id"`   // stable identity used to match known findings
	What   string `json:"what"` // one line
	Replay any    `json:"replay"`
}

type Run struct {
	Prop   string
	Seed   int64
	N      int
	Tier   string
	OutDir string
	Rng    *rand.Rand

	cases      []string
	distinct   map[string]bool
	nontrivial map[string]bool
	hist       map[string]map[string]int
	samples    []any
	violations []Violation
	rule       string
	extra      map[string]any
}

func envInt(name string, def int64) int64 {
	if v := os.Getenv(name); v != "" {
		if n, err := strconv.ParseInt(v, 10, 64); err == nil {
			return n
		}
	}
	return def
}

// Start reads VERIF_SEED, VERIF_N (case budget; defN if unset), VERIF_TIER, VERIF_OUT.
func Start(prop string, defN int) *Run {
	r := &Run{Prop: prop}
	r.Seed = envInt("VERIF_SEED", 1)
	r.N = int(envInt("VERIF_N", int64(defN)))
	r.Tier = os.Getenv("VERIF_TIER")
	if r.Tier == "" {
		r.Tier = "quick"
	}
	r.OutDir = os.Getenv("VERIF_OUT")
	if r.OutDir == "" {
		r.OutDir = "/verif/coq/cases"
	}
	r.Rng = rand.New(rand.NewSource(r.Seed))
	r.distinct = map[string]bool{}
	r.nontrivial = map[string]bool{}
	r.hist = map[string]map[string]int{}
	r.extra = map[string]any{}
	return r
}

func (r *Run) Rule(s string)            { r.rule = s }
func (r *Run) Extra(key string, v any) { r.extra[key] = v }

// Case records one case: its Coq term (constructor of Corr.Cxx.case carrying input and the
// implementation's observed output), whether it is non-trivial by the property's rule, and
// (for the first few) a human-readable sample.
func (r *Run) Case(term string, nontrivial bool, sample any) {
	r.cases = append(r.cases, term)
	r.distinct[term] = true
	if nontrivial {
		r.nontrivial[term] = true
	}
	if len(r.samples) < 4 && sample != nil {
		r.samples = append(r.samples, sample)
	}
}

func (r *Run) NCases() int { return len(r.cases) }

func (r *Run) Count(hist, key string) {
	m := r.hist[hist]
	if m == nil {
		m = map[string]int{}
		r.hist[hist] = m
	}
	m[key]++
}

// Violate records an oracle violation. At most 3 are kept per id (a listed known finding that fires in
// many histories must not crowd out other violations) and 60 in all.
func (r *Run) Violate(id, what string, replay any) {
	n := 0
	for _, v := range r.violations {
		if v.ID == id {
			n++
		}
	}
	if n < 3 && len(r.violations) < 60 {
		r.violations = append(r.violations, Violation{id, what, replay})
	}
}

// Finish writes the shards and the stats file. imports: the "From Paloma Require Import ..."
// module list; caseType / checkFn: names in the Corr module, e.g. "C04.case", "C04.check".
func (r *Run) Finish(imports, caseType, checkFn string) error {
	if err := os.MkdirAll(r.OutDir, 0o755); err != nil {
		return err
	}
	old, _ := filepath.Glob(filepath.Join(r.OutDir, r.Prop+"_*.v"))
	for _, f := range old {
		os.Remove(f)
		os.Remove(strings.TrimSuffix(f, ".v") + ".vo")
		os.Remove(strings.TrimSuffix(f, ".v") + ".glob")
	}
	const shard = 400
	nsh := 0
	for i := 0; i < len(r.cases) || (i == 0 && len(r.cases) == 0); i += shard {
		j := i + shard
		if j > len(r.cases) {
			j = len(r.cases)
		}
		var b strings.Builder
		b.WriteString("From Coq Require Import List ZArith NArith Bool String.\n")
		b.WriteString("From Paloma Require Import Base.Corr " + imports + ".\n")
		b.WriteString("Import ListNotations.\nOpen Scope Z_scope.\n")
		fmt.Fprintf(&b, "Definition cases : list %s := [\n", caseType)
		for k := i; k < j; k++ {
			b.WriteString("  ")
			b.WriteString(r.cases[k])
			if k+1 < j {
				b.WriteString(";")
			}
			b.WriteString("\n")
		}
		b.WriteString("].\n")
		fmt.Fprintf(&b, "Definition M := Eval vm_compute in mismatches %s cases.\nPrint M.\n", checkFn)
		name := filepath.Join(r.OutDir, fmt.Sprintf("%s_%d.v", r.Prop, nsh))
		if err := os.WriteFile(name, []byte(b.String()), 0o644); err != nil {
			return err
		}
		nsh++
		if len(r.cases) == 0 {
			break
		}
	}
	stats := map[string]any{
		"property":            r.Prop,
		"seed":                r.Seed,
		"tier":                r.Tier,
		"evaluations":         len(r.cases),
		"distinct":            len(r.distinct),
		"distinct_nontrivial": len(r.nontrivial),
		"rule":                r.rule,
		"samples":             r.samples,
		"histograms":          r.hist,
		"shards":              nsh,
		"shard_size":          shard,
		"violations":          r.violations,
		"extra":               r.extra,
	}
	js, err := json.MarshalIndent(stats, "", " ")
	if err != nil {
		return err
	}
	return os.WriteFile(filepath.Join(r.OutDir, r.Prop+"_stats.json"), js, 0o644)
}

// ---- Coq term printers ----

func Z(x *big.Int) string {
	if x.Sign() < 0 {
		return "(" + x.String() + ")"
	}
	return x.String()
}
func ZI(x int64) string  { return Z(big.NewInt(x)) }
func ZU(x uint64) string { return new(big.Int).SetUint64(x).String() }
func Nat(x int) string   { return fmt.Sprintf("%d%%nat", x) }
func Bool(b bool) string {
	if b {
		return "true"
	}
	return "false"
}
func List(items []string) string { return "[" + strings.Join(items, "; ") + "]" }
func Pair(items ...string) string { return "(" + strings.Join(items, ", ") + ")" }
func Bytes(b []byte) string {
	s := make([]string, len(b))
	for i, x := range b {
		s[i] = strconv.Itoa(int(x))
	}
	return List(s)
}
func ZList(xs []*big.Int) string {
	s := make([]string, len(xs))
	for i, x := range xs {
		s[i] = Z(x)
	}
	return List(s)
}
func U64List(xs []uint64) string {
	s := make([]string, len(xs))
	for i, x := range xs {
		s[i] = ZU(x)
	}
	return List(s)
}
func Opt(s string, ok bool) string {
	if ok {
		return "(Some " + s + ")"
	}
	return "None"
}

// Str prints a Coq string literal (Coq doubles the quote character); only safe for printable ASCII,
// other bytes must go through Bytes.
func Str(s string) string { return "\"" + strings.ReplaceAll(s, "\"", "\"\"") + "\"%string" }

// ---- generators shared by several properties ----

var u64Boundary = []uint64{0, 1, 2, 3, 299999, 300000, 1 << 31, 1<<32 - 1, 1 << 32, 1<<53 - 1, 1 << 53,
	1<<63 - 1, 1 << 63, 1<<63 + 1, 1<<63 + 2, 1<<64 - 2, 1<<64 - 1}

// U64 draws a boundary-biased uint64.
func U64(r *rand.Rand) uint64 {
	switch r.Intn(4) {
	case 0:
		return u64Boundary[r.Intn(len(u64Boundary))]
	case 1:
		return uint64(r.Intn(1000))
	case 2:
		return r.Uint64()
	default:
		b := u64Boundary[r.Intn(len(u64Boundary))]
		return b + uint64(r.Intn(5)) - 2
	}
}

// BigUpTo draws a boundary-biased non-negative integer below 2^bits.
func BigUpTo(r *rand.Rand, bits int) *big.Int {
	max := new(big.Int).Lsh(big.NewInt(1), uint(bits))
	switch r.Intn(5) {
	case 0:
		return big.NewInt(int64(r.Intn(10)))
	case 1:
		return new(big.Int).Sub(max, big.NewInt(int64(1+r.Intn(3))))
	case 2:
		k := r.Intn(bits)
		x := new(big.Int).Lsh(big.NewInt(1), uint(k))
		return x.Add(x, big.NewInt(int64(r.Intn(3)-1))).Abs(x)
	default:
		k := 1 + r.Intn(bits)
		x := new(big.Int).Rand(r, new(big.Int).Lsh(big.NewInt(1), uint(k)))
		return x
	}
}

func SortedKeys(m map[string]int) []string {
	ks := make([]string, 0, len(m))
	for k := range m {
		ks = append(ks, k)
	}
	sort.Strings(ks)
	return ks
}
