package c05

// Third round: what the chain ASKS validators to sign.  Histories of enqueue / in-place replace (Put with
// MsgIDToReplace) / reassignment of the relayer / election of the gas estimate / remove on one real keeper; after every
// operation every query that returns bytes to sign (QueuedMessagesForSigning, MessagesInQueue, MessageByID) is asked and
// must serve, for every message, the signing bytes of the message as it is stored NOW.

import (
	"bytes"
	"encoding/hex"
	"fmt"
	"math/big"
	"math/rand"
	"testing"

	sdk "github.com/cosmos/cosmos-sdk/types"
	"github.com/ethereum/go-ethereum/crypto"
	"github.com/palomachain/paloma/v2/verifharness/emit"
	"github.com/palomachain/paloma/v2/x/consensus/keeper/consensus"
	"github.com/palomachain/paloma/v2/x/consensus/types"
)

type sOp struct {
	Kind string `json:"kind"` // put | replace | reassign | elect | remove
	Q    int    `json:"q"`
	ID   uint64 `json:"id,omitempty"`
	Item *item  `json:"item,omitempty"`
	Est  uint64 `json:"estimate,omitempty"`
	Rel  string `json:"relayer,omitempty"`
}

type tracked struct {
	q  int
	it item
}

func runSignHistory(t *testing.T, run *emit.Run, r *rand.Rand, replay []sOp, rNQ int) {
	nq := 1 + r.Intn(3)
	nops := 5 + r.Intn(12)
	if replay != nil {
		nq, nops = rNQ, len(replay)
	}
	e := newIDEnv(t, nq)
	live := map[uint64]*tracked{}
	seenID := map[uint64]bool{}
	var order []uint64
	var hist []sOp
	val := sdk.ValAddress(bytes.Repeat([]byte{7}, 20))
	emitted := 0
	nInPlace := 0
	viol := func(id, what string) {
		run.Violate(id, what, map[string]any{"kind": "signhist", "nq": nq, "ops": hist})
	}
	pickLive := func() (uint64, bool) {
		var ids []uint64
		for _, id := range order {
			if _, ok := live[id]; ok {
				ids = append(ids, id)
			}
		}
		if len(ids) == 0 {
			return 0, false
		}
		return ids[r.Intn(len(ids))], true
	}
	// poll: every query that hands out bytes to sign, for every queue
	poll := func(after string) {
		for q := 0; q < nq; q++ {
			stored := map[uint64][]byte{}
			ms, err := e.k.GetMessagesFromQueue(e.ctx, e.names[q], 0)
			if err != nil {
				t.Fatal(err)
			}
			for _, m := range ms {
				b, err := m.GetBytesToSign(cdc)
				if err != nil {
					t.Fatalf("GetBytesToSign of stored message %d: %v", m.GetId(), err)
				}
				stored[m.GetId()] = b
				tr := live[m.GetId()]
				if tr == nil || tr.q != q {
					t.Fatalf("harness lost track of message %d in queue %d", m.GetId(), q) // unreachable: a re-issued id ends the history at the Put
				}
				// the stored message is the harness's item: its bytes are the hash of the independently rebuilt pre-image
				_, outer, err := tr.it.preimages()
				if err != nil {
					t.Fatal(err)
				}
				if !bytes.Equal(crypto.Keccak256(outer), b) {
					viol("C05:stored-signbytes-not-of-current-message", fmt.Sprintf("after %s: message %d in queue %d: GetBytesToSign %x is not the hash of the pre-image of the message as last written", after, m.GetId(), q, b))
				}
			}
			check := func(src string, id uint64, served []byte) {
				want, ok := stored[id]
				if !ok {
					viol("C05:served-signbytes-of-absent-message:"+src, fmt.Sprintf("after %s: %s serves bytes for id %d which is not in queue %d", after, src, id, q))
					return
				}
				run.Count("served", src)
				if !bytes.Equal(served, want) {
					viol("C05:served-signbytes-stale:"+src, fmt.Sprintf("after %s: %s asks validators to sign %x for message %d, the message now in the queue hashes to %x", after, src, served, id, want))
				}
			}
			sres, err := e.k.QueuedMessagesForSigning(e.ctx, &types.QueryQueuedMessagesForSigningRequest{ValAddress: val, QueueTypeName: e.names[q]})
			if err != nil {
				t.Fatal(err)
			}
			if len(sres.MessageToSign) != len(ms) {
				t.Fatalf("signing query returned %d of %d messages", len(sres.MessageToSign), len(ms))
			}
			for _, m := range sres.MessageToSign {
				check("QueuedMessagesForSigning", m.Id, m.BytesToSign)
			}
			qres, err := e.k.MessagesInQueue(e.ctx, &types.QueryMessagesInQueueRequest{QueueTypeName: e.names[q]})
			if err != nil {
				t.Fatal(err)
			}
			for _, m := range qres.Messages {
				check("MessagesInQueue", m.Id, m.BytesToSign)
			}
			for _, m := range ms {
				bres, err := e.k.MessageByID(e.ctx, &types.QueryMessageByIDRequest{QueueTypeName: e.names[q], Id: m.GetId()})
				if err != nil {
					t.Fatal(err)
				}
				check("MessageByID", bres.Message.Id, bres.Message.BytesToSign)
			}
		}
	}
	for j := 0; j < nops; j++ {
		var o sOp
		if replay != nil {
			o = replay[j]
		} else {
			o.Q = r.Intn(nq)
			id, ok := pickLive()
			c := r.Intn(10)
			switch {
			case !ok || c < 3:
				o.Kind = "put"
				it := drawItem(r, kinds[r.Intn(5)])
				it.Est = 0
				o.Item = &it
			case c < 6:
				// in place: same id, same estimate, another payload / fees / relayer / ... or another action altogether
				o.Kind, o.ID, o.Q = "replace", id, live[id].q
				jt := live[id].it.clone()
				if r.Intn(5) == 0 {
					jt = drawItem(r, kinds[r.Intn(5)])
				} else {
					fs := fieldsOf(jt.Kind)
					for n := 1 + r.Intn(2); n > 0; n-- {
						f := fs[r.Intn(len(fs))]
						if f != "id" && f != "estimate" {
							jt.perturb(r, f)
						}
					}
				}
				o.Item = &jt
			case c < 8:
				o.Kind, o.ID, o.Q, o.Rel = "reassign", id, live[id].q, hexAddr(r, false)
			case c < 9:
				o.Kind, o.ID, o.Q, o.Est = "elect", id, live[id].q, 1+emit.U64(r)>>1
			default:
				o.Kind, o.ID, o.Q = "remove", id, live[id].q
			}
		}
		hist = append(hist, o)
		switch o.Kind {
		case "put":
			it := o.Item.clone()
			it.Est = 0
			id, err := e.k.PutMessageInQueue(e.ctx, e.names[o.Q], it.evmMessage(), &consensus.PutOptions{RequireSignatures: true, RequireGasEstimation: true})
			if err != nil {
				t.Fatal(err)
			}
			it.ID = id
			if seenID[id] {
				viol("C05:msg-id-reused", fmt.Sprintf("Put on queue %d returned id %d which had been handed out before", o.Q, id))
				return // the harness tracks messages by id: the history ends here
			}
			seenID[id] = true
			live[id] = &tracked{o.Q, it}
			order = append(order, id)
		case "replace":
			tr := live[o.ID]
			if tr == nil {
				continue
			}
			jt := o.Item.clone()
			jt.ID, jt.Est = o.ID, tr.it.Est
			got, err := e.k.PutMessageInQueue(e.ctx, e.names[tr.q], jt.evmMessage(), &consensus.PutOptions{MsgIDToReplace: o.ID})
			if err != nil || got != o.ID {
				t.Fatalf("replace of %d: %v (returned %d)", o.ID, err, got)
			}
			tr.it = jt
			nInPlace++
		case "reassign":
			tr := live[o.ID]
			if tr == nil {
				continue
			}
			cq, err := e.k.VerifC07Queue(e.ctx, e.names[tr.q])
			if err != nil {
				t.Fatal(err)
			}
			if err := cq.ReassignValidator(e.ctx, o.ID, "val2", o.Rel); err != nil {
				t.Fatal(err)
			}
			tr.it.Relayer = o.Rel
			nInPlace++
		case "elect":
			tr := live[o.ID]
			if tr == nil || tr.it.Est != 0 {
				continue
			}
			cq, err := e.k.VerifC07Queue(e.ctx, e.names[tr.q])
			if err != nil {
				t.Fatal(err)
			}
			if err := cq.SetElectedGasEstimate(e.ctx, o.ID, o.Est); err != nil {
				t.Fatal(err)
			}
			tr.it.Est = o.Est
		case "remove":
			tr := live[o.ID]
			if tr == nil {
				continue
			}
			if err := e.k.DeleteJob(e.ctx, e.names[tr.q], o.ID); err != nil {
				t.Fatal(err)
			}
			delete(live, o.ID)
		}
		run.Count("signhist_op", o.Kind)
		poll(fmt.Sprintf("op %d (%s %d)", j, o.Kind, o.ID))
		// the served bytes of one live message go to the model too: pre-image accepted only if its hash IS what is served
		if id, ok := pickLive(); ok && emitted < 3 {
			tr := live[id]
			sres, err := e.k.QueuedMessagesForSigning(e.ctx, &types.QueryQueuedMessagesForSigningRequest{ValAddress: val, QueueTypeName: e.names[tr.q]})
			if err != nil {
				t.Fatal(err)
			}
			for _, m := range sres.MessageToSign {
				if m.Id != id {
					continue
				}
				inner, outer, err := tr.it.preimages()
				if err != nil {
					t.Fatal(err)
				}
				if !bytes.Equal(crypto.Keccak256(outer), m.BytesToSign) {
					outer = append([]byte{0xde, 0xad}, outer...)
				}
				cp := big.NewInt(0)
				if inner != nil {
					h := right32(crypto.Keccak256(inner))
					cp = new(big.Int).SetBytes(h[:])
				}
				run.Count("kind", "served:"+tr.it.Kind)
				run.Case(fmt.Sprintf("C05.CSign %s %s %s %s", tr.it.coq(), cBytes(inner), emit.Z(cp), cBytes(outer)), nInPlace > 0,
					map[string]any{"kind": "served", "item": tr.it, "served": hex.EncodeToString(m.BytesToSign)})
				emitted++
			}
		}
	}
	run.Count("kind", "signhist")
}
