package c05

// Fourth round: the life cycle of a skyway batch's bytes to sign on the REAL skyway / evm keepers
// (keeper.SetupFiveValChain): build (estimate 0) / estimate election / compass handover (ActivateChainReferenceID ->
// EVMActivatedChain event -> skyway subscriber) / more builds; after every op every query that hands out a batch is asked,
// and the BytesToSign of every batch served must be the checkpoint of that batch as served (its own estimate, relayer,
// transfers...) under the chain's CURRENT compass id, recomputed independently with go-ethereum.

import (
	"bytes"
	"encoding/hex"
	"fmt"
	"math/big"
	"math/rand"
	"testing"

	"cosmossdk.io/log"
	sdkmath "cosmossdk.io/math"
	sdk "github.com/cosmos/cosmos-sdk/types"
	"github.com/ethereum/go-ethereum/common"
	"github.com/ethereum/go-ethereum/crypto"
	"github.com/palomachain/paloma/v2/verifharness/emit"
	evmtypes "github.com/palomachain/paloma/v2/x/evm/types"
	skykeeper "github.com/palomachain/paloma/v2/x/skyway/keeper"
	skywaytypes "github.com/palomachain/paloma/v2/x/skyway/types"
)

const (
	skyChain = "test-chain"
	skyERC20 = "0x0bc529c00C6401aEF6D220BE8C6Ea1667F6Ad93e"
	skyDenom = "ugrain"
)

type blOp struct {
	Kind string `json:"kind"` // build | elect | handover | handover-same-id
	N    int    `json:"n,omitempty"`
	Est  uint64 `json:"estimate,omitempty"`
	Pick int    `json:"pick,omitempty"`
	Tid  string `json:"compass_id,omitempty"`
}

func itemOfBatch(b skywaytypes.OutgoingTxBatch, tid string) item {
	it := item{Kind: "batch", Est: b.GasEstimate, Turnstone: []byte(tid), Relayer: common.BytesToAddress(b.AssigneeRemoteAddress).Hex(),
		Contract: b.TokenContract, Nonce: b.BatchNonce, Timeout: b.BatchTimeout}
	for _, tx := range b.Transactions {
		it.Receivers = append(it.Receivers, tx.DestAddress)
		it.Amounts = append(it.Amounts, tx.Erc20Token.Amount.BigInt())
	}
	return it
}

func runBatchLife(t *testing.T, run *emit.Run, r *rand.Rand, replay []blOp) {
	in, c := skykeeper.SetupFiveValChain(t)
	ctx := sdk.UnwrapSDKContext(c).WithLogger(log.NewNopLogger())
	in.Context = ctx
	tok, err := skywaytypes.NewEthAddress(skyERC20)
	if err != nil {
		t.Fatal(err)
	}
	send := sdk.AccAddress(append([]byte("c05-batch-sender-acc"), 0, 0)[:20])
	coins := sdk.NewCoins(sdk.NewCoin(skyDenom, sdkmath.NewInt(1_000_000_000)))
	if err := in.BankKeeper.MintCoins(ctx, skywaytypes.ModuleName, coins); err != nil {
		t.Fatal(err)
	}
	in.AccountKeeper.SetAccount(ctx, in.AccountKeeper.NewAccountWithAddress(ctx, send))
	if err := in.BankKeeper.SendCoinsFromModuleToAccount(ctx, skywaytypes.ModuleName, send, coins); err != nil {
		t.Fatal(err)
	}
	ci, err := in.EvmKeeper.GetChainInfo(ctx, skyChain)
	if err != nil {
		t.Fatal(err)
	}
	scID := ci.ActiveSmartContractID
	var hist []blOp
	emitted := 0
	nHandoverOverOpen := 0
	viol := func(id, what string) {
		run.Violate(id, what, map[string]any{"kind": "batchlife", "ops": hist})
	}
	open := func() []skywaytypes.InternalOutgoingTxBatch {
		bs, err := in.SkywayKeeper.GetOutgoingTxBatches(ctx)
		if err != nil {
			t.Fatal(err)
		}
		return bs
	}
	poll := func(after string) {
		ci, err := in.EvmKeeper.GetChainInfo(ctx, skyChain)
		if err != nil {
			t.Fatal(err)
		}
		tid := string(ci.SmartContractUniqueID)
		check := func(src string, b skywaytypes.OutgoingTxBatch) {
			it := itemOfBatch(b, tid)
			_, outer, err := it.preimages()
			if err != nil {
				t.Fatal(err)
			}
			want := crypto.Keccak256(outer)
			run.Count("batch_served", src)
			if !bytes.Equal(b.BytesToSign, want) {
				viol("C05:batch-served-signbytes-stale:"+src, fmt.Sprintf("after %s: %s hands out batch %d (estimate %d) with bytes to sign %x; its checkpoint under the chain's current compass id %q is %x",
					after, src, b.BatchNonce, b.GasEstimate, b.BytesToSign, tid, want))
			}
			// the real function on the served batch agrees with the reconstruction
			if real, err := b.GetCheckpoint(tid); err != nil || !bytes.Equal(real, want) {
				viol("C05:batch-checkpoint-reconstruction", fmt.Sprintf("after %s: GetCheckpoint of batch %d gives %x (%v), reconstruction %x", after, b.BatchNonce, real, err, want))
			}
		}
		bs := open()
		for _, b := range bs {
			check("store", b.ToExternal())
			res, err := in.SkywayKeeper.BatchRequestByNonce(ctx, &skywaytypes.QueryBatchRequestByNonceRequest{Nonce: b.BatchNonce, ContractAddress: b.TokenContract.GetAddress().Hex()})
			if err != nil {
				t.Fatal(err)
			}
			check("BatchRequestByNonce", res.Batch)
		}
		for _, acc := range []sdk.AccAddress{skykeeper.AccAddrs[0], skykeeper.AccAddrs[3]} {
			res, err := in.SkywayKeeper.LastPendingBatchRequestByAddr(ctx, &skywaytypes.QueryLastPendingBatchRequestByAddrRequest{Address: acc.String()})
			if err != nil {
				t.Fatal(err)
			}
			for _, b := range res.Batch {
				check("LastPendingBatchRequestByAddr", b)
			}
		}
		ores, err := in.SkywayKeeper.OutgoingTxBatches(ctx, &skywaytypes.QueryOutgoingTxBatchesRequest{ChainReferenceId: skyChain})
		if err != nil {
			t.Fatal(err)
		}
		for _, b := range ores.Batches {
			check("OutgoingTxBatches", b)
			if b.GasEstimate < 1 {
				viol("C05:batch-relayed-without-estimate", fmt.Sprintf("after %s: OutgoingTxBatches hands out batch %d without an elected estimate", after, b.BatchNonce))
			}
		}
		for _, acc := range []sdk.ValAddress{skykeeper.ValAddrs[1]} {
			res, err := in.SkywayKeeper.LastPendingBatchForGasEstimation(ctx, &skywaytypes.QueryLastPendingBatchForGasEstimationRequest{Address: acc, ChainReferenceId: skyChain})
			if err == nil && res != nil {
				for _, b := range res.Batch {
					check("LastPendingBatchForGasEstimation", b)
				}
			}
		}
		// one served batch goes to the model as well
		if len(bs) > 0 && emitted < 2 {
			b := bs[r.Intn(len(bs))].ToExternal()
			it := itemOfBatch(b, tid)
			_, outer, _ := it.preimages()
			if !bytes.Equal(crypto.Keccak256(outer), b.BytesToSign) {
				outer = append([]byte{0xde, 0xad}, outer...)
			}
			run.Count("kind", "served:batch")
			run.Case(fmt.Sprintf("C05.CSign %s [] 0 %s", it.coq(), cBytes(outer)), nHandoverOverOpen > 0,
				map[string]any{"kind": "served-batch", "item": it, "served": hex.EncodeToString(b.BytesToSign)})
			emitted++
		}
	}
	dests := []string{"0x2a24af0501a534fca004ee1bd667b783f205a546", "0x3E5e9111Ae8eB78Fe1CC3bb8915d5D461F3Ef9A9", "0x00000000000000000000000000000000000000aA"}
	nops := 3 + r.Intn(7)
	if replay != nil {
		nops = len(replay)
	}
	for j := 0; j < nops; j++ {
		var o blOp
		if replay != nil {
			o = replay[j]
		} else {
			bs := open()
			var waiting []int
			for i, b := range bs {
				if b.GasEstimate == 0 {
					waiting = append(waiting, i)
				}
			}
			c := r.Intn(10)
			switch {
			case len(bs) == 0 || c < 3:
				o.Kind, o.N = "build", 1+r.Intn(3)
			case c < 5 && len(waiting) > 0:
				o.Kind, o.Pick, o.Est = "elect", waiting[r.Intn(len(waiting))], drawEstimate(r)|1
			case c < 9:
				o.Kind = "handover"
			default:
				o.Kind = "handover-same-id"
			}
		}
		switch o.Kind {
		case "build":
			for i := 0; i < o.N; i++ {
				d, _ := skywaytypes.NewEthAddress(dests[r.Intn(len(dests))])
				if _, err := in.SkywayKeeper.AddToOutgoingPool(ctx, send, *d, sdk.NewCoin(skyDenom, sdkmath.NewInt(int64(1+r.Intn(1000)))), skyChain); err != nil {
					t.Fatalf("AddToOutgoingPool: %v", err)
				}
			}
			if b, err := in.SkywayKeeper.BuildOutgoingTXBatch(ctx, skyChain, *tok, 10); err != nil || b == nil {
				t.Fatalf("BuildOutgoingTXBatch: %v %v", b, err)
			}
		case "elect":
			bs := open()
			if o.Pick >= len(bs) || bs[o.Pick].GasEstimate != 0 {
				continue
			}
			if err := in.SkywayKeeper.UpdateBatchGasEstimate(ctx, bs[o.Pick], o.Est); err != nil {
				t.Fatalf("UpdateBatchGasEstimate: %v", err)
			}
		case "handover", "handover-same-id":
			ci, _ := in.EvmKeeper.GetChainInfo(ctx, skyChain)
			scID++
			tid := string(ci.SmartContractUniqueID)
			if o.Kind == "handover" {
				tid = o.Tid
				if tid == "" {
					tid = fmt.Sprintf("compass-%d-%s", scID, string(randASCII(r, r.Intn(30))))
				}
			}
			o.Tid = tid
			for _, b := range open() {
				if b.GasEstimate == 0 {
					nHandoverOverOpen++
					run.Count("batchlife", "handover-over-batch-awaiting-estimate")
				} else {
					run.Count("batchlife", "handover-over-estimated-batch")
				}
			}
			if err := in.EvmKeeper.ActivateChainReferenceID(ctx, skyChain, &evmtypes.SmartContract{Id: scID}, "0x5A3E98aA540B2C3545E1DbA2D5e8B3e3e8bD3c7e", []byte(tid)); err != nil {
				t.Fatalf("ActivateChainReferenceID: %v", err)
			}
			if ci, err := in.EvmKeeper.GetChainInfo(ctx, skyChain); err != nil || string(ci.SmartContractUniqueID) != tid {
				t.Fatalf("compass id after activation: %v", err)
			}
		}
		hist = append(hist, o)
		run.Count("batchlife_op", o.Kind)
		poll(fmt.Sprintf("op %d (%s)", j, o.Kind))
	}
	run.Count("kind", "batchlife")
	_ = big.NewInt
}
