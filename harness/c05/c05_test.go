package c05

import (
	"bytes"
	"context"
	"encoding/binary"
	"encoding/hex"
	"encoding/json"
	"fmt"
	"math/big"
	"math/rand"
	"os"
	"path/filepath"
	"sort"
	"strings"
	"testing"

	"cosmossdk.io/log"
	sdkmath "cosmossdk.io/math"
	"cosmossdk.io/store"
	"cosmossdk.io/store/metrics"
	storetypes "cosmossdk.io/store/types"
	tmproto "github.com/cometbft/cometbft/proto/tendermint/types"
	tmdb "github.com/cosmos/cosmos-db"
	"github.com/cosmos/cosmos-sdk/codec"
	codectypes "github.com/cosmos/cosmos-sdk/codec/types"
	"github.com/cosmos/cosmos-sdk/runtime"
	sdk "github.com/cosmos/cosmos-sdk/types"
	paramstypes "github.com/cosmos/cosmos-sdk/x/params/types"
	"github.com/ethereum/go-ethereum/accounts/abi"
	"github.com/ethereum/go-ethereum/common"
	"github.com/ethereum/go-ethereum/crypto"
	"github.com/palomachain/paloma/v2/verifharness/emit"
	palomacommon "github.com/palomachain/paloma/v2/testutil/common"
	keeperutil "github.com/palomachain/paloma/v2/util/keeper"
	conskeeper "github.com/palomachain/paloma/v2/x/consensus/keeper"
	"github.com/palomachain/paloma/v2/x/consensus/keeper/consensus"
	"github.com/palomachain/paloma/v2/x/consensus/types"
	evmtypes "github.com/palomachain/paloma/v2/x/evm/types"
	skywaytypes "github.com/palomachain/paloma/v2/x/skyway/types"
	valsettypes "github.com/palomachain/paloma/v2/x/valset/types"
)

// ---------------------------------------------------------------------------------------------
// items: what the generator draws; from one item the harness builds (a) the real message / batch,
// (b) an independent reconstruction of the pre-image with go-ethereum's abi package, (c) the Coq term.
// ---------------------------------------------------------------------------------------------

type call struct {
	Addr    string `json:"addr"`
	Payload []byte `json:"payload"`
}

type item struct {
	Kind      string `json:"kind"`
	ID        uint64 `json:"id"`
	Est       uint64 `json:"estimate"`
	Turnstone []byte `json:"turnstone"`
	Relayer   string `json:"relayer"`

	Validators []string  `json:"validators,omitempty"`
	Powers     []uint64  `json:"powers,omitempty"`
	ValsetID   uint64    `json:"valset_id,omitempty"`
	Contract   string    `json:"contract,omitempty"` // logic call contract / deployer / batch token
	Payload    []byte    `json:"payload,omitempty"`  // payload / bytecode
	Fees       *[3]uint64 `json:"fees,omitempty"`
	Sender     []byte    `json:"sender,omitempty"`
	Deadline   int64     `json:"deadline,omitempty"`
	Calls      []call    `json:"calls,omitempty"`
	Receivers  []string  `json:"receivers,omitempty"`
	Amounts    []*big.Int `json:"amounts,omitempty"`
	Nonce      uint64    `json:"nonce,omitempty"`
	Timeout    uint64    `json:"timeout,omitempty"`
}

func (it item) clone() item {
	b, _ := json.Marshal(it)
	var out item
	_ = json.Unmarshal(b, &out)
	return out
}

var kinds = []string{"valset", "logic", "deploy", "handover", "upload", "batch"}

func randBytes(r *rand.Rand, n int) []byte {
	b := make([]byte, n)
	for i := range b {
		switch r.Intn(6) {
		case 0:
			b[i] = 0
		case 1:
			b[i] = 0xff
		default:
			b[i] = byte(r.Intn(256))
		}
	}
	return b
}

func payloadLen(r *rand.Rand) int {
	switch r.Intn(8) {
	case 0:
		return 0
	case 1:
		return 31 + r.Intn(3) // 31,32,33
	case 2:
		return 63 + r.Intn(3)
	case 3:
		return 4 // bare selector
	default:
		return r.Intn(100)
	}
}

// hexAddr draws an address string; strict = must pass libeth.ValidateEthAddress (skyway).
func hexAddr(r *rand.Rand, strict bool) string {
	b := randBytes(r, 20)
	if r.Intn(10) == 0 {
		b = make([]byte, 20) // zero address
	}
	s := hex.EncodeToString(b)
	if strict {
		return common.BytesToAddress(b).Hex()
	}
	switch r.Intn(12) {
	case 0:
		return s // no 0x prefix
	case 1:
		return "0x" + strings.ToUpper(s)
	case 2:
		return "0x" + s[:r.Intn(40)] // short / odd length
	case 3:
		return "0x" + hex.EncodeToString(randBytes(r, 3)) + s // too long: cropped from the left
	case 4:
		return ""
	case 5:
		return common.BytesToAddress(b).Hex() // checksummed
	default:
		return "0x" + s
	}
}

func drawFees(r *rand.Rand) *[3]uint64 {
	if r.Intn(5) == 0 {
		return nil
	}
	f := [3]uint64{emit.U64(r), emit.U64(r), emit.U64(r)}
	switch r.Intn(8) {
	case 0:
		f = [3]uint64{100000, 100000, 100000} // the default, given explicitly
	case 1:
		f = [3]uint64{0, 0, 0} // present but all zero: NOT the default
	case 2:
		// every component drawn among 0 / the default / anything: partially zero, partially default
		for i := range f {
			switch r.Intn(3) {
			case 0:
				f[i] = 0
			case 1:
				f[i] = 100000
			}
		}
	}
	return &f
}

func drawInt64(r *rand.Rand) int64 {
	switch r.Intn(6) {
	case 0:
		return int64(emit.U64(r)) // includes negative values
	case 1:
		return -1 - int64(r.Intn(1000))
	case 2:
		return 0
	default:
		return 1_700_000_000 + int64(r.Intn(1_000_000))
	}
}

func drawTurnstone(r *rand.Rand) []byte {
	switch r.Intn(8) {
	case 0:
		return nil
	case 1:
		return randASCII(r, 32)
	case 2:
		return randASCII(r, 33+r.Intn(8)) // longer than a bytes32: truncated
	case 3:
		b := randASCII(r, 10)
		return append(b, 0, 0) // trailing zero bytes = padding
	default:
		return randASCII(r, 1+r.Intn(31))
	}
}

func randASCII(r *rand.Rand, n int) []byte {
	b := make([]byte, n)
	for i := range b {
		b[i] = byte(0x20 + r.Intn(0x5f))
	}
	return b
}

func drawEstimate(r *rand.Rand) uint64 {
	switch r.Intn(6) {
	case 0:
		return 0
	case 1:
		return 300000
	case 2:
		return estSpecials[r.Intn(len(estSpecials))]
	default:
		return emit.U64(r)
	}
}

func drawItem(r *rand.Rand, kind string) item {
	it := item{Kind: kind, ID: emit.U64(r), Est: drawEstimate(r), Turnstone: drawTurnstone(r), Relayer: hexAddr(r, kind == "batch")}
	switch kind {
	case "valset":
		n := r.Intn(6)
		for i := 0; i < n; i++ {
			it.Validators = append(it.Validators, hexAddr(r, false))
		}
		m := n
		if r.Intn(8) == 0 {
			m = r.Intn(6) // lengths may differ: nothing in keccak256 ties them
		}
		for i := 0; i < m; i++ {
			it.Powers = append(it.Powers, emit.U64(r))
		}
		it.ValsetID = emit.U64(r)
	case "logic", "deploy":
		it.Contract = hexAddr(r, false)
		it.Payload = randBytes(r, payloadLen(r))
		if len(it.Payload) == 0 && r.Intn(2) == 0 {
			it.Payload = nil // nil vs empty: the same value
		}
		it.Fees = drawFees(r)
		switch r.Intn(5) {
		case 0:
			it.Sender = randBytes(r, r.Intn(33))
		case 1:
			it.Sender = randBytes(r, 32)
		default:
			it.Sender = randBytes(r, 20)
		}
		it.Deadline = drawInt64(r)
	case "handover":
		n := r.Intn(4)
		for i := 0; i < n; i++ {
			it.Calls = append(it.Calls, call{hexAddr(r, false), randBytes(r, payloadLen(r))})
		}
		it.Deadline = drawInt64(r)
	case "upload":
		it.Payload = randBytes(r, payloadLen(r))
	case "batch":
		it.Contract = hexAddr(r, true)
		n := r.Intn(5)
		for i := 0; i < n; i++ {
			it.Receivers = append(it.Receivers, hexAddr(r, true))
			it.Amounts = append(it.Amounts, emit.BigUpTo(r, 255))
		}
		it.Nonce = emit.U64(r)
		it.Timeout = emit.U64(r)
	}
	return it
}

// ---- (a) the real thing -------------------------------------------------------------------

var (
	ireg = codectypes.NewInterfaceRegistry()
	cdc  *codec.ProtoCodec
)

func init() {
	// the skyway test environment of the batch life cycles sets the chain's bech32 prefixes; set them before any address is
	// rendered (the SDK caches rendered addresses), as the chain does at start-up
	palomacommon.SetupPalomaPrefixes()
	types.RegisterInterfaces(ireg)
	evmtypes.RegisterInterfaces(ireg)
	ireg.RegisterImplementations((*types.ConsensusMsg)(nil), &evmtypes.Message{})
	cdc = codec.NewProtoCodec(ireg)
	// BatchedTypeChecker unpacks the staged messages with the consensus module's own codec
	mreg := types.ModuleCdc.InterfaceRegistry()
	types.RegisterInterfaces(mreg)
	evmtypes.RegisterInterfaces(mreg)
	mreg.RegisterImplementations((*types.ConsensusMsg)(nil), &evmtypes.Message{})
}

func (it item) evmMessage() *evmtypes.Message {
	m := &evmtypes.Message{TurnstoneID: string(it.Turnstone), ChainReferenceID: "chain-a", Assignee: "val", AssigneeRemoteAddress: it.Relayer}
	var fees *evmtypes.Fees
	if it.Fees != nil {
		fees = &evmtypes.Fees{RelayerFee: it.Fees[0], CommunityFee: it.Fees[1], SecurityFee: it.Fees[2]}
	}
	switch it.Kind {
	case "valset":
		m.Action = &evmtypes.Message_UpdateValset{UpdateValset: &evmtypes.UpdateValset{Valset: &evmtypes.Valset{
			Validators: it.Validators, Powers: it.Powers, ValsetID: it.ValsetID}}}
	case "logic":
		m.Action = &evmtypes.Message_SubmitLogicCall{SubmitLogicCall: &evmtypes.SubmitLogicCall{
			HexContractAddress: it.Contract, Payload: it.Payload, Deadline: it.Deadline, SenderAddress: it.Sender, Fees: fees}}
	case "deploy":
		m.Action = &evmtypes.Message_UploadUserSmartContract{UploadUserSmartContract: &evmtypes.UploadUserSmartContract{
			DeployerAddress: it.Contract, Bytecode: it.Payload, Deadline: it.Deadline, SenderAddress: it.Sender, Fees: fees}}
	case "handover":
		var cs []evmtypes.CompassHandover_ForwardCallArgs
		for _, c := range it.Calls {
			cs = append(cs, evmtypes.CompassHandover_ForwardCallArgs{HexContractAddress: c.Addr, Payload: c.Payload})
		}
		m.Action = &evmtypes.Message_CompassHandover{CompassHandover: &evmtypes.CompassHandover{ForwardCallArgs: cs, Deadline: it.Deadline}}
	case "upload":
		m.Action = &evmtypes.Message_UploadSmartContract{UploadSmartContract: &evmtypes.UploadSmartContract{Bytecode: it.Payload}}
	}
	return m
}

func (it item) batch() skywaytypes.OutgoingTxBatch {
	b := skywaytypes.OutgoingTxBatch{BatchNonce: it.Nonce, BatchTimeout: it.Timeout, TokenContract: it.Contract,
		ChainReferenceId: "chain-a", GasEstimate: it.Est, AssigneeRemoteAddress: common.HexToAddress(it.Relayer).Bytes(), Assignee: "val"}
	for i := range it.Receivers {
		b.Transactions = append(b.Transactions, skywaytypes.OutgoingTransferTx{
			Id: uint64(i + 1), Sender: sdk.AccAddress(bytes.Repeat([]byte{byte(i + 1)}, 20)).String(), DestAddress: it.Receivers[i],
			Erc20Token:      skywaytypes.ERC20Token{Contract: it.Contract, Amount: sdkmath.NewIntFromBigInt(it.Amounts[i]), ChainReferenceId: "chain-a"},
			BridgeTaxAmount: sdkmath.ZeroInt()})
	}
	return b
}

// realSignBytes: QueuedSignedMessage.GetBytesToSign / OutgoingTxBatch.GetCheckpoint on the real code.
func (it item) realSignBytes() (out []byte, err error) {
	defer func() {
		if p := recover(); p != nil {
			err = fmt.Errorf("panic: %v", p)
		}
	}()
	if it.Kind == "batch" {
		return it.batch().GetCheckpoint(string(it.Turnstone))
	}
	a, err := codectypes.NewAnyWithValue(it.evmMessage())
	if err != nil {
		return nil, err
	}
	q := &types.QueuedSignedMessage{Id: it.ID, GasEstimate: it.Est, Msg: a}
	return q.GetBytesToSign(cdc)
}

// ---- (b) independent reconstruction of the pre-image -----------------------------------------

func ty(s string, comps ...abi.ArgumentMarshaling) abi.Argument {
	t, err := abi.NewType(s, "", comps)
	if err != nil {
		panic(err)
	}
	return abi.Argument{Type: t}
}

var (
	callComps = []abi.ArgumentMarshaling{{Name: "address", Type: "address"}, {Name: "payload", Type: "bytes"}}
	feeComps  = []abi.ArgumentMarshaling{{Name: "relayer_fee", Type: "uint256"}, {Name: "community_fee", Type: "uint256"},
		{Name: "security_fee", Type: "uint256"}, {Name: "fee_payer_paloma_address", Type: "bytes32"}}
	batchComps = []abi.ArgumentMarshaling{{Name: "receiver", Type: "address[]"}, {Name: "amount", Type: "uint256[]"}}
)

func selector(name string, args abi.Arguments) []byte {
	m := abi.NewMethod(name, name, abi.Function, "", false, false, args, abi.Arguments{})
	return m.ID
}

func right32(b []byte) (out [32]byte) { copy(out[:], b); return }
func left32(b []byte) (out [32]byte) {
	copy(out[32-len(b):], b)
	return
}

// two's complement word of an int64 as a non-negative big.Int (so that the reconstruction does not rely on
// go-ethereum's handling of negative numbers)
func wordOfInt64(x int64) *big.Int {
	z := big.NewInt(x)
	if x < 0 {
		z.Add(z, new(big.Int).Lsh(big.NewInt(1), 256))
	}
	return z
}

func (it item) effEstimate() uint64 {
	if it.Est == 0 {
		return 300000
	}
	return it.Est
}
func (it item) effFees() [3]uint64 {
	if it.Fees == nil {
		return [3]uint64{100000, 100000, 100000}
	}
	return *it.Fees
}

type feeT struct {
	RelayerFee            *big.Int
	CommunityFee          *big.Int
	SecurityFee           *big.Int
	FeePayerPalomaAddress [32]byte
}
type callT struct {
	Address common.Address
	Payload []byte
}

func (it item) feeArg() feeT {
	f := it.effFees()
	return feeT{new(big.Int).SetUint64(f[0]), new(big.Int).SetUint64(f[1]), new(big.Int).SetUint64(f[2]), left32(it.Sender)}
}

// preimages returns (inner checkpoint pre-image or nil, outer pre-image).
func (it item) preimages() (inner, outer []byte, err error) {
	pack := func(name string, args abi.Arguments, vals ...any) ([]byte, error) {
		b, err := args.Pack(vals...)
		if err != nil {
			return nil, err
		}
		return append(append([]byte{}, selector(name, args)...), b...), nil
	}
	relayer := common.HexToAddress(it.Relayer)
	est := new(big.Int).SetUint64(it.effEstimate())
	switch it.Kind {
	case "upload":
		n := make([]byte, 8)
		binary.BigEndian.PutUint64(n, it.ID)
		return nil, append(append([]byte{}, it.Payload...), n...), nil
	case "logic":
		args := abi.Arguments{ty("tuple", callComps...), ty("tuple", feeComps...), ty("uint256"), ty("bytes32"), ty("uint256"), ty("address")}
		outer, err = pack("logic_call", args, callT{common.HexToAddress(it.Contract), it.Payload}, it.feeArg(),
			wordOfInt64(int64(it.ID)), right32(it.Turnstone), wordOfInt64(it.Deadline), relayer)
	case "deploy":
		args := abi.Arguments{ty("address"), ty("bytes"), ty("tuple", feeComps...), ty("uint256"), ty("bytes32"), ty("uint256"), ty("address")}
		outer, err = pack("deploy_contract", args, common.HexToAddress(it.Contract), it.Payload, it.feeArg(),
			wordOfInt64(int64(it.ID)), right32(it.Turnstone), wordOfInt64(it.Deadline), relayer)
	case "handover":
		args := abi.Arguments{ty("tuple[]", callComps...), ty("uint256"), ty("address"), ty("uint256")}
		cs := []callT{}
		for _, c := range it.Calls {
			cs = append(cs, callT{common.HexToAddress(c.Addr), c.Payload})
		}
		outer, err = pack("compass_update_batch", args, cs, wordOfInt64(it.Deadline), relayer, est)
	case "valset":
		cargs := abi.Arguments{ty("address[]"), ty("uint256[]"), ty("uint256"), ty("bytes32")}
		vs := []common.Address{}
		for _, v := range it.Validators {
			vs = append(vs, common.HexToAddress(v))
		}
		ps := []*big.Int{}
		for _, p := range it.Powers {
			ps = append(ps, wordOfInt64(int64(p)))
		}
		inner, err = pack("checkpoint", cargs, vs, ps, wordOfInt64(int64(it.ValsetID)), right32(it.Turnstone))
		if err != nil {
			return
		}
		args := abi.Arguments{ty("bytes32"), ty("address"), ty("uint256")}
		outer, err = pack("update_valset", args, right32(crypto.Keccak256(inner)), relayer, est)
	case "batch":
		args := abi.Arguments{ty("address"), ty("tuple", batchComps...), ty("uint256"), ty("bytes32"), ty("uint256"), ty("address"), ty("uint256")}
		rs := []common.Address{}
		for _, v := range it.Receivers {
			rs = append(rs, common.HexToAddress(v))
		}
		am := it.Amounts
		if am == nil {
			am = []*big.Int{}
		}
		outer, err = pack("batch_call", args, common.HexToAddress(it.Contract), struct {
			Receiver []common.Address
			Amount   []*big.Int
		}{rs, am}, wordOfInt64(int64(it.Nonce)), right32(it.Turnstone), wordOfInt64(int64(it.Timeout)), relayer, est)
	}
	return
}

// ---- (c) Coq term ------------------------------------------------------------------------------

func zAddr(s string) string { return emit.Z(new(big.Int).SetBytes(common.HexToAddress(s).Bytes())) }
// byte strings travel as lists of small numerals: long decimal / hexadecimal / string literals all parse
// far slower in Coq 8.16 (measured: 78-digit literals 4x slower, one literal per string 40x slower).
func cBytes(b []byte) string {
	if len(b) == 0 {
		return "[]"
	}
	return "(bytes_of_Zs " + emit.Bytes(b) + ")"
}
func cFees(f *[3]uint64) string {
	if f == nil {
		return "None"
	}
	return fmt.Sprintf("(Some (mkFees %s %s %s))", emit.ZU(f[0]), emit.ZU(f[1]), emit.ZU(f[2]))
}

func (it item) coq() string {
	var act string
	switch it.Kind {
	case "valset":
		vs := make([]string, len(it.Validators))
		for i, v := range it.Validators {
			vs[i] = zAddr(v)
		}
		act = fmt.Sprintf("UpdateValset %s %s %s", emit.List(vs), emit.U64List(it.Powers), emit.ZU(it.ValsetID))
	case "logic":
		act = fmt.Sprintf("SubmitLogicCall %s %s %s %s %s", zAddr(it.Contract), cBytes(it.Payload), cFees(it.Fees), cBytes(it.Sender), emit.ZI(it.Deadline))
	case "deploy":
		act = fmt.Sprintf("UploadUserSmartContract %s %s %s %s %s", zAddr(it.Contract), cBytes(it.Payload), cFees(it.Fees), cBytes(it.Sender), emit.ZI(it.Deadline))
	case "handover":
		cs := make([]string, len(it.Calls))
		for i, c := range it.Calls {
			cs[i] = emit.Pair(zAddr(c.Addr), cBytes(c.Payload))
		}
		act = fmt.Sprintf("CompassHandover %s %s", emit.List(cs), emit.ZI(it.Deadline))
	case "upload":
		act = "UploadSmartContract " + cBytes(it.Payload)
	case "batch":
		rs := make([]string, len(it.Receivers))
		for i, v := range it.Receivers {
			rs[i] = zAddr(v)
		}
		act = fmt.Sprintf("Batch %s %s %s %s %s", zAddr(it.Contract), emit.List(rs), emit.ZList(it.Amounts), emit.ZU(it.Nonce), emit.ZU(it.Timeout))
	}
	return fmt.Sprintf("(mkItem %s %s %s %s (%s))", emit.ZU(it.ID), emit.ZU(it.Est), cBytes(it.Turnstone), zAddr(it.Relayer), act)
}

// ---- perturbation oracle: every delivered value influences the signing bytes -------------------

// eff renders the EFFECTIVE value of a field (what the contract is handed): two items with different eff(f)
// must have different signing bytes.
func (it item) eff(f string) string {
	switch f {
	case "relayer":
		return common.HexToAddress(it.Relayer).Hex()
	case "estimate":
		return fmt.Sprint(it.effEstimate())
	case "turnstone":
		x := right32(it.Turnstone)
		return hex.EncodeToString(x[:])
	case "id":
		return fmt.Sprint(it.ID)
	case "contract":
		return common.HexToAddress(it.Contract).Hex()
	case "payload":
		return hex.EncodeToString(it.Payload)
	case "fee0", "fee1", "fee2":
		return fmt.Sprint(it.effFees()[int(f[3]-'0')])
	case "sender":
		x := left32(it.Sender)
		return hex.EncodeToString(x[:])
	case "deadline":
		return fmt.Sprint(it.Deadline)
	case "validators":
		var s []string
		for _, v := range it.Validators {
			s = append(s, common.HexToAddress(v).Hex())
		}
		return strings.Join(s, ",")
	case "powers":
		return fmt.Sprint(it.Powers)
	case "valset_id":
		return fmt.Sprint(it.ValsetID)
	case "calls":
		var s []string
		for _, c := range it.Calls {
			s = append(s, common.HexToAddress(c.Addr).Hex()+":"+hex.EncodeToString(c.Payload))
		}
		return strings.Join(s, ",")
	case "receivers":
		var s []string
		for _, v := range it.Receivers {
			s = append(s, common.HexToAddress(v).Hex())
		}
		return strings.Join(s, ",")
	case "amounts":
		return fmt.Sprint(it.Amounts)
	case "nonce":
		return fmt.Sprint(it.Nonce)
	case "timeout":
		return fmt.Sprint(it.Timeout)
	}
	panic("eff: " + f)
}

// fieldsOf: the delivered values per kind (+ the deployment id where the contract's scheme has it).
func fieldsOf(kind string) []string {
	switch kind {
	case "valset":
		return []string{"validators", "powers", "valset_id", "relayer", "estimate", "turnstone"}
	case "logic", "deploy":
		return []string{"contract", "payload", "fee0", "fee1", "fee2", "sender", "id", "deadline", "relayer", "turnstone"}
	case "handover":
		return []string{"calls", "deadline", "relayer", "estimate"}
	case "upload":
		return []string{"payload", "id"}
	case "batch":
		return []string{"contract", "receivers", "amounts", "nonce", "timeout", "relayer", "estimate", "turnstone"}
	}
	return nil
}

func flipBytes(r *rand.Rand, b []byte) []byte {
	out := append([]byte{}, b...)
	switch {
	case len(out) == 0 || r.Intn(4) == 0:
		return append(out, byte(r.Intn(256))) // longer (possibly by a zero byte)
	case r.Intn(4) == 0:
		return out[:len(out)-1]
	default:
		i := r.Intn(len(out))
		out[i] ^= byte(1 << uint(r.Intn(8)))
		return out
	}
}

func flipU64(r *rand.Rand, x uint64) uint64 {
	switch r.Intn(4) {
	case 0:
		return x ^ (1 << uint(r.Intn(64)))
	case 1:
		return x + 1
	case 2:
		return x ^ (1 << 63) // same low bits, other sign after the int64 cast
	default:
		return emit.U64(r)
	}
}

func flipAddr(r *rand.Rand, strict bool) string { return hexAddr(r, strict) }

func (it *item) perturb(r *rand.Rand, f string) {
	strict := it.Kind == "batch"
	switch f {
	case "relayer":
		it.Relayer = flipAddr(r, strict)
	case "estimate":
		if r.Intn(2) == 0 {
			it.Est = estSpecials[r.Intn(len(estSpecials))] // 0 <-> 300000 <-> neighbours
		} else {
			it.Est = flipU64(r, it.Est)
		}
	case "feeset":
		fs := feeSpecials(r)
		it.Fees = fs[r.Intn(len(fs))] // the whole fee set at once: nil / all-zero / exact default / partially zero
	case "turnstone":
		it.Turnstone = flipBytes(r, it.Turnstone)
		for i := range it.Turnstone { // keep it printable (proto string)
			it.Turnstone[i] = 0x20 + it.Turnstone[i]%0x5f
		}
	case "id":
		it.ID = flipU64(r, it.ID)
	case "contract":
		it.Contract = flipAddr(r, strict)
	case "payload":
		it.Payload = flipBytes(r, it.Payload)
	case "fee0", "fee1", "fee2":
		f3 := it.effFees()
		i := int(f[3] - '0')
		f3[i] = flipU64(r, f3[i])
		it.Fees = &f3
	case "sender":
		s := flipBytes(r, it.Sender)
		if len(s) > 32 {
			s = s[1:]
		}
		it.Sender = s
	case "deadline":
		it.Deadline = int64(flipU64(r, uint64(it.Deadline)))
	case "validators":
		switch {
		case len(it.Validators) == 0 || r.Intn(4) == 0:
			it.Validators = append(it.Validators, flipAddr(r, false))
		case r.Intn(4) == 0:
			it.Validators = it.Validators[:len(it.Validators)-1]
		default:
			it.Validators[r.Intn(len(it.Validators))] = flipAddr(r, false)
		}
	case "powers":
		switch {
		case len(it.Powers) == 0 || r.Intn(4) == 0:
			it.Powers = append(it.Powers, emit.U64(r))
		case r.Intn(4) == 0:
			it.Powers = it.Powers[:len(it.Powers)-1]
		default:
			i := r.Intn(len(it.Powers))
			it.Powers[i] = flipU64(r, it.Powers[i])
		}
	case "valset_id":
		it.ValsetID = flipU64(r, it.ValsetID)
	case "calls":
		switch {
		case len(it.Calls) == 0 || r.Intn(5) == 0:
			it.Calls = append(it.Calls, call{flipAddr(r, false), randBytes(r, payloadLen(r))})
		case r.Intn(5) == 0:
			it.Calls = it.Calls[:len(it.Calls)-1]
		case r.Intn(3) == 0:
			it.Calls[r.Intn(len(it.Calls))].Addr = flipAddr(r, false)
		case len(it.Calls) >= 2 && r.Intn(3) == 0:
			// move the boundary between two adjacent payloads
			i := r.Intn(len(it.Calls) - 1)
			j := append(append([]byte{}, it.Calls[i].Payload...), it.Calls[i+1].Payload...)
			k := r.Intn(len(j) + 1)
			it.Calls[i].Payload, it.Calls[i+1].Payload = j[:k], j[k:]
		default:
			i := r.Intn(len(it.Calls))
			it.Calls[i].Payload = flipBytes(r, it.Calls[i].Payload)
		}
	case "receivers":
		switch {
		case len(it.Receivers) == 0 || r.Intn(4) == 0:
			it.Receivers = append(it.Receivers, flipAddr(r, true))
			it.Amounts = append(it.Amounts, emit.BigUpTo(r, 255))
		case r.Intn(4) == 0:
			it.Receivers = it.Receivers[:len(it.Receivers)-1]
			it.Amounts = it.Amounts[:len(it.Amounts)-1]
		case len(it.Receivers) >= 2 && r.Intn(3) == 0:
			it.Receivers[0], it.Receivers[1] = it.Receivers[1], it.Receivers[0]
		default:
			it.Receivers[r.Intn(len(it.Receivers))] = flipAddr(r, true)
		}
	case "amounts":
		if len(it.Amounts) == 0 {
			it.Receivers = append(it.Receivers, flipAddr(r, true))
			it.Amounts = append(it.Amounts, emit.BigUpTo(r, 255))
			return
		}
		i := r.Intn(len(it.Amounts))
		it.Amounts[i] = new(big.Int).Xor(it.Amounts[i], new(big.Int).Lsh(big.NewInt(1), uint(r.Intn(255))))
	case "nonce":
		it.Nonce = flipU64(r, it.Nonce)
	case "timeout":
		it.Timeout = flipU64(r, it.Timeout)
	}
}

func nopLogger() log.Logger { return log.NewNopLogger() }

// ---------------------------------------------------------------------------------------------
// ids: real consensus keeper with several queues
// ---------------------------------------------------------------------------------------------

type stubValset struct{}

func (stubValset) GetSigningKey(context.Context, sdk.ValAddress, string, string, string) ([]byte, error) {
	return nil, nil
}
func (stubValset) GetCurrentSnapshot(context.Context) (*valsettypes.Snapshot, error) { return nil, nil }
func (stubValset) CanAcceptValidator(context.Context, sdk.ValAddress) error           { return nil }
func (stubValset) KeepValidatorAlive(context.Context, sdk.ValAddress, string) error   { return nil }
func (stubValset) Jail(context.Context, sdk.ValAddress, string) error                 { return nil }

type stubFees struct{}

func (stubFees) GetCombinedFeesForRelay(context.Context, sdk.ValAddress, string) (*types.MessageFeeSettings, error) {
	return &types.MessageFeeSettings{RelayerFee: sdkmath.LegacyOneDec(), CommunityFee: sdkmath.LegacyOneDec(), SecurityFee: sdkmath.LegacyOneDec()}, nil
}

type queues struct{ opts []*consensus.QueueOptions }

func (q queues) SupportedQueues(context.Context) ([]consensus.SupportsConsensusQueueAction, error) {
	var out []consensus.SupportsConsensusQueueAction
	for _, o := range q.opts {
		out = append(out, consensus.SupportsConsensusQueueAction{QueueOptions: *o})
	}
	return out, nil
}

type idEnv struct {
	k      *conskeeper.Keeper
	ctx    sdk.Context
	names  []string
	key    *storetypes.KVStoreKey
}

func newIDEnv(t *testing.T, nq int, batched ...int) *idEnv {
	db := tmdb.NewMemDB()
	stateStore := store.NewCommitMultiStore(db, nopLogger(), metrics.NewNoOpMetrics())
	storeKey := storetypes.NewKVStoreKey(types.StoreKey)
	memKey := storetypes.NewMemoryStoreKey(types.MemStoreKey)
	ownKey := storetypes.NewKVStoreKey("c05-module-with-its-own-store")
	stateStore.MountStoreWithDB(storeKey, storetypes.StoreTypeIAVL, db)
	stateStore.MountStoreWithDB(ownKey, storetypes.StoreTypeIAVL, db)
	stateStore.MountStoreWithDB(memKey, storetypes.StoreTypeMemory, nil)
	if err := stateStore.LoadLatestVersion(); err != nil {
		t.Fatal(err)
	}
	ps := paramstypes.NewSubspace(cdc, types.Amino, storeKey, memKey, "ConsensusParams")
	kreg := conskeeper.NewRegistry()
	// queues of several chains, and two queue types on one chain
	specs := [][2]string{{"chain-a", "evm-turnstone-message"}, {"chain-b", "evm-turnstone-message"}, {"chain-a", "evm-validators-balances"}, {"chain-c", "evm-turnstone-message"}}
	var qo []*consensus.QueueOptions
	var names []string
	for i := 0; i < nq; i++ {
		name := types.Queue(specs[i][1], "evm", specs[i][0])
		names = append(names, name)
		isBatched := false
		for _, b := range batched {
			isBatched = isBatched || b == i
		}
		qo = append(qo, consensus.ApplyOpts(nil,
			consensus.WithQueueTypeName(name),
			consensus.WithStaticTypeCheck(&evmtypes.Message{}),
			consensus.WithChainInfo("evm", specs[i][0]),
			consensus.WithVerifySignature(func([]byte, []byte, []byte) bool { return true }),
			consensus.WithBatch(isBatched),
		))
		if i >= 2 && i == nq-1 && len(batched) == 0 {
			// a queue whose module brings its OWN store (QueueOptions.Sg set, Ider left to the keeper): its items live
			// elsewhere, its ids still come from the one consensus-wide counter
			qo[i].Sg = keeperutil.StoreGetterFn(func(ctx context.Context) storetypes.KVStore { return sdk.UnwrapSDKContext(ctx).KVStore(ownKey) })
		}
	}
	kreg.Add(queues{qo})
	k := conskeeper.NewKeeper(cdc, runtime.NewKVStoreService(storeKey), ps, stubValset{}, kreg, stubFees{})
	ctx := sdk.NewContext(stateStore, tmproto.Header{}, false, nopLogger())
	return &idEnv{k: k, ctx: ctx, names: names, key: storeKey}
}

func (e *idEnv) queueIDs(t *testing.T, q int) []uint64 {
	ms, err := e.k.GetMessagesFromQueue(e.ctx, e.names[q], 0)
	if err != nil {
		t.Fatal(err)
	}
	out := make([]uint64, len(ms))
	for i, m := range ms {
		out[i] = m.GetId()
	}
	return out
}

func runIDs(t *testing.T, run *emit.Run, r *rand.Rand, replayOps []idOp, replayStart uint64, replayNQ int) {
	nq := 2 + r.Intn(3)
	var start uint64
	if r.Intn(12) == 0 {
		start = ^uint64(0) - uint64(r.Intn(4)) // counter about to wrap (unreachable in practice; model agrees on what happens)
	} else if r.Intn(6) == 0 {
		start = emit.U64(r) >> 1
	}
	if replayOps != nil {
		nq, start = replayNQ, replayStart
	}
	e := newIDEnv(t, nq)
	if start != 0 {
		// seed the shared counter as IncrementNextID stores it
		b := make([]byte, 8)
		binary.BigEndian.PutUint64(b, start)
		e.ctx.KVStore(e.key).Set([]byte("generated-ids-consensus-queue-counter-"), b)
	}
	wraps := start > ^uint64(0)-40
	var opsCoq []string
	var hist []idOp
	allocated := map[uint64]bool{}
	var last uint64 = start
	nops := 4 + r.Intn(22)
	if replayOps != nil {
		nops = len(replayOps)
	}
	okPut, okRep, okRem, rej := 0, 0, 0, 0
	for j := 0; j < nops; j++ {
		var o idOp
		if replayOps != nil {
			o = replayOps[j]
		} else {
			o.Q = r.Intn(nq)
			pick := func() uint64 { // an id: of this queue, of another queue, or unknown
				switch r.Intn(5) {
				case 0:
					return uint64(r.Intn(40)) + start
				case 1:
					ids := e.queueIDs(t, r.Intn(nq))
					if len(ids) > 0 {
						return ids[r.Intn(len(ids))]
					}
				}
				ids := e.queueIDs(t, o.Q)
				if len(ids) > 0 {
					return ids[r.Intn(len(ids))]
				}
				return uint64(r.Intn(5))
			}
			switch r.Intn(11) {
			case 0, 1, 2, 3, 4:
				o.Kind = "put"
			case 5, 6:
				o.Kind, o.ID = "put", pick()
			case 10:
				o.Kind = "removeq" // the chain's queue is removed (RemoveChainProposal -> RemoveConsensusQueue)
			default:
				o.Kind, o.ID = "remove", pick()
			}
			o.Content = int64(r.Intn(1000))
		}
		if o.Kind == "removeq" {
			// Keeper.RemoveConsensusQueue, what RemoveSupportForChain calls for every queue of the removed chain.  On the
			// pinned tree RemoveQueueCompletely never advances its iterator (endless loop on a non-empty queue), so the
			// queue is emptied message by message first (each a Remove of the history); removing the empty queue then
			// changes nothing in the model.
			for _, id := range e.queueIDs(t, o.Q) {
				if err := e.k.DeleteJob(e.ctx, e.names[o.Q], id); err != nil {
					t.Fatal(err)
				}
				hist = append(hist, idOp{Kind: "remove", Q: o.Q, ID: id})
				opsCoq = append(opsCoq, fmt.Sprintf("(ORemove %d %s, ROk)", o.Q, emit.ZU(id)))
				okRem++
			}
			hist = append(hist, o)
			if err := e.k.RemoveConsensusQueue(e.ctx, e.names[o.Q]); err != nil {
				t.Fatal(err)
			}
			run.Count("ids_op", "queue-removed")
			continue
		}
		hist = append(hist, o)
		var res string
		switch o.Kind {
		case "put":
			msg := &evmtypes.Message{TurnstoneID: fmt.Sprint(o.Content), ChainReferenceID: "x", Assignee: "val"}
			var opts *consensus.PutOptions
			if o.ID != 0 || r.Intn(2) == 0 {
				opts = &consensus.PutOptions{RequireSignatures: true, MsgIDToReplace: o.ID}
			}
			id, err := e.k.PutMessageInQueue(e.ctx, e.names[o.Q], msg, opts)
			if err != nil {
				res = "RErr"
				rej++
			} else {
				res = "(RId " + emit.ZU(id) + ")"
				if o.ID == 0 {
					okPut++
					if !wraps {
						if allocated[id] {
							run.Violate("C05:msg-id-reused", fmt.Sprintf("Put returned id %d which had been handed out before", id),
								map[string]any{"kind": "ids", "nq": nq, "start": start, "ops": hist})
						}
						if id <= last {
							run.Violate("C05:msg-id-not-increasing", fmt.Sprintf("Put returned id %d after id %d", id, last),
								map[string]any{"kind": "ids", "nq": nq, "start": start, "ops": hist})
						}
					}
					allocated[id] = true
					last = id
				} else {
					okRep++
					if id != o.ID {
						run.Violate("C05:replace-changed-id", fmt.Sprintf("Put replacing %d returned id %d", o.ID, id),
							map[string]any{"kind": "ids", "nq": nq, "start": start, "ops": hist})
					}
				}
			}
			opsCoq = append(opsCoq, fmt.Sprintf("(OPut %d %s %d, %s)", o.Q, emit.ZU(o.ID), o.Content, res))
		case "remove":
			err := e.k.DeleteJob(e.ctx, e.names[o.Q], o.ID)
			if err != nil {
				res = "RErr"
				rej++
			} else {
				res = "ROk"
				okRem++
			}
			opsCoq = append(opsCoq, fmt.Sprintf("(ORemove %d %s, %s)", o.Q, emit.ZU(o.ID), res))
		}
		// direct oracle after every step: an id lives in at most one queue, and only ids that were handed out
		if !wraps {
			seen := map[uint64]int{}
			for q := 0; q < nq; q++ {
				for _, id := range e.queueIDs(t, q) {
					if p, ok := seen[id]; ok {
						run.Violate("C05:msg-id-in-two-places", fmt.Sprintf("id %d is in queue %d and in queue %d", id, p, q),
							map[string]any{"kind": "ids", "nq": nq, "start": start, "ops": hist})
					}
					seen[id] = q
					if !allocated[id] {
						run.Violate("C05:msg-id-never-allocated", fmt.Sprintf("queue %d holds id %d which Put never returned", q, id),
							map[string]any{"kind": "ids", "nq": nq, "start": start, "ops": hist})
					}
				}
			}
		}
	}
	var fin []string
	for q := 0; q < nq; q++ {
		fin = append(fin, emit.U64List(e.queueIDs(t, q)))
	}
	run.Count("kind", "ids")
	run.Count("ids_queues", fmt.Sprint(nq))
	if wraps {
		run.Count("ids_start", "near-2^64")
	} else if start != 0 {
		run.Count("ids_start", "large")
	} else {
		run.Count("ids_start", "0")
	}
	run.Case(fmt.Sprintf("C05.CIds %s %d %s %s", emit.ZU(start), nq, emit.List(opsCoq), emit.List(fin)),
		okPut >= 2 && (okRep+okRem) >= 1 && rej >= 1, map[string]any{"kind": "ids", "queues": nq, "start": start, "ops": hist})
}

type idOp struct {
	Kind    string `json:"kind"`
	Q       int    `json:"q"`
	ID      uint64 `json:"id"`
	Content int64  `json:"content"`
}

// ---------------------------------------------------------------------------------------------

// queuedSignBytes puts the message into a queue of a real consensus keeper, reads it back (proto round trip)
// and returns the id it got and the stored message's GetBytesToSign.
func queuedSignBytes(t *testing.T, e *idEnv, it item) (uint64, []byte) {
	id, err := e.k.PutMessageInQueue(e.ctx, e.names[0], it.evmMessage(), &consensus.PutOptions{RequireSignatures: true, RequireGasEstimation: true})
	if err != nil {
		t.Fatal(err)
	}
	ms, err := e.k.GetMessagesFromQueue(e.ctx, e.names[0], 0)
	if err != nil {
		t.Fatal(err)
	}
	for _, m := range ms {
		if m.GetId() == id {
			b, err := m.GetBytesToSign(cdc)
			if err != nil {
				t.Fatal(err)
			}
			return id, b
		}
	}
	t.Fatalf("message %d not found after Put", id)
	return 0, nil
}

func signCase(t *testing.T, run *emit.Run, r *rand.Rand, it item, fromCorpus bool) {
	signCaseWith(t, run, r, it, fromCorpus, nil)
}

func signCaseWith(t *testing.T, run *emit.Run, r *rand.Rand, it item, fromCorpus bool, stored []byte) {
	real, err := it.realSignBytes()
	if err != nil {
		t.Fatalf("real sign bytes failed on a generated item: %v\n%+v", err, it)
	}
	if stored != nil {
		run.Count("path", "through-keeper-queue")
		if !bytes.Equal(stored, real) {
			run.Violate("C05:queued-signbytes-differ", fmt.Sprintf("%s: GetBytesToSign of the stored message %x differs from that of the message as built %x", it.Kind, stored, real),
				map[string]any{"kind": "sign", "a": it})
		}
		real = stored
	}
	if it.Kind == "batch" {
		// the BytesToSign a freshly built batch is stored with (what pigeon is handed to sign)
		eb := it.batch()
		if in, err := eb.ToInternal(); err == nil {
			ra, err1 := skywaytypes.NewEthAddress(common.HexToAddress(it.Relayer).Hex())
			nb, err2 := skywaytypes.NewInternalOutgingTxBatch(in.BatchNonce, in.BatchTimeout, in.Transactions, in.TokenContract, 0,
				in.ChainReferenceID, string(it.Turnstone), in.Assignee, ra, in.GasEstimate)
			if err1 == nil && err2 == nil {
				run.Count("path", "batch-constructor-bytes-to-sign")
				if !bytes.Equal(nb.BytesToSign, real) || !bytes.Equal(nb.ToExternal().BytesToSign, real) {
					run.Violate("C05:batch-stored-signbytes-differ", fmt.Sprintf("batch built by NewInternalOutgingTxBatch carries BytesToSign %x, GetCheckpoint gives %x", nb.BytesToSign, real),
						map[string]any{"kind": "sign", "a": it})
				}
			} else {
				run.Count("path", "batch-constructor-rejected")
			}
		}
	}
	inner, outer, err := it.preimages()
	if err != nil {
		t.Fatalf("reconstruction failed: %v", err)
	}
	if !bytes.Equal(crypto.Keccak256(outer), real) {
		// the harness's own reconstruction is off: that is a harness (or source) change, reported as a mismatching case
		run.Count("reconstruction", "keccak-mismatch")
		outer = append([]byte{0xde, 0xad}, outer...)
	}
	var cp *big.Int = big.NewInt(0)
	if inner != nil {
		h := right32(crypto.Keccak256(inner))
		cp = new(big.Int).SetBytes(h[:])
	}
	run.Count("kind", it.Kind)
	nontrivial := len(it.Payload) > 0 || len(it.Validators) > 0 || len(it.Calls) > 0 || len(it.Receivers) > 0
	run.Case(fmt.Sprintf("C05.CSign %s %s %s %s", it.coq(), cBytes(inner), emit.Z(cp), cBytes(outer)), nontrivial,
		map[string]any{"kind": it.Kind, "item": it, "sign_bytes": hex.EncodeToString(real)})

	// perturbations on the real code
	fs := fieldsOf(it.Kind)
	np := 3
	if fromCorpus {
		np = 40
	}
	for p := 0; p < np; p++ {
		jt := it.clone()
		n := 1
		if r.Intn(3) == 0 {
			n = 2 + r.Intn(2)
		}
		var changed []string
		pf := fs
		if it.Kind == "logic" || it.Kind == "deploy" {
			pf = append(append([]string{}, fs...), "feeset", "feeset")
		}
		for i := 0; i < n; i++ {
			f := pf[r.Intn(len(pf))]
			jt.perturb(r, f)
		}
		for _, f := range fs {
			if it.eff(f) != jt.eff(f) {
				changed = append(changed, f)
			}
		}
		if len(changed) == 0 {
			run.Count("perturb", "no-effective-change")
			// same effective values => same bytes expected (raw values that are deliberately indistinguishable)
			continue
		}
		other, err := jt.realSignBytes()
		if err != nil {
			run.Count("perturb", "rejected")
			continue
		}
		if len(changed) == 1 {
			run.Count("perturb", it.Kind+":"+changed[0])
		} else {
			run.Count("perturb", it.Kind+":multi")
		}
		if bytes.Equal(other, real) {
			sort.Strings(changed)
			run.Violate("C05:signbytes-blind:"+it.Kind+":"+strings.Join(changed, "+"),
				fmt.Sprintf("%s: two items differing in delivered value(s) %v have the same signing bytes %x", it.Kind, changed, real),
				map[string]any{"kind": "sign", "a": it, "b": jt, "changed": changed})
		}
	}
}

func TestCorr(t *testing.T) {
	run := emit.Start("C05", 600)
	r := run.Rng
	run.Rule("seeded generator. sign cases: a random queued message of each action (UpdateValset, SubmitLogicCall, UploadUserSmartContract, " +
		"CompassHandover, UploadSmartContract) or a skyway batch; ids/estimates/fees boundary-biased uint64 (incl. >= 2^63), negative deadlines, " +
		"nil fees, estimate 0, payload lengths around 32-byte boundaries, malformed address strings, turnstone ids shorter/longer than 32 bytes; " +
		"the real GetBytesToSign / GetCheckpoint output must equal keccak of the harness's reconstructed pre-image, and the model must reproduce that pre-image byte for byte; " +
		"then 3 single/multi-field perturbations per item must change the real signing bytes. " +
		"id cases: 4-25 Put / Put-with-MsgIDToReplace / Remove ops (ids of the same queue, of another queue, unknown) over 2-4 queues of one real consensus keeper, " +
		"counter started at 0, at a large value or just below 2^64. " +
		"second round: fee sets drawn among nil / all-zero / the exact default triple / partially zero, estimates among 0 / 300000 / neighbours, whole-fee-set perturbations, " +
		"an exhaustive sweep over ordered pairs of these special values decided by the effective-value AND the raw-classification reading; " +
		"delivered calls (relayable items): transaction input packed from the compass ABI JSON of the repository, accepted by the real VerifyAgainstTX, reproduced by the model and read back by the model decoder; " +
		"histories over plain and batched queues (BatchQueue.Put / ProcessBatches, staging counter seeded too, sometimes > 100 staged messages); " +
		"late replaces (after remove, through the queue of another chain) must be refused. " +
		"fourth round: in id histories over >= 3 queues the last queue keeps its items in a store of its own (QueueOptions.Sg); " +
		"skyway batch life cycles on the real skyway/evm keepers (build with estimate 0 / estimate election / compass handover through ActivateChainReferenceID and its event / more builds), " +
		"after every op BatchRequestByNonce, LastPendingBatchRequestByAddr, OutgoingTxBatches, LastPendingBatchForGasEstimation and the store must hand out, for every batch, the checkpoint of that batch under the chain's current compass id. " +
		"third round: id histories also remove a chain's queue (Keeper.RemoveConsensusQueue) and go on enqueueing on the others; " +
		"sign histories (put / in-place replace with another payload, fees, relayer or action / relayer reassignment / estimate election / remove) on one keeper, " +
		"after every op QueuedMessagesForSigning, MessagesInQueue and MessageByID must serve for every message the signing bytes of the message as stored now. non-trivial = sign case with a non-empty dynamic part; id history with >=2 allocations, " +
		">=1 replace/remove that succeeded and >=1 rejected op")

	// corpus first
	corpus, _ := filepath.Glob("../corpus/C05/*.json")
	sort.Strings(corpus)
	for _, f := range corpus {
		b, err := os.ReadFile(f)
		if err != nil {
			t.Fatal(err)
		}
		var rec struct {
			Kind  string `json:"kind"`
			A     *item  `json:"a"`
			B     *item  `json:"b"`
			NQ     int             `json:"nq"`
			Start  uint64          `json:"start"`
			BStart uint64          `json:"bstart"`
			Ops    json.RawMessage `json:"ops"`
		}
		if err := json.Unmarshal(b, &rec); err != nil {
			t.Fatalf("%s: %v", f, err)
		}
		run.Count("corpus", rec.Kind)
		switch rec.Kind {
		case "sign":
			if rec.A != nil {
				signCase(t, run, r, *rec.A, true)
			}
			if rec.A != nil && rec.B != nil {
				// the recorded pair itself
				x, e1 := rec.A.realSignBytes()
				y, e2 := rec.B.realSignBytes()
				if e1 == nil && e2 == nil && bytes.Equal(x, y) {
					var changed []string
					for _, fl := range fieldsOf(rec.A.Kind) {
						if rec.A.eff(fl) != rec.B.eff(fl) {
							changed = append(changed, fl)
						}
					}
					if len(changed) > 0 {
						run.Violate("C05:signbytes-blind:"+rec.A.Kind+":"+strings.Join(changed, "+"),
							fmt.Sprintf("corpus %s: items differing in %v have the same signing bytes", filepath.Base(f), changed),
							map[string]any{"kind": "sign", "a": rec.A, "b": rec.B, "changed": changed})
					}
				}
			}
		case "ids":
			var ops []idOp
			if err := json.Unmarshal(rec.Ops, &ops); err != nil {
				t.Fatalf("%s: %v", f, err)
			}
			runIDs(t, run, r, ops, rec.Start, rec.NQ)
		case "batchlife":
			var ops []blOp
			if err := json.Unmarshal(rec.Ops, &ops); err != nil {
				t.Fatalf("%s: %v", f, err)
			}
			runBatchLife(t, run, r, ops)
		case "signhist":
			var ops []sOp
			if err := json.Unmarshal(rec.Ops, &ops); err != nil {
				t.Fatalf("%s: %v", f, err)
			}
			runSignHistory(t, run, r, ops, rec.NQ)
		case "idsb":
			var ops []bOp
			if err := json.Unmarshal(rec.Ops, &ops); err != nil {
				t.Fatalf("%s: %v", f, err)
			}
			runIDsBatched(t, run, r, ops, rec.Start, rec.BStart, rec.NQ)
		}
	}

	// second round: the pairs that are / are not indistinguishable by design, the relay gate, late replaces
	pairSweep(t, run, r)
	relayGate(t, run, r)
	lifetimeSequences(t, run, r)

	nIDs := run.N / 4
	nDeliver := run.N / 10
	nIDsB := run.N / 15
	nSign := run.N - nIDs - nDeliver - nIDsB
	for i := 0; i < nSign; i++ {
		kind := kinds[i%len(kinds)]
		signCase(t, run, r, drawItem(r, kind), false)
	}
	// through a real keeper queue: the id is the one the keeper allocated, the stored message went through protobuf
	qenv := newIDEnv(t, 1)
	for i := 0; i < run.N/20; i++ {
		it := drawItem(r, kinds[i%5])
		it.Est = 0
		id, stored := queuedSignBytes(t, qenv, it)
		it.ID = id
		signCaseWith(t, run, r, it, false, stored)
	}
	// hostile: fee payer longer than 32 bytes must not yield signing bytes at all
	for i := 0; i < 10; i++ {
		it := drawItem(r, []string{"logic", "deploy"}[i%2])
		it.Sender = randBytes(r, 33+r.Intn(10))
		if b, err := it.realSignBytes(); err == nil {
			run.Violate("C05:oversized-fee-payer-signed", fmt.Sprintf("fee payer of %d bytes produced signing bytes %x", len(it.Sender), b),
				map[string]any{"kind": "sign", "a": it})
		} else {
			run.Count("hostile", "oversized-fee-payer-rejected")
		}
	}
	for i := 0; i < nIDs; i++ {
		runIDs(t, run, r, nil, 0, 0)
	}
	// the delivered call: real VerifyAgainstTX + the compass ABI JSON vs the model's delivered_calldata / decoder
	dk := []string{"logic", "deploy", "handover", "valset", "batch"}
	for i := 0; i < nDeliver; i++ {
		it := drawItem(r, dk[i%len(dk)])
		makeRelayable(r, &it)
		deliverCase(t, run, r, it)
	}
	// what the chain asks validators to sign, along histories with in-place changes
	for i := 0; i < run.N/12; i++ {
		runSignHistory(t, run, r, nil, 0)
	}
	// the life cycle of a skyway batch's bytes to sign on the real skyway keeper
	for i := 0; i < run.N/25; i++ {
		runBatchLife(t, run, r, nil)
	}
	// histories over batched queues
	for i := 0; i < nIDsB; i++ {
		runIDsBatched(t, run, r, nil, 0, 0, 0)
	}
	if err := run.Finish("Base.Abi Evm.SignFields Evm.SignBytes Evm.MsgIds Evm.MsgIdsBatch Corr.C05", "C05.case", "C05.check"); err != nil {
		t.Fatal(err)
	}
}
