package c05

// Second round (deepen): the indistinguishable-pair sweep (fees / estimates), the delivered call through the real
// VerifyAgainstTX and the compass ABI JSON, id histories over BATCHED queues (BatchQueue.Put / ProcessBatches), and
// the targeted lifetime sequences (replace after remove, replace through another queue).

import (
	"bytes"
	"encoding/binary"
	"fmt"
	"math/big"
	"math/rand"
	"os"
	"path/filepath"
	"sort"
	"strings"
	"testing"

	"github.com/ethereum/go-ethereum/accounts/abi"
	"github.com/ethereum/go-ethereum/common"
	ethtypes "github.com/ethereum/go-ethereum/core/types"
	"github.com/palomachain/paloma/v2/verifharness/emit"
	"github.com/palomachain/paloma/v2/x/consensus/keeper/consensus"
	"github.com/palomachain/paloma/v2/x/consensus/keeper/filters"
	"github.com/palomachain/paloma/v2/x/consensus/types"
	evmtypes "github.com/palomachain/paloma/v2/x/evm/types"
)

// ---- special values whose pairs are (or are not) indistinguishable by design ---------------------

const defFee = 100000

func feeSpecials(r *rand.Rand) []*[3]uint64 {
	x := emit.U64(r) | 1
	return []*[3]uint64{
		nil,
		{0, 0, 0},
		{defFee, defFee, defFee},
		{0, defFee, defFee},
		{defFee, 0, defFee},
		{defFee, defFee, 0},
		{defFee, 0, 0},
		{0, 0, defFee},
		{x, 0, 0},
		{1, 1, 1},
	}
}

var estSpecials = []uint64{0, 1, 299999, 300000, 300001, 1 << 63, ^uint64(0)}

func feesStr(f *[3]uint64) string {
	if f == nil {
		return "nil"
	}
	return fmt.Sprintf("{%d,%d,%d}", f[0], f[1], f[2])
}

// allowedSameBytes: the RAW reading of the property (Properties/C05.v
// indistinguishable_raw_values_are_the_documented_defaults): two items with the same signing bytes may differ, raw,
// only in estimate 0 <-> default and fees nil <-> default fees.
func allowedSameBytes(a, b item) (bool, string) {
	for _, f := range fieldsOf(a.Kind) {
		switch f {
		case "estimate":
			if a.Est != b.Est && !((a.Est == 0 && b.Est == 300000) || (a.Est == 300000 && b.Est == 0)) {
				return false, "estimate"
			}
		case "fee0":
			same := (a.Fees == nil && b.Fees == nil) || (a.Fees != nil && b.Fees != nil && *a.Fees == *b.Fees)
			def := [3]uint64{defFee, defFee, defFee}
			swap := (a.Fees == nil && b.Fees != nil && *b.Fees == def) || (b.Fees == nil && a.Fees != nil && *a.Fees == def)
			if !same && !swap {
				return false, "fees"
			}
		case "fee1", "fee2":
		default:
			if a.eff(f) != b.eff(f) {
				return false, f
			}
		}
	}
	return true, ""
}

// comparePair runs the real code on both items and applies the oracle (both readings).
func comparePair(t *testing.T, run *emit.Run, a, b item, tag string) {
	x, e1 := a.realSignBytes()
	y, e2 := b.realSignBytes()
	if e1 != nil || e2 != nil {
		t.Fatalf("%s: real sign bytes failed: %v %v", tag, e1, e2)
	}
	var changed []string
	for _, f := range fieldsOf(a.Kind) {
		if a.eff(f) != b.eff(f) {
			changed = append(changed, f)
		}
	}
	allowed, why := allowedSameBytes(a, b)
	if allowed != (len(changed) == 0) {
		t.Fatalf("%s: the effective-value and the raw-classification readings disagree (%v / %v %s) on\n%+v\n%+v", tag, changed, allowed, why, a, b)
	}
	same := bytes.Equal(x, y)
	switch {
	case same && len(changed) > 0:
		sort.Strings(changed)
		run.Violate("C05:signbytes-blind:"+a.Kind+":"+strings.Join(changed, "+"),
			fmt.Sprintf("%s (%s): two items differing in delivered value(s) %v have the same signing bytes %x", a.Kind, tag, changed, x),
			map[string]any{"kind": "sign", "a": a, "b": b, "changed": changed})
	case same:
		run.Count("pair", tag+":same-bytes-by-design")
	case len(changed) == 0:
		// same effective values but other bytes: not a C05 violation, but the model says it cannot happen
		run.Violate("C05:signbytes-differ-on-equal-values:"+a.Kind,
			fmt.Sprintf("%s (%s): equal effective values, different signing bytes", a.Kind, tag),
			map[string]any{"kind": "sign", "a": a, "b": b})
	default:
		run.Count("pair", tag+":distinguished")
	}
}

// pairSweep: every ordered pair of special fee sets (nil, all-zero, the exact default triple, partially zero, ...)
// on logic calls / deployments, every ordered pair of special estimates on the kinds that sign it.
func pairSweep(t *testing.T, run *emit.Run, r *rand.Rand) {
	for _, kind := range []string{"logic", "deploy"} {
		base := drawItem(r, kind)
		fs := feeSpecials(r)
		for i := range fs {
			for j := range fs {
				if i == j {
					continue
				}
				a, b := base.clone(), base.clone()
				a.Fees, b.Fees = fs[i], fs[j]
				comparePair(t, run, a, b, "fees:"+feesStr(fs[i])+"/"+feesStr(fs[j]))
			}
		}
	}
	for _, kind := range []string{"valset", "handover", "batch"} {
		base := drawItem(r, kind)
		for _, e1 := range estSpecials {
			for _, e2 := range estSpecials {
				if e1 == e2 {
					continue
				}
				a, b := base.clone(), base.clone()
				a.Est, b.Est = e1, e2
				comparePair(t, run, a, b, fmt.Sprintf("estimate:%d/%d", e1, e2))
			}
		}
	}
	// nil vs empty: the same effective value, must be the same bytes
	for _, kind := range []string{"logic", "deploy", "upload"} {
		a := drawItem(r, kind)
		a.Payload = nil
		b := a.clone()
		b.Payload = []byte{}
		if kind != "upload" {
			a.Sender, b.Sender = nil, []byte{}
		}
		comparePair(t, run, a, b, "nil-vs-empty")
	}
}

// ---- the delivered call ----------------------------------------------------------------------------

var compassABI *abi.ABI
var compassJSON string

func loadCompassABI(t *testing.T) {
	if compassABI != nil {
		return
	}
	repo := os.Getenv("VERIF_REPO")
	if repo == "" {
		repo = "/repo"
	}
	b, err := os.ReadFile(filepath.Join(repo, "x/evm/keeper/testdata/sample-abi.json"))
	if err != nil {
		t.Fatal(err)
	}
	a, err := abi.JSON(bytes.NewReader(b))
	if err != nil {
		t.Fatal(err)
	}
	compassABI, compassJSON = &a, string(b)
}

type sigT struct{ V, R, S *big.Int }
type cvalsetT struct {
	Validators []common.Address
	Powers     []*big.Int
	ValsetId   *big.Int
}
type consT struct {
	Valset     cvalsetT
	Signatures []sigT
}
type batchArgsT struct {
	Receiver []common.Address
	Amount   []*big.Int
}
type callArgT struct {
	LogicContractAddress common.Address
	Payload              []byte
}

func cWord(z *big.Int) string { return "VWord " + emit.Z(z) }
func cAddrW(a common.Address) string {
	return "VWord " + emit.Z(new(big.Int).SetBytes(a.Bytes()))
}

// deliverCase: builds the transaction input for delivering [it] independently (go-ethereum packer + the compass ABI
// JSON of the repository + the item's RAW values), has the real VerifyAgainstTX accept it, and emits it for the
// model's delivered_calldata / decoder.
func deliverCase(t *testing.T, run *emit.Run, r *rand.Rand, it item) {
	loadCompassABI(t)
	// the current valset and the signatures collected so far
	nv := 1 + r.Intn(3)
	var cur evmtypes.Valset
	cur.ValsetID = emit.U64(r)
	var cons consT
	cons.Valset.ValsetId = wordOfInt64(int64(cur.ValsetID))
	var signData []*types.SignData
	for i := 0; i < nv; i++ {
		addr := common.BytesToAddress(randBytes(r, 20))
		cur.Validators = append(cur.Validators, addr.Hex())
		p := emit.U64(r)
		cur.Powers = append(cur.Powers, p)
		cons.Valset.Validators = append(cons.Valset.Validators, addr)
		cons.Valset.Powers = append(cons.Valset.Powers, wordOfInt64(int64(p)))
		if i == 0 || r.Intn(3) > 0 {
			sig := randBytes(r, 65)
			sig[64] = byte(r.Intn(2))
			signData = append(signData, &types.SignData{ExternalAccountAddress: addr.Hex(), Signature: sig})
			cons.Signatures = append(cons.Signatures, sigT{big.NewInt(int64(sig[64]) + 27), new(big.Int).SetBytes(sig[:32]), new(big.Int).SetBytes(sig[32:64])})
		} else {
			cons.Signatures = append(cons.Signatures, sigT{big.NewInt(0), big.NewInt(0), big.NewInt(0)})
		}
	}
	relayer := common.HexToAddress(it.Relayer)
	est := new(big.Int).SetUint64(it.Est) // RAW: no default on the delivered side
	var fee feeT
	if it.Fees != nil {
		fee = feeT{new(big.Int).SetUint64(it.Fees[0]), new(big.Int).SetUint64(it.Fees[1]), new(big.Int).SetUint64(it.Fees[2]), left32(it.Sender)}
	}
	var input []byte
	var err error
	m := it.evmMessage()
	var verify func(tx *ethtypes.Transaction, q *types.QueuedSignedMessage) error
	ctx := newIDEnv(t, 1).ctx
	compass := &evmtypes.SmartContract{AbiJSON: compassJSON}
	switch it.Kind {
	case "logic":
		input, err = compassABI.Pack("submit_logic_call", cons, callArgT{common.HexToAddress(it.Contract), it.Payload}, fee,
			wordOfInt64(int64(it.ID)), wordOfInt64(it.Deadline), relayer)
		verify = func(tx *ethtypes.Transaction, q *types.QueuedSignedMessage) error {
			return m.GetSubmitLogicCall().VerifyAgainstTX(ctx, tx, q, &cur, compass, it.Relayer)
		}
	case "deploy":
		input, err = compassABI.Pack("deploy_contract", cons, common.HexToAddress(it.Contract), it.Payload, fee,
			wordOfInt64(int64(it.ID)), wordOfInt64(it.Deadline), relayer)
		verify = func(tx *ethtypes.Transaction, q *types.QueuedSignedMessage) error {
			return m.GetUploadUserSmartContract().VerifyAgainstTX(ctx, tx, q, &cur, compass, it.Relayer)
		}
	case "handover":
		cs := []callArgT{}
		for _, c := range it.Calls {
			cs = append(cs, callArgT{common.HexToAddress(c.Addr), c.Payload})
		}
		input, err = compassABI.Pack("compass_update_batch", cons, cs, wordOfInt64(it.Deadline), est, relayer)
		verify = func(tx *ethtypes.Transaction, q *types.QueuedSignedMessage) error {
			return m.GetCompassHandover().VerifyAgainstTX(ctx, tx, q, &cur, compass, it.Relayer)
		}
	case "valset":
		var nvs cvalsetT
		nvs.Validators, nvs.Powers = []common.Address{}, []*big.Int{}
		for _, v := range it.Validators {
			nvs.Validators = append(nvs.Validators, common.HexToAddress(v))
		}
		for _, p := range it.Powers {
			nvs.Powers = append(nvs.Powers, wordOfInt64(int64(p)))
		}
		nvs.ValsetId = wordOfInt64(int64(it.ValsetID))
		input, err = compassABI.Pack("update_valset", cons, nvs, relayer, est)
		verify = func(tx *ethtypes.Transaction, q *types.QueuedSignedMessage) error {
			return m.GetUpdateValset().VerifyAgainstTX(ctx, tx, q, &cur, compass, it.Relayer)
		}
	case "batch":
		ba := batchArgsT{[]common.Address{}, []*big.Int{}}
		for i, v := range it.Receivers {
			ba.Receiver = append(ba.Receiver, common.HexToAddress(v))
			ba.Amount = append(ba.Amount, it.Amounts[i])
		}
		input, err = compassABI.Pack("submit_batch", cons, common.HexToAddress(it.Contract), ba,
			wordOfInt64(int64(it.Nonce)), wordOfInt64(int64(it.Timeout)), relayer, est)
	}
	if err != nil {
		t.Fatalf("packing the delivered call failed: %v\n%+v", err, it)
	}
	if verify != nil {
		q := &types.QueuedSignedMessage{Id: it.ID, GasEstimate: it.Est, SignData: signData}
		verr := func() (e error) {
			defer func() {
				if p := recover(); p != nil {
					e = fmt.Errorf("panic: %v", p)
				}
			}()
			return verify(ethtypes.NewTx(&ethtypes.LegacyTx{Data: input}), q)
		}()
		if verr != nil {
			// the harness's reconstruction of the delivered call is off (or the source changed): a mismatching case
			run.Count("deliver", "not-accepted-by-VerifyAgainstTX")
			input = append([]byte{0xde, 0xad}, input...)
		} else {
			run.Count("deliver", it.Kind+":accepted")
		}
	} else {
		run.Count("deliver", it.Kind+":packed-from-abi-json")
	}
	// consensus as a Coq value
	var vs, ps, sg []string
	for i := range cons.Valset.Validators {
		vs = append(vs, cAddrW(cons.Valset.Validators[i]))
		ps = append(ps, cWord(cons.Valset.Powers[i]))
		s := cons.Signatures[i]
		sg = append(sg, fmt.Sprintf("VTuple [%s; %s; %s]", cWord(s.V), cWord(s.R), cWord(s.S)))
	}
	consCoq := fmt.Sprintf("(VTuple [VTuple [VArr %s; VArr %s; %s]; VArr %s])", emit.List(vs), emit.List(ps), cWord(cons.Valset.ValsetId), emit.List(sg))
	run.Count("kind", "deliver")
	run.Case(fmt.Sprintf("C05.CDeliver %s %s %s", it.coq(), consCoq, cBytes(input)), true,
		map[string]any{"kind": "deliver", "item": it})
}

// makeRelayable gives the item an elected estimate and fees (what the relay gate requires).
func makeRelayable(r *rand.Rand, it *item) {
	if it.Est == 0 {
		it.Est = 1 + emit.U64(r)>>1
	}
	if (it.Kind == "logic" || it.Kind == "deploy") && it.Fees == nil {
		fs := feeSpecials(r)
		it.Fees = fs[1+r.Intn(len(fs)-1)]
	}
}

// relayGate: the real filter keeps a message that requires estimation out of relaying until it has an estimate.
func relayGate(t *testing.T, run *emit.Run, r *rand.Rand) {
	for i := 0; i < 20; i++ {
		est := drawEstimate(r)
		req := r.Intn(4) > 0
		q := &types.QueuedSignedMessage{Id: 1, GasEstimate: est, FlagMask: types.BuildFlagMask(req)}
		got := filters.HasGasEstimate(q)
		if req && est == 0 && got {
			run.Violate("C05:relayed-without-estimate", "HasGasEstimate lets a message that requires estimation through with estimate 0",
				map[string]any{"kind": "gate", "estimate": est, "require": req})
		}
		if got != (!req || est > 0) {
			run.Violate("C05:relay-gate-changed", fmt.Sprintf("HasGasEstimate(require=%v, estimate=%d) = %v", req, est, got),
				map[string]any{"kind": "gate", "estimate": est, "require": req})
		}
		run.Count("gate", fmt.Sprintf("require=%v,estimate0=%v->%v", req, est == 0, got))
	}
}

// ---- ids over batched queues -----------------------------------------------------------------------

type bOp struct {
	Kind    string `json:"kind"` // put | remove | bput | process
	Q       int    `json:"q"`
	ID      uint64 `json:"id"`
	Content int64  `json:"content"`
}

func runIDsBatched(t *testing.T, run *emit.Run, r *rand.Rand, replay []bOp, rStart, rBStart uint64, rNQ int) {
	nq := 2 + r.Intn(3)
	var start, bstart uint64
	switch r.Intn(8) {
	case 0:
		start = emit.U64(r) >> 1
	case 1:
		start = ^uint64(0) - uint64(r.Intn(3))
	}
	switch r.Intn(8) {
	case 0:
		bstart = emit.U64(r) >> 1
	case 1:
		bstart = ^uint64(0) - uint64(r.Intn(3))
	case 2:
		bstart = start // the two counters numerically in step
	}
	if replay != nil {
		nq, start, bstart = rNQ, rStart, rBStart
	}
	// queue 1 (and sometimes 2) is a batch queue
	batched := map[int]bool{1: true}
	if nq > 2 && (replay != nil || r.Intn(2) == 0) {
		batched[2] = true
	}
	var bl []int
	for q := range batched {
		bl = append(bl, q)
	}
	sort.Ints(bl)
	e := newIDEnv(t, nq, bl...)
	put8 := func(key string, v uint64) {
		b := make([]byte, 8)
		binary.BigEndian.PutUint64(b, v)
		e.ctx.KVStore(e.key).Set([]byte(key), b)
	}
	if start != 0 {
		put8("generated-ids-consensus-queue-counter-", start)
	}
	if bstart != 0 {
		put8("generated-ids-consensus-batch-queue-counter-", bstart)
	}
	wraps := start > ^uint64(0)-400
	nops := 6 + r.Intn(20)
	big := replay == nil && r.Intn(10) == 0 // a staging area of more than one batch
	if replay != nil {
		nops = len(replay)
	}
	var hist []bOp
	var opsCoq []string
	allocated := map[uint64]bool{}
	removed := map[uint64]bool{}
	last := start
	nProc, nStaged := 0, 0
	viol := func(id, what string) {
		run.Violate(id, what, map[string]any{"kind": "idsb", "nq": nq, "start": start, "bstart": bstart, "ops": hist})
	}
	for j := 0; j < nops; j++ {
		var o bOp
		if replay != nil {
			o = replay[j]
		} else {
			o.Q = r.Intn(nq)
			o.Content = int64(r.Intn(1000))
			pick := func() uint64 {
				ids := e.queueIDs(t, r.Intn(nq))
				if len(ids) > 0 && r.Intn(4) > 0 {
					return ids[r.Intn(len(ids))]
				}
				return uint64(r.Intn(30)) + start
			}
			if batched[o.Q] {
				switch r.Intn(6) {
				case 0, 1, 2:
					o.Kind = "bput"
				case 3, 4:
					o.Kind = "process"
				default:
					o.Kind, o.ID = "remove", pick()
				}
			} else {
				switch r.Intn(6) {
				case 0, 1, 2:
					o.Kind = "put"
				case 3:
					o.Kind, o.ID = "put", pick()
				default:
					o.Kind, o.ID = "remove", pick()
				}
			}
		}
		reps := 1
		if big && o.Kind == "bput" && r.Intn(3) == 0 {
			reps = 95 + r.Intn(120)
		}
		for k := 0; k < reps; k++ {
			hist = append(hist, o)
			msg := &evmtypes.Message{TurnstoneID: fmt.Sprint(o.Content), ChainReferenceID: "x", Assignee: "val"}
			switch o.Kind {
			case "put":
				id, err := e.k.PutMessageInQueue(e.ctx, e.names[o.Q], msg, &consensus.PutOptions{RequireSignatures: true, MsgIDToReplace: o.ID})
				res := "RErr"
				if err == nil {
					res = "(RId " + emit.ZU(id) + ")"
					if o.ID == 0 {
						if !wraps && (allocated[id] || id <= last) {
							viol("C05:msg-id-reused", fmt.Sprintf("Put returned id %d after id %d (handed out before: %v)", id, last, allocated[id]))
						}
						allocated[id], last = true, id
					} else if id != o.ID {
						viol("C05:replace-changed-id", fmt.Sprintf("Put replacing %d returned id %d", o.ID, id))
					}
				}
				opsCoq = append(opsCoq, fmt.Sprintf("(BBase (OPut %d %s %d), BR %s)", o.Q, emit.ZU(o.ID), o.Content, res))
			case "remove":
				err := e.k.DeleteJob(e.ctx, e.names[o.Q], o.ID)
				res := "RErr"
				if err == nil {
					res = "ROk"
					removed[o.ID] = true
				}
				opsCoq = append(opsCoq, fmt.Sprintf("(BBase (ORemove %d %s), BR %s)", o.Q, emit.ZU(o.ID), res))
			case "bput":
				before := e.allIDs(t, nq)
				key, err := e.k.PutMessageInQueue(e.ctx, e.names[o.Q], msg, nil)
				if err != nil {
					t.Fatalf("BatchQueue.Put failed: %v", err)
				}
				nStaged++
				if after := e.allIDs(t, nq); fmt.Sprint(after) != fmt.Sprint(before) {
					viol("C05:staging-created-a-message", fmt.Sprintf("BatchQueue.Put changed the message queues: %v -> %v", before, after))
				}
				opsCoq = append(opsCoq, fmt.Sprintf("(BBatchPut %d %d, BStaged %s)", o.Q, o.Content, emit.ZU(key)))
			case "process":
				cq, err := e.k.VerifC07Queue(e.ctx, e.names[o.Q])
				if err != nil {
					t.Fatal(err)
				}
				bq, ok := cq.(consensus.QueueBatcher)
				if !ok {
					t.Fatalf("queue %d is not a batch queue", o.Q)
				}
				before := map[uint64]bool{}
				for _, id := range e.queueIDs(t, o.Q) {
					before[id] = true
				}
				perr := bq.ProcessBatches(e.ctx)
				var fresh []uint64
				for _, id := range e.queueIDs(t, o.Q) {
					if !before[id] {
						fresh = append(fresh, id)
					}
				}
				sort.Slice(fresh, func(a, b int) bool { return fresh[a] < fresh[b] })
				for _, id := range fresh {
					if !wraps && (allocated[id] || id <= last) {
						viol("C05:msg-id-reused", fmt.Sprintf("ProcessBatches gave a batch id %d after id %d (handed out before: %v)", id, last, allocated[id]))
					}
					allocated[id], last = true, id
				}
				if len(fresh) > 0 {
					nProc++
				}
				opsCoq = append(opsCoq, fmt.Sprintf("(BProcess %d, BProcessed %s %s)", o.Q, emit.U64List(fresh), emit.Bool(perr == nil)))
			}
			if !wraps {
				seen := map[uint64]int{}
				for q := 0; q < nq; q++ {
					for _, id := range e.queueIDs(t, q) {
						if p, ok := seen[id]; ok {
							viol("C05:msg-id-in-two-places", fmt.Sprintf("id %d is in queue %d and in queue %d", id, p, q))
						}
						seen[id] = q
						if !allocated[id] {
							viol("C05:msg-id-never-allocated", fmt.Sprintf("queue %d holds id %d which no Put / ProcessBatches handed out", q, id))
						}
						if removed[id] {
							viol("C05:msg-id-resurrected", fmt.Sprintf("queue %d holds id %d again after it was removed", q, id))
						}
					}
				}
			}
		}
	}
	var fin []string
	for q := 0; q < nq; q++ {
		fin = append(fin, emit.U64List(e.queueIDs(t, q)))
	}
	run.Count("kind", "idsb")
	run.Count("idsb_batched_queues", fmt.Sprint(len(batched)))
	if big {
		run.Count("idsb", "more-than-one-batch")
	}
	run.Case(fmt.Sprintf("C05.CIdsB %s %s %d %s %s", emit.ZU(start), emit.ZU(bstart), nq, emit.List(opsCoq), emit.List(fin)),
		nProc >= 1 && nStaged >= 2, map[string]any{"kind": "idsb", "nq": nq, "start": start, "bstart": bstart, "ops": hist})
}

func (e *idEnv) allIDs(t *testing.T, nq int) [][]uint64 {
	var out [][]uint64
	for q := 0; q < nq; q++ {
		out = append(out, e.queueIDs(t, q))
	}
	return out
}

// lifetimeSequences: the two situations a late replace can resurrect an id in -- after its removal, and through the
// queue of another chain -- plus a replace of an id nobody was ever given.  On every one the real Put must refuse.
func lifetimeSequences(t *testing.T, run *emit.Run, r *rand.Rand) {
	for i := 0; i < 12; i++ {
		nq := 2 + r.Intn(3)
		e := newIDEnv(t, nq)
		msg := func(c int) *evmtypes.Message {
			return &evmtypes.Message{TurnstoneID: fmt.Sprint(c), ChainReferenceID: "x", Assignee: "val"}
		}
		var ids []uint64
		var home []int
		n := 2 + r.Intn(5)
		for j := 0; j < n; j++ {
			q := r.Intn(nq)
			id, err := e.k.PutMessageInQueue(e.ctx, e.names[q], msg(j), nil)
			if err != nil {
				t.Fatal(err)
			}
			ids, home = append(ids, id), append(home, q)
		}
		v := r.Intn(n)
		replay := map[string]any{"kind": "lifetime", "nq": nq, "puts": home, "victim": ids[v]}
		var what string
		var q int
		switch i % 3 {
		case 0: // replace after remove, same queue
			if err := e.k.DeleteJob(e.ctx, e.names[home[v]], ids[v]); err != nil {
				t.Fatal(err)
			}
			q, what = home[v], "replace-after-remove"
		case 1: // replace through another queue while the id is live
			q, what = (home[v]+1+r.Intn(nq-1))%nq, "replace-through-other-queue"
		case 2: // replace after remove through another queue
			if err := e.k.DeleteJob(e.ctx, e.names[home[v]], ids[v]); err != nil {
				t.Fatal(err)
			}
			q, what = (home[v]+1+r.Intn(nq-1))%nq, "replace-after-remove-through-other-queue"
		}
		replay["how"], replay["through"] = what, q
		got, err := e.k.PutMessageInQueue(e.ctx, e.names[q], msg(99), &consensus.PutOptions{MsgIDToReplace: ids[v]})
		if err == nil {
			run.Violate("C05:late-replace-accepted:"+what, fmt.Sprintf("%s: Put(MsgIDToReplace=%d) through queue %d succeeded and returned %d", what, ids[v], q, got), replay)
		}
		cnt := 0
		for qq := 0; qq < nq; qq++ {
			for _, id := range e.queueIDs(t, qq) {
				if id == ids[v] {
					cnt++
				}
			}
		}
		want := 1
		if i%3 != 1 {
			want = 0
		}
		if cnt != want {
			run.Violate("C05:msg-id-resurrected", fmt.Sprintf("%s: id %d is in %d queue slots afterwards, expected %d", what, ids[v], cnt, want), replay)
		}
		run.Count("lifetime", what)
	}
}
