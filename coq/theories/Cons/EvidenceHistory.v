(** Histories of one queued request at keeper level: Keeper.AddMessageEvidence (validateEvidenceProof,
    then QueuedSignedMessage.AddEvidence) and the attestation run of the end-blocker
    (attestMessageWrapper: VerifyEvidence on the stored evidence under the snapshot of the moment;
    a winner => the request is removed and the winner's effect applied).  Definitions only. *)
From Coq Require Import String.
From Coq Require Import List NArith ZArith Bool Permutation.
From Paloma Require Import Cons.Quorum Cons.EvidenceBytes.
Import ListNotations.
Open Scope Z_scope.

(** QueuedSignedMessage.AddEvidence on (validator, proof) entries: replace in place, else append. *)
Fixpoint add_pev (l : list pev) (e : pev) : list pev :=
  match l with
  | [] => [e]
  | x :: r => if pe_val x =? pe_val e then {| pe_val := pe_val x; pe_proof := pe_proof e |} :: r
              else x :: add_pev r e
  end.

(** validateEvidenceProof: a proof is accepted iff it unpacks to a registered type and its bytes can be built. *)
Definition hashable (p : proof) : bool := match bytes_to_hash p with Some _ => true | None => false end.

Fixpoint lookup_pev (l : list pev) (v : val) : option proof :=
  match l with
  | [] => None
  | x :: r => if pe_val x =? v then Some (pe_proof x) else lookup_pev r v
  end.

Section History.
  Context {K : Type} (keqb : K -> K -> bool) (h : Z -> Z -> K).

  Inductive att_op :=
  | AoSubmit (e : pev)                                         (* MsgAddEvidence *)
  | AoProcess (sn : snapshot) (ord : list (@group K) -> list (@group K)).   (* CheckAndProcessAttestedMessages *)

  (** [as_evs]: the evidence stored on the request; [as_won]: the winner once the request was removed. *)
  Record att_state := { as_evs : list pev; as_won : option evidence }.

  Definition att_init : att_state := {| as_evs := []; as_won := None |}.

  Definition att_step (s : att_state) (o : att_op) : att_state :=
    match as_won s with
    | Some _ => s                      (* the request is gone: nothing can be added or attested *)
    | None =>
      match o with
      | AoSubmit e => if hashable (pe_proof e) then {| as_evs := add_pev (as_evs s) e; as_won := None |} else s
      | AoProcess sn ord =>
        match verify_evidence keqb (code_key h) ord sn (map ev_of (as_evs s)) with
        | Winner w => {| as_evs := as_evs s; as_won := Some w |}
        | _ => s
        end
      end
    end.

  (** the accepted submissions of a history, in order *)
  Definition accepted (ops : list att_op) : list pev :=
    flat_map (fun o => match o with AoSubmit e => if hashable (pe_proof e) then [e] else [] | _ => [] end) ops.

  (** The consensus module's end-blocker for one queued request added at height [added]: first the
      attestation run, THEN (every [prune_every]-th block) the pruning of requests older than [prune_age]
      blocks — a request that the run of this very block declares is not pruned. *)
  Definition prune_due (added h : Z) : bool :=
    (h mod G.prune_every =? 0) && (G.prune_age <? h - added).

  Record mod_state := { ms_att : att_state; ms_pruned : bool }.
  Definition mod_init : mod_state := {| ms_att := att_init; ms_pruned := false |}.

  Definition mod_submit (s : mod_state) (e : pev) : mod_state :=
    if ms_pruned s then s else {| ms_att := att_step (ms_att s) (AoSubmit e); ms_pruned := false |}.

  Definition end_block (added : Z) (s : mod_state) (sn : snapshot) (ord : list (@group K) -> list (@group K)) (h : Z) : mod_state :=
    if ms_pruned s then s
    else match as_won (ms_att s) with
         | Some _ => s
         | None =>
           let a := att_step (ms_att s) (AoProcess sn ord) in
           match as_won a with
           | Some _ => {| ms_att := a; ms_pruned := false |}
           | None => {| ms_att := a; ms_pruned := prune_due added h |}
           end
         end.

  Definition op_ok (o : att_op) : Prop :=
    match o with
    | AoSubmit e => wf_proof (pe_proof e)
    | AoProcess _ ord => forall gs, Permutation (ord gs) gs
    end.
End History.
