(** C06, second round — key identity up to the ENCODING of the registered Pubkey.

    The consensus queue keeps "one signature per key" by comparing the registered Pubkey blobs byte-wise
    (Queue.AddSignature), valset's collision check does the same (and compares the Address strings as written), but
    the EVM verifier (x/evm/keeper SupportedQueues: common.BytesToAddress(blob)) looks only at the LAST 20 BYTES of the
    blob.  Nothing validates the blob at registration (MsgAddExternalChainInfoForValidator.ValidateBasic checks the
    metadata only).  So two validators can register ONE EVM key under two blobs — at the same time, or after a hand-over —
    and both sign the same message with it: in the code's own terms ([se_key] = blob) the keys are distinct
    (theorem one_sig_per_validator_and_key holds, for every [verify]); in terms of the key that actually signs they
    are not.  Blob ids here: 1000 * (id of the EVM key) + encoding variant; [averify] is the ideal scheme composed
    with "take the last 20 bytes".  The witness below is replayed on the real keepers on every run
    (harness/c06 scriptedPubkeyAlias, corpus queue_pubkey_encoding_alias.json; known finding
    C06:queue-key-aliased-by-pubkey-encoding). *)
From Coq Require Import List ZArith Bool.
From Paloma Require Import Cons.Queue Cons.QueueProofs.
Import ListNotations.
Open Scope Z_scope.

Definition averify (b : sbytes) (sg : isig) (k : Z) : bool := iverify b sg (k / 1000).

Definition alias_item : item isig := ex_item 1 KSubmitLogicCall 55 0 None.

(** validator 0 registers EVM key 7 as blob 7000 (address string 11) and signs message 1; validator 1 registers the
    same EVM key as blob 7001 under another spelling of the address (string 12) — no collision — and signs too. *)
Definition alias_ops : list (op isig) :=
  [ OpRegister 0 [{| ac_chain := 1; ac_addr := 11; ac_key := 7000; ac_eth := 7 |}];
    OpPut 1 KSubmitLogicCall (it_body alias_item) 55 false;
    OpSign 0 1 1 11 (Some (7, sign_bytes alias_item));
    OpRegister 1 [{| ac_chain := 1; ac_addr := 12; ac_key := 7001; ac_eth := 7 |}];
    OpSign 1 1 1 12 (Some (7, sign_bytes alias_item)) ].

Lemma key_unique_up_to_encoding_refuted_witness :
  Forall live_op alias_ops /\
  exists it e1 e2, In it (st_items (run isig averify alias_ops)) /\ In e1 (it_sigs it) /\ In e2 (it_sigs it) /\
    se_val e1 <> se_val e2 /\ se_key e1 <> se_key e2 /\ se_key e1 / 1000 = se_key e2 / 1000 /\
    averify (sign_bytes it) (se_sig e1) (se_key e1) = true /\ averify (sign_bytes it) (se_sig e2) (se_key e2) = true.
Proof.
  split; [repeat constructor|]. vm_compute.
  do 3 eexists. split; [left; reflexivity|]. split; [left; reflexivity|]. split; [right; left; reflexivity|].
  repeat split; try reflexivity; discriminate.
Qed.
