(** GetMessagesForRelaying: soundness and completeness of the offer, over every queue the
    life-cycle can produce (ids strictly increasing in store order). *)
From Coq Require Import String List ZArith Bool Lia Sorting.Sorted.
From Paloma Require Import Base.Dec Cons.Fees Cons.FeesProofs Cons.Relay.
From Paloma Require Gen.C14.
Import ListNotations.
Open Scope Z_scope.

(** ---- tie to the source ---- *)
Example filter_order_is :
  Gen.C14.relay_filter_order =
  ["IsNotBlockedByValset"; "IsUnprocessed"; "IsOldestMsgPerSender"; "HasGasEstimate"; "IsAssignedTo"]%string.
Proof. reflexivity. Qed.
Example non_evm_exits_are : Gen.C14.relay_non_evm_exits = ["err != nil => true"; "!ok => true"]%string.
Proof. reflexivity. Qed.
Example pending_valset_action_is : Gen.C14.pending_valset_action = "*evmtypes.Message_UpdateValset"%string.
Proof. reflexivity. Qed.
Example filter_exprs_are :
  Gen.C14.filter_valset_expr = "msg.GetId() <= pendingValsetUpdates[0].GetId()"%string /\
  Gen.C14.filter_unprocessed_expr = "msg.GetPublicAccessData() == nil && msg.GetErrorData() == nil"%string /\
  Gen.C14.filter_estimate_expr = "msg.GetGasEstimate() > 0"%string /\
  Gen.C14.filter_assigned_expr = "msg.GetAssignee() == assignee"%string.
Proof. repeat split. Qed.
Example filter_sender_shape_is :
  Gen.C14.filter_sender_shape =
  ["slc := msg.GetSubmitLogicCall()"; "if slc == nil {return true;}";
   "if len(slc.GetSenderAddress()) < 1 {return true;}"; "sender := string(slc.GetSenderAddress())";
   "if _, fnd := lut[sender]; fnd {return false;}"; "lut[sender] = struct{}{}"; "return true"]%string.
Proof. reflexivity. Qed.
Example response_cap_is : response_cap = 1000. Proof. reflexivity. Qed.

(** The life-cycle below has no reassignment step: Keeper.ReassignOrphanedMessages (which would keep
    the previous assignee's fees) has no production caller.  The translator lists the callers. *)
Lemma reassign_not_reachable : Gen.C14.reassign_production_callers = [].
Proof. reflexivity. Qed.
(** ... and should it ever get one: it picks once per stale message, with that message's requirements
    (seeded C14-P picked once per queue). *)
Example reassign_loop_shape_is :
  Gen.C14.reassign_loop_shape =
  ["req := deriveMessageRequirements(evmmsg, k.cdc)";
   "newVal, newRemoteAddr, err := k.evmKeeper.PickValidatorForMessage(ctx, evmmsg.ChainReferenceID, req)"]%string.
Proof. reflexivity. Qed.

(** ---- store order ---- *)
Definition id_lt (a b : qmsg) : Prop := mid a < mid b.
Definition sorted (q : list qmsg) : Prop := StronglySorted id_lt q.

Lemma sorted_cons_inv x r : sorted (x :: r) -> sorted r /\ forall y, In y r -> mid x < mid y.
Proof.
  intros H. inversion H as [|? ? Hs Hf]; subst. split; auto.
  intros y Hy. rewrite Forall_forall in Hf. apply Hf; auto.
Qed.

Lemma existsb_eqb_in s l : existsb (Z.eqb s) l = true <-> In s l.
Proof.
  rewrite existsb_exists. split.
  - intros (x & Hx & E). apply Z.eqb_eq in E. now subst.
  - intros H. exists s. split; auto. apply Z.eqb_refl.
Qed.

Lemma existsb_eqb_notin s l : existsb (Z.eqb s) l = false <-> ~ In s l.
Proof.
  rewrite <- existsb_eqb_in. destruct (existsb (Z.eqb s) l); split; intros; try congruence; tauto.
Qed.

Definition passes_gate (vus : list qmsg) (m : qmsg) : bool := not_blocked_by_valset vus m && unprocessed m.

(** ---- the closure, message by message ---- *)
Lemma relay_filter_in vus v lut q m : In m (relay_filter vus v lut q) -> In m q.
Proof.
  revert lut; induction q as [|x r IH]; simpl; intros lut H; auto.
  destruct (mkind x) as [a|].
  - destruct (not_blocked_by_valset vus x && unprocessed x).
    + destruct (sender_of a) as [s|].
      * destruct (existsb (Z.eqb s) lut); [right; eauto|].
        destruct (has_gas_estimate x && assigned_to x v); [destruct H as [->|H]; [left; auto | right; eauto] | right; eauto].
      * destruct (has_gas_estimate x && assigned_to x v); [destruct H as [->|H]; [left; auto | right; eauto] | right; eauto].
    + right; eauto.
  - destruct H as [->|H]; [left; auto | right; eauto].
Qed.

Lemma relay_filter_local vus v lut q m a :
  In m (relay_filter vus v lut q) -> mkind m = KEvm a ->
  passes_gate vus m = true /\ has_gas_estimate m = true /\ assigned_to m v = true.
Proof.
  revert lut; induction q as [|x r IH]; simpl; intros lut H K; [tauto|].
  destruct (mkind x) as [ax|] eqn:Kx.
  - destruct (not_blocked_by_valset vus x && unprocessed x) eqn:G.
    + destruct (sender_of ax) as [s|].
      * destruct (existsb (Z.eqb s) lut); [eauto|].
        destruct (has_gas_estimate x && assigned_to x v) eqn:EA; [|eauto].
        destruct H as [->|H]; [|eauto].
        apply andb_true_iff in EA as [? ?]. unfold passes_gate. auto.
      * destruct (has_gas_estimate x && assigned_to x v) eqn:EA; [|eauto].
        destruct H as [->|H]; [|eauto].
        apply andb_true_iff in EA as [? ?]. unfold passes_gate. auto.
    + eauto.
  - destruct H as [->|H]; [congruence | eauto].
Qed.

(** The stateful filter: an offered message's sender was not in the table, and no earlier
    message of the same sender got through the gate. *)
Lemma relay_filter_sender vus v q : forall lut m a s,
  sorted q ->
  In m (relay_filter vus v lut q) -> mkind m = KEvm a -> sender_of a = Some s ->
  ~ In s lut /\
  forall m' a', In m' q -> mid m' < mid m -> mkind m' = KEvm a' -> sender_of a' = Some s ->
                passes_gate vus m' = true -> False.
Proof.
  induction q as [|x r IH]; simpl; intros lut m a s Hs H K S; [tauto|].
  apply sorted_cons_inv in Hs as [Hs Hgt].
  assert (Hm_r : forall l, In m (relay_filter vus v l r) -> mid x < mid m).
  { intros l Hl. apply Hgt. eapply relay_filter_in; eauto. }
  destruct (mkind x) as [ax|] eqn:Kx.
  - destruct (not_blocked_by_valset vus x && unprocessed x) eqn:G.
    + destruct (sender_of ax) as [sx|] eqn:Sx.
      * destruct (existsb (Z.eqb sx) lut) eqn:EL.
        -- (* x dropped, table unchanged *)
           destruct (IH lut m a s Hs H K S) as [Hn Hold]. split; auto.
           intros m' a' [<-|Hin] Hlt K' S' G'; [|eauto].
           rewrite Kx in K'. inversion K'; subst a'. rewrite Sx in S'. inversion S'; subst sx.
           apply existsb_eqb_in in EL. tauto.
        -- apply existsb_eqb_notin in EL.
           assert (Hcase : m = x \/ In m (relay_filter vus v (sx :: lut) r)).
           { destruct (has_gas_estimate x && assigned_to x v); [destruct H; auto | auto]. }
           destruct Hcase as [->|Hr].
           ++ rewrite Kx in K. inversion K; subst ax. rewrite Sx in S. inversion S; subst sx.
              split; auto. intros m' a' [<-|Hin] Hlt K' S' G'; [lia|]. specialize (Hgt _ Hin). lia.
           ++ destruct (IH (sx :: lut) m a s Hs Hr K S) as [Hn Hold]. split.
              ** intros Hc. apply Hn. right; auto.
              ** intros m' a' [<-|Hin] Hlt K' S' G'; [|eauto].
                 rewrite Kx in K'. inversion K'; subst a'. rewrite Sx in S'. inversion S'; subst sx.
                 apply Hn. left; auto.
      * assert (Hcase : m = x \/ In m (relay_filter vus v lut r)).
        { destruct (has_gas_estimate x && assigned_to x v); [destruct H; auto | auto]. }
        destruct Hcase as [->|Hr].
        -- rewrite Kx in K. inversion K; subst ax. congruence.
        -- destruct (IH lut m a s Hs Hr K S) as [Hn Hold]. split; auto.
           intros m' a' [<-|Hin] Hlt K' S' G'; [|eauto].
           rewrite Kx in K'. inversion K'; subst a'. congruence.
    + destruct (IH lut m a s Hs H K S) as [Hn Hold]. split; auto.
      intros m' a' [<-|Hin] Hlt K' S' G'; [|eauto].
      unfold passes_gate in G'. congruence.
  - destruct H as [->|Hr]; [congruence|].
    destruct (IH lut m a s Hs Hr K S) as [Hn Hold]. split; auto.
    intros m' a' [<-|Hin] Hlt K' S' G'; [congruence | eauto].
Qed.

(** the oldest pending valset update is the head of the filtered list *)
Lemma hd_filter_min (f : qmsg -> bool) q u rest :
  sorted q -> filter f q = u :: rest -> forall x, In x q -> f x = true -> mid u <= mid x.
Proof.
  induction q as [|y r IH]; simpl; intros Hs E x Hx Fx; [tauto|].
  apply sorted_cons_inv in Hs as [Hs Hgt].
  destruct (f y) eqn:Fy.
  - inversion E; subst. destruct Hx as [->|Hx]; [lia|]. specialize (Hgt _ Hx). lia.
  - destruct Hx as [->|Hx]; [congruence|]. eauto.
Qed.

Lemma not_blocked_all q m :
  sorted q -> not_blocked_by_valset (pending_valset_updates q) m = true ->
  forall u, In u q -> is_valset_update u = true -> mid m <= mid u.
Proof.
  unfold not_blocked_by_valset, pending_valset_updates. intros Hs H u Hu Fu.
  destruct (filter is_valset_update q) as [|u0 rest] eqn:E.
  - assert (H0 : In u (filter is_valset_update q)) by (apply filter_In; auto). rewrite E in H0. inversion H0.
  - apply Z.leb_le in H. pose proof (hd_filter_min _ _ _ _ Hs E u Hu Fu). lia.
Qed.

Lemma not_blocked_older vus m m' :
  not_blocked_by_valset vus m = true -> mid m' < mid m -> not_blocked_by_valset vus m' = true.
Proof.
  unfold not_blocked_by_valset. destruct vus as [|u ?]; auto.
  intros H Hlt. apply Z.leb_le in H. apply Z.leb_le. lia.
Qed.

Lemma firstn_in {A} n (l : list A) x : In x (firstn n l) -> In x l.
Proof.
  revert l; induction n as [|n IH]; simpl; intros l H; [tauto|].
  destruct l as [|y r]; simpl in *; [tauto|]. destruct H as [->|H]; auto.
Qed.

(** ---- relay_offer_sound on any id-sorted queue ---- *)
Lemma relay_offer_sound_sorted q v m a :
  sorted q -> In m (for_relaying q v) -> mkind m = KEvm a ->
  In m q /\
  massignee m = v /\
  (mreq m = true -> 0 < mest m) /\
  mpad m = false /\ merr m = false /\
  (forall u, In u q -> is_valset_update u = true -> mid m <= mid u) /\
  (forall s m' a', sender_of a = Some s -> In m' q -> mkind m' = KEvm a' -> sender_of a' = Some s ->
                   mid m' < mid m -> unprocessed m' = true -> False).
Proof.
  intros Hs H K. unfold for_relaying in H. apply firstn_in in H. unfold relay_candidates in H.
  pose proof (relay_filter_in _ _ _ _ _ H) as Hin.
  pose proof (relay_filter_local _ _ _ _ _ _ H K) as (G & He & Ha).
  unfold passes_gate in G. apply andb_true_iff in G as [Gv Gu].
  unfold unprocessed in Gu. apply andb_true_iff in Gu as [Gp Ge].
  apply negb_true_iff in Gp. apply negb_true_iff in Ge.
  repeat split; auto.
  - apply Z.eqb_eq. exact Ha.
  - intros R. unfold has_gas_estimate in He. rewrite R in He. apply Z.ltb_lt. exact He.
  - apply not_blocked_all; auto.
  - intros s m' a' S Hin' K' S' Hlt U'.
    destruct (relay_filter_sender _ _ _ _ _ _ _ Hs H K S) as [_ Hold].
    apply (Hold m' a' Hin' Hlt K' S').
    unfold passes_gate. rewrite U'. rewrite (not_blocked_older _ _ _ Gv Hlt). reflexivity.
Qed.

(** ---- completeness: nothing that meets the conditions is withheld ---- *)
Lemma relay_filter_complete vus v q : forall lut m a,
  sorted q -> In m q -> mkind m = KEvm a ->
  passes_gate vus m = true -> has_gas_estimate m = true -> assigned_to m v = true ->
  (forall s, sender_of a = Some s ->
     ~ In s lut /\
     forall m' a', In m' q -> mid m' < mid m -> mkind m' = KEvm a' -> sender_of a' = Some s ->
                   passes_gate vus m' = true -> False) ->
  In m (relay_filter vus v lut q).
Proof.
  induction q as [|x r IH]; simpl; intros lut m a Hs Hin K G He Ha Hsend; [tauto|].
  apply sorted_cons_inv in Hs as [Hs Hgt].
  destruct Hin as [->|Hin].
  - rewrite K. unfold passes_gate in G. rewrite G.
    destruct (sender_of a) as [s|] eqn:S.
    + destruct (Hsend s eq_refl) as [Hn _]. apply existsb_eqb_notin in Hn. rewrite Hn.
      rewrite He, Ha. simpl. auto.
    + rewrite He, Ha. simpl. auto.
  - assert (Hlt : mid x < mid m) by auto.
    assert (Hrest : forall lut',
              (forall s, sender_of a = Some s -> ~ In s lut') -> In m (relay_filter vus v lut' r)).
    { intros lut' Hl. apply (IH lut' m a Hs Hin K G He Ha).
      intros s S. split; [auto|]. destruct (Hsend s S) as [_ Hold].
      intros m' a' Hin' Hlt' K' S' G'. eapply Hold; eauto. }
    assert (Hlut : forall s, sender_of a = Some s -> ~ In s lut) by (intros s S; apply Hsend; auto).
    destruct (mkind x) as [ax|] eqn:Kx.
    + destruct (not_blocked_by_valset vus x && unprocessed x) eqn:Gx.
      * destruct (sender_of ax) as [sx|] eqn:Sx.
        -- destruct (existsb (Z.eqb sx) lut) eqn:EL; [auto|].
           assert (Hl' : forall s, sender_of a = Some s -> ~ In s (sx :: lut)).
           { intros s S [<-|Hc]; [|eapply Hlut; eauto].
             destruct (Hsend sx S) as [_ Hold]. eapply (Hold x ax); eauto. }
           destruct (has_gas_estimate x && assigned_to x v); [right|]; auto.
        -- destruct (has_gas_estimate x && assigned_to x v); [right|]; auto.
      * auto.
    + right. auto.
Qed.

Lemma relay_offer_complete_sorted q v m a :
  sorted q -> In m q -> mkind m = KEvm a ->
  massignee m = v -> (mreq m = true -> 0 < mest m) -> mpad m = false -> merr m = false ->
  (forall u, In u q -> is_valset_update u = true -> mid m <= mid u) ->
  (forall s m' a', sender_of a = Some s -> In m' q -> mkind m' = KEvm a' -> sender_of a' = Some s ->
                   mid m' < mid m -> unprocessed m' = true -> False) ->
  In m (relay_candidates q v) /\
  ((length (relay_candidates q v) <= Z.to_nat response_cap)%nat -> In m (for_relaying q v)).
Proof.
  intros Hs Hin K Ha He Hp Hr Hv Hsend.
  assert (Gv : not_blocked_by_valset (pending_valset_updates q) m = true).
  { unfold not_blocked_by_valset, pending_valset_updates.
    destruct (filter is_valset_update q) as [|u rest] eqn:E; auto.
    assert (Hu : In u (filter is_valset_update q)) by (rewrite E; left; auto).
    apply filter_In in Hu as [Hu Fu]. apply Z.leb_le. auto. }
  assert (Gu : unprocessed m = true) by (unfold unprocessed; rewrite Hp, Hr; reflexivity).
  assert (C : In m (relay_candidates q v)).
  { unfold relay_candidates. apply (relay_filter_complete _ _ _ [] m a); auto.
    - unfold passes_gate. rewrite Gv, Gu. reflexivity.
    - unfold has_gas_estimate. destruct (mreq m); auto. apply Z.ltb_lt. auto.
    - unfold assigned_to. apply Z.eqb_eq. auto.
    - intros s S. split; [simpl; tauto|].
      intros m' a' Hin' Hlt K' S' G'. unfold passes_gate in G'. apply andb_true_iff in G' as [_ U'].
      eapply Hsend; eauto. }
  split; auto. intros L. unfold for_relaying. rewrite firstn_all2; auto.
Qed.

(** non-EVM payloads are returned to every caller (there is nothing to assign them by) *)
Lemma foreign_offered vus v q : forall lut m, In m q -> mkind m = KForeign -> In m (relay_filter vus v lut q).
Proof.
  induction q as [|x r IH]; simpl; intros lut m Hin K; [tauto|].
  destruct Hin as [->|Hin].
  - rewrite K. left; auto.
  - destruct (mkind x) as [a|].
    + destruct (not_blocked_by_valset vus x && unprocessed x); auto.
      destruct (sender_of a); [destruct (existsb _ lut); auto|];
        destruct (has_gas_estimate x && assigned_to x v); try right; auto.
    + right; auto.
Qed.

(** ---- every reachable queue is id-sorted ---- *)
Definition wf (s : state) : Prop := sorted (queue s) /\ forall m, In m (queue s) -> mid m <= next_id s.

Lemma sorted_app_one q x : sorted q -> (forall y, In y q -> mid y < mid x) -> sorted (q ++ [x]).
Proof.
  induction q as [|y r IH]; simpl; intros Hs Hlt.
  - constructor; constructor.
  - apply sorted_cons_inv in Hs as [Hs Hgt]. constructor.
    + apply IH; auto.
    + apply Forall_forall. intros z Hz. apply in_app_or in Hz as [Hz|[<-|[]]]; unfold id_lt; auto.
Qed.

Lemma sorted_map_id (f : qmsg -> qmsg) q : (forall m, mid (f m) = mid m) -> sorted q -> sorted (map f q).
Proof.
  intros Hf. induction q as [|y r IH]; simpl; intros Hs; [constructor|].
  apply sorted_cons_inv in Hs as [Hs Hgt]. constructor; [apply IH; exact Hs|].
  apply Forall_forall. intros z Hz. apply in_map_iff in Hz as (z0 & <- & Hz0).
  unfold id_lt. rewrite !Hf. auto.
Qed.

Lemma sorted_filter (f : qmsg -> bool) q : sorted q -> sorted (filter f q).
Proof.
  induction q as [|y r IH]; simpl; intros Hs; [constructor|].
  apply sorted_cons_inv in Hs as [Hs Hgt]. destruct (f y); [|apply IH; exact Hs].
  constructor; [apply IH; exact Hs|]. apply Forall_forall. intros z Hz. apply filter_In in Hz as [Hz _].
  unfold id_lt. auto.
Qed.

Lemma in_map_id (f : qmsg -> qmsg) q m :
  (forall m, mid (f m) = mid m) -> In m (map f q) -> exists m0, In m0 q /\ mid m0 = mid m.
Proof. intros Hf H. apply in_map_iff in H as (m0 & <- & H0). exists m0. rewrite Hf. auto. Qed.

Lemma elect_id c m : mid (elect c m) = mid m.
Proof.
  unfold elect. destruct (negb (mreq m)); auto. destruct (mgas m); auto.
  destruct (0 <? mest m); auto. destruct (_ =? 0); auto.
  destruct (match mkind m with KForeign => true | _ => false end); auto.
  destruct (is_fee_payer (mkind m)); auto.
  destruct (fee_settings c (massignee m)) as [[[rf cf] sf]|]; auto.
  destruct (fees_for rf cf sf _); auto.
Qed.

Lemma step_wf c s o : wf s -> wf (step c s o).
Proof.
  intros [Hs Hb]. destruct o as [k a req pad|id g| |id|id|id]; simpl.
  - split; simpl.
    + apply sorted_app_one; auto. intros y Hy. simpl. specialize (Hb _ Hy). lia.
    + intros m Hm. apply in_app_or in Hm as [Hm|[<-|[]]]; simpl; [specialize (Hb _ Hm); lia | lia].
  - assert (Hf : forall m, mid ((fun m => if mid m =? id then
                 (fun m => if mreq m then match mgas m with None => set_gas g m | Some _ => m end else m) m else m) m) = mid m).
    { intros m. destruct (mid m =? id); auto. destruct (mreq m); auto. destruct (mgas m); auto. }
    split; simpl; unfold upd.
    + apply sorted_map_id; auto.
    + intros m Hm. apply in_map_id in Hm as (m0 & H0 & E); auto. rewrite <- E. auto.
  - split; simpl.
    + apply sorted_map_id; auto. apply elect_id.
    + intros m Hm. apply in_map_id in Hm as (m0 & H0 & E); [|apply elect_id]. rewrite <- E. auto.
  - assert (Hf : forall m, mid ((fun m => if mid m =? id then (fun m => if mpad m then m else set_pad m) m else m) m) = mid m).
    { intros m. destruct (mid m =? id); auto. destruct (mpad m); auto. }
    split; simpl; unfold upd.
    + apply sorted_map_id; auto.
    + intros m Hm. apply in_map_id in Hm as (m0 & H0 & E); auto. rewrite <- E. auto.
  - assert (Hf : forall m, mid ((fun m => if mid m =? id then (fun m => if merr m || mpad m then m else set_err m) m else m) m) = mid m).
    { intros m. destruct (mid m =? id); auto. destruct (merr m || mpad m); auto. }
    split; simpl; unfold upd.
    + apply sorted_map_id; auto.
    + intros m Hm. apply in_map_id in Hm as (m0 & H0 & E); auto. rewrite <- E. auto.
  - split; simpl.
    + apply sorted_filter; auto.
    + intros m Hm. apply filter_In in Hm as [Hm _]. auto.
Qed.

Lemma run_wf c ops : wf (run c ops).
Proof.
  unfold run. assert (H : wf init) by (split; simpl; [constructor | tauto]).
  revert H. generalize init. induction ops as [|o r IH]; simpl; intros s H; auto.
  apply IH. apply step_wf; auto.
Qed.

Lemma run_sorted c ops : sorted (queue (run c ops)).
Proof. apply run_wf. Qed.

(** ---- the fees a queued message carries were computed by [fees_for] from its elected estimate ---- *)
Definition fees_inv (c : config) (m : qmsg) : Prop :=
  match mfees m with
  | None => True
  | Some f => is_fee_payer (mkind m) = true /\
              exists rf, relayer_multiplier c (massignee m) = Some rf /\
                         fees_for rf (cfg_community c) (cfg_security c) (mest m) = Some f
  end.

Lemma elect_fees_inv c m : fees_inv c m -> fees_inv c (elect c m).
Proof.
  intros H. unfold elect. destruct (negb (mreq m)); auto. destruct (mgas m) as [g|]; auto.
  destruct (0 <? mest m) eqn:E0; auto. destruct (g =? 0) eqn:Eg; auto.
  destruct (match mkind m with KForeign => true | _ => false end); auto.
  destruct (is_fee_payer (mkind m)) eqn:FP.
  - unfold fee_settings. destruct (relayer_multiplier c (massignee m)) as [rf|] eqn:ER; auto.
    destruct ((rf =? 0) || (cfg_community c =? 0) || (cfg_security c =? 0)); auto.
    destruct (fees_for rf (cfg_community c) (cfg_security c) g) as [f|] eqn:EF; auto.
    unfold fees_inv. simpl. split; auto. exists rf. auto.
  - unfold fees_inv in *. simpl. destruct (mfees m) as [f|]; auto. destruct H as [H _]. congruence.
Qed.

Lemma upd_fees_inv c id (f : qmsg -> qmsg) q :
  (forall m, fees_inv c m -> fees_inv c (f m)) ->
  (forall m, In m q -> fees_inv c m) -> forall m, In m (upd id f q) -> fees_inv c m.
Proof.
  intros Hf Hq m Hm. unfold upd in Hm. apply in_map_iff in Hm as (m0 & <- & H0).
  destruct (mid m0 =? id); auto.
Qed.

Lemma step_fees_inv c s o :
  (forall m, In m (queue s) -> fees_inv c m) -> forall m, In m (queue (step c s o)) -> fees_inv c m.
Proof.
  intros H. destruct o as [k a req pad|id g| |id|id|id]; simpl.
  - intros m Hm. apply in_app_or in Hm as [Hm|[<-|[]]]; auto. unfold fees_inv; simpl; auto.
  - apply upd_fees_inv; auto. intros m Hm. destruct (mreq m); auto. destruct (mgas m); auto.
  - intros m Hm. apply in_map_iff in Hm as (m0 & <- & H0). apply elect_fees_inv; auto.
  - apply upd_fees_inv; auto. intros m Hm. destruct (mpad m); auto.
  - apply upd_fees_inv; auto. intros m Hm. destruct (merr m || mpad m); auto.
  - intros m Hm. apply filter_In in Hm as [Hm _]. auto.
Qed.

Lemma run_fees_inv c ops : forall m, In m (queue (run c ops)) -> fees_inv c m.
Proof.
  unfold run. assert (H : forall m, In m (queue init) -> fees_inv c m) by (simpl; tauto).
  revert H. generalize init. induction ops as [|o r IH]; simpl; intros s H; auto.
  apply IH. apply step_fees_inv; auto.
Qed.

(** ---- the statements over every history ---- *)
Lemma relay_offer_sound_run c ops v m a :
  let q := queue (run c ops) in
  In m (for_relaying q v) -> mkind m = KEvm a ->
  In m q /\
  massignee m = v /\
  (mreq m = true -> 0 < mest m) /\
  mpad m = false /\ merr m = false /\
  (forall u, In u q -> is_valset_update u = true -> mid m <= mid u) /\
  (forall s m' a', sender_of a = Some s -> In m' q -> mkind m' = KEvm a' -> sender_of a' = Some s ->
                   mid m' < mid m -> unprocessed m' = true -> False).
Proof. intros q. apply relay_offer_sound_sorted. apply run_sorted. Qed.

Lemma relay_offer_complete_run c ops v m a :
  let q := queue (run c ops) in
  In m q -> mkind m = KEvm a ->
  massignee m = v -> (mreq m = true -> 0 < mest m) -> mpad m = false -> merr m = false ->
  (forall u, In u q -> is_valset_update u = true -> mid m <= mid u) ->
  (forall s m' a', sender_of a = Some s -> In m' q -> mkind m' = KEvm a' -> sender_of a' = Some s ->
                   mid m' < mid m -> unprocessed m' = true -> False) ->
  In m (relay_candidates q v) /\
  ((length (relay_candidates q v) <= Z.to_nat response_cap)%nat -> In m (for_relaying q v)).
Proof. intros q. apply relay_offer_complete_sorted. apply run_sorted. Qed.

Lemma queued_fees_are_ceilings c ops m f :
  In m (queue (run c ops)) -> mfees m = Some f ->
  exists rf, relayer_multiplier c (massignee m) = Some rf /\
    Base.DecProofs.is_ceiling (rf * mest m) (fee_relayer f) /\
    Base.DecProofs.is_ceiling (cfg_community c * fee_relayer f) (fee_community f) /\
    Base.DecProofs.is_ceiling (cfg_security c * fee_relayer f) (fee_security f).
Proof.
  intros Hin Hf. pose proof (run_fees_inv c ops m Hin) as H. unfold fees_inv in H. rewrite Hf in H.
  destruct H as (_ & rf & Hr & HF). exists rf. split; auto.
  apply fees_for_ceilings in HF. tauto.
Qed.

(** ---- non-vacuity: a history in which every clause bites ---- *)
Definition ex_cfg : config :=
  {| cfg_relayer_fees := [(0, 1100000000000000000); (1, 2000000000000000000)];
     cfg_community := 30000000000000000; cfg_security := 10000000000000000 |}.
Definition ex_ops : list op :=
  [ OpPut (KEvm (ASubmitLogicCall (Some 7))) 0 true false;   (* 1: alice -> validator 0 *)
    OpPut (KEvm (ASubmitLogicCall (Some 7))) 0 true false;   (* 2: alice again *)
    OpPut (KEvm AUpdateValset) 1 false false;                (* 3: valset update -> validator 1 *)
    OpPut (KEvm (ASubmitLogicCall (Some 8))) 1 false false;  (* 4: bob, behind the valset update *)
    OpSubmit 1 21000; OpSubmit 2 50000; OpEndBlock ].
Example ex_offer_0 : map mid (for_relaying (queue (run ex_cfg ex_ops)) 0) = [1].
Proof. vm_compute. reflexivity. Qed.
Example ex_offer_1 : map mid (for_relaying (queue (run ex_cfg ex_ops)) 1) = [3].
Proof. vm_compute. reflexivity. Qed.
Example ex_fees_1 :
  map (fun m => (mid m, mest m, mfees m)) (firstn 1 (queue (run ex_cfg ex_ops)))
  = [(1, 21000, Some {| fee_relayer := 23100; fee_community := 693; fee_security := 231 |})].
Proof. vm_compute. reflexivity. Qed.
(** once message 1 is reported, alice's second message becomes relayable *)
Example ex_offer_after_report :
  map mid (for_relaying (queue (run ex_cfg (ex_ops ++ [OpPublicAccess 1]))) 0) = [2].
Proof. vm_compute. reflexivity. Qed.
(** before the election nothing that needs an estimate is offered *)
Example ex_offer_before_election :
  map mid (for_relaying (queue (run ex_cfg (firstn 6 ex_ops))) 0) = [].
Proof. vm_compute. reflexivity. Qed.
