(** The fees attached at election are exact ceilings. *)
From Coq Require Import String ZArith Lia List Bool.
From Paloma Require Import Base.Dec Base.DecProofs Cons.Fees.
From Paloma Require Gen.C14.
Import ListNotations.
Open Scope Z_scope.

(** Tie to the source: the three assignments of calculateFeesForEstimate, the body of mulCeilUint64
    and the submission-time validation, as the translator read them. *)
Example fee_formula_is :
  Gen.C14.fee_formula =
  [ "fees.RelayerFee = mulCeilUint64(multiplicators.RelayerFee, estimate)";
    "fees.CommunityFee = mulCeilUint64(multiplicators.CommunityFee, fees.RelayerFee)";
    "fees.SecurityFee = mulCeilUint64(multiplicators.SecurityFee, fees.RelayerFee)" ]%string.
Proof. reflexivity. Qed.
Example mul_ceil_shape_is :
  Gen.C14.mul_ceil_shape =
  [ "if d.IsNil() || d.IsNegative() => error";
    "product := new(big.Int).Mul(d.BigInt(), new(big.Int).SetUint64(n))";
    "quo, rem := new(big.Int).QuoRem(product, decPrecisionDivisor, new(big.Int))";
    "if rem.Sign() > 0 => quo.Add(quo, big.NewInt(1))";
    "if !quo.IsUint64() => error";
    "return quo.Uint64(), nil" ]%string.
Proof. reflexivity. Qed.
Example dec_precision_divisor_is :
  Gen.C14.dec_precision_divisor_expr = "new(big.Int).Exp(big.NewInt(10), big.NewInt(math.LegacyPrecision), nil)"%string.
Proof. reflexivity. Qed.
Example validate_multiplicator_is :
  Gen.C14.validate_multiplicator_rejects = ["m.IsNil() || !m.IsPositive()"; "m.GT(maxRelayerFeeMultiplicator)"]%string
  /\ max_multiplier = 1000000 * prec.
Proof. split; reflexivity. Qed.

(** the helper is the same ceiling as the SDK chain MulInt.Ceil.TruncateInt *)
Lemma mul_ceil_u64_as_ceil d n :
  mul_ceil_u64 d n = if d <? 0 then None else to_uint64 (truncate_int (ceil (d * n))).
Proof.
  unfold mul_ceil_u64, ceil. destruct (d <? 0); auto.
  cbv zeta. rewrite truncate_int_of_int. reflexivity.
Qed.

Lemma mul_ceil_u64_spec d n r :
  mul_ceil_u64 d n = Some r -> 0 <= d /\ is_ceiling (d * n) r /\ 0 <= r < 2 ^ 64.
Proof.
  rewrite mul_ceil_u64_as_ceil. destruct (d <? 0) eqn:N; try discriminate.
  apply Z.ltb_ge in N. intros E. apply to_uint64_some in E as [-> H].
  split; auto. split; [apply ceil_truncate | exact H].
Qed.

Lemma mul_ceil_u64_total d n :
  0 <= d -> 0 <= n -> d * n <= (2 ^ 64 - 1) * prec -> exists r, mul_ceil_u64 d n = Some r.
Proof.
  intros Hd Hn Hb. rewrite mul_ceil_u64_as_ceil.
  assert (d <? 0 = false) as -> by (apply Z.ltb_ge; lia).
  pose proof prec_pos as Hp.
  pose proof (ceil_truncate (d * n)) as Hc. unfold is_ceiling in Hc.
  set (c := truncate_int (ceil (d * n))) in *.
  assert (0 <= c) by nia. assert (c <= 2 ^ 64 - 1) by nia.
  unfold to_uint64.
  assert ((0 <=? c) && (c <? 18446744073709551616) = true) as ->.
  { apply andb_true_iff; split; [apply Z.leb_le | apply Z.ltb_lt]; lia. }
  eauto.
Qed.

Lemma fees_for_ceilings mult cf sf gas f :
  fees_for mult cf sf gas = Some f ->
  is_ceiling (mult * gas) (fee_relayer f) /\
  is_ceiling (cf * fee_relayer f) (fee_community f) /\
  is_ceiling (sf * fee_relayer f) (fee_security f) /\
  0 <= fee_relayer f < 2 ^ 64 /\ 0 <= fee_community f < 2 ^ 64 /\ 0 <= fee_security f < 2 ^ 64.
Proof.
  unfold fees_for.
  destruct (mul_ceil_u64 mult gas) as [r|] eqn:E1; try discriminate.
  destruct (mul_ceil_u64 cf r) as [c|] eqn:E2; try discriminate.
  destruct (mul_ceil_u64 sf r) as [s|] eqn:E3; try discriminate.
  intros E; inversion E; subst; cbn [fee_relayer fee_community fee_security].
  apply mul_ceil_u64_spec in E1 as (_ & A1 & B1).
  apply mul_ceil_u64_spec in E2 as (_ & A2 & B2).
  apply mul_ceil_u64_spec in E3 as (_ & A3 & B3).
  exact (conj A1 (conj A2 (conj A3 (conj B1 (conj B2 B3))))).
Qed.

(** an error is returned only for a negative factor or a ceiling that does not fit 64 bits *)
Lemma fees_for_total mult cf sf gas :
  0 <= mult -> 0 <= cf -> 0 <= sf -> 0 <= gas < 2 ^ 64 ->
  mult * gas <= (2 ^ 64 - 1) * prec ->
  cf * (2 ^ 64 - 1) <= (2 ^ 64 - 1) * prec -> sf * (2 ^ 64 - 1) <= (2 ^ 64 - 1) * prec ->
  exists f, fees_for mult cf sf gas = Some f.
Proof.
  intros Hm Hc Hs Hg B1 B2 B3. unfold fees_for.
  destruct (mul_ceil_u64_total mult gas Hm ltac:(lia) B1) as (r & E1). rewrite E1.
  apply mul_ceil_u64_spec in E1 as (_ & _ & Hr).
  destruct (mul_ceil_u64_total cf r Hc ltac:(lia) ltac:(nia)) as (c & E2). rewrite E2.
  destruct (mul_ceil_u64_total sf r Hs ltac:(lia) ltac:(nia)) as (s & E3). rewrite E3.
  eauto.
Qed.

(** a multiplicator accepted on submission can always be applied to estimates up to 2^64 / 10^6
    (about 1.8 * 10^13 gas), with fund rates of at most 100 % *)
Lemma valid_multiplier_fees_defined mult cf sf gas :
  valid_multiplier mult = true -> 0 <= cf <= prec -> 0 <= sf <= prec ->
  0 <= gas -> gas * 1000000 <= 2 ^ 64 - 1 ->
  exists f, fees_for mult cf sf gas = Some f.
Proof.
  unfold valid_multiplier. intros V Hc Hs Hg Hb. apply andb_true_iff in V as [V1 V2].
  apply Z.ltb_lt in V1. apply Z.leb_le in V2.
  assert (max_multiplier = 1000000 * prec) by reflexivity.
  pose proof prec_pos.
  apply fees_for_total; try lia; nia.
Qed.

(** non-vacuity: multiplier 1.1, community 3 %, security 1 %, 21000 gas *)
Example fees_example :
  fees_for 1100000000000000000 30000000000000000 10000000000000000 21000
  = Some {| fee_relayer := 23100; fee_community := 693; fee_security := 231 |}.
Proof. reflexivity. Qed.
Example fees_example_round_up :
  fees_for 1100000000000000001 30000000000000000 10000000000000000 21000
  = Some {| fee_relayer := 23101; fee_community := 694; fee_security := 232 |}.
Proof. reflexivity. Qed.
Example fees_example_negative_rejected : fees_for (-1) 1 1 21000 = None.
Proof. reflexivity. Qed.
Example fees_example_overflow_rejected :
  fees_for 2478466894628014227 1 1 7822711776622766954 = None.
Proof. reflexivity. Qed.
Example valid_multiplier_examples :
  valid_multiplier 0 = false /\ valid_multiplier (-5) = false /\ valid_multiplier 1 = true /\
  valid_multiplier (1000000 * prec) = true /\ valid_multiplier (1000000 * prec + 1) = false.
Proof. repeat split. Qed.
