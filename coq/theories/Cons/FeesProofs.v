(** The fees attached at election are exact ceilings. *)
From Coq Require Import ZArith Lia List String.
From Paloma Require Import Base.Dec Base.DecProofs Cons.Fees.
From Paloma Require Gen.C14.
Import ListNotations.
Open Scope Z_scope.

(** Tie to the source: the three assignments of calculateFeesForEstimate, as the translator read them. *)
Example fee_formula_is :
  Gen.C14.fee_formula =
  [ "fees.RelayerFee = multiplicators.RelayerFee.MulInt.Ceil.TruncateInt.Uint64 @ math.NewIntFromUint64(estimate)";
    "fees.CommunityFee = multiplicators.CommunityFee.MulInt.Ceil.TruncateInt.Uint64 @ math.NewIntFromUint64(fees.RelayerFee)";
    "fees.SecurityFee = multiplicators.SecurityFee.MulInt.Ceil.TruncateInt.Uint64 @ math.NewIntFromUint64(fees.RelayerFee)" ]%string.
Proof. reflexivity. Qed.

Lemma fees_for_ceilings mult cf sf gas f :
  fees_for mult cf sf gas = Some f ->
  is_ceiling (mult * gas) (fee_relayer f) /\
  is_ceiling (cf * fee_relayer f) (fee_community f) /\
  is_ceiling (sf * fee_relayer f) (fee_security f) /\
  0 <= fee_relayer f < 2 ^ 64 /\ 0 <= fee_community f < 2 ^ 64 /\ 0 <= fee_security f < 2 ^ 64.
Proof.
  unfold fees_for.
  destruct (mul_int_ceil_u64 mult gas) as [r|] eqn:E1; try discriminate.
  destruct (mul_int_ceil_u64 cf r) as [c|] eqn:E2; try discriminate.
  destruct (mul_int_ceil_u64 sf r) as [s|] eqn:E3; try discriminate.
  intros E; inversion E; subst; cbn [fee_relayer fee_community fee_security].
  apply mul_int_ceil_u64_spec in E1 as [A1 B1].
  apply mul_int_ceil_u64_spec in E2 as [A2 B2].
  apply mul_int_ceil_u64_spec in E3 as [A3 B3].
  exact (conj A1 (conj A2 (conj A3 (conj B1 (conj B2 B3))))).
Qed.

(** ... and they exist (no panic) for every sane setting: non-negative multipliers whose products
    stay below 2^64. *)
Lemma fees_for_total mult cf sf gas :
  0 <= mult -> 0 <= cf -> 0 <= sf -> 0 <= gas < 2 ^ 64 ->
  mult * gas <= (2 ^ 64 - 1) * prec ->
  cf * (2 ^ 64 - 1) <= (2 ^ 64 - 1) * prec -> sf * (2 ^ 64 - 1) <= (2 ^ 64 - 1) * prec ->
  exists f, fees_for mult cf sf gas = Some f.
Proof.
  intros Hm Hc Hs Hg B1 B2 B3. unfold fees_for.
  destruct (mul_int_ceil_u64_total mult gas Hm Hg B1) as (r & E1). rewrite E1.
  apply mul_int_ceil_u64_spec in E1 as [_ Hr].
  destruct (mul_int_ceil_u64_total cf r Hc Hr ltac:(nia)) as (c & E2). rewrite E2.
  destruct (mul_int_ceil_u64_total sf r Hs Hr ltac:(nia)) as (s & E3). rewrite E3.
  eauto.
Qed.

(** non-vacuity: multiplier 1.1, community 3 %, security 1 %, 21000 gas *)
Example fees_example :
  fees_for 1100000000000000000 30000000000000000 10000000000000000 21000
  = Some {| fee_relayer := 23100; fee_community := 693; fee_security := 231 |}.
Proof. reflexivity. Qed.
Example fees_example_round_up :
  fees_for 1100000000000000001 30000000000000000 10000000000000000 21000
  = Some {| fee_relayer := 23101; fee_community := 694; fee_security := 232 |}.
Proof. reflexivity. Qed.
