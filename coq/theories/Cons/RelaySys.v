(** The turnstone queue of one chain together with the tables the relayer pick reads, over
    histories in which the tables change while messages wait.  Every message enters the queue
    through one of the enqueueing callers of the evm keeper (all of them pick first):

      QLogicCall      AddSmartContractExecutionToConsensus        requirements = {EnforceMEVRelay}
      QUserUpload     AddUploadUserSmartContractToConsensus       nil requirements
      QCompassUpload  AddUploadSmartContractToConsensus           nil requirements, nil PutOptions
      QHandover       scheduleCompassHandover                     nil requirements
      QValset         msgSender.SendValsetMsgForChain behind PublishValsetToChain /
                      justInTimeValsetUpdate (pick in the caller, before the send)

    and leaves it by removal; a SmartContractExecutionErrorProof that reaches consensus removes the
    message and, for the first three kinds while Retries < 2, re-enters the SAME caller (fresh pick
    on the tables of that moment, Fees cleared, Retries + 1).  Reference-block, validator-balances
    and collect-funds requests go to queues of their own and carry no assignee (Gen.C14.enqueue_sites).
    Definitions only. *)
From Coq Require Import List ZArith Bool.
From Paloma Require Import Base.Dec Evm.Assign Evm.AssignOv Cons.Fees Cons.Relay.
From Paloma Require Gen.C14.
Import ListNotations.
Open Scope Z_scope.

Record tables := {
  tb_snap : snapshot;            (* Valset.GetCurrentSnapshot *)
  tb_metrics : list metric;      (* metrix Validators *)
  tb_fees : list (Z * Z);        (* treasury GetRelayerFeesByChainReferenceID(chain), association list of the Go map *)
  tb_weights : weights;          (* chainInfo.RelayWeights *)
  tb_community : Z;              (* treasury community fund fee, raw dec *)
  tb_security : Z;
  tb_turnstone : Z               (* chainInfo.SmartContractUniqueID, 0 = empty *)
}.

(** GetCombinedFeesForRelay reads the same relayer-fee record the pick read through the map. *)
Definition cfg_of (t : tables) : config :=
  {| cfg_relayer_fees := rev (tb_fees t); cfg_community := tb_community t; cfg_security := tb_security t |}.

Inductive req_kind :=
| QLogicCall (sender : option Z) (mev : bool)
| QUserUpload
| QCompassUpload
| QHandover
| QValset (vid : Z).

Definition req_flag (k : req_kind) : option bool :=
  match k with QLogicCall _ mev => Some mev | _ => None end.
Definition kind_of (k : req_kind) : kind :=
  KEvm (match k with
        | QLogicCall s _ => ASubmitLogicCall s
        | QUserUpload => AUploadUserContract
        | QValset _ => AUpdateValset
        | QCompassUpload | QHandover => AOther
        end).
Definition needs_estimate (k : req_kind) : bool :=
  match k with QCompassUpload => false | _ => true end.
Definition retryable (k : req_kind) : bool :=
  match k with QLogicCall _ _ | QUserUpload | QCompassUpload => true | _ => false end.

Definition max_retries : Z := Gen.C14.max_message_retries.

(** what the enqueueing caller wrote next to the assignee *)
Record meta := { me_kind : req_kind; me_retries : Z; me_turn : Z; me_remote : Z }.

Record sys := { sy_tables : tables; sy_q : state; sy_meta : list (Z * meta) }.

Definition meta_of (s : sys) (id : Z) : option meta :=
  option_map snd (find (fun p => fst p =? id) (sy_meta s)).

Definition with_q (s : sys) (q : state) : sys :=
  {| sy_tables := sy_tables s; sy_q := q; sy_meta := sy_meta s |}.

Definition qstep (s : sys) (o : op) : sys := with_q s (step (cfg_of (sy_tables s)) (sy_q s) o).

Definition put_assigned (k : req_kind) (retries turn v remote : Z) (s : sys) : sys :=
  let q' := step (cfg_of (sy_tables s)) (sy_q s) (OpPut (kind_of k) v (needs_estimate k) false) in
  {| sy_tables := sy_tables s; sy_q := q';
     sy_meta := (next_id q', {| me_kind := k; me_retries := retries; me_turn := turn; me_remote := remote |})
                :: sy_meta s |}.

(** SendValsetMsgForChain walks the queue as read before the loop: a message of another turnstone
    id ends the call (nothing is put, deletions made so far stay); an UpdateValset with the same
    valset id ends it too; any other UpdateValset is deleted. *)
Fixpoint valset_scan (cur vid : Z) (mf : Z -> option meta) (q : list qmsg) (del : list Z) : list Z * bool :=
  match q with
  | [] => (del, true)
  | m :: r =>
    match mf (mid m) with
    | None => (del, false)
    | Some me =>
      if negb (me_turn me =? cur) then (del, false)
      else match me_kind me with
           | QValset v' => if v' =? vid then (del, false) else valset_scan cur vid mf r (mid m :: del)
           | _ => valset_scan cur vid mf r del
           end
    end
  end.

Definition delete_ids (s : sys) (ids : list Z) : sys :=
  with_q s {| next_id := next_id (sy_q s);
              queue := filter (fun m => negb (existsb (Z.eqb (mid m)) ids)) (queue (sy_q s)) |}.

Definition pick_now (ch : Z) (t : tables) (k : req_kind) (ts : Z) : pick_result :=
  pick_ov (tb_snap t) (tb_metrics t) (tb_fees t) (tb_weights t) ch (req_flag k) ts.

(** the enqueueing callers: pick, return its error (or die in its panic) before anything is written *)
Definition do_request (ch : Z) (k : req_kind) (retries turn ts : Z) (s : sys) : sys :=
  match pick_now ch (sy_tables s) k ts with
  | Picked v remote =>
      match k with
      | QValset vid =>
          let '(del, put) := valset_scan (tb_turnstone (sy_tables s)) vid (meta_of s) (queue (sy_q s)) [] in
          let s1 := delete_ids s del in
          if put then put_assigned k retries turn v remote s1 else s1
      | _ => put_assigned k retries turn v remote s
      end
  | _ => s
  end.

(** the turnstone id a fresh request writes: the caller's argument for logic calls, none for the
    compass upload, the chain's current unique id otherwise *)
Definition turn_for (t : tables) (k : req_kind) (turn : Z) : Z :=
  match k with QLogicCall _ _ => turn | QCompassUpload => 0 | _ => tb_turnstone t end.

Inductive sop :=
| SSetTables (t : tables)                   (* snapshot rebuilt, metrics updated, fee upserted, weights / fund fees governed *)
| SRequest (k : req_kind) (turn ts : Z)     (* one of the enqueueing callers at block time ts *)
| SSubmit (id g : Z)
| SEndBlock
| SPublicAccess (id : Z)
| SError (id : Z)
| SDelete (id : Z)
| SAttestError (id ts : Z).                 (* error proof with consensus, attested at block time ts *)

Definition sstep (ch : Z) (s : sys) (o : sop) : sys :=
  match o with
  | SSetTables t => {| sy_tables := t; sy_q := sy_q s; sy_meta := sy_meta s |}
  | SRequest k turn ts => do_request ch k 0 (turn_for (sy_tables s) k turn) ts s
  | SSubmit id g => qstep s (OpSubmit id g)
  | SEndBlock => qstep s OpEndBlock
  | SPublicAccess id => qstep s (OpPublicAccess id)
  | SError id => qstep s (OpError id)
  | SDelete id => qstep s (OpDelete id)
  | SAttestError id ts =>
      match find (fun m => mid m =? id) (queue (sy_q s)), meta_of s id with
      | Some _, Some me =>
          let s1 := qstep s (OpDelete id) in
          if retryable (me_kind me) && (me_retries me <? max_retries)
          then match pick_now ch (sy_tables s) (me_kind me) ts with
               | PickPanic => s   (* the panic unwinds the end-blocker: nothing of this attestation is written *)
               | _ => do_request ch (me_kind me) (me_retries me + 1) (me_turn me) ts s1
               end
          else s1
      | _, _ => s
      end
  end.

Definition empty_tables : tables :=
  {| tb_snap := []; tb_metrics := []; tb_fees := [];
     tb_weights := {| w_fee := 0; w_uptime := 0; w_success := 0; w_exec := 0; w_feature := 0 |};
     tb_community := 0; tb_security := 0; tb_turnstone := 0 |}.
Definition sinit : sys := {| sy_tables := empty_tables; sy_q := init; sy_meta := [] |}.
Definition srun (ch : Z) (ops : list sop) : sys := fold_left (sstep ch) ops sinit.
