(** C06 — model of the signature bookkeeping of the consensus message queue.

    Code modelled (palomachain/paloma):
      x/consensus/keeper/consensus/consensus.go   Queue.Put (new item / MsgIDToReplace), AddSignature,
                                                  AddGasEstimate, SetElectedGasEstimate, Remove, ReassignValidator
      x/consensus/types/consensus.go              QueuedSignedMessage.SetElectedGasEstimate (SignData = nil), AddSignData
      x/consensus/keeper/concensus_keeper.go      AddMessageSignature (key looked up with valset.GetSigningKey, then AddSignature)
      x/consensus/keeper/estimate.go              checkAndProcessEstimatedMessage (per-message cache context:
                                                  SetElectedGasEstimate, then fees attached with Put{MsgIDToReplace})
      x/valset/keeper/keeper.go                   GetSigningKey, SetExternalChainInfoState (collision check)
      x/evm/types/turnstone_abi.go                which item fields <kind>.keccak256 covers (table translated into Gen.C06)

    [verify : sbytes -> Sig -> Z -> bool] is a Section variable: NOTHING is assumed about it
    (x/evm/keeper.SupportedQueues' VerifySignature = ecrecover over keccak(prefix ++ bytes) compared with the
    registered key).  Keys, addresses, validators, bodies are numbers (ids of the byte strings).

    Definitions only; proofs are in QueueProofs.v. *)
From Coq Require Import List ZArith Bool String.
From Paloma Require Gen.C06.
Import ListNotations.
Open Scope Z_scope.

(** Message kinds of the turnstone queue.  [KOther] stands for messages whose bytes depend on the body
    only (validator-balances / reference-block attestations). *)
Inductive kind := KUpdateValset | KSubmitLogicCall | KUploadSmartContract | KUploadUserSmartContract
                | KCompassHandover | KOther.

Definition kind_name (k : kind) : string :=
  match k with
  | KUpdateValset => "UpdateValset"
  | KSubmitLogicCall => "SubmitLogicCall"
  | KUploadSmartContract => "UploadSmartContract"
  | KUploadUserSmartContract => "UploadUserSmartContract"
  | KCompassHandover => "CompassHandover"
  | KOther => "Other"
  end%string.

Definition kind_code (k : kind) : Z :=
  match k with
  | KUpdateValset => 1 | KSubmitLogicCall => 2 | KUploadSmartContract => 3
  | KUploadUserSmartContract => 4 | KCompassHandover => 5 | KOther => 6
  end.

Fixpoint assoc_str {A} (d : A) (l : list (string * A)) (k : string) : A :=
  match l with
  | [] => d
  | (k', v) :: r => if String.eqb k k' then v else assoc_str d r k
  end.

(** (covers id, covers elected estimate, covers fees, covers relayer) — from the source. *)
Definition cover (k : kind) : bool * bool * bool * bool :=
  assoc_str (false, false, false, false) Gen.C06.keccak_cover (kind_name k).

Definition is_fee_payer (k : kind) : bool :=
  existsb (String.eqb (kind_name k)) Gen.C06.fee_payers.

Definition fees := (Z * Z * Z)%type.

(** The signing bytes, abstractly: the tuple of everything the hash is computed from.  Two items
    have the same real bytes iff these tuples are equal, up to a keccak collision. *)
Record sbytes := { sb_kind : Z; sb_body : Z; sb_id : Z; sb_est : Z; sb_fees : fees; sb_relayer : Z }.

Definition eff_est (e : Z) : Z := if e =? 0 then Gen.C06.default_gas_estimate else e.
Definition eff_fees (f : option fees) : fees := match f with Some x => x | None => Gen.C06.default_fees end.

Section Queue.
Variable Sig : Type.
Variable verify : sbytes -> Sig -> Z -> bool.

(** One stored SignData entry: validator, external account address it named, the public key that
    was looked up for it, the signature. *)
Record sigent := { se_val : Z; se_addr : Z; se_key : Z; se_sig : Sig }.

Record item := {
  it_id : Z;
  it_chain : Z;                  (* the queue (one turnstone queue per chain) *)
  it_kind : kind;
  it_body : Z;                   (* everything in the message that never changes *)
  it_relayer : Z;                (* AssigneeRemoteAddress *)
  it_needs_est : bool;           (* FlagMask: gas estimation required *)
  it_estimates : list (Z * Z);   (* (validator, value) *)
  it_est : Z;                    (* elected estimate, 0 = none *)
  it_fees : option fees;
  it_sigs : list sigent
}.

Definition sign_bytes (it : item) : sbytes :=
  let '(cid, cest, cfees, crel) := cover (it_kind it) in
  {| sb_kind := kind_code (it_kind it);
     sb_body := it_body it;
     sb_id := if cid then it_id it else 0;
     sb_est := if cest then eff_est (it_est it) else 0;
     sb_fees := if cfees then eff_fees (it_fees it) else (0, 0, 0);
     sb_relayer := if crel then it_relayer it else 0 |}.

(** A validator's registered external accounts: chain, the Address STRING as written at registration
    (GetSigningKey and the collision check compare it as a string), the Pubkey blob, and the 20-byte
    address the string parses to (what skyway's GetEthAddressByValidator returns; unused by the queue). *)
Record acct := { ac_chain : Z; ac_addr : Z; ac_key : Z; ac_eth : Z }.

Record state := {
  st_items : list item;
  st_next : Z;                        (* last id handed out *)
  st_reg : list (Z * list acct)       (* validator -> accounts, at most one row per validator *)
}.

Definition init : state := {| st_items := []; st_next := 0; st_reg := [] |}.

Inductive res := ROk | RNoKey | RNoMsg | RDupKey | RDupVal | RBadSig | RNoEstNeeded | RDupEstimate
               | RAlreadyElected | RCollision | RNotEligible.

Inductive op :=
| OpRegister (v : Z) (accts : list acct)
| OpPut (chain : Z) (k : kind) (body relayer : Z) (needs_est : bool)
| OpSign (v chain id addr : Z) (sg : Sig)
| OpEstimate (v chain id value : Z)
| OpElect (chain id est : Z) (f : fees)   (* one message in the end-blocker: estimate elected, fees computed *)
| OpRemove (chain id : Z)
| OpReassign (chain id relayer : Z)       (* Queue.ReassignValidator — no production caller *)
| OpReplace (chain id body : Z).          (* Queue.Put{MsgIDToReplace} with ANY new message body: SignData kept.  Its only
                                             production caller is the fee attachment inside OpElect (Gen.C06.replace_callers) *)

Definition live_op (o : op) : Prop := match o with OpReassign _ _ _ | OpReplace _ _ _ => False | _ => True end.

(** valset.GetSigningKey *)
Fixpoint accts_of (reg : list (Z * list acct)) (v : Z) : list acct :=
  match reg with
  | [] => []
  | (v', l) :: r => if v =? v' then l else accts_of r v
  end.

Fixpoint find_key (l : list acct) (chain addr : Z) : option Z :=
  match l with
  | [] => None
  | a :: r => if (ac_chain a =? chain) && (ac_addr a =? addr) then Some (ac_key a) else find_key r chain addr
  end.

Definition lookup_key (reg : list (Z * list acct)) (v chain addr : Z) : option Z :=
  find_key (accts_of reg v) chain addr.

(** valset.SetExternalChainInfoState: another validator already has this address or this key on the chain. *)
Definition acct_clash (a b : acct) : bool :=
  (ac_chain a =? ac_chain b) && ((ac_addr a =? ac_addr b) || (ac_key a =? ac_key b)).

Definition collides (reg : list (Z * list acct)) (v : Z) (new : list acct) : bool :=
  existsb (fun row => negb (fst row =? v) &&
                      existsb (fun e => existsb (fun n => acct_clash n e) new) (snd row)) reg.

Fixpoint set_reg (reg : list (Z * list acct)) (v : Z) (new : list acct) : list (Z * list acct) :=
  match reg with
  | [] => [(v, new)]
  | (v', l) :: r => if v =? v' then (v, new) :: r else (v', l) :: set_reg r v new
  end.

Fixpoint find_item (l : list item) (chain id : Z) : option item :=
  match l with
  | [] => None
  | it :: r => if (it_id it =? id) && (it_chain it =? chain) then Some it else find_item r chain id
  end.

Definition upd_item (l : list item) (id : Z) (f : item -> item) : list item :=
  map (fun it => if it_id it =? id then f it else it) l.

Definition set_items (s : state) (l : list item) : state :=
  {| st_items := l; st_next := st_next s; st_reg := st_reg s |}.

Definition with_sigs (it : item) (l : list sigent) : item :=
  {| it_id := it_id it; it_chain := it_chain it; it_kind := it_kind it; it_body := it_body it;
     it_relayer := it_relayer it; it_needs_est := it_needs_est it; it_estimates := it_estimates it;
     it_est := it_est it; it_fees := it_fees it; it_sigs := l |}.

Definition with_estimates (it : item) (l : list (Z * Z)) : item :=
  {| it_id := it_id it; it_chain := it_chain it; it_kind := it_kind it; it_body := it_body it;
     it_relayer := it_relayer it; it_needs_est := it_needs_est it; it_estimates := l;
     it_est := it_est it; it_fees := it_fees it; it_sigs := it_sigs it |}.

(** QueuedSignedMessage.SetElectedGasEstimate: SignData = nil; GasEstimate = estimate. *)
Definition set_elected (it : item) (e : Z) : item :=
  {| it_id := it_id it; it_chain := it_chain it; it_kind := it_kind it; it_body := it_body it;
     it_relayer := it_relayer it; it_needs_est := it_needs_est it; it_estimates := it_estimates it;
     it_est := e; it_fees := it_fees it;
     it_sigs := if Gen.C06.set_elected_clears_signdata then [] else it_sigs it |}.

(** Put{MsgIDToReplace}: the stored item is re-loaded and only its message body is swapped
    (here: the fees inside the action); everything else, SignData included, is kept. *)
Definition replace_fees (it : item) (f : fees) : item :=
  {| it_id := it_id it; it_chain := it_chain it; it_kind := it_kind it; it_body := it_body it;
     it_relayer := it_relayer it; it_needs_est := it_needs_est it; it_estimates := it_estimates it;
     it_est := it_est it; it_fees := Some f; it_sigs := it_sigs it |}.

(** Queue.ReassignValidator: SetAssignee, SignData kept. *)
Definition reassign (it : item) (r : Z) : item :=
  {| it_id := it_id it; it_chain := it_chain it; it_kind := it_kind it; it_body := it_body it;
     it_relayer := r; it_needs_est := it_needs_est it; it_estimates := it_estimates it;
     it_est := it_est it; it_fees := it_fees it; it_sigs := it_sigs it |}.

(** Queue.Put with MsgIDToReplace, in general: the stored message is swapped for the one handed in, SignData (and the
    estimates) stay.  [it_body] stands for everything in the message that the caller may have changed. *)
Definition with_body (it : item) (b : Z) : item :=
  {| it_id := it_id it; it_chain := it_chain it; it_kind := it_kind it; it_body := b;
     it_relayer := it_relayer it; it_needs_est := it_needs_est it; it_estimates := it_estimates it;
     it_est := it_est it; it_fees := it_fees it; it_sigs := it_sigs it |}.

(** The duplicate loop of AddSignature: for each stored entry, same key first, then same validator. *)
Fixpoint dup_check (l : list sigent) (v key : Z) : option res :=
  match l with
  | [] => None
  | e :: r => if se_key e =? key then Some RDupKey
              else if se_val e =? v then Some RDupVal
              else dup_check r v key
  end.

Definition step (s : state) (o : op) : state * res :=
  match o with
  | OpRegister v accts =>
      if collides (st_reg s) v accts then (s, RCollision)
      else ({| st_items := st_items s; st_next := st_next s; st_reg := set_reg (st_reg s) v accts |}, ROk)
  | OpPut chain k body relayer needs =>
      let id := st_next s + 1 in
      ({| st_items := st_items s ++
            [{| it_id := id; it_chain := chain; it_kind := k; it_body := body; it_relayer := relayer;
                it_needs_est := needs; it_estimates := []; it_est := 0; it_fees := None; it_sigs := [] |}];
          st_next := id; st_reg := st_reg s |}, ROk)
  | OpSign v chain id addr sg =>
      match lookup_key (st_reg s) v chain addr with
      | None => (s, RNoKey)
      | Some key =>
        match find_item (st_items s) chain id with
        | None => (s, RNoMsg)
        | Some it =>
          match dup_check (it_sigs it) v key with
          | Some r => (s, r)
          | None =>
            if verify (sign_bytes it) sg key
            then (set_items s (upd_item (st_items s) id (fun it =>
                     with_sigs it (it_sigs it ++ [{| se_val := v; se_addr := addr; se_key := key; se_sig := sg |}]))), ROk)
            else (s, RBadSig)
          end
        end
      end
  | OpEstimate v chain id value =>
      match find_item (st_items s) chain id with
      | None => (s, RNoMsg)
      | Some it =>
        if negb (it_needs_est it) then (s, RNoEstNeeded)
        else if existsb (fun p => fst p =? v) (it_estimates it) then (s, RDupEstimate)
        else (set_items s (upd_item (st_items s) id (fun it => with_estimates it (it_estimates it ++ [(v, value)]))), ROk)
      end
  | OpElect chain id e f =>
      match find_item (st_items s) chain id with
      | None => (s, RNoMsg)
      | Some it =>
        (* the guards of checkAndProcessEstimatedMessage and of Queue.SetElectedGasEstimate *)
        if negb (it_needs_est it) then (s, RNoEstNeeded)
        else if match it_estimates it with [] => true | _ => false end then (s, RNotEligible)
        else if negb (it_est it =? 0) then (s, RAlreadyElected)
        else if e <=? 0 then (s, RNotEligible)
        else (set_items s (upd_item (st_items s) id (fun it =>
                 let it1 := set_elected it e in
                 if is_fee_payer (it_kind it) then replace_fees it1 f else it1)), ROk)
      end
  | OpRemove chain id =>
      match find_item (st_items s) chain id with
      | None => (s, RNoMsg)
      | Some _ => (set_items s (filter (fun it => negb (it_id it =? id)) (st_items s)), ROk)
      end
  | OpReassign chain id r =>
      match find_item (st_items s) chain id with
      | None => (s, RNoMsg)
      | Some _ => (set_items s (upd_item (st_items s) id (fun it => reassign it r)), ROk)
      end
  | OpReplace chain id b =>
      match find_item (st_items s) chain id with
      | None => (s, RNoMsg)
      | Some _ => (set_items s (upd_item (st_items s) id (fun it => with_body it b)), ROk)
      end
  end.

Definition run_from (s : state) (ops : list op) : state := fold_left (fun s o => fst (step s o)) ops s.
Definition run (ops : list op) : state := run_from init ops.

End Queue.

Arguments se_val {Sig} _.
Arguments se_addr {Sig} _.
Arguments se_key {Sig} _.
Arguments se_sig {Sig} _.
Arguments it_id {Sig} _.
Arguments it_chain {Sig} _.
Arguments it_kind {Sig} _.
Arguments it_body {Sig} _.
Arguments it_relayer {Sig} _.
Arguments it_needs_est {Sig} _.
Arguments it_estimates {Sig} _.
Arguments it_est {Sig} _.
Arguments it_fees {Sig} _.
Arguments it_sigs {Sig} _.
Arguments st_items {Sig} _.
Arguments st_next {Sig} _.
Arguments st_reg {Sig} _.
Arguments sign_bytes {Sig} _.
Arguments OpRegister {Sig} _ _.
Arguments OpPut {Sig} _ _ _ _ _.
Arguments OpSign {Sig} _ _ _ _ _.
Arguments OpEstimate {Sig} _ _ _ _.
Arguments OpElect {Sig} _ _ _ _.
Arguments OpRemove {Sig} _ _.
Arguments OpReassign {Sig} _ _ _.
Arguments OpReplace {Sig} _ _ _.
Arguments with_body {Sig} _ _.
Arguments live_op {Sig} _.
Arguments init {Sig}.
Arguments find_item {Sig} _ _ _.

(** ** An ideal signature scheme, used ONLY by the examples / witness lemmas and by the correspondence
    check (never by a theorem): a signature records which private key made it and over which bytes;
    [None] is a byte string that is not a signature of any known key over any known bytes. *)
Definition fees_eqb (a b : fees) : bool :=
  let '(a1, a2, a3) := a in let '(b1, b2, b3) := b in (a1 =? b1) && (a2 =? b2) && (a3 =? b3).

Definition sbytes_eqb (a b : sbytes) : bool :=
  (sb_kind a =? sb_kind b) && (sb_body a =? sb_body b) && (sb_id a =? sb_id b) && (sb_est a =? sb_est b)
  && fees_eqb (sb_fees a) (sb_fees b) && (sb_relayer a =? sb_relayer b).

Definition isig := option (Z * sbytes).

Definition iverify (b : sbytes) (sg : isig) (k : Z) : bool :=
  match sg with
  | Some (k', b') => (k' =? k) && sbytes_eqb b b'
  | None => false
  end.
