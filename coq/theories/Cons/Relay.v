(** x/consensus/keeper/concensus_keeper.go:GetMessagesForRelaying with filters/*, and the part of
    the queue life-cycle that changes what the filters read (Put, gas-estimate election with fee
    attachment, public-access / error reports, removal).  Validators, senders: integers.
    Definitions only. *)
From Coq Require Import List ZArith Bool.
From Paloma Require Import Base.Dec Cons.Fees.
From Paloma Require Gen.C14.
Import ListNotations.
Open Scope Z_scope.

(** evmtypes.Message actions as far as relaying is concerned.  [ASubmitLogicCall None]: empty
    SenderAddress.  SubmitLogicCall and UploadUserSmartContract implement FeePayer. *)
Inductive action :=
| AUpdateValset
| ASubmitLogicCall (sender : option Z)
| AUploadUserContract
| AOther.

(** A queue entry whose payload is not an evmtypes.Message is returned to every caller. *)
Inductive kind := KEvm (a : action) | KForeign.

Record qmsg := {
  mid : Z;
  mkind : kind;
  massignee : Z;
  mreq : bool;                 (* RequireGasEstimation flag *)
  mgas : option Z;             (* value every snapshot validator estimated, once submitted *)
  mest : Z;                    (* elected GasEstimate, 0 = none *)
  mpad : bool;                 (* PublicAccessData != nil *)
  merr : bool;                 (* ErrorData != nil *)
  mfees : option fee_triple    (* Fees on the action, set at election *)
}.

Definition response_cap : Z := Gen.C14.default_response_message_count.

Definition is_valset_update (m : qmsg) : bool :=
  match mkind m with KEvm AUpdateValset => true | _ => false end.

(** GetPendingValsetUpdates: every UpdateValset message still in the queue (reported or not). *)
Definition pending_valset_updates (q : list qmsg) : list qmsg := filter is_valset_update q.

Definition not_blocked_by_valset (vus : list qmsg) (m : qmsg) : bool :=
  match vus with [] => true | u :: _ => mid m <=? mid u end.
Definition unprocessed (m : qmsg) : bool := negb (mpad m) && negb (merr m).
Definition has_gas_estimate (m : qmsg) : bool := if mreq m then 0 <? mest m else true.
Definition assigned_to (m : qmsg) (v : Z) : bool := massignee m =? v.

Definition sender_of (a : action) : option Z :=
  match a with ASubmitLogicCall s => s | _ => None end.

(** The slice.Filter closure with its look-up table; && short-circuits left to right, so the
    table is written exactly for messages that passed the first two filters. *)
Fixpoint relay_filter (vus : list qmsg) (v : Z) (lut : list Z) (q : list qmsg) : list qmsg :=
  match q with
  | [] => []
  | m :: r =>
    match mkind m with
    | KForeign => m :: relay_filter vus v lut r
    | KEvm a =>
      if not_blocked_by_valset vus m && unprocessed m then
        match sender_of a with
        | Some s =>
            if existsb (Z.eqb s) lut then relay_filter vus v lut r
            else if has_gas_estimate m && assigned_to m v
                 then m :: relay_filter vus v (s :: lut) r
                 else relay_filter vus v (s :: lut) r
        | None =>
            if has_gas_estimate m && assigned_to m v
            then m :: relay_filter vus v lut r
            else relay_filter vus v lut r
        end
      else relay_filter vus v lut r
    end
  end.

Definition relay_candidates (q : list qmsg) (v : Z) : list qmsg :=
  relay_filter (pending_valset_updates q) v [] q.

Definition for_relaying (q : list qmsg) (v : Z) : list qmsg :=
  firstn (Z.to_nat response_cap) (relay_candidates q v).

(** ---- queue life-cycle ---- *)

Record config := {
  cfg_relayer_fees : list (Z * Z);   (* validator -> relayer multiplier (raw dec), on this chain *)
  cfg_community : Z;                 (* raw dec *)
  cfg_security : Z
}.

Record state := { next_id : Z; queue : list qmsg }.
Definition init : state := {| next_id := 0; queue := [] |}.

Inductive op :=
| OpPut (k : kind) (assignee : Z) (req pad : bool)    (* Queue.Put without MsgIDToReplace *)
| OpSubmit (id g : Z)          (* every snapshot validator sends gas estimate g for the message *)
| OpEndBlock                   (* CheckAndProcessEstimatedMessages *)
| OpPublicAccess (id : Z)      (* SetMessagePublicAccessData *)
| OpError (id : Z)             (* SetMessageErrorData *)
| OpDelete (id : Z).           (* DeleteJob / Remove *)

Definition upd (id : Z) (f : qmsg -> qmsg) (q : list qmsg) : list qmsg :=
  map (fun m => if mid m =? id then f m else m) q.

Definition set_gas g m := {| mid := mid m; mkind := mkind m; massignee := massignee m; mreq := mreq m;
  mgas := Some g; mest := mest m; mpad := mpad m; merr := merr m; mfees := mfees m |}.
Definition set_pad m := {| mid := mid m; mkind := mkind m; massignee := massignee m; mreq := mreq m;
  mgas := mgas m; mest := mest m; mpad := true; merr := merr m; mfees := mfees m |}.
Definition set_err m := {| mid := mid m; mkind := mkind m; massignee := massignee m; mreq := mreq m;
  mgas := mgas m; mest := mest m; mpad := mpad m; merr := true; mfees := mfees m |}.
Definition set_elected e f m := {| mid := mid m; mkind := mkind m; massignee := massignee m; mreq := mreq m;
  mgas := mgas m; mest := e; mpad := mpad m; merr := merr m; mfees := f |}.

Definition is_fee_payer (k : kind) : bool :=
  match k with KEvm (ASubmitLogicCall _) | KEvm AUploadUserContract => true | _ => false end.

Definition relayer_multiplier (c : config) (v : Z) : option Z :=
  option_map snd (find (fun p => fst p =? v) (cfg_relayer_fees c)).

(** GetCombinedFeesForRelay succeeds only with a non-zero relayer multiplier on record and
    non-zero community / security rates. *)
Definition fee_settings (c : config) (v : Z) : option (Z * Z * Z) :=
  match relayer_multiplier c v with
  | None => None
  | Some rf => if (rf =? 0) || (cfg_community c =? 0) || (cfg_security c =? 0) then None
               else Some (rf, cfg_community c, cfg_security c)
  end.

(** checkAndProcessEstimatedMessage under a cache context: all or nothing per message. *)
Definition elect (c : config) (m : qmsg) : qmsg :=
  if negb (mreq m) then m
  else match mgas m with
       | None => m
       | Some g =>
         if 0 <? mest m then m
         else if g =? 0 then m                      (* "gas estimate is zero" *)
         else if match mkind m with KForeign => true | _ => false end
              then m                                (* libmsg.ToEvmMessage fails: nothing committed *)
         else if is_fee_payer (mkind m) then
                match fee_settings c (massignee m) with
                | None => m
                | Some (rf, cf, sf) =>
                    match fees_for rf cf sf g with
                    | Some f => set_elected g (Some f) m
                    | None => m                     (* mulCeilUint64 error: this message only is skipped *)
                    end
                end
              else set_elected g (mfees m) m
       end.

Definition step (c : config) (s : state) (o : op) : state :=
  match o with
  | OpPut k a req pad =>
      let id := next_id s + 1 in
      {| next_id := id;
         queue := queue s ++ [{| mid := id; mkind := k; massignee := a; mreq := req; mgas := None;
                                 mest := 0; mpad := pad; merr := false; mfees := None |}] |}
  | OpSubmit id g =>
      {| next_id := next_id s;
         queue := upd id (fun m => if mreq m then match mgas m with None => set_gas g m | Some _ => m end else m)
                      (queue s) |}
  | OpEndBlock => {| next_id := next_id s; queue := map (elect c) (queue s) |}
  | OpPublicAccess id =>
      {| next_id := next_id s; queue := upd id (fun m => if mpad m then m else set_pad m) (queue s) |}
  | OpError id =>
      {| next_id := next_id s;
         queue := upd id (fun m => if merr m || mpad m then m else set_err m) (queue s) |}
  | OpDelete id =>
      {| next_id := next_id s; queue := filter (fun m => negb (mid m =? id)) (queue s) |}
  end.

Definition run (c : config) (ops : list op) : state := fold_left (step c) ops init.
