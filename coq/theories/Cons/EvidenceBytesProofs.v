(** C04 — proofs about the evidence-bytes model (Cons/EvidenceBytes.v): every registered proof
    type's BytesToHash is injective on the proof's fields, hence "the validators that back the
    winner submitted the same BYTES" (Cons/QuorumProofs.v) lifts to "... the same FIELDS". *)
From Coq Require Import String.
From Coq Require Import List NArith ZArith Bool Lia Permutation.
From Coq Require Import Strings.Byte.
From Paloma Require Import Base.Num Cons.Quorum Cons.QuorumProofs Cons.EvidenceBytes.
Import ListNotations.

(** * 1. Decimal rendering: injective, digits only, never empty *)
Section Dec.
Open Scope N_scope.

Definition dval (b : byte) : N := Byte.to_N b - 48.
Definition valf (a : N) (l : text) : N := fold_left (fun a b => 10 * a + dval b) l a.

Lemma digit_val : forall d, d < 10 -> dval (digit d) = d.
Proof.
  intros d H.
  assert (d = 0 \/ d = 1 \/ d = 2 \/ d = 3 \/ d = 4 \/ d = 5 \/ d = 6 \/ d = 7 \/ d = 8 \/ d = 9) as C by lia.
  repeat (destruct C as [C | C]; [subst; reflexivity |]). subst; reflexivity.
Qed.

Lemma digit_in : forall d, In (digit d) digits.
Proof.
  intros d. unfold digit. destruct (Nat.lt_ge_cases (N.to_nat d) (List.length digits)) as [L | L].
  - now apply nth_In.
  - rewrite nth_overflow by exact L. simpl. auto.
Qed.

Lemma dec_aux_app : forall f n acc, dec_aux f n acc = dec_aux f n [] ++ acc.
Proof.
  induction f as [|f IH]; intros n acc; simpl; [reflexivity|].
  destruct (n <? 10); [reflexivity|].
  rewrite (IH (n / 10) (digit (n mod 10) :: acc)), (IH (n / 10) [digit (n mod 10)]).
  now rewrite <- app_assoc.
Qed.

Lemma valf_snoc : forall l a b, valf a (l ++ [b]) = 10 * valf a l + dval b.
Proof. intros. unfold valf. now rewrite fold_left_app. Qed.

Lemma val_dec_aux : forall f n, n < 2 ^ N.of_nat f -> valf 0 (dec_aux f n []) = n.
Proof.
  induction f as [|f IH]; intros n H.
  - simpl in *. lia.
  - cbn [dec_aux]. destruct (n <? 10) eqn:E.
    + apply N.ltb_lt in E. unfold valf. simpl. rewrite digit_val by (apply N.mod_lt; lia).
      rewrite N.mod_small by exact E. lia.
    + apply N.ltb_ge in E. rewrite dec_aux_app, valf_snoc.
      rewrite digit_val by (apply N.mod_lt; lia).
      rewrite IH.
      * pose proof (N.div_mod n 10). lia.
      * rewrite Nat2N.inj_succ, N.pow_succ_r' in H. apply N.div_lt_upper_bound; lia.
Qed.

Lemma dec_fuel_ok : forall n, n < 2 ^ N.of_nat (S (N.to_nat (N.log2 n))).
Proof.
  intros n. rewrite Nat2N.inj_succ, N2Nat.id. destruct n as [|p].
  - simpl. lia.
  - apply N.log2_spec. lia.
Qed.

Lemma val_dec : forall n, valf 0 (dec n) = n.
Proof. intros n. unfold dec. apply val_dec_aux, dec_fuel_ok. Qed.

Lemma dec_inj : forall n m, dec n = dec m -> n = m.
Proof. intros n m H. rewrite <- (val_dec n), <- (val_dec m). now rewrite H. Qed.

Lemma dec_aux_digits : forall f n acc, Forall (fun b => In b digits) acc -> Forall (fun b => In b digits) (dec_aux f n acc).
Proof.
  induction f as [|f IH]; intros n acc H; simpl; [exact H|].
  destruct (n <? 10).
  - constructor; [apply digit_in | exact H].
  - apply IH. constructor; [apply digit_in | exact H].
Qed.

Lemma dec_digits : forall n, Forall (fun b => In b digits) (dec n).
Proof. intros. unfold dec. apply dec_aux_digits. constructor. Qed.
End Dec.

Definition is_digit (b : byte) : Prop := In b digits.

Lemma nl_not_digit : ~ is_digit nl.
Proof. unfold is_digit, digits, nl. simpl. intuition discriminate. Qed.
Lemma colon_not_digit : ~ is_digit colon.
Proof. unfold is_digit, digits, colon. simpl. intuition discriminate. Qed.
Lemma x_not_digit : ~ is_digit x78.
Proof. unfold is_digit, digits. simpl. intuition discriminate. Qed.
Lemma zero_is_digit : is_digit x30.
Proof. unfold is_digit, digits. simpl. auto. Qed.

(** * 2. Splitting a text at the first byte outside a class *)
Definition stops (P : byte -> Prop) (r : text) : Prop := match r with [] => True | c :: _ => ~ P c end.

Lemma term_split (P : byte -> Prop) : forall x y r r',
  Forall P x -> Forall P y -> stops P r -> stops P r' -> x ++ r = y ++ r' -> x = y /\ r = r'.
Proof.
  induction x as [|a x IH]; intros y r r' Hx Hy Hr Hr' E.
  - destruct y as [|c y]; [now split|]. simpl in E. subst r. simpl in Hr. inversion Hy; subst. contradiction.
  - destruct y as [|c y].
    + simpl in E. subst r'. simpl in Hr'. inversion Hx; subst. contradiction.
    + simpl in E. injection E as -> E. inversion Hx; subst. inversion Hy; subst.
      destruct (IH y r r') as [-> ->]; auto.
Qed.

Lemma app_inj_len {A} : forall (a a' b b' : list A), List.length a = List.length a' -> a ++ b = a' ++ b' -> a = a' /\ b = b'.
Proof.
  induction a as [|x a IH]; intros [|y a'] b b' L E; simpl in *; try discriminate; [now split|].
  injection E as -> E. injection L as L. destruct (IH a' b b' L E) as [-> ->]. now split.
Qed.

(** decimal followed by a non-digit (or nothing) *)
Lemma dec_term_inj : forall a b r r', stops is_digit r -> stops is_digit r' ->
  dec a ++ r = dec b ++ r' -> a = b /\ r = r'.
Proof.
  intros a b r r' Hr Hr' E.
  destruct (term_split is_digit _ _ _ _ (dec_digits a) (dec_digits b) Hr Hr' E) as [Ed Er].
  split; [now apply dec_inj | exact Er].
Qed.

(** * 3. The explicit layouts *)
Definition err_pcs : list piece := [PcStr "ErrorMessage"].
Definition ref_unsep_pcs : list piece := [PcDec "BlockHeight"; PcStr "BlockHash"].
Definition ref_sep_pcs : list piece := [PcDec "BlockHeight"; PcLit [nl]; PcStr "BlockHash"].
Definition bal_pcs : list piece := [PcDec "BlockHeight"; PcEach "Balances"].
Definition bal_newline_body : list epiece := [EpLit [nl]; EpElem].
Definition bal_framed_body : list epiece := [EpLit [nl]; EpLenDec; EpLit [colon]; EpElem].

Lemma render_err m b : render err_pcs b (flds_of (PErr m)) = m.
Proof. cbn. now rewrite app_nil_r. Qed.

Lemma render_ref_unsep h s b : render ref_unsep_pcs b (flds_of (PRef h s)) = dec h ++ s.
Proof. cbn. now rewrite app_nil_r. Qed.

Lemma render_ref_sep h s b : render ref_sep_pcs b (flds_of (PRef h s)) = dec h ++ nl :: s.
Proof. cbn. now rewrite app_nil_r. Qed.

Definition join_newline (bs : list text) : text := flat_map (fun b => nl :: b) bs.
Definition join_framed (bs : list text) : text :=
  flat_map (fun b => nl :: dec (N.of_nat (List.length b)) ++ colon :: b) bs.

Lemma render_bal_newline h bs : render bal_pcs bal_newline_body (flds_of (PBal h bs)) = dec h ++ join_newline bs.
Proof.
  cbn. rewrite app_nil_r. f_equal. unfold join_newline. apply flat_map_ext. intros b.
  cbn. now rewrite app_nil_r.
Qed.

Lemma render_bal_framed h bs : render bal_pcs bal_framed_body (flds_of (PBal h bs)) = dec h ++ join_framed bs.
Proof.
  cbn. rewrite app_nil_r. f_equal. unfold join_framed. apply flat_map_ext. intros b.
  cbn. now rewrite app_nil_r.
Qed.

Lemma join_newline_stops bs : stops is_digit (join_newline bs) /\ stops (fun c => c <> nl) (join_newline bs).
Proof. destruct bs; simpl; [auto|]. split; [apply nl_not_digit | intros H; now apply H]. Qed.

Lemma join_framed_stops bs : stops is_digit (join_framed bs).
Proof. destruct bs; simpl; [auto | apply nl_not_digit]. Qed.

Lemma clean_forall b : clean b -> Forall (fun c => c <> nl) b.
Proof. intros H. apply Forall_forall. intros c Hc E. subst. now apply H. Qed.

Lemma join_newline_inj : forall bs cs, Forall clean bs -> Forall clean cs ->
  join_newline bs = join_newline cs -> bs = cs.
Proof.
  induction bs as [|b bs IH]; intros [|c cs] Hb Hc E; simpl in E; try discriminate; [reflexivity|].
  injection E as E. inversion Hb; subst. inversion Hc; subst.
  destruct (term_split (fun c => c <> nl) b c (join_newline bs) (join_newline cs)) as [-> E'];
    auto using clean_forall; try apply join_newline_stops.
  f_equal. now apply IH.
Qed.

Lemma join_framed_inj : forall bs cs, join_framed bs = join_framed cs -> bs = cs.
Proof.
  induction bs as [|b bs IH]; intros [|c cs] E; simpl in E; try discriminate; [reflexivity|].
  injection E as E. rewrite <- !app_assoc in E. simpl in E.
  apply dec_term_inj in E; [|simpl; apply colon_not_digit..].
  destruct E as [L E]. injection E as E. apply Nat2N.inj in L.
  apply app_inj_len in E; [|exact L]. destruct E as [-> E]. f_equal. now apply IH.
Qed.

(** ** Injectivity per layout *)
Lemma ref_sep_inj : forall h s h' s' b b',
  render ref_sep_pcs b (flds_of (PRef h s)) = render ref_sep_pcs b' (flds_of (PRef h' s')) -> h = h' /\ s = s'.
Proof.
  intros h s h' s' b b'. rewrite !render_ref_sep. intros E.
  apply dec_term_inj in E; [|simpl; apply nl_not_digit..]. destruct E as [-> E]. now injection E as ->.
Qed.

Lemma ref_unsep_inj : forall h s h' s' b b', hex_prefixed s -> hex_prefixed s' ->
  render ref_unsep_pcs b (flds_of (PRef h s)) = render ref_unsep_pcs b' (flds_of (PRef h' s')) -> h = h' /\ s = s'.
Proof.
  intros h s h' s' b b' [r ->] [r' ->]. rewrite !render_ref_unsep. intros E.
  change (dec h ++ x30 :: x78 :: r) with (dec h ++ [x30] ++ x78 :: r) in E.
  change (dec h' ++ x30 :: x78 :: r') with (dec h' ++ [x30] ++ x78 :: r') in E.
  rewrite !app_assoc in E.
  apply (term_split is_digit) in E.
  - destruct E as [E1 E2]. apply app_inj_tail in E1 as [E1 _]. apply dec_inj in E1. subst. now injection E2 as ->.
  - apply Forall_app. split; [apply dec_digits | constructor; [apply zero_is_digit | constructor]].
  - apply Forall_app. split; [apply dec_digits | constructor; [apply zero_is_digit | constructor]].
  - simpl. apply x_not_digit.
  - simpl. apply x_not_digit.
Qed.

(** Without the 0x prefix it is false: the last digit of the height can be read as the first byte of the hash. *)
Lemma ref_unsep_refuted : exists h s h' s', (h, s) <> (h', s') /\
  render ref_unsep_pcs [] (flds_of (PRef h s)) = render ref_unsep_pcs [] (flds_of (PRef h' s')).
Proof.
  exists 120%N, [x30; x78; x61], 1200%N, [x78; x61]. split; [intros E; discriminate | reflexivity].
Qed.

Lemma bal_newline_inj : forall h bs h' bs', Forall clean bs -> Forall clean bs' ->
  render bal_pcs bal_newline_body (flds_of (PBal h bs)) = render bal_pcs bal_newline_body (flds_of (PBal h' bs')) ->
  h = h' /\ bs = bs'.
Proof.
  intros h bs h' bs' Hc Hc'. rewrite !render_bal_newline. intros E.
  apply dec_term_inj in E; try apply join_newline_stops. destruct E as [-> E].
  split; [reflexivity | now apply join_newline_inj].
Qed.

(** With a newline inside a balance it is false: two balances can be read as one. *)
Lemma bal_newline_refuted : exists h bs bs', bs <> bs' /\ List.length bs = List.length bs' /\
  render bal_pcs bal_newline_body (flds_of (PBal h bs)) = render bal_pcs bal_newline_body (flds_of (PBal h bs')).
Proof.
  exists 7%N, [[x31; nl; x32]; [x33]], [[x31]; [x32; nl; x33]].
  split; [intros E; discriminate | split; reflexivity].
Qed.

Lemma bal_framed_inj : forall h bs h' bs',
  render bal_pcs bal_framed_body (flds_of (PBal h bs)) = render bal_pcs bal_framed_body (flds_of (PBal h' bs')) ->
  h = h' /\ bs = bs'.
Proof.
  intros h bs h' bs'. rewrite !render_bal_framed. intros E.
  apply dec_term_inj in E; try apply join_framed_stops. destruct E as [-> E].
  split; [reflexivity | now apply join_framed_inj].
Qed.

(** * 4. Transaction framing *)
Lemma rlp_list_len_app : forall l r n, rlp_list_len l = Some n -> rlp_list_len (l ++ r) = Some n.
Proof.
  intros [|b0 l] r n; simpl; [discriminate|].
  destruct (Byte.to_N b0 <? 192)%N; [discriminate|].
  destruct (Byte.to_N b0 <=? 247)%N; [auto|].
  set (ll := N.to_nat (Byte.to_N b0 - 247)).
  destruct (ll <=? List.length l)%nat eqn:E; [|discriminate].
  apply Nat.leb_le in E. intros H.
  assert (E' : (ll <=? List.length (l ++ r))%nat = true) by (apply Nat.leb_le; rewrite app_length; lia).
  rewrite E', firstn_app.
  replace (ll - List.length l)%nat with 0%nat by lia. simpl. now rewrite app_nil_r.
Qed.

Lemma frame_len_app : forall l r n, frame_len l = Some n -> frame_len (l ++ r) = Some n.
Proof.
  intros [|b0 l] r n; [discriminate|]. cbn [frame_len app].
  destruct (Byte.to_N b0 <? 128)%N.
  - destruct (rlp_list_len l) as [m|] eqn:E; [|discriminate]. intros H.
    now rewrite (rlp_list_len_app l r m E).
  - intros H. change (b0 :: l ++ r) with ((b0 :: l) ++ r). now apply rlp_list_len_app.
Qed.

Lemma framed_split : forall t t' r r', well_framed t -> well_framed t' -> t ++ r = t' ++ r' -> t = t' /\ r = r'.
Proof.
  intros t t' r r' H H' E. unfold well_framed in *.
  pose proof (frame_len_app t r _ H) as F. pose proof (frame_len_app t' r' _ H') as F'.
  rewrite E in F. rewrite F in F'. injection F' as L. apply Nat2N.inj in L.
  now apply app_inj_len.
Qed.

Lemma well_framedb_spec t : well_framedb t = true <-> well_framed t.
Proof.
  unfold well_framedb, well_framed. destruct (frame_len t) as [n|]; [|split; discriminate].
  split; [intros H; apply N.eqb_eq in H; now subst | intros H; injection H as ->; apply N.eqb_refl].
Qed.

(** * 5. The numbering of byte strings is injective *)
Lemma zbyte_range b : (0 <= zbyte b < 256)%Z.
Proof. unfold zbyte. pose proof (Byte.to_N_bounded b). lia. Qed.

Lemma zbyte_inj a b : zbyte a = zbyte b -> a = b.
Proof.
  unfold zbyte. intros H. apply N2Z.inj in H.
  pose proof (Byte.of_to_N a) as Ha. rewrite H, Byte.of_to_N in Ha. now injection Ha.
Qed.

Lemma zenc_snoc l b : zenc (l ++ [b]) = (256 * zenc l + zbyte b)%Z.
Proof. unfold zenc. now rewrite fold_left_app. Qed.

Lemma zenc_pos : forall l, (1 <= zenc l)%Z.
Proof.
  induction l as [|b l IH] using rev_ind; [unfold zenc; simpl; lia|].
  rewrite zenc_snoc. pose proof (zbyte_range b). lia.
Qed.

Lemma zenc_inj : forall a b, zenc a = zenc b -> a = b.
Proof.
  induction a as [|x a IH] using rev_ind; intros b E.
  - destruct b as [|y b] using rev_ind; [reflexivity|]. exfalso.
    rewrite zenc_snoc in E. change (zenc []) with 1%Z in E.
    pose proof (zenc_pos b). pose proof (zbyte_range y). lia.
  - destruct b as [|y b _] using rev_ind.
    + exfalso. rewrite zenc_snoc in E. change (zenc []) with 1%Z in E.
      pose proof (zenc_pos a). pose proof (zbyte_range x). lia.
    + rewrite !zenc_snoc in E. pose proof (zbyte_range x). pose proof (zbyte_range y).
      assert (zenc a = zenc b) by lia. assert (zbyte x = zbyte y) by lia.
      f_equal; [now apply IH | f_equal; now apply zbyte_inj].
Qed.

(** * 6. Field-wise equality is decided by [proof_eqb] *)
Lemma text_eqb_eq : forall a b, text_eqb a b = true <-> a = b.
Proof.
  induction a as [|x a IH]; intros [|y b]; simpl; split; intros H; try discriminate; auto.
  - apply andb_true_iff in H as [H1 H2]. apply Byte.byte_dec_bl in H1. apply IH in H2. now subst.
  - injection H as -> ->. apply andb_true_iff. split; [apply Byte.byte_dec_lb; reflexivity | now apply IH].
Qed.

Lemma texts_eqb_eq : forall a b, texts_eqb a b = true <-> a = b.
Proof.
  induction a as [|x a IH]; intros [|y b]; simpl; split; intros H; try discriminate; auto.
  - apply andb_true_iff in H as [H1 H2]. apply text_eqb_eq in H1. apply IH in H2. now subst.
  - injection H as -> ->. apply andb_true_iff. split; [now apply text_eqb_eq | now apply IH].
Qed.

Lemma proof_eqb_eq : forall p q, proof_eqb p q = true <-> p = q.
Proof.
  intros p q. split.
  - destruct p as [t r|m|h bs|h s|], q as [t' r'|m'|h' bs'|h' s'|]; simpl; intros H; try discriminate; auto.
    + apply andb_true_iff in H as [H1 H2]. apply text_eqb_eq in H1. subst.
      destruct r, r'; try discriminate; auto. apply text_eqb_eq in H2. now subst.
    + apply text_eqb_eq in H. now subst.
    + apply andb_true_iff in H as [H1 H2]. apply N.eqb_eq in H1. apply texts_eqb_eq in H2. now subst.
    + apply andb_true_iff in H as [H1 H2]. apply N.eqb_eq in H1. apply text_eqb_eq in H2. now subst.
  - intros <-. destruct p as [t r|m|h bs|h s|]; simpl; auto.
    + apply andb_true_iff. split; [now apply text_eqb_eq|]. destruct r; auto. now apply text_eqb_eq.
    + now apply text_eqb_eq.
    + apply andb_true_iff. split; [apply N.eqb_refl | now apply texts_eqb_eq].
    + apply andb_true_iff. split; [apply N.eqb_refl | now apply text_eqb_eq].
Qed.

(** * 7. The layouts of the CURRENT source (Gen.C04) are among the ones proved above.
    Each proof tries the known layouts in turn; a layout that is none of them fails here. *)
Lemma err_state : err_pieces = err_pcs.
Proof. reflexivity. Qed.

Lemma ref_state :
  (ref_is_separated = true /\ ref_pieces = ref_sep_pcs) \/
  (ref_is_separated = false /\ ref_pieces = ref_unsep_pcs).
Proof. first [ left; split; reflexivity | right; split; reflexivity ]. Qed.

Lemma bal_state :
  (bal_is_framed = true /\ bal_pieces = bal_pcs /\ bal_body = bal_framed_body) \/
  (bal_is_framed = false /\ bal_pieces = bal_pcs /\ bal_body = bal_newline_body).
Proof. first [ left; repeat split; reflexivity | right; repeat split; reflexivity ]. Qed.

(** The token tables themselves (what the translator wrote) are one of the known ones. *)
Lemma layouts_of_current_source :
  G.err_layout = err_layout_cur /\ G.err_each = [] /\
  ((ref_is_separated = true /\ G.ref_layout = ref_layout_separated /\ G.ref_each = []) \/
   (ref_is_separated = false /\ G.ref_layout = ref_layout_unseparated /\ G.ref_each = [])) /\
  ((bal_is_framed = true /\ G.bal_layout = bal_layout_cur /\ G.bal_each = bal_each_framed) \/
   (bal_is_framed = false /\ G.bal_layout = bal_layout_cur /\ G.bal_each = bal_each_newline)).
Proof.
  split; [reflexivity|]. split; [reflexivity|]. split.
  - first [ left; repeat split; reflexivity | right; repeat split; reflexivity ].
  - first [ left; repeat split; reflexivity | right; repeat split; reflexivity ].
Qed.

Lemma proof_types_of_current_source :
  G.hashable_registered = ["ReferenceBlockAttestationRes"; "SmartContractExecutionErrorProof"; "TxExecutedProof"; "ValidatorBalancesAttestationRes"]%string /\
  G.hashable_methods = G.hashable_registered.
Proof. split; reflexivity. Qed.

(** * 8. BytesToHash is injective on well-formed proofs of one type *)
Theorem bytes_to_hash_injective : forall p q b,
  wf_proof p -> wf_proof q -> tag_of p = tag_of q ->
  bytes_to_hash p = Some b -> bytes_to_hash q = Some b -> p = q.
Proof.
  intros p q b Wp Wq T Hp Hq.
  destruct p as [t r|m|h bs|h s|], q as [t' r'|m'|h' bs'|h' s'|]; simpl in T; try discriminate; cbn [bytes_to_hash] in Hp, Hq.
  - (* tx *)
    injection Hp as Hp. injection Hq as Hq. destruct Wp as [Ft Nr], Wq as [Ft' Nr'].
    rewrite <- Hq in Hp. apply framed_split in Hp; [|exact Ft|exact Ft']. destruct Hp as [-> Hr].
    f_equal. destruct r as [[|x r]|], r' as [[|y r']|]; try congruence; simpl in Hr; try discriminate; exfalso; auto.
  - (* error message *)
    rewrite err_state in Hp, Hq. rewrite render_err in Hp, Hq. congruence.
  - (* balances *)
    unfold wf_proof in Wp, Wq.
    destruct bal_state as [(Sf & Sp & Sb) | (Sf & Sp & Sb)]; rewrite Sf in Wp, Wq; rewrite Sp, Sb in Hp, Hq.
    + assert (E : render bal_pcs bal_framed_body (flds_of (PBal h bs)) = render bal_pcs bal_framed_body (flds_of (PBal h' bs')))
        by congruence.
      apply bal_framed_inj in E. destruct E as [-> ->]. reflexivity.
    + assert (E : render bal_pcs bal_newline_body (flds_of (PBal h bs)) = render bal_pcs bal_newline_body (flds_of (PBal h' bs')))
        by congruence.
      apply bal_newline_inj in E; auto. destruct E as [-> ->]. reflexivity.
  - (* reference block *)
    unfold wf_proof in Wp, Wq.
    destruct ref_state as [(Sf & Sp) | (Sf & Sp)]; rewrite Sf in Wp, Wq; rewrite Sp in Hp, Hq.
    + assert (E : render ref_sep_pcs ref_body (flds_of (PRef h s)) = render ref_sep_pcs ref_body (flds_of (PRef h' s')))
        by congruence.
      apply ref_sep_inj in E. destruct E as [-> ->]. reflexivity.
    + assert (E : render ref_unsep_pcs ref_body (flds_of (PRef h s)) = render ref_unsep_pcs ref_body (flds_of (PRef h' s')))
        by congruence.
      apply ref_unsep_inj in E; auto. destruct E as [-> ->]. reflexivity.
Qed.

(** What is still conditional in the current source, with the witnesses that show the condition is needed. *)
Theorem bytes_to_hash_conditions_needed :
  (ref_is_separated = false ->
   exists p q, tag_of p = tag_of q /\ p <> q /\ bytes_to_hash p = bytes_to_hash q /\ bytes_to_hash p <> None) /\
  (bal_is_framed = false ->
   exists p q, tag_of p = tag_of q /\ p <> q /\ bytes_to_hash p = bytes_to_hash q /\ bytes_to_hash p <> None).
Proof.
  split.
  - intros S. destruct ref_state as [(Sf & _) | (_ & Sp)]; [congruence|].
    exists (PRef 120 [x30; x78; x61]), (PRef 1200 [x78; x61]).
    split; [reflexivity|]. split; [discriminate|]. cbn [bytes_to_hash]. rewrite Sp.
    split; [reflexivity | discriminate].
  - intros S. destruct bal_state as [(Sf & _) | (_ & Sp & Sb)]; [congruence|].
    exists (PBal 7 [[x31; nl; x32]; [x33]]), (PBal 7 [[x31]; [x32; nl; x33]]).
    split; [reflexivity|]. split; [discriminate|]. cbn [bytes_to_hash]. rewrite Sp, Sb.
    split; [reflexivity | discriminate].
Qed.

(** * 9. End to end: the winner's backers agree on every field *)
Definition same_proof (w : pev) (e : pev) : bool := proof_eqb (pe_proof e) (pe_proof w).

Lemma identical_ev_of : forall w e, wf_proof (pe_proof w) -> wf_proof (pe_proof e) ->
  ev_bad (ev_of w) = false -> ev_bad (ev_of e) = false ->
  identical (ev_of w) (ev_of e) = same_proof w e.
Proof.
  intros w e Ww We Bw Be. unfold identical, same_proof. cbn [ev_of ev_tag ev_data ev_bad] in *.
  destruct (bytes_to_hash (pe_proof w)) as [bw|] eqn:Hw; [|discriminate].
  destruct (bytes_to_hash (pe_proof e)) as [be|] eqn:He; [|discriminate].
  destruct (proof_eqb (pe_proof e) (pe_proof w)) eqn:Q.
  - apply proof_eqb_eq in Q. rewrite Q in *. rewrite Hw in He. injection He as <-.
    now rewrite !Z.eqb_refl.
  - destruct ((tag_of (pe_proof e) =? tag_of (pe_proof w))%Z) eqn:T; [|reflexivity].
    destruct ((zenc be =? zenc bw)%Z) eqn:D; [|reflexivity].
    apply Z.eqb_eq in T, D. apply zenc_inj in D. subst be.
    rewrite (bytes_to_hash_injective _ _ _ We Ww T He Hw) in Q.
    assert (proof_eqb (pe_proof w) (pe_proof w) = true) by now apply proof_eqb_eq. congruence.
Qed.

Lemma existsb_false_in {A} (f : A -> bool) l x : existsb f l = false -> In x l -> f x = false.
Proof.
  intros H I. destruct (f x) eqn:E; [|reflexivity].
  assert (existsb f l = true) by (apply existsb_exists; now exists x). congruence.
Qed.

Lemma filter_identical_same wp : wf_proof (pe_proof wp) -> ev_bad (ev_of wp) = false ->
  forall l, (forall e, In e l -> wf_proof (pe_proof e) /\ ev_bad (ev_of e) = false) ->
  map ev_val (filter (identical (ev_of wp)) (map ev_of l)) = map pe_val (filter (same_proof wp) l).
Proof.
  intros Ww Bw. induction l as [|e l IH]; intros Hl; [reflexivity|].
  cbn [map filter]. destruct (Hl e (or_introl eq_refl)) as [We Be].
  rewrite (identical_ev_of wp e Ww We Bw Be).
  destruct (same_proof wp e); cbn [map]; rewrite IH; auto; intros x Hx; apply Hl; now right.
Qed.

Theorem winner_backers_agree_on_fields {K : Type} (keqb : K -> K -> bool) (h : Z -> Z -> K) :
  (forall a b, keqb a b = true <-> a = b) ->
  forall (ord : list group -> list group) (sn : snapshot) (pevs : list pev) (w : evidence),
  (forall gs, Permutation (ord gs) gs) ->
  Forall (fun e => wf_proof (pe_proof e)) pevs ->
  verify_evidence keqb (code_key h) ord sn (map ev_of pevs) = Winner w ->
  (exists t d t' d', (t, d) <> (t', d') /\ h t d = h t' d') \/
  exists wp, In wp pevs /\ w = ev_of wp /\ bytes_to_hash (pe_proof wp) <> None /\
    2 * sn_total sn <= 3 * power sn (map pe_val (filter (same_proof wp) pevs)).
Proof.
  intros Hk ord sn pevs w Ho Wf H.
  destruct (@winner_same_key K keqb (code_key h) Hk ord sn (map ev_of pevs) w Ho H) as (Hin & Hbad & Hall & _).
  destruct (winner_two_thirds_identical_code_key keqb h Hk ord sn (map ev_of pevs) w Ho H) as [C | Q]; [now left|right].
  apply in_map_iff in Hin as (wp & <- & Hwp). exists wp. split; [exact Hwp|]. split; [reflexivity|].
  split.
  { cbn [ev_of ev_bad] in Hbad. destruct (bytes_to_hash (pe_proof wp)); [discriminate | discriminate]. }
  rewrite Forall_forall in Wf.
  assert (E : map ev_val (filter (identical (ev_of wp)) (map ev_of pevs)) = map pe_val (filter (same_proof wp) pevs)).
  { apply filter_identical_same; [now apply Wf | exact Hbad |].
    intros e Ie. split; [now apply Wf|].
    apply (existsb_false_in ev_bad (map ev_of pevs)); [exact Hall | now apply in_map]. }
  now rewrite E in Q.
Qed.

(** Non-vacuity: a split vote of two near-miss balance answers, neither with two thirds — no winner;
    all on one answer — that answer wins. *)
Example near_miss_split_has_no_winner :
  let a := PBal 19000001 [[x35; x30]] in
  let b := PBal 1900000 [[x31; x35; x30]] in
  let sn := {| sn_vals := [(1, 1); (2, 1); (3, 1)]%Z; sn_total := 3 |} in
  verify_evidence (fun x y => (fst x =? fst y)%Z && (snd x =? snd y)%Z) (code_key (fun t d => (t, d))) (fun g => g) sn
    (map ev_of [ {| pe_val := 1; pe_proof := a |}; {| pe_val := 2; pe_proof := b |}; {| pe_val := 3; pe_proof := b |} ])
  = Winner (ev_of {| pe_val := 2; pe_proof := b |}) /\
  verify_evidence (fun x y => (fst x =? fst y)%Z && (snd x =? snd y)%Z) (code_key (fun t d => (t, d))) (fun g => g) sn
    (map ev_of [ {| pe_val := 1; pe_proof := a |}; {| pe_val := 2; pe_proof := b |} ])
  = NotAchieved.
Proof. vm_compute. split; reflexivity. Qed.
