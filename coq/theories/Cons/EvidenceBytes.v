(** Model of x/evm/types/proofs_hash_bytes.go: the bytes every registered evidence proof type hands
    to libcons.VerifyEvidence (BytesToHash), as a function of the proof's fields.  The sequence of
    pieces each rendering type writes is re-translated from the source on every check
    (Gen.C04.{err,bal,ref}_layout / _each); [render] interprets it.  Definitions only. *)
From Coq Require Import String.
From Coq Require Import List NArith ZArith Bool.
From Coq Require Import Strings.Byte.
From Paloma Require Import Cons.Quorum.
From Paloma Require Gen.C04.
Import ListNotations.

Module G := Paloma.Gen.C04.

Definition text := list byte.

(** ** Decimal rendering of a uint64 (fmt %d, strconv.FormatUint(_, 10)) *)
Definition digits : list byte := [x30; x31; x32; x33; x34; x35; x36; x37; x38; x39].
Definition digit (d : N) : byte := nth (N.to_nat d) digits x30.

(** [dec_aux fuel n acc] prepends the decimal digits of [n] to [acc]; fuel = binary size of [n] suffices. *)
Fixpoint dec_aux (fuel : nat) (n : N) (acc : text) : text :=
  match fuel with
  | O => acc
  | S f => let acc' := digit (n mod 10) :: acc in
           if (n <? 10)%N then acc' else dec_aux f (n / 10) acc'
  end.
Definition dec (n : N) : text := dec_aux (S (N.to_nat (N.log2 n))) n [].

Definition nl : byte := x0a.       (* "\n" *)
Definition colon : byte := x3a.    (* ":" *)

(** ** The pieces a BytesToHash writes, read from the translated tables *)
Inductive epiece := EpLit (s : text) | EpElem | EpLenDec | EpUnknown.
Inductive piece := PcLit (s : text) | PcDec (f : string) | PcStr (f : string) | PcEach (f : string) | PcUnknown.

Definition byte_of_Z (z : Z) : byte :=
  match Byte.of_N (Z.to_N z) with Some b => b | None => x00 end.

Definition piece_of (t : string * string * list Z) : piece :=
  let '(k, f, l) := t in
  if String.eqb k "lit" then PcLit (map byte_of_Z l)
  else if String.eqb k "dec" then PcDec f
  else if String.eqb k "str" then PcStr f
  else if String.eqb k "each" then PcEach f
  else PcUnknown.

Definition epiece_of (t : string * string * list Z) : epiece :=
  let '(k, _, l) := t in
  if String.eqb k "lit" then EpLit (map byte_of_Z l)
  else if String.eqb k "elem" then EpElem
  else if String.eqb k "lendec" then EpLenDec
  else EpUnknown.

(** The fields of a proof message by name. *)
Record flds := { f_num : string -> N; f_str : string -> text; f_list : string -> list text }.

Definition render_elem (body : list epiece) (e : text) : text :=
  flat_map (fun p => match p with
                     | EpLit s => s
                     | EpElem => e
                     | EpLenDec => dec (N.of_nat (List.length e))
                     | EpUnknown => []
                     end) body.

Definition render (l : list piece) (body : list epiece) (x : flds) : text :=
  flat_map (fun p => match p with
                     | PcLit s => s
                     | PcDec f => dec (f_num x f)
                     | PcStr f => f_str x f
                     | PcEach f => flat_map (render_elem body) (f_list x f)
                     | PcUnknown => []
                     end) l.

(** ** Proofs (the four registered Hashable types) *)
Inductive proof :=
| PTx (tx : text) (receipt : option text)
    (* tx / receipt: what tx.MarshalBinary() / receipt.MarshalBinary() return for the decoded
       SerializedTX / SerializedReceipt; receipt None = SerializedReceipt nil *)
| PErr (msg : text)
| PBal (height : N) (balances : list text)
| PRef (height : N) (hash : text)
| PUnhashable.
    (* an absent proof, a proof of an unregistered type, a TxExecutedProof whose tx or receipt does
       not decode: unpacking or BytesToHash fails *)

Definition tag_of (p : proof) : Z :=
  match p with PTx _ _ => 0 | PErr _ => 1 | PBal _ _ => 2 | PRef _ _ => 3 | PUnhashable => -1 end%Z.

Definition no_num : string -> N := fun _ => 0%N.
Definition no_str : string -> text := fun _ => [].
Definition no_list : string -> list text := fun _ => [].
Definition only {A} (name : string) (v d : A) : string -> A := fun f => if String.eqb f name then v else d.

Definition flds_of (p : proof) : flds :=
  match p with
  | PErr m => {| f_num := no_num; f_str := only "ErrorMessage" m []; f_list := no_list |}
  | PBal h bs => {| f_num := only "BlockHeight" h 0%N; f_str := no_str; f_list := only "Balances" bs [] |}
  | PRef h s => {| f_num := only "BlockHeight" h 0%N; f_str := only "BlockHash" s []; f_list := no_list |}
  | _ => {| f_num := no_num; f_str := no_str; f_list := no_list |}
  end.

Definition err_pieces := map piece_of G.err_layout.
Definition err_body := map epiece_of G.err_each.
Definition bal_pieces := map piece_of G.bal_layout.
Definition bal_body := map epiece_of G.bal_each.
Definition ref_pieces := map piece_of G.ref_layout.
Definition ref_body := map epiece_of G.ref_each.

Definition bytes_to_hash (p : proof) : option text :=
  match p with
  | PTx t r => Some (t ++ match r with Some r => r | None => [] end)
  | PErr _ => Some (render err_pieces err_body (flds_of p))
  | PBal _ _ => Some (render bal_pieces bal_body (flds_of p))
  | PRef _ _ => Some (render ref_pieces ref_body (flds_of p))
  | PUnhashable => None
  end.

(** ** Framing of a transaction's binary encoding (go-ethereum Transaction.MarshalBinary): either
    an RLP list (legacy) or one type byte < 0x80 followed by an RLP list.  [frame_len] reads the
    length of that first item off its header. *)
Definition be_val (l : text) : N := fold_left (fun a b => 256 * a + Byte.to_N b)%N l 0%N.

Definition rlp_list_len (l : text) : option N :=
  match l with
  | [] => None
  | b0 :: r =>
    let n := Byte.to_N b0 in
    if (n <? 192)%N then None
    else if (n <=? 247)%N then Some (1 + (n - 192))%N
    else let ll := N.to_nat (n - 247) in
         if (ll <=? List.length r)%nat then Some (1 + N.of_nat ll + be_val (firstn ll r))%N else None
  end.

Definition frame_len (l : text) : option N :=
  match l with
  | [] => None
  | b0 :: r => if (Byte.to_N b0 <? 128)%N then option_map N.succ (rlp_list_len r) else rlp_list_len l
  end.

Definition well_framed (t : text) : Prop := frame_len t = Some (N.of_nat (List.length t)).
Definition well_framedb (t : text) : bool :=
  match frame_len t with Some n => (n =? N.of_nat (List.length t))%N | None => false end.

(** ** From a validator's proof to the evidence record of Cons/Quorum.v: the opaque [ev_data] is
    an injective numbering of the bytes ([zenc]: base-256 digits under a leading 1). *)
Definition zbyte (b : byte) : Z := Z.of_N (Byte.to_N b).
Definition zenc (l : text) : Z := fold_left (fun a b => 256 * a + zbyte b)%Z l 1%Z.

Record pev := { pe_val : val; pe_proof : proof }.

Definition ev_of (e : pev) : evidence :=
  {| ev_val := pe_val e;
     ev_tag := tag_of (pe_proof e);
     ev_data := match bytes_to_hash (pe_proof e) with Some b => zenc b | None => 0%Z end;
     ev_bad := match bytes_to_hash (pe_proof e) with Some _ => false | None => true end |}.

(** ** Field-wise equality of proofs (decidable) *)
Fixpoint text_eqb (a b : text) : bool :=
  match a, b with
  | [], [] => true
  | x :: a', y :: b' => Byte.eqb x y && text_eqb a' b'
  | _, _ => false
  end.
Fixpoint texts_eqb (a b : list text) : bool :=
  match a, b with
  | [], [] => true
  | x :: a', y :: b' => text_eqb x y && texts_eqb a' b'
  | _, _ => false
  end.
Definition proof_eqb (p q : proof) : bool :=
  match p, q with
  | PTx t r, PTx t' r' =>
      text_eqb t t' && match r, r' with Some a, Some b => text_eqb a b | None, None => true | _, _ => false end
  | PErr m, PErr m' => text_eqb m m'
  | PBal h bs, PBal h' bs' => (h =? h')%N && texts_eqb bs bs'
  | PRef h s, PRef h' s' => (h =? h')%N && text_eqb s s'
  | PUnhashable, PUnhashable => true
  | _, _ => false
  end.

(** ** Which layouts the proofs know, and what they ask of a proof under each *)
Definition tok := (string * string * list Z)%type.
Definition tok_eqb (a b : tok) : bool :=
  let '(k, f, l) := a in let '(k', f', l') := b in
  String.eqb k k' && String.eqb f f' && (if list_eq_dec Z.eq_dec l l' then true else false).
Fixpoint toks_eqb (a b : list tok) : bool :=
  match a, b with
  | [], [] => true
  | x :: a', y :: b' => tok_eqb x y && toks_eqb a' b'
  | _, _ => false
  end.

(** reference block: height and hash run together / are separated by a newline *)
Definition ref_layout_unseparated : list tok := [("dec", "BlockHeight", []); ("str", "BlockHash", [])]%string.
Definition ref_layout_separated : list tok := [("dec", "BlockHeight", []); ("lit", "", [10%Z]); ("str", "BlockHash", [])]%string.
(** balances: newline before every balance / newline, length of the balance, colon before every balance *)
Definition bal_layout_cur : list tok := [("dec", "BlockHeight", []); ("each", "Balances", [])]%string.
Definition bal_each_newline : list tok := [("lit", "", [10%Z]); ("elem", "", [])]%string.
Definition bal_each_framed : list tok := [("lit", "", [10%Z]); ("lendec", "", []); ("lit", "", [58%Z]); ("elem", "", [])]%string.
Definition err_layout_cur : list tok := [("str", "ErrorMessage", [])]%string.

Definition ref_is_separated : bool := toks_eqb G.ref_layout ref_layout_separated && toks_eqb G.ref_each [].
Definition bal_is_framed : bool := toks_eqb G.bal_layout bal_layout_cur && toks_eqb G.bal_each bal_each_framed.

(** a balance without a newline; a hash that starts with "0x" *)
Definition clean (b : text) : Prop := ~ In nl b.
Definition hex_prefixed (s : text) : Prop := exists r, s = x30 :: x78 :: r.

(** What the injectivity of BytesToHash needs of a proof: a well-framed transaction encoding and a
    non-empty receipt encoding (what go-ethereum's MarshalBinary returns; checked on every
    generated proof by the correspondence); and, ONLY while the source has the weaker layouts,
    newline-free balances / a 0x-prefixed block hash. *)
Definition wf_proof (p : proof) : Prop :=
  match p with
  | PTx t r => well_framed t /\ r <> Some []
  | PBal _ bs => if bal_is_framed then True else Forall clean bs
  | PRef _ s => if ref_is_separated then True else hex_prefixed s
  | _ => True
  end.
