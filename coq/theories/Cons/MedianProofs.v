From Coq Require Import List ZArith Bool Lia Permutation Sorted Arith.
From Paloma Require Import Base.Num Cons.Median.
Import ListNotations.
Open Scope Z_scope.

Lemma insert_sorted_perm x l : Permutation (x :: l) (insert_sorted x l).
Proof.
  induction l as [|y r IH]; simpl; [reflexivity|].
  destruct (x <=? y); [reflexivity|].
  rewrite perm_swap. now constructor.
Qed.

Lemma zsort_perm l : Permutation l (zsort l).
Proof.
  induction l as [|x r IH]; simpl; [constructor|].
  etransitivity; [|apply insert_sorted_perm]. now constructor.
Qed.

Lemma insert_sorted_sorted x l : Sorted Z.le l -> Sorted Z.le (insert_sorted x l).
Proof.
  induction l as [|y r IH]; simpl; intros Hs.
  - repeat constructor.
  - destruct (Z.leb_spec x y).
    + constructor; [assumption|constructor; assumption].
    + inversion Hs as [|? ? Hr Hh]; subst. constructor; [now apply IH|].
      destruct r as [|z r']; simpl.
      * constructor; lia.
      * inversion Hh; subst. destruct (x <=? z); constructor; lia.
Qed.

Lemma zsort_sorted l : Sorted Z.le (zsort l).
Proof. induction l; simpl; [constructor|now apply insert_sorted_sorted]. Qed.

Lemma zsort_length l : length (zsort l) = length l.
Proof. symmetry; apply Permutation_length, zsort_perm. Qed.

Lemma sorted_nth_le w : Sorted Z.le w -> forall i j, (i <= j < length w)%nat -> nth i w 0 <= nth j w 0.
Proof.
  intros Hs. apply Sorted_StronglySorted in Hs; [|intros ? ? ?; lia].
  induction Hs as [|x r Hr IH Hall]; intros i j Hij; simpl in *; [lia|].
  destruct i as [|i], j as [|j]; try lia.
  - rewrite Forall_forall in Hall. apply Hall, nth_In. lia.
  - apply IH. lia.
Qed.

Lemma list_min_le d l x : In x l -> list_min d l <= x.
Proof. induction l as [|y r IH]; simpl; [tauto|]. intros [->|H]; [lia|]. specialize (IH H). lia. Qed.

Lemma list_max_ge d l x : In x l -> x <= list_max d l.
Proof. induction l as [|y r IH]; simpl; [tauto|]. intros [->|H]; [lia|]. specialize (IH H). lia. Qed.

Lemma half_len_lt n : (0 < n)%nat -> (Nat.div n 2 < n)%nat.
Proof. intros; apply Nat.div_lt; lia. Qed.

(** The median of a non-empty multiset of uint64 values lies between two members of the
    multiset (hence between its minimum and maximum), with all arithmetic mod 2^64. *)
Theorem median64_between_members s :
  s <> [] -> Forall in_u64 s ->
  exists a b, In a s /\ In b s /\ a <= median64 s <= b.
Proof.
  intros Hne Hr. unfold median64. destruct s as [|s0 s']; [congruence|].
  set (s := s0 :: s') in *. set (w := zsort s).
  assert (Hlen : length w = length s) by apply zsort_length.
  assert (Hpos : (0 < length w)%nat) by (rewrite Hlen; simpl; lia).
  assert (HIn : forall i, (i < length w)%nat -> In (nth i w 0) s).
  { intros i Hi. eapply Permutation_in; [symmetry; apply zsort_perm|]. now apply nth_In. }
  assert (Hc : (Nat.div (length w) 2 < length w)%nat) by now apply half_len_lt.
  destruct (Nat.even (length w)) eqn:Ev.
  - set (c := Nat.div (length w) 2) in *.
    assert (Hc1 : (c - 1 < length w)%nat) by lia.
    set (a := nth (c - 1) w 0). set (b := nth c w 0).
    assert (Hab : a <= b) by (apply sorted_nth_le; [apply zsort_sorted|lia]).
    assert (Ha : in_u64 a) by (rewrite Forall_forall in Hr; apply Hr, HIn; lia).
    assert (Hb : in_u64 b) by (rewrite Forall_forall in Hr; apply Hr, HIn; lia).
    exists a, b. repeat split; try (apply HIn; lia).
    + unfold in_u64 in *. rewrite (u64_small (b - a)) by (unfold in_u64; lia).
      rewrite u64_small; [|unfold in_u64]; pose proof (Z.div_pos (b - a) 2);
      assert ((b - a) / 2 <= b - a) by (apply Z.div_le_upper_bound; lia); lia.
    + unfold in_u64 in *. rewrite (u64_small (b - a)) by (unfold in_u64; lia).
      assert ((b - a) / 2 <= b - a) by (apply Z.div_le_upper_bound; lia).
      pose proof (Z.div_pos (b - a) 2).
      rewrite u64_small; [|unfold in_u64]; lia.
  - exists (nth (Nat.div (length w) 2) w 0), (nth (Nat.div (length w) 2) w 0).
    repeat split; try (apply HIn; lia); lia.
Qed.

Theorem median64_between : forall (s : list Z) (d : Z),
  s <> [] -> Forall in_u64 s ->
  (exists a b, In a s /\ In b s /\ a <= median64 s <= b) /\
  list_min d s <= median64 s <= list_max d s.
Proof.
  intros s d Hne Hr. destruct (median64_between_members s Hne Hr) as (a & b & Ha & Hb & Hm).
  split; [now exists a, b|].
  pose proof (list_min_le d s a Ha). pose proof (list_max_ge d s b Hb). lia.
Qed.

(** Result is itself a uint64 and the empty slice yields 0 (the caller rejects 0). *)
Lemma median64_nil : median64 [] = 0. Proof. reflexivity. Qed.

(** The pre-fix expression violated the property: witness by computation. *)
Lemma old_median_refuted :
  exists s, s <> [] /\ Forall in_u64 s /\ median64_old s < list_min (2^64) s.
Proof.
  exists [9223372036854775808; 9223372036854775810]. split; [discriminate|]. split.
  - constructor; [|constructor; [|constructor]]; unfold in_u64; vm_compute; split; congruence.
  - vm_compute. reflexivity.
Qed.

Example median_nonvacuous :
  median64 [9223372036854775808; 9223372036854775810] = 9223372036854775809 /\
  median64 [5; 1; 4] = 4 /\ median64 [18446744073709551615; 18446744073709551615] = 18446744073709551615.
Proof. vm_compute. auto. Qed.
