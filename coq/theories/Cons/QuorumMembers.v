(** C04 — a decision rests on at least one member of the snapshot: the running sum of
    consensusPower exists only after the first [add], so neither an empty vote nor votes of
    outsiders only can pass the quorum test — whatever the snapshot's total is (zero, negative).
    (Seeded change C04-E initialised the sum in setTotal: with a total of zero a lone outsider won.) *)
From Coq Require Import List ZArith Bool Permutation Lia.
From Paloma Require Import Base.Num Cons.Quorum Cons.QuorumProofs.
Import ListNotations.
Open Scope Z_scope.

Lemma consensus_tally_member sn vs :
  consensus sn (tally sn vs) = true -> exists v, In v vs /\ insider (sn_vals sn) v = true.
Proof.
  rewrite tally_spec. destruct (existsb (insider (sn_vals sn)) vs) eqn:E; [|discriminate].
  intros _. apply existsb_exists in E. exact E.
Qed.

Theorem winner_has_snapshot_member {K : Type} (keqb : K -> K -> bool) (gk : Z -> Z -> K) :
  (forall a b, keqb a b = true <-> a = b) ->
  forall ord sn evs w, (forall gs, Permutation (ord gs) gs) ->
  verify_evidence keqb gk ord sn evs = Winner w ->
  exists e, In e evs /\ insider (sn_vals sn) (ev_val e) = true /\ ev_key gk e = ev_key gk w.
Proof.
  intros Hk ord sn evs w Ho. unfold verify_evidence.
  destruct (negb _); [discriminate|]. destruct (existsb ev_bad evs); [discriminate|].
  intros H. apply first_consensus_winner in H. destruct H as (g & Hin & Hq & ->).
  apply (Permutation_in _ (Ho _)) in Hin.
  destruct (GInv_groups_of keqb gk Hk evs) as (_ & Hg & _). destruct (Hg g Hin) as (Hv & Hkey & _).
  unfold hasq in Hq. apply consensus_tally_member in Hq. destruct Hq as (v & Iv & Ins).
  rewrite Hv in Iv. apply (in_backers keqb gk Hk) in Iv. destruct Iv as (e & Ie & Ke & <-).
  exists e. split; [exact Ie|]. split; [exact Ins|]. now rewrite Ke.
Qed.

Theorem no_member_no_winner {K : Type} (keqb : K -> K -> bool) (gk : Z -> Z -> K) ord sn evs :
  existsb (fun e => insider (sn_vals sn) (ev_val e)) evs = false ->
  verify_evidence keqb gk ord sn evs = NotAchieved.
Proof.
  intros H. unfold verify_evidence. rewrite tally_spec.
  assert (E : existsb (insider (sn_vals sn)) (map ev_val evs) = false).
  { induction evs as [|e r IH]; [reflexivity|]. cbn [existsb map] in *.
    apply orb_false_iff in H as [H1 H2]. now rewrite H1, IH. }
  now rewrite E.
Qed.

Theorem elected_has_snapshot_member sn es w :
  verify_gas_estimates sn es = Elected w -> exists e, In e es /\ insider (sn_vals sn) (es_val e) = true.
Proof.
  unfold verify_gas_estimates.
  destruct (consensus sn (tally sn (map es_val es))) eqn:E; cbn [negb]; [|discriminate].
  intros _. apply consensus_tally_member in E. destruct E as (v & Iv & Ins).
  apply in_map_iff in Iv. destruct Iv as (e & <- & Ie). now exists e.
Qed.

Lemma process_estimates_guards sn m :
  q_requires m = false \/ q_estimates m = [] \/ 0 < q_elected m -> process_estimates sn m = m.
Proof.
  unfold process_estimates. intros [H | [H | H]].
  - now rewrite H.
  - destruct (negb (q_requires m)); [reflexivity|]. now rewrite H.
  - destruct (negb (q_requires m)); [reflexivity|]. destruct (q_estimates m); [reflexivity|].
    apply Z.ltb_lt in H. now rewrite H.
Qed.

(** an empty snapshot with total zero: a lone outsider decides nothing *)
Example empty_snapshot_outsider :
  verify_evidence (fun a b : Z * Z => (fst a =? fst b) && (snd a =? snd b)) (fun t d => (t, d)) (fun g => g)
    {| sn_vals := []; sn_total := 0 |} [ {| ev_val := 7; ev_tag := 0; ev_data := 1; ev_bad := false |} ] = NotAchieved /\
  verify_gas_estimates {| sn_vals := []; sn_total := 0 |} [ {| es_val := 7; es_value := 5 |} ] = EstNotAchieved.
Proof. split; reflexivity. Qed.
