(** Model of pruning in x/consensus/keeper: PruneJob -> jailValidatorsIfNecessary ->
    (punishValidatorForMissingRelay | jailValidatorsWhichMissedAttestation), and PruneOldMessages as
    a fold over the messages that are old enough.  Definitions only.

    The evidence check is libcons.VerifyEvidence, taken from Cons/Quorum.v (the model C04 proves
    things about); the snapshot handed to it and the snapshot whose validators are walked for jailing
    are both valset.GetCurrentSnapshot in the same block, hence one [sn].  valset.Jail has protections
    of its own (already jailed, last validator, > 25 % of the network: C12's subject); here it is an
    ARBITRARY decision function [jail_ok] of the set jailed so far and the validator, so the
    theorems hold whatever it does.  The floor factor comes from the translated source. *)
From Coq Require Import List ZArith Bool.
From Paloma Require Import Base.Num Cons.Quorum.
From Paloma Require Gen.C13.
Import ListNotations.
Open Scope Z_scope.

(** A queued message as pruning sees it. *)
Record pmsg := {
  pm_public : bool;            (* PublicAccessData set: the relayer reported a transaction *)
  pm_error : bool;             (* ErrorData set: the relayer reported a failure *)
  pm_evs : list evidence       (* evidence entries, one per validator (Queue.AddEvidence) *)
}.

Definition delivered (m : pmsg) : bool := pm_public m || pm_error m.

Definition voters (m : pmsg) : list val := map ev_val (pm_evs m).

(** likelyFaultyMsg: no snapshot validator attested at all (TotalVotes is the zero value), or
    factor * votes < total. *)
Definition below_floor (sn : snapshot) (m : pmsg) : bool :=
  match tally sn (voters m) with
  | None => true
  | Some s => if Gen.C13.prune_floor_strict
              then Gen.C13.prune_floor_factor * s <? sn_total sn
              else Gen.C13.prune_floor_factor * s <=? sn_total sn
  end.

Definition silent (m : pmsg) (v : val) : bool := negb (existsb (Z.eqb v) (voters m)).

(** How a message's evidence list comes to be: MsgAddEvidence by anybody, any number of times, in any
    order (a pigeon retrying, a validator changing its mind).  Queue.AddEvidence keeps ONE entry per
    validator, the latest proof (Cons/Quorum.v [add_evidence]; that the source has this shape is
    Gen.C13.add_evidence_one_entry_per_validator). *)
Definition stored_evidence (subs : list evidence) : list evidence := fold_left add_evidence subs [].

Definition msg_of_submissions (public error : bool) (subs : list evidence) : pmsg :=
  {| pm_public := public; pm_error := error; pm_evs := stored_evidence subs |}.

(** Specification level: the validators that attested (each once, however often they sent), and
    the snapshot share they stand for. *)
Definition attesters (subs : list evidence) : list val := nodup Z.eq_dec (map ev_val subs).
Definition attested_power (sn : snapshot) (subs : list evidence) : Z := power sn (attesters subs).

Section WithKey.
  Context {K : Type} (keqb : K -> K -> bool) (gk : Z -> Z -> K) (ord : list (@group K) -> list (@group K)).

  (** The validators valset.Jail is called for, in call order. *)
  Definition prune_calls (sn : snapshot) (m : pmsg) : list val :=
    if negb (delivered m) then []                       (* undelivered: metrics only *)
    else match verify_evidence keqb gk ord sn (pm_evs m) with
         | Winner _ => []                                (* "unexpected message with valid consensus" *)
         | Failed => []                                  (* VerifyEvidence returned no result *)
         | NotAchieved =>
           if below_floor sn m then []
           else if (match sn_vals sn with [] => true | _ => false end) || (sn_total sn =? 0) then []
           else filter (silent m) (map fst (sn_vals sn))
         end.

  Section Jail.
    Variable jail_ok : list val -> val -> bool.

    Definition jail_one (j : list val) (v : val) : list val := if jail_ok j v then v :: j else j.

    (** PruneJob for one message: the set of jailed validators afterwards. *)
    Definition prune_job (sn : snapshot) (j : list val) (m : pmsg) : list val :=
      fold_left jail_one (prune_calls sn m) j.

    (** PruneOldMessages: every old message of every queue, one after the other. *)
    Definition prune_all (sn : snapshot) (j : list val) (ms : list pmsg) : list val :=
      fold_left (prune_job sn) ms j.
  End Jail.
End WithKey.

(** The whole life of a queued message as far as pruning is concerned: evidence arrives at any time
    (Queue.AddEvidence), the relayer reports a failure (Queue.SetErrorData: ignored when error or
    public-access data is already there) or a delivery (Queue.SetPublicAccessData: ignored when
    public-access data is already there) -- in any order.  Only AddEvidence touches the evidence
    list (Gen.C13.evidence_list_written_only_by_add_evidence): nothing ever clears it. *)
Inductive mop := MEvidence (e : evidence) | MSetError | MSetPublic.

Definition msg_step (m : pmsg) (o : mop) : pmsg :=
  match o with
  | MEvidence e => {| pm_public := pm_public m; pm_error := pm_error m; pm_evs := add_evidence (pm_evs m) e |}
  | MSetError => if pm_error m || pm_public m then m
                 else {| pm_public := pm_public m; pm_error := true; pm_evs := pm_evs m |}
  | MSetPublic => if pm_public m then m
                  else {| pm_public := true; pm_error := pm_error m; pm_evs := pm_evs m |}
  end.

Definition empty_msg : pmsg := {| pm_public := false; pm_error := false; pm_evs := [] |}.
Definition msg_of_history (ops : list mop) : pmsg := fold_left msg_step ops empty_msg.

(** the evidence submissions of a history, in order *)
Definition submissions (ops : list mop) : list evidence :=
  flat_map (fun o => match o with MEvidence e => [e] | _ => [] end) ops.

