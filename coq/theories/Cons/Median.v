(** Model of util/palomath/median.go, instantiated at uint64 (the gas-estimate use in
    util/libcons/consensus.go).  Machine arithmetic is explicit: every +,- is taken mod 2^64. *)
From Coq Require Import List ZArith Bool.
From Paloma Require Import Base.Num.
Import ListNotations.
Open Scope Z_scope.

Fixpoint insert_sorted (x : Z) (l : list Z) : list Z :=
  match l with
  | [] => [x]
  | y :: r => if x <=? y then x :: l else y :: insert_sorted x r
  end.

Definition zsort (l : list Z) : list Z := fold_right insert_sorted [] l.

(** slices.Sort + the even/odd selection.  [nth] defaults are never reached for a
    non-empty slice (MedianProofs.median64_in_range proves the indices are in range). *)
Definition median64 (s : list Z) : Z :=
  match s with
  | [] => 0
  | _ =>
    let w := zsort s in
    let n := length w in
    let c := Nat.div n 2 in
    if Nat.even n
    then let a := nth (c - 1) w 0 in
         let b := nth c w 0 in
         u64 (a + (u64 (b - a)) / 2)
    else nth c w 0
  end.

(** The pre-fix expression, kept to document the defect (see MedianProofs.old_median_refuted). *)
Definition median64_old (s : list Z) : Z :=
  match s with
  | [] => 0
  | _ =>
    let w := zsort s in
    let n := length w in
    let c := Nat.div n 2 in
    if Nat.even n
    then u64 (nth (c - 1) w 0 + nth c w 0) / 2
    else nth c w 0
  end.
