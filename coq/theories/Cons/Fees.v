(** x/consensus/keeper/estimate.go:calculateFeesForEstimate — definitions only.
    Multipliers are raw LegacyDec integers; [None] = the Go expression panics (LegacyDec range
    assertion or Uint64() out of bounds), which is C09's concern. *)
From Coq Require Import ZArith.
From Paloma Require Import Base.Dec.
Open Scope Z_scope.

Record fee_triple := { fee_relayer : Z; fee_community : Z; fee_security : Z }.

Definition fees_for (mult cf sf gas : Z) : option fee_triple :=
  match mul_int_ceil_u64 mult gas with
  | None => None
  | Some r =>
    match mul_int_ceil_u64 cf r with
    | None => None
    | Some c =>
      match mul_int_ceil_u64 sf r with
      | None => None
      | Some s => Some {| fee_relayer := r; fee_community := c; fee_security := s |}
      end
    end
  end.
