(** x/consensus/keeper/estimate.go: calculateFeesForEstimate and its helper mulCeilUint64, and the
    multiplicator validation of x/treasury/keeper/msg_server.go:UpsertRelayerFee — definitions only.
    Multipliers are raw LegacyDec integers; [None] = the Go function returns an error (since the
    C09 fix nothing here panics): only the affected message is skipped. *)
From Coq Require Import ZArith Bool.
From Paloma Require Import Base.Dec.
From Paloma Require Gen.C14.
Open Scope Z_scope.

(** mulCeilUint64(d, n): reject a negative d; product = raw(d) * n on big.Int; QuoRem by 10^18
    (truncated, the product is non-negative); +1 iff the remainder is positive; must fit uint64. *)
Definition mul_ceil_u64 (d n : Z) : option Z :=
  if d <? 0 then None
  else let p := d * n in
       let q := Z.quot p prec in
       let r := Z.rem p prec in
       to_uint64 (if 0 <? r then q + 1 else q).

Record fee_triple := { fee_relayer : Z; fee_community : Z; fee_security : Z }.

Definition fees_for (mult cf sf gas : Z) : option fee_triple :=
  match mul_ceil_u64 mult gas with
  | None => None
  | Some r =>
    match mul_ceil_u64 cf r with
    | None => None
    | Some c =>
      match mul_ceil_u64 sf r with
      | None => None
      | Some s => Some {| fee_relayer := r; fee_community := c; fee_security := s |}
      end
    end
  end.

(** validateMultiplicator: accepted on submission iff 0 < m <= maxRelayerFeeMultiplicator. *)
Definition max_multiplier : Z := of_int Gen.C14.max_relayer_fee_multiplicator.
Definition valid_multiplier (m : Z) : bool := (0 <? m) && (m <=? max_multiplier).
