(** Proofs about the quorum model (Cons/Quorum.v): C04 theorems of DESIGN.md §6.4.
    Nothing here assumes anything about the hash inside the group key: [gk] is an arbitrary
    function, [keqb] is only required to decide equality of keys (Go string ==). *)
From Coq Require Import List ZArith Bool Lia Permutation.
From Paloma Require Import Base.Num Cons.Median Cons.MedianProofs Cons.Quorum.
From Paloma Require Gen.C04.
Import ListNotations.
Open Scope Z_scope.

(* ------------------------------------------------------------------ *)
(** * Shares, power, tally, the quorum inequality *)

Definition nonneg_shares (l : list (val * Z)) : Prop := Forall (fun p => 0 <= snd p) l.

Lemma share0_nonneg l v : nonneg_shares l -> 0 <= share0 l v.
Proof.
  unfold share0. induction 1 as [|[u s] r Hs _ IH]; simpl; [lia|].
  destruct (u =? v); [exact Hs|exact IH].
Qed.

Lemma insider_false_share0 l v : insider l v = false -> share0 l v = 0.
Proof. unfold insider, share0. destruct (share_of l v); [discriminate|reflexivity]. Qed.

Lemma power_nil sn : power sn [] = 0.
Proof. reflexivity. Qed.

Lemma power_cons sn v vs : power sn (v :: vs) = share0 (sn_vals sn) v + power sn vs.
Proof. reflexivity. Qed.

Lemma power_app sn a b : power sn (a ++ b) = power sn a + power sn b.
Proof. unfold power. rewrite map_app. apply zsum_app. Qed.

Lemma power_nonneg sn vs : nonneg_shares (sn_vals sn) -> 0 <= power sn vs.
Proof.
  intros Hn. induction vs as [|v r IH]; [rewrite power_nil; lia|].
  rewrite power_cons. pose proof (share0_nonneg _ v Hn). lia.
Qed.

Lemma power_no_insider sn vs : existsb (insider (sn_vals sn)) vs = false -> power sn vs = 0.
Proof.
  induction vs as [|v r IH]; [reflexivity|]. cbn [existsb]. intros H.
  apply orb_false_iff in H. destruct H as [Hv Hr].
  rewrite power_cons, (insider_false_share0 _ _ Hv), (IH Hr). reflexivity.
Qed.

Lemma tally_from_some sn vs a : tally_from sn (Some a) vs = Some (a + power sn vs).
Proof.
  revert a. induction vs as [|v r IH]; intros a; cbn [tally_from].
  - rewrite power_nil. f_equal. lia.
  - rewrite power_cons. unfold share0. destruct (share_of (sn_vals sn) v) as [s|].
    + rewrite IH. f_equal. lia.
    + rewrite IH. f_equal.
Qed.

Lemma tally_spec sn vs :
  tally sn vs = if existsb (insider (sn_vals sn)) vs then Some (power sn vs) else None.
Proof.
  unfold tally. induction vs as [|v r IH]; [reflexivity|].
  cbn [tally_from existsb]. rewrite power_cons. unfold insider at 1, share0.
  destruct (share_of (sn_vals sn) v) as [s|]; cbn [orb].
  - rewrite tally_from_some. f_equal.
  - rewrite IH. destruct (existsb _ r); reflexivity.
Qed.

(** The quorum inequality as the code has it: here the translated constants are used; if the
    source no longer says 3 and 2 this lemma (and everything below) stops checking. *)
Lemma consensus_some_iff sn s : consensus sn (Some s) = true <-> 2 * sn_total sn <= 3 * s.
Proof.
  unfold consensus.
  change Gen.C04.quorum_total_factor with 2. change Gen.C04.quorum_sum_factor with 3.
  apply Z.leb_le.
Qed.

Lemma consensus_none sn : consensus sn None = false.
Proof. reflexivity. Qed.

Lemma consensus_tally sn vs :
  consensus sn (tally sn vs) = true -> 2 * sn_total sn <= 3 * power sn vs.
Proof.
  rewrite tally_spec. destruct (existsb _ vs); [apply consensus_some_iff|discriminate].
Qed.

Lemma consensus_tally_conv sn vs :
  0 < sn_total sn -> 2 * sn_total sn <= 3 * power sn vs -> consensus sn (tally sn vs) = true.
Proof.
  intros Ht Hq. rewrite tally_spec. destruct (existsb _ vs) eqn:E.
  - now apply consensus_some_iff.
  - rewrite (power_no_insider _ _ E) in Hq. lia.
Qed.

(** The threshold is exactly ceil(2*total/3). *)
Lemma quorum_threshold_exact sn s :
  consensus sn (Some s) = true <-> (2 * sn_total sn + 2) / 3 <= s.
Proof.
  rewrite consensus_some_iff.
  pose proof (Z.div_mod (2 * sn_total sn + 2) 3 ltac:(lia)).
  pose proof (Z.mod_pos_bound (2 * sn_total sn + 2) 3 ltac:(lia)). lia.
Qed.

(** Distinct validators never stand for more than the sum of all shares. *)
Lemma existsb_eqb_notin u vs : ~ In u vs -> existsb (Z.eqb u) vs = false.
Proof.
  induction vs as [|v r IH]; [reflexivity|]. cbn [existsb In]. intros H.
  apply orb_false_iff. split; [apply Z.eqb_neq; intros ->; apply H; now left|apply IH; tauto].
Qed.

Lemma spower_cons u s r vs : NoDup vs ->
  zsum (map (share0 ((u, s) :: r)) vs)
  = (if existsb (Z.eqb u) vs then s else 0) + zsum (map (share0 r) (filter (fun v => negb (u =? v)) vs)).
Proof.
  induction vs as [|v vs' IH]; intros Hnd; [reflexivity|].
  inversion Hnd as [|? ? Hnotin Hnd']; subst.
  cbn [map zsum existsb filter]. rewrite (IH Hnd').
  unfold share0 at 1. cbn [share_of].
  destruct (u =? v) eqn:E; cbn [negb orb].
  - apply Z.eqb_eq in E. subst v. rewrite (existsb_eqb_notin _ _ Hnotin). lia.
  - cbn [map zsum]. fold (share0 r v). destruct (existsb (Z.eqb u) vs'); lia.
Qed.

Lemma spower_nil vs : zsum (map (share0 []) vs) = 0.
Proof. induction vs as [|v r IH]; [reflexivity|]. cbn [map zsum]. rewrite IH. reflexivity. Qed.

Lemma spower_le l : nonneg_shares l -> forall vs, NoDup vs -> zsum (map (share0 l) vs) <= zsum (map snd l).
Proof.
  induction 1 as [|[u s] r Hs Hr IH]; intros vs Hnd.
  - rewrite spower_nil. simpl. lia.
  - rewrite (spower_cons u s r vs Hnd). cbn [map zsum snd]. cbn [snd] in Hs.
    pose proof (IH _ (NoDup_filter (fun v => negb (u =? v)) Hnd)).
    destruct (existsb (Z.eqb u) vs); lia.
Qed.

Lemma power_le_total sn vs :
  nonneg_shares (sn_vals sn) -> NoDup vs -> power sn vs <= zsum (map snd (sn_vals sn)).
Proof. intros; now apply spower_le. Qed.

Lemma power_filter_le sn (f : val -> bool) vs :
  nonneg_shares (sn_vals sn) -> power sn (filter f vs) <= power sn vs.
Proof.
  intros Hn. induction vs as [|v r IH]; [cbn; lia|]. cbn [filter].
  pose proof (share0_nonneg _ v Hn).
  destruct (f v); rewrite ?power_cons; lia.
Qed.

Lemma zsum_perm l l' : Permutation l l' -> zsum l = zsum l'.
Proof. induction 1; cbn [zsum]; lia. Qed.

Lemma perm_filter {A} (f : A -> bool) l l' : Permutation l l' -> Permutation (filter f l) (filter f l').
Proof.
  induction 1 as [|x l l' _ IH|x y l|l l' l'' _ IH1 _ IH2]; cbn [filter].
  - constructor.
  - destruct (f x); [now constructor|exact IH].
  - destruct (f x), (f y); try reflexivity. apply perm_swap.
  - now transitivity (filter f l').
Qed.

Lemma length_le_1_eq {A} (l : list A) a b : (length l <= 1)%nat -> In a l -> In b l -> a = b.
Proof.
  destruct l as [|x [|y t]]; simpl; intros Hl Ha Hb; try lia; try tauto.
  destruct Ha as [<-|[]], Hb as [<-|[]]. reflexivity.
Qed.

Lemma NoDup_map_filter {A B} (g : A -> B) (f : A -> bool) l : NoDup (map g l) -> NoDup (map g (filter f l)).
Proof.
  induction l as [|x r IH]; cbn [map filter]; intros H; [constructor|].
  inversion H as [|? ? Hn Hr]; subst. destruct (f x); [|now apply IH].
  cbn [map]. constructor; [|now apply IH].
  intros Hin. apply Hn. apply in_map_iff in Hin. destruct Hin as (y & Hy & Hyin).
  apply in_map_iff. exists y. split; [exact Hy|]. apply filter_In in Hyin. tauto.
Qed.

Lemma filter_comm {A} (f g : A -> bool) l : filter f (filter g l) = filter g (filter f l).
Proof.
  induction l as [|x r IH]; [reflexivity|]. cbn [filter].
  destruct (g x) eqn:G, (f x) eqn:F; cbn [filter]; rewrite ?G, ?F, IH; reflexivity.
Qed.

(* ------------------------------------------------------------------ *)
(** * Groups *)

Section Groups.
  Context {K : Type} (keqb : K -> K -> bool) (gk : Z -> Z -> K).
  Hypothesis keqb_spec : forall a b, keqb a b = true <-> a = b.

  Local Notation grp := (@group K).
  Local Notation key := (ev_key gk).
  Local Notation bk := (backers keqb gk).
  Local Notation gadd := (group_add keqb gk).
  Local Notation gof := (groups_of keqb gk).

  Lemma keqb_refl k : keqb k k = true.
  Proof. now apply keqb_spec. Qed.

  Lemma keqb_neq a b : a <> b -> keqb a b = false.
  Proof. intros H. destruct (keqb a b) eqn:E; [|reflexivity]. apply keqb_spec in E. contradiction. Qed.

  Definition upd (g : grp) (e : evidence) : grp :=
    {| g_key := g_key g; g_rep := g_rep g; g_vals := g_vals g ++ [ev_val e] |}.
  Definition newg (e : evidence) : grp :=
    {| g_key := key e; g_rep := e; g_vals := [ev_val e] |}.

  Lemma group_add_cases gs e :
    (exists l1 g l2, gs = l1 ++ g :: l2 /\ g_key g = key e /\
        (forall x, In x l1 -> g_key x <> key e) /\ gadd gs e = l1 ++ upd g e :: l2)
    \/ ((forall x, In x gs -> g_key x <> key e) /\ gadd gs e = gs ++ [newg e]).
  Proof.
    induction gs as [|g r IH]; cbn [group_add].
    - right. split; [intros x []|reflexivity].
    - fold (key e). destruct (keqb (g_key g) (key e)) eqn:E.
      + left. exists [], g, r. apply keqb_spec in E. repeat split; auto; intros x [].
      + assert (Hne : g_key g <> key e).
        { intro Hk. rewrite Hk, keqb_refl in E. discriminate. }
        destruct IH as [(l1 & g' & l2 & Hgs & Hk & Hl1 & Hadd)|[Hn Hadd]].
        * left. exists (g :: l1), g', l2. subst r. rewrite Hadd. repeat split; auto.
          intros x [<-|Hx]; auto.
        * right. rewrite Hadd. split; [intros x [<-|Hx]; auto|reflexivity].
  Qed.

  Lemma backers_app evs e k :
    bk (evs ++ [e]) k = bk evs k ++ (if keqb k (key e) then [ev_val e] else []).
  Proof.
    unfold backers. rewrite filter_app, map_app. cbn [filter].
    destruct (keqb k (key e)); reflexivity.
  Qed.

  Lemma backers_none evs k : (forall e, In e evs -> key e <> k) -> bk evs k = [].
  Proof.
    unfold backers. induction evs as [|x r IH]; intros H; [reflexivity|]. cbn [filter].
    rewrite keqb_neq by (intro Hk; apply (H x); [now left|now symmetry]).
    apply IH. intros e He. apply H. now right.
  Qed.

  Lemma in_backers evs k v : In v (bk evs k) -> exists e, In e evs /\ key e = k /\ ev_val e = v.
  Proof.
    unfold backers. intros H. apply in_map_iff in H. destruct H as (e & Hv & He).
    apply filter_In in He. destruct He as [He Hk]. apply keqb_spec in Hk. exists e. auto.
  Qed.

  (** What the grouping loop maintains. *)
  Definition GInv (evs : list evidence) (gs : list grp) : Prop :=
    NoDup (map g_key gs) /\
    (forall g, In g gs -> g_vals g = bk evs (g_key g) /\ g_key g = key (g_rep g) /\ In (g_rep g) evs) /\
    (forall e, In e evs -> In (key e) (map g_key gs)).

  Lemma GInv_step evs gs e : GInv evs gs -> GInv (evs ++ [e]) (gadd gs e).
  Proof.
    intros (Hnd & Hg & Hc).
    destruct (group_add_cases gs e) as [(l1 & g & l2 & Hgs & Hk & Hl1 & Hadd)|[Hn Hadd]]; rewrite Hadd.
    - subst gs.
      assert (Hmap : map g_key (l1 ++ upd g e :: l2) = map g_key (l1 ++ g :: l2))
        by (rewrite !map_app; reflexivity).
      assert (Hl2 : forall x, In x l2 -> g_key x <> key e).
      { intros x Hx Hkx. rewrite map_app in Hnd. cbn [map] in Hnd.
        apply NoDup_remove_2 in Hnd. apply Hnd. apply in_or_app. right.
        rewrite Hk, <- Hkx. now apply in_map. }
      split; [rewrite Hmap; exact Hnd|]. split.
      + intros x Hx. apply in_app_or in Hx. destruct Hx as [Hx|[Hx|Hx]].
        * destruct (Hg x) as (Hv & Hkk & Hin); [apply in_or_app; now left|].
          rewrite backers_app, keqb_neq, app_nil_r by now apply Hl1.
          repeat split; auto. apply in_or_app; now left.
        * subst x. destruct (Hg g) as (Hv & Hkk & Hin); [apply in_or_app; right; now left|].
          cbn [upd g_key g_vals g_rep]. rewrite backers_app, Hk, keqb_refl, <- Hk, <- Hv.
          repeat split; auto. apply in_or_app; now left.
        * destruct (Hg x) as (Hv & Hkk & Hin); [apply in_or_app; right; now right|].
          rewrite backers_app, keqb_neq, app_nil_r by now apply Hl2.
          repeat split; auto. apply in_or_app; now left.
      + intros e' He'. rewrite Hmap. apply in_app_or in He'. destruct He' as [He'|[<-|[]]].
        * now apply Hc.
        * rewrite <- Hk. apply in_map. apply in_or_app. right. now left.
    - assert (Hnew : ~ In (key e) (map g_key gs)).
      { intros Hin. apply in_map_iff in Hin. destruct Hin as (x & Hkx & Hx). exact (Hn x Hx Hkx). }
      split; [|split].
      + rewrite map_app. cbn [map newg g_key].
        eapply Permutation_NoDup; [apply Permutation_cons_append|]. now constructor.
      + intros x Hx. apply in_app_or in Hx. destruct Hx as [Hx|[<-|[]]].
        * destruct (Hg x Hx) as (Hv & Hkk & Hin).
          rewrite backers_app, keqb_neq, app_nil_r by now apply Hn.
          repeat split; auto. apply in_or_app; now left.
        * cbn [newg g_key g_vals g_rep]. rewrite backers_app, keqb_refl.
          rewrite backers_none.
          -- repeat split; auto. apply in_or_app; right; now left.
          -- intros e' He' Hk'. apply Hnew. rewrite <- Hk'. now apply Hc.
      + intros e' He'. rewrite map_app. apply in_or_app. apply in_app_or in He'.
        destruct He' as [He'|[<-|[]]]; [left; now apply Hc|right; now left].
  Qed.

  Lemma groups_of_snoc evs e : gof (evs ++ [e]) = gadd (gof evs) e.
  Proof. unfold groups_of. now rewrite fold_left_app. Qed.

  Lemma GInv_groups_of evs : GInv evs (gof evs).
  Proof.
    induction evs as [|e evs IH] using rev_ind.
    - split; [constructor|]. split; intros ? [].
    - rewrite groups_of_snoc. now apply GInv_step.
  Qed.

  (** ** Share sums over groups *)
  Definition psum (sn : snapshot) (gs : list grp) : Z := zsum (map (fun g => power sn (g_vals g)) gs).

  Lemma psum_group_add sn gs e : psum sn (gadd gs e) = psum sn gs + share0 (sn_vals sn) (ev_val e).
  Proof.
    unfold psum. induction gs as [|g r IH]; cbn [group_add].
    - cbn [map zsum g_vals]. rewrite power_cons, power_nil. lia.
    - destruct (keqb (g_key g) (gk (ev_tag e) (ev_data e))); cbn [map zsum g_vals].
      + rewrite power_app, power_cons, power_nil. lia.
      + rewrite IH. lia.
  Qed.

  Lemma psum_groups_of sn evs : psum sn (gof evs) = power sn (map ev_val evs).
  Proof.
    induction evs as [|e evs IH] using rev_ind; [reflexivity|].
    rewrite groups_of_snoc, psum_group_add, IH, map_app, power_app. cbn [map].
    rewrite power_cons, power_nil. lia.
  Qed.

  Lemma psum_perm sn gs gs' : Permutation gs gs' -> psum sn gs = psum sn gs'.
  Proof. intros H. unfold psum. apply zsum_perm. now apply Permutation_map. Qed.

  Definition hasq (sn : snapshot) (g : grp) : bool := consensus sn (tally sn (g_vals g)).

  Lemma first_consensus_filter sn gs :
    first_consensus sn gs = match filter (hasq sn) gs with [] => NotAchieved | g :: _ => Winner (g_rep g) end.
  Proof.
    induction gs as [|g r IH]; [reflexivity|]. cbn [first_consensus filter]. unfold hasq at 1.
    destruct (consensus sn (tally sn (g_vals g))); [reflexivity|exact IH].
  Qed.

  Lemma psum_nonneg sn gs : nonneg_shares (sn_vals sn) -> 0 <= psum sn gs.
  Proof.
    intros Hn. unfold psum. induction gs as [|g r IH]; cbn [map zsum]; [lia|].
    pose proof (power_nonneg sn (g_vals g) Hn). lia.
  Qed.

  Lemma no_quorum_when_small sn gs :
    nonneg_shares (sn_vals sn) -> 3 * psum sn gs < 2 * sn_total sn -> filter (hasq sn) gs = [].
  Proof.
    intros Hn. induction gs as [|g r IH]; [reflexivity|]. unfold psum in *. cbn [map zsum filter].
    intros Hs. pose proof (power_nonneg sn (g_vals g) Hn). pose proof (psum_nonneg sn r Hn) as Hr.
    unfold psum in Hr. destruct (hasq sn g) eqn:E.
    - unfold hasq in E. apply consensus_tally in E. lia.
    - apply IH. lia.
  Qed.

  (** Two groups cannot both reach the quorum when the groups together stand for less than
      4/3 of the total (in particular when they stand for at most the total, which is > 0). *)
  Lemma at_most_one_quorum sn gs :
    nonneg_shares (sn_vals sn) -> 3 * psum sn gs < 4 * sn_total sn ->
    (length (filter (hasq sn) gs) <= 1)%nat.
  Proof.
    intros Hn. induction gs as [|g r IH]; [simpl; lia|]. unfold psum in *. cbn [map zsum filter].
    intros Hs. pose proof (power_nonneg sn (g_vals g) Hn). pose proof (psum_nonneg sn r Hn) as Hr.
    unfold psum in Hr. destruct (hasq sn g) eqn:E.
    - unfold hasq in E. apply consensus_tally in E.
      rewrite (no_quorum_when_small sn r Hn); [simpl; lia|]. unfold psum. lia.
    - apply IH. lia.
  Qed.

  Lemma fc_perm sn gs gs' :
    Permutation gs gs' -> (length (filter (hasq sn) gs) <= 1)%nat ->
    first_consensus sn gs = first_consensus sn gs'.
  Proof.
    intros Hp Hl. rewrite !first_consensus_filter.
    pose proof (perm_filter (hasq sn) _ _ Hp) as Hf.
    destruct (filter (hasq sn) gs) as [|a [|b t]].
    - apply Permutation_nil in Hf. now rewrite Hf.
    - apply Permutation_length_1_inv in Hf. now rewrite Hf.
    - simpl in Hl. lia.
  Qed.

  Lemma first_consensus_winner sn gs w :
    first_consensus sn gs = Winner w -> exists g, In g gs /\ hasq sn g = true /\ w = g_rep g.
  Proof.
    induction gs as [|g r IH]; cbn [first_consensus]; [discriminate|].
    destruct (consensus sn (tally sn (g_vals g))) eqn:E.
    - intros [= <-]. exists g. split; [now left|]. split; [exact E|reflexivity].
    - intros H. destruct (IH H) as (g' & Hin & Hq & Hw). exists g'. split; [now right|auto].
  Qed.

  Lemma first_consensus_not_failed sn (gs : list grp) : first_consensus sn gs <> Failed.
  Proof. rewrite first_consensus_filter. destruct (filter _ gs); discriminate. Qed.

  (** ** The well-formedness hypotheses on a snapshot and an evidence list *)
  Definition snapshot_ok (sn : snapshot) : Prop :=
    0 < sn_total sn /\ sn_total sn = zsum (map snd (sn_vals sn)) /\ nonneg_shares (sn_vals sn).
  Definition order_ok (ord : list grp -> list grp) : Prop := forall gs, Permutation (ord gs) gs.

  Lemma groups_at_most_one sn evs :
    snapshot_ok sn -> NoDup (map ev_val evs) -> (length (filter (hasq sn) (gof evs)) <= 1)%nat.
  Proof.
    intros (Hpos & Htot & Hn) Hnd. apply at_most_one_quorum; [exact Hn|].
    rewrite psum_groups_of. pose proof (power_le_total sn _ Hn Hnd). lia.
  Qed.

  (** ** winner_unique *)
  Theorem verify_evidence_order_independent ord ord' sn evs :
    order_ok ord -> order_ok ord' -> snapshot_ok sn -> NoDup (map ev_val evs) ->
    verify_evidence keqb gk ord sn evs = verify_evidence keqb gk ord' sn evs.
  Proof.
    intros Ho Ho' Hsn Hnd. unfold verify_evidence.
    destruct (negb _); [reflexivity|]. destruct (existsb ev_bad evs); [reflexivity|].
    pose proof (groups_at_most_one sn evs Hsn Hnd) as Hone.
    transitivity (first_consensus sn (gof evs)).
    - symmetry. apply fc_perm; [symmetry; apply Ho|exact Hone].
    - apply fc_perm; [symmetry; apply Ho'|exact Hone].
  Qed.

  (** ** winner_has_two_thirds (abstract key) *)
  Theorem winner_same_key ord sn evs w :
    order_ok ord ->
    verify_evidence keqb gk ord sn evs = Winner w ->
    In w evs /\ ev_bad w = false /\ existsb ev_bad evs = false /\
    2 * sn_total sn <= 3 * power sn (bk evs (key w)).
  Proof.
    intros Ho. unfold verify_evidence.
    destruct (negb _); [discriminate|]. destruct (existsb ev_bad evs) eqn:Eb; [discriminate|].
    intros H. apply first_consensus_winner in H. destruct H as (g & Hin & Hq & ->).
    apply (Permutation_in _ (Ho _)) in Hin.
    destruct (GInv_groups_of evs) as (_ & Hg & _). destruct (Hg g Hin) as (Hv & Hk & Hrep).
    split; [exact Hrep|]. split.
    - destruct (ev_bad (g_rep g)) eqn:E; [|reflexivity].
      assert (existsb ev_bad evs = true) by (apply existsb_exists; eauto). congruence.
    - split; [reflexivity|]. rewrite <- Hk, <- Hv. now apply consensus_tally.
  Qed.

  (** Same type AND bytes, or an explicit collision of the key function. *)
  Definition key_collision : Prop :=
    exists t d t' d', (t, d) <> (t', d') /\ gk t d = gk t' d'.

  Lemma identical_same_key w e : identical w e = true -> keqb (key w) (key e) = true.
  Proof.
    unfold identical. intros H. apply andb_true_iff in H. destruct H as [Ht Hd].
    apply Z.eqb_eq in Ht, Hd. unfold ev_key. rewrite Ht, Hd. apply keqb_refl.
  Qed.

  Lemma same_key_identical_or_collision evs w :
    key_collision \/ filter (fun e => keqb (key w) (key e)) evs = filter (identical w) evs.
  Proof.
    destruct (existsb (fun e => keqb (key w) (key e) && negb (identical w e)) evs) eqn:E.
    - left. apply existsb_exists in E. destruct E as (e & _ & He).
      apply andb_true_iff in He. destruct He as [Hk Hi]. apply keqb_spec in Hk.
      exists (ev_tag w), (ev_data w), (ev_tag e), (ev_data e). split; [|exact Hk].
      intros [= Ht Hd]. unfold identical in Hi. rewrite Ht, Hd, !Z.eqb_refl in Hi. discriminate.
    - right. apply filter_ext_in. intros e He.
      destruct (identical w e) eqn:Hi; [now apply identical_same_key|].
      destruct (keqb (key w) (key e)) eqn:Hk; [|reflexivity].
      assert (existsb (fun e => keqb (key w) (key e) && negb (identical w e)) evs = true).
      { apply existsb_exists. exists e. split; [exact He|]. now rewrite Hk, Hi. }
      congruence.
  Qed.

  Theorem winner_identical_or_collision ord sn evs w :
    order_ok ord ->
    verify_evidence keqb gk ord sn evs = Winner w ->
    key_collision \/
    2 * sn_total sn <= 3 * power sn (map ev_val (filter (identical w) evs)).
  Proof.
    intros Ho H. destruct (winner_same_key ord sn evs w Ho H) as (_ & _ & _ & Hq).
    destruct (same_key_identical_or_collision evs w) as [Hc|Heq]; [now left|right].
    unfold backers in Hq. now rewrite Heq in Hq.
  Qed.

  (** ** Completeness: 2/3 on one key wins *)
  Lemma power_backers_le_all sn evs k :
    nonneg_shares (sn_vals sn) -> power sn (bk evs k) <= power sn (map ev_val evs).
  Proof.
    intros Hn. unfold backers. induction evs as [|e r IH]; [cbn; lia|]. cbn [filter map].
    pose proof (share0_nonneg _ (ev_val e) Hn).
    destruct (keqb k (key e)); cbn [map]; rewrite ?power_cons; lia.
  Qed.

  Definition quorum_on (sn : snapshot) (evs : list evidence) (k : K) : Prop :=
    2 * sn_total sn <= 3 * power sn (bk evs k).

  (** Outcome of the group loop, characterised through keys only. *)
  Lemma fc_spec ord sn evs :
    order_ok ord -> 0 < sn_total sn -> nonneg_shares (sn_vals sn) ->
    match first_consensus sn (ord (gof evs)) with
    | Winner w => In w evs /\ quorum_on sn evs (key w)
    | NotAchieved => forall e, In e evs -> ~ quorum_on sn evs (key e)
    | Failed => False
    end.
  Proof.
    intros Ho Hpos Hn. destruct (GInv_groups_of evs) as (_ & Hg & Hc).
    destruct (first_consensus sn (ord (gof evs))) as [w| |] eqn:E.
    - apply first_consensus_winner in E. destruct E as (g & Hin & Hq & ->).
      apply (Permutation_in _ (Ho _)) in Hin. destruct (Hg g Hin) as (Hv & Hk & Hrep).
      split; [exact Hrep|]. unfold quorum_on. rewrite <- Hk, <- Hv. now apply consensus_tally.
    - intros e He Hq. apply Hc in He. apply in_map_iff in He. destruct He as (g & Hk & Hin).
      destruct (Hg g Hin) as (Hv & _ & _).
      assert (Hh : hasq sn g = true).
      { unfold hasq. apply consensus_tally_conv; [exact Hpos|]. rewrite Hv, Hk. exact Hq. }
      rewrite first_consensus_filter in E.
      assert (Hf : In g (filter (hasq sn) (ord (gof evs)))).
      { apply filter_In. split; [|exact Hh]. apply (Permutation_in _ (Permutation_sym (Ho _))). exact Hin. }
      destruct (filter (hasq sn) (ord (gof evs))); [destruct Hf|discriminate].
    - now apply first_consensus_not_failed in E.
  Qed.

  Lemma quorum_key_unique sn evs e1 e2 :
    snapshot_ok sn -> NoDup (map ev_val evs) -> In e1 evs -> In e2 evs ->
    quorum_on sn evs (key e1) -> quorum_on sn evs (key e2) -> key e1 = key e2.
  Proof.
    intros Hsn Hnd H1 H2 Hq1 Hq2. pose proof (groups_at_most_one sn evs Hsn Hnd) as Hone.
    destruct Hsn as (Hpos & _ & Hn).
    destruct (GInv_groups_of evs) as (_ & Hg & Hc).
    apply Hc in H1, H2. apply in_map_iff in H1, H2.
    destruct H1 as (g1 & Hk1 & Hin1), H2 as (g2 & Hk2 & Hin2).
    destruct (Hg g1 Hin1) as (Hv1 & _ & _). destruct (Hg g2 Hin2) as (Hv2 & _ & _).
    assert (g1 = g2).
    { apply (length_le_1_eq _ g1 g2 Hone); apply filter_In; (split; [assumption|]);
      unfold hasq; apply consensus_tally_conv; try exact Hpos.
      - rewrite Hv1, Hk1. exact Hq1.
      - rewrite Hv2, Hk2. exact Hq2. }
    subst g2. now rewrite <- Hk1, <- Hk2.
  Qed.

  Theorem two_thirds_identical_wins ord sn evs e :
    order_ok ord -> snapshot_ok sn -> NoDup (map ev_val evs) ->
    existsb ev_bad evs = false -> In e evs -> quorum_on sn evs (key e) ->
    exists w, verify_evidence keqb gk ord sn evs = Winner w /\ key w = key e.
  Proof.
    intros Ho Hsn Hnd Hb He Hq. pose proof Hsn as (Hpos & _ & Hn).
    unfold verify_evidence. rewrite Hb.
    assert (Hgate : consensus sn (tally sn (map ev_val evs)) = true).
    { apply consensus_tally_conv; [exact Hpos|]. unfold quorum_on in Hq.
      pose proof (power_backers_le_all sn evs (key e) Hn). lia. }
    rewrite Hgate. cbn [negb].
    pose proof (fc_spec ord sn evs Ho Hpos Hn) as Hs.
    destruct (first_consensus sn (ord (gof evs))) as [w| |]; [|exfalso; exact (Hs e He Hq)|destruct Hs].
    exists w. split; [reflexivity|]. destruct Hs as [Hw Hqw].
    now apply (quorum_key_unique sn evs w e).
  Qed.

  (** ** outsiders_ignored *)
  Definition ins (sn : snapshot) (e : evidence) : bool := insider (sn_vals sn) (ev_val e).

  Definition same_outcome (a b : outcome) : Prop :=
    match a, b with
    | Winner x, Winner y => key x = key y
    | NotAchieved, NotAchieved => True
    | Failed, Failed => True
    | _, _ => False
    end.

  Lemma power_filter_ins sn (l : list evidence) :
    power sn (map ev_val (filter (ins sn) l)) = power sn (map ev_val l).
  Proof.
    induction l as [|e r IH]; [reflexivity|]. cbn [filter map]. destruct (ins sn e) eqn:E.
    - cbn [map]. rewrite !power_cons, IH. reflexivity.
    - rewrite power_cons, IH. unfold ins in E. rewrite (insider_false_share0 _ _ E). lia.
  Qed.

  Lemma existsb_filter_ins sn (l : list evidence) :
    existsb (insider (sn_vals sn)) (map ev_val (filter (ins sn) l)) = existsb (insider (sn_vals sn)) (map ev_val l).
  Proof.
    induction l as [|e r IH]; [reflexivity|]. cbn [filter map existsb]. destruct (ins sn e) eqn:E.
    - cbn [map existsb]. unfold ins in E. rewrite E. reflexivity.
    - unfold ins in E. rewrite E, IH. reflexivity.
  Qed.

  Lemma tally_filter_ins sn (l : list evidence) :
    tally sn (map ev_val (filter (ins sn) l)) = tally sn (map ev_val l).
  Proof. rewrite !tally_spec, existsb_filter_ins, power_filter_ins. reflexivity. Qed.

  Lemma quorum_on_filter_ins sn evs k : quorum_on sn (filter (ins sn) evs) k <-> quorum_on sn evs k.
  Proof.
    unfold quorum_on, backers. rewrite filter_comm, power_filter_ins. reflexivity.
  Qed.

  Lemma existsb_bad_filter sn evs :
    (forall e, In e evs -> ins sn e = false -> ev_bad e = false) ->
    existsb ev_bad (filter (ins sn) evs) = existsb ev_bad evs.
  Proof.
    induction evs as [|e r IH]; intros H; [reflexivity|]. cbn [filter existsb].
    assert (Hr : existsb ev_bad (filter (ins sn) r) = existsb ev_bad r)
      by (apply IH; intros x Hx; apply H; now right).
    destruct (ins sn e) eqn:E.
    - cbn [existsb]. now rewrite Hr.
    - rewrite (H e (or_introl eq_refl) E). exact Hr.
  Qed.

  Lemma quorum_has_backer sn evs k :
    0 < sn_total sn -> quorum_on sn evs k -> exists e, In e evs /\ key e = k.
  Proof.
    intros Hpos Hq. unfold quorum_on in Hq. destruct (bk evs k) as [|v r] eqn:E.
    - rewrite power_nil in Hq. lia.
    - destruct (in_backers evs k v) as (e & He & Hk & _); [rewrite E; now left|]. eauto.
  Qed.

  Theorem outsiders_ignored_gen ord ord' sn evs :
    order_ok ord -> order_ok ord' -> snapshot_ok sn -> NoDup (map ev_val evs) ->
    (forall e, In e evs -> ins sn e = false -> ev_bad e = false) ->
    same_outcome (verify_evidence keqb gk ord sn evs)
                 (verify_evidence keqb gk ord' sn (filter (ins sn) evs)).
  Proof.
    intros Ho Ho' Hsn Hnd Hout. pose proof Hsn as (Hpos & _ & Hn).
    unfold verify_evidence. rewrite tally_filter_ins, (existsb_bad_filter sn evs Hout).
    destruct (negb _); [exact I|]. destruct (existsb ev_bad evs); [exact I|].
    set (fe := filter (ins sn) evs).
    assert (Hsub : forall e, In e fe -> In e evs) by (intros e He; apply filter_In in He; tauto).
    pose proof (fc_spec ord sn evs Ho Hpos Hn) as Ha.
    pose proof (fc_spec ord' sn fe Ho' Hpos Hn) as Hb.
    destruct (first_consensus sn (ord (gof evs))) as [w| |];
      destruct (first_consensus sn (ord' (gof fe))) as [w'| |]; cbn [same_outcome]; try tauto.
    - destruct Ha as [Hw Hq], Hb as [Hw' Hq']. apply (proj1 (quorum_on_filter_ins sn evs _)) in Hq'.
      apply (quorum_key_unique sn evs w w'); auto.
    - destruct Ha as [Hw Hq]. apply (proj2 (quorum_on_filter_ins sn evs _)) in Hq.
      destruct (quorum_has_backer sn fe _ Hpos Hq) as (e & He & Hk).
      apply (Hb e He). now rewrite Hk.
    - destruct Hb as [Hw' Hq']. apply (proj1 (quorum_on_filter_ins sn evs _)) in Hq'. exact (Ha w' (Hsub _ Hw') Hq').
  Qed.
End Groups.

(* ------------------------------------------------------------------ *)
(** * The key the code builds (type URL + hash of the bytes) *)

(** [h] is any function at all (sha256 over the pair, in the code); no injectivity is assumed,
    the collision is an explicit disjunct.  The proof goes through only because the translated
    source says that both the type and the bytes enter the key. *)
Theorem winner_two_thirds_identical_code_key {K : Type} (keqb : K -> K -> bool) (h : Z -> Z -> K) :
  (forall a b, keqb a b = true <-> a = b) ->
  forall ord sn evs w, order_ok ord ->
  verify_evidence keqb (code_key h) ord sn evs = Winner w ->
  (exists t d t' d', (t, d) <> (t', d') /\ h t d = h t' d') \/
  2 * sn_total sn <= 3 * power sn (map ev_val (filter (identical w) evs)).
Proof.
  intros Hk ord sn evs w Ho H.
  exact (winner_identical_or_collision keqb (code_key h) Hk ord sn evs w Ho H).
Qed.

Lemma backers_nodup {K : Type} (keqb : K -> K -> bool) (gk : Z -> Z -> K) evs k :
  NoDup (map ev_val evs) -> NoDup (backers keqb gk evs k).
Proof. intros H. unfold backers. now apply NoDup_map_filter. Qed.

(* ------------------------------------------------------------------ *)
(** * AddEvidence: one entry per validator, the latest proof *)

Definition payload (e : evidence) : Z * Z * bool := (ev_tag e, ev_data e, ev_bad e).

Fixpoint lookup_ev (evs : list evidence) (v : val) : option (Z * Z * bool) :=
  match evs with
  | [] => None
  | x :: r => if ev_val x =? v then Some (payload x) else lookup_ev r v
  end.

Lemma lookup_add evs e v :
  lookup_ev (add_evidence evs e) v = if ev_val e =? v then Some (payload e) else lookup_ev evs v.
Proof.
  induction evs as [|x r IH]; cbn [add_evidence lookup_ev]; [reflexivity|].
  destruct (ev_val x =? ev_val e) eqn:E; cbn [lookup_ev ev_val].
  - apply Z.eqb_eq in E. rewrite E. destruct (ev_val e =? v); reflexivity.
  - rewrite IH. destruct (ev_val x =? v) eqn:Ex; [|reflexivity].
    apply Z.eqb_eq in Ex. apply Z.eqb_neq in E. rewrite <- Ex.
    destruct (ev_val e =? ev_val x) eqn:E2; [|reflexivity]. apply Z.eqb_eq in E2. congruence.
Qed.

Lemma lookup_app a b v :
  lookup_ev (a ++ b) v = match lookup_ev a v with Some p => Some p | None => lookup_ev b v end.
Proof.
  induction a as [|x r IH]; [reflexivity|]. cbn [app lookup_ev]. destruct (ev_val x =? v); [reflexivity|exact IH].
Qed.

Lemma vals_add evs e :
  map ev_val (add_evidence evs e)
  = if existsb (fun x => ev_val x =? ev_val e) evs then map ev_val evs else map ev_val evs ++ [ev_val e].
Proof.
  induction evs as [|x r IH]; [reflexivity|]. cbn [add_evidence existsb].
  destruct (ev_val x =? ev_val e); cbn [orb map ev_val]; [reflexivity|].
  rewrite IH. destruct (existsb _ r); reflexivity.
Qed.

Lemma add_evidence_nodup evs e : NoDup (map ev_val evs) -> NoDup (map ev_val (add_evidence evs e)).
Proof.
  intros H. rewrite vals_add. destruct (existsb _ evs) eqn:E; [exact H|].
  eapply Permutation_NoDup; [apply Permutation_cons_append|]. constructor; [|exact H].
  intros Hin. apply in_map_iff in Hin. destruct Hin as (x & Hx & Hin).
  assert (existsb (fun x => ev_val x =? ev_val e) evs = true).
  { apply existsb_exists. exists x. split; [exact Hin|]. now apply Z.eqb_eq. }
  congruence.
Qed.

Theorem add_evidence_latest : forall subs init,
  NoDup (map ev_val init) ->
  NoDup (map ev_val (fold_left add_evidence subs init)) /\
  forall v, lookup_ev (fold_left add_evidence subs init) v
            = match lookup_ev (rev subs) v with Some p => Some p | None => lookup_ev init v end.
Proof.
  induction subs as [|e r IH]; intros init Hnd; cbn [fold_left].
  - split; [exact Hnd|reflexivity].
  - destruct (IH (add_evidence init e) (add_evidence_nodup _ _ Hnd)) as [Hn Hl].
    split; [exact Hn|]. intros v. rewrite Hl. cbn [rev]. rewrite lookup_app, lookup_add.
    cbn [lookup_ev]. destruct (lookup_ev (rev r) v); [reflexivity|].
    destruct (ev_val e =? v); reflexivity.
Qed.

(* ------------------------------------------------------------------ *)
(** * Gas estimates *)

Theorem estimate_two_thirds sn es w :
  verify_gas_estimates sn es = Elected w ->
  2 * sn_total sn <= 3 * power sn (map es_val es) /\
  w = median64 (map es_value es) /\ w <> 0 /\ es <> [].
Proof.
  unfold verify_gas_estimates.
  destruct (consensus sn (tally sn (map es_val es))) eqn:E; cbn [negb]; [|discriminate].
  destruct (median64 (map es_value es) =? 0) eqn:E0; [discriminate|]. intros [= <-].
  apply Z.eqb_neq in E0. split; [now apply consensus_tally|]. split; [reflexivity|]. split; [exact E0|].
  intros ->. apply E0. reflexivity.
Qed.

Theorem estimate_two_thirds_median sn es w :
  Forall (fun e => in_u64 (es_value e)) es ->
  verify_gas_estimates sn es = Elected w ->
  2 * sn_total sn <= 3 * power sn (map es_val es) /\
  exists a b, In a es /\ In b es /\ es_value a <= w <= es_value b.
Proof.
  intros Hr H. destruct (estimate_two_thirds sn es w H) as (Hq & -> & _ & Hne).
  split; [exact Hq|].
  destruct (median64_between_members (map es_value es)) as (a & b & Ha & Hb & Hm).
  - destruct es; [congruence|discriminate].
  - apply Forall_map. exact Hr.
  - apply in_map_iff in Ha, Hb. destruct Ha as (ea & <- & Hea), Hb as (eb & <- & Heb).
    exists ea, eb. auto.
Qed.

(** ** One queued message, all histories *)

Lemma add_gas_estimate_some m e m' :
  add_gas_estimate m e = Some m' ->
  q_estimates m' = q_estimates m ++ [e] /\ q_elected m' = q_elected m /\ q_requires m' = q_requires m /\
  ~ In (es_val e) (map es_val (q_estimates m)).
Proof.
  unfold add_gas_estimate. destruct (negb (q_requires m)); [discriminate|].
  destruct (existsb _ (q_estimates m)) eqn:E; [discriminate|]. intros [= <-]. cbn.
  repeat split. intros Hin. apply in_map_iff in Hin. destruct Hin as (x & Hx & Hin).
  assert (existsb (fun x => es_val x =? es_val e) (q_estimates m) = true).
  { apply existsb_exists. exists x. split; [exact Hin|]. now apply Z.eqb_eq. }
  congruence.
Qed.

Lemma set_elected_some m v m' :
  set_elected m v = Some m' ->
  q_elected m = 0 /\ q_elected m' = v /\ q_estimates m' = q_estimates m /\ q_requires m' = q_requires m.
Proof.
  unfold set_elected. destruct (q_requires m) eqn:R; cbn [negb]; [|discriminate].
  destruct (q_elected m =? 0) eqn:E; cbn [negb]; [|discriminate]. intros [= <-]. cbn.
  apply Z.eqb_eq in E. auto.
Qed.

Lemma process_cases sn m :
  process_estimates sn m = m \/
  (q_elected m = 0 /\ exists w m', verify_gas_estimates sn (q_estimates m) = Elected w /\
      set_elected m w = Some m' /\ process_estimates sn m = m').
Proof.
  unfold process_estimates. destruct (negb (q_requires m)); [now left|].
  destruct (q_estimates m) as [|e0 r] eqn:Ees; [now left|].
  destruct (0 <? q_elected m); [now left|].
  destruct (verify_gas_estimates sn (e0 :: r)) as [w| |] eqn:Ev; try (now left).
  destruct (set_elected m w) as [m'|] eqn:Es; [|now left].
  right. destruct (set_elected_some _ _ _ Es) as (H0 & _). split; [exact H0|]. exists w, m'. auto.
Qed.

Lemma step_elected_keep m o : q_elected m <> 0 -> q_elected (qm_step m o) = q_elected m.
Proof.
  intros Hne. destruct o as [e|v|sn]; cbn [qm_step].
  - destruct (add_gas_estimate m e) eqn:E; [|reflexivity]. now apply add_gas_estimate_some in E.
  - destruct (set_elected m v) eqn:E; [|reflexivity]. apply set_elected_some in E. tauto.
  - destruct (process_cases sn m) as [->|(H0 & _)]; [reflexivity|contradiction].
Qed.

Lemma step_requires m o : q_requires (qm_step m o) = q_requires m.
Proof.
  destruct o as [e|v|sn]; cbn [qm_step].
  - destruct (add_gas_estimate m e) eqn:E; [|reflexivity]. now apply add_gas_estimate_some in E.
  - destruct (set_elected m v) eqn:E; [|reflexivity]. now apply set_elected_some in E.
  - destruct (process_cases sn m) as [->|(_ & w & m' & _ & Hs & ->)]; [reflexivity|].
    now apply set_elected_some in Hs.
Qed.

Lemma step_estimates m o :
  exists r, q_estimates (qm_step m o) = q_estimates m ++ r /\
            (NoDup (map es_val (q_estimates m)) -> NoDup (map es_val (q_estimates (qm_step m o)))).
Proof.
  destruct o as [e|v|sn]; cbn [qm_step].
  - destruct (add_gas_estimate m e) as [m'|] eqn:E.
    + apply add_gas_estimate_some in E. destruct E as (He & _ & _ & Hn). exists [e]. split; [exact He|].
      intros Hnd. rewrite He, map_app. cbn [map].
      eapply Permutation_NoDup; [apply Permutation_cons_append|]. now constructor.
    + exists []. rewrite app_nil_r. auto.
  - destruct (set_elected m v) as [m'|] eqn:E.
    + apply set_elected_some in E. destruct E as (_ & _ & He & _). exists []. rewrite app_nil_r, He. auto.
    + exists []. rewrite app_nil_r. auto.
  - destruct (process_cases sn m) as [->|(_ & w & m' & _ & Hs & ->)].
    + exists []. rewrite app_nil_r. auto.
    + apply set_elected_some in Hs. destruct Hs as (_ & _ & He & _). exists []. rewrite app_nil_r, He. auto.
Qed.

Definition run (ops : list qm_op) (m : qmsg) : qmsg := fold_left qm_step ops m.

Theorem elected_stays : forall ops m, q_elected m <> 0 -> q_elected (run ops m) = q_elected m.
Proof.
  unfold run. induction ops as [|o r IH]; intros m Hne; [reflexivity|]. cbn [fold_left].
  rewrite IH; rewrite step_elected_keep; auto.
Qed.

Theorem requires_stays : forall ops m, q_requires (run ops m) = q_requires m.
Proof.
  unfold run. induction ops as [|o r IH]; intros m; [reflexivity|]. cbn [fold_left].
  now rewrite IH, step_requires.
Qed.

Theorem estimates_append_only : forall ops m,
  exists r, q_estimates (run ops m) = q_estimates m ++ r /\
            (NoDup (map es_val (q_estimates m)) -> NoDup (map es_val (q_estimates (run ops m)))).
Proof.
  unfold run. induction ops as [|o ops IH]; intros m; cbn [fold_left].
  - exists []. rewrite app_nil_r. auto.
  - destruct (step_estimates m o) as (r1 & H1 & N1). destruct (IH (qm_step m o)) as (r2 & H2 & N2).
    exists (r1 ++ r2). split; [rewrite H2, H1, app_assoc; reflexivity|intros Hnd; apply N2, N1, Hnd].
Qed.

(** When only the chain's own operations run (estimates come in, the end-blocker elects), a
    non-zero elected estimate was produced by VerifyGasEstimates on the estimates present at
    that end-block, under that block's snapshot. *)
Theorem elected_came_from_quorum : forall ops m0,
  q_elected m0 = 0 -> Forall system_op ops -> q_elected (run ops m0) <> 0 ->
  exists sn pre rest,
    In (OpEndBlock sn) ops /\
    q_estimates (run ops m0) = (q_estimates m0 ++ pre) ++ rest /\
    verify_gas_estimates sn (q_estimates m0 ++ pre) = Elected (q_elected (run ops m0)).
Proof.
  induction ops as [|o ops IH]; intros m0 H0 Hsys Hne.
  - cbn in Hne. contradiction.
  - inversion Hsys as [|? ? Ho Hsys']; subst. change (run (o :: ops) m0) with (run ops (qm_step m0 o)) in *.
    destruct (Z.eq_dec (q_elected (qm_step m0 o)) 0) as [Hz|Hnz].
    + destruct (IH _ Hz Hsys' Hne) as (sn & pre & rest & Hin & He & Hv).
      destruct (step_estimates m0 o) as (r1 & H1 & _). rewrite H1 in He, Hv.
      exists sn, (r1 ++ pre), rest. split; [now right|]. rewrite app_assoc. auto.
    + destruct o as [e|v|sn]; cbn [system_op] in Ho; [|contradiction|].
      * exfalso. apply Hnz. cbn [qm_step].
        destruct (add_gas_estimate m0 e) eqn:E; [|exact H0]. apply add_gas_estimate_some in E.
        destruct E as (_ & -> & _). exact H0.
      * cbn [qm_step] in *. destruct (process_cases sn m0) as [Heq|(_ & w & m' & Hv & Hs & Heq)].
        -- rewrite Heq in Hnz. contradiction.
        -- rewrite Heq in *. apply set_elected_some in Hs. destruct Hs as (_ & Hw & He & _).
           destruct (estimates_append_only ops m') as (rest & Hr & _).
           exists sn, [], rest. split; [now left|]. rewrite app_nil_r, Hr, He. split; [reflexivity|].
           rewrite elected_stays by exact Hnz. now rewrite Hw.
Qed.

(* ------------------------------------------------------------------ *)
(** * Non-vacuity and boundary examples (collision-free pair key) *)

Definition pkey (t d : Z) : Z * Z := (t, d).
Definition pkeqb (a b : Z * Z) : bool := (fst a =? fst b) && (snd a =? snd b).

Lemma pkeqb_spec a b : pkeqb a b = true <-> a = b.
Proof.
  destruct a as [a1 a2], b as [b1 b2]. unfold pkeqb. cbn [fst snd]. rewrite andb_true_iff, !Z.eqb_eq.
  split; [intros [-> ->]; reflexivity|intros [= -> ->]; auto].
Qed.

Lemma order_ok_id {K} : order_ok (fun gs : list (@group K) => gs).
Proof. intros gs. reflexivity. Qed.

Lemma order_ok_rev {K} : order_ok (@rev (@group K)).
Proof. intros gs. symmetry. apply Permutation_rev. Qed.

Definition ev (v tag d : Z) : evidence := {| ev_val := v; ev_tag := tag; ev_data := d; ev_bad := false |}.
Definition snap (l : list (Z * Z)) : snapshot := {| sn_vals := l; sn_total := zsum (map snd l) |}.
Definition ve (ord : list (@group (Z * Z)) -> list group) := verify_evidence pkeqb (code_key pkey) ord.

Example snapshot_ok_example : snapshot_ok (snap [(1, 1); (2, 1); (3, 1)]).
Proof. repeat split; try reflexivity. repeat constructor; cbn; lia. Qed.

(** exactly two thirds is accepted; one share less is not *)
Example boundary_exactly_two_thirds :
  ve (fun g => g) (snap [(1, 1); (2, 1); (3, 1)]) [ev 1 0 7; ev 2 0 7] = Winner (ev 1 0 7) /\
  ve (fun g => g) (snap [(1, 200); (2, 100)]) [ev 1 0 7] = Winner (ev 1 0 7) /\
  ve (fun g => g) (snap [(1, 199); (2, 101)]) [ev 1 0 7] = NotAchieved.
Proof. vm_compute. auto. Qed.

(** totals that are not a multiple of 3: the threshold is ceil(2*total/3) *)
Example boundary_total_not_divisible :
  ve (fun g => g) (snap [(1, 66); (2, 34)]) [ev 1 0 7] = NotAchieved /\
  ve (fun g => g) (snap [(1, 67); (2, 33)]) [ev 1 0 7] = Winner (ev 1 0 7) /\
  ve (fun g => g) (snap [(1, 67); (2, 34)]) [ev 1 0 7] = NotAchieved /\
  ve (fun g => g) (snap [(1, 68); (2, 33)]) [ev 1 0 7] = Winner (ev 1 0 7) /\
  consensus (snap [(1, 1)]) (Some 1) = true /\ consensus (snap [(1, 2)]) (Some 1) = false.
Proof. vm_compute. repeat split. Qed.

(** split votes: 2/3 have spoken but on different evidence; a different type is different
    evidence even with equal bytes; any visiting order gives the same answer *)
Example boundary_split_and_types :
  ve (fun g => g) (snap [(1, 1); (2, 1); (3, 1)]) [ev 1 0 7; ev 2 0 8] = NotAchieved /\
  ve (fun g => g) (snap [(1, 1); (2, 1); (3, 1)]) [ev 1 0 7; ev 2 1 7] = NotAchieved /\
  ve (fun g => g) (snap [(1, 1); (2, 1); (3, 1)]) [ev 1 0 7; ev 2 0 8; ev 3 0 8] = Winner (ev 2 0 8) /\
  ve (@rev _) (snap [(1, 1); (2, 1); (3, 1)]) [ev 1 0 7; ev 2 0 8; ev 3 0 8] = Winner (ev 2 0 8).
Proof. vm_compute. repeat split. Qed.

(** an outsider adds nothing, whatever it says *)
Example outsider_example :
  ve (fun g => g) (snap [(1, 1); (2, 1); (3, 1)]) [ev 9 0 7; ev 1 0 7] = NotAchieved /\
  ve (fun g => g) (snap [(1, 1); (2, 1); (3, 1)]) [ev 9 0 8; ev 1 0 7; ev 2 0 7] = Winner (ev 1 0 7).
Proof. vm_compute. repeat split. Qed.

Example resubmission_example :
  fold_left add_evidence [ev 1 0 7; ev 2 0 7; ev 1 0 8] [] = [ev 1 0 8; ev 2 0 7].
Proof. reflexivity. Qed.

Definition est (v x : Z) : estimate := {| es_val := v; es_value := x |}.
Definition qm0 : qmsg := {| q_requires := true; q_estimates := []; q_elected := 0; q_nsigs := 3 |}.

Example estimate_examples :
  verify_gas_estimates (snap [(1, 1); (2, 1); (3, 1)]) [est 1 10; est 2 30] = Elected 20 /\
  verify_gas_estimates (snap [(1, 1); (2, 1); (3, 1)]) [est 1 10; est 9 30] = EstNotAchieved /\
  let ops := [OpAddEstimate (est 1 10); OpEndBlock (snap [(1, 1); (2, 1); (3, 1)]); OpAddEstimate (est 2 30);
              OpAddEstimate (est 2 50); OpEndBlock (snap [(1, 1); (2, 1); (3, 1)]); OpAddEstimate (est 3 1000);
              OpEndBlock (snap [(1, 1); (2, 1); (3, 1)]); OpSetElected 5] in
  q_elected (run ops qm0) = 20 /\ map es_val (q_estimates (run ops qm0)) = [1; 2; 3] /\ q_nsigs (run ops qm0) = 0%nat.
Proof. vm_compute. repeat split. Qed.
