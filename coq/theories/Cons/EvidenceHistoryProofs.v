From Coq Require Import String.
From Coq Require Import List NArith ZArith Bool Lia Permutation.
From Paloma Require Import Base.Num Cons.Quorum Cons.QuorumProofs Cons.EvidenceBytes Cons.EvidenceBytesProofs.
From Paloma Require Import Cons.EvidenceHistory.
Import ListNotations.
Open Scope Z_scope.

Lemma lookup_add_pev l e v :
  lookup_pev (add_pev l e) v = if pe_val e =? v then Some (pe_proof e) else lookup_pev l v.
Proof.
  induction l as [|x r IH]; cbn [add_pev lookup_pev]; [reflexivity|].
  destruct (pe_val x =? pe_val e) eqn:E; cbn [lookup_pev pe_val pe_proof].
  - apply Z.eqb_eq in E. rewrite E. destruct (pe_val e =? v); reflexivity.
  - rewrite IH. destruct (pe_val x =? v) eqn:Ex; [|reflexivity].
    apply Z.eqb_eq in Ex. apply Z.eqb_neq in E. rewrite <- Ex.
    destruct (pe_val e =? pe_val x) eqn:E2; [|reflexivity]. apply Z.eqb_eq in E2. congruence.
Qed.

Lemma lookup_pev_app a b v :
  lookup_pev (a ++ b) v = match lookup_pev a v with Some p => Some p | None => lookup_pev b v end.
Proof.
  induction a as [|x r IH]; [reflexivity|]. cbn [app lookup_pev]. destruct (pe_val x =? v); [reflexivity|exact IH].
Qed.

Lemma vals_add_pev l e :
  map pe_val (add_pev l e)
  = if existsb (fun x => pe_val x =? pe_val e) l then map pe_val l else map pe_val l ++ [pe_val e].
Proof.
  induction l as [|x r IH]; [reflexivity|]. cbn [add_pev existsb].
  destruct (pe_val x =? pe_val e); cbn [orb map pe_val]; [reflexivity|].
  rewrite IH. destruct (existsb _ r); reflexivity.
Qed.

Lemma add_pev_nodup l e : NoDup (map pe_val l) -> NoDup (map pe_val (add_pev l e)).
Proof.
  intros H. rewrite vals_add_pev. destruct (existsb _ l) eqn:E; [exact H|].
  eapply Permutation_NoDup; [apply Permutation_cons_append|]. constructor; [|exact H].
  intros I. apply in_map_iff in I as (x & Hx & Ix).
  assert (existsb (fun x => pe_val x =? pe_val e) l = true).
  { apply existsb_exists. exists x. split; [exact Ix | now apply Z.eqb_eq]. }
  congruence.
Qed.

Lemma add_pev_in l e x : In x (add_pev l e) -> In x l \/ pe_proof x = pe_proof e.
Proof.
  induction l as [|y r IH]; cbn [add_pev].
  - intros [<-|[]]. now right.
  - destruct (pe_val y =? pe_val e).
    + intros [<-|I]; [now right | left; now right].
    + intros [<-|I]; [left; now left|]. destruct (IH I); [left; now right | now right].
Qed.

Theorem add_pev_latest : forall subs init,
  NoDup (map pe_val init) ->
  NoDup (map pe_val (fold_left add_pev subs init)) /\
  forall v, lookup_pev (fold_left add_pev subs init) v
            = match lookup_pev (rev subs) v with Some p => Some p | None => lookup_pev init v end.
Proof.
  induction subs as [|e r IH]; intros init Hnd; cbn [fold_left].
  - split; [exact Hnd|reflexivity].
  - destruct (IH (add_pev init e) (add_pev_nodup _ _ Hnd)) as [Hn Hl].
    split; [exact Hn|]. intros v. rewrite Hl. cbn [rev]. rewrite lookup_pev_app, lookup_add_pev.
    cbn [lookup_pev]. destruct (lookup_pev (rev r) v); [reflexivity|].
    destruct (pe_val e =? v); reflexivity.
Qed.

Section History.
  Context {K : Type} (keqb : K -> K -> bool) (h : Z -> Z -> K).
  Hypothesis Hk : forall a b, keqb a b = true <-> a = b.
  Let step := att_step keqb h.

  Lemma step_won s o w : as_won s = Some w -> step s o = s.
  Proof. intros H. unfold step, att_step. now rewrite H. Qed.

  Lemma fold_won ops : forall s w, as_won s = Some w -> fold_left step ops s = s.
  Proof.
    induction ops as [|o r IH]; intros s w H; [reflexivity|]. cbn [fold_left].
    rewrite (step_won s o w H). now apply (IH s w).
  Qed.

  (** While the request is queued, its evidence is exactly the accepted submissions folded by AddEvidence. *)
  Lemma evs_while_queued : forall ops s,
    as_won s = None -> as_won (fold_left step ops s) = None ->
    as_evs (fold_left step ops s) = fold_left add_pev (accepted (K:=K) ops) (as_evs s).
  Proof.
    induction ops as [|o r IH]; intros s H0 H1; [reflexivity|]. cbn [fold_left] in *.
    destruct (as_won (step s o)) as [w|] eqn:W.
    { rewrite (fold_won r _ w W) in H1. congruence. }
    rewrite (IH _ W H1). unfold accepted. cbn [flat_map]. rewrite fold_left_app. f_equal.
    unfold step, att_step in *. rewrite H0 in *.
    destruct o as [e|sn ord].
    - destruct (hashable (pe_proof e)); reflexivity.
    - destruct (verify_evidence _ _ _ _ _); reflexivity.
  Qed.

  (** The moment of removal. *)
  Lemma removal_point : forall ops s w,
    as_won s = None -> as_won (fold_left step ops s) = Some w ->
    exists pre sn ord post, ops = pre ++ AoProcess sn ord :: post /\
      as_won (fold_left step pre s) = None /\
      verify_evidence keqb (code_key h) ord sn (map ev_of (as_evs (fold_left step pre s))) = Winner w /\
      as_evs (fold_left step ops s) = as_evs (fold_left step pre s).
  Proof.
    induction ops as [|o r IH]; intros s w H0 H1; [cbn in H1; congruence|]. cbn [fold_left] in H1.
    destruct (as_won (step s o)) as [w'|] eqn:W.
    - (* removed by [o] itself *)
      rewrite (fold_won r _ w' W) in H1. assert (w' = w) by congruence. subst w'.
      unfold step, att_step in W. rewrite H0 in W. destruct o as [e|sn ord].
      + destruct (hashable (pe_proof e)); cbn in W; congruence.
      + destruct (verify_evidence keqb (code_key h) ord sn (map ev_of (as_evs s))) as [w'| |] eqn:V; cbn in W; try congruence.
        exists [], sn, ord, r. split; [reflexivity|]. split; [exact H0|]. split; [cbn [fold_left]; congruence|].
        cbn [fold_left]. rewrite (fold_won r _ w).
        * unfold step, att_step. now rewrite H0, V.
        * unfold step, att_step. now rewrite H0, V.
    - destruct (IH _ w W H1) as (pre & sn & ord & post & -> & Hp & Hv & He).
      exists (o :: pre), sn, ord, post. repeat split; auto.
  Qed.

  (** Over all histories of submissions and attestation runs under any snapshots and any iteration
      orders: if the request was removed with winner [w], then at the run that removed it the stored
      evidence had one entry per validator, each entry the validator's latest accepted submission, and
      the validators whose entry equals the winner's proof IN EVERY FIELD held two thirds of that run's
      snapshot (or the hash has an explicit collision). *)
  Theorem removed_only_with_two_thirds_on_fields : forall ops w,
    Forall (op_ok (K:=K)) ops ->
    as_won (fold_left step ops att_init) = Some w ->
    exists pre sn ord post, ops = pre ++ AoProcess sn ord :: post /\
      let evs := as_evs (fold_left step pre att_init) in
      as_evs (fold_left step ops att_init) = evs /\
      NoDup (map pe_val evs) /\
      (forall v, lookup_pev evs v = lookup_pev (rev (accepted (K:=K) pre)) v) /\
      ((exists t d t' d', (t, d) <> (t', d') /\ h t d = h t' d') \/
       exists wp, In wp evs /\ w = ev_of wp /\
         2 * sn_total sn <= 3 * power sn (map pe_val (filter (same_proof wp) evs))).
  Proof.
    intros ops w Hok Hw.
    destruct (removal_point ops att_init w eq_refl Hw) as (pre & sn & ord & post & -> & Hp & Hv & He).
    exists pre, sn, ord, post. split; [reflexivity|]. cbv zeta.
    pose proof (evs_while_queued pre att_init eq_refl Hp) as Ev. cbn [as_evs att_init] in Ev.
    destruct (add_pev_latest (accepted (K:=K) pre) [] (NoDup_nil _)) as [Hn Hl].
    split; [exact He|]. rewrite Ev. split; [exact Hn|]. split.
    { intros v. rewrite Hl. cbn [lookup_pev]. destruct (lookup_pev _ v); reflexivity. }
    rewrite Ev in Hv.
    apply Forall_app in Hok as [Hpre Hrest]. inversion Hrest as [|? ? Hord _]; subst. cbn in Hord.
    assert (Wf : Forall (fun e => wf_proof (pe_proof e)) (fold_left add_pev (accepted (K:=K) pre) [])).
    { assert (Ha : Forall (fun e => wf_proof (pe_proof e)) (accepted (K:=K) pre)).
      { clear -Hpre. induction pre as [|o r IH]; [constructor|]. inversion Hpre; subst.
        unfold accepted. cbn [flat_map]. apply Forall_app. split; [|now apply IH].
        destruct o as [e|]; [|constructor]. destruct (hashable (pe_proof e)); [|constructor].
        constructor; [assumption | constructor]. }
      revert Ha. generalize (accepted (K:=K) pre). intros l.
      assert (Hi : Forall (fun e : pev => wf_proof (pe_proof e)) []) by constructor. revert Hi.
      generalize (@nil pev). induction l as [|e l IH]; intros init Hi Ha; [exact Hi|].
      cbn [fold_left]. inversion Ha; subst. apply IH; [|assumption].
      apply Forall_forall. intros x Ix. apply add_pev_in in Ix as [Ix|Ix].
      - rewrite Forall_forall in Hi. now apply Hi.
      - now rewrite Ix. }
    destruct (winner_backers_agree_on_fields keqb h Hk ord sn _ w Hord Wf Hv) as [C|(wp & Iw & Ew & _ & Q)]; [now left|right].
    exists wp. auto.
  Qed.
  (** Invariant over all histories: every stored piece of evidence is hashable (AddMessageEvidence refuses
      the others), so the attestation run of a queued request never fails on an absent / unusable proof —
      the side condition of [outsiders_ignored] holds for everything the keeper can store. *)
  Lemma stored_hashable_step s o :
    Forall (fun e => hashable (pe_proof e) = true) (as_evs s) ->
    Forall (fun e => hashable (pe_proof e) = true) (as_evs (step s o)).
  Proof.
    intros H. unfold step, att_step. destruct (as_won s); [exact H|]. destruct o as [e|sn ord].
    - destruct (hashable (pe_proof e)) eqn:E; [|exact H]. cbn [as_evs].
      apply Forall_forall. intros x Ix. apply add_pev_in in Ix as [Ix|Ix].
      + rewrite Forall_forall in H. now apply H.
      + now rewrite Ix.
    - destruct (verify_evidence _ _ _ _ _); exact H.
  Qed.

  Theorem stored_evidence_is_hashable : forall ops,
    Forall (fun e => hashable (pe_proof e) = true) (as_evs (fold_left step ops att_init)).
  Proof.
    intros ops. assert (H : Forall (fun e => hashable (pe_proof e) = true) (as_evs att_init)) by constructor.
    revert H. generalize att_init. induction ops as [|o r IH]; intros s H; [exact H|].
    cbn [fold_left]. apply IH. now apply stored_hashable_step.
  Qed.

  Theorem attestation_run_never_fails : forall ops sn ord,
    verify_evidence keqb (code_key h) ord sn (map ev_of (as_evs (fold_left step ops att_init))) <> Failed.
  Proof.
    intros ops sn ord. pose proof (stored_evidence_is_hashable ops) as H.
    unfold verify_evidence. destruct (negb _); [discriminate|].
    assert (E : existsb ev_bad (map ev_of (as_evs (fold_left step ops att_init))) = false).
    { induction (as_evs (fold_left step ops att_init)) as [|e l IH]; [reflexivity|].
      inversion H as [|? ? He Hl]; subst. cbn [map existsb]. rewrite (IH Hl).
      unfold hashable in He. cbn [ev_of ev_bad]. destruct (bytes_to_hash (pe_proof e)); [reflexivity|discriminate]. }
    rewrite E. clear. induction (ord _) as [|g gs IH]; cbn [first_consensus]; [discriminate|].
    destruct (consensus _ _); [discriminate|exact IH].
  Qed.
  (** The end-blocker declares before it prunes: a request whose stored evidence has a key backed by two
      thirds of the snapshot is declared by the end-block — at ANY height and age, also when pruning is
      due in that very block — and not pruned.  Conversely a pruned request had no winner in that block. *)
  Theorem end_block_declares_before_pruning : forall added (s : mod_state) sn ord ht e,
    (forall gs, Permutation (ord gs) gs) ->
    ms_pruned s = false -> as_won (ms_att s) = None ->
    0 < sn_total sn /\ sn_total sn = zsum (map snd (sn_vals sn)) /\ Forall (fun p => 0 <= snd p) (sn_vals sn) ->
    NoDup (map pe_val (as_evs (ms_att s))) ->
    Forall (fun x => hashable (pe_proof x) = true) (as_evs (ms_att s)) ->
    In e (as_evs (ms_att s)) ->
    2 * sn_total sn <= 3 * power sn (backers keqb (code_key h) (map ev_of (as_evs (ms_att s))) (ev_key (code_key h) (ev_of e))) ->
    exists w, as_won (ms_att (end_block keqb h added s sn ord ht)) = Some w /\
              ev_key (code_key h) w = ev_key (code_key h) (ev_of e) /\
              ms_pruned (end_block keqb h added s sn ord ht) = false.
  Proof.
    intros added s sn ord ht e Ho Hp Hw Hsn Hnd Hh Ie Hq.
    assert (Hnd' : NoDup (map ev_val (map ev_of (as_evs (ms_att s))))).
    { rewrite map_map. exact Hnd. }
    assert (Hb : existsb ev_bad (map ev_of (as_evs (ms_att s))) = false).
    { clear -Hh. induction (as_evs (ms_att s)) as [|x l IH]; [reflexivity|]. inversion Hh as [|? ? Hx Hl]; subst.
      cbn [map existsb]. rewrite (IH Hl). unfold hashable in Hx. cbn [ev_of ev_bad].
      destruct (bytes_to_hash (pe_proof x)); [reflexivity|discriminate]. }
    destruct (two_thirds_identical_wins keqb (code_key h) Hk ord sn (map ev_of (as_evs (ms_att s))) (ev_of e) Ho Hsn Hnd' Hb
                (in_map ev_of _ _ Ie) Hq) as (w & Hv & Hkey).
    exists w. unfold end_block. rewrite Hp, Hw. cbn [att_step]. unfold att_step. rewrite Hw, Hv. cbn [as_won].
    split; [reflexivity|]. split; [exact Hkey|reflexivity].
  Qed.

  Theorem pruned_only_without_winner : forall added (s : mod_state) sn ord ht,
    ms_pruned s = false ->
    ms_pruned (end_block keqb h added s sn ord ht) = true ->
    prune_due added ht = true /\ as_won (ms_att (end_block keqb h added s sn ord ht)) = None /\
    forall w, verify_evidence keqb (code_key h) ord sn (map ev_of (as_evs (ms_att s))) <> Winner w.
  Proof.
    intros added s sn ord ht Hp. unfold end_block. rewrite Hp.
    destruct (as_won (ms_att s)) eqn:W; [congruence|].
    unfold att_step. rewrite W.
    destruct (verify_evidence keqb (code_key h) ord sn (map ev_of (as_evs (ms_att s)))) eqn:V;
      cbn [as_won]; try rewrite W; cbn [ms_pruned ms_att as_won]; try discriminate;
      intros Hd; (split; [exact Hd|]); (split; [exact W|]); intros w'; discriminate.
  Qed.
End History.

Lemma unhashable_refused {K : Type} (keqb : K -> K -> bool) (h : Z -> Z -> K) (s : att_state) (e : pev) :
  hashable (pe_proof e) = false -> att_step keqb h s (AoSubmit e) = s.
Proof. intros H. unfold att_step. destruct (as_won s); [reflexivity|]. now rewrite H. Qed.

Lemma winner_removes {K : Type} (keqb : K -> K -> bool) (h : Z -> Z -> K) (s : att_state) sn ord w :
  as_won s = None ->
  verify_evidence keqb (code_key h) ord sn (map ev_of (as_evs s)) = Winner w ->
  as_won (att_step keqb h s (AoProcess sn ord)) = Some w.
Proof. intros H V. unfold att_step. now rewrite H, V. Qed.

Lemma process_weighs_all {K : Type} (keqb : K -> K -> bool) (h : Z -> Z -> K) (s : att_state) sn ord :
  as_won s = None ->
  as_won (att_step keqb h s (AoProcess sn ord)) =
  match verify_evidence keqb (code_key h) ord sn (map ev_of (as_evs s)) with Winner w => Some w | _ => None end.
Proof. intros H. unfold att_step. rewrite H. destruct (verify_evidence _ _ _ _ _); cbn [as_won]; auto. Qed.

(** Non-vacuity: three equal validators; 1 answers a, 2 answers b: the run removes nothing; a proof-less
    submission of 3 is refused; 2 corrects itself to a: the next run removes the request with a. *)
Example history_removes_after_resubmission :
  let a := PRef 2000 [Byte.x30; Byte.x78; Byte.x61] in
  let b := PRef 2001 [Byte.x30; Byte.x78; Byte.x61] in
  let sn := {| sn_vals := [(1, 1); (2, 1); (3, 1)]; sn_total := 3 |} in
  let keqb := fun x y : Z * Z => (fst x =? fst y) && (snd x =? snd y) in
  let hh := fun t d : Z => (t, d) in
  let ops1 := [AoSubmit {| pe_val := 1; pe_proof := a |}; AoSubmit {| pe_val := 2; pe_proof := b |};
               AoProcess sn (fun g => g); AoSubmit {| pe_val := 3; pe_proof := PUnhashable |}] in
  let ops2 := [AoSubmit {| pe_val := 2; pe_proof := a |}; AoProcess sn (fun g => g);
               AoSubmit {| pe_val := 3; pe_proof := b |}] in
  as_won (fold_left (att_step keqb hh) ops1 att_init) = None /\
  List.length (as_evs (fold_left (att_step keqb hh) ops1 att_init)) = 2%nat /\
  as_won (fold_left (att_step keqb hh) (ops1 ++ ops2) att_init) = Some (ev_of {| pe_val := 1; pe_proof := a |}) /\
  List.length (as_evs (fold_left (att_step keqb hh) (ops1 ++ ops2) att_init)) = 2%nat.
Proof. vm_compute. repeat split; reflexivity. Qed.
