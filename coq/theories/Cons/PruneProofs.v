(** Proofs about Cons/Prune.v: pruning asks valset to jail only snapshot validators that supplied
    no evidence for a delivered, contested message on which at least 10 % of the snapshot's shares
    attested; an undelivered message, a message with consensus, and a message below the floor jail
    nobody -- for every snapshot, every evidence list, every group key, every map order and every
    behaviour of valset.Jail. *)
From Coq Require Import List ZArith Bool Lia Permutation.
From Paloma Require Import Base.Num Cons.Quorum Cons.QuorumProofs Cons.Prune.
From Paloma Require Gen.C13.
Import ListNotations.
Open Scope Z_scope.

Lemma silent_iff m v : silent m v = true <-> ~ In v (voters m).
Proof.
  unfold silent. rewrite negb_true_iff. split.
  - intros E H. assert (X : existsb (Z.eqb v) (voters m) = true).
    { apply existsb_exists. exists v. split; [assumption | apply Z.eqb_refl]. }
    congruence.
  - intros H. destruct (existsb (Z.eqb v) (voters m)) eqn:E; [|reflexivity].
    apply existsb_exists in E. destruct E as [y [Hy Ey]]. apply Z.eqb_eq in Ey. subst. contradiction.
Qed.

Lemma insider_in l v : In v (map fst l) -> insider l v = true.
Proof.
  unfold insider. induction l as [|[u s] r IH]; cbn [map fst In share_of]; [contradiction|].
  intros [E|H].
  - subst. rewrite Z.eqb_refl. reflexivity.
  - destruct (u =? v); [reflexivity | now apply IH].
Qed.

(** The floor, with the constants of the source: fewer than 1/10 of the recorded total. *)
Lemma below_floor_iff sn m :
  below_floor sn m = true <->
  (existsb (insider (sn_vals sn)) (voters m) = false \/ 10 * power sn (voters m) < sn_total sn).
Proof.
  unfold below_floor. rewrite tally_spec.
  change Gen.C13.prune_floor_strict with true. change Gen.C13.prune_floor_factor with 10.
  destruct (existsb (insider (sn_vals sn)) (voters m)) eqn:E.
  - rewrite Z.ltb_lt. split; [now right | intros [H|H]; [discriminate | assumption]].
  - split; [now left | reflexivity].
Qed.

Lemma below_floor_of_lt sn m : 10 * power sn (voters m) < sn_total sn -> below_floor sn m = true.
Proof. intros H. apply below_floor_iff. now right. Qed.

Lemma above_floor sn m : below_floor sn m = false -> sn_total sn <= 10 * power sn (voters m).
Proof.
  intros H. destruct (Z_lt_le_dec (10 * power sn (voters m)) (sn_total sn)) as [L|L]; [|exact L].
  rewrite (below_floor_of_lt _ _ L) in H. discriminate.
Qed.

(** ** Re-submitted evidence.  Whatever is sent and re-sent, the stored list has one entry per
    validator, so the share sum the floor (and VerifyEvidence) see counts every attester once. *)
Lemma stored_evidence_nodup subs : NoDup (voters (msg_of_submissions false false subs)).
Proof.
  unfold voters, msg_of_submissions, stored_evidence. cbn [pm_evs].
  apply (add_evidence_latest subs []). constructor.
Qed.

Lemma vals_add_in evs e v : In v (map ev_val (add_evidence evs e)) <-> In v (map ev_val evs) \/ v = ev_val e.
Proof.
  rewrite vals_add. destruct (existsb (fun x => ev_val x =? ev_val e) evs) eqn:E.
  - split; [now left|]. intros [H|H]; [exact H|]. subst v.
    apply existsb_exists in E. destruct E as (x & Hx & Ex). apply Z.eqb_eq in Ex. rewrite <- Ex.
    now apply in_map.
  - rewrite in_app_iff. cbn [In]. intuition.
Qed.

Lemma stored_from_in subs : forall init v,
  In v (map ev_val (fold_left add_evidence subs init)) <-> In v (map ev_val init) \/ In v (map ev_val subs).
Proof.
  induction subs as [|e r IH]; intros init v; cbn [fold_left map In]; [intuition|].
  rewrite IH, vals_add_in. intuition.
Qed.

Lemma stored_evidence_members subs v p e :
  In v (voters (msg_of_submissions p e subs)) <-> In v (map ev_val subs).
Proof.
  unfold voters, msg_of_submissions, stored_evidence. cbn [pm_evs]. rewrite stored_from_in. cbn [map In]. intuition.
Qed.

Lemma power_perm sn a b : Permutation a b -> power sn a = power sn b.
Proof. intros H. unfold power. apply zsum_perm. now apply Permutation_map. Qed.

Theorem stored_power_is_attested_power sn p e subs :
  power sn (voters (msg_of_submissions p e subs)) = attested_power sn subs.
Proof.
  unfold attested_power, attesters. apply power_perm. apply NoDup_Permutation.
  - exact (stored_evidence_nodup subs).
  - apply NoDup_nodup.
  - intros v. rewrite nodup_In. apply (stored_evidence_members subs v p e).
Qed.

Section WithKey.
  Context {K : Type} (keqb : K -> K -> bool) (gk : Z -> Z -> K) (ord : list (@group K) -> list (@group K)).

  Notation prune_calls := (prune_calls keqb gk ord).
  Notation verify := (verify_evidence keqb gk ord).

  (** Everything that must hold for valset.Jail to be called for [v]. *)
  Definition jail_cause (sn : snapshot) (m : pmsg) (v : val) : Prop :=
    delivered m = true /\
    verify sn (pm_evs m) = NotAchieved /\
    In v (map fst (sn_vals sn)) /\ insider (sn_vals sn) v = true /\
    ~ In v (voters m) /\
    sn_total sn <= 10 * power sn (voters m) /\
    existsb (insider (sn_vals sn)) (voters m) = true.

  Theorem prune_calls_sound sn m v : In v (prune_calls sn m) -> jail_cause sn m v.
  Proof.
    unfold Prune.prune_calls, jail_cause. destruct (delivered m) eqn:D; cbn [negb]; [|contradiction].
    destruct (verify sn (pm_evs m)) eqn:V; try contradiction.
    destruct (below_floor sn m) eqn:F; [contradiction|].
    destruct ((match sn_vals sn with [] => true | _ => false end) || (sn_total sn =? 0)); [contradiction|].
    intros H. apply filter_In in H. destruct H as [Hin Hs].
    repeat split; try reflexivity.
    - exact Hin.
    - now apply insider_in.
    - now apply silent_iff.
    - now apply above_floor.
    - destruct (existsb (insider (sn_vals sn)) (voters m)) eqn:E; [reflexivity|].
      assert (X : below_floor sn m = true) by (apply below_floor_iff; now left). congruence.
  Qed.

  Theorem ten_percent_floor_calls sn m : 10 * power sn (voters m) < sn_total sn -> prune_calls sn m = [].
  Proof.
    intros H. unfold Prune.prune_calls. destruct (negb (delivered m)); [reflexivity|].
    destruct (verify sn (pm_evs m)); try reflexivity.
    rewrite (below_floor_of_lt _ _ H). reflexivity.
  Qed.

  Theorem no_insider_vote_calls sn m :
    existsb (insider (sn_vals sn)) (voters m) = false -> prune_calls sn m = [].
  Proof.
    intros H. unfold Prune.prune_calls. destruct (negb (delivered m)); [reflexivity|].
    destruct (verify sn (pm_evs m)); try reflexivity.
    assert (X : below_floor sn m = true) by (apply below_floor_iff; now left).
    rewrite X. reflexivity.
  Qed.

  Theorem undelivered_calls sn m : pm_public m = false -> pm_error m = false -> prune_calls sn m = [].
  Proof. intros A B. unfold Prune.prune_calls, delivered. rewrite A, B. reflexivity. Qed.

  Theorem consensus_calls sn m w : verify sn (pm_evs m) = Winner w -> prune_calls sn m = [].
  Proof. intros H. unfold Prune.prune_calls. destruct (negb (delivered m)); [reflexivity|]. rewrite H. reflexivity. Qed.

  (** The floor over submissions: re-sending evidence never lifts a message over the floor. *)
  Theorem floor_counts_each_attester_once sn p e subs :
    10 * attested_power sn subs < sn_total sn -> prune_calls sn (msg_of_submissions p e subs) = [].
  Proof. intros H. apply ten_percent_floor_calls. now rewrite stored_power_is_attested_power. Qed.

  (** Whoever sent evidence at least once -- first, later, again -- is not handed to Jail. *)
  Theorem submitter_not_called sn p e subs v :
    In v (map ev_val subs) -> ~ In v (prune_calls sn (msg_of_submissions p e subs)).
  Proof.
    intros Hs Hc. apply prune_calls_sound in Hc. destruct Hc as (_ & _ & _ & _ & Hn & _).
    apply Hn. now apply stored_evidence_members.
  Qed.

  (** Exactness (so that the soundness theorems are not vacuous): past all the guards, every
      silent snapshot validator is handed to valset.Jail, in snapshot order. *)
  Theorem prune_calls_complete sn m :
    delivered m = true -> verify sn (pm_evs m) = NotAchieved -> below_floor sn m = false ->
    sn_vals sn <> [] -> sn_total sn <> 0 ->
    prune_calls sn m = filter (silent m) (map fst (sn_vals sn)).
  Proof.
    intros D V F Hv Ht. unfold Prune.prune_calls. rewrite D, V, F. cbn [negb].
    destruct (sn_vals sn) eqn:E; [contradiction|].
    apply Z.eqb_neq in Ht. rewrite Ht. reflexivity.
  Qed.

  Section Jail.
    Variable jail_ok : list val -> val -> bool.
    Notation jail_one := (jail_one jail_ok).
    Notation prune_job := (prune_job keqb gk ord jail_ok).
    Notation prune_all := (prune_all keqb gk ord jail_ok).

    Lemma jail_fold_incl calls : forall j v, In v (fold_left jail_one calls j) -> In v j \/ In v calls.
    Proof.
      induction calls as [|c r IH]; intros j v H; [now left|].
      cbn [fold_left] in H. apply IH in H. destruct H as [H|H]; [|right; now right].
      unfold Prune.jail_one in H. destruct (jail_ok j c); [|now left].
      destruct H as [E|H]; [right; left; exact E | now left].
    Qed.

    Lemma jail_fold_keeps calls : forall j v, In v j -> In v (fold_left jail_one calls j).
    Proof.
      induction calls as [|c r IH]; intros j v H; [exact H|].
      cbn [fold_left]. apply IH. unfold Prune.jail_one. destruct (jail_ok j c); [now right | exact H].
    Qed.

    Theorem prune_job_sound sn j m v : In v (prune_job sn j m) -> In v j \/ jail_cause sn m v.
    Proof.
      unfold Prune.prune_job. intros H. apply jail_fold_incl in H.
      destruct H as [H|H]; [now left | right; now apply prune_calls_sound].
    Qed.

    Theorem prune_job_noop sn j m : prune_calls sn m = [] -> prune_job sn j m = j.
    Proof. unfold Prune.prune_job. intros E. rewrite E. reflexivity. Qed.

    (** PruneOldMessages: whoever is jailed at the end was either jailed before, or there is ONE
        pruned message for which it is a silent snapshot validator past all the guards. *)
    Theorem prune_all_sound sn ms : forall j v,
      In v (prune_all sn j ms) -> In v j \/ exists m, In m ms /\ jail_cause sn m v.
    Proof.
      induction ms as [|m r IH]; intros j v H; [now left|].
      unfold Prune.prune_all in H. cbn [fold_left] in H. apply IH in H.
      destruct H as [H|[m' [Hm Hc]]].
      - apply prune_job_sound in H. destruct H as [H|H]; [now left|].
        right. exists m. split; [now left | exact H].
      - right. exists m'. split; [now right | exact Hc].
    Qed.

    (** A validator that supplied evidence for every pruned message is never jailed by pruning. *)
    Corollary evidence_suppliers_safe sn ms j v :
      ~ In v j -> (forall m, In m ms -> In v (voters m)) -> ~ In v (prune_all sn j ms).
    Proof.
      intros Hj Hall H. apply prune_all_sound in H. destruct H as [H|[m [Hm Hc]]]; [contradiction|].
      destruct Hc as (_ & _ & _ & _ & Hs & _). apply Hs. now apply Hall.
    Qed.
  End Jail.
End WithKey.

(** ** Message histories: delivery data in any order, evidence at any time.  The stored evidence
    list depends on the evidence submissions alone -- reporting an error or a delivery never touches
    it -- so everything proved about [msg_of_submissions] carries over. *)
Lemma history_evs_from ops : forall m,
  pm_evs (fold_left msg_step ops m) = fold_left add_evidence (submissions ops) (pm_evs m).
Proof.
  induction ops as [|o r IH]; intros m; [reflexivity|].
  cbn [fold_left submissions flat_map]. rewrite IH. destruct o as [e| |]; cbn [msg_step app].
  - reflexivity.
  - destruct (pm_error m || pm_public m); reflexivity.
  - destruct (pm_public m); reflexivity.
Qed.

Theorem history_evidence_is_stored_submissions ops :
  pm_evs (msg_of_history ops) = stored_evidence (submissions ops).
Proof. unfold msg_of_history, stored_evidence. now rewrite history_evs_from. Qed.

(** the evidence list only grows, or replaces a proof per validator: whoever is in it stays in it *)
Lemma step_keeps_voters m o v : In v (voters m) -> In v (voters (msg_step m o)).
Proof.
  unfold voters. destruct o as [e| |]; cbn [msg_step].
  - cbn [pm_evs]. intros H. apply vals_add_in. now left.
  - destruct (pm_error m || pm_public m); trivial.
  - destruct (pm_public m); trivial.
Qed.

Theorem evidence_never_lost ops later v :
  In v (voters (msg_of_history ops)) -> In v (voters (msg_of_history (ops ++ later))).
Proof.
  unfold msg_of_history. rewrite fold_left_app. generalize (fold_left msg_step ops empty_msg) as m.
  induction later as [|o r IH]; intros m H; [exact H|]. cbn [fold_left]. apply IH. now apply step_keeps_voters.
Qed.

Lemma history_voters ops v : In v (voters (msg_of_history ops)) <-> In v (map ev_val (submissions ops)).
Proof.
  unfold voters. rewrite history_evidence_is_stored_submissions.
  exact (stored_evidence_members (submissions ops) v false false).
Qed.

Lemma history_same_calls {K : Type} (keqb : K -> K -> bool) (gk : Z -> Z -> K) (ord : list (@group K) -> list (@group K)) sn ops :
  prune_calls keqb gk ord sn (msg_of_history ops)
  = prune_calls keqb gk ord sn (msg_of_submissions (pm_public (msg_of_history ops)) (pm_error (msg_of_history ops)) (submissions ops)).
Proof.
  unfold Prune.prune_calls, delivered, below_floor, silent, voters, msg_of_submissions. cbn [pm_public pm_error pm_evs].
  now rewrite history_evidence_is_stored_submissions.
Qed.

Theorem supplier_at_any_time_not_called {K : Type} (keqb : K -> K -> bool) (gk : Z -> Z -> K) (ord : list (@group K) -> list (@group K)) sn ops v :
  In v (map ev_val (submissions ops)) -> ~ In v (prune_calls keqb gk ord sn (msg_of_history ops)).
Proof. intros H. rewrite history_same_calls. now apply submitter_not_called. Qed.

Theorem history_floor {K : Type} (keqb : K -> K -> bool) (gk : Z -> Z -> K) (ord : list (@group K) -> list (@group K)) sn ops :
  10 * attested_power sn (submissions ops) < sn_total sn -> prune_calls keqb gk ord sn (msg_of_history ops) = [].
Proof. intros H. rewrite history_same_calls. now apply floor_counts_each_attester_once. Qed.

(** ** Examples (non-vacuity), with the ideal pair key. *)
Definition xkey (tag data : Z) : Z * Z := (tag, data).
Definition xkeqb (a b : Z * Z) : bool := (fst a =? fst b) && (snd a =? snd b).
Definition xev (v tag d : Z) : evidence := {| ev_val := v; ev_tag := tag; ev_data := d; ev_bad := false |}.
Definition xsn : snapshot := {| sn_vals := [(1, 10); (2, 10); (3, 10); (4, 10); (5, 10); (6, 10); (7, 10); (8, 10); (9, 10); (10, 10)]; sn_total := 100 |}.

(** exactly 10 % attested, no consensus: the nine silent validators are handed to Jail; valset
    refuses validator 3, everybody else is jailed *)
Example prune_at_floor_jails_silent :
  let m := {| pm_public := true; pm_error := false; pm_evs := [xev 1 0 7] |} in
  prune_calls xkeqb xkey (fun g => g) xsn m = [2; 3; 4; 5; 6; 7; 8; 9; 10] /\
  prune_job xkeqb xkey (fun g => g) (fun _ v => negb (v =? 3)) xsn [] m = [10; 9; 8; 7; 6; 5; 4; 2].
Proof. split; reflexivity. Qed.

(** one share short of 10 % (total recorded as 101): nobody *)
Example prune_below_floor_jails_nobody :
  prune_calls xkeqb xkey (fun g => g) {| sn_vals := sn_vals xsn; sn_total := 101 |}
    {| pm_public := true; pm_error := false; pm_evs := [xev 1 0 7] |} = [].
Proof. reflexivity. Qed.

(** contested: 4 + 4 validators on two different proofs, 2 silent: only the silent ones *)
Example prune_contested_jails_only_silent :
  prune_calls xkeqb xkey (fun g => g) xsn
    {| pm_public := true; pm_error := true;
       pm_evs := [xev 1 0 7; xev 2 0 7; xev 3 0 7; xev 4 0 7; xev 5 0 8; xev 6 0 8; xev 7 0 8; xev 8 0 8] |} = [9; 10].
Proof. reflexivity. Qed.

(** never delivered: nobody, whatever the evidence *)
Example prune_undelivered_jails_nobody :
  prune_calls xkeqb xkey (fun g => g) xsn {| pm_public := false; pm_error := false; pm_evs := [xev 1 0 7; xev 2 0 7] |} = [].
Proof. reflexivity. Qed.

(** Why ONE entry per validator matters (the shape T insists on): were a re-sent proof appended
    instead of replacing the first, validator 1's 6 % would be counted twice, the message would
    clear the floor and the nine silent validators would be handed to Jail -- while with the stored
    list the code builds, the same submissions jail nobody. *)
Definition xsn6 : snapshot := {| sn_vals := [(1, 6); (2, 10); (3, 10); (4, 10); (5, 10); (6, 10); (7, 10); (8, 10); (9, 10); (10, 14)]; sn_total := 100 |}.

Example resent_evidence_appended_would_jail :
  prune_calls xkeqb xkey (fun g => g) xsn6 {| pm_public := true; pm_error := false; pm_evs := [xev 1 0 7; xev 1 0 7] |}
    = [2; 3; 4; 5; 6; 7; 8; 9; 10] /\
  attested_power xsn6 [xev 1 0 7; xev 1 0 7] = 6 /\
  prune_calls xkeqb xkey (fun g => g) xsn6 (msg_of_submissions true false [xev 1 0 7; xev 1 0 7]) = [].
Proof. repeat split; reflexivity. Qed.

(** Why nothing may clear the list: error reported, validators 1..3 attest it, delivery reported and
    (as in seeded change L) the list cleared, validator 4 attests: 1..3 would be handed to Jail. *)
Example cleared_evidence_would_jail_attesters :
  prune_calls xkeqb xkey (fun g => g) xsn {| pm_public := true; pm_error := true; pm_evs := [xev 4 0 7] |}
    = [1; 2; 3; 5; 6; 7; 8; 9; 10] /\
  prune_calls xkeqb xkey (fun g => g) xsn
    (msg_of_history [MSetError; MEvidence (xev 1 1 9); MEvidence (xev 2 1 9); MEvidence (xev 3 1 9); MSetPublic; MEvidence (xev 4 0 7)])
    = [5; 6; 7; 8; 9; 10].
Proof. split; reflexivity. Qed.

