(** C06 — proofs about the consensus queue model (Cons/Queue.v).  [verify] stays an arbitrary function. *)
From Coq Require Import List ZArith Bool Lia String.
From Paloma Require Import Cons.Queue.
From Paloma Require Gen.C06.
Import ListNotations.
Open Scope Z_scope.

Section Proofs.
Variable Sig : Type.
Variable verify : sbytes -> Sig -> Z -> bool.

Notation item := (item Sig).
Notation state := (state Sig).
Notation op := (op Sig).
Notation sigent := (sigent Sig).
Notation step := (step Sig verify).
Notation run := (run Sig verify).
Notation run_from := (run_from Sig verify).

(** ** Lists of items *)

Lemma NoDup_snoc : forall (A : Type) (l : list A) x, NoDup l -> ~ In x l -> NoDup (l ++ [x]).
Proof.
  induction l as [|y r IH]; simpl; intros x ND Hn.
  - constructor; [intros []|constructor].
  - inversion ND; subst. constructor.
    + intros Hin. apply in_app_or in Hin as [Hin|[Hin|[]]]; [auto|subst; apply Hn; now left].
    + apply IH; auto.
Qed.

Lemma find_item_some : forall (l : list item) c id it,
  find_item l c id = Some it -> In it l /\ it_id it = id /\ it_chain it = c.
Proof.
  induction l as [|x r IH]; simpl; intros c id it H; [discriminate|].
  destruct ((it_id x =? id) && (it_chain x =? c)) eqn:E.
  - inversion H; subst. apply andb_true_iff in E as [E1 E2].
    apply Z.eqb_eq in E1. apply Z.eqb_eq in E2. auto.
  - destruct (IH _ _ _ H) as (a & b & c0). auto.
Qed.

Lemma nodup_id_unique : forall (l : list item) a b,
  NoDup (map it_id l) -> In a l -> In b l -> it_id a = it_id b -> a = b.
Proof.
  induction l as [|x r IH]; simpl; intros a b ND Ha Hb E; [contradiction|].
  inversion ND as [|? ? Hn ND']; subst.
  destruct Ha as [Ha|Ha], Hb as [Hb|Hb]; subst; auto.
  - exfalso. apply Hn. rewrite E. now apply in_map.
  - exfalso. apply Hn. rewrite <- E. now apply in_map.
Qed.

Lemma in_upd_item : forall (l : list item) id f it',
  In it' (upd_item Sig l id f) -> exists it, In it l /\ it' = (if it_id it =? id then f it else it).
Proof.
  unfold upd_item. intros l id f it' H. apply in_map_iff in H as (it & E & Hin). eauto.
Qed.

Lemma map_id_upd_item : forall (l : list item) id f,
  (forall it, it_id (f it) = it_id it) -> map it_id (upd_item Sig l id f) = map it_id l.
Proof.
  intros l id f Hf. unfold upd_item. rewrite map_map. apply map_ext.
  intros it. destruct (it_id it =? id); auto.
Qed.

(** ** Well-formedness: ids are unique and not above the counter *)

Definition wf (s : state) : Prop :=
  NoDup (map it_id (st_items s)) /\ Forall (fun it => it_id it <= st_next s) (st_items s).

Lemma wf_upd : forall (s : state) id f,
  (forall it, it_id (f it) = it_id it) -> wf s -> wf (set_items Sig s (upd_item Sig (st_items s) id f)).
Proof.
  intros s id f Hf [ND B]. split; simpl.
  - now rewrite map_id_upd_item.
  - apply Forall_forall. intros it' Hin. apply in_upd_item in Hin as (it & Hin & ->).
    rewrite Forall_forall in B. specialize (B _ Hin).
    destruct (it_id it =? id); [rewrite Hf|]; exact B.
Qed.

Lemma wf_step : forall s o, wf s -> wf (fst (step s o)).
Proof.
  intros s o W.
  destruct o as [v accts|chain k body relayer needs|v chain id addr sg|v chain id value|chain id e f|chain id|chain id r|chain id b']; simpl.
  - destruct (collides _ _ _); simpl; auto.
  - destruct W as [ND B]. split; simpl.
    + rewrite map_app. simpl. apply NoDup_snoc; auto.
      intros Hin. apply in_map_iff in Hin as (it & E & Hin).
      rewrite Forall_forall in B. specialize (B _ Hin). lia.
    + apply Forall_app. split.
      * eapply Forall_impl; [|exact B]. simpl. intros; lia.
      * constructor; [simpl; lia|constructor].
  - destruct (lookup_key _ _ _ _); [|exact W].
    destruct (find_item _ _ _); [|exact W].
    destruct (dup_check _ _ _ _); [exact W|].
    destruct (verify _ _ _); [|exact W].
    apply wf_upd; auto.
  - destruct (find_item _ _ _); [|exact W].
    destruct (negb _); [exact W|]. destruct (existsb _ _); [exact W|].
    apply wf_upd; auto.
  - destruct (find_item _ _ _) as [it|]; [|exact W].
    destruct (negb (it_needs_est it)); [exact W|].
    destruct (it_estimates it); [exact W|].
    destruct (negb (it_est it =? 0)); [exact W|]. destruct (e <=? 0); [exact W|].
    apply wf_upd; auto. intros x. destruct (is_fee_payer _); reflexivity.
  - destruct (find_item _ _ _); [|exact W].
    destruct W as [ND B]. split; simpl.
    + clear B. induction (st_items s) as [|x r IH]; simpl; [constructor|].
      inversion ND; subst. destruct (negb (it_id x =? id)); simpl; auto.
      constructor; auto. intros Hin. apply in_map_iff in Hin as (y & E & Hy).
      apply filter_In in Hy as [Hy _]. apply H1. rewrite <- E. now apply in_map.
    + apply Forall_forall. intros x Hx. apply filter_In in Hx as [Hx _].
      rewrite Forall_forall in B. auto.
  - destruct (find_item _ _ _); [|exact W]. apply wf_upd; auto.
  - destruct (find_item _ _ _); [|exact W]. apply wf_upd; auto.
Qed.

(** ** What one live step can do to an item that exists afterwards *)

Definition new_ent (v addr key : Z) (sg : Sig) : sigent :=
  {| se_val := v; se_addr := addr; se_key := key; se_sig := sg |}.

Inductive trans (s : state) (o : op) (it' : item) : Prop :=
| TFresh : it_sigs it' = [] -> (forall it, In it (st_items s) -> it_id it <> it_id it') -> trans s o it'
| TKeep (it : item) : In it (st_items s) -> it_id it = it_id it' -> it_chain it = it_chain it' ->
    sign_bytes it = sign_bytes it' -> it_sigs it' = it_sigs it -> trans s o it'
| TClear (it : item) : In it (st_items s) -> it_id it = it_id it' -> it_chain it = it_chain it' ->
    it_sigs it' = [] -> trans s o it'
| TSign (it : item) (v addr key : Z) (sg : Sig) :
    In it (st_items s) -> it_id it = it_id it' -> it_chain it = it_chain it' ->
    sign_bytes it = sign_bytes it' ->
    o = OpSign v (it_chain it) (it_id it) addr sg ->
    lookup_key (st_reg s) v (it_chain it) addr = Some key ->
    dup_check Sig (it_sigs it) v key = None ->
    verify (sign_bytes it) sg key = true ->
    it_sigs it' = it_sigs it ++ [new_ent v addr key sg] -> trans s o it'.

Lemma keep_self : forall s o it, In it (st_items s) -> trans s o it.
Proof. intros. eapply TKeep; eauto. Qed.

Lemma step_trans : forall s o it', wf s -> live_op o -> In it' (st_items (fst (step s o))) -> trans s o it'.
Proof.
  intros s o it' W L Hin.
  destruct o as [v accts|chain k body relayer needs|v chain id addr sg|v chain id value|chain id e f|chain id|chain id r|chain id b'];
    simpl in Hin.
  - destruct (collides _ _ _); simpl in Hin; now apply keep_self.
  - simpl in Hin. apply in_app_or in Hin as [Hin|[<-|[]]]; [now apply keep_self|].
    apply TFresh; [reflexivity|]. simpl. intros it Hit. destruct W as [_ B].
    rewrite Forall_forall in B. specialize (B _ Hit). lia.
  - destruct (lookup_key (st_reg s) v chain addr) as [key|] eqn:EK; [|now apply keep_self].
    destruct (find_item (st_items s) chain id) as [it0|] eqn:EF; [|now apply keep_self].
    destruct (dup_check Sig (it_sigs it0) v key) eqn:ED; [now apply keep_self|].
    destruct (verify (sign_bytes it0) sg key) eqn:EV; [|now apply keep_self].
    simpl in Hin. apply in_upd_item in Hin as (it & Hit & ->).
    apply find_item_some in EF as (H0 & Hid & Hch).
    destruct (it_id it =? id) eqn:E.
    + apply Z.eqb_eq in E. assert (it = it0) as ->.
      { apply (nodup_id_unique (st_items s)); [apply W|auto|auto|congruence]. }
      eapply (TSign s _ _ it0 v addr key sg); eauto; try reflexivity.
      * now rewrite Hid, Hch.
      * now rewrite Hch.
    + now apply keep_self.
  - destruct (find_item (st_items s) chain id) as [it0|] eqn:EF; [|now apply keep_self].
    destruct (negb (it_needs_est it0)); [now apply keep_self|].
    destruct (existsb _ (it_estimates it0)); [now apply keep_self|].
    simpl in Hin. apply in_upd_item in Hin as (it & Hit & ->).
    destruct (it_id it =? id); [|now apply keep_self].
    eapply TKeep; eauto; reflexivity.
  - destruct (find_item (st_items s) chain id) as [it0|] eqn:EF; [|now apply keep_self].
    destruct (negb (it_needs_est it0)); [now apply keep_self|].
    destruct (it_estimates it0); [now apply keep_self|].
    destruct (negb (it_est it0 =? 0)); [now apply keep_self|].
    destruct (e <=? 0); [now apply keep_self|].
    simpl in Hin. apply in_upd_item in Hin as (it & Hit & ->).
    destruct (it_id it =? id); [|now apply keep_self].
    eapply TClear; eauto; destruct (is_fee_payer (it_kind it)); reflexivity.
  - destruct (find_item (st_items s) chain id) as [it0|] eqn:EF; [|now apply keep_self].
    simpl in Hin. apply filter_In in Hin as [Hin _]. now apply keep_self.
  - destruct L.
  - destruct L.
Qed.

(** ** One signature per validator and per key (every op, the latent reassignment included) *)

Definition sigs_nodup (it : item) : Prop :=
  NoDup (map se_val (it_sigs it)) /\ NoDup (map se_key (it_sigs it)).

Lemma dup_check_none : forall (l : list sigent) v key,
  dup_check Sig l v key = None -> ~ In v (map se_val l) /\ ~ In key (map se_key l).
Proof.
  induction l as [|x r IH]; simpl; intros v key H; [tauto|].
  destruct (se_key x =? key) eqn:E1; [discriminate|].
  destruct (se_val x =? v) eqn:E2; [discriminate|].
  apply Z.eqb_neq in E1. apply Z.eqb_neq in E2. destruct (IH _ _ H). split; intros [?|?]; auto.
Qed.

Lemma trans_nodup : forall s o it', (forall it, In it (st_items s) -> sigs_nodup it) ->
  trans s o it' -> sigs_nodup it'.
Proof.
  intros s o it' H T. unfold sigs_nodup. destruct T as [E _|it Hin _ _ _ E|it Hin _ _ E|it v addr key sg Hin _ _ _ _ _ D _ E];
    rewrite E; simpl; try (split; constructor).
  - now apply H.
  - destruct (H _ Hin) as [N1 N2]. apply dup_check_none in D as [D1 D2].
    rewrite !map_app. simpl. split; apply NoDup_snoc; auto.
Qed.

Lemma reassign_nodup : forall s chain id r it',
  (forall it, In it (st_items s) -> sigs_nodup it) ->
  In it' (st_items (fst (step s (OpReassign chain id r)))) -> sigs_nodup it'.
Proof.
  intros s chain id r it' H Hin. simpl in Hin.
  destruct (find_item (st_items s) chain id); [|now apply H].
  simpl in Hin. apply in_upd_item in Hin as (it & Hit & ->).
  destruct (it_id it =? id); [|now apply H]. exact (H _ Hit).
Qed.

Lemma replace_nodup : forall s chain id b it',
  (forall it, In it (st_items s) -> sigs_nodup it) ->
  In it' (st_items (fst (step s (OpReplace chain id b)))) -> sigs_nodup it'.
Proof.
  intros s chain id b it' H Hin. simpl in Hin.
  destruct (find_item (st_items s) chain id); [|now apply H].
  simpl in Hin. apply in_upd_item in Hin as (it & Hit & ->).
  destruct (it_id it =? id); [|now apply H]. exact (H _ Hit).
Qed.

Lemma run_snoc : forall ops o, run (ops ++ [o]) = fst (step (run ops) o).
Proof. intros. unfold Queue.run, Queue.run_from. now rewrite fold_left_app. Qed.

Lemma wf_run : forall ops, wf (run ops).
Proof.
  induction ops as [|o ops IH] using rev_ind.
  - split; simpl; constructor.
  - rewrite run_snoc. now apply wf_step.
Qed.

Theorem one_sig_per_validator_and_key_all : forall ops it,
  In it (st_items (run ops)) -> sigs_nodup it.
Proof.
  induction ops as [|o ops IH] using rev_ind; intros it Hin.
  - destruct Hin.
  - rewrite run_snoc in Hin.
    assert (L : live_op o \/ (exists c i r, o = OpReassign c i r) \/ (exists c i b, o = OpReplace c i b)).
    { destruct o; simpl; eauto 6. }
    destruct L as [L|[(c & i & r & ->)|(c & i & b & ->)]].
    + apply (trans_nodup (run ops) o); [exact IH|]. apply step_trans; [apply wf_run|exact L|exact Hin].
    + eapply reassign_nodup; eauto.
    + eapply replace_nodup; eauto.
Qed.

(** ** Signatures are discarded when the signing bytes change *)

Theorem sigs_cleared_on_change_all : forall ops o it it',
  live_op o -> In it (st_items (run ops)) -> In it' (st_items (fst (step (run ops) o))) ->
  it_id it = it_id it' -> sign_bytes it' <> sign_bytes it -> it_sigs it' = [].
Proof.
  intros ops o it it' L Hin Hin' Eid Hne.
  pose proof (wf_run ops) as W.
  destruct (step_trans _ _ _ W L Hin') as [E _|x Hx Ex _ Eb _|x _ _ _ E|x v addr key sg Hx Ex _ Eb _ _ _ _ _]; auto.
  - exfalso. assert (x = it) as -> by (apply (nodup_id_unique (st_items (run ops))); [apply W|auto|auto|congruence]).
    now apply Hne.
  - exfalso. assert (x = it) as -> by (apply (nodup_id_unique (st_items (run ops))); [apply W|auto|auto|congruence]).
    now apply Hne.
Qed.

(** ** Every stored signature is valid for the item as it stands *)

(** [e] was put on [it] by a signing operation of the history: at that moment the validator's
    registered key for the item's chain and the named address was [se_key e], and the item's
    signing bytes were what they are now. *)
Definition signed_in (ops : list op) (it : item) (e : sigent) : Prop :=
  exists pre post it0,
    ops = pre ++ OpSign (se_val e) (it_chain it) (it_id it) (se_addr e) (se_sig e) :: post /\
    lookup_key (st_reg (run pre)) (se_val e) (it_chain it) (se_addr e) = Some (se_key e) /\
    In it0 (st_items (run pre)) /\ it_id it0 = it_id it /\ sign_bytes it0 = sign_bytes it.

Definition sig_ok (ops : list op) (it : item) (e : sigent) : Prop :=
  verify (sign_bytes it) (se_sig e) (se_key e) = true /\ signed_in ops it e.

Lemma sig_ok_extend : forall ops o it it' e,
  it_id it = it_id it' -> it_chain it = it_chain it' -> sign_bytes it = sign_bytes it' ->
  sig_ok ops it e -> sig_ok (ops ++ [o]) it' e.
Proof.
  intros ops o it it' e Eid Ech Eb [V (pre & post & it0 & -> & K & H0 & I0 & B0)].
  split; [now rewrite <- Eb|].
  exists pre, (post ++ [o]), it0. rewrite <- Eid, <- Ech, <- Eb.
  repeat split; auto. now rewrite <- app_assoc.
Qed.

Theorem stored_sigs_valid_all : forall ops, Forall live_op ops ->
  forall it e, In it (st_items (run ops)) -> In e (it_sigs it) -> sig_ok ops it e.
Proof.
  induction ops as [|o ops IH] using rev_ind; intros HL it' e Hin He.
  - destruct Hin.
  - apply Forall_app in HL as [HL Ho]. inversion Ho as [|? ? L _]; subst.
    specialize (IH HL). rewrite run_snoc in Hin.
    destruct (step_trans _ _ _ (wf_run ops) L Hin) as [E _|x Hx Ei Ec Eb E|x _ _ _ E|x v addr key sg Hx Ei Ec Eb Eo K _ V E].
    + rewrite E in He. destruct He.
    + rewrite E in He. eapply sig_ok_extend; eauto.
    + rewrite E in He. destruct He.
    + rewrite E in He. apply in_app_or in He as [He|[<-|[]]].
      * eapply sig_ok_extend; eauto.
      * split; simpl.
        -- now rewrite <- Eb.
        -- exists ops, [], x. simpl. rewrite <- Ei, <- Ec, <- Eb. repeat split; auto. now rewrite Eo.
Qed.

(** ** Put{MsgIDToReplace} for an arbitrary new body: when is a caller harmless?  Exactly when the replaced item has no
    signatures or the new body leaves the signing bytes as they are.  (The fee attachment of the end-blocker is such a
    caller: SetElectedGasEstimate has emptied SignData in the same cache context.  A caller that changes covered fields
    of a signed item is not: [replace_keeps_stale_sigs_witness].) *)
Definition all_sigs_valid (s : state) : Prop :=
  forall it e, In it (st_items s) -> In e (it_sigs it) -> verify (sign_bytes it) (se_sig e) (se_key e) = true.

Theorem replace_safe_all : forall s chain id b, wf s -> all_sigs_valid s ->
  (forall it, find_item (st_items s) chain id = Some it ->
              it_sigs it = [] \/ sign_bytes (with_body it b) = sign_bytes it) ->
  all_sigs_valid (fst (step s (OpReplace chain id b))).
Proof.
  intros s chain id b W V Hs it' e Hin He. simpl in Hin.
  destruct (find_item (st_items s) chain id) as [it0|] eqn:EF; [|now apply V].
  simpl in Hin. apply in_upd_item in Hin as (it & Hit & ->).
  destruct (it_id it =? id) eqn:E; [|now apply V].
  apply Z.eqb_eq in E. apply find_item_some in EF as (H0 & Hid & Hch).
  assert (it = it0) as -> by (apply (nodup_id_unique (st_items s)); [apply W|auto|auto|congruence]).
  destruct (Hs it0 eq_refl) as [Hn|Hb].
  - simpl in He. rewrite Hn in He. destruct He.
  - rewrite Hb. apply V; auto.
Qed.

End Proofs.

(** ** Non-vacuity examples and the latent-path witness (ideal signatures) *)

Definition ex_item (id : Z) (k : kind) (relayer est : Z) (f : option fees) : item isig :=
  {| it_id := id; it_chain := 1; it_kind := k; it_body := 7; it_relayer := relayer; it_needs_est := true;
     it_estimates := []; it_est := est; it_fees := f; it_sigs := [] |}.

Definition ex_sig (key : Z) (it : item isig) : isig := Some (key, sign_bytes it).

(** two validators register, a logic call is queued, both sign, a third signature by validator 1's
    key is refused, a stale-key signature is refused *)
Definition ex_ops_signed : list (op isig) :=
  [ OpRegister 1 [{| ac_chain := 1; ac_addr := 11; ac_key := 101; ac_eth := 11 |}];
    OpRegister 2 [{| ac_chain := 1; ac_addr := 12; ac_key := 102; ac_eth := 12 |}];
    OpPut 1 KSubmitLogicCall 7 55 true;
    OpSign 1 1 1 11 (ex_sig 101 (ex_item 1 KSubmitLogicCall 55 0 None));
    OpSign 2 1 1 12 (ex_sig 102 (ex_item 1 KSubmitLogicCall 55 0 None));
    OpSign 2 1 1 12 (ex_sig 102 (ex_item 1 KSubmitLogicCall 55 0 None)) ].

Example ex_two_valid_sigs :
  Forall (@live_op isig) ex_ops_signed /\
  exists it e1 e2, st_items (run isig iverify ex_ops_signed) = [it] /\ it_sigs it = [e1; e2] /\
    se_val e1 = 1 /\ se_key e1 = 101 /\ se_val e2 = 2 /\ se_key e2 = 102 /\
    iverify (sign_bytes it) (se_sig e1) (se_key e1) = true /\
    snd (step isig iverify (run isig iverify (firstn 5 ex_ops_signed)) (nth 5 ex_ops_signed (OpRemove 0 0))) = RDupKey.
Proof.
  split; [repeat constructor|]. vm_compute. do 3 eexists. repeat split; reflexivity.
Qed.

(** estimates arrive, the end-blocker elects 21000 and attaches fees: the two signatures are gone
    and the bytes have changed; signing the new bytes works, re-sending the old signature does not *)
Definition ex_ops_elected : list (op isig) :=
  firstn 5 ex_ops_signed ++
  [ OpEstimate 1 1 1 21000; OpEstimate 2 1 1 21000; OpElect 1 1 21000 (3, 4, 5);
    OpSign 1 1 1 11 (ex_sig 101 (ex_item 1 KSubmitLogicCall 55 0 None));
    OpSign 1 1 1 11 (ex_sig 101 (ex_item 1 KSubmitLogicCall 55 21000 (Some (3, 4, 5)))) ].

Example ex_election_clears :
  Forall (@live_op isig) ex_ops_elected /\
  (exists it, st_items (run isig iverify (firstn 7 ex_ops_elected)) = [it] /\ List.length (it_sigs it) = 2%nat /\
              sign_bytes it = sign_bytes (ex_item 1 KSubmitLogicCall 55 0 None)) /\
  (exists it, st_items (run isig iverify (firstn 8 ex_ops_elected)) = [it] /\ it_sigs it = [] /\
              it_est it = 21000 /\ it_fees it = Some (3, 4, 5) /\
              sign_bytes it <> sign_bytes (ex_item 1 KSubmitLogicCall 55 0 None)) /\
  snd (step isig iverify (run isig iverify (firstn 8 ex_ops_elected)) (nth 8 ex_ops_elected (OpRemove 0 0))) = RBadSig /\
  (exists it e, st_items (run isig iverify ex_ops_elected) = [it] /\ it_sigs it = [e] /\ se_val e = 1).
Proof.
  split; [repeat constructor|]. vm_compute.
  split; [eexists; repeat split; reflexivity|].
  split; [eexists; repeat split; try reflexivity; discriminate|].
  split; [reflexivity|]. do 2 eexists. repeat split; reflexivity.
Qed.

(** The latent path: Queue.ReassignValidator changes the relayer, which the bytes of a logic call cover,
    and keeps SignData.  After it the stored signature no longer verifies against the item's bytes. *)
Definition reassign_witness_ops : list (op isig) :=
  firstn 4 ex_ops_signed ++ [ OpReassign 1 1 66 ].

Lemma reassign_keeps_stale_sigs_witness :
  exists it e, In it (st_items (run isig iverify reassign_witness_ops)) /\ In e (it_sigs it) /\
    iverify (sign_bytes it) (se_sig e) (se_key e) = false /\
    (forall it0, In it0 (st_items (run isig iverify (firstn 4 reassign_witness_ops))) ->
       forall e0, In e0 (it_sigs it0) -> iverify (sign_bytes it0) (se_sig e0) (se_key e0) = true).
Proof.
  vm_compute. do 2 eexists. split; [left; reflexivity|]. split; [left; reflexivity|]. split; [reflexivity|].
  intros it0 [<-|[]] e0 [<-|[]]. reflexivity.
Qed.

(** Put{MsgIDToReplace} keeps SignData whatever the new body is: a caller that swaps the body of a SIGNED item for one
    with other signing bytes (a valset update pointed to another valset id, say) leaves signatures behind that no longer
    verify. *)
Definition replace_witness_ops : list (op isig) :=
  firstn 4 ex_ops_signed ++ [ OpReplace 1 1 99 ].

Lemma replace_keeps_stale_sigs_witness :
  exists it e, In it (st_items (run isig iverify replace_witness_ops)) /\ In e (it_sigs it) /\
    iverify (sign_bytes it) (se_sig e) (se_key e) = false /\
    (forall it0, In it0 (st_items (run isig iverify (firstn 4 replace_witness_ops))) ->
       forall e0, In e0 (it_sigs it0) -> iverify (sign_bytes it0) (se_sig e0) (se_key e0) = true).
Proof.
  vm_compute. do 2 eexists. split; [left; reflexivity|]. split; [left; reflexivity|]. split; [reflexivity|].
  intros it0 [<-|[]] e0 [<-|[]]. reflexivity.
Qed.
