(** GetMessagesForRelaying's response cap, exactly: the query returns the first
    [defaultResponseMessageCount] candidates in id order.  A message is returned iff it is a
    candidate and fewer than that many candidates (non-EVM payloads of the queue included) have a
    smaller id. *)
From Coq Require Import String List ZArith Bool Lia Sorting.Sorted.
From Paloma Require Import Base.Dec Cons.Fees Cons.Relay Cons.RelayProofs.
From Paloma Require Gen.C14.
Import ListNotations.
Open Scope Z_scope.

Example relay_cap_shape_is :
  Gen.C14.relay_cap_shape = "if len(msgs) > defaultResponseMessageCount {msgs = msgs[:defaultResponseMessageCount];}"%string.
Proof. reflexivity. Qed.

(** every poller, and GetPendingValsetUpdates they share, reads the WHOLE queue (count argument 0 = all:
    GetMessagesFromQueue truncates only when n > 0) and nothing is sliced before the filter: the model's
    [pending_valset_updates q = filter is_valset_update q] looks at every message, however long the backlog *)
Example queue_getters_are :
  Gen.C14.queue_getters =
  ["GetPendingValsetUpdates: GetMessagesFromQueue(_, _, 0) sliced-before-filter=false";
   "GetMessagesForRelaying: GetMessagesFromQueue(_, _, 0) sliced-before-filter=false";
   "GetMessagesForGasEstimation: GetMessagesFromQueue(_, _, 0) sliced-before-filter=false"]%string /\
  Gen.C14.get_messages_from_queue_bound = ["n > 0 && len(msgs) > n"]%string.
Proof. split; reflexivity. Qed.

Definition older_than (m : qmsg) (l : list qmsg) : list qmsg := filter (fun x => mid x <? mid m) l.

Lemma older_than_nil_of_lb m l : (forall y, In y l -> mid m <= mid y) -> older_than m l = [].
Proof.
  induction l as [|x r IH]; simpl; intros H; [reflexivity|].
  assert (mid m <= mid x) by (apply H; left; auto).
  destruct (mid x <? mid m) eqn:E; [apply Z.ltb_lt in E; lia|]. apply IH. intros y Hy. apply H. right; auto.
Qed.

Lemma firstn_sorted_in l : forall n m, sorted l ->
  (In m (firstn n l) <-> In m l /\ (length (older_than m l) < n)%nat).
Proof.
  induction l as [|x r IH]; intros n m Hs.
  - destruct n; simpl; split; try tauto; intros [[] _].
  - apply sorted_cons_inv in Hs as [Hs Hgt]. destruct n as [|k].
    + simpl. split; [tauto | intros [_ H]; lia].
    + cbn [firstn]. split.
      * intros [<-|H].
        -- split; [left; auto|]. unfold older_than. cbn [filter]. rewrite Z.ltb_irrefl.
           fold (older_than x r). rewrite older_than_nil_of_lb; [simpl; lia|].
           intros y Hy. specialize (Hgt _ Hy). lia.
        -- apply (IH k m Hs) in H as [Hin Hc]. split; [right; auto|].
           unfold older_than. cbn [filter]. specialize (Hgt _ Hin).
           assert (E : mid x <? mid m = true) by (apply Z.ltb_lt; lia). rewrite E. simpl.
           fold (older_than m r). lia.
      * intros [[<-|Hin] Hc]; [left; auto|]. right. apply (IH k m Hs). split; auto.
        unfold older_than in Hc. cbn [filter] in Hc. specialize (Hgt _ Hin).
        assert (E : mid x <? mid m = true) by (apply Z.ltb_lt; lia). rewrite E in Hc. simpl in Hc.
        fold (older_than m r) in Hc. lia.
Qed.

(** the candidates are a sub-sequence of the queue, hence id-sorted *)
Lemma relay_filter_sorted vus v q : forall lut, sorted q -> sorted (relay_filter vus v lut q).
Proof.
  induction q as [|x r IH]; simpl; intros lut Hs; [constructor|].
  apply sorted_cons_inv in Hs as [Hs Hgt].
  assert (Hc : forall l, sorted (x :: relay_filter vus v l r)).
  { intros l. constructor; [apply IH; exact Hs|]. apply Forall_forall. intros y Hy.
    unfold id_lt. apply Hgt. eapply relay_filter_in; eauto. }
  destruct (mkind x) as [a|]; [|apply Hc].
  destruct (not_blocked_by_valset vus x && unprocessed x); [|apply IH; exact Hs].
  destruct (sender_of a) as [s|].
  - destruct (existsb (Z.eqb s) lut); [apply IH; exact Hs|].
    destruct (has_gas_estimate x && assigned_to x v); [apply Hc | apply IH; exact Hs].
  - destruct (has_gas_estimate x && assigned_to x v); [apply Hc | apply IH; exact Hs].
Qed.

Lemma candidates_sorted q v : sorted q -> sorted (relay_candidates q v).
Proof. intros Hs. apply relay_filter_sorted. exact Hs. Qed.

Definition relayable (q : list qmsg) (v : Z) (m : qmsg) (a : action) : Prop :=
  In m q /\
  massignee m = v /\
  (mreq m = true -> 0 < mest m) /\
  mpad m = false /\ merr m = false /\
  (forall u, In u q -> is_valset_update u = true -> mid m <= mid u) /\
  (forall s m' a', sender_of a = Some s -> In m' q -> mkind m' = KEvm a' -> sender_of a' = Some s ->
                   mid m' < mid m -> unprocessed m' = true -> False).

Lemma candidate_iff_relayable q v m a :
  sorted q -> mkind m = KEvm a -> (In m (relay_candidates q v) <-> relayable q v m a).
Proof.
  intros Hs K. split.
  - intros H.
    pose proof (relay_filter_in _ _ _ _ _ H) as Hin.
    pose proof (relay_filter_local _ _ _ _ _ _ H K) as (G & He & Ha).
    unfold passes_gate in G. apply andb_true_iff in G as [Gv Gu].
    pose proof Gu as Gu'. unfold unprocessed in Gu. apply andb_true_iff in Gu as [Gp Ge].
    apply negb_true_iff in Gp. apply negb_true_iff in Ge.
    repeat split; auto.
    + apply Z.eqb_eq. exact Ha.
    + intros R. unfold has_gas_estimate in He. rewrite R in He. apply Z.ltb_lt. exact He.
    + apply not_blocked_all; auto.
    + intros s m' a' S Hin' K' S' Hlt U'.
      destruct (relay_filter_sender _ _ _ _ _ _ _ Hs H K S) as [_ Hold].
      apply (Hold m' a' Hin' Hlt K' S').
      unfold passes_gate. rewrite U'. rewrite (not_blocked_older _ _ _ Gv Hlt). reflexivity.
  - intros (Hin & Ha & He & Hp & Hr & Hv & Hsend).
    apply (relay_offer_complete_sorted q v m a); auto.
Qed.

Lemma relay_offer_exact_sorted q v m a :
  sorted q -> mkind m = KEvm a ->
  (In m (for_relaying q v) <->
   relayable q v m a /\ (length (older_than m (relay_candidates q v)) < Z.to_nat response_cap)%nat).
Proof.
  intros Hs K. unfold for_relaying.
  rewrite (firstn_sorted_in _ _ _ (candidates_sorted q v Hs)).
  rewrite (candidate_iff_relayable q v m a Hs K). tauto.
Qed.

Lemma relay_offer_exact_run c ops v m a :
  let q := queue (run c ops) in
  mkind m = KEvm a ->
  (In m (for_relaying q v) <->
   relayable q v m a /\ (length (older_than m (relay_candidates q v)) < Z.to_nat response_cap)%nat).
Proof. intros q. apply relay_offer_exact_sorted. apply run_sorted. Qed.

(** non-vacuity at the boundary: 1001 relayable messages of one assignee, the last one is withheld;
    after the first one is reported it is offered. *)
Definition cap_cfg : config := {| cfg_relayer_fees := []; cfg_community := 0; cfg_security := 0 |}.
Definition cap_ops (n : nat) : list op := repeat (OpPut (KEvm AOther) 0 false false) n.
Example cap_withholds_1001st :
  let q := queue (run cap_cfg (cap_ops 1001)) in
  length q = 1001%nat /\ length (relay_candidates q 0) = 1001%nat /\
  map mid (skipn 999 (for_relaying q 0)) = [1000].
Proof. vm_compute. repeat split. Qed.
Example cap_releases_after_report :
  let q := queue (run cap_cfg (cap_ops 1001 ++ [OpPublicAccess 1])) in
  map mid (skipn 999 (for_relaying q 0)) = [1001].
Proof. vm_compute. reflexivity. Qed.

(** a pending valset update behind a backlog of more than one page still holds back what follows it *)
Example valset_behind_backlog_blocks :
  let q := queue (run cap_cfg (repeat (OpPut (KEvm AOther) 1 false false) 1005 ++
                               [OpPut (KEvm AUpdateValset) 1 true false; OpPut (KEvm AOther) 0 false false])) in
  for_relaying q 0 = [] /\ length (relay_candidates q 1) = 1005%nat.
Proof. vm_compute. split; reflexivity. Qed.
