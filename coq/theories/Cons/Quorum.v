(** Model of util/libcons/consensus.go (VerifyEvidence, VerifyGasEstimates) and of the
    per-message evidence / estimate bookkeeping in x/consensus/types/consensus.go and
    x/consensus/keeper/consensus/consensus.go (AddEvidence, AddGasEstimate,
    SetElectedGasEstimate).  No proofs in this file. *)
From Coq Require Import List ZArith Bool.
From Paloma Require Import Base.Num Cons.Median.
From Paloma Require Gen.C04.
Import ListNotations.
Open Scope Z_scope.

Definition val := Z.

(** Snapshot: validators with shares (first match wins, as Snapshot.GetValidator) and the
    recorded TotalShares (kept separate: the code never re-derives it). *)
Record snapshot := { sn_vals : list (val * Z); sn_total : Z }.

Fixpoint share_of (l : list (val * Z)) (v : val) : option Z :=
  match l with
  | [] => None
  | (u, s) :: r => if u =? v then Some s else share_of r v
  end.

(** consensusPower: the running sum exists only after the first [add]. *)
Fixpoint tally_from (sn : snapshot) (acc : option Z) (vs : list val) : option Z :=
  match vs with
  | [] => acc
  | v :: r =>
    match share_of (sn_vals sn) v with
    | None => tally_from sn acc r
    | Some s => tally_from sn (Some (match acc with None => 0 | Some a => a end + s)) r
    end
  end.
Definition tally (sn : snapshot) (vs : list val) : option Z := tally_from sn None vs.

Definition consensus (sn : snapshot) (t : option Z) : bool :=
  match t with
  | None => false
  | Some s => Gen.C04.quorum_total_factor * sn_total sn <=? Gen.C04.quorum_sum_factor * s
  end.

(** A piece of evidence: who, proof type (type URL), proof bytes (what BytesToHash returns),
    and whether unpacking / BytesToHash fails. *)
Record evidence := { ev_val : val; ev_tag : Z; ev_data : Z; ev_bad : bool }.

Inductive outcome := Winner (e : evidence) | NotAchieved | Failed.

Section WithKey.
  (** Group key: the code's hex(sha256(...)).  [gk] is abstract; theorems speak about equal
      keys and X instantiates it with an injective pairing (collision-free idealisation). *)
  Context {K : Type} (keqb : K -> K -> bool) (gk : Z -> Z -> K).

  Record group := { g_key : K; g_rep : evidence; g_vals : list val }.

  Fixpoint group_add (gs : list group) (e : evidence) : list group :=
    match gs with
    | [] => [ {| g_key := gk (ev_tag e) (ev_data e); g_rep := e; g_vals := [ev_val e] |} ]
    | g :: r =>
      if keqb (g_key g) (gk (ev_tag e) (ev_data e))
      then {| g_key := g_key g; g_rep := g_rep g; g_vals := g_vals g ++ [ev_val e] |} :: r
      else g :: group_add r e
    end.

  Definition groups_of (evs : list evidence) : list group := fold_left group_add evs [].

  Fixpoint first_consensus (sn : snapshot) (gs : list group) : outcome :=
    match gs with
    | [] => NotAchieved
    | g :: r => if consensus sn (tally sn (g_vals g)) then Winner (g_rep g) else first_consensus sn r
    end.

  (** [ord] stands for Go's map iteration order over the groups. *)
  Definition verify_evidence (ord : list group -> list group) (sn : snapshot) (evs : list evidence) : outcome :=
    if negb (consensus sn (tally sn (map ev_val evs))) then NotAchieved
    else if existsb ev_bad evs then Failed
    else first_consensus sn (ord (groups_of evs)).
End WithKey.


(** Gas estimates. *)
Record estimate := { es_val : val; es_value : Z }.
Inductive est_outcome := Elected (v : Z) | EstNotAchieved | EstZero.

Definition verify_gas_estimates (sn : snapshot) (es : list estimate) : est_outcome :=
  if negb (consensus sn (tally sn (map es_val es))) then EstNotAchieved
  else let w := median64 (map es_value es) in
       if w =? 0 then EstZero else Elected w.

(** Per-message bookkeeping. *)
Fixpoint add_evidence (evs : list evidence) (e : evidence) : list evidence :=
  match evs with
  | [] => [e]
  | x :: r => if ev_val x =? ev_val e
              then {| ev_val := ev_val x; ev_tag := ev_tag e; ev_data := ev_data e; ev_bad := ev_bad e |} :: r
              else x :: add_evidence r e
  end.

Record qmsg := { q_requires : bool; q_estimates : list estimate; q_elected : Z; q_nsigs : nat }.

Definition add_gas_estimate (m : qmsg) (e : estimate) : option qmsg :=
  if negb (q_requires m) then None
  else if existsb (fun x => es_val x =? es_val e) (q_estimates m) then None
  else Some {| q_requires := q_requires m; q_estimates := q_estimates m ++ [e];
               q_elected := q_elected m; q_nsigs := q_nsigs m |}.

Definition set_elected (m : qmsg) (v : Z) : option qmsg :=
  if negb (q_requires m) then None
  else if negb (q_elected m =? 0) then None
  else Some {| q_requires := true; q_estimates := q_estimates m; q_elected := v; q_nsigs := 0 |}.

(** checkAndProcessEstimatedMessage, end-block step for one message. *)
Definition process_estimates (sn : snapshot) (m : qmsg) : qmsg :=
  if negb (q_requires m) then m
  else match q_estimates m with
       | [] => m
       | _ => if 0 <? q_elected m then m
              else match verify_gas_estimates sn (q_estimates m) with
                   | Elected w => match set_elected m w with Some m' => m' | None => m end
                   | _ => m
                   end
       end.
