(** Model of util/libcons/consensus.go (VerifyEvidence, VerifyGasEstimates) and of the
    per-message evidence / estimate bookkeeping in x/consensus/types/consensus.go and
    x/consensus/keeper/consensus/consensus.go (AddEvidence, AddGasEstimate,
    SetElectedGasEstimate).  No proofs in this file. *)
From Coq Require Import List ZArith Bool.
From Paloma Require Import Base.Num Cons.Median.
From Paloma Require Gen.C04.
Import ListNotations.
Open Scope Z_scope.

Definition val := Z.

(** Snapshot: validators with shares (first match wins, as Snapshot.GetValidator) and the
    recorded TotalShares (kept separate: the code never re-derives it). *)
Record snapshot := { sn_vals : list (val * Z); sn_total : Z }.

Fixpoint share_of (l : list (val * Z)) (v : val) : option Z :=
  match l with
  | [] => None
  | (u, s) :: r => if u =? v then Some s else share_of r v
  end.

(** consensusPower: the running sum exists only after the first [add]. *)
Fixpoint tally_from (sn : snapshot) (acc : option Z) (vs : list val) : option Z :=
  match vs with
  | [] => acc
  | v :: r =>
    match share_of (sn_vals sn) v with
    | None => tally_from sn acc r
    | Some s => tally_from sn (Some (match acc with None => 0 | Some a => a end + s)) r
    end
  end.
Definition tally (sn : snapshot) (vs : list val) : option Z := tally_from sn None vs.

(** Specification-level reading of a snapshot (used by the theorems, not by the model of the
    code): the share a validator address stands for (0 for an outsider), membership, and the
    share sum of a list of addresses. *)
Definition share0 (l : list (val * Z)) (v : val) : Z := match share_of l v with Some s => s | None => 0 end.
Definition insider (l : list (val * Z)) (v : val) : bool := match share_of l v with Some _ => true | None => false end.
Definition power (sn : snapshot) (vs : list val) : Z := zsum (map (share0 (sn_vals sn)) vs).

Definition consensus (sn : snapshot) (t : option Z) : bool :=
  match t with
  | None => false
  | Some s => Gen.C04.quorum_total_factor * sn_total sn <=? Gen.C04.quorum_sum_factor * s
  end.

(** A piece of evidence: who, proof type (type URL), proof bytes (what BytesToHash returns),
    and whether unpacking / BytesToHash fails. *)
Record evidence := { ev_val : val; ev_tag : Z; ev_data : Z; ev_bad : bool }.

Inductive outcome := Winner (e : evidence) | NotAchieved | Failed.

Section WithKey.
  (** Group key: the code's hex(sha256(...)).  [gk] is abstract; theorems speak about equal
      keys and X instantiates it with an injective pairing (collision-free idealisation). *)
  Context {K : Type} (keqb : K -> K -> bool) (gk : Z -> Z -> K).

  Record group := { g_key : K; g_rep : evidence; g_vals : list val }.

  (** The key of a piece of evidence and the validators that submitted evidence with key [k]. *)
  Definition ev_key (e : evidence) : K := gk (ev_tag e) (ev_data e).
  Definition backers (evs : list evidence) (k : K) : list val :=
    map ev_val (filter (fun e => keqb k (ev_key e)) evs).

  Fixpoint group_add (gs : list group) (e : evidence) : list group :=
    match gs with
    | [] => [ {| g_key := gk (ev_tag e) (ev_data e); g_rep := e; g_vals := [ev_val e] |} ]
    | g :: r =>
      if keqb (g_key g) (gk (ev_tag e) (ev_data e))
      then {| g_key := g_key g; g_rep := g_rep g; g_vals := g_vals g ++ [ev_val e] |} :: r
      else g :: group_add r e
    end.

  Definition groups_of (evs : list evidence) : list group := fold_left group_add evs [].

  Fixpoint first_consensus (sn : snapshot) (gs : list group) : outcome :=
    match gs with
    | [] => NotAchieved
    | g :: r => if consensus sn (tally sn (g_vals g)) then Winner (g_rep g) else first_consensus sn r
    end.

  (** [ord] stands for Go's map iteration order over the groups. *)
  Definition verify_evidence (ord : list group -> list group) (sn : snapshot) (evs : list evidence) : outcome :=
    if negb (consensus sn (tally sn (map ev_val evs))) then NotAchieved
    else if existsb ev_bad evs then Failed
    else first_consensus sn (ord (groups_of evs)).
End WithKey.

(** The key the code builds: TypeUrl + "/" + hex(sha256(BytesToHash)).  [h] is the (abstract,
    never assumed injective) hash of the pair; which components enter comes from the source. *)
Definition code_key {K : Type} (h : Z -> Z -> K) (tag data : Z) : K :=
  h (if Gen.C04.group_key_covers_type then tag else 0) (if Gen.C04.group_key_covers_bytes then data else 0).

(** Byte-identical evidence: same proof type and same proof bytes. *)
Definition identical (w e : evidence) : bool := (ev_tag e =? ev_tag w) && (ev_data e =? ev_data w).

Definition outcome_is_winner (o : outcome) : bool := match o with Winner _ => true | _ => false end.

(** Gas estimates. *)
Record estimate := { es_val : val; es_value : Z }.
Inductive est_outcome := Elected (v : Z) | EstNotAchieved | EstZero.

Definition verify_gas_estimates (sn : snapshot) (es : list estimate) : est_outcome :=
  if negb (consensus sn (tally sn (map es_val es))) then EstNotAchieved
  else let w := median64 (map es_value es) in
       if w =? 0 then EstZero else Elected w.

(** Per-message bookkeeping. *)
Fixpoint add_evidence (evs : list evidence) (e : evidence) : list evidence :=
  match evs with
  | [] => [e]
  | x :: r => if ev_val x =? ev_val e
              then {| ev_val := ev_val x; ev_tag := ev_tag e; ev_data := ev_data e; ev_bad := ev_bad e |} :: r
              else x :: add_evidence r e
  end.

Record qmsg := { q_requires : bool; q_estimates : list estimate; q_elected : Z; q_nsigs : nat }.

Definition add_gas_estimate (m : qmsg) (e : estimate) : option qmsg :=
  if negb (q_requires m) then None
  else if existsb (fun x => es_val x =? es_val e) (q_estimates m) then None
  else Some {| q_requires := q_requires m; q_estimates := q_estimates m ++ [e];
               q_elected := q_elected m; q_nsigs := q_nsigs m |}.

Definition set_elected (m : qmsg) (v : Z) : option qmsg :=
  if negb (q_requires m) then None
  else if negb (q_elected m =? 0) then None
  else Some {| q_requires := true; q_estimates := q_estimates m; q_elected := v; q_nsigs := 0 |}.

(** checkAndProcessEstimatedMessage, end-block step for one message. *)
Definition process_estimates (sn : snapshot) (m : qmsg) : qmsg :=
  if negb (q_requires m) then m
  else match q_estimates m with
       | [] => m
       | _ => if 0 <? q_elected m then m
              else match verify_gas_estimates sn (q_estimates m) with
                   | Elected w => match set_elected m w with Some m' => m' | None => m end
                   | _ => m
                   end
       end.

(** Everything that can happen to one queued message as far as estimates are concerned. *)
Inductive qm_op :=
| OpAddEstimate (e : estimate)      (* Queue.AddGasEstimate *)
| OpSetElected (v : Z)              (* Queue.SetElectedGasEstimate called directly *)
| OpEndBlock (sn : snapshot).       (* checkAndProcessEstimatedMessage under the current snapshot *)

Definition qm_step (m : qmsg) (o : qm_op) : qmsg :=
  match o with
  | OpAddEstimate e => match add_gas_estimate m e with Some m' => m' | None => m end
  | OpSetElected v => match set_elected m v with Some m' => m' | None => m end
  | OpEndBlock sn => process_estimates sn m
  end.

Definition system_op (o : qm_op) : Prop := match o with OpSetElected _ => False | _ => True end.
